import PyYetiVerif.Model.NasCards
import PyYetiVerif.Model.NasCardsMulti
import PyYetiVerif.Spec.NasFloatField
/-! Line protocol for C12 (strings travel as hex of their code points < 256, doubles as decimal
bit patterns).
  all  <bits>                 → `<format_float8>|<format_float16>|<format_double16>`
  sci  <bits>                 → `<_format_scientific8>|<_format_scientific16>`
  fmtf <p> <bits> / fmte <p> <bits> → `'%.{p}f' % x` / `'%.{p}e' % x`
  float <hex>                 → bits | `none`            (`float(s)`)
  round <bits>                → `round(x)`
  scan <hex>                  → `i<int>` | `f<bits>` | `s<hex>` | `n`   (`nas_sscanf(s, True)`)
  fld <hex>                   → `<neg 0|1>|<ip>|<fp>|<D 0|1|->|<exp sign +|-|->|<exp digits>|<bits>` | `none`
                                 (the recogniser `fieldOf?` of the emitted-field grammar; bits = nearest
                                 double of the decimal the field denotes)
  d16 <bits>                  → `<format_double16>`
  wt8 | wt16 | wt16d <namehex> <tok>…   tok = `b` | `s<hex>` | `i<int>` | `f<bits>` → hex of text | `value-error`
  rd <keepName 0|1> <namehex> <texthex> → cards joined by `;`, values by `,`
  tabs <hex>                  → hex of `s.expandtabs()`
  fs <pathex> <texthex>       → `<linehex> <p>` | `none`      (`fsearch` from the start of the text)
  wtx8 | wtx16 | wtx16d <namehex> <tok>…   tok as above or `x` (a field of an unsupported type)
                              → hex of text | `value-error` | `type-error`
  rdx <a|l|d> <f|i> <keepName 0|1> <keepComments 0|1> <blank: - | i<int> | f<bits> | s<hex>>
      <matcher: p<namehex> | b<one 0/1 per line: the regex verdicts>> <texthex>
                              → `nodata` | `L:` items `;`-joined (`c<vals>` | `m<hex>`) |
                                `A:<rows>x<cols>:` rows | `D:` `key=vals` entries | `exc:IndexError` | `exc:ValueError`
  anything else → `bad-op` -/
open PyYetiVerif.PyFloat PyYetiVerif.NasFloat PyYetiVerif.NasCards

def hexVal (c : Char) : Option Nat :=
  if '0' ≤ c && c ≤ '9' then some (c.toNat - 48)
  else if 'a' ≤ c && c ≤ 'f' then some (c.toNat - 87) else none

def unhex : List Char → Option Str
  | [] => some []
  | a :: b :: t => do
      let x ← hexVal a
      let y ← hexVal b
      let r ← unhex t
      pure (Char.ofNat (16 * x + y) :: r)
  | _ => none

def hexDigit (n : Nat) : Char := if n < 10 then Char.ofNat (48 + n) else Char.ofNat (87 + n)
def tohex (s : Str) : String :=
  String.ofList (s.flatMap fun c => [hexDigit (c.toNat / 16 % 16), hexDigit (c.toNat % 16)])

def unhexS (w : String) : Option Str := if w == "-" then some [] else unhex w.toList

def dbl? (w : String) : Option Dbl := w.toNat?.bind ofBits

def showVal : NasVal → String
  | .int n => s!"i{n}"
  | .flt b => s!"f{b}"
  | .str s => "s" ++ tohex s
  | .none => "n"

def tok? (w : String) : Option Tok :=
  match w.toList with
  | ['b'] => some .blank
  | 's' :: h => (unhex h).map .str
  | 'i' :: d => (String.ofList d).toInt?.map .int
  | 'f' :: d => (String.ofList d).toNat?.map .flt
  | _ => none

def wt (f : Str → List Tok → Option Str) (nm : String) (ws : List String) : String :=
  match unhexS nm, ws.mapM tok? with
  | some name, some toks =>
    match f name toks with
    | some t => tohex t
    | none => "value-error"
  | _, _ => "bad-op"

def tokx? (w : String) : Option TokX :=
  if w == "x" then some .bad else (tok? w).map .ok

def showWt : WtResult → String
  | .text t => tohex t
  | .valueError => "value-error"
  | .typeError => "type-error"

def wtx (f : Str → List Tok → Option Str) (nm : String) (ws : List String) : String :=
  match unhexS nm, ws.mapM tokx? with
  | some name, some toks => showWt (wtcardX f name toks)
  | _, _ => "bad-op"

def showVals (c : List NasVal) : String := ",".intercalate (c.map showVal)

def showItem : Item → String
  | .card v => "c" ++ showVals v
  | .comment r => "m" ++ tohex r

def showRes : RdResult → String
  | .noData => "nodata"
  | .list items => "L:" ++ ";".intercalate (items.map showItem)
  | .array n rows => s!"A:{rows.length}x{n}:" ++ ";".intercalate (rows.map showVals)
  | .dict es => "D:" ++ ";".intercalate (es.map fun e => showVal e.1 ++ "=" ++ showVals e.2)
  | .indexError => "exc:IndexError"
  | .valueError => "exc:ValueError"

def blank? (w : String) : Option (Option NasVal) :=
  match w.toList with
  | ['-'] => some none
  | 's' :: h => (unhexS (String.ofList h)).map fun s => some (.str s)
  | 'i' :: d => (String.ofList d).toInt?.map fun n => some (.int n)
  | 'f' :: d => (String.ofList d).toNat?.map fun n => some (.flt n)
  | _ => none

/-- classify the lines with externally supplied matcher verdicts (one per line) -/
def prepBits (keepC : Bool) : List Str → List Bool → List TLine
  | [], _ => []
  | l :: ls, bs =>
    (if keepC && isCommentLine l then ⟨true, l, false⟩ else ⟨false, expandTabs l, bs.headD false⟩) ::
      prepBits keepC ls bs.tail

def rdx (rv dt k c bl mt tx : String) : String :=
  let rv? : Option RetVar := match rv with
    | "a" => some .array | "l" => some .list | "d" => some .dict | _ => none
  let dt? : Option DType := match dt with
    | "f" => some .float | "i" => some .int | _ => none
  match rv?, dt?, blank? bl, unhexS tx with
  | some rv, some dt, some bl, some text =>
    let o : RdOpts := ⟨bl, rv, dt, k == "1", c == "1"⟩
    let ls := fileLines text
    match mt.toList with
    | 'p' :: h => match unhexS (String.ofList h) with
        | some name => showRes (rdcardsFull o (prefixMatch name) ls)
        | none => "bad-op"
    | 'b' :: bits =>
        showRes (rdcardsT o (prepBits (effTolist o && o.keepComments) ls (bits.map (· == '1'))))
    | _ => "bad-op"
  | _, _, _, _ => "bad-op"

def answer (line : String) : String :=
  match (line.splitOn " ").filter (· ≠ "") with
  | ["all", b] => match dbl? b with
      | some x => String.ofList (formatFloat8 x ++ ['|'] ++ formatFloat16 x ++ ['|'] ++ formatDouble16 x)
      | none => "bad-op"
  | ["fld", h] => match unhexS h with
      | some s => match fieldOf? s with
          | some f =>
            let b01 (b : Bool) : String := if b then "1" else "0"
            let ex : String := match f.ex with
              | none => "-|-|"
              | some e => b01 e.dmark ++ "|" ++ (if e.eneg then "-" else "+") ++ "|" ++ String.ofList e.ds
            b01 f.neg ++ "|" ++ String.ofList f.ip ++ "|" ++ String.ofList f.fp ++ "|" ++ ex ++ "|" ++
              toString (toBits f.dec.1 f.dec.2.1 f.dec.2.2)
          | none => "none"
      | none => "bad-op"
  | ["sci", b] => match dbl? b with
      | some x => String.ofList (formatScientific8 x ++ ['|'] ++ formatScientific16 x)
      | none => "bad-op"
  | ["fmtf", p, b] => match p.toNat?, dbl? b with
      | some p, some x => String.ofList (fmtF p x)
      | _, _ => "bad-op"
  | ["fmte", p, b] => match p.toNat?, dbl? b with
      | some p, some x => String.ofList (fmtE p x)
      | _, _ => "bad-op"
  | ["round", b] => match dbl? b with
      | some x => toString (roundInt x)
      | none => "bad-op"
  | ["float", h] => match unhexS h with
      | some s => match parseFloat? s with
          | some b => toString b
          | none => "none"
      | none => "bad-op"
  | ["scan", h] => match unhexS h with
      | some s => showVal (nasSscanf s true)
      | none => "bad-op"
  | "wt8" :: nm :: ws => wt wtcard8 nm ws
  | "wt16" :: nm :: ws => wt wtcard16 nm ws
  | "wt16d" :: nm :: ws => wt wtcard16d nm ws
  | "wtx8" :: nm :: ws => wtx wtcard8 nm ws
  | "wtx16" :: nm :: ws => wtx wtcard16 nm ws
  | "wtx16d" :: nm :: ws => wtx wtcard16d nm ws
  | ["tabs", h] => match unhexS h with
      | some s => tohex (expandTabs s)
      | none => "bad-op"
  | ["fs", ph, tx] => match unhexS ph, unhexS tx with
      | some pat, some text => match fsearch pat (fileLines text) with
          | some (l, p) => tohex l ++ " " ++ toString p
          | none => "none"
      | _, _ => "bad-op"
  | ["rdx", rv, dt, k, c, bl, mt, tx] => rdx rv dt k c bl mt tx
  | ["rd", k, nm, tx] => match unhexS nm, unhexS tx with
      | some name, some text =>
        ";".intercalate ((rdcards name (k == "1") text).map fun c => ",".intercalate (c.map showVal))
      | _, _ => "bad-op"
  | _ => "bad-op"

partial def loop (h : IO.FS.Stream) (out : IO.FS.Stream) : IO Unit := do
  let line ← h.getLine
  if line.isEmpty then return ()
  out.putStrLn (answer (line.trimAscii.toString))
  loop h out

def main : IO Unit := do
  loop (← IO.getStdin) (← IO.getStdout)
