import PyYetiVerif.Model.Newmark
import PyYetiVerif.Model.Cdf
/-! Line protocol for C17.  Every floating-point number travels as the decimal value of its
IEEE-754 bit pattern; integers in decimal.

`sc  nt m b k h d0 v0 F_0 … F_{nt-1}`
      scalar instance `scalarSys` (one diagonal DOF) → `ok d… v… a…` (3·nt numbers) | `index-error`
`mx  n nt h M(n·n, row-major) B K  F(nt columns of n)  d0(n) v0(n)  nterms {kind p q c g T(n)}*`
      matrix instance `matSys` with Gaussian elimination as `solve`; nonlinear term `i` is
      `T_i * z_i(d_j, d_{j-1}, j, h)` with a scalar `z_i` of kind
        0: c·x_p³    1: c·max(x_p − x_q − g, 0)    2: c·w·|w|, w = (x_p − xprev_p)/h    3: c·x_p·j + g
      → `ok d(nt columns of n) v a` | `index-error`
`cdf n nt order F G A B Fp Gp Ap Bp (n each) bo(n·n) alpha(n·n) P(nt columns of n) d0 v0`
      → `ok d(nt columns of n) v`   (`alpha` given by the caller)
`cdfa n nt order F G A B Fp Gp Ap Bp (n each) bo(n·n) P(nt columns of n) d0 v0`
      the same with `alpha = alphaMat Bp bo gaussSolve` computed by the model
      → `ok alpha(n·n, row-major) d(nt columns of n) v`
`rfm n nt Krf(n·n) F(nt columns of n)` → `ok d(nt columns of n)`   (`rfStaticMat` with Gaussian elimination)
anything else → `bad-op`. -/
open PyYetiVerif PyYetiVerif.Newmark

instance : Inhabited (Vec Float) := ⟨⟨#[]⟩⟩

abbrev P := StateT (List String) Option

def tok : P String := do
  match (← get) with
  | t :: ts => set ts; pure t
  | [] => failure

def nat : P Nat := do
  match (← tok).toNat? with
  | some n => pure n
  | none => failure

def flt : P Float := do pure (Float.ofBits (UInt64.ofNat (← nat)))

def many {β : Type} (n : Nat) (p : P β) : P (Array β) := do
  let mut out := #[]
  for _ in [0:n] do out := out.push (← p)
  pure out

def vec (n : Nat) : P (Vec Float) := do pure ⟨← many n flt⟩
def mat (n : Nat) : P (Mat Float) := many n (many n flt)

def bits (x : Float) : String := toString x.toBits.toNat
def fmtVecs (xs : List (Vec Float)) : String :=
  " ".intercalate (xs.map fun v => " ".intercalate (v.a.toList.map bits))

/-- Gaussian elimination with partial pivoting (the `solve` parameter of `matSys`) -/
def gaussSolve (A : Mat Float) (b : Vec Float) : Vec Float := Id.run do
  let n := A.size
  let mut M : Array (Array Float) := (Array.range n).map fun i => (A[i]!).push (b.a[i]!)
  for c in [0:n] do
    let mut p := c
    for r in [c+1:n] do
      if (M[r]![c]!).abs > (M[p]![c]!).abs then p := r
    let tmp := M[c]!
    M := M.set! c M[p]!
    M := M.set! p tmp
    let rowc := M[c]!
    let piv := rowc[c]!
    for r in [c+1:n] do
      let f := M[r]![c]! / piv
      M := M.modify r fun row => Array.zipWith (fun x y => x - f * y) row rowc
  let mut x : Array Float := Array.replicate n 0.0
  for i' in [0:n] do
    let i := n - 1 - i'
    let mut s := M[i]![n]!
    for j in [i+1:n] do
      s := s - M[i]![j]! * x[j]!
    x := x.set! i (s / M[i]![i]!)
  return ⟨x⟩

structure Term where
  kind : Nat
  p : Nat
  q : Nat
  c : Float
  g : Float
  T : Vec Float

def term (n : Nat) : P Term := do
  pure { kind := ← nat, p := ← nat, q := ← nat, c := ← flt, g := ← flt, T := ← vec n }

def zval (t : Term) (h : Float) (j : Nat) (x xp : Vec Float) : Float :=
  let xp_ := x.a[t.p]!
  match t.kind with
  | 0 => t.c * (xp_ * xp_ * xp_)
  | 1 => let e := xp_ - x.a[t.q]! - t.g
         t.c * (if e > 0 then e else 0)
  | 2 => let w := (xp_ - xp.a[t.p]!) / h
         t.c * (w * w.abs)
  | _ => t.c * xp_ * j.toFloat + t.g

/-- `N = Σ T'_i @ z_i` with `T'_i = lu_solve(Ad, T_i)` -/
def mkNl (n : Nat) (S : Sys (Vec Float) Float) (terms : Array Term) : Nat → List (Vec Float) → Vec Float :=
  let pre := terms.map fun t => (t, S.solve t.T)
  fun j hist =>
    match hist with
    | x :: xp :: _ =>
      pre.foldl (fun acc (t, Tp) => acc + VecOps.smul (zval t S.h j x xp) Tp) ⟨Array.replicate n 0.0⟩
    | _ => ⟨Array.replicate n 0.0⟩

def fmtHist {V : Type} (f : List V → String) (r : Option (Hist V)) : String :=
  match r with
  | some hh => s!"ok {f hh.d} {f hh.v} {f hh.a}"
  | none => "index-error"

def opSc : P String := do
  let nt ← nat
  let m ← flt; let b ← flt; let k ← flt; let h ← flt; let d0 ← flt; let v0 ← flt
  let F ← many nt flt
  let r := run (scalarSys m b k h) (fun _ _ => (0.0 : Float)) F.toList d0 v0
  pure (fmtHist (fun xs => " ".intercalate (xs.map bits)) r)

def opMx : P String := do
  let n ← nat; let nt ← nat; let h ← flt
  let M ← mat n; let B ← mat n; let K ← mat n
  let F ← many nt (vec n)
  let d0 ← vec n; let v0 ← vec n
  let terms ← many (← nat) (term n)
  let S := matSys M B K h gaussSolve
  pure (fmtHist fmtVecs (run S (mkNl n S terms) F.toList d0 v0))

def diagOp (c : Vec Float) : Vec Float → Vec Float := fun x => ⟨Array.zipWith (· * ·) c.a x.a⟩

def opCdf : P String := do
  let n ← nat; let nt ← nat; let order ← nat
  let cs ← many 8 (vec n)
  let bo ← mat n; let al ← mat n
  let Pf ← many nt (vec n)
  let d0 ← vec n; let v0 ← vec n
  let C : Cdf.Ops (Vec Float) :=
    { F := diagOp cs[0]!, G := diagOp cs[1]!, A := diagOp cs[2]!, B := diagOp cs[3]!,
      Fp := diagOp cs[4]!, Gp := diagOp cs[5]!, Ap := diagOp cs[6]!, Bp := diagOp cs[7]!,
      bo := matVec bo, alpha := matVec al }
  let r := Cdf.cdfRun C (order == 1) d0 v0 Pf.toList
  pure s!"ok {fmtVecs (r.map (·.1))} {fmtVecs (r.map (·.2.1))}"

def opCdfa : P String := do
  let n ← nat; let nt ← nat; let order ← nat
  let cs ← many 8 (vec n)
  let bo ← mat n
  let Pf ← many nt (vec n)
  let d0 ← vec n; let v0 ← vec n
  let al := Cdf.alphaMat (cs[7]!).a bo gaussSolve
  let C : Cdf.Ops (Vec Float) :=
    { F := diagOp cs[0]!, G := diagOp cs[1]!, A := diagOp cs[2]!, B := diagOp cs[3]!,
      Fp := diagOp cs[4]!, Gp := diagOp cs[5]!, Ap := diagOp cs[6]!, Bp := diagOp cs[7]!,
      bo := matVec bo, alpha := matVec al }
  let r := Cdf.cdfRun C (order == 1) d0 v0 Pf.toList
  pure s!"ok {fmtVecs (al.toList.map fun row => ⟨row⟩)} {fmtVecs (r.map (·.1))} {fmtVecs (r.map (·.2.1))}"

def opRfm : P String := do
  let n ← nat; let nt ← nat
  let K ← mat n
  let F ← many nt (vec n)
  pure s!"ok {fmtVecs (rfStaticMat K gaussSolve F.toList)}"

def answer (line : String) : String :=
  let ws := (line.splitOn " ").filter (· ≠ "")
  let go (p : P String) (rest : List String) : String :=
    match p.run rest with
    | some (s, []) => s
    | _ => "bad-op"
  match ws with
  | "sc" :: rest => go opSc rest
  | "mx" :: rest => go opMx rest
  | "cdf" :: rest => go opCdf rest
  | "cdfa" :: rest => go opCdfa rest
  | "rfm" :: rest => go opRfm rest
  | _ => "bad-op"

partial def loop (h : IO.FS.Stream) (out : IO.FS.Stream) : IO Unit := do
  let line ← h.getLine
  if line.isEmpty then return ()
  out.putStrLn (answer (line.trimAscii.toString))
  loop h out

def main : IO Unit := do
  loop (← IO.getStdin) (← IO.getStdout)
