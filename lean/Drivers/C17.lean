import PyYetiVerif.Model.Newmark
import PyYetiVerif.Model.Cdf
/-! Line protocol for C17.  Every floating-point number travels as the decimal value of its
IEEE-754 bit pattern; integers in decimal.

`sc  nt m b k h d0 v0 F_0 … F_{nt-1}`
      scalar instance `scalarSys` (one diagonal DOF) → `ok d… v… a…` (3·nt numbers) | `index-error`
`mxf n nt h mflag [M(n·n, row-major) if mflag = 1] B K  F(nt columns of n)  d0(n) v0(n)  nrf rf(nrf)
      nterms {kind p q c g r T(r columns of nn)}*`
      the whole `tsolve` on all `n` rows: `tsolveRf` (rf rows static, the others `run` on `matSysOpt` of the non-rf
      partition, `m = None` when mflag = 0) with Gaussian elimination as `solve`; the nonlinear terms go through the
      model's `defNonlin` / `getNonlin` (`T' = solve T` column by column, `N = 0.0; N += T' @ z`); term `i` has the
      callback `z_i(d_j, d_{j-1}, j, h)` of kind
        0: [c·x_p³]    1: [c·max(x_p − x_q − g, 0)]    2: [c·w·|w|], w = (x_p − xprev_p)/h    3: [c·x_p·j + g]
        4: [c·x_p, g·w]  (two outputs, `T` has two columns)
      → `ok d(nt columns of n) v a` | `index-error`
`zout nn nt h um(nn) d(nt columns of nn) nterms {kind p q c g r T}*`
      `sol.z` by the model's `zOut` on a given displacement history → `ok z` (per term, per step, r values)
`cdf n nt order F G A B Fp Gp Ap Bp (n each) bo(n·n) alpha(n·n) P(nt columns of n) d0 v0`
      → `ok d(nt columns of n) v`   (`alpha` given by the caller)
`cdfa n nt order F G A B Fp Gp Ap Bp (n each) bo(n·n) P(nt columns of n) d0 v0`
      the same with `alpha = alphaMat Bp bo gaussSolve` computed by the model
      → `ok alpha(n·n, row-major) d(nt columns of n) v`
`rfm n nt Krf(n·n) F(nt columns of n)` → `ok d(nt columns of n)`   (`rfStaticMat` with Gaussian elimination)
`cdfx n nt order mflag [m(n)] bdiag(n) k(n) F G A B Fp Gp Ap Bp (n each) bo(n·n) P(nt columns of n) d0 v0`
      `cdfa` plus the recovered accelerations `cdfAcc` (`invm = 1.0 / m`, full damping = `bo` with `bdiag` on the diagonal)
      → `ok alpha(n·n) d v a`
`f2x n r nrf B(n) Bp(n) bo(n·n) phik(r rows of n) krf(nrf) phirf(r rows of nrf)`
      `cdfGetF2x` for displacements and velocities, `alpha = alphaMat Bp bo gaussSolve`
      → `ok flex_d(r·r) flex_v(r·r)`
anything else → `bad-op`. -/
open PyYetiVerif PyYetiVerif.Newmark

instance : Inhabited (Vec Float) := ⟨⟨#[]⟩⟩

abbrev P := StateT (List String) Option

def tok : P String := do
  match (← get) with
  | t :: ts => set ts; pure t
  | [] => failure

def nat : P Nat := do
  match (← tok).toNat? with
  | some n => pure n
  | none => failure

def flt : P Float := do pure (Float.ofBits (UInt64.ofNat (← nat)))

def many {β : Type} (n : Nat) (p : P β) : P (Array β) := do
  let mut out := #[]
  for _ in [0:n] do out := out.push (← p)
  pure out

def vec (n : Nat) : P (Vec Float) := do pure ⟨← many n flt⟩
def mat (n : Nat) : P (Mat Float) := many n (many n flt)

def bits (x : Float) : String := toString x.toBits.toNat
def fmtVecs (xs : List (Vec Float)) : String :=
  " ".intercalate (xs.map fun v => " ".intercalate (v.a.toList.map bits))

/-- Gaussian elimination with partial pivoting (the `solve` parameter of `matSys`) -/
def gaussSolve (A : Mat Float) (b : Vec Float) : Vec Float := Id.run do
  let n := A.size
  let mut M : Array (Array Float) := (Array.range n).map fun i => (A[i]!).push (b.a[i]!)
  for c in [0:n] do
    let mut p := c
    for r in [c+1:n] do
      if (M[r]![c]!).abs > (M[p]![c]!).abs then p := r
    let tmp := M[c]!
    M := M.set! c M[p]!
    M := M.set! p tmp
    let rowc := M[c]!
    let piv := rowc[c]!
    for r in [c+1:n] do
      let f := M[r]![c]! / piv
      M := M.modify r fun row => Array.zipWith (fun x y => x - f * y) row rowc
  let mut x : Array Float := Array.replicate n 0.0
  for i' in [0:n] do
    let i := n - 1 - i'
    let mut s := M[i]![n]!
    for j in [i+1:n] do
      s := s - M[i]![j]! * x[j]!
    x := x.set! i (s / M[i]![i]!)
  return ⟨x⟩

structure Term where
  kind : Nat
  p : Nat
  q : Nat
  c : Float
  g : Float
  T : List (Vec Float)

def term (n : Nat) : P Term := do
  let kind ← nat; let p ← nat; let q ← nat; let c ← flt; let g ← flt
  let r ← nat
  let T ← many r (vec n)
  pure { kind := kind, p := p, q := q, c := c, g := g, T := T.toList }

def zvals (t : Term) (h : Float) (j : Nat) (x xp : Vec Float) : List Float :=
  let xp_ := x.a[t.p]!
  match t.kind with
  | 0 => [t.c * (xp_ * xp_ * xp_)]
  | 1 => let e := xp_ - x.a[t.q]! - t.g
         [t.c * (if e > 0 then e else 0)]
  | 2 => let w := (xp_ - xp.a[t.p]!) / h
         [t.c * (w * w.abs)]
  | 3 => [t.c * xp_ * j.toFloat + t.g]
  | _ => [t.c * xp_, t.g * ((xp_ - xp.a[t.p]!) / h)]

/-- the callback of a term as `def_nonlin` receives it -/
def termFunc (t : Term) (h : Float) : Nat → List (Vec Float) → List Float :=
  fun j hist =>
    match hist with
    | x :: xp :: _ => zvals t h j x xp
    | _ => []

def fmtHist {V : Type} (f : List V → String) (r : Option (Hist V)) : String :=
  match r with
  | some hh => s!"ok {f hh.d} {f hh.v} {f hh.a}"
  | none => "index-error"

def opSc : P String := do
  let nt ← nat
  let m ← flt; let b ← flt; let k ← flt; let h ← flt; let d0 ← flt; let v0 ← flt
  let F ← many nt flt
  let r := run (scalarSys m b k h) (fun _ _ => (0.0 : Float)) F.toList d0 v0
  pure (fmtHist (fun xs => " ".intercalate (xs.map bits)) r)

def opMxf : P String := do
  let n ← nat; let nt ← nat; let h ← flt
  let mflag ← nat
  let M ← if mflag == 1 then (do pure (some (← mat n))) else pure none
  let B ← mat n; let K ← mat n
  let F ← many nt (vec n)
  let d0 ← vec n; let v0 ← vec n
  let nrf ← nat
  let rf ← many nrf nat
  let nn := n - nrf
  let terms ← many (← nat) (term nn)
  let zero : Vec Float := ⟨Array.replicate nn 0.0⟩
  let dct := terms.toList.map fun t => (termFunc t h, t.T)
  let nl : Sys (Vec Float) Float → Nat → List (Vec Float) → Vec Float :=
    fun S => if terms.isEmpty then fun _ _ => zero else getNonlin zero (defNonlin S dct)
  match tsolveRf n rf.toList M B K h gaussSolve nl F.toList d0 v0 with
  | none => pure "index-error"
  | some (d, v, a) => pure s!"ok {fmtVecs d} {fmtVecs v} {fmtVecs a}"

/-- `sol.z` from the model's `zOut` on a GIVEN displacement history (the implementation's): the callbacks are
evaluated on `[d_j, …, d_0, u₋₁]`, step by step -/
def opZout : P String := do
  let nn ← nat; let nt ← nat; let h ← flt
  let um ← vec nn
  let d ← many nt (vec nn)
  let terms ← many (← nat) (term nn)
  let tt : List (NlTerm Float (Vec Float)) := terms.toList.map fun t => { func := termFunc t h, Tp := t.T }
  let z := zOut tt um d.toList
  pure ("ok " ++ " ".intercalate (z.map fun rows => " ".intercalate (rows.map fun zz => " ".intercalate (zz.map bits))))

def diagOp (c : Vec Float) : Vec Float → Vec Float := fun x => ⟨Array.zipWith (· * ·) c.a x.a⟩

def opCdf : P String := do
  let n ← nat; let nt ← nat; let order ← nat
  let cs ← many 8 (vec n)
  let bo ← mat n; let al ← mat n
  let Pf ← many nt (vec n)
  let d0 ← vec n; let v0 ← vec n
  let C : Cdf.Ops (Vec Float) :=
    { F := diagOp cs[0]!, G := diagOp cs[1]!, A := diagOp cs[2]!, B := diagOp cs[3]!,
      Fp := diagOp cs[4]!, Gp := diagOp cs[5]!, Ap := diagOp cs[6]!, Bp := diagOp cs[7]!,
      bo := matVec bo, alpha := matVec al }
  let r := Cdf.cdfRun C (order == 1) d0 v0 Pf.toList
  pure s!"ok {fmtVecs (r.map (·.1))} {fmtVecs (r.map (·.2.1))}"

def opCdfa : P String := do
  let n ← nat; let nt ← nat; let order ← nat
  let cs ← many 8 (vec n)
  let bo ← mat n
  let Pf ← many nt (vec n)
  let d0 ← vec n; let v0 ← vec n
  let al := Cdf.alphaMat (cs[7]!).a bo gaussSolve
  let C : Cdf.Ops (Vec Float) :=
    { F := diagOp cs[0]!, G := diagOp cs[1]!, A := diagOp cs[2]!, B := diagOp cs[3]!,
      Fp := diagOp cs[4]!, Gp := diagOp cs[5]!, Ap := diagOp cs[6]!, Bp := diagOp cs[7]!,
      bo := matVec bo, alpha := matVec al }
  let r := Cdf.cdfRun C (order == 1) d0 v0 Pf.toList
  pure s!"ok {fmtVecs (al.toList.map fun row => ⟨row⟩)} {fmtVecs (r.map (·.1))} {fmtVecs (r.map (·.2.1))}"

def opCdfx : P String := do
  let n ← nat; let nt ← nat; let order ← nat
  let mflag ← nat
  let m ← if mflag == 1 then (do pure (some (← vec n))) else pure none
  let bd ← vec n; let kk ← vec n
  let cs ← many 8 (vec n)
  let bo ← mat n
  let Pf ← many nt (vec n)
  let d0 ← vec n; let v0 ← vec n
  let al := Cdf.alphaMat (cs[7]!).a bo gaussSolve
  let C : Cdf.Ops (Vec Float) :=
    { F := diagOp cs[0]!, G := diagOp cs[1]!, A := diagOp cs[2]!, B := diagOp cs[3]!,
      Fp := diagOp cs[4]!, Gp := diagOp cs[5]!, Ap := diagOp cs[6]!, Bp := diagOp cs[7]!,
      bo := matVec bo, alpha := matVec al }
  let r := Cdf.cdfRun C (order == 1) d0 v0 Pf.toList
  -- full damping: the off-diagonal part with the diagonal put back (`b[i, i] = self.b`)
  let bfull : Mat Float := (Array.range n).map fun i => (Array.range n).map fun j =>
    if i == j then bd.a[i]! else (bo[i]!)[j]!
  let invm : Option (Vec Float → Vec Float) := m.map fun mv => diagOp ⟨mv.a.map fun x => 1.0 / x⟩
  let acc := List.zipWith (fun p s => Cdf.cdfAcc (matVec bfull) (diagOp kk) invm p s.1 s.2.1) Pf.toList r
  pure s!"ok {fmtVecs (al.toList.map fun row => ⟨row⟩)} {fmtVecs (r.map (·.1))} {fmtVecs (r.map (·.2.1))} {fmtVecs acc}"

def opF2x : P String := do
  let n ← nat; let r ← nat; let nrf ← nat
  let Bc ← vec n; let Bp ← vec n
  let bo ← mat n
  let phik ← many r (many n flt)
  let krf ← many nrf flt
  let phirf ← many r (many nrf flt)
  let al := Cdf.alphaMat Bp.a bo gaussSolve
  let fd := Cdf.cdfGetF2x phik phirf Bc.a Bp.a krf al false
  let fv := Cdf.cdfGetF2x phik phirf Bp.a Bp.a krf al true
  pure s!"ok {fmtVecs (fd.toList.map fun row => ⟨row⟩)} {fmtVecs (fv.toList.map fun row => ⟨row⟩)}"

def opRfm : P String := do
  let n ← nat; let nt ← nat
  let K ← mat n
  let F ← many nt (vec n)
  pure s!"ok {fmtVecs (rfStaticMat K gaussSolve F.toList)}"

def answer (line : String) : String :=
  let ws := (line.splitOn " ").filter (· ≠ "")
  let go (p : P String) (rest : List String) : String :=
    match p.run rest with
    | some (s, []) => s
    | _ => "bad-op"
  match ws with
  | "sc" :: rest => go opSc rest
  | "mxf" :: rest => go opMxf rest
  | "zout" :: rest => go opZout rest
  | "cdf" :: rest => go opCdf rest
  | "cdfa" :: rest => go opCdfa rest
  | "rfm" :: rest => go opRfm rest
  | "cdfx" :: rest => go opCdfx rest
  | "f2x" :: rest => go opF2x rest
  | _ => "bad-op"

partial def loop (h : IO.FS.Stream) (out : IO.FS.Stream) : IO Unit := do
  let line ← h.getLine
  if line.isEmpty then return ()
  out.putStrLn (answer (line.trimAscii.toString))
  loop h out

def main : IO Unit := do
  loop (← IO.getStdin) (← IO.getStdout)
