import PyYetiVerif.Model.Coord
import PyYetiVerif.Model.CoordRbe3
import PyYetiVerif.Model.CoordChain
import PyYetiVerif.Model.CoordRbe3Wrap
/-! Line protocol for C14.  Floats travel as decimal `UInt64` bit patterns, in and out.

A *world* `W` is   `N  (ref typ A3 B3 C3)×N   G  (0 | 1 q cin a3 cout)×G`
  (`ref`, `cin`, `cout`: 0 = basic, k = k-th system of the chain; `typ` 1/2/3; `q` 0/1;
   entry `0` is a scalar point).

request                                 reply (all numbers space separated)
`cs W`                                  per system: origin(3) T(9 by rows) cardA cardB cardC (9)
`loc W`                                 per grid: location in basic (3)
`get W k`                               per grid: coordinates in system k (3)
`rb W <ref>`                            all rows of rbgeom_uset (6 each); `<ref>` = `g i` (entry index) | `x v3`
`mv W <ref> new3`                       rows of rbmove(rbgeom_uset(W, ref), ref, new)
`rbc W <ref>`                           per grid: rbcoords (3)
`rbe3 W dep nd (d key)×nd ng i… m (key i dof w)×m nuset um [k key…]`
                                        formrbe3: `dep`, `i` = entry indices, `d`/`dof` = 1..6, `key` = uset
                                        row of the DOF, independent DOF in Ind_List order, `um` = 0 | 1 k key…
                                        (m-set DOF in UM_List order); reply `r c` + r*c numbers, or `raise`
`rbe3w W id×G gdep dofdep ng (dof haswt wt nids id…)×ng um [np (id dof)×np]`
                                        formrbe3 from its own arguments (`formrbe3W`): `id×G` = the ids of the G
                                        entries of W, then GRID_dep, DOF_dep, the Ind_List groups, the UM_List
                                        pairs; reply `r c` + numbers, or `raise`
`bc N (cid ref typ A3 B3 C3)×N`         build_coords on the cards as given: `ok L (cid level)×L D (cid typ o3 T9)×D`
                                        | `err dup cid` | `err unresolved k id…` | `err refmissing cid ref` | `err diverges`
`mk N (cid ref typ A3 B3 C3)×N`         mkusetcoordinfo(card, None, coordref) card by card with one dictionary:
                                        per card `k` (known id) | `n` (new) | `e` (ValueError), then `D (cid typ o3 T9)×D`
`rep W A3 B3 C3`                        per grid: p(3) origin(3) T(9) after replace_basic_cs
anything else / unresolvable → `bad-op` -/
open PyYetiVerif.Coord

abbrev P := StateT (List String) Option

def tok : P String := do
  match (← get) with
  | [] => failure
  | t :: ts => set ts; pure t
def pNat : P Nat := do
  let t ← tok
  match t.toNat? with
  | some n => pure n
  | none => failure
def pF : P Float := do pure (Float.ofBits (UInt64.ofNat (← pNat)))
def pV : P (V3 Float) := do
  let x ← pF; let y ← pF; let z ← pF
  pure ⟨x, y, z⟩
def pTyp : P CType := do
  match (← pNat) with
  | 1 => pure .rect | 2 => pure .cyl | 3 => pure .sph | _ => failure
def pMany {β : Type} (n : Nat) (p : P β) : P (List β) := (List.range n).mapM fun _ => p
def pEnd : P Unit := do
  match (← get) with
  | [] => pure ()
  | _ => failure

structure World where
  cs : List (CoordInfo Float)
  grids : List (Option (GridR Float))

def pWorld : P World := do
  let n ← pNat
  let specs ← pMany n (do
    let r ← pNat; let t ← pTyp; let a ← pV; let b ← pV; let c ← pV
    pure (⟨r, t, a, b, c⟩ : CsSpec Float))
  let g ← pNat
  let es ← pMany g (do
    match (← pNat) with
    | 0 => pure (Entry.spoint : Entry Float)
    | _ =>
      let q ← pNat; let cin ← pNat; let a ← pV; let cout ← pNat
      pure (Entry.grid (q == 1) cin a cout))
  let cs ← (resolve specs : Option _)
  let grids ← (resolveGrids cs es : Option _)
  pure ⟨cs, grids⟩

def pRef (w : World) : P (V3 Float) := do
  match (← tok) with
  | "g" =>
    let i ← pNat
    match w.grids[i]? with
    | some (some g) => pure g.p
    | _ => failure
  | "x" => pV
  | _ => failure

def fF (x : Float) : String := toString x.toBits.toNat
def fFs (xs : List Float) : String := " ".intercalate (xs.map fF)
def fV (v : V3 Float) : List Float := v.toList
def fM (m : M3 Float) : List Float := m.r0.toList ++ m.r1.toList ++ m.r2.toList
def fRows (rs : List (V3 Float × V3 Float)) : String := fFs (rs.flatMap row6)

def pCards : P (List (Card (CsBody Float))) := do
  let n ← pNat
  pMany n (do
    let cid ← pNat; let r ← pNat; let t ← pTyp; let a ← pV; let b ← pV; let c ← pV
    pure (⟨cid, r, ⟨t, a, b, c⟩⟩ : Card (CsBody Float)))

def tNat : CType → Nat
  | .rect => 1 | .cyl => 2 | .sph => 3

def fDict (d : CoordRef Float) : String :=
  s!"D {d.length}" ++ String.join (d.map fun e =>
    s!" {e.1} {tNat e.2.typ} " ++ fFs (fV e.2.origin ++ fM e.2.T))

def fErr : BuildErr → String
  | .dupUnequal c => s!"err dup {c}"
  | .unresolved l => s!"err unresolved {l.length}" ++ String.join (l.map fun x => s!" {x}")
  | .refMissing c r => s!"err refmissing {c} {r}"
  | .diverges => "err diverges"

def runChain (op : String) : P String := do
  let cards ← pCards
  pEnd
  match op with
  | "bc" =>
    match buildLevels cards with
    | .error e => pure (fErr e)
    | .ok lv =>
      if cards.isEmpty then pure "ok L 0 D 0" else
      match buildCoords cards with
      | .error e => pure (fErr e)
      | .ok d =>
        pure (s!"ok L {lv.length}" ++ String.join (lv.map fun p => s!" {p.1.cid} {p.2}") ++ " " ++ fDict d)
  | _ =>
    let (st, d) := cards.foldl (fun (acc : String × CoordRef Float) c =>
      match addCard acc.2 c with
      | .error _ => (acc.1 ++ "e", acc.2)
      | .ok d' => (acc.1 ++ (if d'.length == acc.2.length then "k" else "n"), d')) ("S", coordRef0)
    pure (st ++ " " ++ fDict d)

def run : P String := do
  let op ← tok
  if op == "bc" || op == "mk" then runChain op else
  let w ← pWorld
  let gs := w.grids.filterMap id
  match op with
  | "cs" =>
    pEnd
    pure (fFs ((w.cs.drop 1).flatMap fun ci =>
      let (a, b, c) := cardOf ci
      fV ci.origin ++ fM ci.T ++ fV a ++ fV b ++ fV c))
  | "loc" => pEnd; pure (fFs (gs.flatMap fun g => fV g.p))
  | "get" =>
    let k ← pNat
    pEnd
    let ci ← (w.cs[k]? : Option _)
    pure (fFs (gs.flatMap fun g => fV (getCoordinates ci g.p)))
  | "rb" =>
    let r ← pRef w
    pEnd
    pure (fRows (usetRb w.grids r))
  | "mv" =>
    let r ← pRef w
    let nw ← pV
    pEnd
    pure (fRows ((usetRb w.grids r).map (rbmoveRow (r.sub nw))))
  | "rbc" =>
    let r ← pRef w
    pEnd
    pure (fFs (gs.flatMap fun g =>
      if g.q then [0, 0, 0] else fV (rbcoordsGrid (gridRb g.co g.p r))))
  | "rbe3" =>
    let dep ← pNat
    let nd ← pNat
    let dds ← pMany nd (do let d ← pNat; let k ← pNat; pure (d, k))
    let ng ← pNat
    let gi ← pMany ng pNat
    let m ← pNat
    let ind ← pMany m (do
      let key ← pNat; let i ← pNat; let d ← pNat; let wt ← pF
      pure (key, i, d, wt))
    let nuset ← pNat
    let um ← (do
      match (← pNat) with
      | 0 => pure (none : Option (List Nat))
      | _ => let k ← pNat; let ks ← pMany k pNat; pure (some ks))
    pEnd
    let pick (i : Nat) : Option (GridR Float) := (w.grids[i]?).join
    let depg ← (pick dep : Option _)
    let grids ← (gi.mapM pick : Option _)
    let inds ← (ind.mapM (fun (e : Nat × Nat × Nat × Float) => do
      let g ← pick e.2.1
      if h : 1 ≤ e.2.2.1 ∧ e.2.2.1 ≤ 6 then
        pure (e.1, (⟨g, ⟨e.2.2.1 - 1, by omega⟩, e.2.2.2⟩ : IndDof Float))
      else none) : Option _)
    match formRbe3 (fun A B => gaussTab A B) grids depg (dds.map (·.1 - 1)) (dds.map (·.2)) inds um nuset with
    | none => pure "raise"
    | some res =>
      pure (s!"{res.length} {(res.head?.map List.length).getD 0} " ++ fFs res.flatten)
  | "rbe3w" =>
    let ids ← pMany w.grids.length pNat
    let gdep ← pNat
    let dofdep ← pNat
    let ng ← pNat
    let il ← pMany ng (do
      let d ← pNat; let hw ← pNat; let wt ← pF; let n ← pNat; let is ← pMany n pNat
      pure (⟨d, if hw == 1 then some wt else none, is⟩ : IndGroup Float))
    let um ← (do
      match (← pNat) with
      | 0 => pure (none : Option (List (Nat × Nat)))
      | _ => let k ← pNat; let ps ← pMany k (do let a ← pNat; let b ← pNat; pure (a, b)); pure (some ps))
    pEnd
    match formrbe3W (fun A B => gaussTab A B) (ids.zip w.grids) gdep dofdep il um with
    | none => pure "raise"
    | some res =>
      pure (s!"{res.length} {(res.head?.map List.length).getD 0} " ++ fFs res.flatten)
  | "rep" =>
    let a ← pV; let b ← pV; let c ← pV
    pEnd
    pure (fFs (gs.flatMap fun g =>
      let h := replaceBasic a b c g
      fV h.p ++ fV h.co.origin ++ fM h.co.T))
  | _ => failure

def answer (line : String) : String :=
  match run.run ((line.splitOn " ").filter (· ≠ "")) with
  | some (s, _) => s
  | none => "bad-op"

partial def loop (h : IO.FS.Stream) (out : IO.FS.Stream) : IO Unit := do
  let line ← h.getLine
  if line.isEmpty then return ()
  out.putStrLn (answer (line.trimAscii.toString))
  loop h out

def main : IO Unit := do
  loop (← IO.getStdin) (← IO.getStdout)
