import PyYetiVerif.Model.Coord
/-! Line protocol for C14.  Floats travel as decimal `UInt64` bit patterns, in and out.

A *world* `W` is   `N  (ref typ A3 B3 C3)×N   G  (0 | 1 q cin a3 cout)×G`
  (`ref`, `cin`, `cout`: 0 = basic, k = k-th system of the chain; `typ` 1/2/3; `q` 0/1;
   entry `0` is a scalar point).

request                                 reply (all numbers space separated)
`cs W`                                  per system: origin(3) T(9 by rows) cardA cardB cardC (9)
`loc W`                                 per grid: location in basic (3)
`get W k`                               per grid: coordinates in system k (3)
`rb W <ref>`                            all rows of rbgeom_uset (6 each); `<ref>` = `g i` (entry index) | `x v3`
`mv W <ref> new3`                       rows of rbmove(rbgeom_uset(W, ref), ref, new)
`rbc W <ref>`                           per grid: rbcoords (3)
`rbe3 W dep nd d… ng i… m (i dof w)×m`  rows of formrbe3 (nd rows of m numbers); indices into the `ng` list
`rep W A3 B3 C3`                        per grid: p(3) origin(3) T(9) after replace_basic_cs
anything else / unresolvable → `bad-op` -/
open PyYetiVerif.Coord

abbrev P := StateT (List String) Option

def tok : P String := do
  match (← get) with
  | [] => failure
  | t :: ts => set ts; pure t
def pNat : P Nat := do
  let t ← tok
  match t.toNat? with
  | some n => pure n
  | none => failure
def pF : P Float := do pure (Float.ofBits (UInt64.ofNat (← pNat)))
def pV : P (V3 Float) := do
  let x ← pF; let y ← pF; let z ← pF
  pure ⟨x, y, z⟩
def pTyp : P CType := do
  match (← pNat) with
  | 1 => pure .rect | 2 => pure .cyl | 3 => pure .sph | _ => failure
def pMany {β : Type} (n : Nat) (p : P β) : P (List β) := (List.range n).mapM fun _ => p
def pEnd : P Unit := do
  match (← get) with
  | [] => pure ()
  | _ => failure

structure World where
  cs : List (CoordInfo Float)
  grids : List (Option (GridR Float))

def pWorld : P World := do
  let n ← pNat
  let specs ← pMany n (do
    let r ← pNat; let t ← pTyp; let a ← pV; let b ← pV; let c ← pV
    pure (⟨r, t, a, b, c⟩ : CsSpec Float))
  let g ← pNat
  let es ← pMany g (do
    match (← pNat) with
    | 0 => pure (Entry.spoint : Entry Float)
    | _ =>
      let q ← pNat; let cin ← pNat; let a ← pV; let cout ← pNat
      pure (Entry.grid (q == 1) cin a cout))
  let cs ← (resolve specs : Option _)
  let grids ← (resolveGrids cs es : Option _)
  pure ⟨cs, grids⟩

def pRef (w : World) : P (V3 Float) := do
  match (← tok) with
  | "g" =>
    let i ← pNat
    match w.grids[i]? with
    | some (some g) => pure g.p
    | _ => failure
  | "x" => pV
  | _ => failure

def fF (x : Float) : String := toString x.toBits.toNat
def fFs (xs : List Float) : String := " ".intercalate (xs.map fF)
def fV (v : V3 Float) : List Float := v.toList
def fM (m : M3 Float) : List Float := m.r0.toList ++ m.r1.toList ++ m.r2.toList
def fRows (rs : List (V3 Float × V3 Float)) : String := fFs (rs.flatMap row6)

def run : P String := do
  let op ← tok
  let w ← pWorld
  let gs := w.grids.filterMap id
  match op with
  | "cs" =>
    pEnd
    pure (fFs ((w.cs.drop 1).flatMap fun ci =>
      let (a, b, c) := cardOf ci
      fV ci.origin ++ fM ci.T ++ fV a ++ fV b ++ fV c))
  | "loc" => pEnd; pure (fFs (gs.flatMap fun g => fV g.p))
  | "get" =>
    let k ← pNat
    pEnd
    let ci ← (w.cs[k]? : Option _)
    pure (fFs (gs.flatMap fun g => fV (getCoordinates ci g.p)))
  | "rb" =>
    let r ← pRef w
    pEnd
    pure (fRows (usetRb w.grids r))
  | "mv" =>
    let r ← pRef w
    let nw ← pV
    pEnd
    pure (fRows ((usetRb w.grids r).map (rbmoveRow (r.sub nw))))
  | "rbc" =>
    let r ← pRef w
    pEnd
    pure (fFs (gs.flatMap fun g =>
      if g.q then [0, 0, 0] else fV (rbcoordsGrid (gridRb g.co g.p r))))
  | "rbe3" =>
    let dep ← pNat
    let nd ← pNat
    let dd ← pMany nd pNat
    let ng ← pNat
    let gi ← pMany ng pNat
    let m ← pNat
    let ind ← pMany m (do
      let i ← pNat; let d ← pNat; let wt ← pF
      pure (i, d, wt))
    pEnd
    let pick (i : Nat) : Option (GridR Float) := (w.grids[i]?).join
    let depg ← (pick dep : Option _)
    let grids ← (gi.mapM pick : Option _)
    let res ← (rbe3 gaussSolve grids depg dd ind : Option _)
    pure (fFs res.flatten)
  | "rep" =>
    let a ← pV; let b ← pV; let c ← pV
    pEnd
    pure (fFs (gs.flatMap fun g =>
      let h := replaceBasic a b c g
      fV h.p ++ fV h.co.origin ++ fM h.co.T))
  | _ => failure

def answer (line : String) : String :=
  match run.run ((line.splitOn " ").filter (· ≠ "")) with
  | some (s, _) => s
  | none => "bad-op"

partial def loop (h : IO.FS.Stream) (out : IO.FS.Stream) : IO Unit := do
  let line ← h.getLine
  if line.isEmpty then return ()
  out.putStrLn (answer (line.trimAscii.toString))
  loop h out

def main : IO Unit := do
  loop (← IO.getStdin) (← IO.getStdout)
