-- This module serves as the root of the `PyYetiVerif` library.
-- Import modules here that should be built as part of the library.
import PyYetiVerif.Basic
