import PyYetiVerif.Lemmas.UsetTranM
/-!
`Uset.mBlock` in closed form (`mBlock_spec`): every row of the m-set block is `MRow` of its GM row.
-/
set_option linter.constructorNameAsVariable false
set_option linter.unusedSectionVars false
namespace PyYetiVerif.Uset
open PyYetiVerif.Locate

section semi
variable {α : Type} [Semiring α] [DecidableEq α]

/-- the t-part and the q-part of `ulvsm` before they are written into the columns -/
theorem mParts_spec {gm gmo gmt got goq : M α} {cq : Nat} {t_n o_n : List Nat}
    {tq : M α × Option (M α)}
    (hgmo : colsAt gm o_n = .ok gmo) (hgmt : colsAt gm t_n = .ok gmt)
    (hgot : ∀ r ∈ got.r, r.length = got.c) (hgoq : ∀ r ∈ goq.r, r.length = goq.c)
    (htq : (if anyCols gmo ≠ [] then do
        let gmov ← colsAt gmo (anyCols gmo)
        let gotv ← rowsAt got (anyCols gmo)
        let p ← dot gmov gotv
        let tp ← addM gmt p
        if cq ≠ 0 then do
          let goqv ← rowsAt goq (anyCols gmo)
          let qp ← dot gmov goqv
          pure (tp, some qp)
        else pure (tp, none)
      else pure (gmt, none) : Except TErr (M α × Option (M α))) = .ok tq) :
    (∀ (k : Nat) g tk, gm.r[k]? = some g → tq.1.r[k]? = some tk →
      ∀ i, i < tk.length → tk.getD i 0 = g.getD (t_n.getD i 0) 0 + oSum g o_n got i) ∧
    (∀ qp, tq.2 = some qp → ∀ (k : Nat) g qk, gm.r[k]? = some g → qp.r[k]? = some qk →
      ∀ i, i < qk.length → qk.getD i 0 = oSum g o_n goq i) ∧
    (tq.2 = none → cq ≠ 0 → ∀ g ∈ gm.r, ∀ i, oSum g o_n goq i = 0) ∧
    (∀ qp, tq.2 = some qp → cq ≠ 0) := by
  obtain ⟨hgmo_r, hgmo_c⟩ := colsAt_eq hgmo
  obtain ⟨hgmt_r, hgmt_c⟩ := colsAt_eq hgmt
  -- row `k` of gmo / gmt
  have hgmok : ∀ (k : Nat) g, gm.r[k]? = some g → gmo.r[k]? = some (o_n.map fun j => g.getD j 0) := by
    intro k g hk; rw [hgmo_r, List.getElem?_map, hk]; rfl
  have hgmtk : ∀ (k : Nat) g, gm.r[k]? = some g → gmt.r[k]? = some (t_n.map fun j => g.getD j 0) := by
    intro k g hk; rw [hgmt_r, List.getElem?_map, hk]; rfl
  -- the pruned product in closed form
  have hprod : ∀ (B : M α) (gmov Bv p : M α), (∀ r ∈ B.r, r.length = B.c) →
      colsAt gmo (anyCols gmo) = .ok gmov → rowsAt B (anyCols gmo) = .ok Bv → dot gmov Bv = .ok p →
      ∀ (k : Nat) g pk, gm.r[k]? = some g → p.r[k]? = some pk →
        pk.length = B.c ∧ ∀ i, i < B.c → pk.getD i 0 = oSum g o_n B i := by
    intro B gmov Bv p hB hgmov hBv hp k g pk hk hpk
    obtain ⟨hgmov_r, _⟩ := colsAt_eq hgmov
    obtain ⟨hBv_r, hBv_c, hBv_lt⟩ := rowsAt_eq hBv
    obtain ⟨hp_r, _⟩ := dot_eq hp
    have hgk := hgmok k g hk
    have hrow : gmov.r[k]? = some ((anyCols gmo).map fun j => (o_n.map fun j => g.getD j 0).getD j 0) := by
      rw [hgmov_r, List.getElem?_map, hgk]; rfl
    rw [hp_r, List.getElem?_map, hrow] at hpk
    simp only [Option.map_some, Option.some.injEq] at hpk
    subst hpk
    rw [hBv_r, hBv_c]
    have hrows : ∀ r ∈ (anyCols gmo).map (fun j => B.r.getD j []), r.length = B.c := by
      intro r hr
      obtain ⟨j, hj, rfl⟩ := List.mem_map.mp hr
      have hjl := hBv_lt j hj
      rw [List.getD_eq_getElem?_getD, List.getElem?_eq_getElem hjl]
      exact hB _ (List.getElem_mem hjl)
    refine ⟨rowComb_length B.c _ _ hrows, ?_⟩
    intro i hi
    have hmem : (o_n.map fun j => g.getD j 0) ∈ gmo.r := List.mem_of_getElem? hgk
    have hpe := pruned_dot_entry gmo B (o_n.map fun j => g.getD j 0) hmem (by rw [List.length_map, hgmo_c])
      hB hBv_lt i hi
    rw [hpe, hgmo_c]
    exact oSum_eq g o_n B i
  -- when no column of gmo is kept, every o-sum vanishes
  have hzero : anyCols gmo = [] → ∀ (B : M α), ∀ g ∈ gm.r, ∀ i, oSum g o_n B i = 0 := by
    intro hv B g hg i
    obtain ⟨k, hk⟩ := List.getElem?_of_mem hg
    have hmem : (o_n.map fun j => g.getD j 0) ∈ gmo.r := List.mem_of_getElem? (hgmok k g hk)
    rw [← oSum_eq]
    apply List.sum_eq_zero
    intro x hx
    obtain ⟨u, hu, rfl⟩ := List.mem_map.mp hx
    have hul : u < gmo.c := by rw [hgmo_c]; exact List.mem_range.mp hu
    rw [anyCols_zero gmo u hul (by rw [hv]; simp) _ hmem, zero_mul]
  split at htq
  · rename_i hv
    obtain ⟨gmov, hgmov, htq⟩ := bind_ok htq
    obtain ⟨gotv, hgotv, htq⟩ := bind_ok htq
    obtain ⟨p, hp, htq⟩ := bind_ok htq
    obtain ⟨tp, htp, htq⟩ := bind_ok htq
    have hP := hprod got gmov gotv p hgot hgmov hgotv hp
    -- the t-part: gm[:, t_n] + gmo @ got
    have hT : ∀ (k : Nat) g tk, gm.r[k]? = some g → tp.r[k]? = some tk →
        ∀ i, i < tk.length → tk.getD i 0 = g.getD (t_n.getD i 0) 0 + oSum g o_n got i := by
      intro k g tk hk htk i hi
      unfold addM at htp
      split at htp
      · cases htp
      · rename_i hshape
        simp only [Except.ok.injEq] at htp
        subst htp
        simp only at htk hi
        rw [List.getElem?_zipWith] at htk
        have hgt := hgmtk k g hk
        rw [hgt] at htk
        cases hpk : p.r[k]? with
        | none => rw [hpk] at htk; cases htk
        | some pk =>
            rw [hpk] at htk
            simp only [Option.some.injEq] at htk
            obtain ⟨hpl, hpe⟩ := hP k g pk hk hpk
            have hc : gmt.c = p.c := by
              by_contra hne; exact hshape (Or.inl hne)
            have hpc : p.c = got.c := by
              rw [(dot_eq hp).2, (rowsAt_eq hgotv).2.1]
            have hlen1 : (t_n.map fun j => g.getD j 0).length = got.c := by
              rw [List.length_map, ← hgmt_c, hc, hpc]
            subst htk
            rw [addRow_length _ _ got.c hlen1 hpl] at hi
            have := addRow_get (t_n.map fun j => g.getD j 0) pk got.c i hlen1 hpl hi
            rw [List.getD_eq_getElem?_getD, this]
            simp only [Option.getD_some]
            rw [hpe i hi, map_getD_lt _ t_n i 0 0 (by rw [List.length_map] at hlen1; omega)]
    split at htq
    · rename_i hcq
      obtain ⟨goqv, hgoqv, htq⟩ := bind_ok htq
      obtain ⟨qp, hqp, htq⟩ := bind_ok htq
      simp only [pure, Except.pure, Except.ok.injEq] at htq
      subst htq
      have hQ := hprod goq gmov goqv qp hgoq hgmov hgoqv hqp
      refine ⟨hT, ?_, fun hnone => (by cases hnone), fun _ _ => hcq⟩
      intro qp' hqp' k g qk hk hqk i hi
      simp only [Option.some.injEq] at hqp'
      subst hqp'
      obtain ⟨hl, he⟩ := hQ k g qk hk hqk
      exact he i (hl ▸ hi)
    · rename_i hcq
      simp only [pure, Except.pure, Except.ok.injEq] at htq
      subst htq
      exact ⟨hT, fun qp hqp => (by cases hqp), fun _ hne => absurd hne hcq, fun qp hqp => (by cases hqp)⟩
  · rename_i hv
    have hv' : anyCols gmo = [] := not_not.mp hv
    simp only [pure, Except.pure, Except.ok.injEq] at htq
    subst htq
    refine ⟨?_, fun qp hqp => (by cases hqp), fun _ _ g hg i => hzero hv' goq g hg i, fun qp hqp => (by cases hqp)⟩
    intro k g tk hk htk i hi
    have hgt := hgmtk k g hk
    simp only at htk
    rw [hgt] at htk
    simp only [Option.some.injEq] at htk
    subst htk
    rw [hzero hv' got g (List.mem_of_getElem? hk) i, add_zero]
    rw [List.length_map] at hi
    exact map_getD_lt _ t_n i 0 0 hi

/-- **the m-set block in closed form**: the row for the GM row `g` holds `g[t_n] + g[o_n] · GOT` at the t-columns,
`g[o_n] · GOQ + g[q_n]` at the q-columns and zero elsewhere - `u_m = GM u_n` with `u_t`, `u_q` taken by identity,
`u_o = GOT u_t + GOQ u_q` and `u_s = 0` substituted (the pruning of the all-zero columns of `gm[:, o_n]` changes
nothing). -/
theorem mBlock_spec {gm got goq : M α} {ct cq : Nat} {t_a q_a t_n o_n q_n : List Nat} {rows : List (List α)}
    (h : mBlock gm got goq ct cq t_a q_a t_n o_n q_n = .ok rows)
    (hgot : ∀ r ∈ got.r, r.length = got.c) (hgoq : ∀ r ∈ goq.r, r.length = goq.c)
    (hnt : t_a.Nodup) (hnq : q_a.Nodup) (hdis : ∀ c ∈ t_a, c ∉ q_a) :
    List.Forall₂ (MRow ct cq t_a q_a t_n o_n q_n got goq) gm.r rows := by
  have hlen := mBlock_length h
  unfold mBlock at h
  obtain ⟨gmo, hgmo, h⟩ := bind_ok h
  obtain ⟨gmt, hgmt, h⟩ := bind_ok h
  obtain ⟨tq, htq, h⟩ := bind_ok h
  obtain ⟨hT, hQ, hQ0, hQc⟩ := mParts_spec hgmo hgmt hgot hgoq htq
  obtain ⟨tp, qp0⟩ := tq
  simp only at h hT hQ hQ0 hQc
  obtain ⟨z1, hz1, h⟩ := bind_ok h
  split at h
  · cases h
  · obtain ⟨z2, hz2, h⟩ := bind_ok h
    have hz1f := mapM_except _ _ _ hz1
    apply forall₂_of_getElem? hlen.symm
    intro k g row hk hrow
    let w := ct + cq
    -- the three stages of row `k`
    have stage1 : ∀ z1k, z1[k]? = some z1k → ∃ tk, tp.r[k]? = some tk ∧ setCols (zeroRow w) t_a tk = .ok z1k := by
      intro z1k hz1k
      obtain ⟨pr, hpr, hset⟩ := forall₂_getElem?' hz1f k z1k hz1k
      obtain ⟨zk, tk⟩ := pr
      rw [List.getElem?_zip_eq_some] at hpr
      obtain ⟨hzk, htk⟩ := hpr
      rw [List.getElem?_map] at hzk
      cases hgk : gm.r[k]? with
      | none => rw [hgk] at hzk; cases hzk
      | some g' =>
          rw [hgk] at hzk
          simp only [Option.map_some, Option.some.injEq] at hzk
          subst hzk
          exact ⟨tk, htk, hset⟩
    have stage2 : ∀ z2k, z2[k]? = some z2k → ∃ z1k, z1[k]? = some z1k ∧
        ((qp0 = none ∧ z2k = z1k) ∨ ∃ qp qk, qp0 = some qp ∧ qp.r[k]? = some qk ∧ setCols z1k q_a qk = .ok z2k) := by
      intro z2k hz2k
      cases hq0 : qp0 with
      | none =>
          rw [hq0] at hz2
          simp only [pure, Except.pure, Except.ok.injEq] at hz2
          subst hz2
          exact ⟨z2k, hz2k, Or.inl ⟨rfl, rfl⟩⟩
      | some qp =>
          rw [hq0] at hz2
          simp only at hz2
          obtain ⟨pr, hpr, hset⟩ := forall₂_getElem?' (mapM_except _ _ _ hz2) k z2k hz2k
          obtain ⟨z1k, qk⟩ := pr
          rw [List.getElem?_zip_eq_some] at hpr
          exact ⟨z1k, hpr.1, Or.inr ⟨qp, qk, rfl, hpr.2, hset⟩⟩
    -- facts about a row of z2
    have z2facts : ∀ z2k, z2[k]? = some z2k → z2k.length = w ∧
        (∀ (i c : Nat), t_a[i]? = some c → z2k[c]? = some (g.getD (t_n.getD i 0) 0 + oSum g o_n got i)) ∧
        (∀ c, c < w → c ∉ t_a → c ∉ q_a → z2k[c]? = some 0) ∧
        (∀ (i c : Nat), q_a[i]? = some c → c < w → cq ≠ 0 → z2k[c]? = some (oSum g o_n goq i)) := by
      intro z2k hz2k
      obtain ⟨z1k, hz1k, hcase⟩ := stage2 z2k hz2k
      obtain ⟨tk, htk, hset1⟩ := stage1 z1k hz1k
      have hl1 : z1k.length = w := by rw [setCols_length hset1, zeroRow_length]
      have ht1 : ∀ (i c : Nat), t_a[i]? = some c → z1k[c]? = some (g.getD (t_n.getD i 0) 0 + oSum g o_n got i) := by
        intro i c hc
        have hi : i < tk.length := by
          rw [← setCols_vals_length hset1]; exact (List.getElem?_eq_some_iff.mp hc).1
        rw [setCols_get hset1 hnt i c hc, List.getElem?_eq_getElem hi, ← hT k g tk hk htk i hi,
          List.getD_eq_getElem?_getD, List.getElem?_eq_getElem hi]
        rfl
      have hz1 : ∀ c, c < w → c ∉ t_a → z1k[c]? = some 0 := by
        intro c hc hct
        rw [setCols_other hset1 c hct, zeroRow_get w c hc]
      rcases hcase with ⟨hq0, rfl⟩ | ⟨qp, qk, hq0, hqk, hset2⟩
      · refine ⟨hl1, ht1, fun c hc hct _ => hz1 c hc hct, ?_⟩
        intro i c hc hcw hcq
        have hct : c ∉ t_a := fun hm => hdis c hm (List.mem_of_getElem? hc)
        rw [hz1 c hcw hct, hQ0 hq0 hcq g (List.mem_of_getElem? hk) i]
      · refine ⟨by rw [setCols_length hset2]; exact hl1, ?_, ?_, ?_⟩
        · intro i c hc
          rw [setCols_other hset2 c (hdis c (List.mem_of_getElem? hc))]
          exact ht1 i c hc
        · intro c hc hct hcq
          rw [setCols_other hset2 c hcq]
          exact hz1 c hc hct
        · intro i c hc _ _
          have hi : i < qk.length := by
            rw [← setCols_vals_length hset2]; exact (List.getElem?_eq_some_iff.mp hc).1
          rw [setCols_get hset2 hnq i c hc, List.getElem?_eq_getElem hi,
            ← hQ qp hq0 k g qk hk hqk i hi, List.getD_eq_getElem?_getD, List.getElem?_eq_getElem hi]
          rfl
    split at h
    · rename_i hcq
      obtain ⟨gmq, hgmq, h⟩ := bind_ok h
      obtain ⟨cur, hcur, h⟩ := bind_ok h
      split at h
      · cases h
      · rename_i hqlen
        have hqlen' : q_a.length = q_n.length := not_not.mp hqlen
        obtain ⟨pr, hpr, hset3⟩ := forall₂_getElem?' (mapM_except _ _ _ h) k row hrow
        obtain ⟨z2k, updk⟩ := pr
        rw [List.getElem?_zip_eq_some] at hpr
        obtain ⟨hz2k, hupd⟩ := hpr
        simp only at hset3
        obtain ⟨hl2, ht2, hz2, hq2⟩ := z2facts z2k hz2k
        rw [List.getElem?_zipWith] at hupd
        obtain ⟨curk, gmqk, hcurk, hgmqk, hupd⟩ : ∃ curk gmqk, cur[k]? = some curk ∧ gmq.r[k]? = some gmqk ∧
            addRow curk gmqk = updk := by
          cases hc1 : cur[k]? with
          | none => rw [hc1] at hupd; cases hupd
          | some curk =>
              cases hc2 : gmq.r[k]? with
              | none => rw [hc1, hc2] at hupd; cases hupd
              | some gmqk =>
                  rw [hc1, hc2] at hupd
                  simp only [Option.some.injEq] at hupd
                  exact ⟨curk, gmqk, rfl, rfl, hupd⟩
        obtain ⟨z2k', hz2k', htake⟩ := forall₂_getElem?' (mapM_except _ _ _ hcur) k curk hcurk
        rw [hz2k] at hz2k'
        simp only [Option.some.injEq] at hz2k'
        subst hz2k'
        have hcurf := takeIdx_ok htake
        have hgmqk' : gmqk = q_n.map fun j => g.getD j 0 := by
          rw [(colsAt_eq hgmq).1, List.getElem?_map, hk] at hgmqk
          simpa using hgmqk.symm
        have hcl : curk.length = q_a.length := hcurf.length_eq.symm
        have hgl : gmqk.length = q_a.length := by rw [hgmqk', List.length_map, hqlen']
        refine ⟨by rw [setCols_length hset3]; exact hl2, ?_, ?_, ?_⟩
        · intro i c hc
          rw [setCols_other hset3 c (hdis c (List.mem_of_getElem? hc))]
          exact ht2 i c hc
        · intro _ i c hc
          have hi : i < q_a.length := (List.getElem?_eq_some_iff.mp hc).1
          have hcw : c < w := by
            have := setCols_length hset3
            by_contra hge
            have hrange : ¬ (q_a.any fun c => decide (z2k.length ≤ c)) = true := by
              intro hany
              unfold setCols at hset3
              rw [if_pos hany] at hset3
              cases hset3
            exact hrange (List.any_eq_true.mpr ⟨c, List.mem_of_getElem? hc, by simp; omega⟩)
          rw [setCols_get hset3 hnq i c hc, ← hupd, addRow_get curk gmqk q_a.length i hcl hgl hi]
          congr 2
          · obtain ⟨y, hy, hyz⟩ := forall₂_getElem? hcurf i c hc
            rw [List.getD_eq_getElem?_getD, hy]
            rw [hq2 i c hc hcw hcq] at hyz
            simp only [Option.some.injEq] at hyz
            rw [← hyz]; rfl
          · rw [hgmqk']
            exact map_getD_lt _ q_n i 0 0 (by omega)
        · intro c hc hct hcq'
          have hcq'' := hcq' hcq
          rw [setCols_other hset3 c hcq'']
          exact hz2 c hc hct hcq''
    · rename_i hcq
      have hcq0 : cq = 0 := not_not.mp hcq
      simp only [pure, Except.pure, Except.ok.injEq] at h
      subst h
      obtain ⟨hl2, ht2, _, _⟩ := z2facts row hrow
      obtain ⟨z1k, hz1k, hcase⟩ := stage2 row hrow
      refine ⟨hl2, ht2, fun hne => absurd hcq0 hne, ?_⟩
      intro c hc hct _
      rcases hcase with ⟨_, rfl⟩ | ⟨qp, qk, hq0, _, _⟩
      · obtain ⟨tk, _, hset1⟩ := stage1 row hz1k
        rw [setCols_other hset1 c hct, zeroRow_get w c hc]
      · exact absurd hcq0 (hQc qp hq0)

end semi
end PyYetiVerif.Uset
