import Mathlib.Analysis.InnerProductSpace.Basic
import Mathlib.Tactic.Ring
import Mathlib.Tactic.Linarith
import Mathlib.Tactic.Positivity
/-!
Discrete energy method for the Newmark-beta (β = 1/3) recurrence with FULL matrices: `V` is any real inner
product space, `M`, `B`, `K` linear maps on it (`M`, `K` symmetric; nothing is assumed about `B` for the
identity).  `energyV` is the quadratic form `(1/h²)⟪M(x−y), x−y⟫ + (1/3)(⟪Kx,x⟫ + ⟪Kx,y⟫ + ⟪Ky,y⟫)`.
-/
namespace PyYetiVerif.Newmark
open InnerProductSpace

variable {V : Type*} [NormedAddCommGroup V] [InnerProductSpace ℝ V]

/-- `A = M/h² + B/(2h) + K/3` as a linear map -/
noncomputable def fullA (M B K : V →ₗ[ℝ] V) (h : ℝ) : V →ₗ[ℝ] V :=
  (h * h)⁻¹ • M + (2 * h)⁻¹ • B + (3 : ℝ)⁻¹ • K
/-- `A1 = 2M/h² − K/3` -/
noncomputable def fullA1 (M K : V →ₗ[ℝ] V) (h : ℝ) : V →ₗ[ℝ] V :=
  (2 * (h * h)⁻¹) • M - (3 : ℝ)⁻¹ • K
/-- `A0 = B/(2h) − K/3 − M/h²` -/
noncomputable def fullA0 (M B K : V →ₗ[ℝ] V) (h : ℝ) : V →ₗ[ℝ] V :=
  (2 * h)⁻¹ • B - (3 : ℝ)⁻¹ • K - (h * h)⁻¹ • M

/-- discrete energy of two consecutive displacement vectors -/
noncomputable def energyV (M K : V →ₗ[ℝ] V) (h : ℝ) (x y : V) : ℝ :=
  (h * h)⁻¹ * ⟪M (x - y), x - y⟫_ℝ + (3 : ℝ)⁻¹ * (⟪K x, x⟫_ℝ + ⟪K x, y⟫_ℝ + ⟪K y, y⟫_ℝ)

theorem sym_swap (M : V →ₗ[ℝ] V) (hM : ∀ x y, ⟪M x, y⟫_ℝ = ⟪x, M y⟫_ℝ) (x y : V) :
    ⟪M x, y⟫_ℝ = ⟪M y, x⟫_ℝ := by rw [hM x y, real_inner_comm]

/-- exact energy balance of one application of the full-matrix recurrence -/
theorem energyV_identity (M B K : V →ₗ[ℝ] V) (h : ℝ) (g u2 u1 u0 : V)
    (hM : ∀ x y, ⟪M x, y⟫_ℝ = ⟪x, M y⟫_ℝ) (hK : ∀ x y, ⟪K x, y⟫_ℝ = ⟪x, K y⟫_ℝ)
    (hrec : fullA M B K h u2 = g + fullA1 M K h u1 + fullA0 M B K h u0) :
    energyV M K h u2 u1 - energyV M K h u1 u0
      = -((2 * h)⁻¹ * ⟪B (u2 - u0), u2 - u0⟫_ℝ) + ⟪g, u2 - u0⟫_ℝ := by
  have hg : g = fullA M B K h u2 - fullA1 M K h u1 - fullA0 M B K h u0 := by rw [hrec]; abel
  rw [hg]
  simp only [energyV, fullA, fullA1, fullA0, LinearMap.add_apply, LinearMap.sub_apply,
    LinearMap.smul_apply, map_sub, inner_sub_left, inner_sub_right, inner_add_left,
    real_inner_smul_left]
  have s1 := sym_swap M hM u1 u2
  have s2 := sym_swap M hM u0 u2
  have s3 := sym_swap M hM u0 u1
  have s4 := sym_swap K hK u1 u2
  have s5 := sym_swap K hK u0 u2
  simp only [s1, s2, s3, s4, s5]
  ring

/-- the newest displacement is controlled by the energy: `⟪K x, x⟫ / 4 ≤ E(x, y)` -/
theorem stiffnessV_le_energy (M K : V →ₗ[ℝ] V) (h : ℝ) (x y : V)
    (hK : ∀ x y, ⟪K x, y⟫_ℝ = ⟪x, K y⟫_ℝ) (hMp : ∀ x, 0 ≤ ⟪M x, x⟫_ℝ) (hKp : ∀ x, 0 ≤ ⟪K x, x⟫_ℝ) :
    ⟪K x, x⟫_ℝ / 4 ≤ energyV M K h x y := by
  have h1 : 0 ≤ (h * h)⁻¹ * ⟪M (x - y), x - y⟫_ℝ :=
    mul_nonneg (inv_nonneg.mpr (mul_self_nonneg h)) (hMp _)
  have h2 := hKp ((2 : ℝ)⁻¹ • x + y)
  simp only [map_add, map_smul, inner_add_left, inner_add_right, real_inner_smul_left,
    real_inner_smul_right] at h2
  rw [sym_swap K hK y x] at h2
  simp only [energyV]
  nlinarith

/-- `0 ≤ E` for positive semidefinite symmetric `M`, `K` -/
theorem energyV_nonneg (M K : V →ₗ[ℝ] V) (h : ℝ) (x y : V)
    (hK : ∀ x y, ⟪K x, y⟫_ℝ = ⟪x, K y⟫_ℝ) (hMp : ∀ x, 0 ≤ ⟪M x, x⟫_ℝ) (hKp : ∀ x, 0 ≤ ⟪K x, x⟫_ℝ) :
    0 ≤ energyV M K h x y :=
  le_trans (div_nonneg (hKp x) (by norm_num)) (stiffnessV_le_energy M K h x y hK hMp hKp)

end PyYetiVerif.Newmark
