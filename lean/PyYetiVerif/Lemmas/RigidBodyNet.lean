import PyYetiVerif.Lemmas.RigidBodyGuyan
import PyYetiVerif.Model.RigidBodyNet
import Mathlib.Algebra.BigOperators.Fin
/-! Helper lemmas for the `mk_net_drms` model (`Model/RigidBodyNet.lean`): the real-number instance of
`NetOps`, sums over scattered columns, rectangular `rbgeomUset` rows. -/
set_option linter.unusedVariables false
set_option linter.unusedSimpArgs false
set_option linter.unusedSectionVars false
namespace PyYetiVerif.RigidBody

noncomputable instance instNetOpsReal : NetOps ℝ where
  groundTol := 1e-8
  rtol := 1e-5
  atol := 1e-8
  isZero := fun x => decide (x = 0)
  ofNat := fun n => (n : ℝ)
  lcTol := 1e-12

section sums
variable {K : Type} [CommRing K]

/-- a sum over all columns of a matrix that is non-zero only on the duplicate-free column list `cols` is the sum
over the list -/
theorem sumN_scatter (n : Nat) (cols : List Nat) (hnd : cols.Nodup) (hlt : ∀ x ∈ cols, x < n)
    (g : Nat → Nat → K) :
    sumN n (fun c => match idxIn cols c with | some k => g k c | none => 0)
      = sumN cols.length (fun k => g k (cols.getD k 0)) := by
  rw [sumN_eq_sum, sumN_eq_sum_fin]
  have himg : ∀ c ∈ Finset.range n, c ∉ (Finset.univ.image fun k : Fin cols.length => cols[k]) →
      (match idxIn cols c with | some k => g k c | none => 0) = 0 := by
    intro c _ hc
    have : c ∉ cols := by
      intro hm
      obtain ⟨k, hk, rfl⟩ := List.getElem_of_mem hm
      exact hc (Finset.mem_image.2 ⟨⟨k, hk⟩, Finset.mem_univ _, rfl⟩)
    rw [idxIn_of_not_mem this]
  have hsub : (Finset.univ.image fun k : Fin cols.length => cols[k]) ⊆ Finset.range n := by
    intro c hc
    obtain ⟨k, _, rfl⟩ := Finset.mem_image.1 hc
    exact Finset.mem_range.2 (hlt _ (List.getElem_mem k.2))
  rw [← Finset.sum_subset hsub himg]
  rw [Finset.sum_image]
  · apply Finset.sum_congr rfl
    intro k _
    have h1 : idxIn cols cols[k] = some k.val := idxIn_getElem hnd k.2
    have h2 : cols.getD k.val 0 = cols[k] := by simp [List.getD_eq_getElem?_getD]
    simp only [h1, h2]
  · intro a _ b _ hab
    exact Fin.ext ((List.Nodup.getElem_inj_iff hnd).1 hab)

end sums

end PyYetiVerif.RigidBody
