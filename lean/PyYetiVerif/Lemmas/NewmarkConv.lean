import PyYetiVerif.Lemmas.NewmarkEnergy
import PyYetiVerif.Lemmas.NewmarkTaylor
/-!
Ingredients of the convergence proof of the scalar Newmark-beta scheme (C17):
the scalar displacement sequence in residual form (`dseq_scalar_one`, `dseq_scalar_rec`), the local
truncation error of the three-point recurrence (`trunc`, `trunc_eq`, `trunc_abs_le`), the error of the
documented start-up step for a general smooth solution (`startup_error_eq`, `startup_error_abs_le`) and
the error recursion (`error_rec`).
-/
namespace PyYetiVerif.Newmark
open Set

/-! ### the scalar sequence in residual form -/
section scalar_seq
variable {α : Type} [Field α] [CharZero α]

/-- raw force the recurrence uses for column `n`: the replaced `F₀' = k d0 + b v0` at `n = 0` -/
def effForce (b k : α) (Fn : ℕ → α) (d0 v0 : α) (n : ℕ) : α :=
  if n = 0 then k * d0 + b * v0 else Fn n

omit [CharZero α] in
theorem gseq_scalar (m b k h : α) (Fn : ℕ → α) (d0 v0 : α) (n : ℕ) :
    gseq (scalarSys m b k h) Fn d0 v0 n = effForce b k Fn d0 v0 n / 3 / coefA m b k h := by
  unfold gseq effForce
  split <;> simp [f0, scaled, scalarSys, VecOps.sdiv]

theorem dseq_scalar_one (m b k h : α) (Fn : ℕ → α) (d0 v0 : α) (hA : coefA m b k h ≠ 0) :
    coefA m b k h * dseq (scalarSys m b k h) Fn d0 v0 0 1
      = (Fn 1 + (k * d0 + b * v0) + (k * (d0 - h * v0) + b * v0)) / 3
        + coefA1 m k h * d0 + coefA0 m b k h * (d0 - h * v0) := by
  simp only [dseq, step, scaled, f0, fM1, uM1, scalarSys, VecOps.sdiv, VecOps.smul]
  rw [step_mul_A _ _ _ _ _ _ _ _ _ hA]
  ring

theorem dseq_scalar_rec (m b k h : α) (Fn : ℕ → α) (d0 v0 : α) (hA : coefA m b k h ≠ 0) (n : ℕ) :
    coefA m b k h * dseq (scalarSys m b k h) Fn d0 v0 0 (n + 2)
      = (Fn (n + 2) + Fn (n + 1) + effForce b k Fn d0 v0 n) / 3
        + coefA1 m k h * dseq (scalarSys m b k h) Fn d0 v0 0 (n + 1)
        + coefA0 m b k h * dseq (scalarSys m b k h) Fn d0 v0 0 n := by
  have e1 : effForce b k Fn d0 v0 (n + 1) = Fn (n + 1) := by simp [effForce]
  rw [dseq, gseq_scalar, gseq_scalar, e1]
  simp only [step, scaled, scalarSys, VecOps.sdiv]
  rw [step_mul_A _ _ _ _ _ _ _ _ _ hA]
  ring

end scalar_seq

/-! ### local truncation error -/

/-- residual of the exact solution in the three-point recurrence centred at `t` -/
noncomputable def trunc (m b k h : ℝ) (u f : ℝ → ℝ) (t : ℝ) : ℝ :=
  coefA m b k h * u (t + h) - coefA1 m k h * u t - coefA0 m b k h * u (t - h)
    - (f (t + h) + f t + f (t - h)) / 3

theorem abs_comb_le (m b P Q R S : ℝ) (hm : 0 ≤ m) (hb : 0 ≤ b) :
    |m * (P - Q) + b * (R - S)| ≤ m * (|P| + |Q|) + b * (|R| + |S|) := by
  have h1 : |m * (P - Q) + b * (R - S)| ≤ |m * (P - Q)| + |b * (R - S)| := abs_add_le _ _
  rw [abs_mul, abs_mul, abs_of_nonneg hm, abs_of_nonneg hb] at h1
  have h2 : |P - Q| ≤ |P| + |Q| := abs_sub _ _
  have h3 : |R - S| ≤ |R| + |S| := abs_sub _ _
  nlinarith [mul_le_mul_of_nonneg_left h2 hm, mul_le_mul_of_nonneg_left h3 hb]

/-- the `k` terms cancel: the truncation error only sees the difference quotients of `u` against the
averages of `u'`, `u''` -/
theorem trunc_eq (m b k h : ℝ) (u u1 u2 f : ℝ → ℝ) (t : ℝ) (hh : h ≠ 0)
    (hp : m * u2 (t + h) + b * u1 (t + h) + k * u (t + h) = f (t + h))
    (h0 : m * u2 t + b * u1 t + k * u t = f t)
    (hn : m * u2 (t - h) + b * u1 (t - h) + k * u (t - h) = f (t - h)) :
    trunc m b k h u f t
      = m * ((u (t + h) - 2 * u t + u (t - h) - h ^ 2 * u2 t) / h ^ 2
              - (u2 (t + h) - 2 * u2 t + u2 (t - h)) / 3)
        + b * ((u (t + h) - u (t - h) - 2 * h * u1 t) / (2 * h)
              - (u1 (t + h) - 2 * u1 t + u1 (t - h)) / 3) := by
  simp only [trunc, coefA, coefA1, coefA0, ← hp, ← h0, ← hn]
  field_simp
  ring

/-- `|τ| ≤ (5 m M₄ / 12 + b M₃ / 2) h²` -/
theorem trunc_abs_le (m b k h M3 M4 : ℝ) (u u1 u2 u3 u4 f : ℝ → ℝ) (t : ℝ) (hm : 0 ≤ m) (hb : 0 ≤ b)
    (hh : 0 < h)
    (hu : ∀ t, HasDerivAt u (u1 t) t) (hu1 : ∀ t, HasDerivAt u1 (u2 t) t)
    (hu2 : ∀ t, HasDerivAt u2 (u3 t) t) (hu3 : ∀ t, HasDerivAt u3 (u4 t) t)
    (hM3 : ∀ s ∈ Icc (t - h) (t + h), |u3 s| ≤ M3) (hM4 : ∀ s ∈ Icc (t - h) (t + h), |u4 s| ≤ M4)
    (hode : ∀ s ∈ Icc (t - h) (t + h), m * u2 s + b * u1 s + k * u s = f s) :
    |trunc m b k h u f t| ≤ (5 * m * M4 / 12 + b * M3 / 2) * h ^ 2 := by
  have mp : t + h ∈ Icc (t - h) (t + h) := ⟨by linarith, le_refl _⟩
  have m0 : t ∈ Icc (t - h) (t + h) := ⟨by linarith, by linarith⟩
  have mn : t - h ∈ Icc (t - h) (t + h) := ⟨le_refl _, by linarith⟩
  rw [trunc_eq m b k h u u1 u2 f t hh.ne' (hode _ mp) (hode _ m0) (hode _ mn)]
  have a1 := second_diff_taylor_le u u1 u2 u3 u4 hu hu1 hu2 hu3 t h M4 hh.le hM4
  have a2 := second_diff_le u2 u3 u4 hu2 hu3 t h M4 hh.le hM4
  have a3 := centered_diff_le u u1 u2 u3 hu hu1 hu2 t h M3 hh.le hM3
  have a4 := second_diff_le u1 u2 u3 hu1 hu2 t h M3 hh.le hM3
  have hh2 : 0 < h ^ 2 := by positivity
  have c1 : |(u (t + h) - 2 * u t + u (t - h) - h ^ 2 * u2 t) / h ^ 2| ≤ M4 / 12 * h ^ 2 := by
    rw [abs_div, abs_of_pos hh2, div_le_iff₀ hh2]
    calc _ ≤ M4 / 12 * h ^ 4 := a1
      _ = M4 / 12 * h ^ 2 * h ^ 2 := by ring
  have c2 : |(u2 (t + h) - 2 * u2 t + u2 (t - h)) / 3| ≤ M4 / 3 * h ^ 2 := by
    rw [abs_div, abs_of_pos (by norm_num : (0 : ℝ) < 3)]
    calc _ ≤ M4 * h ^ 2 / 3 := div_le_div_of_nonneg_right a2 (by norm_num)
      _ = M4 / 3 * h ^ 2 := by ring
  have c3 : |(u (t + h) - u (t - h) - 2 * h * u1 t) / (2 * h)| ≤ M3 / 6 * h ^ 2 := by
    have h2 : (0 : ℝ) < 2 * h := by positivity
    rw [abs_div, abs_of_pos h2, div_le_iff₀ h2]
    calc _ ≤ M3 / 3 * h ^ 3 := a3
      _ = M3 / 6 * h ^ 2 * (2 * h) := by ring
  have c4 : |(u1 (t + h) - 2 * u1 t + u1 (t - h)) / 3| ≤ M3 / 3 * h ^ 2 := by
    rw [abs_div, abs_of_pos (by norm_num : (0 : ℝ) < 3)]
    calc _ ≤ M3 * h ^ 2 / 3 := div_le_div_of_nonneg_right a4 (by norm_num)
      _ = M3 / 3 * h ^ 2 := by ring
  refine le_trans (abs_comb_le m b _ _ _ _ hm hb) ?_
  have e1 := mul_le_mul_of_nonneg_left (add_le_add c1 c2) hm
  have e2 := mul_le_mul_of_nonneg_left (add_le_add c3 c4) hb
  calc _ ≤ m * (M4 / 12 * h ^ 2 + M4 / 3 * h ^ 2) + b * (M3 / 6 * h ^ 2 + M3 / 3 * h ^ 2) :=
        add_le_add e1 e2
    _ = (5 * m * M4 / 12 + b * M3 / 2) * h ^ 2 := by ring

/-! ### the documented start-up step on a general smooth solution -/

/-- `A (d₁ − u(h))` for the documented start-up, exact: the leading term is the defect of
`newmark_startup_defect` with `c₂ = u''(0)/2`, the rest are Taylor remainders -/
theorem startup_error_eq (m b k h : ℝ) (u u1 u2 f : ℝ → ℝ) (hh : h ≠ 0) (hA : coefA m b k h ≠ 0)
    (hode : m * u2 h + b * u1 h + k * u h = f h) :
    coefA m b k h * (dseq (scalarSys m b k h) (fun j => f (j * h)) (u 0) (u1 0) 0 1 - u h)
      = u2 0 * (b * h / 12 - m / 6)
        + m * ((u2 h - u2 0) / 3 - (u h - u 0 - h * u1 0 - h ^ 2 / 2 * u2 0) / h ^ 2)
        + b * ((u1 h - u1 0 - h * u2 0) / 3 - (u h - u 0 - h * u1 0 - h ^ 2 / 2 * u2 0) / (2 * h)) := by
  rw [mul_sub, dseq_scalar_one _ _ _ _ _ _ _ hA]
  simp only [Nat.cast_one, one_mul, ← hode, coefA, coefA1, coefA0]
  field_simp
  ring

/-- `|d₁ − u(h)| ≤ (h²/m) (|u''(0)| |b h/12 − m/6| + m M₃ h/2 + b M₃ h²/4)` -/
theorem startup_error_abs_le (m b k h M3 : ℝ) (u u1 u2 u3 f : ℝ → ℝ) (hm : 0 < m) (hb : 0 ≤ b)
    (hk : 0 ≤ k) (hh : 0 < h)
    (hu : ∀ t, HasDerivAt u (u1 t) t) (hu1 : ∀ t, HasDerivAt u1 (u2 t) t)
    (hu2 : ∀ t, HasDerivAt u2 (u3 t) t) (hM3 : ∀ s ∈ Icc 0 h, |u3 s| ≤ M3)
    (hode : m * u2 h + b * u1 h + k * u h = f h) :
    |dseq (scalarSys m b k h) (fun j => f (j * h)) (u 0) (u1 0) 0 1 - u h|
      ≤ h ^ 2 / m * (|u2 0| * |b * h / 12 - m / 6| + m * M3 * h / 2 + b * M3 * h ^ 2 / 4) := by
  have hApos : m / h ^ 2 ≤ coefA m b k h := by
    simp only [coefA]
    have : 0 ≤ b / (2 * h) := by positivity
    have : 0 ≤ k / 3 := by positivity
    have : m / (h * h) = m / h ^ 2 := by rw [sq]
    linarith
  have hmh : 0 < m / h ^ 2 := by positivity
  have hA : coefA m b k h ≠ 0 := (lt_of_lt_of_le hmh hApos).ne'
  have heq := startup_error_eq m b k h u u1 u2 f hh.ne' hA hode
  have hM3' : ∀ s ∈ Icc (0 : ℝ) (0 + h), |u3 s| ≤ M3 := by simpa using hM3
  obtain ⟨t1, t2, t3⟩ := forward_taylor_le u u1 u2 u3 hu hu1 hu2 0 h M3 hh.le hM3'
  simp only [zero_add] at t1 t2 t3
  set e1 := dseq (scalarSys m b k h) (fun j => f (j * h)) (u 0) (u1 0) 0 1 - u h with he1
  set R3 := u h - u 0 - h * u1 0 - h ^ 2 / 2 * u2 0 with hR3
  have hh2 : 0 < h ^ 2 := by positivity
  have c1 : |(u2 h - u2 0) / 3| ≤ M3 * h / 3 := by
    rw [abs_div, abs_of_pos (by norm_num : (0 : ℝ) < 3)]
    exact div_le_div_of_nonneg_right t1 (by norm_num)
  have c2 : |R3 / h ^ 2| ≤ M3 * h / 6 := by
    rw [abs_div, abs_of_pos hh2, div_le_iff₀ hh2]
    calc _ ≤ M3 / 6 * h ^ 3 := t3
      _ = M3 * h / 6 * h ^ 2 := by ring
  have c3 : |(u1 h - u1 0 - h * u2 0) / 3| ≤ M3 * h ^ 2 / 6 := by
    rw [abs_div, abs_of_pos (by norm_num : (0 : ℝ) < 3)]
    calc _ ≤ M3 / 2 * h ^ 2 / 3 := div_le_div_of_nonneg_right t2 (by norm_num)
      _ = M3 * h ^ 2 / 6 := by ring
  have c4 : |R3 / (2 * h)| ≤ M3 * h ^ 2 / 12 := by
    have h2 : (0 : ℝ) < 2 * h := by positivity
    rw [abs_div, abs_of_pos h2, div_le_iff₀ h2]
    calc _ ≤ M3 / 6 * h ^ 3 := t3
      _ = M3 * h ^ 2 / 12 * (2 * h) := by ring
  have hrem := abs_comb_le m b _ _ _ _ hm.le hb |>.trans
    (add_le_add (mul_le_mul_of_nonneg_left (add_le_add c1 c2) hm.le)
      (mul_le_mul_of_nonneg_left (add_le_add c3 c4) hb))
  have habs : |coefA m b k h * e1|
      ≤ |u2 0| * |b * h / 12 - m / 6| + m * M3 * h / 2 + b * M3 * h ^ 2 / 4 := by
    rw [heq, add_assoc]
    refine le_trans (abs_add_le _ _) ?_
    rw [abs_mul]
    have : m * (M3 * h / 3 + M3 * h / 6) + b * (M3 * h ^ 2 / 6 + M3 * h ^ 2 / 12)
        = m * M3 * h / 2 + b * M3 * h ^ 2 / 4 := by ring
    linarith
  rw [abs_mul, abs_of_pos (lt_of_lt_of_le hmh hApos)] at habs
  have hlow : m / h ^ 2 * |e1| ≤ coefA m b k h * |e1| :=
    mul_le_mul_of_nonneg_right hApos (abs_nonneg _)
  have : |e1| = h ^ 2 / m * (m / h ^ 2 * |e1|) := by field_simp
  rw [this]
  exact mul_le_mul_of_nonneg_left (le_trans hlow habs) (by positivity)

/-! ### error recursion -/

/-- forcing of the error recursion: minus the truncation error, and at the first pass of the loop the
third of the start-up imbalance `F(0) − (K u₀ + B v₀)` (the replaced `F₀`) -/
noncomputable def errForce (m b k h : ℝ) (u u1 f : ℝ → ℝ) (n : ℕ) : ℝ :=
  -trunc m b k h u f (((n + 1 : ℕ) : ℝ) * h)
    - (if n = 0 then (f 0 - (k * u 0 + b * u1 0)) / 3 else 0)

/-- the global error `e_n = d_n − u(n h)` satisfies the scheme's own recurrence, forced by `errForce` -/
theorem error_rec (m b k h : ℝ) (u u1 f : ℝ → ℝ) (hA : coefA m b k h ≠ 0) (n : ℕ) :
    coefA m b k h *
        (dseq (scalarSys m b k h) (fun j => f (j * h)) (u 0) (u1 0) 0 (n + 2) - u (((n + 2 : ℕ) : ℝ) * h))
      = errForce m b k h u u1 f n
        + coefA1 m k h *
          (dseq (scalarSys m b k h) (fun j => f (j * h)) (u 0) (u1 0) 0 (n + 1) - u (((n + 1 : ℕ) : ℝ) * h))
        + coefA0 m b k h *
          (dseq (scalarSys m b k h) (fun j => f (j * h)) (u 0) (u1 0) 0 n - u ((n : ℝ) * h)) := by
  rw [mul_sub, dseq_scalar_rec _ _ _ _ _ _ _ hA]
  have t2 : ((n + 1 : ℕ) : ℝ) * h + h = ((n + 2 : ℕ) : ℝ) * h := by push_cast; ring
  have t0 : ((n + 1 : ℕ) : ℝ) * h - h = (n : ℝ) * h := by push_cast; ring
  simp only [errForce, trunc, t2, t0, effForce]
  rcases Nat.eq_zero_or_pos n with rfl | hn
  · simp
    ring
  · have : n ≠ 0 := hn.ne'
    simp only [this, if_false]
    ring

/-! ### stability + consistency ⇒ convergence (abstract sequences) -/

open Finset in
/-- Core of the convergence proof.  `e` satisfies the recurrence forced by `g` (`hrec`), starts at `0`,
its first member is `≤ h² Pm`, the forcing is `≤ G` (plus `D` at the first pass) on the first `N`
passes, and `(N + 1) h ≤ T`.  Then every member up to index `N + 1` is bounded by
`(T/μ) (h Pm ρ + (T G + h D)/μ)` where `m = μ²`, `m + k T²/3 ≤ ρ²`. -/
theorem conv_core (m b k h T μ ρ Pm G D : ℝ) (e g : ℕ → ℝ) (N : ℕ) (hμ : 0 < μ) (hmμ : m = μ ^ 2)
    (hb : 0 ≤ b) (hk : 0 ≤ k) (hh : 0 < h) (hρ : 0 ≤ ρ) (hρ2 : m + k * T ^ 2 / 3 ≤ ρ ^ 2)
    (hPm : 0 ≤ Pm) (hG : 0 ≤ G) (hD : 0 ≤ D) (hNT : ((N : ℝ) + 1) * h ≤ T)
    (hrec : ∀ n, coefA m b k h * e (n + 2) = g n + coefA1 m k h * e (n + 1) + coefA0 m b k h * e n)
    (he0 : e 0 = 0) (he1 : |e 1| ≤ h ^ 2 * Pm)
    (hg0 : 1 ≤ N → |g 0| ≤ G + D) (hgj : ∀ j, 1 ≤ j → j < N → |g j| ≤ G) :
    ∀ n, n ≤ N + 1 → |e n| ≤ T / μ * (h * Pm * ρ + (T * G + h * D) / μ) := by
  have hN0 : (0 : ℝ) ≤ N := Nat.cast_nonneg N
  have hhT : h ≤ T := by nlinarith
  have hNh : (N : ℝ) * h ≤ T := by nlinarith
  have hT : 0 < T := lt_of_lt_of_le hh hhT
  -- initial energy
  have hE0 : energy m k h (e 1) (e 0) ≤ (h * Pm * ρ) ^ 2 := by
    rw [he0]
    simp only [energy, sub_zero, mul_zero, add_zero]
    have hsq : (e 1) ^ 2 ≤ (h ^ 2 * Pm) ^ 2 := by
      rw [← sq_abs (e 1)]
      exact pow_le_pow_left₀ (abs_nonneg _) he1 2
    have hk3 : k / 3 ≤ k * T ^ 2 / 3 / h ^ 2 := by
      rw [le_div_iff₀ (by positivity)]
      have : h ^ 2 ≤ T ^ 2 := pow_le_pow_left₀ hh.le hhT 2
      nlinarith
    have hcoef : m / h ^ 2 + k / 3 ≤ ρ ^ 2 / h ^ 2 := by
      have : ρ ^ 2 / h ^ 2 ≥ (m + k * T ^ 2 / 3) / h ^ 2 :=
        div_le_div_of_nonneg_right hρ2 (by positivity)
      have e2 : (m + k * T ^ 2 / 3) / h ^ 2 = m / h ^ 2 + k * T ^ 2 / 3 / h ^ 2 := by ring
      linarith
    have hc0 : 0 ≤ m / h ^ 2 + k / 3 := by
      have : 0 ≤ m := by rw [hmμ]; positivity
      positivity
    calc m * (e 1 / h) ^ 2 + k / 3 * (e 1 ^ 2 + 0 ^ 2)
        = (e 1) ^ 2 * (m / h ^ 2 + k / 3) := by field_simp; ring
      _ ≤ (h ^ 2 * Pm) ^ 2 * (ρ ^ 2 / h ^ 2) :=
          mul_le_mul hsq hcoef hc0 (by positivity)
      _ = (h * Pm * ρ) ^ 2 := by field_simp
  have hR0 : 0 ≤ h * Pm * ρ := by positivity
  -- partial sums of the forcing
  have hS : ∀ j, j ≤ N → ∑ i ∈ range j, |g i| ≤ j * G + D := by
    intro j
    induction j with
    | zero => intro _; simpa using hD
    | succ j ih =>
      intro hj
      rw [sum_range_succ]
      rcases Nat.eq_zero_or_pos j with rfl | hpos
      · simpa using hg0 hj
      · have := ih (Nat.le_of_succ_le hj)
        have hgj' := hgj j hpos (Nat.lt_of_succ_le hj)
        push_cast
        linarith
  set Rbar := h * Pm * ρ + (T * G + h * D) / μ with hRbar
  have hRbar0 : 0 ≤ Rbar := by positivity
  have hEj : ∀ j, j ≤ N → energy m k h (e (j + 1)) (e j) ≤ Rbar ^ 2 := by
    intro j hj
    have h1 := energy_sum_le m b k h μ (h * Pm * ρ) e g hμ hmμ hb hk hh hR0 hrec hE0 j
    have hs0 : 0 ≤ ∑ i ∈ range j, |g i| := sum_nonneg fun _ _ => abs_nonneg _
    have hjN : (j : ℝ) ≤ N := Nat.cast_le.mpr hj
    have h2 : h / μ * ∑ i ∈ range j, |g i| ≤ (T * G + h * D) / μ := by
      have hb1 : ∑ i ∈ range j, |g i| ≤ N * G + D := by
        have := hS j hj
        have : (j : ℝ) * G ≤ N * G := mul_le_mul_of_nonneg_right hjN hG
        linarith
      have hb2 : h * (N * G + D) ≤ T * G + h * D := by nlinarith
      calc h / μ * ∑ i ∈ range j, |g i| ≤ h / μ * (N * G + D) :=
            mul_le_mul_of_nonneg_left hb1 (by positivity)
        _ = h * (N * G + D) / μ := by ring
        _ ≤ (T * G + h * D) / μ := div_le_div_of_nonneg_right hb2 hμ.le
    refine le_trans h1 (pow_le_pow_left₀ (by positivity) ?_ 2)
    rw [hRbar]; linarith
  intro n hn
  have hd := disp_sum_le m k h μ e (fun _ => Rbar) hμ hmμ hk hh n fun j hj =>
    ⟨hRbar0, hEj j (by omega)⟩
  rw [he0, sub_zero, sum_const, card_range, nsmul_eq_mul] at hd
  have hnT : (n : ℝ) * h ≤ T := by
    have : (n : ℝ) ≤ N + 1 := by exact_mod_cast hn
    nlinarith
  calc |e n| ≤ h / μ * (n * Rbar) := hd
    _ = (n * h) / μ * Rbar := by ring
    _ ≤ T / μ * Rbar := by
        apply mul_le_mul_of_nonneg_right _ hRbar0
        exact div_le_div_of_nonneg_right hnT hμ.le

end PyYetiVerif.Newmark
