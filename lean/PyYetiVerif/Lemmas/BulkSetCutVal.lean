import PyYetiVerif.Lemmas.BulkSetCutDig
/-! What `_rd_set_line` makes of the first `k` characters of an item token `a` / `a THRU b` (C13; core Lean only):
never the ids of the item followed by the ids of the items after it. -/
namespace PyYetiVerif.Bulk

theorem thruMatch_digs (A B : Txt) (hA : Digs A) (hB : Digs B) :
    thruMatch [] (A ++ txt " THRU " ++ B) = some (digitsVal A, digitsVal B) := by
  have e : A ++ txt " THRU " ++ B = (A ++ [' ']) ++ (txt "THRU " ++ B) := by simp [txt]
  have hu : ∀ c ∈ A ++ [' '], NotT c := by
    intro c hc
    simp only [List.mem_append, List.mem_singleton] at hc
    rcases hc with hc | hc
    · exact notT_digit (hA.2 c hc)
    · rw [hc]; exact notT_space
  rw [e, thruMatch_skip _ _ [] hu]
  have hv : txt "THRU " ++ B = 'T' :: ('H' :: 'R' :: 'U' :: ' ' :: B) := by simp [txt]
  rw [hv]
  have hlow : lower (('T' :: ('H' :: 'R' :: 'U' :: ' ' :: B)).take 4) = txt "thru" := by
    simp only [List.take_succ_cons, List.take_zero]; decide
  have hpre : ((A ++ [' ']).reverse ++ []) = ' ' :: A.reverse := by simp
  have hA' : ((' ' :: A.reverse).dropWhile (· = ' ')).takeWhile Char.isDigit = A.reverse := by
    have h1 : (' ' :: A.reverse).dropWhile (· = ' ') = A.reverse := by
      have hne : A.reverse ≠ [] := by simpa using hA.1
      cases hq : A.reverse with
      | nil => exact absurd hq hne
      | cons x r =>
          have hx : x.isDigit = true := hA.2 x (by
            have : x ∈ A.reverse := by rw [hq]; simp
            simpa using this)
          simp [digit_ne_space hx]
    rw [h1]
    exact takeWhile_all _ _ (fun x hx => hA.2 x (by simpa using hx))
  have hB' : (skipSp (('T' :: ('H' :: 'R' :: 'U' :: ' ' :: B)).drop 4)).takeWhile Char.isDigit = B := by
    have : ('T' :: ('H' :: 'R' :: 'U' :: ' ' :: B)).drop 4 = blanks 1 ++ B := by simp [blanks]
    rw [this, skipSp_blanks 1 _ (fun x hx => digit_ne_space (hB.2 x (List.mem_of_mem_head? hx)))]
    exact takeWhile_all _ _ hB.2
  simp only [thruMatch, hlow, if_true, hpre, hA', hB']
  have e1 : A.reverse.isEmpty = false := by
    cases hq : A.reverse with
    | nil => exact absurd (by simpa using hq) hA.1
    | cons => rfl
  have e2 : B.isEmpty = false := by
    cases hq : B with
    | nil => exact absurd hq hB.1
    | cons => rfl
  simp only [e1, e2, Bool.or_self, Bool.false_eq_true, if_false, List.reverse_reverse]

theorem edge_digs_append (A W : Txt) (hA : Digs A) (hW : W ≠ []) (hl : ∀ c, W.getLast? = some c → isSp c = false) :
    Edge (A ++ W) := by
  constructor
  · intro c hc
    cases hq : A with
    | nil => exact absurd hq hA.1
    | cons x r => rw [hq] at hc; simp at hc; subst hc; exact isSp_of_isDigit (hA.2 x (by simp [hq]))
  · intro c hc
    rw [getLast?_append_ne hW] at hc
    exact hl c hc

theorem rdSetLine_thru_digs (A B : Txt) (hA : Digs A) (hB : Digs B) :
    rdSetLine (strip (A ++ txt " THRU " ++ B)) = some (rangeI (digitsVal A) (digitsVal B)) := by
  have hE : Edge (A ++ (txt " THRU " ++ B)) := by
    apply edge_digs_append A _ hA (by simp [txt])
    intro c hc
    rw [getLast?_append_ne hB.1] at hc
    exact isSp_of_isDigit (hB.2 c (List.mem_of_getLast? hc))
  have hs : strip (A ++ txt " THRU " ++ B) = A ++ txt " THRU " ++ B := by
    have := strip_pad 0 0 hE
    simpa [blanks] using this
  have hc : ',' ∉ A ++ txt " THRU " ++ B := by
    intro hm
    simp only [List.mem_append] at hm
    rcases hm with (h | h) | h
    · exact digit_ne_comma (hA.2 _ h) rfl
    · revert h; decide
    · exact digit_ne_comma (hB.2 _ h) rfl
  have hp : parseItem (A ++ txt " THRU " ++ B) = some (rangeI (digitsVal A) (digitsVal B)) := by
    simp only [parseItem, thruMatch_digs A B hA hB]
  rw [hs, rdSetLine_eq, splitOnChar_none ',' _ hc]
  generalize A ++ txt " THRU " ++ B = s at hp
  simp [hp]

/-- `a`, followed by a piece of ` THRU` that is not blank: `int()` raises -/
theorem rdSetLine_thru_word (A W : Txt) (hA : Digs A)
    (hW : W = txt " T" ∨ W = txt " TH" ∨ W = txt " THR" ∨ W = txt " THRU") :
    rdSetLine (A ++ W) = none := by
  obtain ⟨rest, hWr, hrest⟩ : ∃ rest, W = ' ' :: rest ∧
      (rest = txt "T" ∨ rest = txt "TH" ∨ rest = txt "THR" ∨ rest = txt "THRU") := by
    rcases hW with h | h | h | h <;> subst h
    · exact ⟨txt "T", rfl, by simp⟩
    · exact ⟨txt "TH", rfl, by simp⟩
    · exact ⟨txt "THR", rfl, by simp⟩
    · exact ⟨txt "THRU", rfl, by simp⟩
  have hWne : W ≠ [] := by rw [hWr]; simp
  have hlast : ∀ c, W.getLast? = some c → isSp c = false := by
    intro c hc
    rcases hW with h | h | h | h <;> subst h <;> (simp [txt] at hc; subst hc; decide)
  have hE := edge_digs_append A W hA hWne hlast
  have hs : strip (A ++ W) = A ++ W := by simpa [blanks] using strip_pad 0 0 hE
  have hc : ',' ∉ A ++ W := by
    intro hm
    rcases List.mem_append.mp hm with h | h
    · exact digit_ne_comma (hA.2 _ h) rfl
    · rcases hW with h' | h' | h' | h' <;> subst h' <;> revert h <;> decide
  -- the THRU scan finds nothing
  have hu : ∀ c ∈ A ++ [' '], NotT c := by
    intro c hc
    simp only [List.mem_append, List.mem_singleton] at hc
    rcases hc with hc | hc
    · exact notT_digit (hA.2 c hc)
    · rw [hc]; exact notT_space
  have hthru : thruMatch [] (A ++ W) = none := by
    have e : A ++ W = (A ++ [' ']) ++ rest := by rw [hWr]; simp
    rw [e, thruMatch_skip _ _ [] hu]
    rcases hrest with h | h | h | h <;> subst h <;> simp [thruMatch, lower, txt, skipSp]
  -- `int()` raises
  have hint : parseInt (A ++ W) = none := by
    unfold parseInt
    rw [hs]
    cases hq : A with
    | nil => exact absurd hq hA.1
    | cons x r =>
        have hx : x.isDigit = true := hA.2 x (by simp [hq])
        have h1 : x ≠ '-' := by intro e; subst e; exact absurd hx (by decide)
        have h2 : x ≠ '+' := by intro e; subst e; exact absurd hx (by decide)
        have hsp : splitSign (x :: r ++ W) = (false, x :: r ++ W) := by
          unfold splitSign; split
          · rename_i heq; simp at heq; exact absurd heq.1 h1
          · rename_i heq; simp at heq; exact absurd heq.1 h2
          · rfl
        have hall : (x :: r ++ W).all Char.isDigit = false := by
          rw [Bool.eq_false_iff]
          intro hh
          rw [List.all_eq_true] at hh
          have := hh ' ' (by rw [hWr]; simp)
          exact absurd this (by decide)
        simp only [hsp, hall]
        simp
  rw [rdSetLine_eq, splitOnChar_none ',' _ hc]
  simp [parseItem, hthru, hint]

theorem strip_thru_word (A W : Txt) (hA : Digs A)
    (hW : W = txt " T" ∨ W = txt " TH" ∨ W = txt " THR" ∨ W = txt " THRU") (k : Nat) :
    strip (A ++ W ++ blanks k) = A ++ W := by
  have hWne : W ≠ [] := by rcases hW with h | h | h | h <;> subst h <;> simp [txt]
  have hlast : ∀ c, W.getLast? = some c → isSp c = false := by
    intro c hc
    rcases hW with h | h | h | h <;> subst h <;> (simp [txt] at hc; subst hc; decide)
  simpa [blanks] using strip_pad 0 k (edge_digs_append A W hA hWne hlast)

end PyYetiVerif.Bulk
