import PyYetiVerif.Model.Op2Read
/-! Byte-level lemmas for the OUTPUT2 reader model (C11): decoding inverts the encoder's integer
encodings; `_getkey` on `K v x`, a record read on `R v b`, key lists, `_skipkey`. -/
namespace PyYetiVerif.Op2R
open PyYetiVerif.Op4 PyYetiVerif.Op2
open PyYetiVerif.Op4V (leBytes natBytes intBytes)

/-! ### the monad (not `rfl`-lemmas on purpose: `simp` then produces explicit rewriting steps instead of
leaving a big definitional-equality check to the kernel) -/

theorem bind_ok {α β} (a : α) (f : α → M β) : (Except.ok a >>= f) = f a := by
  cases h : f a <;> simp only [bind, Except.bind, h]
theorem bind_error {α β} (e : Err) (f : α → M β) : ((Except.error e : M α) >>= f) = Except.error e := by
  simp only [bind, Except.bind]
theorem pure_eq {α} (a : α) : (pure a : M α) = Except.ok a := by
  simp only [pure, Except.pure]

/-! ### `chunks` -/

theorem chunksAux_toList (w : Nat) : ∀ (n : Nat) (b : List Nat) (acc : Array (List Nat)),
    (chunksAux w n b acc).toList = acc.toList ++ (chunksAux w n b #[]).toList := by
  intro n
  induction n with
  | zero => intro b acc; simp [chunksAux]
  | succ n ih =>
    intro b acc
    simp only [chunksAux]
    rw [ih (b.drop w) (acc.push (b.take w)), ih (b.drop w) (#[].push (b.take w))]
    simp

theorem chunks_zero (w : Nat) (b : List Nat) : chunks w 0 b = [] := rfl

theorem chunks_succ (w n : Nat) (b : List Nat) : chunks w (n + 1) b = b.take w :: chunks w n (b.drop w) := by
  unfold chunks
  simp only [chunksAux]
  rw [chunksAux_toList]
  simp

theorem length_chunks (w : Nat) : ∀ (n : Nat) (b : List Nat), (chunks w n b).length = n := by
  intro n
  induction n with
  | zero => intro b; rfl
  | succ n ih => intro b; rw [chunks_succ]; simp [ih]

/-- cutting a concatenation of `w`-byte pieces gives the pieces back -/
theorem chunks_flatMap {α} (w : Nat) (g : α → List Nat) (hg : ∀ x, (g x).length = w) :
    ∀ (xs : List α) (rest : List Nat), chunks w xs.length (xs.flatMap g ++ rest) = xs.map g := by
  intro xs
  induction xs with
  | nil => intro rest; rfl
  | cons x t ih =>
    intro rest
    simp only [List.length_cons, List.flatMap_cons, List.map_cons, chunks_succ, List.append_assoc]
    rw [List.take_left' (hg x), List.drop_left' (hg x), ih]

theorem length_flatMap_const {α} (w : Nat) (g : α → List Nat) (hg : ∀ x, (g x).length = w) (xs : List α) :
    (xs.flatMap g).length = xs.length * w := by
  induction xs with
  | nil => simp
  | cons x t ih => simp only [List.flatMap_cons, List.length_append, ih, hg, List.length_cons]; rw [Nat.succ_mul]; omega

/-! ### integers -/

theorem length_leBytes : ∀ (n x : Nat), (leBytes n x).length = n := by
  intro n
  induction n with
  | zero => intro x; rfl
  | succ n ih => intro x; simp [leBytes, ih]

theorem length_natBytes (e : Endian) (n x : Nat) : (natBytes e n x).length = n := by
  cases e <;> simp [natBytes, length_leBytes]

theorem length_intBytes (e : Endian) (n : Nat) (x : Int) : (intBytes e n x).length = n := by
  simp [intBytes, length_natBytes]

theorem leNat_leBytes : ∀ (n x : Nat), leNat (leBytes n x) = x % 256 ^ n := by
  intro n
  induction n with
  | zero => intro x; simp [leBytes, leNat, Nat.mod_one]
  | succ n ih =>
    intro x
    simp only [leBytes, leNat, ih]
    rw [Nat.pow_succ', Nat.mod_mul]

theorem natOfBytes_natBytes (e : Endian) (n x : Nat) : natOfBytes e (natBytes e n x) = x % 256 ^ n := by
  cases e <;> simp [natOfBytes, natBytes, leNat_leBytes]

theorem natOfBytes_natBytes_lt (e : Endian) (n x : Nat) (h : x < 256 ^ n) :
    natOfBytes e (natBytes e n x) = x := by
  rw [natOfBytes_natBytes, Nat.mod_eq_of_lt h]

theorem pow4 : (256 : Nat) ^ 4 = 4294967296 := by decide
theorem pow8 : (256 : Nat) ^ 8 = 18446744073709551616 := by decide

theorem intOfBytes_intBytes4 (e : Endian) (x : Int) (h1 : -2147483648 ≤ x) (h2 : x < 2147483648) :
    intOfBytes e (intBytes e 4 x) = x := by
  unfold intOfBytes
  simp only [intBytes, length_natBytes, natOfBytes_natBytes, pow4]
  have h : ((x % ((4294967296 : Nat) : Int)).toNat : Int) = x % 4294967296 := by
    rw [Int.toNat_of_nonneg]; · rfl
    · exact Int.emod_nonneg _ (by decide)
  split <;> omega

theorem intOfBytes_intBytes8 (e : Endian) (x : Int) (h1 : -9223372036854775808 ≤ x)
    (h2 : x < 9223372036854775808) : intOfBytes e (intBytes e 8 x) = x := by
  unfold intOfBytes
  simp only [intBytes, length_natBytes, natOfBytes_natBytes, pow8]
  have h : ((x % ((18446744073709551616 : Nat) : Int)).toNat : Int) = x % 18446744073709551616 := by
    rw [Int.toNat_of_nonneg]; · rfl
    · exact Int.emod_nonneg _ (by decide)
  split <;> omega

/-- the integers a key of the file can hold -/
def InKey (v : V2) (x : Int) : Prop :=
  if v.bit64 then -9223372036854775808 ≤ x ∧ x < 9223372036854775808
  else -2147483648 ≤ x ∧ x < 2147483648

instance (v : V2) (x : Int) : Decidable (InKey v x) := by unfold InKey; exact inferInstance

theorem kb_cases (v : V2) : (v.bit64 = false ∧ kb v = 4) ∨ (v.bit64 = true ∧ kb v = 8) := by
  cases h : v.bit64 <;> simp [kb, h]

theorem kb_pos (v : V2) : 0 < kb v := by rcases kb_cases v with ⟨_, h⟩ | ⟨_, h⟩ <;> omega

theorem length_key (v : V2) (x : Int) : (key v x).length = kb v := length_intBytes _ _ _
theorem length_mark (v : V2) (n : Nat) : (mark v n).length = 4 := length_natBytes _ _ _
theorem length_K (v : V2) (x : Int) : (K v x).length = 8 + kb v := by
  simp [K, length_key, length_mark]; omega
theorem length_R (v : V2) (b : List Nat) : (R v b).length = 8 + b.length := by
  simp [R, length_mark]; omega

theorem intOfBytes_key (v : V2) (x : Int) (h : InKey v x) : intOfBytes v.e (key v x) = x := by
  unfold InKey at h
  rcases kb_cases v with ⟨hb, hk⟩ | ⟨hb, hk⟩
  · simp only [hb] at h; simp only [key, hk]; exact intOfBytes_intBytes4 _ _ h.1 h.2
  · simp only [hb] at h; simp only [key, hk]; exact intOfBytes_intBytes8 _ _ h.1 h.2

theorem intOfBytes_mark (v : V2) (n : Nat) (h : n < 2147483648) : intOfBytes v.e (mark v n) = n := by
  unfold intOfBytes
  simp only [mark, length_natBytes, natOfBytes_natBytes, pow4]
  split <;> omega

/-! ### reads -/

theorem rdI4_mark (v : V2) (n : Nat) (rest : List Nat) (h : n < 2147483648) :
    rdI4 v (mark v n ++ rest) = .ok ((n : Int), rest) := by
  simp only [rdI4, List.take_left' (length_mark v n), List.drop_left' (length_mark v n), unpack1, length_mark,
    if_true, intOfBytes_mark v n h]

theorem rdKeyRaw_key (v : V2) (x : Int) (rest : List Nat) (h : InKey v x) :
    rdKeyRaw v (key v x ++ rest) = .ok (x, rest) := by
  simp only [rdKeyRaw, List.take_left' (length_key v x), List.drop_left' (length_key v x), unpack1, length_key,
    if_true, intOfBytes_key v x h]

theorem getKey_K (v : V2) (x : Int) (rest : List Nat) (h : InKey v x) :
    getKey v (K v x ++ rest) = .ok (x, rest) := by
  simp only [getKey, K, List.append_assoc, List.drop_left' (length_mark v (kb v)), rdKeyRaw_key v x _ h]

theorem rdEot_K (v : V2) (x : Int) (rest : List Nat) (h : InKey v x) :
    rdEot v (K v x ++ rest) = .ok (x, rest) := by
  simp only [rdEot, K, List.append_assoc, List.take_left' (length_mark v (kb v)), length_mark, if_true,
    List.drop_left' (length_mark v (kb v)), rdKeyRaw_key v x _ h]

theorem skipKey_K1 (v : V2) (a : Int) (rest : List Nat) : skipKey v 1 (K v a ++ rest) = rest := by
  unfold skipKey
  exact List.drop_left' (by rw [length_K]; omega)

theorem skipKey_K2 (v : V2) (a b : Int) (rest : List Nat) : skipKey v 2 (K v a ++ K v b ++ rest) = rest := by
  unfold skipKey
  exact List.drop_left' (by simp only [List.length_append, length_K]; omega)

theorem skipKey_K4 (v : V2) (a b c d : Int) (rest : List Nat) :
    skipKey v 4 (K v a ++ K v b ++ K v c ++ K v d ++ rest) = rest := by
  unfold skipKey
  exact List.drop_left' (by simp only [List.length_append, length_K]; omega)

/-- a record `R v b`: the marker gives the length, the payload follows -/
theorem rdI4_R (v : V2) (b rest : List Nat) (h : b.length < 2147483648) :
    rdI4 v (R v b ++ rest) = .ok ((b.length : Int), b ++ (mark v b.length ++ rest)) := by
  simp only [R, List.append_assoc]
  exact rdI4_mark v b.length _ h

theorem pyRead_len (b rest : List Nat) (h : b.length < 2147483648) :
    pyRead (b.length : Int) (b ++ rest) = .ok (b, rest) := by
  have h0 : (0 : Int) ≤ (b.length : Int) := Int.natCast_nonneg _
  have h1 : ((b.length : Int)) < huge := by unfold huge; omega
  simp only [pyRead, h0, h1, if_true, Int.toNat_natCast, List.take_left' rfl, List.drop_left' rfl]

/-! ### lists of keys -/

theorem length_keys (v : V2) (xs : List Int) : (keys v xs).length = xs.length * kb v :=
  length_flatMap_const (kb v) (key v) (length_key v) xs

theorem unpackInts_keys (v : V2) (xs : List Int) (h : ∀ x ∈ xs, InKey v x) :
    unpackInts v.e (kb v) xs.length (keys v xs) = .ok xs := by
  simp only [unpackInts, length_keys, if_true]
  have := chunks_flatMap (kb v) (key v) (length_key v) xs []
  rw [List.append_nil] at this
  rw [keys, this, List.map_map]
  congr 1
  rw [List.map_congr_left (g := id)]
  · simp
  · intro x hx; exact intOfBytes_key v x (h x hx)

end PyYetiVerif.Op2R
