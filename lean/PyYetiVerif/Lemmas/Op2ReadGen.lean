import PyYetiVerif.Lemmas.Op2Read
/-! C11: skipping and reading end at the same place on EVERY byte string whose record lengths are aligned
(no reference to the encoder): `skipop2matrix` vs `rdop2matrix`, `skipop2record` vs `rdop2record`.

`rdop2matrix` consumes `ibytes + n·bytes_per` bytes of a string record with `n = (reclen − ibytes) // bytes_per`,
`skipop2matrix` seeks over `reclen` bytes: the two agree iff `reclen ≥ ibytes` and `reclen − ibytes` is a multiple
of `bytes_per`.  `alignedCols` checks exactly this for every string record the skipper visits. -/
namespace PyYetiVerif.Op2R
open PyYetiVerif.Op4 PyYetiVerif.Op2

/-- every string record visited from here has `reclen ≥ ibytes` and `(reclen − ibytes) % w = 0` -/
def alignedStrs (v : V2) (w : Nat) : Nat → Int → List Nat → Bool
  | 0, _, _ => true
  | fuel + 1, key, s =>
    if key > 0 then
      match rdI4 v s with
      | .error _ => true
      | .ok (reclen, s1) =>
        decide ((kb v : Int) ≤ reclen ∧ (reclen - kb v) % w = 0) &&
          (match getKey v ((s1.drop reclen.toNat).drop 4) with
          | .error _ => true
          | .ok (key', s2) => alignedStrs v w fuel key' s2)
    else true

/-- the same along the column loop of `skipop2matrix` -/
def alignedCols (v : V2) (w : Nat) : Nat → List Nat → Bool
  | 0, _ => true
  | fuel + 1, s =>
    match getKey v s with
    | .error _ => true
    | .ok (key, s1) =>
      alignedStrs v w (s1.length + 1) key s1 &&
        (match skipColStrs v (s1.length + 1) key s1 with
        | .error _ => true
        | .ok s2 =>
          match getKey v s2 with
          | .error _ => true
          | .ok (_, s3) =>
            match getKey v s3 with
            | .error _ => true
            | .ok (dtype, s4) => if dtype > 0 then alignedCols v w fuel s4 else true)

def alignedMatrix (v : V2) (w : Nat) (s : List Nat) : Bool := alignedCols v w (s.length + 1) s

theorem rdI4_rest (v : V2) (s : List Nat) (x : Int) (s1 : List Nat) (h : rdI4 v s = .ok (x, s1)) : s1 = s.drop 4 := by
  unfold rdI4 at h
  cases hu : unpack1 v.e 4 (s.take 4) with
  | error e => rw [hu] at h; exact absurd h (by simp)
  | ok y => rw [hu] at h; exact ((Prod.mk.inj (Except.ok.inj h)).2).symm

theorem rdKeyRaw_rest (v : V2) (s : List Nat) (x : Int) (s1 : List Nat) (h : rdKeyRaw v s = .ok (x, s1)) :
    s1 = s.drop (kb v) := by
  unfold rdKeyRaw at h
  cases hu : unpack1 v.e (kb v) (s.take (kb v)) with
  | error e => rw [hu] at h; exact absurd h (by simp)
  | ok y => rw [hu] at h; exact ((Prod.mk.inj (Except.ok.inj h)).2).symm

theorem rdVals_rest (e : Endian) (w : Nat) (n : Int) (s vals s1 : List Nat) (h : rdVals e w n s = .ok (vals, s1)) :
    0 ≤ n ∧ s1 = s.drop (n.toNat * w) := by
  unfold rdVals at h
  split at h
  · split at h
    · exact absurd h (by simp)
    · split at h
      · exact ⟨by omega, ((Prod.mk.inj (Except.ok.inj h)).2).symm⟩
      · exact absurd h (by simp)
  · rename_i hc
    exact ⟨by unfold cutoff at hc; omega, ((Prod.mk.inj (Except.ok.inj h)).2).symm⟩

/-- an aligned record length: the reader's `ibytes + n·w` bytes are the skipper's `reclen` bytes -/
theorem aligned_len (k w : Nat) (reclen : Int) (h1 : (k : Int) ≤ reclen) (h2 : (reclen - k) % w = 0)
    (hn : 0 ≤ (reclen - k) / w) : k + ((reclen - k) / w).toNat * w = reclen.toNat := by
  have h3 : (w : Int) * ((reclen - k) / w) = reclen - k := by
    have := Int.emod_add_mul_ediv (reclen - k) w
    rw [h2] at this; omega
  have h4 : ((((reclen - k) / w).toNat * w : Nat) : Int) = reclen - k := by
    rw [Int.natCast_mul, Int.toNat_of_nonneg hn, Int.mul_comm]; exact h3
  omega

theorem skip_of_rd_strs (c : MCfg) (j : Nat) : ∀ (fuel : Nat) (key : Int) (s : List Nat) (mat mat' : List (List Nat))
    (rest : List Nat), alignedStrs c.v c.w fuel key s = true → rdColStrs c j fuel key s mat = .ok (mat', rest) →
    skipColStrs c.v fuel key s = .ok rest := by
  intro fuel
  induction fuel with
  | zero => intro key s mat mat' rest _ h; exact absurd h (by simp [rdColStrs])
  | succ f ih =>
    intro key s mat mat' rest ha h
    unfold rdColStrs at h
    unfold alignedStrs at ha
    unfold skipColStrs
    by_cases hk : key > 0
    · simp only [hk, if_true] at h ha ⊢
      cases h1 : rdI4 c.v s with
      | error e => rw [h1] at h; exact absurd h (by simp)
      | ok r1 =>
        obtain ⟨reclen, s1⟩ := r1
        simp only [h1, Bool.and_eq_true, decide_eq_true_eq] at h ha ⊢
        cases h2 : rdKeyRaw c.v s1 with
        | error e => rw [h2] at h; exact absurd h (by simp)
        | ok r2 =>
          obtain ⟨row, s2⟩ := r2
          simp only [h2] at h
          cases h3 : rdVals c.v.e c.w ((reclen - kb c.v) / c.w) s2 with
          | error e => rw [h3] at h; exact absurd h (by simp)
          | ok r3 =>
            obtain ⟨vals, s3⟩ := r3
            simp only [h3] at h
            have hs2 := rdKeyRaw_rest c.v s1 row s2 h2
            obtain ⟨hn, hs3⟩ := rdVals_rest c.v.e c.w _ s2 vals s3 h3
            have hlen := aligned_len (kb c.v) c.w reclen ha.1.1 ha.1.2 hn
            have hstream : s3 = s1.drop reclen.toNat := by
              rw [hs3, hs2, List.drop_drop, ← hlen]
            have hseek : seekFwd reclen s1 = .ok (s1.drop reclen.toNat) := by
              have : (0 : Int) ≤ reclen := by have := ha.1.1; omega
              simp only [seekFwd, this, if_true]
            simp only [hseek]
            cases hm : mat[j]? with
            | none => rw [hm] at h; exact absurd h (by simp)
            | some col =>
              simp only [hm] at h
              cases h4 : assignSlice col (if c.cplx then (row - 1) * 2 else row - 1)
                  ((if c.cplx then (row - 1) * 2 else row - 1) + (reclen - kb c.v) / c.w) vals with
              | error e => rw [h4] at h; exact absurd h (by simp)
              | ok col' =>
                simp only [h4, hstream] at h
                cases h5 : getKey c.v ((s1.drop reclen.toNat).drop 4) with
                | error e => rw [h5] at h; exact absurd h (by simp)
                | ok r5 =>
                  obtain ⟨key', s5⟩ := r5
                  simp only [h5] at h ha ⊢
                  exact ih key' s5 _ mat' rest ha.2 h
    · simp only [hk, if_false] at h ⊢
      exact congrArg Except.ok ((Prod.mk.inj (Except.ok.inj h)).2)

theorem skip_of_rd_cols (c : MCfg) : ∀ (fuel j : Nat) (s : List Nat) (mat mat' : List (List Nat)) (rest : List Nat),
    alignedCols c.v c.w fuel s = true → rdCols c fuel j s mat = .ok (mat', rest) → skipCols c.v fuel s = .ok rest := by
  intro fuel
  induction fuel with
  | zero => intro j s mat mat' rest _ h; exact absurd h (by simp [rdCols])
  | succ f ih =>
    intro j s mat mat' rest ha h
    unfold rdCols at h
    unfold alignedCols at ha
    unfold skipCols
    cases h1 : getKey c.v s with
    | error e => rw [h1] at h; exact absurd h (by simp)
    | ok r1 =>
      obtain ⟨key, s1⟩ := r1
      simp only [h1, Bool.and_eq_true] at h ha ⊢
      cases h2 : rdColStrs c j (s1.length + 1) key s1 mat with
      | error e => rw [h2] at h; exact absurd h (by simp)
      | ok r2 =>
        obtain ⟨mat2, s2⟩ := r2
        have hsk := skip_of_rd_strs c j _ key s1 mat mat2 s2 ha.1 h2
        simp only [h2, hsk] at h ha ⊢
        cases h3 : getKey c.v s2 with
        | error e => rw [h3] at h; exact absurd h (by simp)
        | ok r3 =>
          obtain ⟨k1, s3⟩ := r3
          simp only [h3] at h ha ⊢
          cases h4 : getKey c.v s3 with
          | error e => rw [h4] at h; exact absurd h (by simp)
          | ok r4 =>
            obtain ⟨dtype, s4⟩ := r4
            simp only [h4] at h ha ⊢
            by_cases hd : dtype > 0
            · simp only [hd, if_true] at h ha ⊢
              exact ih (j + 1) s4 mat2 mat' rest ha.2 h
            · simp only [hd, if_false] at h ⊢
              exact congrArg Except.ok ((Prod.mk.inj (Except.ok.inj h)).2)

/-- on every byte string: if `rdop2matrix` succeeds and the string records are aligned for its
`bytes_per`, `skipop2matrix` succeeds and leaves the same bytes -/
theorem skipMatrix_of_rdMatrix (v : V2) (trailer : List Int) (mtype : Int) (s : List Nat) (m : Mat) (rest : List Nat)
    (h4 : trailer[4]? = some mtype) (ha : alignedMatrix v (bytesPer v mtype) s = true)
    (h : rdMatrix v trailer s = .ok (m, rest)) : skipMatrix v s = .ok rest := by
  unfold rdMatrix at h
  cases h2 : trailer[2]? with
  | none => rw [h2] at h; exact absurd h (by simp)
  | some rows =>
    cases h1 : trailer[1]? with
    | none => rw [h2, h4, h1] at h; exact absurd h (by simp)
    | some ncols =>
      simp only [h2, h4, h1] at h
      generalize (if decide (mtype > 2) = true then rows * 2 else rows) = R at h
      by_cases hneg : R < 0 ∨ ncols < 0
      · rw [if_pos hneg] at h; exact absurd h (by simp)
      · rw [if_neg hneg] at h
        cases hc : rdCols ⟨v, decide (mtype > 2), bytesPer v mtype⟩ (s.length + 1) 0 s
            (List.replicate ncols.toNat (List.replicate R.toNat 0)) with
        | error e => rw [hc] at h; exact absurd h (by simp)
        | ok r =>
          obtain ⟨cols, s1⟩ := r
          have hsk := skip_of_rd_cols ⟨v, decide (mtype > 2), bytesPer v mtype⟩ _ 0 s _ cols s1 ha hc
          simp only [hc] at h
          unfold skipMatrix
          simp only [hsk]
          cases he : rdEot v s1 with
          | error e => rw [he] at h; exact absurd h (by simp)
          | ok r2 =>
            obtain ⟨k, s2⟩ := r2
            simp only [he] at h ⊢
            exact congrArg Except.ok ((Prod.mk.inj (Except.ok.inj h)).2)

/-! ### records -/

/-- every piece visited from here has a length that is a non-negative multiple of the key width -/
def alignedPieces (v : V2) : Nat → Int → List Nat → Bool
  | 0, _, _ => true
  | fuel + 1, key, s =>
    if key > 0 then
      match rdI4 v s with
      | .error _ => true
      | .ok (reclen, s1) =>
        decide (0 ≤ reclen ∧ reclen % kb v = 0) &&
          (match getKey v (s1.drop (reclen + 4).toNat) with
          | .error _ => true
          | .ok (key', s2) => alignedPieces v fuel key' s2)
    else true

theorem unpackInts_length (e : Endian) (w n : Nat) (b : List Nat) (d : List Int) (h : unpackInts e w n b = .ok d) :
    b.length = n * w := by
  unfold unpackInts at h
  split at h
  · assumption
  · exact absurd h (by simp)

theorem skip_of_rd_pieces (v : V2) : ∀ (fuel : Nat) (key : Int) (s : List Nat) (acc d : List Int) (rest : List Nat),
    alignedPieces v fuel key s = true → rdRecPieces v fuel key s acc = .ok (d, rest) →
    skipRecPieces v fuel key s = .ok rest := by
  intro fuel
  induction fuel with
  | zero => intro key s acc d rest _ h; exact absurd h (by simp [rdRecPieces])
  | succ f ih =>
    intro key s acc d rest ha h
    unfold rdRecPieces at h
    unfold alignedPieces at ha
    unfold skipRecPieces
    by_cases hk : key > 0
    · simp only [hk, if_true] at h ha ⊢
      cases h1 : rdI4 v s with
      | error e => rw [h1] at h; exact absurd h (by simp)
      | ok r1 =>
        obtain ⟨reclen, s1⟩ := r1
        simp only [h1, Bool.and_eq_true, decide_eq_true_eq] at h ha ⊢
        split at h
        · exact absurd h (by simp)
        · rename_i hn
          cases h2 : unpackInts v.e (kb v) (reclen / kb v).toNat (s1.take ((reclen / kb v).toNat * kb v)) with
          | error e => rw [h2] at h; exact absurd h (by simp)
          | ok data =>
            simp only [h2] at h
            have hkb := kb_pos v
            have hmul : (((reclen / kb v).toNat * kb v : Nat) : Int) = reclen := by
              have h3 := Int.emod_add_mul_ediv reclen (kb v)
              rw [ha.1.2] at h3
              rw [Int.natCast_mul, Int.toNat_of_nonneg (by omega), Int.mul_comm]; omega
            have hdrop : (s1.drop ((reclen / kb v).toNat * kb v)).drop 4 = s1.drop (reclen + 4).toNat := by
              rw [List.drop_drop]; congr 1; omega
            have hseek : seekFwd (reclen + 4) s1 = .ok (s1.drop (reclen + 4).toNat) := by
              have : (0 : Int) ≤ reclen + 4 := by have := ha.1.1; omega
              simp only [seekFwd, this, if_true]
            simp only [hseek]
            rw [hdrop] at h
            cases h5 : getKey v (s1.drop (reclen + 4).toNat) with
            | error e => rw [h5] at h; exact absurd h (by simp)
            | ok r5 =>
              obtain ⟨key', s5⟩ := r5
              simp only [h5] at h ha ⊢
              exact ih key' s5 _ d rest ha.2 h
    · simp only [hk, if_false] at h ⊢
      exact congrArg Except.ok ((Prod.mk.inj (Except.ok.inj h)).2)

/-- on every byte string: if `rdop2record()` returns a record and the pieces are aligned, `skipop2record()`
leaves the same bytes -/
theorem skipRecord_of_rdRecord (v : V2) (s : List Nat) (d : List Int) (rest : List Nat)
    (ha : ∀ key s1, getKey v s = .ok (key, s1) → alignedPieces v (s1.length + 1) key s1 = true)
    (h : rdRecord v s = .ok (some d, rest)) : skipRecord v s = .ok rest := by
  unfold rdRecord at h
  unfold skipRecord
  cases h1 : getKey v s with
  | error e => rw [h1] at h; exact absurd h (by simp)
  | ok r1 =>
    obtain ⟨key, s1⟩ := r1
    simp only [h1] at h ⊢
    split at h
    · exact absurd h (by simp)
    · cases h2 : rdRecPieces v (s1.length + 1) key s1 [] with
      | error e => rw [h2] at h; exact absurd h (by simp)
      | ok r2 =>
        obtain ⟨data, s2⟩ := r2
        have := skip_of_rd_pieces v _ key s1 [] data s2 (ha key s1 h1) h2
        simp only [h2] at h
        simp only [this]
        exact congrArg Except.ok ((Prod.mk.inj (Except.ok.inj h)).2)

end PyYetiVerif.Op2R
