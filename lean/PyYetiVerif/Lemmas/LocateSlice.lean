import PyYetiVerif.Lemmas.Locate
import Mathlib.Data.Int.Order.Basic
/-!
`index2slice` against the model `pySlice` of CPython slicing (`PySlice_AdjustIndices` +
`PySlice_AdjustIndices` length formula): the returned slice selects exactly the positions that
the index vector names.
-/
namespace PyYetiVerif.Locate

/-- the arithmetic progression `x, x+d, …` with `L` entries -/
def prog (x d : Int) (L : Nat) : List Int := (List.range L).map fun (k : Nat) => x + (k : Int) * d

theorem prog_succ (x d : Int) (L : Nat) : prog x d (L + 1) = x :: prog (x + d) d L := by
  unfold prog
  rw [List.range_succ_eq_map, List.map_cons, List.map_map]
  simp only [List.cons.injEq]
  refine ⟨by simp, ?_⟩
  apply List.map_congr_left
  intro k _
  simp only [Function.comp, Nat.succ_eq_add_one, Int.natCast_add, Int.natCast_one, Int.add_mul,
    Int.one_mul]
  omega

/-- all consecutive differences equal `d` iff the list is the progression from its head -/
theorem diffs_all_iff (d : Int) : ∀ (l : List Int) (x : Int),
    (diffs (x :: l)).all (· = d) = true ↔ x :: l = prog x d (l.length + 1)
  | [], x => by simp [diffs, prog]
  | y :: r, x => by
      have ih := diffs_all_iff d r y
      rw [prog_succ]
      simp only [diffs, List.all_cons, Bool.and_eq_true, decide_eq_true_eq, List.cons.injEq,
        true_and, List.length_cons]
      constructor
      · rintro ⟨h1, h2⟩
        have hy : y = x + d := by omega
        rw [← hy]; exact ih.mp h2
      · intro h
        have h' := h
        rw [prog_succ] at h'
        have hy : y = x + d := (List.cons.inj h').1
        refine ⟨by omega, ih.mpr ?_⟩
        rw [← hy] at h; exact h

theorem getLast_prog (x d : Int) (L : Nat) :
    (prog x d (L + 1)).getLast? = some (x + (L : Int) * d) := by
  unfold prog
  rw [List.range_succ, List.map_append, List.map_cons, List.map_nil, List.getLast?_concat]

theorem ediv_of_rem {q r m : Int} (hm : 0 < m) (h0 : 0 ≤ r) (h1 : r < m) :
    (q * m + r) / m = q := by
  rw [Int.add_comm, Int.add_mul_ediv_right _ _ (by omega), Int.ediv_eq_zero_of_lt h0 h1]
  omega

/-- `PySlice_AdjustIndices` on one given bound -/
def clampB (N st v : Int) : Int :=
  if v < 0 then (if v + N < 0 then (if st < 0 then -1 else 0) else v + N)
  else if v ≥ N then (if st < 0 then N - 1 else N) else v

def sliceLen (st s e : Int) : Nat :=
  if st < 0 then (if e < s then ((s - e - 1) / (-st) + 1).toNat else 0)
  else (if s < e then ((e - s - 1) / st + 1).toNat else 0)

theorem pySlice_eq (start stop step : Option Int) (n : Nat) (h : step.getD 1 ≠ 0) :
    pySlice start stop step n =
      .ok (prog (match start with
                 | some v => clampB n (step.getD 1) v
                 | none => if step.getD 1 < 0 then (n : Int) - 1 else 0) (step.getD 1)
            (sliceLen (step.getD 1)
              (match start with
                 | some v => clampB n (step.getD 1) v
                 | none => if step.getD 1 < 0 then (n : Int) - 1 else 0)
              (match stop with
                 | some v => clampB n (step.getD 1) v
                 | none => if step.getD 1 < 0 then -1 else (n : Int)))) := by
  unfold pySlice
  simp only
  rw [if_neg h]
  rfl

theorem clampB_mid {N st v : Int} (h0 : 0 ≤ v) (h1 : v < N) : clampB N st v = v := by
  unfold clampB; rw [if_neg (by omega), if_neg (by omega)]

theorem clampB_wrap {N st v : Int} (h0 : v < 0) (h1 : 0 ≤ v + N) : clampB N st v = v + N := by
  unfold clampB; rw [if_pos h0, if_neg (by omega)]

theorem clampB_hi {N st v : Int} (h0 : 0 ≤ v) (h1 : N ≤ v) (hs : 0 < st) : clampB N st v = N := by
  unfold clampB; rw [if_neg (by omega), if_pos (by omega), if_neg (by omega)]

theorem sliceLen_pos {st s e : Int} {L : Nat} (hst : 0 < st) (h1 : s + (L : Int) * st < e)
    (h2 : e ≤ s + (L : Int) * st + st) : sliceLen st s e = L + 1 := by
  have hLd : 0 ≤ (L : Int) * st := Int.mul_nonneg (by omega) (by omega)
  unfold sliceLen
  rw [if_neg (by omega), if_pos (by omega)]
  have : e - s - 1 = (L : Int) * st + (e - s - 1 - (L : Int) * st) := by omega
  rw [this, ediv_of_rem hst (by omega) (by omega)]
  omega

theorem sliceLen_neg {st s e : Int} {L : Nat} (hst : st < 0) (h1 : e < s + (L : Int) * st)
    (h2 : s + (L : Int) * st + st ≤ e) : sliceLen st s e = L + 1 := by
  have hLd : (L : Int) * st ≤ 0 := Int.mul_nonpos_of_nonneg_of_nonpos (by omega) (by omega)
  have hLd' : (L : Int) * (-st) = -((L : Int) * st) := by rw [Int.mul_neg]
  unfold sliceLen
  rw [if_pos hst, if_pos (by omega)]
  have : s - e - 1 = (L : Int) * (-st) + (s - e - 1 + (L : Int) * st) := by omega
  rw [this, ediv_of_rem (by omega) (by omega) (by omega)]
  omega

/-- a slice with a positive step, start `x ≥ 0`, stop one step behind the last entry -/
theorem pySlice_pos {x d : Int} {L n : Nat} (hd : 0 < d) (hx : 0 ≤ x)
    (hlast : x + (L : Int) * d < n) :
    pySlice (some x) (some (x + (L : Int) * d + d)) (some d) n = .ok (prog x d (L + 1)) := by
  have hLd : 0 ≤ (L : Int) * d := Int.mul_nonneg (by omega) (by omega)
  rw [pySlice_eq _ _ _ _ (by simpa using (by omega : d ≠ 0))]
  simp only [Option.getD_some]
  rw [clampB_mid hx (by omega)]
  congr 2
  by_cases hc : (n : Int) ≤ x + (L : Int) * d + d
  · rw [clampB_hi (by omega) hc hd]
    exact sliceLen_pos hd hlast hc
  · rw [clampB_mid (by omega) (by omega)]
    exact sliceLen_pos hd (by omega) (by omega)

/-- a slice with a negative step, start `x < n`, last entry `≥ 0`; stop is `None` when the
progression reaches below index 0 in one more step -/
theorem pySlice_neg {x d : Int} {L n : Nat} (hd : d < 0) (hx : x < n)
    (hlast : 0 ≤ x + (L : Int) * d) :
    pySlice (some x) (if x + (L : Int) * d + d < 0 then none else some (x + (L : Int) * d + d))
      (some d) n = .ok (prog x d (L + 1)) := by
  have hLd : (L : Int) * d ≤ 0 := Int.mul_nonpos_of_nonneg_of_nonpos (by omega) (by omega)
  rw [pySlice_eq _ _ _ _ (by simpa using (by omega : d ≠ 0))]
  simp only [Option.getD_some]
  rw [clampB_mid (by omega) hx]
  congr 2
  by_cases hc : x + (L : Int) * d + d < 0
  · rw [if_pos hc]
    simp only
    rw [if_pos hd]
    exact sliceLen_neg hd (by omega) (by omega)
  · rw [if_neg hc]
    simp only
    rw [clampB_mid (by omega) (by omega)]
    exact sliceLen_neg hd (by omega) (by omega)

theorem prog_one (x d : Int) : prog x d 1 = [x] := by simp [prog]

theorem sliceLen_one {s : Int} : sliceLen 1 s (s + 1) = 1 := by
  unfold sliceLen
  rw [if_neg (by omega), if_pos (by omega)]
  have : s + 1 - s - 1 = 0 := by omega
  rw [this]
  try rfl

/-- one entry (negative = counted from the end) -/
theorem pySlice_single {x : Int} {n : Nat} (h1 : -(n : Int) ≤ x) (h2 : x < n) :
    pySlice (some x) (if x + 1 = 0 then none else some (x + 1)) none n = .ok [x % n] := by
  rw [pySlice_eq _ _ _ _ (by simp)]
  simp only [Option.getD_none]
  have h10 : ¬ (1 : Int) < 0 := by omega
  by_cases hneg : x < 0
  · have hmod : x % (n : Int) = x + n := by
      rw [← Int.add_emod_right, Int.emod_eq_of_lt (by omega) (by omega)]
    rw [clampB_wrap hneg (by omega), hmod]
    by_cases hz : x + 1 = 0
    · rw [if_pos hz]
      simp only
      rw [if_neg h10]
      have := sliceLen_one (s := x + n)
      rw [show x + (n : Int) + 1 = n by omega] at this
      rw [this, prog_one]
    · rw [if_neg hz]
      simp only
      rw [clampB_wrap (by omega) (by omega)]
      have : x + 1 + (n : Int) = x + n + 1 := by omega
      rw [this, sliceLen_one, prog_one]
  · have hmod : x % (n : Int) = x := Int.emod_eq_of_lt (by omega) h2
    rw [clampB_mid (by omega) h2, hmod, if_neg (by omega)]
    simp only
    by_cases hc : (n : Int) ≤ x + 1
    · rw [clampB_hi (by omega) hc (by omega)]
      have := sliceLen_one (s := x)
      rw [show x + 1 = (n : Int) by omega] at this
      rw [this, prog_one]
    · rw [clampB_mid (by omega) (by omega), sliceLen_one, prog_one]

theorem pySlice_empty (n : Nat) : pySlice none (some 0) none n = .ok [] := by
  rw [pySlice_eq _ _ _ _ (by simp)]
  simp only [Option.getD_none]
  have h10 : ¬ (1 : Int) < 0 := by omega
  rw [if_neg h10]
  have : sliceLen 1 0 (clampB (n : Int) 1 0) = 0 := by
    unfold sliceLen clampB
    rw [if_neg h10, if_neg (by omega)]
  rw [this]
  try rfl

/-- entries of a progression with non-negative ends are non-negative and at most the larger end -/
theorem prog_bounds {x d : Int} {L : Nat} {p : Int} (hp : p ∈ prog x d (L + 1)) :
    (0 ≤ d → x ≤ p ∧ p ≤ x + (L : Int) * d) ∧ (d ≤ 0 → x + (L : Int) * d ≤ p ∧ p ≤ x) := by
  unfold prog at hp
  obtain ⟨k, hk, rfl⟩ := List.mem_map.mp hp
  have hk' : k ≤ L := by have := List.mem_range.mp hk; omega
  have hkL : (k : Int) ≤ (L : Int) := by omega
  constructor
  · intro hd
    have h1 : 0 ≤ (k : Int) * d := Int.mul_nonneg (by omega) hd
    have h2 : (k : Int) * d ≤ (L : Int) * d := Int.mul_le_mul_of_nonneg_right hkL hd
    omega
  · intro hd
    have h1 : (k : Int) * d ≤ 0 := Int.mul_nonpos_of_nonneg_of_nonpos (by omega) hd
    have h2 : (L : Int) * d ≤ (k : Int) * d := Int.mul_le_mul_of_nonpos_right hkL hd
    omega

end PyYetiVerif.Locate
