import PyYetiVerif.Lemmas.SuCoefDelconjReal
import Mathlib.Analysis.Calculus.MeanValue
import Mathlib.Analysis.Calculus.Deriv.Mul
/-!
Helper lemmas for `SolveExp2` (C01): the real state equation, the specification of
`E = exp(A h)` and of the two integrals behind `P`, `Q` (`expmint.getEPQ`), and the
variation-of-constants solution built from them.
-/
namespace PyYetiVerif.SuCoef
open Matrix

set_option linter.unusedSectionVars false

variable {ι : Type*} [Fintype ι] [DecidableEq ι]

/-- `z` solves the real state equation `z' = A z + g₀ + t s`, `z 0 = z₀` -/
structure IsStateSolR (A : Matrix ι ι ℝ) (g0 s z0 : ι → ℝ) (z : ℝ → ι → ℝ) : Prop where
  deriv : ∀ t : ℝ, HasDerivAt z (A *ᵥ z t + g0 + t • s) t
  init : z 0 = z0

noncomputable def mulVecCLMR (A : Matrix ι ι ℝ) : (ι → ℝ) →L[ℝ] (ι → ℝ) :=
  LinearMap.toContinuousLinearMap (Matrix.mulVecLin A)

theorem IsStateSolR.unique {A : Matrix ι ι ℝ} {g0 s z0 : ι → ℝ} {z z' : ℝ → ι → ℝ}
    (h : IsStateSolR A g0 s z0 z) (h' : IsStateSolR A g0 s z0 z') : z = z' := by
  refine linear_ode_unique (mulVecCLMR A) (fun t => g0 + t • s) z z' 0 (fun t => ?_) (fun t => ?_)
    (h.init.trans h'.init.symm)
  · have := h.deriv t
    rwa [add_assoc] at this
  · have := h'.deriv t
    rwa [add_assoc] at this

/-- specification of the matrix functions behind `getEPQ`, entrywise:
`Φ' = A Φ`, `Φ 0 = 1` (so `Φ t = exp(A t)`), `I1' = Φ`, `I1 0 = 0` (`I1 t = ∫₀ᵗ exp(A s) ds`),
`I2' = t Φ`, `I2 0 = 0` (`I2 t = ∫₀ᵗ s exp(A s) ds`) -/
structure ExpSpec (A : Matrix ι ι ℝ) (Φ I1 I2 : ℝ → Matrix ι ι ℝ) : Prop where
  dΦ : ∀ t i j, HasDerivAt (fun t => Φ t i j) ((A * Φ t) i j) t
  Φ0 : Φ 0 = 1
  dI1 : ∀ t i j, HasDerivAt (fun t => I1 t i j) (Φ t i j) t
  I10 : I1 0 = 0
  dI2 : ∀ t i j, HasDerivAt (fun t => I2 t i j) (t * Φ t i j) t
  I20 : I2 0 = 0

theorem hasDerivAt_mul_entry (A : Matrix ι ι ℝ) (X : ℝ → Matrix ι ι ℝ) (X' : Matrix ι ι ℝ) (t : ℝ)
    (h : ∀ i j, HasDerivAt (fun t => X t i j) (X' i j) t) (i j : ι) :
    HasDerivAt (fun t => (A * X t) i j) ((A * X') i j) t := by
  simp only [Matrix.mul_apply]
  exact HasDerivAt.fun_sum fun k _ => (h k j).const_mul (A i k)

theorem eq_zero_of_deriv_zero {f : ℝ → ℝ} (hf : ∀ t, HasDerivAt f 0 t) (h0 : f 0 = 0) (t : ℝ) : f t = 0 := by
  have hd : Differentiable ℝ f := fun t => (hf t).differentiableAt
  have := is_const_of_deriv_eq_zero hd (fun t => (hf t).deriv) t 0
  rw [this, h0]

/-- `A I1 = Φ - 1` (`I1 = A⁻¹(E - I)` when `A` is non-singular) -/
theorem ExpSpec.A_I1 {A : Matrix ι ι ℝ} {Φ I1 I2 : ℝ → Matrix ι ι ℝ} (sp : ExpSpec A Φ I1 I2) (t : ℝ) :
    A * I1 t = Φ t - 1 := by
  ext i j
  have hd : ∀ t, HasDerivAt (fun t => (A * I1 t) i j - Φ t i j + (1 : Matrix ι ι ℝ) i j) 0 t := by
    intro t
    have := ((hasDerivAt_mul_entry A I1 (Φ t) t (sp.dI1 t) i j).sub (sp.dΦ t i j)).add_const
      ((1 : Matrix ι ι ℝ) i j)
    simpa using this
  have := eq_zero_of_deriv_zero hd (by simp [sp.I10, sp.Φ0]) t
  simp only [Matrix.sub_apply]
  linarith

/-- `A I2 = t Φ - I1` -/
theorem ExpSpec.A_I2 {A : Matrix ι ι ℝ} {Φ I1 I2 : ℝ → Matrix ι ι ℝ} (sp : ExpSpec A Φ I1 I2) (t : ℝ) :
    A * I2 t = t • Φ t - I1 t := by
  ext i j
  have hd : ∀ t, HasDerivAt (fun t => (A * I2 t) i j - t * Φ t i j + I1 t i j) 0 t := by
    intro t
    have h1 := hasDerivAt_mul_entry A I2 (t • Φ t) t (fun i j => by simpa using sp.dI2 t i j) i j
    have h2 := (hasDerivAt_id' t).fun_mul (sp.dΦ t i j)
    have := (h1.sub h2).add (sp.dI1 t i j)
    refine this.congr_deriv ?_
    simp only [Matrix.mul_smul, Matrix.smul_apply, smul_eq_mul]
    ring
  have := eq_zero_of_deriv_zero hd (by simp [sp.I20, sp.I10]) t
  simp only [Matrix.sub_apply, Matrix.smul_apply, smul_eq_mul]
  linarith

/-- the variation-of-constants solution `Φ z₀ + I1 g₀ + (t I1 - I2) s` -/
noncomputable def zExp (Φ I1 I2 : ℝ → Matrix ι ι ℝ) (g0 s z0 : ι → ℝ) (t : ℝ) : ι → ℝ :=
  Φ t *ᵥ z0 + I1 t *ᵥ g0 + (t • I1 t - I2 t) *ᵥ s

theorem hasDerivAt_mulVec_entry (X : ℝ → Matrix ι ι ℝ) (X' : Matrix ι ι ℝ) (x : ι → ℝ) (t : ℝ)
    (h : ∀ i j, HasDerivAt (fun t => X t i j) (X' i j) t) :
    HasDerivAt (fun t => X t *ᵥ x) (X' *ᵥ x) t := by
  rw [hasDerivAt_pi]
  intro i
  simp only [Matrix.mulVec, dotProduct]
  exact HasDerivAt.fun_sum fun k _ => (h i k).mul_const (x k)

theorem zExp_isStateSol {A : Matrix ι ι ℝ} {Φ I1 I2 : ℝ → Matrix ι ι ℝ} (sp : ExpSpec A Φ I1 I2)
    (g0 s z0 : ι → ℝ) : IsStateSolR A g0 s z0 (zExp Φ I1 I2 g0 s z0) := by
  refine ⟨fun t => ?_, ?_⟩
  · have h1 := hasDerivAt_mulVec_entry Φ (A * Φ t) z0 t (sp.dΦ t)
    have h2 := hasDerivAt_mulVec_entry I1 (Φ t) g0 t (sp.dI1 t)
    have h3 := hasDerivAt_mulVec_entry (fun t => t • I1 t - I2 t) (I1 t) s t (fun i j => by
      have := ((hasDerivAt_id' t).fun_mul (sp.dI1 t i j)).sub (sp.dI2 t i j)
      simp only [Matrix.sub_apply, Matrix.smul_apply, smul_eq_mul]
      refine this.congr_deriv ?_
      ring)
    have := (h1.add h2).add h3
    refine this.congr_deriv ?_
    simp only [zExp]
    have e1 : Φ t *ᵥ g0 = (A * I1 t) *ᵥ g0 + g0 := by
      rw [sp.A_I1 t, Matrix.sub_mulVec, Matrix.one_mulVec]; abel
    have e2 : I1 t *ᵥ s = (A * (t • I1 t - I2 t)) *ᵥ s + t • s := by
      have e : I1 t = A * (t • I1 t - I2 t) + t • (1 : Matrix ι ι ℝ) := by
        rw [Matrix.mul_sub, Matrix.mul_smul, sp.A_I2 t, sp.A_I1 t]
        simp only [smul_sub]
        abel
      conv_lhs => rw [e]
      rw [Matrix.add_mulVec, Matrix.smul_mulVec, Matrix.one_mulVec]
    rw [Matrix.mulVec_add, Matrix.mulVec_add, Matrix.mulVec_mulVec, Matrix.mulVec_mulVec,
      Matrix.mulVec_mulVec, e1, e2]
    abel
  · simp [zExp, sp.Φ0, sp.I10, sp.I20]

end PyYetiVerif.SuCoef
