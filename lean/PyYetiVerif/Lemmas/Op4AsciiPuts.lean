import PyYetiVerif.Lemmas.Op4AsciiFile
import Mathlib.Data.List.Forall2
/-! From the puts of the ASCII reader to the matrix: the puts are, position for position, those of
the binary reader with every written element replaced by the decimal read from its field(s), so the
matrix they build is related entry by entry to the one `file_roundtrip_binary` describes. -/
namespace PyYetiVerif.Op4A
open PyYetiVerif.Op4 PyYetiVerif.Generated.Op4Consts List

/-- how an element `a` read from an ASCII file relates to the element `y` the binary reader rebuilds:
it is what is printed for `y`, or both are the zero nobody wrote -/
def ReadOf (d : Nat) (cplx : Bool) (y : Entry) (a : AEntry) : Prop :=
  a = aEntry d cplx y ∨ (y = (0, 0) ∧ a = (Dec10.zero, Dec10.zero))

theorem forall₂_map_map {α β γ} (R : β → γ → Prop) (f : α → β) (g : α → γ) (h : ∀ x, R (f x) (g x)) :
    ∀ l : List α, Forall₂ R (l.map f) (l.map g)
  | [] => Forall₂.nil
  | x :: t => Forall₂.cons (h x) (forall₂_map_map R f g h t)

theorem forall₂_getElem? {α β} {R : α → β → Prop} : ∀ {l₁ : List α} {l₂ : List β}, Forall₂ R l₁ l₂ →
    ∀ (i : Nat) (a : α), l₁[i]? = some a → ∃ b, l₂[i]? = some b ∧ R a b
  | _, _, Forall₂.nil, i, a, h => by simp at h
  | _, _, Forall₂.cons hab ht, 0, a, h => by
    simp only [List.getElem?_cons_zero, Option.some.injEq] at h
    subst h
    exact ⟨_, by simp, hab⟩
  | _, _, Forall₂.cons _ ht, i + 1, a, h => by
    simp only [List.getElem?_cons_succ] at h ⊢
    exact forall₂_getElem? ht i a h

theorem forall₂_set {α β} {R : α → β → Prop} : ∀ {l₁ : List α} {l₂ : List β}, Forall₂ R l₁ l₂ →
    ∀ (i : Nat) (a : α) (b : β), R a b → Forall₂ R (l₁.set i a) (l₂.set i b)
  | _, _, Forall₂.nil, _, _, _, _ => by simp
  | _, _, Forall₂.cons _ ht, 0, _, _, hab => by simpa using Forall₂.cons hab ht
  | _, _, Forall₂.cons h ht, i + 1, a, b, hab => by
    simpa using Forall₂.cons h (forall₂_set ht i a b hab)

/-- one splice, on both sides -/
theorem putCol_transport {R : Entry → AEntry → Prop} {col col' ys : List Entry} {colA ysA : List AEntry} (r : Nat)
    (hc : Forall₂ R col colA) (hy : Forall₂ R ys ysA) (h : putCol col r ys = some col') :
    ∃ colA', putColA colA r ysA = some colA' ∧ Forall₂ R col' colA' := by
  unfold putCol at h
  unfold putColA
  have l1 := hc.length_eq
  have l2 := hy.length_eq
  split at h
  · next hle =>
    simp only [Option.some.injEq] at h
    subst h
    rw [if_pos (by omega)]
    refine ⟨_, rfl, ?_⟩
    rw [← l2]
    exact List.rel_append (List.rel_append (forall₂_take r hc) hy) (forall₂_drop _ hc)
  · cases h

/-- the puts of the two readers, related position for position -/
def PutsRel (R : Entry → AEntry → Prop) (p : Put) (q : APut) : Prop :=
  p.1 = q.1 ∧ p.2.1 = q.2.1 ∧ Forall₂ R p.2.2 q.2.2

abbrev putStepA (X : List (List AEntry)) (p : APut) : Option (List (List AEntry)) :=
  match X[p.2.1]? with
  | some col => (putColA col p.1 p.2.2).map fun col' => X.set p.2.1 col'
  | none => none

theorem applyPutsA_eq (rows cols : Nat) (puts : List APut) :
    applyPutsA rows cols puts
      = puts.foldlM putStepA (List.replicate cols (List.replicate rows ((Dec10.zero, Dec10.zero) : AEntry))) := rfl

theorem foldPuts_transport (R : Entry → AEntry → Prop) : ∀ {puts : List Put} {putsA : List APut},
    Forall₂ (PutsRel R) puts putsA → ∀ (X0 X : List (List Entry)) (XA0 : List (List AEntry)),
    Forall₂ (Forall₂ R) X0 XA0 → puts.foldlM putStep X0 = some X →
    ∃ XA, putsA.foldlM putStepA XA0 = some XA ∧ Forall₂ (Forall₂ R) X XA
  | _, _, Forall₂.nil, X0, X, XA0, h0, h => by
    simp only [List.foldlM_nil] at h
    cases h
    exact ⟨XA0, rfl, h0⟩
  | _, _, Forall₂.cons (a := p) (b := q) hpq ht, X0, X, XA0, h0, h => by
    obtain ⟨h1, h2, h3⟩ := hpq
    simp only [List.foldlM_cons, putStep] at h
    cases hcol : X0[p.2.1]? with
    | none => simp [hcol] at h
    | some col =>
      obtain ⟨colA, hcolA, hrel⟩ := forall₂_getElem? h0 p.2.1 col hcol
      cases hput : putCol col p.1 p.2.2 with
      | none => simp [hcol, hput] at h
      | some col' =>
        simp only [hcol, hput, Option.map_some, Option.bind_eq_bind, Option.bind_some] at h
        obtain ⟨colA', hputA, hrel'⟩ := putCol_transport p.1 hrel h3 hput
        obtain ⟨XA, hXA, hres⟩ := foldPuts_transport R ht (X0.set p.2.1 col') X (XA0.set p.2.1 colA')
          (forall₂_set h0 _ _ _ hrel') h
        refine ⟨XA, ?_, hres⟩
        simp only [List.foldlM_cons, putStepA, ← h2, hcolA, ← h1, hputA, Option.map_some, Option.bind_eq_bind,
          Option.bind_some]
        exact hXA

theorem forall₂_replicate {α β} (R : α → β → Prop) (a : α) (b : β) (h : R a b) :
    ∀ n, Forall₂ R (List.replicate n a) (List.replicate n b)
  | 0 => Forall₂.nil
  | n + 1 => Forall₂.cons h (forall₂_replicate R a b h n)

/-- the puts of the ASCII records are those of the binary records, element by element -/
theorem puts_rel (e : Endian) (d : Nat) (lay : Layout) (cplx : Bool) :
    ∀ (cols : List (List Entry)) (c : Nat),
      Forall₂ (PutsRel (ReadOf d cplx)) ((recsOf e lay cplx c cols).flatMap Rec.outPuts)
        ((arecsOf d lay cplx c cols).flatMap ARec.outPuts) := by
  have hR : ∀ x, ReadOf d cplx (normE cplx x) (aEntry d cplx x) := fun x => Or.inl (aEntry_normE d cplx x).symm
  intro cols
  induction cols with
  | nil => intro c; simp [recsOf, arecsOf]
  | cons col t ih =>
    intro c
    cases hnz : nzIdx cplx col with
    | nil =>
      simp only [recsOf, arecsOf, hnz]
      exact ih (c + 1)
    | cons s tl =>
      simp only [recsOf, arecsOf, hnz, List.flatMap_cons]
      apply List.rel_append _ (ih (c + 1))
      cases lay
      · simp only [recOf, arecOf, Rec.outPuts, ARec.outPuts, List.map_cons, List.map_nil]
        exact Forall₂.cons ⟨rfl, rfl, forall₂_map_map _ _ _ hR _⟩ Forall₂.nil
      · simp only [recOf, arecOf, Rec.outPuts, ARec.outPuts, List.map_map]
        exact forall₂_map_map _ _ _ (fun s => ⟨rfl, rfl, forall₂_map_map _ _ _ hR _⟩) _
      · simp only [recOf, arecOf, Rec.outPuts, ARec.outPuts, List.map_map]
        exact forall₂_map_map _ _ _ (fun s => ⟨rfl, rfl, forall₂_map_map _ _ _ hR _⟩) _

/-- the matrix the ASCII reader builds from the records of a written matrix -/
theorem applyPutsA_recs (d : Nat) (lay : Layout) (cplx : Bool) (rows : Nat) (cols : List (List Entry))
    (hl : ∀ col ∈ cols, col.length = rows) :
    ∃ XA, applyPutsA rows cols.length ((arecsOf d lay cplx 0 cols).flatMap ARec.outPuts) = some XA ∧
      Forall₂ (Forall₂ (ReadOf d cplx)) (cols.map (decCol lay cplx)) XA := by
  have hb := applyPuts_recs .little lay cplx rows cols [] hl
  simp only [List.length_nil, List.nil_append] at hb
  rw [applyPutsA_eq]
  exact foldPuts_transport (ReadOf d cplx) (puts_rel .little d lay cplx cols 0) _ _ _
    (forall₂_replicate (Forall₂ (ReadOf d cplx)) _ _
      (forall₂_replicate (ReadOf d cplx) ((0, 0) : Entry) (Dec10.zero, Dec10.zero) (Or.inr ⟨rfl, rfl⟩) rows) cols.length) hb

/-! ### a whole file -/

/-- what `a` must be for the matrix `p.2` written in layout `p.1` with `d` digits -/
def ADecOf (d : Nat) (p : Layout × Mat) (a : ADec) : Prop :=
  a.rawName = nameStr p.2.name ∧ a.rows = (if p.1 = .bigmat then -(p.2.rows : Int) else (p.2.rows : Int)) ∧
    a.cols = (p.2.cols.length : Int) ∧ a.form = (p.2.form : Int) ∧ a.mtype = (mtypeOf p.2.cplx : Int) ∧
    a.perline = perline d ∧ a.numlen = numlen d ∧
    ∃ XA, applyPutsA p.2.rows p.2.cols.length a.puts = some XA ∧
      Forall₂ (Forall₂ (ReadOf d p.2.cplx)) (p.2.cols.map (decCol p.1 p.2.cplx)) XA

/-- the hypotheses on one matrix: sizes that fit the 8-character fields, a valid name, the nonbigmat
layout only below 65536 rows (every value fits its field since the repair of F3: `fits_all`) -/
def MatOK (_d : Nat) (p : Layout × Mat) : Prop :=
  WfA p.2 ∧ (p.1 = .nonbigmat → p.2.rows < 65536)

theorem rdMatrixA_decOf (dformat : Bool) (d : Nat) (hd : 1 ≤ d) (hp : 1 ≤ perline d) (p : Layout × Mat)
    (hok : MatOK d p) (rest : List Str) :
    ∃ a, rdMatrixA dformat (matLines d p.1 p.2 ++ rest) = some (some (a, rest)) ∧ ADecOf d p a := by
  obtain ⟨hwf, hnb⟩ := hok
  obtain ⟨lay', auto, hm⟩ := rdMatrixA_enc dformat d hd hp p.1 p.2 hwf hnb (fun _ _ _ _ b _ => fits_all d b hd) rest
  exact ⟨_, hm, rfl, rfl, rfl, rfl, rfl, rfl, rfl, applyPutsA_recs d p.1 p.2.cplx p.2.rows p.2.cols hwf.cols_len⟩

theorem matLines_ne_nil (d : Nat) (lay : Layout) (m : Mat) : 1 ≤ (matLines d lay m).length := by
  simp [matLines]

theorem rdFileA_enc (dformat : Bool) (d : Nat) (hd : 1 ≤ d) (hp : 1 ≤ perline d) :
    ∀ (ms : List (Layout × Mat)) (fuel : Nat), ms.length + 1 ≤ fuel → (∀ p ∈ ms, MatOK d p) →
      ∃ ds, rdFileA dformat fuel (ms.flatMap fun p => matLines d p.1 p.2) = some ds ∧ Forall₂ (ADecOf d) ms ds := by
  intro ms
  induction ms with
  | nil =>
    intro fuel hf _
    obtain ⟨f, rfl⟩ : ∃ f, fuel = f + 1 := ⟨fuel - 1, by simp at hf; omega⟩
    exact ⟨[], by simp [rdFileA, rdMatrixA], Forall₂.nil⟩
  | cons p t ih =>
    intro fuel hf hok
    obtain ⟨f, rfl⟩ : ∃ f, fuel = f + 1 := ⟨fuel - 1, by simp at hf; omega⟩
    obtain ⟨a, hm, hdec⟩ := rdMatrixA_decOf dformat d hd hp p (hok p List.mem_cons_self)
      (t.flatMap fun p => matLines d p.1 p.2)
    obtain ⟨ds, hds, hrel⟩ := ih f (by simp at hf ⊢; omega) (fun q hq => hok q (List.mem_cons_of_mem _ hq))
    refine ⟨a :: ds, ?_, Forall₂.cons hdec hrel⟩
    simp only [List.flatMap_cons, rdFileA, hm, hds, Option.map_some]

theorem encFileAscii_isLines (d : Nat) (hp : 1 ≤ perline d) (ms : List (Layout × Mat)) (h : ∀ p ∈ ms, WfA p.2) :
    IsLines (encFileAscii d ms) (ms.flatMap fun p => matLines d p.1 p.2) :=
  IsLines.flatMap _ _ ms fun p hp' => encMatAscii_isLines d hp p.1 p.2 (h p hp')

theorem FieldChar.toNat_ne_zero {c : Char} (h : FieldChar c) : (c.toNat != 0) = true := by
  rcases h with h | h | h | h | h | h
  · rw [h]; decide
  · rw [h]; decide
  · rw [h]; decide
  · rw [h]; decide
  · rw [h]; decide
  · have := isDigit_toNat c h
    simp only [bne_iff_ne]; omega

/-- `_decode_format` takes a written file for ASCII -/
theorem isAsciiFile_enc (d : Nat) (p : Layout × Mat) (t : List (Layout × Mat)) (hwf : WfA p.2) :
    isAsciiFile (encFileAscii d (p :: t)) = true := by
  have hh : ∃ f rest, encFileAscii d (p :: t) = f ++ rest ∧ 16 ≤ f.length ∧ ∀ c ∈ f, FieldChar c := by
    refine ⟨fmtInt (if decide (p.2.rows > 9999999) then 16 else 8) (p.2.cols.length : Int) ++
      fmtInt (if decide (p.2.rows > 9999999) then 16 else 8)
        (if (p.1 == .bigmat) = true then -(p.2.rows : Int) else (p.2.rows : Int)), ?_, ?_, ?_, ?_⟩
    · exact fmtInt 8 (p.2.form : Int) ++ fmtInt 8 (mtypeOf p.2.cplx : Int) ++ nameStr p.2.name ++
        (specOf (perline d) (numlen d) d ++ (if decide (p.2.rows > 9999999) then "|I16".toList else [])) ++ ['\n'] ++
        (match p.1 with
          | .dense => ascCols (ascColDense d p.2.cplx) 0 p.2.cols ++ asciiTrailer d p.2.cols.length
          | .bigmat => ascCols (ascColBig d p.2.cplx) 0 p.2.cols ++ asciiTrailer d p.2.cols.length
          | .nonbigmat => ascCols (ascColNonbig d p.2.cplx) 0 p.2.cols ++ asciiTrailer d p.2.cols.length) ++
        encFileAscii d t
    · simp only [encFileAscii, List.flatMap_cons, encMatAscii]
      cases p.1 <;> simp [asciiHeader_eq, List.append_assoc]
    · rw [List.length_append, fmtInt_eq, fmtInt_eq]
      simp only [List.length_append, List.length_replicate]
      split <;> omega
    · intro c hc
      rcases List.mem_append.1 hc with h | h <;> exact fmtInt_fieldChar _ _ c h
  obtain ⟨f, rest, heq, hlen, hch⟩ := hh
  unfold isAsciiFile
  rw [heq]
  have h1 : 16 ≤ (f ++ rest).length := by rw [List.length_append]; omega
  have h2 : (f ++ rest).take 4 = f.take 4 := List.take_append_of_le_length (by omega)
  simp only [h1, decide_true, Bool.true_and, h2, List.all_eq_true]
  intro c hc
  exact (hch c (List.mem_of_mem_take hc)).toNat_ne_zero

/-- `op4.load` on a written ASCII file -/
theorem loadAscii_enc (d : Nat) (hd : 1 ≤ d) (hp : 1 ≤ perline d) (ms : List (Layout × Mat)) (hne : ms ≠ [])
    (hok : ∀ p ∈ ms, MatOK d p) :
    ∃ ds, loadAscii (encFileAscii d ms) = some ds ∧ Forall₂ (ADecOf d) ms ds := by
  have hlines := (encFileAscii_isLines d hp ms fun p hp' => (hok p hp').1).eq
  cases ms with
  | nil => exact absurd rfl hne
  | cons p t =>
    unfold loadAscii
    rw [isAsciiFile_enc d p t (hok p List.mem_cons_self).1, if_pos rfl, hlines]
    apply rdFileA_enc _ d hd hp (p :: t) _ _ hok
    have := flatMap_length_ge (fun p : Layout × Mat => matLines d p.1 p.2) (p :: t)
      (fun q _ => matLines_ne_nil d q.1 q.2)
    omega

end PyYetiVerif.Op4A
