import PyYetiVerif.Lemmas.BulkFileOKDmig
import PyYetiVerif.Lemmas.BulkDmigTextF
/-! The text of `wtdmig` with real-valued terms (`Dmig.linesF`) as card segments (C13; core Lean only). -/
namespace PyYetiVerif.Bulk

/-- the same for real-valued terms written through a field formatter `fmt` (`Dmig.linesF`) -/
def Dmig.segsF (fmt : Int → Txt) (d : Dmig) : List Seg :=
  .card 0 d.header [] :: d.cards.map fun c => .card 0 ((d.cardLinesF fmt c).headD []) (d.cardLinesF fmt c).tail

theorem Dmig.fileOf_segsF (fmt : Int → Txt) (d : Dmig) : fileOf (d.segsF fmt) = d.linesF fmt := by
  rw [Dmig.linesF_eq fmt d]
  unfold Dmig.segsF fileOf
  simp only [List.flatMap_cons, Seg.lines, List.singleton_append, Dmig.header]
  congr 1
  generalize d.cards = cs
  induction cs with
  | nil => rfl
  | cons c r ih => simp only [List.map_cons, List.flatMap_cons, Seg.lines, ih]; rfl

theorem Dmig.segsF_ok (fmt : Int → Txt) (d : Dmig) (hc : d.CleanF fmt) : ∀ s ∈ d.segsF fmt, SegLocalOK bulkReaders s := by
  intro s hs
  simp only [Dmig.segsF, List.mem_cons, List.mem_map] at hs
  rcases hs with rfl | ⟨c, hm, rfl⟩
  · have e8 : ∀ x, padR 8 (txt "DMIG") ++ x = 'D' :: 'M' :: 'I' :: 'G' :: ' ' :: ' ' :: ' ' :: ' ' :: x := fun _ => rfl
    have e : d.header = 'D' :: 'M' :: 'I' :: 'G' :: ' ' :: ' ' :: ' ' :: ' ' :: (padR 8 d.name ++ padL 8 (dec 0) ++ padL 8 (dec d.form) ++
        padL 8 (dec d.mtype) ++ padL 8 (dec 0) ++ padL 8 (dec 0) ++ blanks 8 ++ padL 8 (dec d.ncol)) := by
      simp only [Dmig.header, List.append_assoc]; exact e8 _
    rw [e]
    refine ⟨match_dmig ' ' _ (Or.inl rfl), ⟨isCont_of_head 'D' _ (by decide) _, isCont_of_head 'D' _ (by decide) _,
      isCont_of_head 'D' _ (by decide) _⟩, ?_⟩
    intro l hl; simp at hl
  · obtain ⟨hg, hcj, _⟩ := hc.labels c hm
    have hfl : FixedLine 16 (padR 8 (txt "DMIG*")) ([padR 16 d.name, padL 16 (dec c.1.1)] ++ [padL 16 (dec c.1.2)]) 0 := by
      refine FixedLine.build 16 _ _ _ 0 (by decide) (by decide) (by decide) ?_ (padL_dec_ne_nil 16 _) (lastSolid_padL_dec 16 _) (by simp)
      intro f hf
      simp only [List.cons_append, List.nil_append, List.mem_cons, List.not_mem_nil, or_false] at hf
      rcases hf with rfl | rfl | rfl
      · exact fieldOK_padR 16 _ (by have := hc.name_len; omega) hc.name_d hc.name_c
      · exact fieldOK_padL_dec 16 _ hg
      · exact fieldOK_padL_dec 16 _ hcj
    have hmode := hfl.modeOf
    have hstar : (padR 8 (txt "DMIG*")).contains '*' = true := by decide
    rw [hstar] at hmode; simp only [if_true] at hmode
    have e1 : padR 8 (txt "DMIG*") ++ padR 16 d.name ++ padL 16 (dec c.1.1) ++ padL 16 (dec c.1.2) =
        padR 8 (txt "DMIG*") ++ ([padR 16 d.name, padL 16 (dec c.1.1)] ++ [padL 16 (dec c.1.2)]).flatten ++ blanks 0 := by
      simp [blanks]
    have e8 : ∀ x, padR 8 (txt "DMIG*") ++ x = 'D' :: 'M' :: 'I' :: 'G' :: '*' :: ' ' :: ' ' :: ' ' :: x := fun _ => rfl
    simp only [Dmig.cardLinesF, List.headD_cons, List.tail_cons]
    refine ⟨?_, ⟨?_, ?_, ?_⟩, ?_⟩
    · rw [List.append_assoc, List.append_assoc, e8]; exact match_dmig '*' _ (Or.inr rfl)
    · rw [List.append_assoc, List.append_assoc, e8]; exact isCont_of_head 'D' _ (by decide) _
    · rw [List.append_assoc, List.append_assoc, e8]; exact isCont_of_head 'D' _ (by decide) _
    · rw [List.append_assoc, List.append_assoc, e8]; exact isCont_of_head 'D' _ (by decide) _
    · intro l hl
      obtain ⟨e, _, rfl⟩ := List.mem_map.mp hl
      rw [e1, hmode]
      have es : ∀ x, padR 8 ['*'] ++ x = '*' :: (blanks 7 ++ x) := fun _ => rfl
      rw [List.append_assoc, List.append_assoc, List.append_assoc, es]
      exact ⟨rfl, noMatch_star _⟩

end PyYetiVerif.Bulk
