import PyYetiVerif.Model.Op4
/-! Helper lemmas for C04 (core Lean only: `omega`, `simp`, list induction). -/
namespace PyYetiVerif.Op4
open PyYetiVerif.Generated.Op4Consts

/-! ### colStats -/

theorem expand_cons (p : Nat × Nat) (t : List (Nat × Nat)) :
    expand (p :: t) = List.range' p.1 p.2 ++ expand t := by
  simp [expand]

theorem expand_colStats (r : List Nat) : expand (colStats r) = r := by
  induction r with
  | nil => rfl
  | cons a rs ih =>
    unfold colStats
    split
    · next s l t h =>
      rw [h, expand_cons] at ih
      split
      · next hs =>
        subst hs
        rw [expand_cons]
        simp only [List.range'_succ, List.cons_append]
        rw [ih]
      · rw [expand_cons, expand_cons]
        simp only [List.range'_one, List.singleton_append, List.cons.injEq, true_and]
        exact ih
    · next h =>
      rw [h] at ih
      simp only [expand, List.flatMap_nil] at ih
      subst ih
      simp [expand]

theorem colStats_pos (r : List Nat) : ∀ p ∈ colStats r, 1 ≤ p.2 := by
  induction r with
  | nil => intro p hp; simp [colStats] at hp
  | cons a rs ih =>
    unfold colStats
    split
    · next s l t h =>
      rw [h] at ih
      split
      · intro p hp
        rcases List.mem_cons.1 hp with rfl | hp
        · simp
        · exact ih p (List.mem_cons_of_mem _ hp)
      · intro p hp
        rcases List.mem_cons.1 hp with rfl | hp
        · simp
        · exact ih p hp
    · intro p hp
      simp at hp
      subst hp
      simp

theorem colStats_sum (r : List Nat) : ((colStats r).map (·.2)).sum = r.length := by
  induction r with
  | nil => rfl
  | cons a rs ih =>
    unfold colStats
    split
    · next s l t h =>
      rw [h] at ih
      split
      · simp only [List.map_cons, List.sum_cons, List.length_cons] at ih ⊢; omega
      · simp only [List.map_cons, List.sum_cons, List.length_cons] at ih ⊢; omega
    · next h =>
      rw [h] at ih
      simp only [List.map_nil, List.sum_nil] at ih
      simp only [List.map_cons, List.map_nil, List.sum_cons, List.sum_nil, List.length_cons]
      omega

/-- adjacent runs are never contiguous (each run is maximal) -/
def Maximal : List (Nat × Nat) → Prop
  | [] => True
  | [_] => True
  | a :: b :: t => a.1 + a.2 ≠ b.1 ∧ Maximal (b :: t)

theorem colStats_head (a : Nat) (rs : List Nat) :
    ∃ l t, colStats (a :: rs) = (a, l) :: t := by
  unfold colStats
  split
  · split
    · exact ⟨_, _, rfl⟩
    · exact ⟨_, _, rfl⟩
  · exact ⟨_, _, rfl⟩

theorem colStats_maximal' (r : List Nat) : Maximal (colStats r) := by
  induction r with
  | nil => simp [colStats, Maximal]
  | cons a rs ih =>
    unfold colStats
    split
    · next s l t h =>
      rw [h] at ih
      split
      · next hs =>
        cases t with
        | nil => simp [Maximal]
        | cons b t' =>
          simp only [Maximal] at ih ⊢
          refine ⟨?_, ih.2⟩
          have := ih.1
          simp at this ⊢
          omega
      · next hs =>
        simp only [Maximal]
        refine ⟨?_, ih⟩
        simp
        omega
    · simp [Maximal]

/-! ### pack / unpack -/

theorem unpack_pack' (irow L : Nat) (h₂ : irow < 65536) :
    unpackIS (packIS irow L) = (irow, L) := by
  unfold unpackIS packIS isShiftW isShiftR
  simp only [Nat.shiftLeft_eq, Nat.shiftRight_eq_div_pow]
  have h : (irow + (L + 1) * 2 ^ 16) / 2 ^ 16 = L + 1 := by omega
  rw [h]
  simp only [Nat.add_sub_cancel]

theorem pack_shift (irow L : Nat) (h₂ : irow < 65536) : packIS irow L >>> isShiftR = L + 1 := by
  unfold packIS isShiftW isShiftR
  simp only [Nat.shiftLeft_eq, Nat.shiftRight_eq_div_pow]
  omega

/-! ### doubles and words -/

theorem takeDs_flatMap (e : Endian) (ds rest : List Nat) :
    takeDs e ds.length (ds.flatMap (dWords e) ++ rest) = some (ds, rest) := by
  induction ds with
  | nil => simp [takeDs]
  | cons d t ih =>
    cases e
    · simp only [List.flatMap_cons, dWords, List.cons_append, List.nil_append, List.length_cons, takeDs]
      rw [ih]
      simp only [joinW, W, Nat.mod_add_div']
    · simp only [List.flatMap_cons, dWords, List.cons_append, List.nil_append, List.length_cons, takeDs]
      rw [ih]
      simp only [joinW, W, Nat.div_add_mod']

/-- what the reader makes of an element: a real matrix has no imaginary part -/
def normE (cplx : Bool) (x : Entry) : Entry := if cplx then x else (x.1, 0)

theorem unchunk_entryDs (cplx : Bool) (seg : List Entry) :
    unchunk cplx (seg.flatMap (entryDs cplx)) = some (seg.map (normE cplx)) := by
  cases cplx
  · simp only [unchunk, Bool.false_eq_true, if_false, Option.some.injEq]
    induction seg with
    | nil => rfl
    | cons x t ih => simp [entryDs, unchunkR, normE] at ih ⊢; exact ih
  · simp only [unchunk, if_true]
    induction seg with
    | nil => rfl
    | cons x t ih => simp [entryDs, unchunkC, normE] at ih ⊢; rw [ih]

theorem length_segDs (cplx : Bool) (seg : List Entry) :
    (seg.flatMap (entryDs cplx)).length = seg.length * mult cplx := by
  induction seg with
  | nil => simp
  | cons x t ih =>
    simp only [List.flatMap_cons, List.length_append, ih, List.length_cons]
    cases cplx <;> simp [entryDs, mult] <;> omega

theorem takeDs_valWords (e : Endian) (cplx : Bool) (seg : List Entry) (rest : List Nat) :
    takeDs e (seg.length * mult cplx) (valWords e cplx seg ++ rest)
      = some (seg.flatMap (entryDs cplx), rest) := by
  rw [← length_segDs]
  exact takeDs_flatMap e _ rest

/-! ### parsing the strings of a column record -/

theorem nwordsNonbig_cons (cplx : Bool) (s : Nat × List Entry) (t : List (Nat × List Entry)) :
    nwordsNonbig cplx (s :: t) = (s.2.length * 2 * mult cplx + 1) + nwordsNonbig cplx t := by
  cases cplx <;> simp [nwordsNonbig, sumLens, mult] <;> omega

theorem nwordsBig_cons (cplx : Bool) (s : Nat × List Entry) (t : List (Nat × List Entry)) :
    nwordsBig cplx (s :: t) = ((s.2.length * 2 * mult cplx + 1) + 1) + nwordsBig cplx t := by
  cases cplx <;> simp [nwordsBig, sumLens, mult] <;> omega

theorem rdStringsNonbig_zero (e : Endian) (cplx : Bool) (fuel : Nat) (ws : List Nat) :
    rdStringsNonbig e cplx fuel 0 ws = some ([], ws) := by
  cases fuel <;> simp [rdStringsNonbig]

theorem rdStringsBig_zero (e : Endian) (cplx : Bool) (fuel : Nat) (ws : List Nat) :
    rdStringsBig e cplx fuel 0 ws = some ([], ws) := by
  cases fuel <;> simp [rdStringsBig]

theorem rdStringsNonbig_enc (e : Endian) (cplx : Bool) (ss : List (Nat × List Entry)) (rest : List Nat)
    (hrow : ∀ s ∈ ss, s.1 + 1 < 65536) :
    ∀ fuel, ss.length ≤ fuel →
      rdStringsNonbig e cplx fuel (nwordsNonbig cplx ss) (ss.flatMap (nonbigStringWords e cplx) ++ rest)
        = some (ss.map (fun s => (s.1, s.2.map (normE cplx))), rest) := by
  induction ss with
  | nil => intro fuel _; simp [nwordsNonbig, sumLens, rdStringsNonbig_zero]
  | cons s t ih =>
    intro fuel hf
    cases fuel with
    | zero => simp at hf
    | succ f =>
      have hs : s.1 + 1 < 65536 := hrow s (List.mem_cons_self)
      have ht := ih (fun x hx => hrow x (List.mem_cons_of_mem _ hx)) f (by simpa using hf)
      rw [nwordsNonbig_cons]
      have e1 : s.2.length * 2 * mult cplx + 1 + nwordsNonbig cplx t
          = (s.2.length * 2 * mult cplx + nwordsNonbig cplx t) + 1 := by omega
      rw [e1]
      simp only [List.flatMap_cons, nonbigStringWords, List.cons_append, List.append_assoc]
      rw [rdStringsNonbig]
      simp only [unpack_pack' _ _ hs, pack_shift _ _ hs]
      have hdiv : s.2.length * 2 * mult cplx / 2 = s.2.length * mult cplx := by
        cases cplx <;> simp [mult] <;> omega
      rw [hdiv, takeDs_valWords]
      have e2 : s.2.length * 2 * mult cplx + nwordsNonbig cplx t + 1 - (s.2.length * 2 * mult cplx + 1)
          = nwordsNonbig cplx t := by omega
      simp only [unchunk_entryDs, e2, ht]
      have c1 : ¬ (s.2.length * 2 * mult cplx + 1 = 0 ∨ s.1 + 1 = 0 ∨
          s.2.length * 2 * mult cplx + nwordsNonbig cplx t + 1 < s.2.length * 2 * mult cplx + 1) := by omega
      simp [c1]

theorem rdStringsBig_enc (e : Endian) (cplx : Bool) (ss : List (Nat × List Entry)) (rest : List Nat) :
    ∀ fuel, ss.length ≤ fuel →
      rdStringsBig e cplx fuel (nwordsBig cplx ss) (ss.flatMap (bigStringWords e cplx) ++ rest)
        = some (ss.map (fun s => (s.1, s.2.map (normE cplx))), rest) := by
  induction ss with
  | nil => intro fuel _; simp [nwordsBig, sumLens, rdStringsBig_zero]
  | cons s t ih =>
    intro fuel hf
    cases fuel with
    | zero => simp at hf
    | succ f =>
      have ht := ih f (by simpa using hf)
      rw [nwordsBig_cons]
      have e1 : s.2.length * 2 * mult cplx + 1 + 1 + nwordsBig cplx t
          = (s.2.length * 2 * mult cplx + 1 + nwordsBig cplx t) + 1 := by omega
      rw [e1]
      simp only [List.flatMap_cons, bigStringWords, List.cons_append, List.nil_append, List.append_assoc]
      rw [rdStringsBig]
      have hdiv : (s.2.length * 2 * mult cplx + 1 - 1) / 2 = s.2.length * mult cplx := by
        cases cplx <;> simp [mult] <;> omega
      rw [hdiv, takeDs_valWords]
      have e2 : s.2.length * 2 * mult cplx + 1 + nwordsBig cplx t + 1 - (s.2.length * 2 * mult cplx + 1 + 1)
          = nwordsBig cplx t := by omega
      simp only [unchunk_entryDs, e2, ht]
      have c1 : ¬ (s.2.length * 2 * mult cplx + 1 = 0 ∨ s.1 + 1 = 0 ∨
          s.2.length * 2 * mult cplx + 1 + nwordsBig cplx t + 1 < s.2.length * 2 * mult cplx + 1 + 1) := by omega
      simp [c1]

/-! ### putting strings into a column -/

theorem getElem?_splice (X ys : List Entry) (r : Nat) (h : r + ys.length ≤ X.length) (i : Nat) :
    (X.take r ++ ys ++ X.drop (r + ys.length))[i]?
      = if i < r then X[i]? else if i < r + ys.length then ys[i - r]? else X[i]? := by
  have hr : (X.take r).length = r := by simp; omega
  by_cases h1 : i < r
  · simp only [h1, if_true]
    rw [List.append_assoc, List.getElem?_append_left (by omega)]
    simp [List.getElem?_take, h1]
  · simp only [h1, if_false]
    rw [List.append_assoc, List.getElem?_append_right (by omega), hr]
    by_cases h2 : i < r + ys.length
    · simp only [h2, if_true]
      rw [List.getElem?_append_left (by omega)]
    · simp only [h2, if_false]
      rw [List.getElem?_append_right (by omega), List.getElem?_drop]
      congr 1; omega

theorem putsCol_spec (target : List Entry) :
    ∀ (runs : List (Nat × List Entry)) (X : List Entry), X.length = target.length →
      (∀ p ∈ runs, p.1 + p.2.length ≤ target.length ∧ ∀ k, k < p.2.length → p.2[k]? = target[p.1 + k]?) →
      (∀ i, i < target.length → (∀ p ∈ runs, ¬ (p.1 ≤ i ∧ i < p.1 + p.2.length)) → X[i]? = target[i]?) →
      putsCol X runs = some target := by
  intro runs
  induction runs with
  | nil =>
    intro X hlen _ hX
    simp only [putsCol, Option.some.injEq]
    apply List.ext_getElem?
    intro i
    by_cases hi : i < target.length
    · exact hX i hi (by simp)
    · rw [List.getElem?_eq_none (by omega), List.getElem?_eq_none (by omega)]
  | cons p t ih =>
    intro X hlen hruns hX
    obtain ⟨hp1, hp2⟩ := hruns p (List.mem_cons_self)
    have hin : p.1 + p.2.length ≤ X.length := by omega
    simp only [putsCol, putCol, hin, if_true]
    apply ih
    · simp; omega
    · intro q hq; exact hruns q (List.mem_cons_of_mem _ hq)
    · intro i hi hnot
      rw [getElem?_splice X p.2 p.1 hin i]
      by_cases h1 : i < p.1
      · simp only [h1, if_true]
        apply hX i hi
        intro q hq
        rcases List.mem_cons.1 hq with rfl | hq
        · omega
        · exact hnot q hq
      · simp only [h1, if_false]
        by_cases h2 : i < p.1 + p.2.length
        · simp only [h2, if_true]
          rw [hp2 (i - p.1) (by omega)]
          congr 1; omega
        · simp only [h2, if_false]
          apply hX i hi
          intro q hq
          rcases List.mem_cons.1 hq with rfl | hq
          · omega
          · exact hnot q hq

/-! ### non-zero indices -/

theorem mem_nzIdxFrom (cplx : Bool) (col : List Entry) :
    ∀ (i j : Nat), j ∈ nzIdxFrom cplx i col ↔
      ∃ k x, j = i + k ∧ col[k]? = some x ∧ x.isZero cplx = false := by
  induction col with
  | nil => intro i j; simp [nzIdxFrom]
  | cons y ys ih =>
    intro i j
    unfold nzIdxFrom
    by_cases hy : y.isZero cplx = true
    · simp only [hy, if_true]
      rw [ih]
      constructor
      · rintro ⟨k, x, h1, h2, h3⟩
        exact ⟨k + 1, x, by omega, by simpa using h2, h3⟩
      · rintro ⟨k, x, h1, h2, h3⟩
        cases k with
        | zero => simp at h2; subst h2; simp [hy] at h3
        | succ k => exact ⟨k, x, by omega, by simpa using h2, h3⟩
    · have hy' : y.isZero cplx = false := by simpa using hy
      simp only [hy', Bool.false_eq_true, if_false, List.mem_cons]
      rw [ih]
      constructor
      · rintro (rfl | ⟨k, x, h1, h2, h3⟩)
        · exact ⟨0, y, by omega, by simp, by simpa using hy⟩
        · exact ⟨k + 1, x, by omega, by simpa using h2, h3⟩
      · rintro ⟨k, x, h1, h2, h3⟩
        cases k with
        | zero => left; omega
        | succ k => right; exact ⟨k, x, by omega, by simpa using h2, h3⟩

theorem mem_nzIdx (cplx : Bool) (col : List Entry) (j : Nat) :
    j ∈ nzIdx cplx col ↔ ∃ x, col[j]? = some x ∧ x.isZero cplx = false := by
  unfold nzIdx
  rw [mem_nzIdxFrom]
  constructor
  · rintro ⟨k, x, h1, h2, h3⟩
    have : j = k := by omega
    subst this
    exact ⟨x, h2, h3⟩
  · rintro ⟨x, h2, h3⟩
    exact ⟨j, x, by omega, h2, h3⟩

/-- an index is covered by a run of `colStats r` iff it is in `r` -/
theorem mem_runs (r : List Nat) (j : Nat) :
    j ∈ r ↔ ∃ p ∈ colStats r, p.1 ≤ j ∧ j < p.1 + p.2 := by
  conv => lhs; rw [← expand_colStats r]
  simp only [expand, List.mem_flatMap, List.mem_range'_1]

theorem canonEntry_of_nonzero (cplx : Bool) (x : Entry) (h : x.isZero cplx = false) :
    canonEntry cplx x = normE cplx x := by
  simp [canonEntry, normE, h]

theorem canonEntry_of_zero (cplx : Bool) (x : Entry) (h : x.isZero cplx = true) :
    canonEntry cplx x = (0, 0) := by
  simp [canonEntry, h]

/-- a run of `colStats (nzIdx col)` lies inside the column -/
theorem run_in_range (cplx : Bool) (col : List Entry) (q : Nat × Nat)
    (hq : q ∈ colStats (nzIdx cplx col)) : q.1 + q.2 ≤ col.length := by
  have hpos := colStats_pos _ q hq
  have hmem : q.1 + q.2 - 1 ∈ nzIdx cplx col :=
    (mem_runs _ _).2 ⟨q, hq, by omega, by omega⟩
  obtain ⟨x, hx, _⟩ := (mem_nzIdx _ _ _).1 hmem
  have := (List.getElem?_eq_some_iff.1 hx).1
  omega

theorem putsCol_strings (cplx : Bool) (col : List Entry) :
    putsCol (List.replicate col.length (0, 0))
        ((strings cplx col).map fun s => (s.1, s.2.map (normE cplx)))
      = some (canonCol cplx col) := by
  apply putsCol_spec
  · simp [canonCol]
  · intro p hp
    simp only [strings, List.map_map, List.mem_map, Function.comp] at hp
    obtain ⟨q, hq, rfl⟩ := hp
    have hr := run_in_range cplx col q hq
    have hlen : (List.take q.2 (List.drop q.1 col)).length = q.2 := by
      simp; omega
    simp only [canonCol, List.length_map]
    refine ⟨by omega, ?_⟩
    intro k hk
    rw [hlen] at hk
    have hmem : q.1 + k ∈ nzIdx cplx col := (mem_runs _ _).2 ⟨q, hq, by omega, by omega⟩
    obtain ⟨x, hx, hz⟩ := (mem_nzIdx _ _ _).1 hmem
    simp only [List.getElem?_map, List.getElem?_take, hk, if_true, List.getElem?_drop, hx, Option.map_some]
    rw [canonEntry_of_nonzero cplx x hz]
  · intro i hi hnot
    simp only [canonCol, List.length_map] at hi
    simp only [canonCol, List.getElem?_map, List.getElem?_replicate, hi, if_true]
    have hx : col[i]? = some col[i] := List.getElem?_eq_getElem hi
    rw [hx, Option.map_some]
    by_cases hz : (col[i]).isZero cplx = true
    · rw [canonEntry_of_zero cplx _ hz]
    · exfalso
      have hmem : i ∈ nzIdx cplx col := (mem_nzIdx _ _ _).2 ⟨col[i], hx, by simpa using hz⟩
      obtain ⟨q, hq, h1, h2⟩ := (mem_runs _ _).1 hmem
      have hr := run_in_range cplx col q hq
      apply hnot (q.1, ((col.drop q.1).take q.2).map (normE cplx))
      · simp only [strings, List.map_map, List.mem_map, Function.comp]
        exact ⟨q, hq, rfl⟩
      · simp; omega

theorem strings_rows (cplx : Bool) (col : List Entry) (h : col.length < 65536) :
    ∀ s ∈ strings cplx col, s.1 + 1 < 65536 := by
  intro s hs
  simp only [strings, List.mem_map] at hs
  obtain ⟨q, hq, rfl⟩ := hs
  have := run_in_range cplx col q hq
  have := colStats_pos _ q hq
  simp; omega

theorem strings_length_le (cplx : Bool) (ss : List (Nat × List Entry)) :
    ss.length ≤ nwordsNonbig cplx ss ∧ ss.length ≤ nwordsBig cplx ss := by
  simp [nwordsNonbig, nwordsBig]; omega

theorem decodeColNonbig_enc (e : Endian) (cplx : Bool) (col : List Entry) (rest : List Nat)
    (hrows : col.length < 65536) :
    decodeColNonbig e cplx col.length (nwordsNonbig cplx (strings cplx col))
        ((strings cplx col).flatMap (nonbigStringWords e cplx) ++ rest)
      = some (canonCol cplx col, rest) := by
  unfold decodeColNonbig
  rw [rdStringsNonbig_enc e cplx _ rest (strings_rows cplx col hrows) _ (strings_length_le cplx _).1]
  simp only [putsCol_strings, Option.map_some]

theorem decodeColBig_enc (e : Endian) (cplx : Bool) (col : List Entry) (rest : List Nat) :
    decodeColBig e cplx col.length (nwordsBig cplx (strings cplx col))
        ((strings cplx col).flatMap (bigStringWords e cplx) ++ rest)
      = some (canonCol cplx col, rest) := by
  unfold decodeColBig
  rw [rdStringsBig_enc e cplx _ rest _ (strings_length_le cplx _).2]
  simp only [putsCol_strings, Option.map_some]

/-! ### `%E` -/

theorem bsearch_bounds (p : Nat → Bool) :
    ∀ (f lo hi : Nat), lo < hi → lo ≤ bsearch p f lo hi ∧ bsearch p f lo hi < hi := by
  intro f
  induction f with
  | zero => intro lo hi h; simp [bsearch]; omega
  | succ f ih =>
    intro lo hi h
    unfold bsearch
    by_cases h1 : hi ≤ lo + 1
    · simp [h1]; omega
    · simp only [h1, if_false]
      by_cases h2 : p ((lo + hi) / 2) = true
      · simp only [h2, if_true]
        have := ih ((lo + hi) / 2) hi (by omega)
        omega
      · simp only [h2]
        have := ih lo ((lo + hi) / 2) (by omega)
        simp only [Bool.false_eq_true, if_false]
        omega

theorem fixedDigits_length : ∀ (k m : Nat), (fixedDigits k m).length = k := by
  intro k
  induction k with
  | zero => intro m; rfl
  | succ k ih => intro m; simp [fixedDigits, ih]

theorem expDigits_length (n : Nat) (h : n < 1000) :
    (expDigits n).length = if n < 100 then 2 else 3 := by
  unfold expDigits
  by_cases h1 : n < 100
  · simp [h1]
  · simp [h1, h]

theorem expIndex_lt (num den : Nat) : expIndex num den < 800 :=
  (bsearch_bounds _ 12 0 800 (by omega)).2

theorem snd_ite {α β : Type} (c : Prop) [Decidable c] (a b : α × β) :
    (if c then a else b).2 = if c then a.2 else b.2 := by split <;> rfl

theorem sciPos_bound (d num den : Nat) : (sciPos d num den).2.natAbs < 1000 := by
  unfold sciPos
  have hk := expIndex_lt num den
  generalize expIndex num den = k at hk ⊢
  dsimp only
  rw [snd_ite]
  by_cases h : roundHalfEven (if d + 400 ≥ k then num * 10 ^ (d + 400 - k) else num)
      (if d + 400 ≥ k then den else den * 10 ^ (k - 400 - d)) = 10 ^ (d + 1)
  · rw [if_pos h]; show ((k : Int) - 400 + 1).natAbs < 1000; omega
  · rw [if_neg h]; show ((k : Int) - 400).natAbs < 1000; omega

theorem sciOf_bound (d : Nat) (neg : Bool) (m : Nat) (e2 : Int) : (sciOf d neg m e2).e10.natAbs < 1000 := by
  unfold sciOf
  split
  · show (0 : Int).natAbs < 1000
    decide
  · exact sciPos_bound _ _ _

theorem sci_e10_bound (d b : Nat) : (sci d b).e10.natAbs < 1000 := sciOf_bound _ _ _ _

theorem length_padLeft (n : Nat) (cs : List Char) : (padLeft n cs).length = max n cs.length := by
  simp [padLeft]; omega

theorem sciChars_length (d : Nat) (s : Sci) (hd : 1 ≤ d) (he : s.e10.natAbs < 1000) :
    (sciChars d s).length
      = (if s.neg then 1 else 0) + d + 4 + (if s.e10.natAbs < 100 then 2 else 3) := by
  unfold sciChars
  have hd0 : ¬ d = 0 := by omega
  simp only [hd0, if_false, List.length_append, List.length_cons, List.length_nil, List.length_take,
    List.length_drop, fixedDigits_length, expDigits_length _ he]
  cases s.neg <;> simp <;> omega

/-! ### dense column records -/

theorem nzIdxFrom_sorted (cplx : Bool) (col : List Entry) :
    ∀ i, List.Pairwise (· < ·) (nzIdxFrom cplx i col) ∧ ∀ j ∈ nzIdxFrom cplx i col, i ≤ j := by
  induction col with
  | nil => intro i; simp [nzIdxFrom]
  | cons y ys ih =>
    intro i
    unfold nzIdxFrom
    obtain ⟨h1, h2⟩ := ih (i + 1)
    split
    · exact ⟨h1, fun j hj => by have := h2 j hj; omega⟩
    · refine ⟨List.pairwise_cons.2 ⟨fun j hj => by have := h2 j hj; omega, h1⟩, ?_⟩
      intro j hj
      rcases List.mem_cons.1 hj with rfl | hj
      · omega
      · have := h2 j hj; omega

theorem sorted_bounds : ∀ (l : List Nat) (h : l ≠ []), List.Pairwise (· < ·) l →
    ∀ j ∈ l, l.head h ≤ j ∧ j ≤ l.getLast h := by
  intro l
  induction l with
  | nil => intro h; exact absurd rfl h
  | cons a t ih =>
    intro _ hp j hj
    obtain ⟨ha, ht⟩ := List.pairwise_cons.1 hp
    cases t with
    | nil => simp at hj; subst hj; simp
    | cons b t' =>
      have hb := ih (by simp) ht
      simp only [List.head_cons, List.getLast_cons_cons]
      rcases List.mem_cons.1 hj with rfl | hj
      · have h1 := hb b (List.mem_cons_self)
        have h2 := ha b (List.mem_cons_self)
        simp only [List.head_cons] at h1
        omega
      · have h1 := hb j hj
        have h2 := ha j hj
        simp only [List.head_cons] at h1
        omega

theorem isZero_normE (cplx : Bool) (x : Entry) : (normE cplx x).isZero cplx = x.isZero cplx := by
  cases cplx <;> simp [normE, Entry.isZero]

theorem isZero_zero (cplx : Bool) : Entry.isZero cplx (0, 0) = true := by
  cases cplx <;> decide

/-- the segment a dense record carries: first to last non-zero row -/
def denseSeg (col : List Entry) (s : Nat) (tl : List Nat) : List Entry :=
  (col.drop s).take ((s :: tl).getLast (by simp) - s + 1)

theorem encColDense_eq (e : Endian) (cplx : Bool) (c : Nat) (col : List Entry) (s : Nat) (tl : List Nat)
    (h : nzIdx cplx col = s :: tl) :
    encColDense e cplx c col =
      [3 * 4 + (denseSeg col s tl).length * mult cplx * 8, c + 1, s + 1, 2 * ((denseSeg col s tl).length * mult cplx)]
        ++ valWords e cplx (denseSeg col s tl) ++ [3 * 4 + (denseSeg col s tl).length * mult cplx * 8] := by
  unfold encColDense
  split
  · next h' => rw [h] at h'; cases h'
  · next s' tl' h' =>
    rw [h] at h'
    cases h'
    rfl

theorem decodeColDense_enc (e : Endian) (cplx : Bool) (col : List Entry) (rest : List Nat) (s : Nat)
    (tl : List Nat) (h : nzIdx cplx col = s :: tl) :
    ∃ X, decodeColDense e cplx col.length (s + 1) (2 * ((denseSeg col s tl).length * mult cplx))
          (valWords e cplx (denseSeg col s tl) ++ rest) = some (X, rest) ∧
      X.length = col.length ∧
      ∀ (i : Nat) (x : Entry), col[i]? = some x → ∃ y : Entry, X[i]? = some y ∧
        (x.isZero cplx = false → y = normE cplx x) ∧ (x.isZero cplx = true → y.isZero cplx = true) := by
  have hsorted := (nzIdxFrom_sorted cplx col 0).1
  have hs_mem : s ∈ nzIdx cplx col := by rw [h]; exact List.mem_cons_self
  obtain ⟨xs, hxs, _⟩ := (mem_nzIdx _ _ _).1 hs_mem
  have hs_lt : s < col.length := (List.getElem?_eq_some_iff.1 hxs).1
  have hseglen : s + (denseSeg col s tl).length ≤ col.length := by
    unfold denseSeg; simp; omega
  unfold decodeColDense
  have hdiv : 2 * ((denseSeg col s tl).length * mult cplx) / 2 = (denseSeg col s tl).length * mult cplx := by
    omega
  rw [hdiv, takeDs_valWords]
  simp only [Nat.add_one_ne_zero, if_false, unchunk_entryDs, Nat.add_sub_cancel, putCol,
    List.length_map, List.length_replicate, hseglen, if_true, Option.map_some]
  refine ⟨_, rfl, by simp; omega, ?_⟩
  intro i x hx
  have hi : i < col.length := (List.getElem?_eq_some_iff.1 hx).1
  have hsp := getElem?_splice (List.replicate col.length ((0, 0) : Entry)) ((denseSeg col s tl).map (normE cplx)) s
    (by simp; omega) i
  simp only [List.length_map] at hsp
  rw [hsp]
  by_cases h1 : i < s
  · simp only [h1, if_true, List.getElem?_replicate, hi]
    refine ⟨(0, 0), rfl, ?_, fun _ => isZero_zero cplx⟩
    intro hz
    exfalso
    have hmem : i ∈ nzIdx cplx col := (mem_nzIdx _ _ _).2 ⟨x, hx, hz⟩
    unfold nzIdx at hmem h
    rw [h] at hmem hsorted
    have := (sorted_bounds _ (by simp) hsorted i hmem).1
    simp at this
    omega
  · simp only [h1, if_false]
    by_cases h2 : i < s + (denseSeg col s tl).length
    · simp only [h2, if_true]
      have hk : i - s < (s :: tl).getLast (by simp) - s + 1 := by
        have : (denseSeg col s tl).length ≤ (s :: tl).getLast (by simp) - s + 1 := by
          unfold denseSeg; simp; omega
        omega
      have hget : (denseSeg col s tl)[i - s]? = some x := by
        unfold denseSeg
        rw [List.getElem?_take, if_pos hk, List.getElem?_drop]
        rw [show s + (i - s) = i by omega]
        exact hx
      refine ⟨normE cplx x, by simp [List.getElem?_map, hget], fun _ => rfl, ?_⟩
      intro hz; rw [isZero_normE]; exact hz
    · simp only [h2, if_false, List.getElem?_replicate, hi, if_true]
      refine ⟨(0, 0), rfl, ?_, fun _ => isZero_zero cplx⟩
      intro hz
      exfalso
      have hmem : i ∈ nzIdx cplx col := (mem_nzIdx _ _ _).2 ⟨x, hx, hz⟩
      unfold nzIdx at hmem h
      rw [h] at hmem hsorted
      have hb := (sorted_bounds _ (by simp) hsorted i hmem).2
      have : (denseSeg col s tl).length = (s :: tl).getLast (by simp) - s + 1 := by
        have hlast_mem : (s :: tl).getLast (by simp) ∈ nzIdxFrom cplx 0 col := by
          rw [h]; exact List.getLast_mem _
        obtain ⟨xl, hxl, _⟩ := (mem_nzIdx _ _ _).1 hlast_mem
        have := (List.getElem?_eq_some_iff.1 hxl).1
        have hsl := (sorted_bounds _ (by simp) hsorted s (List.mem_cons_self)).2
        unfold denseSeg; simp; omega
      omega

/-! ### names -/

theorem isAlnumU_iff (b : Nat) : isAlnumU b = true ↔
    (65 ≤ b ∧ b ≤ 90) ∨ (97 ≤ b ∧ b ≤ 122) ∨ b = 95 ∨ (48 ≤ b ∧ b ≤ 57) := by
  simp [isAlnumU, isAlphaU]; omega

theorem isAlphaU_iff (b : Nat) : isAlphaU b = true ↔
    (65 ≤ b ∧ b ≤ 90) ∨ (97 ≤ b ∧ b ≤ 122) ∨ b = 95 := by
  simp [isAlphaU]; omega

theorem lower_upper (b : Nat) : lowerB (upperB b) = lowerB b := by
  unfold lowerB upperB; split <;> split <;> (try split) <;> omega

theorem alnum_lower (b : Nat) (h : isAlnumU b = true) : isAlnumU (lowerB b) = true := by
  rw [isAlnumU_iff] at h ⊢; unfold lowerB; split <;> omega

theorem alpha_lower (b : Nat) (h : isAlphaU b = true) : isAlphaU (lowerB b) = true := by
  rw [isAlphaU_iff] at h ⊢; unfold lowerB; split <;> omega

theorem alnum_upper_keep (b : Nat) (h : isAlnumU b = true) :
    (upperB b != 32 && upperB b != 0) = true := by
  rw [isAlnumU_iff] at h
  have : upperB b ≠ 32 ∧ upperB b ≠ 0 := by unfold upperB; split <;> omega
  simp [this.1, this.2]

theorem filter_name (name : List Nat) (h : name.all isAlnumU = true) (k : Nat) :
    ((name.map upperB ++ List.replicate k 32).filter fun b => b != 32 && b != 0) = name.map upperB := by
  rw [List.filter_append]
  have h1 : (List.replicate k 32).filter (fun b => b != 32 && b != 0) = [] := by
    apply List.filter_eq_nil_iff.2
    intro a ha
    rw [List.mem_replicate] at ha
    simp [ha.2]
  rw [h1, List.append_nil]
  apply List.filter_eq_self.2
  intro a ha
  rw [List.mem_map] at ha
  obtain ⟨b, hb, rfl⟩ := ha
  exact alnum_upper_keep b (List.all_eq_true.1 h b hb)

theorem isIdent_all (name : List Nat) (h : isIdent name = true) : name.all isAlnumU = true := by
  cases name with
  | nil => simp [isIdent] at h
  | cons b t =>
    simp only [isIdent, Bool.and_eq_true] at h
    simp only [List.all_cons, Bool.and_eq_true]
    exact ⟨by simp [isAlnumU, h.1], h.2⟩

theorem isIdent_lower (name : List Nat) (h : isIdent name = true) : isIdent (name.map lowerB) = true := by
  cases name with
  | nil => simp [isIdent] at h
  | cons b t =>
    simp only [isIdent, Bool.and_eq_true] at h
    simp only [List.map_cons, isIdent, Bool.and_eq_true, List.all_map]
    refine ⟨alpha_lower b h.1, ?_⟩
    rw [List.all_eq_true] at h ⊢
    intro x hx
    exact alnum_lower x (h.2 x hx)

theorem checkName_nameField (count : Nat) (name : List Nat) (hid : isIdent name = true)
    (hlen : name.length ≤ 8) : checkName count (nameField name) = name.map lowerB := by
  unfold checkName nameField
  have htake : (name.map upperB ++ List.replicate (8 - name.length) 32).take 8
      = name.map upperB ++ List.replicate (8 - name.length) 32 := by
    apply List.take_of_length_le; simp; omega
  rw [htake, filter_name name (isIdent_all name hid)]
  have hm : (name.map upperB).map lowerB = name.map lowerB := by
    rw [List.map_map]; apply List.map_congr_left; intro a _; exact lower_upper a
  simp only [hm, isIdent_lower name hid, if_true]

end PyYetiVerif.Op4
