import PyYetiVerif.Model.BulkUset
import PyYetiVerif.Lemmas.BulkCord
import PyYetiVerif.Lemmas.BulkDmig
/-! Helper lemmas for `uset2bulk` / `bulk2uset` at the table level (C13; core Lean only). -/
namespace PyYetiVerif.Bulk

/-- the grids of a table in table order: `(id, cd, location fields)` -/
def usetTriples (u : List UEnt) : List (Int × Int × (Txt × Txt × Txt)) :=
  u.filterMap fun | .grid id _ cd _ p => some (id, cd, p) | .spoint .. => none

theorem usetIds_eq (u : List UEnt) : usetIds u = (usetTriples u).map (·.1) := by
  induction u with
  | nil => rfl
  | cons e r ih => cases e <;> simp [usetIds, usetTriples] at ih ⊢ <;> exact ih

theorem usetCd_eq (u : List UEnt) : usetCd u = (usetTriples u).map (·.2.1) := by
  induction u with
  | nil => rfl
  | cons e r ih => cases e <;> simp [usetCd, usetTriples] at ih ⊢ <;> exact ih

theorem usetXyz_eq (u : List UEnt) : usetXyz u = (usetTriples u).map (·.2.2) := by
  induction u with
  | nil => rfl
  | cons e r ih => cases e <;> simp [usetXyz, usetTriples] at ih ⊢ <;> exact ih

/-- the call `wtgrids(f, grids, 0, xyz, cd)` of `uset2bulk` -/
def gridOf (G : List (Int × Int × (Txt × Txt × Txt))) : GridIn :=
  { ids := G.map (·.1), cp := .scalar 0, xyz := G.map (·.2.2), cd := .vec (G.map (·.2.1)), ps := .scalar none,
    seid := .scalar none, wide := true }

def rowOf (t : Int × Int × (Txt × Txt × Txt)) : GRow := ⟨t.1, 0, t.2.2.1, t.2.2.2.1, t.2.2.2.2, t.2.1, none, none⟩

theorem bc_vec_getElem? {α : Type} (l : List α) (i : Nat) : (VArg.bc l.length (.vec l))[i]? = l[i]? := by
  match l with
  | [] => rfl
  | [a] => cases i <;> simp [VArg.bc]
  | a :: b :: r => rfl

theorem filterMap_range_eq_map {α : Type} (n : Nat) (f : Nat → Option α) (h : Nat → α) (hf : ∀ i, i < n → f i = some (h i)) :
    (List.range n).filterMap f = (List.range n).map h := by
  induction n with
  | zero => rfl
  | succ k ih =>
      rw [List.range_succ, List.filterMap_append, List.map_append, ih (fun i hi => hf i (by omega))]
      simp [hf k (by omega)]

theorem rows_gridOf (G : List (Int × Int × (Txt × Txt × Txt))) : (gridOf G).rows = G.map rowOf := by
  unfold GridIn.rows
  have hn : (gridOf G).n = G.length := by simp [GridIn.n, gridOf]
  rw [hn]
  have hrow : ∀ i, i < G.length → (gridOf G).row i = some (match G[i]? with | some t => rowOf t | none => ⟨0, 0, [], [], [], 0, none, none⟩) := by
    intro i hi
    have hGi : G[i]? = some G[i] := by simp [hi]
    have e1 : (VArg.bc G.length (VArg.vec (G.map (·.2.2))))[i]? = some G[i].2.2 := by
      have := bc_vec_getElem? (G.map (·.2.2)) i
      rw [List.length_map] at this
      rw [this]; simp [hi]
    have e2 : (VArg.bc G.length (VArg.vec (G.map (·.2.1))))[i]? = some G[i].2.1 := by
      have := bc_vec_getElem? (G.map (·.2.1)) i
      rw [List.length_map] at this
      rw [this]; simp [hi]
    have e3 : ∀ (β : Type) (a : β), (VArg.bc G.length (VArg.scalar a))[i]? = some a := by
      intro β a; simp [VArg.bc, hi]
    simp only [GridIn.row, GridIn.n, gridOf, List.length_map, List.getElem?_map, hGi, Option.map_some, e1, e2, e3,
      Option.bind_eq_bind, Option.bind_some, rowOf]
  rw [filterMap_range_eq_map _ _ _ hrow]
  apply List.ext_getElem?
  intro i
  simp only [List.getElem?_map, List.getElem?_range]
  by_cases hi : i < G.length
  · simp [hi]
  · simp [hi, List.getElem?_eq_none (Nat.le_of_not_lt hi)]

/-- `sortById` on ids that already increase strictly is the identity -/
theorem insertById_last (p : Int × Int × Int) (l : List (Int × Int × Int)) (h : ∀ q ∈ l, q.1 < p.1) : insertById p l = l ++ [p] := by
  induction l with
  | nil => rfl
  | cons q r ih =>
      have hq : ¬ p.1 < q.1 := by have := h q (by simp); omega
      simp only [insertById, if_neg hq, List.cons_append]
      rw [ih (fun x hx => h x (by simp [hx]))]

theorem sortById_sorted (l : List (Int × Int × Int)) (h : l.Pairwise fun a b => a.1 < b.1) : sortById l = l := by
  unfold sortById
  have gen : ∀ (acc l : List (Int × Int × Int)), (acc ++ l).Pairwise (fun a b => a.1 < b.1) →
      l.foldl (fun acc p => insertById p acc) acc = acc ++ l := by
    intro acc l
    induction l generalizing acc with
    | nil => intro _; simp
    | cons p r ih =>
        intro hp
        have hlt : ∀ q ∈ acc, q.1 < p.1 := by
          intro q hq
          have := List.pairwise_append.mp hp
          exact this.2.2 q hq p (by simp)
        simp only [List.foldl_cons]
        rw [insertById_last p acc hlt, ih (acc ++ [p]) (by simpa using hp)]
        simp
  simpa using gen [] l (by simpa using h)

theorem mem_insertById (p q : Int × Int × Int) (l : List (Int × Int × Int)) : q ∈ insertById p l ↔ q = p ∨ q ∈ l := by
  induction l with
  | nil => simp [insertById]
  | cons a r ih =>
      unfold insertById
      split
      · simp
      · simp only [List.mem_cons, ih]
        constructor
        · rintro (h | h | h) <;> simp [h]
        · rintro (h | h | h) <;> simp [h]

theorem insertById_sorted (p : Int × Int × Int) (l : List (Int × Int × Int)) (h : l.Pairwise fun a b => a.1 ≤ b.1) :
    (insertById p l).Pairwise fun a b => a.1 ≤ b.1 := by
  induction l with
  | nil => simp [insertById]
  | cons a r ih =>
      have ha := (List.pairwise_cons.mp h).1
      have hr := (List.pairwise_cons.mp h).2
      unfold insertById
      split
      · rename_i hlt
        refine List.pairwise_cons.mpr ⟨?_, h⟩
        intro b hb
        rcases List.mem_cons.mp hb with rfl | hb
        · omega
        · have := ha b hb; omega
      · rename_i hge
        refine List.pairwise_cons.mpr ⟨?_, ih hr⟩
        intro b hb
        rcases (mem_insertById p b r).mp hb with rfl | hb
        · omega
        · exact ha b hb

/-- `sortById`: a list with the same members, ids ascending -/
theorem sortById_spec (l : List (Int × Int × Int)) :
    (sortById l).Pairwise (fun a b => a.1 ≤ b.1) ∧ (∀ q, q ∈ sortById l ↔ q ∈ l) ∧ (sortById l).length = l.length := by
  unfold sortById
  have gen : ∀ (l acc : List (Int × Int × Int)), acc.Pairwise (fun a b => a.1 ≤ b.1) →
      (l.foldl (fun acc p => insertById p acc) acc).Pairwise (fun a b => a.1 ≤ b.1) ∧
      (∀ q, q ∈ l.foldl (fun acc p => insertById p acc) acc ↔ q ∈ l ∨ q ∈ acc) ∧
      (l.foldl (fun acc p => insertById p acc) acc).length = l.length + acc.length := by
    intro l
    induction l with
    | nil => intro acc h; simp [h]
    | cons a r ih =>
        intro acc h
        obtain ⟨h1, h2, h3⟩ := ih (insertById a acc) (insertById_sorted a acc h)
        refine ⟨h1, fun q => ?_, ?_⟩
        · simp only [List.foldl_cons, h2, mem_insertById, List.mem_cons]
          constructor
          · rintro (h | h | h) <;> simp [h]
          · rintro ((h | h) | h) <;> simp [h]
        · simp only [List.foldl_cons, h3, List.length_cons]
          have : (insertById a acc).length = acc.length + 1 := by
            clear h1 h2 h3 ih h
            induction acc with
            | nil => rfl
            | cons b t iht => unfold insertById; split <;> simp [iht]
          omega
  obtain ⟨h1, h2, h3⟩ := gen l [] (by simp)
  exact ⟨h1, fun q => by simpa using h2 q, by simpa using h3⟩

theorem cordTypes_rows (cs : List CordIn) :
    cordTypes (cs.map CordIn.row) = some (cs.map fun c => (c.cid, c.ctype)) := by
  unfold cordTypes
  apply mapM_map_some
  intro c _
  simp [CordIn.row]

theorem gridTriple_vals (rs : List GRow) :
    (rs.map GRow.vals).mapM gridTriple = some (rs.map fun r => (r.id, r.cp, r.cd)) := by
  apply mapM_map_some
  intro r _
  simp [GRow.vals, gridTriple]

end PyYetiVerif.Bulk
