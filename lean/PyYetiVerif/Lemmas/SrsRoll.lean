import PyYetiVerif.Lemmas.SrsPipe
import PyYetiVerif.Model.SrsExt
/-! Helper lemmas for C03: the roll-off decision of `srs.srs` and the index bookkeeping
(`M`, `N`, `S`, `resp['t']`) after up-sampling. -/
set_option linter.unusedVariables false
set_option linter.unusedSimpArgs false
set_option linter.unusedSectionVars false
namespace PyYetiVerif.Srs

theorem rollFactor_real (ppc sr mf : ℝ) : rollFactor ppc sr mf = ⌈ppc / (sr / mf)⌉₊ := rfl

/-- when the roll-off triggers (`sr/mf < ppc`) the up-sampling factor is at least 2 … -/
theorem rollFactor_ge_two' (ppc sr mf : ℝ) (hsr : 0 < sr) (hmf : 0 < mf) (h : sr / mf < ppc) :
    2 ≤ rollFactor ppc sr mf := by
  rw [rollFactor_real]
  have hpos : 0 < sr / mf := by positivity
  have : (1 : ℝ) < ppc / (sr / mf) := by rwa [lt_div_iff₀ hpos, one_mul]
  have h1 : ((1 : ℕ) : ℝ) < ppc / (sr / mf) := by simpa using this
  exact Nat.succ_le_of_lt ((Nat.lt_ceil).mpr h1)

/-- … and the new sample rate meets the points-per-cycle requirement -/
theorem rollFactor_meets_ppc' (ppc sr mf : ℝ) (hsr : 0 < sr) (hmf : 0 < mf) :
    ppc ≤ sr * (rollFactor ppc sr mf : ℝ) / mf := by
  rw [rollFactor_real]
  have hpos : 0 < sr / mf := by positivity
  have h1 : ppc / (sr / mf) ≤ (⌈ppc / (sr / mf)⌉₊ : ℝ) := Nat.le_ceil _
  rw [div_le_iff₀ hpos] at h1
  calc ppc ≤ (⌈ppc / (sr / mf)⌉₊ : ℝ) * (sr / mf) := h1
    _ = sr * (⌈ppc / (sr / mf)⌉₊ : ℝ) / mf := by ring

theorem rollTriggers_iff' (roll : Roll) (ppc sr mf : ℝ) :
    rollTriggers roll ppc sr mf = true
      ↔ (roll = .linear ∨ roll = .fft ∨ roll = .lanczos) ∧ mf ≠ 0 ∧ sr / mf < ppc := by
  cases roll <;> simp [rollTriggers]

/-- `np.arange(M, N)` / `np.arange(N)` as one formula: `S, S+1, …, N-1` -/
theorem Index.samples_eq (ix : Index ℝ) (time : Time)
    (hS : ix.S = if time = .residual then ix.M else 0) :
    ix.samples time = List.range' ix.S (ix.N - ix.S) := by
  unfold Index.samples
  by_cases ht : time = .residual
  · simp [ht, hS]
  · simp [ht, hS, List.range_eq_range']

theorem srsIndex_spec' (roll : Roll) (time : Time) (ppc sr : ℝ) (freqs : List ℝ) (n M : ℕ) (sr' : ℝ)
    (h : rollStep roll ppc sr freqs n = some (M, sr')) :
    srsIndex roll time ppc sr freqs n
      = some ⟨sr', M, (if time = .primary then M else M + nzeros sr' freqs),
          (if time = .residual then M else 0)⟩ := by
  simp [srsIndex, h]

theorem rollStep_triggered' (roll : Roll) (ppc sr : ℝ) (freqs : List ℝ) (mf : ℝ) (n : ℕ)
    (hmf : maxFreq freqs = some mf) (hr : roll = .linear ∨ roll = .fft ∨ roll = .lanczos)
    (hmf0 : mf ≠ 0) (hlt : sr / mf < ppc) (hn : 1 < n) :
    rollStep roll ppc sr freqs n
      = some (rollLen roll n (rollFactor ppc sr mf), sr * (rollFactor ppc sr mf : ℝ)) := by
  have ht : rollTriggers roll ppc sr mf = true := (rollTriggers_iff' roll ppc sr mf).mpr ⟨hr, hmf0, hlt⟩
  have hp : roll ≠ .prefilter := by rcases hr with h | h | h <;> simp [h]
  simp [rollStep, hmf, hp, ht, hn]

theorem rollStep_untouched' (roll : Roll) (ppc sr : ℝ) (freqs : List ℝ) (mf : ℝ) (n : ℕ)
    (hmf : maxFreq freqs = some mf) (hp : roll ≠ .prefilter)
    (h : roll = .none ∨ mf = 0 ∨ ppc ≤ sr / mf ∨ n ≤ 1) :
    rollStep roll ppc sr freqs n = some (n, sr) := by
  have : (rollTriggers roll ppc sr mf && decide (1 < n)) = false := by
    rcases h with h | h | h | h
    · simp [h, rollTriggers]
    · cases roll <;> simp [rollTriggers, h]
    · cases roll <;> simp [rollTriggers, not_lt.mpr h]
    · simp [Nat.not_lt.mpr h]
  simp [rollStep, hmf, hp, this]

theorem processIc_length (ic : Ic) (st : SType) (s1 : ℝ) (sig : List ℝ) :
    (processIc ic st s1 sig).1.length = sig.length := by
  cases ic <;> simp [processIc]

/-- the history returned by the roll-off pipeline has exactly the samples the index model
lists: `ix.S, …, ix.N - 1` at the rate `ix.sr`, where `ix.M` is the length of the *resampled*
record -/
theorem srsRolled_index' (o : Opts) (roll : Roll) (up : List ℝ → ℕ → List ℝ) (ppc Q sr f : ℝ)
    (freqs sig : List ℝ) (r : List ℝ × ℝ)
    (hup : ∀ l k, (up l k).length = if roll = .prefilter then l.length else rollLen roll l.length k)
    (h : srsRolled o roll up ppc Q sr freqs f sig = some r) :
    ∃ ix, srsIndex roll o.time ppc sr freqs sig.length = some ix ∧
      r.1.length = ix.N - ix.S ∧ ix.samples o.time = List.range' ix.S (ix.N - ix.S) := by
  cases sig with
  | nil => simp [srsRolled] at h
  | cons s1 rest =>
    cases hmf : maxFreq freqs with
    | none => simp [srsRolled, hmf] at h
    | some mf =>
      simp only [srsRolled, hmf] at h
      have hlen := processIc_length o.ic o.st s1 (s1 :: rest)
      by_cases hp : roll = .prefilter
      · simp only [hp, if_true] at h
        by_cases hn : (s1 :: rest).length ≤ 12
        · rw [if_pos hn] at h
          exact absurd h (by simp)
        · rw [if_neg hn] at h
          have hw := window_lengths' o Q sr f s1 freqs _ _ r h
          have hu : (up (processIc o.ic o.st s1 (s1 :: rest)).1 1).length = (s1 :: rest).length := by
            rw [hup, hlen]; simp [hp]
          refine ⟨⟨sr, (s1 :: rest).length,
            (if o.time = .primary then (s1 :: rest).length else (s1 :: rest).length + nzeros sr freqs),
            (if o.time = .residual then (s1 :: rest).length else 0)⟩, ?_, ?_, ?_⟩
          · apply srsIndex_spec'
            unfold rollStep
            rw [hmf]
            simp only [hp, if_true, if_neg hn]
          · rw [hw, hu]
            cases o.time <;> simp
          · apply Index.samples_eq; rfl
      · simp only [hp, if_false] at h
        by_cases ht : (rollTriggers roll ppc sr mf && decide (1 < (s1 :: rest).length)) = true
        · rw [if_pos ht] at h
          have hw := window_lengths' o Q _ f s1 freqs _ _ r h
          have hu : (up (processIc o.ic o.st s1 (s1 :: rest)).1 (rollFactor ppc sr mf)).length
              = rollLen roll (s1 :: rest).length (rollFactor ppc sr mf) := by
            rw [hup, hlen]; simp [hp]
          refine ⟨⟨sr * (rollFactor ppc sr mf : ℝ), rollLen roll (s1 :: rest).length (rollFactor ppc sr mf),
            (if o.time = .primary then rollLen roll (s1 :: rest).length (rollFactor ppc sr mf)
              else rollLen roll (s1 :: rest).length (rollFactor ppc sr mf)
                + nzeros (sr * (rollFactor ppc sr mf : ℝ)) freqs),
            (if o.time = .residual then rollLen roll (s1 :: rest).length (rollFactor ppc sr mf) else 0)⟩,
            ?_, ?_, ?_⟩
          · apply srsIndex_spec'
            unfold rollStep
            rw [hmf]
            simp only [hp, if_false]
            rw [if_pos ht]
            rfl
          · rw [hw, hu]
            cases o.time <;> simp
          · apply Index.samples_eq; rfl
        · rw [if_neg ht] at h
          have hw := window_lengths' o Q sr f s1 freqs _ _ r h
          refine ⟨⟨sr, (s1 :: rest).length,
            (if o.time = .primary then (s1 :: rest).length else (s1 :: rest).length + nzeros sr freqs),
            (if o.time = .residual then (s1 :: rest).length else 0)⟩, ?_, ?_, ?_⟩
          · apply srsIndex_spec'
            unfold rollStep
            rw [hmf]
            simp only [hp, if_false]
            rw [if_neg ht]
          · rw [hw, hlen]
            cases o.time <;> simp
          · apply Index.samples_eq; rfl

/-- the window of `srsTail`: everything for `primary`/`total`, and for `residual` the part of
the response that starts where the (resampled) record `sg` ends -/
theorem srsTail_window' (o : Opts) (he : o.eqsine = false) (Q sr f s1 : ℝ) (freqs : List ℝ)
    (icv : Option ℝ) (sg : List ℝ) (r : List ℝ × ℝ) (h : srsTail o Q sr freqs f s1 icv sg = some r) :
    r.1 = (if o.time = .residual then List.drop sg.length else id)
      (addBack o.st (2 * TransOps.pi * f) icv
        (lfilter (o.st.coef Q (1 / sr) (2 * TransOps.pi * f))
          (if o.time = .primary then sg else addOneCycle o.ic s1 (nzeros sr freqs) sg))) := by
  simp only [srsTail, he] at h
  split at h
  · exact absurd h (by simp)
  · rename_i y ys hwin
    simp only [Bool.false_eq_true, if_false, Option.some.injEq] at h
    rw [← h]
    by_cases ht : o.time = .residual <;> simp [ht]

end PyYetiVerif.Srs
