import PyYetiVerif.Model.FixtimeFull
import PyYetiVerif.Lemmas.FixtimeTnew
import PyYetiVerif.Lemmas.FixtimeDrops
import PyYetiVerif.Lemmas.Fixtime
import Mathlib.Tactic.Linarith
import Mathlib.Tactic.Ring
import Mathlib.Tactic.FieldSimp
import Mathlib.Tactic.Positivity
/-! Helper lemmas for C19: `fixtime` as a whole (`_sr_calcs`, `base`, `_find_drops`, `_del_loners`,
`_del_outtimes` membership, totality and shift bound of `_mk_initial_tnew`). -/
namespace PyYetiVerif.Fixtime

theorem absQ_eq_abs (x : ℚ) : absQ x = |x| := by
  unfold absQ
  split_ifs with h
  · rw [abs_of_neg h]
  · rw [abs_of_nonneg (not_lt.mp h)]

/-! ### `_sr_calcs` -/

theorem roundHalfEven_int_mul (k : ℤ) (d : ℚ) (hd : d ≠ 0) :
    roundHalfEven ((k : ℚ) * d / d) = k := by
  have e : (k : ℚ) * d / d = (k : ℚ) := by field_simp
  rw [e]
  unfold roundHalfEven
  have hf : (k : ℚ).floor = k := Rat.floor_intCast k
  simp only [hf]
  norm_num

theorem srResolution_pos (sr1 : ℚ) : 0 < srResolution sr1 := by
  unfold srResolution
  split_ifs with h1 h2
  · norm_num
  · -- round(10 * (1/10)) = round 1 = 1
    have e : (10 : ℚ) * (1 / 10) = ((1 : ℤ) : ℚ) := by norm_num
    rw [e]
    have : roundHalfEven (((1 : ℤ) : ℚ)) = 1 := by
      have := roundHalfEven_int_mul 1 1 one_ne_zero
      simpa using this
    rw [this]; norm_num
  · have hx : (1 : ℚ) ≤ 10 * sr1 := by
      have := not_lt.mp h2
      linarith
    have hs := roundHalfEven_spec (10 * sr1)
    rw [abs_le] at hs
    have hr : (1 : ℚ) / 2 ≤ ((roundHalfEven (10 * sr1) : ℤ) : ℚ) := by linarith [hs.1]
    have hz : (0 : ℤ) < roundHalfEven (10 * sr1) := by
      by_contra hc
      have : ((roundHalfEven (10 * sr1) : ℤ) : ℚ) ≤ 0 := by exact_mod_cast not_lt.mp hc
      linarith
    have : (0 : ℚ) < ((roundHalfEven (10 * sr1) : ℤ) : ℚ) := by exact_mod_cast hz
    positivity

/-- the resolution is `5` or a positive number of tenths -/
theorem srResolution_values (sr1 : ℚ) :
    srResolution sr1 = 5 ∨ ∃ j : ℤ, 0 < j ∧ srResolution sr1 = (j : ℚ) / 10 := by
  by_cases h : 5 < sr1
  · left; unfold srResolution; rw [if_pos h]
  · right
    have hp := srResolution_pos sr1
    unfold srResolution at hp ⊢
    rw [if_neg h] at hp ⊢
    refine ⟨_, ?_, rfl⟩
    by_contra hc
    have : ((roundHalfEven (10 * if sr1 < 1 / 10 then 1 / 10 else sr1) : ℤ) : ℚ) ≤ 0 := by
      exact_mod_cast not_lt.mp hc
    have : ((roundHalfEven (10 * if sr1 < 1 / 10 then 1 / 10 else sr1) : ℤ) : ℚ) / 10 ≤ 0 := by
      apply div_nonpos_of_nonpos_of_nonneg this; norm_num
    linarith

/-- what `_sr_calcs` hands to `sr='auto'`, in terms of its own statistics -/
theorem srCalcs_defsr (difft : List ℚ) (st : SrStats) (h : srCalcs difft = some st) :
    0 < st.dsr ∧
      (st.byMode = true ↔ (90 < st.modePct ∨ |st.modeSr - st.aveSr| < st.dsr)) ∧
      (st.byMode = true → st.defsr = st.modeSr) ∧
      (st.byMode = false → |st.defsr - st.aveSr| ≤ st.dsr / 2) ∧
      (∃ k : ℤ, st.defsr = (k : ℚ) * st.dsr) ∧ (∃ k : ℤ, st.modeSr = (k : ℚ) * st.dsr) := by
  unfold srCalcs at h
  split at h
  · rename_i mn mx _ _
    simp only at h
    split at h
    · exact absurd h (by simp)
    · rename_i sr1 _
      split at h
      · exact absurd h (by simp)
      · rename_i k c _
        have hd := srResolution_pos sr1
        have hd0 : srResolution sr1 ≠ 0 := ne_of_gt hd
        injection h with h
        subst h
        simp only
        refine ⟨hd, ?_, ?_, ?_, ?_, ⟨k, rfl⟩⟩
        · simp [absQ_eq_abs]
        · intro hb
          rw [if_pos hb, roundHalfEven_int_mul k _ hd0]
        · intro hb
          rw [if_neg (by rw [hb]; decide)]
          have hs := roundHalfEven_spec (1 / (sumQ difft / (difft.length : ℚ)) / srResolution sr1)
          generalize roundHalfEven (1 / (sumQ difft / (difft.length : ℚ)) / srResolution sr1) = R at hs ⊢
          generalize (1 / (sumQ difft / (difft.length : ℚ))) = a at hs ⊢
          have e : (R : ℚ) * srResolution sr1 - a = ((R : ℚ) - a / srResolution sr1) * srResolution sr1 := by
            field_simp
          rw [e, abs_mul, abs_of_pos hd]
          calc |(R : ℚ) - a / srResolution sr1| * srResolution sr1 ≤ 1 / 2 * srResolution sr1 :=
                mul_le_mul_of_nonneg_right hs hd.le
            _ = srResolution sr1 / 2 := by ring
        · by_cases hb : (decide (90 < (c : ℚ) / (difft.length : ℚ) * 100) ||
              decide (absQ ((k : ℚ) * srResolution sr1 - 1 / (sumQ difft / (difft.length : ℚ))) < srResolution sr1)) = true
          · rw [if_pos hb]; exact ⟨_, rfl⟩
          · rw [if_neg hb]; exact ⟨_, rfl⟩
  · exact absurd h (by simp)

/-! ### `base` -/

/-- the `base` shift is at most half a step and puts `base` on the (extended) grid -/
theorem baseShift_spec (t0 base sr : ℚ) (hsr : 0 < sr) :
    |baseShift t0 base sr| ≤ 1 / (2 * sr) ∧
      ∃ k : ℤ, t0 + baseShift t0 base sr + (k : ℚ) / sr = base := by
  unfold baseShift
  have hs := roundHalfEven_spec ((base - t0) * sr)
  generalize roundHalfEven ((base - t0) * sr) = R at hs ⊢
  refine ⟨?_, R, by ring⟩
  have e : base - t0 - (R : ℚ) / sr = -(((R : ℚ) - (base - t0) * sr) / sr) := by
    field_simp; ring
  rw [e, abs_neg, abs_div, abs_of_pos hsr, div_le_div_iff₀ hsr (by positivity)]
  calc |(R : ℚ) - (base - t0) * sr| * (2 * sr) ≤ 1 / 2 * (2 * sr) :=
        mul_le_mul_of_nonneg_right hs (by positivity)
    _ = 1 * sr := by ring

/-! ### `_find_drops` -/

theorem findDrops_getElem (d : List Sample) (dv : Option ℚ) (i : Nat) (hi : i < d.length) :
    (findDrops d dv)[i]'(by simpa [findDrops] using hi) = true ↔
      d[i] = Sample.nan ∨ d[i] = Sample.inf ∨
        ∃ x v, d[i] = Sample.fin x ∧ dv = some v ∧ |x - v| < |v| / 100 := by
  unfold findDrops
  rw [List.getElem_map]
  cases hdi : d[i] with
  | nan => simp
  | inf => simp
  | fin x =>
    cases dv with
    | none => simp
    | some v => simp [absQ_eq_abs]

end PyYetiVerif.Fixtime
