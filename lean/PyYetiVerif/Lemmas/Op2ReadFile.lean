import PyYetiVerif.Lemmas.Op2ReadDir
/-! C11: reading the data blocks of an encoded file from their directory positions; `rdop2mats`. -/
namespace PyYetiVerif.Op2R
open PyYetiVerif.Op4 PyYetiVerif.Op2
open PyYetiVerif.Op4V (leBytes natBytes intBytes)

/-! ### reading a block from its start -/

def matCplx (m : MatBlock) : Bool := decide (m.trailer[4]?.getD 0 > 2)
/-- stored reals per column (trailer[2] rows, two reals per complex element) -/
def matRows (m : MatBlock) : Nat := rowsEff (matCplx m) (m.trailer[2]?.getD (0 : Int)).toNat

/-- the matrix an encoded matrix block stands for: every string put at its row -/
def matOf (v : V2) (m : MatBlock) : Mat :=
  ⟨matRows m, matCplx m, realBytes v m.single, m.cols.map (putCol (matCplx m) (List.replicate (matRows m) 0))⟩

def contentOf (v : V2) : Block → Content
  | .mat m => .mat (matOf v m)
  | .tab t => .tab (t.records.map List.flatten)

def ntOf : Block → NT
  | .mat m => ⟨validname m.name, m.trailer, 1⟩
  | .tab t => ⟨validname t.name, t.trailer, 0⟩

/-- what reading the content of a block needs beyond `BlockOk`: the trailer of a matrix is consistent with
its columns (`trailer[1]` = number of columns, `trailer[2]` = rows ≥ 0, `trailer[4]` odd iff single
precision) and every string is admissible (`StrOk`: row ≥ 1, fits into the column, bit patterns of the
stored width) -/
def ContentOk (v : V2) : Block → Prop
  | .mat m => (0 : Int) ≤ m.trailer[2]?.getD 0 ∧ m.trailer[1]? = some (m.cols.length : Int) ∧
      m.single = decide (m.trailer[4]?.getD 0 % 2 = 1) ∧
      ∀ strs ∈ m.cols, ∀ s ∈ strs, StrOk v m.single (matCplx m) (matRows m) s
  | .tab _ => True

instance (v : V2) (b : Block) : Decidable (ContentOk v b) := by
  cases b <;> unfold ContentOk <;> exact inferInstance

theorem rdBlock_enc (v : V2) (b : Block) (rest : List Nat) (hb : BlockOk v b) (hc : ContentOk v b) :
    rdBlock v (encBlock v b ++ rest) = .ok (some (ntOf b, contentOf v b), rest) := by
  cases b with
  | mat m =>
    obtain ⟨htl, htk, hn, hne, hnc, _⟩ := hb
    obtain ⟨h0, h1, hs, hok⟩ := hc
    obtain ⟨x2, h2⟩ := getElem?_of_length7 m.trailer htl 2 (by omega)
    obtain ⟨x4, h4⟩ := getElem?_of_length7 m.trailer htl 4 (by omega)
    have hx2 : x2 = ((x2.toNat : Nat) : Int) := by
      rw [h2] at h0; simp only [Option.getD_some] at h0; omega
    have h2' : m.trailer[2]? = some ((x2.toNat : Nat) : Int) := by rw [h2, ← hx2]
    have hmat := rdMatrix_enc v m.single (matCplx m) m.trailer x2.toNat m.cols.length x4 m.cols rest h2' h4 h1
      (by rw [hs, h4]; rfl) (by unfold matCplx; rw [h4]; rfl) hne rfl hnc
      (by unfold matRows at hok; rw [h2] at hok; exact hok)
    simp only [encBlock, List.append_assoc]
    simp only [rdBlock, rdNT_blockHead v m.name m.trailer 1 _ htl htk (inKey_small v 1 (by omega) (by omega)) hn,
      show ((1 : Int) > 0) = True by simp, if_true, hmat, ntOf, contentOf, matOf, matRows, h2, Option.getD_some]
  | tab t =>
    obtain ⟨htl, htk, hn, htab, _⟩ := hb
    have hfuel : t.records.length < (encTabRecs v 0 t.records ++ (K v 0 ++ rest)).length + 1 := by
      have := length_encTabRecs v t.records 0
      rw [List.length_append]; omega
    simp only [encBlock, List.append_assoc]
    simp only [rdBlock, rdNT_blockHead v t.name t.trailer 0 _ htl htk (inKey_small v 0 (by omega) (by omega)) hn,
      show ((0 : Int) > 0) = False by simp, if_false, rdRecords_enc v rest t.records 0 _ htab hfuel, ntOf, contentOf]

theorem entriesFrom_append (v : V2) : ∀ (pre : List Block) (b : Block) (post : List Block) (p : Nat),
    entriesFrom v p (pre ++ b :: post)
      = entriesFrom v p pre ++ entryOf v b (p + (pre.flatMap (encBlock v)).length)
          (p + (pre.flatMap (encBlock v)).length + (encBlock v b).length) ::
          entriesFrom v (p + (pre.flatMap (encBlock v)).length + (encBlock v b).length) post := by
  intro pre
  induction pre with
  | nil => intro b post p; simp [entriesFrom]
  | cons a t ih =>
    intro b post p
    simp only [List.cons_append, entriesFrom, ih, List.flatMap_cons, List.length_append, Nat.add_assoc]

/-- the bytes of the file from the start of a block on -/
theorem drop_start (v : V2) (date : List Int) (label : List Nat) (pre : List Block) (b : Block) (post : List Block) :
    (encOp2 v date label (pre ++ b :: post)).drop ((header v date label).length + (pre.flatMap (encBlock v)).length)
      = encBlock v b ++ (post.flatMap (encBlock v) ++ K v 0) := by
  have : encOp2 v date label (pre ++ b :: post)
      = (header v date label ++ pre.flatMap (encBlock v)) ++ (encBlock v b ++ (post.flatMap (encBlock v) ++ K v 0)) := by
    simp only [encOp2, List.flatMap_append, List.flatMap_cons, List.append_assoc]
  rw [this]
  exact List.drop_left' (by rw [List.length_append])

/-- the bytes of the file behind a block -/
theorem drop_stop (v : V2) (date : List Int) (label : List Nat) (pre : List Block) (b : Block) (post : List Block) :
    (encOp2 v date label (pre ++ b :: post)).drop
        ((header v date label).length + (pre.flatMap (encBlock v)).length + (encBlock v b).length)
      = post.flatMap (encBlock v) ++ K v 0 := by
  have : encOp2 v date label (pre ++ b :: post)
      = (header v date label ++ pre.flatMap (encBlock v) ++ encBlock v b) ++ (post.flatMap (encBlock v) ++ K v 0) := by
    simp only [encOp2, List.flatMap_append, List.flatMap_cons, List.append_assoc]
  rw [this]
  exact List.drop_left' (by simp only [List.length_append])

theorem length_entriesFrom (v : V2) : ∀ (bs : List Block) (p : Nat), (entriesFrom v p bs).length = bs.length := by
  intro bs
  induction bs with
  | nil => intro p; rfl
  | cons b r ih => intro p; simp only [entriesFrom, List.length_cons, ih]

/-! ### `rdop2mats` -/

def matBlocks : List Block → List MatBlock
  | [] => []
  | .mat m :: r => m :: matBlocks r
  | .tab _ :: r => matBlocks r

def vname (m : MatBlock) : List Nat := validname m.name

/-- the last matrix block carrying the name `n` -/
def lastNamed (ms : List MatBlock) (n : List Nat) : Option MatBlock := (ms.filter fun m => vname m == n).getLast?

/-- what `rdop2mats()` has to return: the distinct matrix names in order of first appearance, each with the
matrix of the LAST block of that name -/
def lastMats (v : V2) (bs : List Block) : List (List Nat × Mat) :=
  (getUnique [] ((matBlocks bs).map vname)).filterMap fun n => (lastNamed (matBlocks bs) n).map fun m => (n, matOf v m)

/-- matrix blocks with their byte ranges -/
def matPos (v : V2) : Nat → List Block → List (MatBlock × Nat × Nat)
  | _, [] => []
  | p, .mat m :: r => (m, p, p + (encBlock v (.mat m)).length) :: matPos v (p + (encBlock v (.mat m)).length) r
  | p, .tab t :: r => matPos v (p + (encBlock v (.tab t)).length) r

def toE (v : V2) (t : MatBlock × Nat × Nat) : Entry := entryOf v (.mat t.1) t.2.1 t.2.2

theorem filter_entries (v : V2) : ∀ (bs : List Block) (p : Nat),
    (entriesFrom v p bs).filter (·.dbtype == 1) = (matPos v p bs).map (toE v) := by
  intro bs
  induction bs with
  | nil => intro p; rfl
  | cons b r ih =>
    intro p
    cases b with
    | mat m =>
      have : ((entryOf v (.mat m) p (p + (encBlock v (.mat m)).length)).dbtype == 1) = true := rfl
      simp only [entriesFrom, matPos, List.filter_cons, this, if_true, ih, List.map_cons, toE]
    | tab t =>
      have : ((entryOf v (.tab t) p (p + (encBlock v (.tab t)).length)).dbtype == 1) = false := rfl
      simp only [entriesFrom, matPos, List.filter_cons, this, Bool.false_eq_true, if_false, ih]

theorem matPos_fst (v : V2) : ∀ (bs : List Block) (p : Nat), (matPos v p bs).map (·.1) = matBlocks bs := by
  intro bs
  induction bs with
  | nil => intro p; rfl
  | cons b r ih =>
    intro p
    cases b <;> simp only [matPos, matBlocks, List.map_cons, ih]

theorem matPos_mem (v : V2) : ∀ (bs : List Block) (p : Nat) (t : MatBlock × Nat × Nat), t ∈ matPos v p bs →
    ∃ pre post, bs = pre ++ .mat t.1 :: post ∧ t.2.1 = p + (pre.flatMap (encBlock v)).length := by
  intro bs
  induction bs with
  | nil => intro p t h; simp [matPos] at h
  | cons b r ih =>
    intro p t h
    cases b with
    | mat m =>
      simp only [matPos, List.mem_cons] at h
      rcases h with rfl | h
      · exact ⟨[], r, rfl, by simp⟩
      · obtain ⟨pre, post, h1, h2⟩ := ih _ t h
        exact ⟨.mat m :: pre, post, by rw [h1]; rfl, by
          rw [h2]; simp only [List.flatMap_cons, List.length_append]; omega⟩
    | tab tb =>
      simp only [matPos] at h
      obtain ⟨pre, post, h1, h2⟩ := ih _ t h
      exact ⟨.tab tb :: pre, post, by rw [h1]; rfl, by
        rw [h2]; simp only [List.flatMap_cons, List.length_append]; omega⟩

theorem rdMat_enc (v : V2) (date : List Int) (label : List Nat) (bs : List Block)
    (hb : ∀ b ∈ bs, BlockOk v b) (hc : ∀ b ∈ bs, ContentOk v b) (t : MatBlock × Nat × Nat)
    (ht : t ∈ matPos v (header v date label).length bs) :
    rdMat v (encOp2 v date label bs) (toE v t) = .ok (matOf v t.1) := by
  obtain ⟨pre, post, h1, h2⟩ := matPos_mem v bs _ t ht
  have hmem : Block.mat t.1 ∈ bs := by rw [h1]; simp
  have hblk := rdBlock_enc v (.mat t.1) (post.flatMap (encBlock v) ++ K v 0) (hb _ hmem) (hc _ hmem)
  have hdrop := drop_start v date label pre (.mat t.1) post
  rw [← h1, ← h2] at hdrop
  obtain ⟨htl, htk, hn, _⟩ := hb _ hmem
  unfold rdBlock at hblk
  simp only [encBlock, List.append_assoc] at hblk hdrop
  simp only [rdNT_blockHead v t.1.name t.1.trailer 1 _ htl htk (inKey_small v 1 (by omega) (by omega)) hn,
    show ((1 : Int) > 0) = True by simp, if_true] at hblk
  unfold rdMat
  simp only [toE, entryOf, hdrop,
    rdNT_blockHead v t.1.name t.1.trailer 1 _ htl htk (inKey_small v 1 (by omega) (by omega)) hn]
  cases hm : rdMatrix v t.1.trailer
      (encMatCols v t.1.single t.1.cols.length 0 t.1.cols ++ (K v 0 ++ (post.flatMap (encBlock v) ++ K v 0))) with
  | error e => rw [hm] at hblk; exact absurd hblk (by simp)
  | ok r =>
    rw [hm] at hblk
    obtain ⟨m', s'⟩ := r
    simp only [contentOf, Except.ok.injEq, Prod.mk.injEq, Option.some.injEq, Content.mat.injEq] at hblk
    rw [hblk.1.2]

theorem mem_getUnique : ∀ (l seen : List (List Nat)) (n : List Nat), n ∈ getUnique seen l → n ∈ l := by
  intro l
  induction l with
  | nil => intro seen n h; simp [getUnique] at h
  | cons a t ih =>
    intro seen n h
    simp only [getUnique] at h
    split at h
    · exact List.mem_cons_of_mem _ (ih _ n h)
    · rcases List.mem_cons.1 h with rfl | h
      · exact List.mem_cons_self
      · exact List.mem_cons_of_mem _ (ih _ n h)

theorem mapME_filterMap {α β} (F : α → M β) (h : α → Option β) : ∀ (l : List α),
    (∀ n ∈ l, ∃ y, h n = some y ∧ F n = .ok y) → mapME F l = .ok (l.filterMap h) := by
  intro l
  induction l with
  | nil => intro _; rfl
  | cons a t ih =>
    intro hl
    obtain ⟨y, h1, h2⟩ := hl a List.mem_cons_self
    have := ih (fun n hn => hl n (List.mem_cons_of_mem _ hn))
    simp only [mapME, h2, this, List.filterMap_cons, h1]

theorem rdMats_enc (v : V2) (date : List Int) (label : List Nat) (bs : List Block)
    (hb : ∀ b ∈ bs, BlockOk v b) (hc : ∀ b ∈ bs, ContentOk v b) :
    rdMats v (encOp2 v date label bs) (entriesFrom v (header v date label).length bs) = .ok (lastMats v bs) := by
  unfold rdMats lastMats
  simp only [filter_entries]
  have hnames : ((matPos v (header v date label).length bs).map (toE v)).map (fun x => x.name)
      = (matBlocks bs).map vname := by
    rw [← matPos_fst v bs (header v date label).length, List.map_map, List.map_map]
    rfl
  rw [hnames]
  apply mapME_filterMap
  intro n hn
  have hn' := mem_getUnique _ _ n hn
  rw [← matPos_fst v bs (header v date label).length, List.map_map] at hn'
  obtain ⟨t0, ht0, hname0⟩ := List.mem_map.1 hn'
  -- the entries of that name are the images of the matrix blocks of that name
  have hfil : ((matPos v (header v date label).length bs).map (toE v)).filter (fun x => x.name == n)
      = ((matPos v (header v date label).length bs).filter (fun t => vname t.1 == n)).map (toE v) := by
    rw [List.filter_map]; rfl
  have hne : (matPos v (header v date label).length bs).filter (fun t => vname t.1 == n) ≠ [] := by
    intro h
    have : t0 ∈ (matPos v (header v date label).length bs).filter (fun t => vname t.1 == n) :=
      List.mem_filter.2 ⟨ht0, by simpa using hname0⟩
    rw [h] at this; simp at this
  obtain ⟨t, hlast⟩ : ∃ t, ((matPos v (header v date label).length bs).filter (fun t => vname t.1 == n)).getLast? = some t := by
    cases hg : ((matPos v (header v date label).length bs).filter (fun t => vname t.1 == n)).getLast? with
    | none => exact absurd (List.getLast?_eq_none_iff.1 hg) hne
    | some t => exact ⟨t, rfl⟩
  have htm : t ∈ matPos v (header v date label).length bs :=
    (List.mem_filter.1 (List.mem_of_getLast? hlast)).1
  refine ⟨(n, matOf v t.1), ?_, ?_⟩
  · have : lastNamed (matBlocks bs) n = some t.1 := by
      unfold lastNamed
      rw [← matPos_fst v bs (header v date label).length, List.filter_map, List.getLast?_map]
      have : ((fun m => vname m == n) ∘ fun (x : MatBlock × Nat × Nat) => x.1) = fun t => vname t.1 == n := rfl
      rw [this, hlast]; rfl
    rw [this]; rfl
  · rw [hfil, List.getLast?_map, hlast]
    simp only [Option.map_some, rdMat_enc v date label bs hb hc t htm]

theorem filterMap_fst {α β} (h : α → Option (α × β)) : ∀ (l : List α),
    (∀ n ∈ l, ∃ y, h n = some (n, y)) → (l.filterMap h).map (·.1) = l := by
  intro l
  induction l with
  | nil => intro _; rfl
  | cons a t ih =>
    intro hl
    obtain ⟨y, hy⟩ := hl a List.mem_cons_self
    simp only [List.filterMap_cons, hy, List.map_cons, ih (fun n hn => hl n (List.mem_cons_of_mem _ hn))]

/-- every distinct matrix name occurs in `lastMats`, in the order of first appearance -/
theorem lastMats_names (v : V2) (bs : List Block) :
    (lastMats v bs).map (·.1) = getUnique [] ((matBlocks bs).map vname) := by
  unfold lastMats
  apply filterMap_fst
  intro n hn
  have hn' := mem_getUnique _ _ n hn
  obtain ⟨m0, hm0, hname0⟩ := List.mem_map.1 hn'
  have hne : (matBlocks bs).filter (fun m => vname m == n) ≠ [] := by
    intro h
    have : m0 ∈ (matBlocks bs).filter (fun m => vname m == n) := List.mem_filter.2 ⟨hm0, by simpa using hname0⟩
    rw [h] at this; simp at this
  unfold lastNamed
  cases hg : ((matBlocks bs).filter (fun m => vname m == n)).getLast? with
  | none => exact absurd (List.getLast?_eq_none_iff.1 hg) hne
  | some m => exact ⟨matOf v m, rfl⟩

theorem map_eq_of_zip {α β} (f : β → α) : ∀ (target : List α) (cols : List β), target.length = cols.length →
    (∀ p ∈ target.zip cols, f p.2 = p.1) → cols.map f = target := by
  intro target
  induction target with
  | nil => intro cols hl _; cases cols with
    | nil => rfl
    | cons _ _ => simp at hl
  | cons a t ih =>
    intro cols hl hp
    cases cols with
    | nil => simp at hl
    | cons c cs =>
      have h1 := hp (a, c) (by simp)
      simp only [List.map_cons, h1]
      congr 1
      exact ih cs (by simpa using hl) (fun p hpm => hp p (by simp only [List.zip_cons_cons, List.mem_cons]; exact Or.inr hpm))

/-! ### `goto_next` -/

theorem entryOf_start (v : V2) (b : Block) (p q : Nat) : (entryOf v b p q).start = p := by cases b <;> rfl
theorem entryOf_stop (v : V2) (b : Block) (p q : Nat) : (entryOf v b p q).stop = q := by cases b <;> rfl

theorem entriesFrom_start_lt (v : V2) : ∀ (l : List Block) (p : Nat) (x : Entry), x ∈ entriesFrom v p l →
    x.start < p + (l.flatMap (encBlock v)).length := by
  intro l
  induction l with
  | nil => intro p x h; simp [entriesFrom] at h
  | cons b r ih =>
    intro p x h
    have hb := length_encBlock_pos v b
    simp only [entriesFrom, List.mem_cons] at h
    simp only [List.flatMap_cons, List.length_append]
    rcases h with rfl | h
    · rw [entryOf_start]; omega
    · have := ih _ x h; omega

/-- from the start of a block, `goto_next` positions the file at the start of the next block, i.e. at the
stop of this one (for the last block: at its stop) -/
theorem gotoNext_enc (v : V2) (p : Nat) (pre : List Block) (b : Block) (post : List Block) :
    gotoNext (entriesFrom v p (pre ++ b :: post)) (p + (pre.flatMap (encBlock v)).length)
      = .ok (p + (pre.flatMap (encBlock v)).length + (encBlock v b).length) := by
  have hb := length_encBlock_pos v b
  rw [entriesFrom_append]
  unfold gotoNext nextDbInfo
  have hpre : (entriesFrom v p pre).find? (fun x => decide (p + (pre.flatMap (encBlock v)).length < x.start)) = none := by
    rw [List.find?_eq_none]
    intro x hx
    have := entriesFrom_start_lt v pre p x hx
    simp only [decide_eq_true_eq]; omega
  rw [List.find?_append, hpre, Option.none_or, List.find?_cons]
  have hself : decide (p + (pre.flatMap (encBlock v)).length <
      (entryOf v b (p + (pre.flatMap (encBlock v)).length)
        (p + (pre.flatMap (encBlock v)).length + (encBlock v b).length)).start) = false := by
    rw [entryOf_start]; simp
  rw [hself]
  cases post with
  | nil =>
    simp only [entriesFrom, List.find?_nil]
    rw [List.getLast?_append, List.getLast?_singleton]
    simp only [Option.some_or, entryOf_stop]
  | cons c r =>
    simp only [entriesFrom, List.find?_cons]
    have : decide (p + (pre.flatMap (encBlock v)).length <
        (entryOf v c (p + (pre.flatMap (encBlock v)).length + (encBlock v b).length)
          (p + (pre.flatMap (encBlock v)).length + (encBlock v b).length + (encBlock v c).length)).start) = true := by
      rw [entryOf_start]; simp only [decide_eq_true_eq]; omega
    rw [this]
    simp only [entryOf_start]
end PyYetiVerif.Op2R
