import PyYetiVerif.Lemmas.BulkMulti
import PyYetiVerif.Lemmas.BulkSetMulti
import PyYetiVerif.Lemmas.BulkInts
/-! `FileOK` for files ASSEMBLED from written blocks (C13; core Lean only): `FileOK` follows from a condition on each
segment alone when every segment begins with a line that is no continuation line in any syntax — so the order of the
blocks does not matter. -/
namespace PyYetiVerif.Bulk

/-- the part of `FileOK` that concerns one segment alone; a junk block additionally begins with a line that is not a
continuation line of any syntax (the first line of a card never is) -/
def SegLocalOK (ps : List (Txt → Bool)) : Seg → Prop
  | .card o f cs =>
      (∀ k, k < ps.length → (ps.getD k fun _ => false) f = decide (k = o)) ∧
      (isCont .comma f = false ∧ isCont .f8 f = false ∧ isCont .f16 f = false) ∧
      (∀ l ∈ cs, isCont (modeOf f) l = true ∧ ∀ k, k < ps.length → (ps.getD k fun _ => false) l = false)
  | .junk ls =>
      (∀ l ∈ ls, ∀ k, k < ps.length → (ps.getD k fun _ => false) l = false) ∧
      (∀ x, ls.head? = some x → ∀ m, isCont m x = false)

theorem head_noCont (ps : List (Txt → Bool)) : ∀ segs : List Seg, (∀ s ∈ segs, SegLocalOK ps s) →
    ∀ x, (fileOf segs).head? = some x → ∀ m, isCont m x = false := by
  intro segs
  induction segs with
  | nil => intro _ x hx; simp [fileOf] at hx
  | cons s r ih =>
      intro h x hx m
      rw [fileOf_cons] at hx
      have hs := h s (by simp)
      cases s with
      | card o f cs =>
          simp only [Seg.lines, List.cons_append, List.head?_cons, Option.some.injEq] at hx
          subst hx
          obtain ⟨_, ⟨h1, h2, h3⟩, _⟩ := hs
          cases m <;> assumption
      | junk ls =>
          cases ls with
          | nil =>
              simp only [Seg.lines, List.nil_append] at hx
              exact ih (fun s hs => h s (by simp [hs])) x hx m
          | cons l ls' =>
              simp only [Seg.lines, List.cons_append, List.head?_cons, Option.some.injEq] at hx
              subst hx
              exact hs.2 l rfl m

/-- **assembly**: segments that are each well formed alone make a well-formed file, in ANY order -/
theorem fileOK_of_local (ps : List (Txt → Bool)) : ∀ segs : List Seg, (∀ s ∈ segs, SegLocalOK ps s) → FileOK ps segs := by
  intro segs
  induction segs with
  | nil => intro _; trivial
  | cons s r ih =>
      intro h
      have hr : ∀ s ∈ r, SegLocalOK ps s := fun s hs => h s (by simp [hs])
      have hs := h s (by simp)
      cases s with
      | card o f cs =>
          obtain ⟨h1, h2, h3⟩ := hs
          exact ⟨h1, h2, h3, fun x hx => head_noCont ps r hr x hx _, ih hr⟩
      | junk ls => exact ⟨hs.1, ih hr⟩

/-! ### what the readers' matchers say about a line, from its first eight characters -/

theorem isCont_of_head (c : Char) (r : Txt) (h : c ≠ ' ' ∧ c ≠ '+' ∧ c ≠ ',' ∧ c ≠ '*') :
    ∀ m, isCont m (c :: r) = false := by
  obtain ⟨h1, h2, h3, h4⟩ := h
  intro m
  cases m <;> simp [isCont, Mode.conchar, h1, h2, h3, h4]

theorem isCont_nil (m : Mode) : isCont m [] = false := rfl

theorem noMatch_blanks8 (x : Txt) : ∀ k, k < bulkReaders.length → (bulkReaders.getD k fun _ => false) (blanks 8 ++ x) = false := by
  intro k hk
  have e : blanks 8 ++ x = ' ' :: ' ' :: ' ' :: ' ' :: ' ' :: ' ' :: ' ' :: ' ' :: x := rfl
  rw [e]
  have : k = 0 ∨ k = 1 ∨ k = 2 ∨ k = 3 ∨ k = 4 ∨ k = 5 ∨ k = 6 := by
    have : bulkReaders.length = 7 := rfl
    omega
  rcases this with rfl | rfl | rfl | rfl | rfl | rfl | rfl <;> rfl

theorem match_csuper (x : Txt) : ∀ k, k < bulkReaders.length →
    (bulkReaders.getD k fun _ => false) (txt "CSUPER  " ++ x) = decide (k = 4) := by
  intro k hk
  have e : txt "CSUPER  " ++ x = 'C' :: 'S' :: 'U' :: 'P' :: 'E' :: 'R' :: ' ' :: ' ' :: x := rfl
  rw [e]
  have : k = 0 ∨ k = 1 ∨ k = 2 ∨ k = 3 ∨ k = 4 ∨ k = 5 ∨ k = 6 := by
    have : bulkReaders.length = 7 := rfl
    omega
  rcases this with rfl | rfl | rfl | rfl | rfl | rfl | rfl <;> rfl

theorem match_extrn (x : Txt) : ∀ k, k < bulkReaders.length →
    (bulkReaders.getD k fun _ => false) (txt "EXTRN   " ++ x) = decide (k = 5) := by
  intro k hk
  have e : txt "EXTRN   " ++ x = 'E' :: 'X' :: 'T' :: 'R' :: 'N' :: ' ' :: ' ' :: ' ' :: x := rfl
  rw [e]
  have : k = 0 ∨ k = 1 ∨ k = 2 ∨ k = 3 ∨ k = 4 ∨ k = 5 ∨ k = 6 := by
    have : bulkReaders.length = 7 := rfl
    omega
  rcases this with rfl | rfl | rfl | rfl | rfl | rfl | rfl <;> rfl

end PyYetiVerif.Bulk
