import PyYetiVerif.Model.Op4VariantsAscii
/-! C11: on EVERY text on which the ASCII reader model succeeds, `_skipop4_ascii` (`skipStrs`, `skipCols` of
Model/Op4Ascii.lean) consumes exactly the lines the reader consumes; hence `dir` lists what `load` returns and
a named read is the filter of the full read.  No encoder is involved. -/
namespace PyYetiVerif.Op4VA
open PyYetiVerif.Op4 (checkName Layout chooseLayout unpackIS)
open PyYetiVerif.Op4A
open PyYetiVerif.Generated.Op4Consts

/-- the number of value lines `_get_ascii_block` reads for `k` values = the number `_skipop4_ascii` skips -/
theorem nlines_eq (k p : Nat) (hp : 1 ≤ p) :
    (((k : Int) + (p : Int) - 1) / (p : Int)).toNat = (if k = 0 then 0 else (k - 1) / p + 1) := by
  by_cases hk : k = 0
  · subst hk
    simp only [if_true, Int.natCast_zero, Int.zero_add]
    have : ((p : Int) - 1) / (p : Int) = 0 := Int.ediv_eq_zero_of_lt (by omega) (by omega)
    rw [this]; rfl
  · rw [if_neg hk]
    have h1 : (k : Int) + (p : Int) - 1 = (((k - 1 + p : Nat)) : Int) := by omega
    rw [h1, ← Int.natCast_ediv, Int.toNat_natCast, Nat.add_div_right _ (by omega)]

theorem getBlock_snd (g : Cfg) (L : Nat) (ls : List Str) :
    (getBlock g L ls).2 = ls.drop (if L = 0 then 0 else (L - 1) / g.perline + 1) := rfl

theorem int_div_nat (a b : Nat) : ((a : Int)) / ((b : Nat) : Int) = ((a / b : Nat) : Int) := (Int.natCast_ediv a b).symm

/-! ### the string loops -/

theorem skipStrs_of_rdStrBig (g : Cfg) (hp : 1 ≤ g.perline) :
    ∀ (fuel n : Nat) (e : Int) (ls : List Str) (ss : List (Nat × List AEntry)) (rest : List Str),
      n = e.toNat → rdStrBig g fuel n ls = some (ss, rest) →
      ∀ fuel', fuel < fuel' → skipStrs true g.wper g.perline fuel' e ls = some rest := by
  intro fuel
  induction fuel with
  | zero =>
    intro n e ls ss rest hn h fuel' hf
    match fuel', hf with
    | f + 1, _ =>
      cases n with
      | zero =>
        simp only [rdStrBig, Option.some.injEq, Prod.mk.injEq] at h
        have he : e ≤ 0 := by omega
        simp only [skipStrs, he, if_true, h.2]
      | succ k => simp [rdStrBig] at h
  | succ fuel ih =>
    intro n e ls ss rest hn h fuel' hf
    match fuel', hf with
    | f + 1, hf =>
      cases n with
      | zero =>
        simp only [rdStrBig, Option.some.injEq, Prod.mk.injEq] at h
        have he : e ≤ 0 := by omega
        simp only [skipStrs, he, if_true, h.2]
      | succ k =>
        have he : ¬ (e ≤ 0) := by omega
        cases ls with
        | nil => simp [rdStrBig] at h
        | cons line ls1 =>
          simp only [rdStrBig] at h
          simp only [skipStrs, he, if_false, if_true]
          cases h1 : pyInt? (slice line 0 8) with
          | none => simp [h1] at h
          | some L1 =>
            cases h2 : pyInt? (slice line 8 16) with
            | none => simp [h1, h2] at h
            | some irow =>
              simp only [h1, h2] at h ⊢
              by_cases hc : L1 < 1 ∨ irow < 1
              · simp [hc] at h
              · simp only [hc, if_false] at h
                have hL : L1 - 1 = (((L1 - 1).toNat : Nat) : Int) := by omega
                generalize hLn : (L1 - 1).toNat = L at h hL
                cases hr : rdStrBig g fuel (k + 1 - (L + 2)) (getBlock g (L / g.wper) ls1).2 with
                | none => rw [hr] at h; simp at h
                | some q =>
                  cases hv : readVals g (getBlock g (L / g.wper) ls1).1 (L / g.wper) with
                  | none => rw [hv] at h; simp at h
                  | some es =>
                    rw [hr, hv] at h
                    simp only [Option.some.injEq, Prod.mk.injEq] at h
                    obtain ⟨ss', rest'⟩ := q
                    have hrest : rest' = rest := h.2
                    subst hrest
                    have hn' : k + 1 - (L + 2) = (e - (L1 - 1 + 2)).toNat := by omega
                    have := ih (k + 1 - (L + 2)) (e - (L1 - 1 + 2)) _ ss' rest' hn' hr f (by omega)
                    rw [getBlock_snd] at this
                    rw [hL, int_div_nat, nlines_eq _ _ hp]
                    rw [← hL]
                    exact this

theorem shift_eq (IS : Nat) : ((IS : Int)) / ((2 ^ isShiftR : Nat) : Int) - 1 = (((IS >>> isShiftR) - 1 : Nat) : Int) ∨
    IS >>> isShiftR = 0 := by
  by_cases h : IS >>> isShiftR = 0
  · exact Or.inr h
  · left
    have h2 : ((IS : Int)) / ((2 ^ isShiftR : Nat) : Int) = ((IS / 2 ^ isShiftR : Nat) : Int) := int_div_nat _ _
    rw [Nat.shiftRight_eq_div_pow] at h ⊢
    rw [h2]
    generalize IS / 2 ^ isShiftR = a at *
    omega

theorem skipStrs_of_rdStrNonbig (g : Cfg) (hp : 1 ≤ g.perline) :
    ∀ (fuel n : Nat) (e : Int) (ls : List Str) (ss : List (Nat × List AEntry)) (rest : List Str),
      n = e.toNat → rdStrNonbig g fuel n ls = some (ss, rest) →
      ∀ fuel', fuel < fuel' → skipStrs false g.wper g.perline fuel' e ls = some rest := by
  intro fuel
  induction fuel with
  | zero =>
    intro n e ls ss rest hn h fuel' hf
    match fuel', hf with
    | f + 1, _ =>
      cases n with
      | zero =>
        simp only [rdStrNonbig, Option.some.injEq, Prod.mk.injEq] at h
        have he : e ≤ 0 := by omega
        simp only [skipStrs, he, if_true, h.2]
      | succ k => simp [rdStrNonbig] at h
  | succ fuel ih =>
    intro n e ls ss rest hn h fuel' hf
    match fuel', hf with
    | f + 1, hf =>
      cases n with
      | zero =>
        simp only [rdStrNonbig, Option.some.injEq, Prod.mk.injEq] at h
        have he : e ≤ 0 := by omega
        simp only [skipStrs, he, if_true, h.2]
      | succ k =>
        have he : ¬ (e ≤ 0) := by omega
        cases ls with
        | nil => simp [rdStrNonbig] at h
        | cons line ls1 =>
          simp only [rdStrNonbig] at h
          simp only [skipStrs, he, if_false, Bool.false_eq_true]
          cases h1 : pyInt? line with
          | none => simp [h1] at h
          | some ISi =>
            simp only [h1] at h ⊢
            by_cases hneg : ISi < 0
            · simp [hneg] at h
            · simp only [hneg, if_false] at h
              have hIS : ISi = ((ISi.toNat : Nat) : Int) := by omega
              generalize hISn : ISi.toNat = IS at h hIS
              by_cases hc : IS >>> isShiftR = 0 ∨ (unpackIS IS).1 = 0
              · simp [hc] at h
              · simp only [hc, if_false] at h
                have hsh : IS >>> isShiftR ≠ 0 := fun h0 => hc (Or.inl h0)
                have hL : (unpackIS IS).2 = (IS >>> isShiftR) - 1 := rfl
                generalize hLn : (unpackIS IS).2 = L at h hL
                cases hr : rdStrNonbig g fuel (k + 1 - (L + 1)) (getBlock g (L / g.wper) ls1).2 with
                | none => rw [hr] at h; simp at h
                | some q =>
                  cases hv : readVals g (getBlock g (L / g.wper) ls1).1 (L / g.wper) with
                  | none => rw [hv] at h; simp at h
                  | some es =>
                    rw [hr, hv] at h
                    simp only [Option.some.injEq, Prod.mk.injEq] at h
                    obtain ⟨ss', rest'⟩ := q
                    have hrest : rest' = rest := h.2
                    subst hrest
                    have hLi : ISi / ((2 ^ isShiftR : Nat) : Int) - 1 = (L : Int) := by
                      rcases shift_eq IS with h3 | h3
                      · rw [hIS, h3, hL]
                      · exact absurd h3 hsh
                    have hn' : k + 1 - (L + 1) = (e - ((L : Int) + 1)).toNat := by omega
                    have := ih (k + 1 - (L + 1)) (e - ((L : Int) + 1)) _ ss' rest' hn' hr f (by omega)
                    rw [getBlock_snd] at this
                    rw [hLi, int_div_nat, nlines_eq _ _ hp]
                    exact this

end PyYetiVerif.Op4VA
