import PyYetiVerif.Lemmas.Op2ReadSkip
import PyYetiVerif.Lemmas.Op2ReadTab
/-! C11: `directory` and `_op2open` of the reader model on a whole encoded file. -/
namespace PyYetiVerif.Op2R
open PyYetiVerif.Op4 PyYetiVerif.Op2
open PyYetiVerif.Op4V (leBytes natBytes intBytes)

/-- what `directory` needs of a block: a 7-key trailer, a name record of admissible length; a matrix has
at least one column and string records short enough for their markers; the pieces of a table are
non-empty with at least three keys (`rdop2tabheaders` reads a 3-key header from every piece) -/
def BlockOk (v : V2) : Block → Prop
  | .mat m => m.trailer.length = 7 ∧ (∀ x ∈ m.trailer, InKey v x) ∧ m.name.length < 2147483000 ∧ m.cols ≠ [] ∧
      m.cols.length < 2147483000 ∧ ∀ strs ∈ m.cols, ∀ s ∈ strs, StrLen v m.single s
  | .tab t => t.trailer.length = 7 ∧ (∀ x ∈ t.trailer, InKey v x) ∧ t.name.length < 2147483000 ∧
      TabOk v 0 t.records ∧ ∀ pieces ∈ t.records, ∀ p ∈ pieces, 3 ≤ p.length

instance (v : V2) (b : Block) : Decidable (BlockOk v b) := by
  cases b <;> unfold BlockOk <;> exact inferInstance

/-- the directory entry of a block that occupies the bytes `[p, q)`; the trailer has seven keys
(`BlockOk`), so the two `getD` never fall back -/
def entryOf (v : V2) (b : Block) (p q : Nat) : Entry :=
  match b with
  | .mat m => ⟨validname m.name, p, q, 1, (m.trailer[2]?.getD 0, m.trailer[1]?.getD 0), m.trailer, []⟩
  | .tab t => ⟨validname t.name, p, q, 0, (0, 0), t.trailer, headersOf v t.records⟩

def entriesFrom (v : V2) : Nat → List Block → List Entry
  | _, [] => []
  | p, b :: r => entryOf v b p (p + (encBlock v b).length) :: entriesFrom v (p + (encBlock v b).length) r

theorem entriesFrom_positions (v : V2) : ∀ (bs : List Block) (p : Nat),
    (entriesFrom v p bs).map (fun e => (e.start, e.stop)) = positionsFrom v p bs := by
  intro bs
  induction bs with
  | nil => intro p; rfl
  | cons b r ih =>
    intro p
    simp only [entriesFrom, positionsFrom, List.map_cons, ih]
    cases b <;> rfl

theorem getElem?_of_length7 (t : List Int) (h : t.length = 7) (i : Nat) (hi : i < 7) : ∃ x, t[i]? = some x :=
  ⟨t[i], List.getElem?_eq_getElem (by omega)⟩

theorem dirLoop_enc (v : V2) (tail : List Nat) : ∀ (bs : List Block) (pos fuel total : Nat),
    (∀ b ∈ bs, BlockOk v b) → total = pos + (bs.flatMap (encBlock v) ++ (K v 0 ++ tail)).length → bs.length < fuel →
    dirLoop v total fuel pos (bs.flatMap (encBlock v) ++ (K v 0 ++ tail)) = .ok (entriesFrom v pos bs) := by
  intro bs
  induction bs with
  | nil =>
    intro pos fuel total _ _ hf
    cases fuel with
    | zero => omega
    | succ f =>
      simp only [List.flatMap_nil, List.nil_append, dirLoop, rdNT, rdEot_K v 0 _ (inKey_small v 0 (by omega) (by omega)),
        bind_ok, if_true, pure_eq, entriesFrom]
  | cons b r ih =>
    intro pos fuel total hok htot hf
    cases fuel with
    | zero => omega
    | succ f =>
      have hr := ih (pos + (encBlock v b).length) f total (fun x hx => hok x (List.mem_cons_of_mem _ hx))
        (by rw [htot]; simp only [List.flatMap_cons, List.length_append]; omega) (by simpa using hf)
      have hcur : total - (r.flatMap (encBlock v) ++ (K v 0 ++ tail)).length = pos + (encBlock v b).length := by
        rw [htot]; simp only [List.flatMap_cons, List.length_append]; omega
      have hb := hok b List.mem_cons_self
      cases b with
      | mat m =>
        obtain ⟨htl, htk, hn, hne, hnc, hsl⟩ := hb
        obtain ⟨x2, h2⟩ := getElem?_of_length7 m.trailer htl 2 (by omega)
        obtain ⟨x1, h1⟩ := getElem?_of_length7 m.trailer htl 1 (by omega)
        simp only [List.flatMap_cons, encBlock, List.append_assoc]
        simp only [dirLoop, rdNT_blockHead v m.name m.trailer 1 _ htl htk (inKey_small v 1 (by omega) (by omega)) hn,
          show ((1 : Int) > 0) = True by simp, if_true,
          skipMatrix_enc v m.single m.cols.length m.cols _ hne rfl hnc hsl, h2, h1, hcur, hr, entriesFrom, entryOf,
          Option.getD_some]
      | tab t =>
        obtain ⟨htl, htk, hn, htab, h3⟩ := hb
        simp only [List.flatMap_cons, encBlock, List.append_assoc]
        simp only [dirLoop, rdNT_blockHead v t.name t.trailer 0 _ htl htk (inKey_small v 0 (by omega) (by omega)) hn,
          show ((0 : Int) > 0) = False by simp, if_false,
          rdTabHeaders_enc v _ t.records htab h3, hcur, hr, entriesFrom, entryOf]

/-! ### `_op2open` -/

theorem detect_mark (v : V2) (rest : List Nat) : detect (mark v (kb v) ++ rest) = .ok v := by
  have hl : ¬ ((mark v (kb v) ++ rest).length < 4) := by rw [List.length_append, length_mark]; omega
  simp only [detect, hl, if_false, List.take_left' (length_mark v (kb v))]
  obtain ⟨e, b⟩ := v
  cases e <;> cases b
  · have h1 : intOfBytes .little (mark ⟨.little, false⟩ (kb ⟨.little, false⟩)) = 4 := by decide
    simp [h1]
  · have h1 : intOfBytes .little (mark ⟨.little, true⟩ (kb ⟨.little, true⟩)) = 8 := by decide
    simp [h1]
  · have h1 : intOfBytes .little (mark ⟨.big, false⟩ (kb ⟨.big, false⟩)) = 67108864 := by decide
    have h2 : intOfBytes .big (mark ⟨.big, false⟩ (kb ⟨.big, false⟩)) = 4 := by decide
    simp [h1, h2]
  · have h1 : intOfBytes .little (mark ⟨.big, true⟩ (kb ⟨.big, true⟩)) = 134217728 := by decide
    have h2 : intOfBytes .big (mark ⟨.big, true⟩ (kb ⟨.big, true⟩)) = 8 := by decide
    simp [h1, h2]

theorem header_eq (v : V2) (date : List Int) (label : List Nat) :
    ∃ t, header v date label = mark v (kb v) ++ t := by
  refine ⟨key v 3 ++ mark v (kb v) ++ (R v (keys v date) ++ K v 7 ++ R v (List.replicate (7 * kb v) 78) ++ K v 2 ++
    R v (ljust (2 * kb v) label) ++ K v (-1) ++ K v 0), ?_⟩
  simp only [header, K, List.append_assoc]

theorem length_encBlock_pos (v : V2) (b : Block) : 1 ≤ (encBlock v b).length := by
  cases b <;> simp only [encBlock, List.length_append, length_K] <;> omega

theorem length_le_flatMap_encBlock (v : V2) (bs : List Block) : bs.length ≤ (bs.flatMap (encBlock v)).length := by
  induction bs with
  | nil => simp
  | cons b t ih =>
    have := length_encBlock_pos v b
    simp only [List.flatMap_cons, List.length_append, List.length_cons]; omega

/-- the file header is well formed: three representable date keys, a label of at most two words of
printable non-blank ASCII -/
structure HeadOk (v : V2) (date : List Int) (label : List Nat) : Prop where
  date_len : date.length = 3
  date_keys : ∀ x ∈ date, InKey v x
  label_chars : ∀ c ∈ label, 32 < c ∧ c < 127
  label_len : label.length ≤ 2 * kb v

instance (v : V2) (date : List Int) (label : List Nat) : Decidable (HeadOk v date label) :=
  decidable_of_iff (date.length = 3 ∧ (∀ x ∈ date, InKey v x) ∧ (∀ c ∈ label, 32 < c ∧ c < 127) ∧ label.length ≤ 2 * kb v)
    ⟨fun ⟨a, b, c, d⟩ => ⟨a, b, c, d⟩, fun h => ⟨h.date_len, h.date_keys, h.label_chars, h.label_len⟩⟩

theorem openOp2_enc (v : V2) (date : List Int) (label : List Nat) (bs : List Block) (hh : HeadOk v date label)
    (hb : ∀ b ∈ bs, BlockOk v b) :
    openOp2 (encOp2 v date label bs)
      = .ok ⟨v, some ⟨date, List.replicate (7 * kb v) 78, label⟩, (header v date label).length,
          entriesFrom v (header v date label).length bs⟩ := by
  obtain ⟨t, ht⟩ := header_eq v date label
  have hdet : detect (encOp2 v date label bs) = .ok v := by
    simp only [encOp2, ht, List.append_assoc]; exact detect_mark v _
  have hhead := rdHeader_header v date label (bs.flatMap (encBlock v) ++ (K v 0 ++ [])) hh.date_len hh.date_keys
    hh.label_chars hh.label_len
  have hf : encOp2 v date label bs = header v date label ++ (bs.flatMap (encBlock v) ++ (K v 0 ++ [])) := by
    simp only [encOp2, List.append_assoc, List.append_nil]
  have hpos : (encOp2 v date label bs).length - (bs.flatMap (encBlock v) ++ (K v 0 ++ [])).length
      = (header v date label).length := by
    rw [hf, List.length_append]; omega
  have hdir := dirLoop_enc v [] bs (header v date label).length ((bs.flatMap (encBlock v) ++ (K v 0 ++ [])).length + 1)
    (encOp2 v date label bs).length hb (by rw [hf, List.length_append]) (by
      have := length_le_flatMap_encBlock v bs
      rw [List.length_append]; omega)
  unfold openOp2
  simp only [hdet]
  rw [hf] at hdir ⊢
  simp only [hhead]
  rw [← hf] at hdir ⊢
  simp only [hpos, hdir]
end PyYetiVerif.Op2R
