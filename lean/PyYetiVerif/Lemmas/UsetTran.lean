import PyYetiVerif.Model.UsetTran
import PyYetiVerif.Props.C18Idx
/-!
Helper lemmas for `Props/C18Tran.lean`: the index primitives of `Model/UsetTran.lean` (`takeIdx`,
`setCols`, `scatterRows`, `mapM` in `Except`), and the final re-ordering step of `formtran`.
-/
set_option linter.constructorNameAsVariable false
set_option linter.unusedSectionVars false
namespace PyYetiVerif.Uset
open PyYetiVerif.Locate

/-! ### `Forall₂` by positions -/

theorem forall₂_getElem? {β γ : Type} {R : β → γ → Prop} {l₁ : List β} {l₂ : List γ}
    (h : List.Forall₂ R l₁ l₂) : ∀ (k : Nat) (a : β), l₁[k]? = some a → ∃ b, l₂[k]? = some b ∧ R a b := by
  induction h with
  | nil => intro k a ha; simp at ha
  | @cons x y t₁ t₂ hxy _ ih =>
      intro k a ha
      cases k with
      | zero => simp only [List.getElem?_cons_zero, Option.some.injEq] at ha; subst ha; exact ⟨y, by simp, hxy⟩
      | succ k => simpa using ih k a (by simpa using ha)

theorem forall₂_getElem?' {β γ : Type} {R : β → γ → Prop} {l₁ : List β} {l₂ : List γ}
    (h : List.Forall₂ R l₁ l₂) : ∀ (k : Nat) (b : γ), l₂[k]? = some b → ∃ a, l₁[k]? = some a ∧ R a b := by
  induction h with
  | nil => intro k a ha; simp at ha
  | @cons x y t₁ t₂ hxy _ ih =>
      intro k b hb
      cases k with
      | zero => simp only [List.getElem?_cons_zero, Option.some.injEq] at hb; subst hb; exact ⟨x, by simp, hxy⟩
      | succ k => simpa using ih k b (by simpa using hb)

theorem forall₂_of_getElem? {β γ : Type} {R : β → γ → Prop} : ∀ {l₁ : List β} {l₂ : List γ},
    l₁.length = l₂.length → (∀ (k : Nat) a b, l₁[k]? = some a → l₂[k]? = some b → R a b) → List.Forall₂ R l₁ l₂
  | [], [], _, _ => .nil
  | [], _ :: _, hl, _ => by simp at hl
  | _ :: _, [], hl, _ => by simp at hl
  | x :: t₁, y :: t₂, hl, h =>
      .cons (h 0 x y (by simp) (by simp))
        (forall₂_of_getElem? (by simpa using hl) fun k a b ha hb => h (k + 1) a b (by simpa using ha) (by simpa using hb))

/-! ### `mapM` in `Except` -/

theorem mapM_except {ε β γ : Type} (f : β → Except ε γ) :
    ∀ (l : List β) (out : List γ), l.mapM f = .ok out → List.Forall₂ (fun a b => f a = .ok b) l out
  | [], out, h => by
      simp only [List.mapM_nil, pure, Except.pure, Except.ok.injEq] at h
      subst h; exact .nil
  | a :: t, out, h => by
      rw [List.mapM_cons] at h
      cases ha : f a with
      | error e => rw [ha] at h; cases h
      | ok b =>
          rw [ha] at h
          cases ht : t.mapM f with
          | error e => rw [ht] at h; cases h
          | ok bs =>
              rw [ht] at h
              simp only [bind, Except.bind, pure, Except.pure, Except.ok.injEq] at h
              subst h
              exact .cons ha (mapM_except f t bs ht)

/-! ### `takeIdx`, `rowsAt` -/

theorem takeIdx_ok {β : Type} {x : List β} {idx : List Nat} {l : List β} (h : takeIdx x idx = .ok l) :
    List.Forall₂ (fun i y => x[i]? = some y) idx l := by
  unfold takeIdx at h
  cases hm : idx.mapM (x[·]?) with
  | none => rw [hm] at h; cases h
  | some ps =>
      rw [hm] at h
      simp only [Except.ok.injEq] at h
      subst h
      exact (mapM_option _ idx).2 ps hm

theorem bind_ok {ε β γ : Type} {x : Except ε β} {f : β → Except ε γ} {v : γ}
    (h : (x >>= f) = .ok v) : ∃ a, x = .ok a ∧ f a = .ok v := by
  cases x with
  | error e => cases h
  | ok a => exact ⟨a, rfl, h⟩

section rows
variable {α : Type} [Add α] [Mul α] [OfNat α 0] [OfNat α 1]

theorem rowsAt_ok {A B : M α} {idx : List Nat} (h : rowsAt A idx = .ok B) :
    B.c = A.c ∧ List.Forall₂ (fun i y => A.r[i]? = some y) idx B.r := by
  unfold rowsAt at h
  obtain ⟨l, hl, h2⟩ := bind_ok h
  simp only [Except.ok.injEq] at h2
  subst h2
  exact ⟨rfl, takeIdx_ok hl⟩

/-! ### `setCols`: one row of `tran[rows, cols] = vals` -/

theorem foldl_set_length {β : Type} (ps : List (Nat × β)) (row : List β) :
    (ps.foldl (fun acc p => acc.set p.1 p.2) row).length = row.length := by
  induction ps generalizing row with
  | nil => rfl
  | cons p t ih => rw [List.foldl_cons, ih, List.length_set]

theorem setCols_length {row : List α} {cols : List Nat} {vals out : List α}
    (h : setCols row cols vals = .ok out) : out.length = row.length := by
  unfold setCols at h
  split at h
  · cases h
  · split at h
    · cases h
    · simp only [Except.ok.injEq] at h
      subst h
      exact foldl_set_length _ _

/-- a column that is not assigned keeps its entry -/
theorem foldl_set_other {β : Type} (ps : List (Nat × β)) (row : List β) (c : Nat)
    (hc : ∀ p ∈ ps, p.1 ≠ c) : (ps.foldl (fun acc p => acc.set p.1 p.2) row)[c]? = row[c]? := by
  induction ps generalizing row with
  | nil => rfl
  | cons p t ih =>
      rw [List.foldl_cons, ih _ (fun q hq => hc q (List.mem_cons_of_mem _ hq))]
      rw [List.getElem?_set_ne (hc p List.mem_cons_self)]

/-- an assigned column (distinct columns, inside the row) holds the value given for it -/
theorem foldl_set_at {β : Type} : ∀ (cols : List Nat) (vals : List β) (row : List β) (j : Nat) (v : β),
    cols.Nodup → cols.length = vals.length → (∀ c ∈ cols, c < row.length) →
    vals[j]? = some v → ∀ c, cols[j]? = some c →
    ((cols.zip vals).foldl (fun acc p => acc.set p.1 p.2) row)[c]? = some v
  | [], _, _, j, _, _, _, _, _, c, hc => by simp at hc
  | _ :: _, [], _, _, _, _, hl, _, _, _, _ => by simp at hl
  | c0 :: cs, v0 :: vs, row, j, v, hnd, hl, hin, hv, c, hc => by
      rw [List.zip_cons_cons, List.foldl_cons]
      obtain ⟨hnot, hnd'⟩ := List.nodup_cons.mp hnd
      cases j with
      | zero =>
          simp only [List.getElem?_cons_zero, Option.some.injEq] at hv hc
          subst hv; subst hc
          rw [foldl_set_other]
          · rw [List.getElem?_set_self (hin _ List.mem_cons_self)]
          · intro p hp
            have := (List.of_mem_zip hp).1
            intro he; rw [he] at this; exact hnot this
      | succ j =>
          exact foldl_set_at cs vs _ j v hnd' (by simpa using hl)
            (fun c' hc' => by rw [List.length_set]; exact hin c' (List.mem_cons_of_mem _ hc'))
            (by simpa using hv) c (by simpa using hc)

theorem setCols_other {row : List α} {cols : List Nat} {vals out : List α}
    (h : setCols row cols vals = .ok out) (c : Nat) (hc : c ∉ cols) : out[c]? = row[c]? := by
  unfold setCols at h
  split at h
  · cases h
  · split at h
    · cases h
    · simp only [Except.ok.injEq] at h
      subst h
      apply foldl_set_other
      intro p hp he
      exact hc (he ▸ (List.of_mem_zip hp).1)

theorem setCols_at {row : List α} {cols : List Nat} {vals out : List α}
    (h : setCols row cols vals = .ok out) (hnd : cols.Nodup) (j c : Nat) (v : α)
    (hv : vals[j]? = some v) (hc : cols[j]? = some c) : out[c]? = some v := by
  unfold setCols at h
  split at h
  · cases h
  · rename_i hrange
    split at h
    · cases h
    · rename_i hlen
      simp only [Except.ok.injEq] at h
      subst h
      refine foldl_set_at cols vals row j v hnd (by simpa using hlen) ?_ hv c hc
      intro c' hc'
      by_contra hge
      exact hrange (List.any_eq_true.mpr ⟨c', hc', by simpa using hge⟩)

theorem scatterRows_ok {w : Nat} {cols : List Nat} {block out : List (List α)}
    (h : scatterRows w cols block = .ok out) :
    List.Forall₂ (fun vals row => setCols (zeroRow w) cols vals = .ok row) block out :=
  mapM_except _ _ _ h

theorem zeroRow_length (w : Nat) : (zeroRow (α := α) w).length = w := by simp [zeroRow]

theorem zeroRow_get (w c : Nat) (h : c < w) : (zeroRow (α := α) w)[c]? = some 0 := by
  simp [zeroRow, h]

theorem unitRow_length (n k : Nat) : (unitRow (α := α) n k).length = n := by simp [unitRow]

theorem unitRow_get (n k j : Nat) (h : j < n) :
    (unitRow (α := α) n k)[j]? = some (if j = k then 1 else 0) := by
  simp [unitRow, h]

end rows

/-! ### the final re-ordering `tran[pv]` of `formtran` -/

section reorder
variable {κ : Type} [LinearOrder κ]
variable {α : Type} [Add α] [Mul α] [OfNat α 0] [OfNat α 1]

/-- `pv, pv2 = mat_intersect(fulldof, dof, 2); tran = tran[pv]`: when the routine does not stop with its
`RuntimeError`, the result has one row per requested DOF, in the order of the request, and row `k` is a
block row `rows[j]` whose table row `sets[j]` carries exactly the requested `[id, dof]`. -/
theorem reorder_spec {iddof : List κ} {sets : List Nat} {dofr : List κ} {npv : Nat}
    {rows : List (List α)} {w : Nat} {out : M α}
    (h : reorder iddof sets dofr npv rows w = .ok out) (hlen : rows.length = sets.length)
    (hn : npv = dofr.length) :
    out.c = w ∧ List.Forall₂ (fun key row => ∃ (j p : Nat), sets[j]? = some p ∧ iddof[p]? = some key ∧
      rows[j]? = some row) dofr out.r := by
  unfold reorder at h
  obtain ⟨fulldof, hfd, h⟩ := bind_ok h
  have hfull := takeIdx_ok hfd
  simp only at h
  split at h
  · cases h
  · rename_i hl
    obtain ⟨o, ho, h⟩ := bind_ok h
    simp only [Except.ok.injEq] at h
    subst h
    refine ⟨rfl, ?_⟩
    have hk2 := C18.mat_intersect_keep2 fulldof dofr 2
    simp only at hk2
    obtain ⟨hpv2, hrel⟩ := hk2
    have hl' : (matIntersect fulldof dofr 2 2 2).2.length = dofr.length := by
      rw [← hn]; exact not_not.mp hl
    have hrange : (matIntersect fulldof dofr 2 2 2).2 = List.range dofr.length := by
      rw [hpv2] at hl' ⊢
      exact List.Sublist.eq_of_length List.filter_sublist (by rw [hl', List.length_range])
    rw [hrange] at hrel
    have hout := takeIdx_ok ho
    have hlen1 : (matIntersect fulldof dofr 2 2 2).1.length = dofr.length := by
      rw [hrel.length_eq, List.length_range]
    apply forall₂_of_getElem?
    · rw [← hout.length_eq, hlen1]
    · intro k key row hkey hrow
      obtain ⟨i, hi, hpad⟩ := forall₂_getElem?' hout k row hrow
      obtain ⟨k', hk', x, hx1, hx2⟩ := forall₂_getElem? hrel k i hi
      have hklt : k < dofr.length := (List.getElem?_eq_some_iff.mp hkey).1
      rw [List.getElem?_range hklt] at hk'
      simp only [Option.some.injEq] at hk'
      subst hk'
      rw [hkey] at hx2
      simp only [Option.some.injEq] at hx2
      subst hx2
      obtain ⟨p, hp, hidd⟩ := forall₂_getElem?' hfull i key hx1
      refine ⟨i, p, hp, hidd, ?_⟩
      have hilt : i < rows.length := by
        rw [hlen]; exact (List.getElem?_eq_some_iff.mp hp).1
      rw [← hpad, List.getElem?_append_left hilt]

end reorder

end PyYetiVerif.Uset

namespace PyYetiVerif.Uset
theorem liftE_ok' {β : Type} {x : Except Err β} {v : β} (h : liftE x = .ok v) : x = .ok v := by
  cases x with
  | error e => cases h
  | ok a => simp only [liftE, Except.ok.injEq] at h; rw [h]
end PyYetiVerif.Uset
