import PyYetiVerif.Lemmas.Coord
/-!
C14: the spherical round trip in the direction `getcoordinates (addgrid a) = a`, and why
`getcoordinates` chooses between `g.y / sin φ` and `g.x / cos φ` by `|sin φ| > |cos φ|`.
-/
namespace PyYetiVerif.Coord

/-- the divisor `getcoordinates` picks (`sin φ` if `|sin φ| > |cos φ|`, else `cos φ`) is the larger of
the two in magnitude, so its square is at least 1/2: the division is safe for every azimuth -/
theorem sph_divisor_large (p : ℝ) :
    1 / 2 ≤ (if |Real.cos p| < |Real.sin p| then Real.sin p else Real.cos p) ^ 2 := by
  have h1 := Real.sin_sq_add_cos_sq p
  split_ifs with h
  · have := sq_lt_sq.mpr h
    nlinarith
  · have := sq_le_sq.mpr (not_lt.mp h)
    nlinarith

/-- the branch without the absolute values (`if s > c`) divides by `sin φ = 0` at `φ = 180°`:
for the point `(r, θ, φ) = (1, 90°, 180°)`, i.e. `g = (-1, 0, 0)`, it returns `θ = 0` -/
theorem sph_branch_abs_needed :
    let g : V3 ℝ := ⟨-1, 0, 0⟩
    let phi := Complex.arg ⟨g.x, g.y⟩
    phi = Real.pi ∧ Real.cos phi < Real.sin phi ∧
    Complex.arg ⟨g.z, g.y / Real.sin phi⟩ = 0 ∧
    (fromRect .sph g).y = 90 := by
  have hphi : Complex.arg (⟨-1, 0⟩ : ℂ) = Real.pi := by
    have : (⟨-1, 0⟩ : ℂ) = -1 := by apply Complex.ext <;> simp
    rw [this, Complex.arg_neg_one]
  refine ⟨hphi, ?_, ?_, ?_⟩
  · simp only [hphi, Real.cos_pi, Real.sin_pi]; norm_num
  · simp only [hphi, Real.sin_pi, div_zero]
    have : (⟨0, 0⟩ : ℂ) = 0 := rfl
    rw [this, Complex.arg_zero]
  · simp only [fromRect, sin_real, cos_real, atan2_real, abs_real, pi_real, hphi, Real.cos_pi,
      Real.sin_pi, abs_zero, abs_neg, abs_one]
    have hlt : ¬ ((1 : ℝ) < 0) := by norm_num
    rw [if_neg hlt]
    have : (⟨0, -1 / -1⟩ : ℂ) = Complex.I := by apply Complex.ext <;> simp
    rw [this, Complex.arg_I]
    have := Real.pi_pos
    field_simp
    ring

theorem sph_inv_fwd (a : V3 ℝ) (hr : 0 < a.x) (hth0 : 0 < a.y) (hth1 : a.y < 180)
    (hlo : -180 < a.z) (hhi : a.z ≤ 180) :
    fromRect .sph (toRect .sph a) = a := by
  have hpi := Real.pi_pos
  set t := a.y * (Real.pi / 180) with ht
  set p := a.z * (Real.pi / 180) with hp
  have ht0 : 0 < t := by rw [ht]; positivity
  have ht1 : t < Real.pi := by rw [ht]; nlinarith
  have hpm : p ∈ Set.Ioc (-Real.pi) Real.pi := by
    constructor
    · rw [hp]; nlinarith
    · rw [hp]; nlinarith
  have htm : t ∈ Set.Ioc (-Real.pi) Real.pi := ⟨by linarith, ht1.le⟩
  have hS : 0 < Real.sin t := Real.sin_pos_of_pos_of_lt_pi ht0 ht1
  have hrS : 0 < a.x * Real.sin t := mul_pos hr hS
  -- the rectangular components
  have hg : toRect .sph a = ⟨a.x * Real.sin t * Real.cos p, a.x * Real.sin t * Real.sin p,
      a.x * Real.cos t⟩ := by
    simp only [toRect, a2r, sin_real, cos_real, pi_real, V3.smul, ← ht, ← hp]
    ext <;> simp <;> ring
  rw [hg]
  have hphi : Complex.arg ⟨a.x * Real.sin t * Real.cos p, a.x * Real.sin t * Real.sin p⟩ = p := by
    rw [mk_polar]; exact Complex.arg_mul_cos_add_sin_mul_I hrS hpm
  have hth : Complex.arg ⟨a.x * Real.cos t, a.x * Real.sin t⟩ = t := by
    rw [mk_polar]; exact Complex.arg_mul_cos_add_sin_mul_I hr htm
  have hnorm : norm (⟨a.x * Real.sin t * Real.cos p, a.x * Real.sin t * Real.sin p,
      a.x * Real.cos t⟩ : V3 ℝ) = a.x := by
    have h1 := Real.sin_sq_add_cos_sq t
    have h2 := Real.sin_sq_add_cos_sq p
    have : (⟨a.x * Real.sin t * Real.cos p, a.x * Real.sin t * Real.sin p,
        a.x * Real.cos t⟩ : V3 ℝ).dot ⟨a.x * Real.sin t * Real.cos p, a.x * Real.sin t * Real.sin p,
        a.x * Real.cos t⟩ = a.x * a.x := by
      simp only [V3.dot]
      have e : a.x * Real.sin t * Real.cos p * (a.x * Real.sin t * Real.cos p)
          + a.x * Real.sin t * Real.sin p * (a.x * Real.sin t * Real.sin p)
          + a.x * Real.cos t * (a.x * Real.cos t)
          = a.x * a.x * (Real.sin t ^ 2 * (Real.sin p ^ 2 + Real.cos p ^ 2) + Real.cos t ^ 2) := by ring
      rw [e, h2, mul_one, h1, mul_one]
    rw [norm_def', this, Real.sqrt_mul_self hr.le]
  -- the polar angle, whichever branch is taken
  have htheta : (if |Real.cos p| < |Real.sin p|
        then Complex.arg ⟨a.x * Real.cos t, a.x * Real.sin t * Real.sin p / Real.sin p⟩
        else Complex.arg ⟨a.x * Real.cos t, a.x * Real.sin t * Real.cos p / Real.cos p⟩) = t := by
    have hd := sph_divisor_large p
    split_ifs with hb
    · rw [if_pos hb] at hd
      have hs : Real.sin p ≠ 0 := by intro h0; rw [h0] at hd; norm_num at hd
      rw [mul_div_assoc, div_self hs, mul_one, hth]
    · rw [if_neg hb] at hd
      have hc : Real.cos p ≠ 0 := by intro h0; rw [h0] at hd; norm_num at hd
      rw [mul_div_assoc, div_self hc, mul_one, hth]
  simp only [fromRect, sin_real, cos_real, atan2_real, abs_real, pi_real, hphi, hnorm, htheta]
  ext
  · rfl
  · simp only [ht]; field_simp
  · simp only [hp]; field_simp

end PyYetiVerif.Coord
