import PyYetiVerif.Lemmas.SrsPipe
import PyYetiVerif.Model.SrsExt
/-! Helper lemmas for C03, third part: steady-state start (the `ic='steady'` rule in full), the
end state / free decay of the exact oscillator (residual window), and the whole `srs.srs` column
(`rolloff='none'`, `f > 0`) against its filter-free specification `exactCol`. -/
set_option linter.unusedVariables false
set_option linter.unusedSimpArgs false
set_option linter.unusedSectionVars false
namespace PyYetiVerif.Srs

/-! ### steady state is a fixed point of the exact one-step map -/

theorem steady_fixed (o : Osc ℝ) (hw : o.wn ≠ 0) (hh : o.dT ≠ 0) (hd : o.wd ≠ 0) (c : ℝ) :
    o.uAt (-c / (o.wn * o.wn)) 0 c c o.dT = -c / (o.wn * o.wn) ∧
    o.vAt (-c / (o.wn * o.wn)) 0 c c o.dT = 0 := by
  simp only [Osc.uAt, Osc.vAt, Osc.k1, Osc.k2, Osc.al, Osc.be]
  generalize o.wd = wd at *
  constructor
  · field_simp
    ring
  · field_simp
    ring

/-- shifting the start state by the steady state of `c` and every input by `c` shifts every
state by the steady state of `c` -/
theorem statesAux_shift (o : Osc ℝ) (hw : o.wn ≠ 0) (hh : o.dT ≠ 0) (hd : o.wd ≠ 0) (c : ℝ)
    (xs : List ℝ) : ∀ u v x : ℝ,
    o.statesAux (u + -c / (o.wn * o.wn)) v (x + c) (xs.map (· + c))
      = (o.statesAux u v x xs).map fun s => (s.1 + -c / (o.wn * o.wn), s.2.1, s.2.2 + c) := by
  obtain ⟨hfu, hfv⟩ := steady_fixed o hw hh hd c
  rw [uAt_affine o hw hh hd] at hfu
  rw [vAt_affine o hw hh hd] at hfv
  induction xs with
  | nil => intros; rfl
  | cons x' xs ih =>
    intro u v x
    simp only [List.map_cons, Osc.statesAux]
    have e1 : o.uAt (u + -c / (o.wn * o.wn)) v (x + c) (x' + c) o.dT
        = o.uAt u v x x' o.dT + -c / (o.wn * o.wn) := by
      rw [uAt_affine o hw hh hd, uAt_affine o hw hh hd u v x x']
      linear_combination hfu
    have e2 : o.vAt (u + -c / (o.wn * o.wn)) v (x + c) (x' + c) o.dT = o.vAt u v x x' o.dT := by
      rw [vAt_affine o hw hh hd, vAt_affine o hw hh hd u v x x']
      linear_combination hfv
    rw [e1, e2, ih]

theorem out_shift (st : SType) (Q h w : ℝ) (hw : w ≠ 0) (c : ℝ) (s : ℝ × ℝ × ℝ) :
    st.out (Osc.ofQ Q h w) (s.1 + -c / (w * w), s.2.1, s.2.2 + c)
      = st.out (Osc.ofQ Q h w) s + dcGain w st * c := by
  obtain ⟨u, v, x⟩ := s
  cases st <;> simp only [SType.out, Osc.ofQ, dcGain] <;> field_simp <;> ring

theorem addBack_steady (st : SType) (w s1 : ℝ) (hw : w ≠ 0) (sig resp : List ℝ) :
    addBack st w (processIc .steady st s1 sig).2 resp = resp.map (· + dcGain w st * s1) := by
  cases st <;> simp [addBack, processIc, dcGain] <;> intros <;> field_simp

/-- response from steady state under `c` = response to `x - c` from rest, plus `gain · c` -/
theorem steadyResp_eq (st : SType) (Q h w : ℝ) (hQ : 1 / 2 < Q) (hh : 0 < h) (hw : 0 < w) (c : ℝ)
    (xs : List ℝ) :
    steadyResp st Q h w c xs
      = (exactResp st Q h w (xs.map (· - c))).map (· + dcGain w st * c) := by
  have hd := ofQ_wd_ne (h := h) hQ hw
  have hw' : (Osc.ofQ Q h w).wn ≠ 0 := hw.ne'
  have hh' : (Osc.ofQ Q h w).dT ≠ 0 := hh.ne'
  have key := statesAux_shift (Osc.ofQ Q h w) hw' hh' hd c (xs.map (· - c)) 0 0 0
  have hx : (xs.map (· - c)).map (· + c) = xs := by
    rw [List.map_map]
    conv_rhs => rw [← List.map_id xs]
    apply List.map_congr_left
    intro a _
    simp
  rw [hx] at key
  simp only [zero_add] at key
  unfold steadyResp exactResp Osc.states
  have hwn : (Osc.ofQ Q h w).wn = w := rfl
  rw [hwn] at key
  rw [key, List.map_map, List.map_map]
  apply List.map_congr_left
  intro s _
  simp only [Function.comp]
  exact out_shift st Q h w hw.ne' c s

theorem steady_ic_exact' (st : SType) (Q h w : ℝ) (hQ : 1 / 2 < Q) (hh : 0 < h) (hw : 0 < w)
    (s1 c : ℝ) (sig xs : List ℝ) :
    addBack st w (processIc .steady st c sig).2 (lfilter (st.coef Q h w) (xs.map (· - c)))
      = steadyResp st Q h w c xs := by
  rw [addBack_steady st w c hw.ne', lfilter_eq_exact st Q h w hQ hh hw, steadyResp_eq st Q h w hQ hh hw]

/-! ### append, end state -/

theorem statesAux_append (o : Osc ℝ) (xs ys : List ℝ) : ∀ u v x : ℝ,
    o.statesAux u v x (xs ++ ys)
      = o.statesAux u v x xs
        ++ o.statesAux (o.endState u v x xs).1 (o.endState u v x xs).2.1 (o.endState u v x xs).2.2 ys := by
  induction xs with
  | nil => intros; rfl
  | cons x' xs ih =>
    intro u v x
    simp only [List.cons_append, Osc.statesAux, Osc.endState, ih]

theorem statesAux_length (o : Osc ℝ) (xs : List ℝ) : ∀ u v x : ℝ,
    (o.statesAux u v x xs).length = xs.length := by
  induction xs with
  | nil => intros; rfl
  | cons x' xs ih => intro u v x; simp [Osc.statesAux, ih]

/-! ### free decay -/

theorem uAt_zero_input (o : Osc ℝ) (u v t : ℝ) : o.uAt u v 0 0 t = o.freeU u v t := by
  simp only [Osc.uAt, Osc.freeU, Osc.k1, Osc.k2, Osc.al, Osc.be, sub_self, zero_div, neg_zero,
    mul_zero, sub_zero, zero_mul, add_zero]

theorem vAt_zero_input (o : Osc ℝ) (hd : o.wd ≠ 0)
    (hwd : o.wd * o.wd = o.wn * o.wn * (1 - o.zeta * o.zeta)) (u v t : ℝ) :
    o.vAt u v 0 0 t = o.freeV u v t := by
  simp only [Osc.vAt, Osc.freeV, Osc.k1, Osc.k2, Osc.al, Osc.be, sub_self, zero_div, neg_zero,
    mul_zero, sub_zero, zero_mul, add_zero, exp_real, cos_real, sin_real]
  generalize o.wd = wd at *
  generalize Real.exp (-o.zeta * o.wn * t) = e
  generalize Real.cos (t * wd) = c
  generalize Real.sin (t * wd) = s
  linear_combination (norm := (field_simp; ring)) (-e * s * u / wd) * hwd

theorem free_semigroup (o : Osc ℝ) (hd : o.wd ≠ 0)
    (hwd : o.wd * o.wd = o.wn * o.wn * (1 - o.zeta * o.zeta)) (u v s t : ℝ) :
    o.freeU (o.freeU u v s) (o.freeV u v s) t = o.freeU u v (s + t) ∧
    o.freeV (o.freeU u v s) (o.freeV u v s) t = o.freeV u v (s + t) := by
  simp only [Osc.freeU, Osc.freeV, exp_real, cos_real, sin_real]
  generalize o.wd = wd at *
  have he : Real.exp (-o.zeta * o.wn * (s + t))
      = Real.exp (-o.zeta * o.wn * s) * Real.exp (-o.zeta * o.wn * t) := by
    rw [← Real.exp_add]; ring_nf
  have hc : Real.cos ((s + t) * wd)
      = Real.cos (s * wd) * Real.cos (t * wd) - Real.sin (s * wd) * Real.sin (t * wd) := by
    rw [add_mul, Real.cos_add]
  have hs : Real.sin ((s + t) * wd)
      = Real.sin (s * wd) * Real.cos (t * wd) + Real.cos (s * wd) * Real.sin (t * wd) := by
    rw [add_mul, Real.sin_add]
  rw [he, hc, hs]
  generalize Real.exp (-o.zeta * o.wn * s) = es
  generalize Real.exp (-o.zeta * o.wn * t) = et
  generalize Real.cos (s * wd) = cs
  generalize Real.sin (s * wd) = ss
  generalize Real.cos (t * wd) = ct
  generalize Real.sin (t * wd) = st
  constructor
  · linear_combination (norm := (field_simp; ring)) (es * et * ss * st * u / wd ^ 2) * hwd
  · linear_combination (norm := (field_simp; ring)) (es * et * ss * st * v / wd ^ 2) * hwd

theorem free_at_zero (o : Osc ℝ) (u v : ℝ) : o.freeU u v 0 = u ∧ o.freeV u v 0 = v := by
  simp [Osc.freeU, Osc.freeV]

/-- stepping through zero input from `(u, v)` (previous input zero) is the sampled free decay -/
theorem statesAux_zero_input (o : Osc ℝ) (hd : o.wd ≠ 0)
    (hwd : o.wd * o.wd = o.wn * o.wn * (1 - o.zeta * o.zeta)) (n : ℕ) : ∀ u v : ℝ,
    o.statesAux u v 0 (List.replicate n 0)
      = (List.range n).map fun k : ℕ =>
          (o.freeU u v (((k : ℝ) + 1) * o.dT), o.freeV u v (((k : ℝ) + 1) * o.dT), (0 : ℝ)) := by
  induction n with
  | zero => intros; rfl
  | succ n ih =>
    intro u v
    rw [List.replicate_succ, List.range_succ_eq_map]
    simp only [Osc.statesAux, List.map_cons, List.map_map]
    rw [uAt_zero_input, vAt_zero_input o hd hwd, ih]
    congr 1
    · simp
    · apply List.map_congr_left
      intro k _
      obtain ⟨h1, h2⟩ := free_semigroup o hd hwd u v o.dT (((k : ℝ) + 1) * o.dT)
      simp only [Function.comp, Nat.cast_succ]
      rw [h1, h2]
      have : o.dT + ((k : ℝ) + 1) * o.dT = ((k : ℝ) + 1 + 1) * o.dT := by ring
      rw [this]

/-- the part of the exact response that follows the record (zero input appended) is the
closed-form free decay sampled on the grid, starting at the instant the interpolated input
reaches zero -/
theorem residual_window_free_decay (st : SType) (o : Osc ℝ) (hd : o.wd ≠ 0)
    (hwd : o.wd * o.wd = o.wn * o.wn * (1 - o.zeta * o.zeta)) (u v x : ℝ) (xs : List ℝ) (nz : ℕ) :
    ((o.statesAux u v x (xs ++ List.replicate nz 0)).map (st.out o)).drop xs.length
      = residualExact st o u v x xs nz := by
  rw [statesAux_append, List.map_append]
  rw [List.drop_left' (by rw [List.length_map, statesAux_length])]
  unfold residualExact freeDecayResp
  cases nz with
  | zero => rfl
  | succ n =>
    rw [List.replicate_succ, List.range_succ_eq_map]
    simp only [Osc.statesAux, List.map_cons, List.map_map]
    rw [statesAux_zero_input o hd hwd]
    obtain ⟨h1, h2⟩ := free_at_zero o
      (o.uAt (o.endState u v x xs).1 (o.endState u v x xs).2.1 (o.endState u v x xs).2.2 0 o.dT)
      (o.vAt (o.endState u v x xs).1 (o.endState u v x xs).2.1 (o.endState u v x xs).2.2 0 o.dT)
    congr 1
    · simp only [ofNat_real, Nat.cast_zero, zero_mul, h1, h2]
    · rw [List.map_map]
      apply List.map_congr_left
      intro k _
      simp only [Function.comp, ofNat_real, Nat.cast_succ]

theorem ofQ_wd_sq (Q h w : ℝ) (hQ : 1 / 2 < Q) :
    (Osc.ofQ Q h w).wd * (Osc.ofQ Q h w).wd
      = (Osc.ofQ Q h w).wn * (Osc.ofQ Q h w).wn
        * (1 - (Osc.ofQ Q h w).zeta * (Osc.ofQ Q h w).zeta) := by
  have := sqz_sq hQ
  simp only [Osc.wd, Osc.ofQ, sqrt_real]
  generalize Real.sqrt (1 - 1 / 2 / Q * (1 / 2 / Q)) = q at *
  linear_combination (w * w) * this

/-! ### the whole column: `srsCol = exactCol` -/

theorem map_sub_zero (l : List ℝ) : l.map (· - (0 : ℝ)) = l := by
  conv_rhs => rw [← List.map_id l]
  apply List.map_congr_left
  intro a _
  simp

theorem srsCol_eq_exactCol' (o : Opts) (Q sr f : ℝ) (hQ : 1 / 2 < Q) (hsr : 0 < sr) (hf : 0 < f)
    (freqs sig : List ℝ) : srsCol o Q sr freqs f sig = exactCol o Q sr freqs f sig := by
  cases sig with
  | nil => rfl
  | cons s1 rest =>
    have hh : (0 : ℝ) < 1 / sr := by positivity
    have hw : (0 : ℝ) < 2 * TransOps.pi * f := by
      have := Real.pi_pos
      simp only [pi_real]
      positivity
    obtain ⟨st, ic, pk, tm, es⟩ := o
    simp only [srsCol, srsTail, exactCol]
    -- the response list, before windowing
    have key : ∀ nz : ℕ,
        addBack st (2 * TransOps.pi * f) (processIc ic st s1 (s1 :: rest)).2
          (lfilter (st.coef Q (1 / sr) (2 * TransOps.pi * f))
            ((processIc ic st s1 (s1 :: rest)).1 ++ List.replicate nz (if ic = .steady then 0 - s1 else 0)))
        = (if ic = .steady then
            (Osc.ofQ Q (1 / sr) (2 * TransOps.pi * f)).statesAux
              (-s1 / (2 * TransOps.pi * f * (2 * TransOps.pi * f))) 0 s1 ((s1 :: rest) ++ List.replicate nz 0)
          else (Osc.ofQ Q (1 / sr) (2 * TransOps.pi * f)).statesAux 0 0 0
              ((s1 :: rest).map (· - icShift ic s1 (s1 :: rest)) ++ List.replicate nz 0)).map
            (st.out (Osc.ofQ Q (1 / sr) (2 * TransOps.pi * f))) := by
      intro nz
      cases ic
      · -- zero
        simp only [processIc, addBack, icShift, map_sub_zero, reduceCtorEq, if_false]
        rw [lfilter_eq_exact st Q _ _ hQ hh hw]
        rfl
      · -- shift
        simp only [processIc, addBack, icShift, reduceCtorEq, if_false]
        rw [lfilter_eq_exact st Q _ _ hQ hh hw]
        rfl
      · -- mshift
        simp only [processIc, addBack, icShift, reduceCtorEq, if_false]
        rw [lfilter_eq_exact st Q _ _ hQ hh hw]
        rfl
      · -- steady
        simp only [if_true]
        have hp : (processIc Ic.steady st s1 (s1 :: rest)).1 ++ List.replicate nz (0 - s1)
            = ((s1 :: rest) ++ List.replicate nz 0).map (· - s1) := by
          simp [processIc]
        rw [hp, steady_ic_exact' st Q _ _ hQ hh hw s1 s1]
        rfl
    have hlen : (processIc ic st s1 (s1 :: rest)).1.length = (s1 :: rest).length := by
      cases ic <;> simp [processIc]
    cases tm
    · -- primary
      have k0 := key 0
      simp only [List.replicate_zero, List.append_nil] at k0
      simp only [reduceCtorEq, if_false, if_true, List.replicate_zero, List.append_nil, k0]
      rfl
    · -- total
      simp only [reduceCtorEq, if_false, if_true, addOneCycle, key]
      rfl
    · -- residual
      simp only [reduceCtorEq, if_false, if_true, addOneCycle, key, hlen]
      rfl

end PyYetiVerif.Srs
