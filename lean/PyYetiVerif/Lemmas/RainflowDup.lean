import PyYetiVerif.Lemmas.RainflowStruct
/-! What inserting a copy of an INTERIOR point next to itself does to the rainflow table (core Lean only). -/
set_option linter.unusedSectionVars false
set_option linter.unusedVariables false
namespace PyYetiVerif.Rainflow

variable {α : Type} [Sub α] [Add α] [LT α] [DecidableLT α]

theorem index_append (l1 l2 : List α) (k : Nat) :
    index (l1 ++ l2) k = index l1 k ++ index l2 (k + l1.length) := by
  induction l1 generalizing k with
  | nil => simp [index]
  | cons x xs ih =>
      simp only [List.cons_append, index, ih, List.length_cons]
      have : k + 1 + xs.length = k + (xs.length + 1) := by omega
      rw [this]

theorem finish_snoc (l : List (α × Nat)) (a b : α × Nat) :
    finish (l ++ [a, b]) = finish (l ++ [a]) ++ [mkCyc false a b] := by
  induction l with
  | nil => simp [finish]
  | cons c l ih =>
      cases l with
      | nil => simp [finish]
      | cons d l' =>
          simp only [List.cons_append] at ih ⊢
          rw [finish, finish, ih]; simp

/-- reading a copy `x'` of the top `x` of the stack `x :: w :: rest` changes nothing yet -/
theorem plateau_read (x x' w : α × Nat) (rest : List (α × Nat)) (rows : List (Cyc α))
    (h1 : absd x.1 x'.1 < absd w.1 x.1) :
    step (x :: w :: rest, rows) x' = (x' :: x :: w :: rest, rows) := by
  simp only [step]
  cases rest with
  | nil => rw [reduce]; simp [h1]
  | cons r rest => rw [reduce]; simp [h1]

/-- **a repeated interior point**: `pre ++ [x]` has been read and left the stack `x :: w :: rest` (top `x`,
`w` differs from `x`: `h1`; no range is below `absd x x`: `h2`).  (1) If the copy is the LAST point it is KEPT:
the table only gains the zero-range half cycle `(x, x')` at its end.  (2) If any point `y` follows, BOTH copies
are ERASED: the pair is counted as one zero-range FULL cycle and the machine goes on from the stack `w :: rest`,
whereas (3) without the copy it goes on from `x :: w :: rest`. -/
theorem duplicate_interior_aux (pre : List α) (x : α) (w : α × Nat) (rest : List (α × Nat)) (rows : List (Cyc α))
    (hrun : run (index (pre ++ [x]) 0) = ((x, pre.length) :: w :: rest, rows))
    (h1 : absd x x < absd w.1 x) (h2 : ∀ y : α, ¬ absd x y < absd x x) :
    rainflow (pre ++ [x, x]) = rainflow (pre ++ [x]) ++ [mkCyc false (x, pre.length) (x, pre.length + 1)] ∧
    ∀ (y : α) (post : List α),
      rainflow (pre ++ x :: x :: y :: post) =
        ((index (y :: post) (pre.length + 2)).foldl step
            (w :: rest, rows ++ [mkCyc true (x, pre.length) (x, pre.length + 1)])).2 ++
          finish ((index (y :: post) (pre.length + 2)).foldl step
            (w :: rest, rows ++ [mkCyc true (x, pre.length) (x, pre.length + 1)])).1.reverse ∧
      rainflow (pre ++ x :: y :: post) =
        ((index (y :: post) (pre.length + 1)).foldl step ((x, pre.length) :: w :: rest, rows)).2 ++
          finish ((index (y :: post) (pre.length + 1)).foldl step ((x, pre.length) :: w :: rest, rows)).1.reverse := by
  have hrun' : (index (pre ++ [x]) 0).foldl step ([], []) = ((x, pre.length) :: w :: rest, rows) := hrun
  constructor
  · have hA : index (pre ++ [x, x]) 0 = index (pre ++ [x]) 0 ++ [(x, pre.length + 1)] := by
      have : pre ++ [x, x] = (pre ++ [x]) ++ [x] := by simp
      rw [this, index_append]; simp [index]
    have hrev : ((x, pre.length + 1) :: (x, pre.length) :: w :: rest).reverse
        = (w :: rest).reverse ++ [(x, pre.length), (x, pre.length + 1)] := by simp
    have hrev2 : ((x, pre.length) :: w :: rest).reverse = (w :: rest).reverse ++ [(x, pre.length)] := by simp
    unfold rainflow run
    simp only [hA, List.foldl_append, hrun', List.foldl_cons, List.foldl_nil]
    rw [plateau_read _ _ _ _ _ h1, hrev, finish_snoc, hrev2, List.append_assoc]
  · intro y post
    have hB : index (pre ++ x :: x :: y :: post) 0
        = index (pre ++ [x]) 0 ++ (x, pre.length + 1) :: (y, pre.length + 2) :: index post (pre.length + 3) := by
      have : pre ++ x :: x :: y :: post = (pre ++ [x]) ++ (x :: y :: post) := by simp
      rw [this, index_append]; simp [index]
    have hC : index (pre ++ x :: y :: post) 0
        = index (pre ++ [x]) 0 ++ (y, pre.length + 1) :: index post (pre.length + 2) := by
      have : pre ++ x :: y :: post = (pre ++ [x]) ++ (y :: post) := by simp
      rw [this, index_append]; simp [index]
    constructor
    · unfold rainflow run
      simp only [hB, List.foldl_append, hrun', List.foldl_cons, index]
      rw [plateau_step _ _ _ _ _ _ h1 (h2 y)]
      simp only [step, List.append_assoc, List.cons_append, List.nil_append]
    · unfold rainflow run
      simp only [hC, List.foldl_append, hrun', List.foldl_cons, index]

end PyYetiVerif.Rainflow
