import PyYetiVerif.Model.Rainflow
/-! Helper lemmas for C05 (core Lean only). -/
set_option linter.unusedSectionVars false
namespace PyYetiVerif.Rainflow

variable {α : Type} [Sub α] [Add α] [LT α] [DecidableLT α]

/-- weight of a table: 2 per full cycle, 1 per half cycle (= 2·Σcount). -/
def weight (cs : List (Cyc α)) : Nat := (cs.map fun c => if c.full then 2 else 1).sum

@[simp] theorem weight_nil : weight ([] : List (Cyc α)) = 0 := rfl
@[simp] theorem weight_cons (c : Cyc α) (cs) : weight (c :: cs) = (if c.full then 2 else 1) + weight cs := by
  simp [weight]
@[simp] theorem weight_append (a b : List (Cyc α)) : weight (a ++ b) = weight a + weight b := by
  simp [weight]

/-- `reduce` conserves (stack length + weight emitted). -/
theorem reduce_conserve (st : List (α × Nat)) :
    (reduce st).1.length + weight (reduce st).2 = st.length := by
  fun_induction reduce st with
  | case1 c b a h => simp
  | case2 c b a h => simp [mkCyc]
  | case3 c b a r rest h => simp
  | case4 c b a r rest h res ih =>
      simp only [List.length_cons, weight_cons, mkCyc, res] at ih ⊢
      simp only [if_true]
      omega
  | case5 st h1 h2 => simp

theorem reduce_nonempty (st : List (α × Nat)) (h : st ≠ []) : (reduce st).1 ≠ [] := by
  fun_induction reduce st with
  | case4 c b a r rest h res ih => simpa [res] using ih
  | _ => simp_all

end PyYetiVerif.Rainflow

namespace PyYetiVerif.Rainflow
variable {α : Type} [Sub α] [Add α] [LT α] [DecidableLT α]

theorem run_conserve_aux (pts : List (α × Nat)) (acc : List (α × Nat) × List (Cyc α)) :
    (pts.foldl step acc).1.length + weight (pts.foldl step acc).2
      = acc.1.length + weight acc.2 + pts.length := by
  induction pts generalizing acc with
  | nil => simp
  | cons p ps ih =>
      rw [List.foldl_cons, ih]
      have := reduce_conserve (p :: acc.1)
      simp only [step, weight_append, List.length_cons] at this ⊢
      omega

theorem run_conserve (pts : List (α × Nat)) :
    (run pts).1.length + weight (run pts).2 = pts.length := by
  simpa [run] using run_conserve_aux pts ([], [])

theorem run_nonempty_aux (pts : List (α × Nat)) (acc : List (α × Nat) × List (Cyc α))
    (h : pts ≠ [] ∨ acc.1 ≠ []) : (pts.foldl step acc).1 ≠ [] := by
  induction pts generalizing acc with
  | nil => simpa using h
  | cons p ps ih =>
      rw [List.foldl_cons]
      apply ih
      right
      exact reduce_nonempty _ (by simp)

theorem weight_finish (l : List (α × Nat)) : weight (finish l) = l.length - 1 := by
  fun_induction finish l with
  | case1 a b rest ih => simp [mkCyc] at ih ⊢; omega
  | case2 l h =>
      match l, h with
      | [], _ => simp
      | [a], _ => simp
      | a :: b :: r, h => exact absurd rfl (h a b r)

@[simp] theorem index_length (pts : List α) (k : Nat) : (index pts k).length = pts.length := by
  induction pts generalizing k with
  | nil => rfl
  | cons x xs ih => simp [index, ih]

theorem weight_rainflow (pts : List α) : weight (rainflow pts) = pts.length - 1 := by
  unfold rainflow
  simp only [weight_append, weight_finish, List.length_reverse]
  have h := run_conserve (index pts 0)
  rw [index_length] at h
  cases pts with
  | nil => simp [index, run]
  | cons x xs =>
      have hne : (run (index (x :: xs) 0)).1 ≠ [] := by
        unfold run; apply run_nonempty_aux; left; simp [index]
      have : 0 < (run (index (x :: xs) 0)).1.length := List.length_pos_iff.mpr hne
      omega

theorem weight_eq_length_add_full (cs : List (Cyc α)) :
    weight cs = cs.length + (cs.filter (·.full)).length := by
  induction cs with
  | nil => rfl
  | cons c cs ih =>
      cases hc : c.full <;> simp [hc, ih, List.filter_cons] <;> omega

end PyYetiVerif.Rainflow

namespace PyYetiVerif.Rainflow
variable {α : Type} [Sub α] [Add α] [LT α] [DecidableLT α]

/-! ### cycle values and offsets -/

/-- every stack entry is a point of the input with its own offset -/
def StackOK (pts : List α) (st : List (α × Nat)) : Prop :=
  (∀ p ∈ st, pts[p.2]? = some p.1) ∧ st.Pairwise (fun x y => y.2 < x.2)

/-- a row names two input points `s < e` and carries their range and sum -/
def CycOK (pts : List α) (c : Cyc α) : Prop :=
  c.s < c.e ∧ c.e < pts.length ∧
    ∃ a b, pts[c.s]? = some a ∧ pts[c.e]? = some b ∧ c.rng = absd a b ∧ c.sum = a + b

theorem mkCyc_ok (pts : List α) (full : Bool) (a b : α × Nat)
    (ha : pts[a.2]? = some a.1) (hb : pts[b.2]? = some b.1) (hab : a.2 < b.2) :
    CycOK pts (mkCyc full a b) := by
  refine ⟨hab, ?_, a.1, b.1, ha, hb, rfl, rfl⟩
  simp only [mkCyc]
  exact (List.getElem?_eq_some_iff.mp hb).1

theorem reduce_ok (pts : List α) (st : List (α × Nat)) (h : StackOK pts st) :
    StackOK pts (reduce st).1 ∧ ∀ c ∈ (reduce st).2, CycOK pts c := by
  fun_induction reduce st with
  | case1 c b a hlt => exact ⟨h, by simp⟩
  | case2 c b a hlt =>
      obtain ⟨hm, hp⟩ := h
      simp only [List.pairwise_cons, List.mem_cons, List.mem_nil_iff, or_false, forall_eq_or_imp,
        forall_eq] at hp hm
      refine ⟨⟨?_, ?_⟩, ?_⟩
      · intro p hpm
        simp only [List.mem_cons, List.mem_nil_iff, or_false] at hpm
        rcases hpm with rfl | rfl
        · exact hm.1
        · exact hm.2.1
      · simp [hp.1.1]
      · intro x hx
        simp only [List.mem_cons, List.mem_nil_iff, or_false] at hx
        subst hx
        exact mkCyc_ok pts false a b hm.2.2 hm.2.1 hp.2.1
  | case3 c b a r rest hlt => exact ⟨h, by simp⟩
  | case4 c b a r rest hlt res ih =>
      obtain ⟨hm, hp⟩ := h
      have hsub : StackOK pts (c :: r :: rest) := by
        refine ⟨fun p hpm => hm p ?_, ?_⟩
        · simp only [List.mem_cons] at hpm ⊢
          rcases hpm with h | h | h
          · exact Or.inl h
          · exact Or.inr (Or.inr (Or.inr (Or.inl h)))
          · exact Or.inr (Or.inr (Or.inr (Or.inr h)))
        · simp only [List.pairwise_cons, List.mem_cons, forall_eq_or_imp] at hp ⊢
          exact ⟨⟨hp.1.2.2.1, hp.1.2.2.2⟩, hp.2.2.2⟩
      obtain ⟨ih1, ih2⟩ := ih hsub
      refine ⟨ih1, ?_⟩
      intro x hx
      simp only [List.mem_cons] at hx
      rcases hx with rfl | hx
      · simp only [List.pairwise_cons, List.mem_cons, forall_eq_or_imp] at hp
        exact mkCyc_ok pts true a b (hm a (by simp)) (hm b (by simp)) hp.2.1.1
      · exact ih2 x hx
  | case5 st h1 h2 => exact ⟨h, by simp⟩

theorem index_mem (pts : List α) (k : Nat) (p : α × Nat) (hp : p ∈ index pts k) :
    k ≤ p.2 ∧ pts[p.2 - k]? = some p.1 := by
  induction pts generalizing k with
  | nil => simp [index] at hp
  | cons x xs ih =>
      simp only [index, List.mem_cons] at hp
      rcases hp with rfl | hp
      · simp
      · obtain ⟨h1, h2⟩ := ih (k + 1) hp
        refine ⟨by omega, ?_⟩
        have : p.2 - k = (p.2 - (k + 1)) + 1 := by omega
        rw [this, List.getElem?_cons_succ]; exact h2

/-- while folding, offsets pushed later are larger than everything on the stack -/
theorem run_ok_aux (pts : List α) (ps : List (α × Nat)) (k : Nat)
    (acc : List (α × Nat) × List (Cyc α))
    (hps : ps = index (pts.drop k) k)
    (hst : StackOK pts acc.1) (hlt : ∀ p ∈ acc.1, p.2 < k)
    (hout : ∀ c ∈ acc.2, CycOK pts c) :
    StackOK pts (ps.foldl step acc).1 ∧ ∀ c ∈ (ps.foldl step acc).2, CycOK pts c := by
  induction ps generalizing k acc with
  | nil => exact ⟨hst, hout⟩
  | cons p ps ih =>
      rw [List.foldl_cons]
      have hk : k < pts.length := by
        rcases Nat.lt_or_ge k pts.length with h | hge
        · exact h
        · have : pts.drop k = [] := List.drop_eq_nil_of_le hge
          rw [this] at hps; simp [index] at hps
      have hd : pts.drop k = pts[k] :: pts.drop (k + 1) := by
        exact List.drop_eq_getElem_cons hk
      rw [hd] at hps
      simp only [index, List.cons.injEq] at hps
      obtain ⟨rfl, hps'⟩ := hps
      have hpush : StackOK pts ((pts[k], k) :: acc.1) := by
        refine ⟨?_, ?_⟩
        · intro q hq
          simp only [List.mem_cons] at hq
          rcases hq with rfl | hq
          · simp
          · exact hst.1 q hq
        · simp only [List.pairwise_cons]
          exact ⟨fun q hq => hlt q hq, hst.2⟩
      have hr := reduce_ok pts _ hpush
      apply ih (k + 1) (step acc (pts[k], k)) hps'
      · exact hr.1
      · -- entries of the reduced stack are entries of the pushed stack, by StackOK + bound
        intro q hq
        have hq' := hr.1.1 q hq
        -- need q.2 < k+1: use that reduce only keeps elements of its input
        have : q ∈ ((pts[k], k) :: acc.1) := reduce_sub _ q hq
        simp only [List.mem_cons] at this
        rcases this with rfl | h
        · simp
        · have := hlt q h; omega
      · intro c hc
        simp only [step, List.mem_append] at hc
        rcases hc with hc | hc
        · exact hout c hc
        · exact hr.2 c hc
where
  reduce_sub (st : List (α × Nat)) (q : α × Nat) (hq : q ∈ (reduce st).1) : q ∈ st := by
    fun_induction reduce st with
    | case1 c b a h => exact hq
    | case2 c b a h =>
        simp only [List.mem_cons, List.mem_nil_iff, or_false] at hq ⊢
        rcases hq with h | h
        · exact Or.inl h
        · exact Or.inr (Or.inl h)
    | case3 c b a r rest h => exact hq
    | case4 c b a r rest h res ih =>
        have := ih hq
        simp only [List.mem_cons] at this ⊢
        rcases this with h | h | h
        · exact Or.inl h
        · exact Or.inr (Or.inr (Or.inr (Or.inl h)))
        · exact Or.inr (Or.inr (Or.inr (Or.inr h)))
    | case5 st h1 h2 => exact hq

theorem finish_ok (pts : List α) (l : List (α × Nat))
    (hm : ∀ p ∈ l, pts[p.2]? = some p.1) (hp : l.Pairwise (fun x y => x.2 < y.2)) :
    ∀ c ∈ finish l, CycOK pts c := by
  fun_induction finish l with
  | case1 a b rest ih =>
      intro c hc
      simp only [List.mem_cons] at hc
      rcases hc with rfl | hc
      · simp only [List.pairwise_cons, List.mem_cons, forall_eq_or_imp] at hp
        exact mkCyc_ok pts false a b (hm a (by simp)) (hm b (by simp)) hp.1.1
      · exact ih (fun p hpm => hm p (List.mem_cons_of_mem _ hpm)) (List.Pairwise.of_cons hp) c hc
  | case2 l h => simp

theorem rainflow_ok (pts : List α) : ∀ c ∈ rainflow pts, CycOK pts c := by
  intro c hc
  unfold rainflow at hc
  have h := run_ok_aux pts (index pts 0) 0 ([], []) (by simp) ⟨by simp, by simp⟩ (by simp) (by simp)
  simp only [List.mem_append] at hc
  rcases hc with hc | hc
  · exact h.2 c hc
  · refine finish_ok pts _ ?_ ?_ c hc
    · intro p hp; exact h.1.1 p (List.mem_reverse.mp hp)
    · rw [List.pairwise_reverse]; exact h.1.2

end PyYetiVerif.Rainflow

namespace PyYetiVerif.Rainflow
variable {α : Type} [Sub α] [Add α] [LT α] [DecidableLT α]

/-! ### the variant without offsets computes the same table -/

def strip (c : Cyc α) : α × α × Bool := (c.rng, c.sum, c.full)

theorem reduce1_eq (st : List (α × Nat)) :
    reduce1 (st.map Prod.fst) = ((reduce st).1.map Prod.fst, (reduce st).2.map strip) := by
  fun_induction reduce st with
  | case1 c b a h => simp [reduce1, h]
  | case2 c b a h => simp [reduce1, h, strip, mkCyc]
  | case3 c b a r rest h => simp [reduce1, h]
  | case4 c b a r rest h res ih =>
      simp only [List.map_cons] at ih ⊢
      rw [reduce1]
      simp only [h, if_false, ih, res, List.map_cons, strip, mkCyc]
  | case5 st h1 h2 =>
      match st, h1, h2 with
      | [], _, _ => simp [reduce1]
      | [a], _, _ => simp [reduce1]
      | [a, b], _, _ => simp [reduce1]
      | [c, b, a], h1, _ => exact absurd rfl (h1 c b a)
      | c :: b :: a :: r :: rest, _, h2 => exact absurd rfl (h2 c b a r rest)

theorem finish1_eq (l : List (α × Nat)) :
    finish1 (l.map Prod.fst) = (finish l).map strip := by
  fun_induction finish l with
  | case1 a b rest ih => simp only [List.map_cons] at ih ⊢; simp [finish1, ih, strip, mkCyc]
  | case2 l h =>
      match l, h with
      | [], _ => simp [finish1]
      | [a], _ => simp [finish1]
      | a :: b :: r, h => exact absurd rfl (h a b r)

theorem fold1_eq (ps : List (α × Nat)) (acc : List (α × Nat) × List (Cyc α)) :
    (ps.map Prod.fst).foldl step1 (acc.1.map Prod.fst, acc.2.map strip)
      = ((ps.foldl step acc).1.map Prod.fst, (ps.foldl step acc).2.map strip) := by
  induction ps generalizing acc with
  | nil => rfl
  | cons p ps ih =>
      simp only [List.map_cons, List.foldl_cons]
      have : step1 (acc.1.map Prod.fst, acc.2.map strip) p.1
          = ((step acc p).1.map Prod.fst, (step acc p).2.map strip) := by
        simp only [step1, step]
        have h := reduce1_eq (p :: acc.1)
        simp only [List.map_cons] at h
        rw [h]; simp
      rw [this, ih]

@[simp] theorem index_map_fst (pts : List α) (k : Nat) : (index pts k).map Prod.fst = pts := by
  induction pts generalizing k with
  | nil => rfl
  | cons x xs ih => simp [index, ih]

theorem rainflow1_eq (pts : List α) : rainflow1 pts = (rainflow pts).map strip := by
  unfold rainflow1 rainflow run
  have h := fold1_eq (index pts 0) ([], [])
  simp only [index_map_fst, List.map_nil] at h
  rw [h]
  simp only [List.map_append, ← finish1_eq, List.map_reverse]

/-! ### the loop really stops where the code's `break` / `j > 1` test says -/

/-- the stack is at a point where the `while` loop exits -/
def Done : List (α × Nat) → Prop
  | c :: b :: a :: _ => absd b.1 c.1 < absd a.1 b.1
  | _ => True

theorem reduce_done (st : List (α × Nat)) : Done (reduce st).1 := by
  fun_induction reduce st with
  | case1 c b a h => exact h
  | case2 c b a h => trivial
  | case3 c b a r rest h => exact h
  | case4 c b a r rest h res ih => exact ih
  | case5 st h1 h2 =>
      match st, h1, h2 with
      | [], _, _ => trivial
      | [a], _, _ => trivial
      | [a, b], _, _ => trivial
      | [c, b, a], h1, _ => exact absurd rfl (h1 c b a)
      | c :: b :: a :: r :: rest, _, h2 => exact absurd rfl (h2 c b a r rest)

/-! ### equivariance -/

def mapCyc {β : Type} (g h : α → β) (c : Cyc α) : Cyc β :=
  { rng := g c.rng, sum := h c.sum, full := c.full, s := c.s, e := c.e }

section equivariance
variable {β : Type} [Sub β] [Add β] [LT β] [DecidableLT β]
variable (f g h : α → β)
variable (hg : ∀ a b : α, absd (f a) (f b) = g (absd a b))
variable (hmono : ∀ a b c d : α, (g (absd a b) < g (absd c d)) ↔ (absd a b < absd c d))
variable (hh : ∀ a b : α, f a + f b = h (a + b))

def mapPt (p : α × Nat) : β × Nat := (f p.1, p.2)

include hg hmono hh in
theorem reduce_map (st : List (α × Nat)) :
    reduce (st.map (mapPt f)) = ((reduce st).1.map (mapPt f), (reduce st).2.map (mapCyc g h)) := by
  fun_induction reduce st with
  | case1 c b a hlt =>
      simp only [List.map_cons, List.map_nil, mapPt]
      rw [reduce]; simp only [hg, hmono, hlt, if_true]
  | case2 c b a hlt =>
      simp only [List.map_cons, List.map_nil, mapPt]
      rw [reduce]; simp only [hg, hmono, hlt, if_false, mkCyc, mapCyc, hh]
  | case3 c b a r rest hlt =>
      simp only [List.map_cons, mapPt]
      rw [reduce]; simp only [hg, hmono, hlt, if_true, List.map_nil]
  | case4 c b a r rest hlt res ih =>
      simp only [List.map_cons, mapPt] at ih ⊢
      rw [reduce]; simp only [hg, hmono, hlt, if_false, ih, res, mkCyc, mapCyc, hh, List.map_cons]
  | case5 st h1 h2 =>
      match st, h1, h2 with
      | [], _, _ => simp [reduce]
      | [a], _, _ => simp [reduce]
      | [a, b], _, _ => simp [reduce]
      | [c, b, a], h1, _ => exact absurd rfl (h1 c b a)
      | c :: b :: a :: r :: rest, _, h2 => exact absurd rfl (h2 c b a r rest)

include hg hh in
theorem finish_map (l : List (α × Nat)) :
    finish (l.map (mapPt f)) = (finish l).map (mapCyc g h) := by
  fun_induction finish l with
  | case1 a b rest ih =>
      simp only [List.map_cons] at ih ⊢
      rw [finish, ih]
      simp [mkCyc, mapCyc, mapPt, hg, hh]
  | case2 l hl =>
      match l, hl with
      | [], _ => simp [finish]
      | [a], _ => simp [finish]
      | a :: b :: r, hl => exact absurd rfl (hl a b r)

include hg hmono hh in
theorem fold_map (ps : List (α × Nat)) (acc : List (α × Nat) × List (Cyc α)) :
    (ps.map (mapPt f)).foldl step (acc.1.map (mapPt f), acc.2.map (mapCyc g h))
      = ((ps.foldl step acc).1.map (mapPt f), (ps.foldl step acc).2.map (mapCyc g h)) := by
  induction ps generalizing acc with
  | nil => rfl
  | cons p ps ih =>
      simp only [List.map_cons, List.foldl_cons]
      have : step (acc.1.map (mapPt f), acc.2.map (mapCyc g h)) (mapPt f p)
          = ((step acc p).1.map (mapPt f), (step acc p).2.map (mapCyc g h)) := by
        simp only [step]
        have h1 := reduce_map f g h hg hmono hh (p :: acc.1)
        simp only [List.map_cons] at h1
        rw [h1]; simp
      rw [this, ih]

theorem index_map (pts : List α) (k : Nat) :
    index (pts.map f) k = (index pts k).map (mapPt f) := by
  induction pts generalizing k with
  | nil => rfl
  | cons x xs ih => simp [index, ih, mapPt]

include hg hmono hh in
/-- Generic equivariance: if `f` acts on points so that ranges go through a
comparison-preserving `g` and sums through `h`, the table is mapped row by row. -/
theorem rainflow_map (pts : List α) :
    rainflow (pts.map f) = (rainflow pts).map (mapCyc g h) := by
  unfold rainflow run
  rw [index_map]
  have h1 := fold_map f g h hg hmono hh (index pts 0) ([], [])
  simp only [List.map_nil] at h1
  rw [h1]
  simp only [List.map_append, ← List.map_reverse, finish_map f g h hg hh]

end equivariance

end PyYetiVerif.Rainflow

namespace PyYetiVerif.Rainflow
variable {α : Type} [Sub α] [Add α] [LT α] [DecidableLT α]

/-- (also makes the functional-induction helpers of `reduce1` exist upstream of every user) -/
theorem reduce1_nonempty (st : List α) (h : st ≠ []) : (reduce1 st).1 ≠ [] := by
  fun_induction reduce1 st with
  | case4 c b a r rest h res ih => simpa [res] using ih
  | _ => simp_all

end PyYetiVerif.Rainflow
