import PyYetiVerif.Lemmas.SrsPipe
import PyYetiVerif.Model.SrsExt
import Mathlib.Analysis.Complex.Basic
/-! Helper lemmas for C03: `srs.vrs` (merged grid, explicit area weights, `|H|²` as the squared
modulus of the complex transmissibility) and the `srs_frf` transfer function. -/
set_option linter.unusedVariables false
set_option linter.unusedSimpArgs false
set_option linter.unusedSectionVars false
namespace PyYetiVerif.Srs

/-! ### `np.unique(np.hstack((freq, Fn)))` -/

theorem mem_insertUniq (x : ℝ) (l : List ℝ) : ∀ a, a ∈ insertUniq x l ↔ a = x ∨ a ∈ l := by
  induction l with
  | nil => intro a; simp [insertUniq]
  | cons y ys ih =>
    intro a
    unfold insertUniq
    split_ifs with h1 h2
    · simp
    · simp only [List.mem_cons, ih]
      tauto
    · have : x = y := le_antisymm (not_lt.mp h2) (not_lt.mp h1)
      subst this
      simp

theorem insertUniq_sorted (x : ℝ) (l : List ℝ) (hl : l.Pairwise (· < ·)) :
    (insertUniq x l).Pairwise (· < ·) := by
  induction l with
  | nil => simp [insertUniq]
  | cons y ys ih =>
    rw [List.pairwise_cons] at hl
    unfold insertUniq
    split_ifs with h1 h2
    · rw [List.pairwise_cons]
      refine ⟨?_, List.pairwise_cons.mpr hl⟩
      intro a ha
      rcases List.mem_cons.mp ha with rfl | ha
      · exact h1
      · exact lt_trans h1 (hl.1 a ha)
    · rw [List.pairwise_cons]
      refine ⟨?_, ih hl.2⟩
      intro a ha
      rcases (mem_insertUniq x ys a).mp ha with rfl | ha
      · exact h2
      · exact hl.1 a ha
    · exact List.pairwise_cons.mpr hl

theorem mergeGrid_sorted' (freq fn : List ℝ) : (mergeGrid freq fn).Pairwise (· < ·) := by
  unfold mergeGrid
  induction (freq ++ fn) with
  | nil => simp
  | cons x l ih => exact insertUniq_sorted x _ ih

theorem mem_mergeGrid' (freq fn : List ℝ) (a : ℝ) : a ∈ mergeGrid freq fn ↔ a ∈ freq ∨ a ∈ fn := by
  unfold mergeGrid
  rw [← List.mem_append]
  induction (freq ++ fn) with
  | nil => simp
  | cons x l ih =>
    simp only [List.foldr_cons, mem_insertUniq, ih, List.mem_cons]

/-! ### the area weights as an explicit vector -/

theorem vrsInner_eq_dot (rest : List (ℝ × ℝ)) : ∀ p c gc : ℝ,
    vrsInner p c gc rest
      = dot (vrsWeightsInner p c (rest.map Prod.fst)) (gc :: rest.map Prod.snd) := by
  induction rest with
  | nil => intro p c gc; simp [vrsInner, vrsWeightsInner, dot]
  | cons x rest ih =>
    intro p c gc
    obtain ⟨n, gn⟩ := x
    simp only [vrsInner, List.map_cons, vrsWeightsInner, dot]
    rw [ih c n gn]

theorem vrsSum_eq_dot' (f0 g0 f1 g1 : ℝ) (rest : List (ℝ × ℝ)) :
    vrsSum ((f0, g0) :: (f1, g1) :: rest)
      = some (dot (vrsWeights (((f0, g0) :: (f1, g1) :: rest).map Prod.fst))
          (((f0, g0) :: (f1, g1) :: rest).map Prod.snd)) := by
  simp only [vrsSum, List.map_cons, vrsWeights, dot]
  rw [vrsInner_eq_dot]

/-! ### `|H|²` -/

/-- the complex transmissibility `H(p) = (1 + 2ζp j) / (1 - p² + 2ζp j)`, `p = Ω/ωn` (absolute
acceleration over base acceleration; srs.py, docstring of `srs_frf`) -/
noncomputable def Hc (zeta p : ℝ) : ℂ :=
  ((1 : ℝ) + (2 * zeta * p : ℝ) * Complex.I) / (((1 - p * p : ℝ) : ℂ) + (2 * zeta * p : ℝ) * Complex.I)

/-- the gain used by `vrs` is the squared modulus of the complex transmissibility -/
theorem vrsGain_eq_normSq' (zeta fn f : ℝ) :
    vrsGain zeta fn f = Complex.normSq (Hc zeta (f / fn)) := by
  unfold Hc
  rw [map_div₀, Complex.normSq_add_mul_I, Complex.normSq_add_mul_I]
  unfold vrsGain
  simp only
  ring

/-- `srs_frf`: relative acceleration response `Ω²/(ωn² - Ω² + j(ωn/Q)Ω)` plus the base motion
is the transmissibility `H`, whose squared modulus is the `vrs` gain -/
theorem srs_frf_gain' (Q wn W : ℝ) (hQ : Q ≠ 0) (hwn : wn ≠ 0) :
    Complex.normSq (((W * W : ℝ) : ℂ)
        / (((wn * wn - W * W : ℝ) : ℂ) + ((wn / Q * W : ℝ) : ℂ) * Complex.I) + 1)
      = vrsGain (1 / 2 / Q) wn W := by
  have hD : (wn * wn - W * W) ^ 2 + (wn / Q * W) ^ 2 ≠ 0 := by
    by_cases hW : W = 0
    · subst hW
      have : 0 < wn * wn := mul_self_pos.mpr hwn
      have h2 : 0 < (wn * wn - 0 * 0) ^ 2 := by
        have : wn * wn - 0 * 0 = wn * wn := by ring
        rw [this]; positivity
      have h3 : 0 ≤ (wn / Q * 0) ^ 2 := sq_nonneg _
      linarith
    · have h2 : 0 < (wn / Q * W) ^ 2 := by
        have : wn / Q * W ≠ 0 := mul_ne_zero (div_ne_zero hwn hQ) hW
        positivity
      have h3 : 0 ≤ (wn * wn - W * W) ^ 2 := sq_nonneg _
      linarith
  have hDc : (((wn * wn - W * W : ℝ) : ℂ) + ((wn / Q * W : ℝ) : ℂ) * Complex.I) ≠ 0 := by
    intro h0
    have := congrArg Complex.normSq h0
    rw [Complex.normSq_add_mul_I, map_zero] at this
    exact hD this
  have e : ((W * W : ℝ) : ℂ)
        / (((wn * wn - W * W : ℝ) : ℂ) + ((wn / Q * W : ℝ) : ℂ) * Complex.I) + 1
      = (((wn * wn : ℝ) : ℂ) + ((wn / Q * W : ℝ) : ℂ) * Complex.I)
        / (((wn * wn - W * W : ℝ) : ℂ) + ((wn / Q * W : ℝ) : ℂ) * Complex.I) := by
    rw [div_add_one hDc]
    congr 1
    push_cast
    ring
  rw [e, map_div₀, Complex.normSq_add_mul_I, Complex.normSq_add_mul_I]
  unfold vrsGain
  simp only
  have hden : (1 - W / wn * (W / wn)) * (1 - W / wn * (W / wn))
      + 2 * (1 / 2 / Q) * (W / wn) * (2 * (1 / 2 / Q) * (W / wn)) ≠ 0 := by
    have : (1 - W / wn * (W / wn)) * (1 - W / wn * (W / wn))
        + 2 * (1 / 2 / Q) * (W / wn) * (2 * (1 / 2 / Q) * (W / wn))
        = ((wn * wn - W * W) ^ 2 + (wn / Q * W) ^ 2) / (wn ^ 4) := by
      field_simp
    rw [this]
    exact div_ne_zero hD (pow_ne_zero 4 hwn)
  rw [div_eq_div_iff hD hden]
  field_simp

end PyYetiVerif.Srs
