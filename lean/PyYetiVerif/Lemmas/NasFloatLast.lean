import PyYetiVerif.Lemmas.NasFloatMixed
/-! C12: the final branches of `format_float8/16` (integers `dddddddd.` / `-ddddddd.`): below the
carry guard the rounded integer and the decimal point fill at most `W` characters. -/
set_option linter.unusedSimpArgs false
set_option linter.unusedVariables false
namespace PyYetiVerif.NasFloat
open PyYetiVerif.PyFloat PyYetiVerif.Generated.NasFloat

theorem rheDiv_one (a : Nat) : rheDiv a 1 = a := by
  unfold rheDiv
  simp only [Nat.div_one, Nat.mod_one, Nat.mul_zero]
  simp

/-- the integer field `[-]ddd.` / `ddd.0` of the final branches -/
def intFld (neg : Bool) (r : Nat) (fp : Str) : Fld := ⟨neg, natDigits r, fp, none⟩

theorem intFld_wf (neg : Bool) (r : Nat) (fp : Str) (hfp : fp = [] ∨ fp = ['0']) :
    (intFld neg r fp).wf = true := by
  have hne : natDigits r ≠ [] := by
    intro h; have := natDigits_length_pos r; rw [h] at this; simp at this
  have h1 : (natDigits r).all isDigit = true := (all_iff _).2 (natDigits_all_digit r)
  have h0 : isDigit '0' = true := by decide
  rcases hfp with rfl | rfl <;> simp [Fld.wf, intFld, h1, hne, h0]

theorem indexOf_dot (pad : Str) (u t : Str) (hpad : ∀ c ∈ pad, c ≠ '.') (hu : ∀ c ∈ u, c ≠ '.') :
    indexOf? '.' (pad ++ u ++ '.' :: t) = some (pad.length + u.length) := by
  unfold indexOf?
  have h := takeWhile_append_stop (· != '.') (pad ++ u) ('.' :: t) (by
    intro c hc
    rcases List.mem_append.1 hc with h | h
    · simpa using hpad c h
    · simpa using hu c h) (by simp)
  simp only [h.1, List.length_append, List.length_cons]
  have : pad.length + u.length < pad.length + u.length + (t.length + 1) := by omega
  simp [this]


/-- **final branch of the negative chain** (`-ddddddd.`): below the carry guard
`|x| < 10^(W-2) − ½` the branch writes the rounded integer and the decimal point in exactly `W`
characters. -/
theorem lastNeg_shape (W : Nat) (c : Sci) (hW : 3 ≤ W) (x : Dbl) (hneg : x.neg = true)
    (hd : 0 < x.den) (hg : 2 * x.num < (2 * 10 ^ (W - 2) - 1) * x.den) :
    lastNeg W c (1, W - 1) x =
      rjust W (intFld (decide (roundInt x < 0)) (roundInt x).natAbs []).text ∧
      (intFld (decide (roundInt x < 0)) (roundInt x).natAbs []).text.length ≤ W := by
  -- the rounded integer has at most W-2 digits
  have hr : rheDiv x.num x.den < 10 ^ (W - 2) :=
    rheDiv_lt_of_lt_half x.num x.den (10 ^ (W - 2)) (Nat.one_le_pow _ _ (by norm_num)) hg
  have hrabs : (roundInt x).natAbs = rheDiv x.num x.den := by
    unfold roundInt; simp [hneg]
  obtain ⟨k, hk⟩ : ∃ k, W - 2 = k + 1 := ⟨W - 3, by omega⟩
  have hL : (natDigits (rheDiv x.num x.den)).length ≤ W - 2 := by
    rw [hk]; exact natDigits_length_le k _ (by rw [← hk]; exact hr)
  -- the `%.1f` rendering and the index of its decimal point
  have h10 : rheDiv (x.num * 10 ^ 1) x.den < 10 ^ (W - 2) * 10 := by
    apply rheDiv_lt_of_lt_half _ _ _ (Nat.one_le_iff_ne_zero.2 (by positivity))
    obtain ⟨M', hM'⟩ : ∃ M', 10 ^ (W - 2) = M' + 1 :=
      ⟨10 ^ (W - 2) - 1, by have : 1 ≤ 10 ^ (W - 2) := Nat.one_le_pow _ _ (by norm_num); omega⟩
    rw [hM'] at hg ⊢
    have e1 : (2 * (M' + 1) - 1) * x.den = 2 * (M' * x.den) + x.den := by
      have : 2 * (M' + 1) - 1 = 2 * M' + 1 := by omega
      rw [this]; ring
    have e2 : (2 * ((M' + 1) * 10) - 1) * x.den = 20 * (M' * x.den) + 19 * x.den := by
      have : 2 * ((M' + 1) * 10) - 1 = 20 * M' + 19 := by omega
      rw [this]; ring
    rw [e1] at hg
    rw [e2, pow_one]
    omega
  have hI : rheDiv (x.num * 10 ^ 1) x.den / 10 ^ 1 < 10 ^ (W - 2) := by
    apply Nat.div_lt_of_lt_mul; rw [pow_one, mul_comm (10 : Nat)]; rw [pow_one] at h10; exact h10
  have hLI : (natDigits (rheDiv (x.num * 10 ^ 1) x.den / 10 ^ 1)).length ≤ W - 2 := by
    rw [hk]; exact natDigits_length_le k _ (by rw [← hk]; exact hI)
  have hfmt := fmtF_shape 1 (by norm_num) x
  rw [hneg] at hfmt
  simp only [if_true, List.singleton_append, List.cons_append] at hfmt
  have hidx : ∃ i, indexOf? '.' (rjust W (fmtF 1 x)) = some i ∧ i < W := by
    rw [hfmt, rjust]
    have := indexOf_dot (List.replicate (W - ('-' :: (natDigits (rheDiv (x.num * 10 ^ 1) x.den / 10 ^ 1) ++
        '.' :: fracDigits 1 (rheDiv (x.num * 10 ^ 1) x.den))).length) ' ')
      ('-' :: natDigits (rheDiv (x.num * 10 ^ 1) x.den / 10 ^ 1))
      (fracDigits 1 (rheDiv (x.num * 10 ^ 1) x.den))
      (by intro c hc; rw [List.eq_of_mem_replicate hc]; decide)
      (by
        intro c hc
        rcases List.mem_cons.1 hc with rfl | hc
        · decide
        · exact isDigit_ne c '.' (natDigits_all_digit _ c hc) (by decide))
    simp only [List.cons_append, List.append_assoc] at this
    refine ⟨_, this, ?_⟩
    simp only [List.length_replicate, List.length_cons, List.length_append, fracDigits_length]
    omega
  obtain ⟨i, hi, hiW⟩ := hidx
  constructor
  · unfold lastNeg
    simp only [hi, hiW, if_true]
    have hint : intStr (roundInt x) = (if roundInt x < 0 then ['-'] else []) ++ natDigits (roundInt x).natAbs := rfl
    have htext : (intFld (decide (roundInt x < 0)) (roundInt x).natAbs []).text =
        intStr (roundInt x) ++ ['.'] := by
      rw [hint]
      by_cases h : roundInt x < 0 <;> simp [intFld, Fld.text, Fld.mant, Fld.exText, h]
    rw [htext]
    have hlen : (intStr (roundInt x)).length ≤ W - 1 := by
      rw [hint, hrabs]
      by_cases h : roundInt x < 0 <;> simp [h] <;> omega
    simp only [rjust, List.length_append, List.length_cons, List.length_nil]
    have e : W - ((intStr (roundInt x)).length + 1) = W - 1 - (intStr (roundInt x)).length := by omega
    rw [e, List.append_assoc]
  · have : (intFld (decide (roundInt x < 0)) (roundInt x).natAbs []).text.length ≤ 1 + (W - 2) + 1 := by
      rw [hrabs]
      by_cases h : roundInt x < 0 <;> simp [intFld, Fld.text, Fld.mant, Fld.exText, h] <;> omega
    omega


/-- **final branch of the positive chain** (`dddddddd.`): below the carry guard
`x < 10^(W-1) − ½` the branch writes the rounded integer, the decimal point (and `0` when there is
room) in exactly `W` characters. -/
theorem lastPos_shape (W : Nat) (c : Sci) (hW : 2 ≤ W) (x : Dbl) (hneg : x.neg = false)
    (hd : 0 < x.den) (hg : 2 * x.num < (2 * 10 ^ (W - 1) - 1) * x.den) :
    ∃ fp, (fp = [] ∨ fp = ['0']) ∧
      lastPos W c (1, 1) x = rjust W (intFld false (rheDiv x.num x.den) fp).text ∧
      (intFld false (rheDiv x.num x.den) fp).text.length ≤ W := by
  have hr : rheDiv x.num x.den < 10 ^ (W - 1) :=
    rheDiv_lt_of_lt_half x.num x.den (10 ^ (W - 1)) (Nat.one_le_pow _ _ (by norm_num)) hg
  have hrint : roundInt x = (rheDiv x.num x.den : Int) := by
    unfold roundInt; simp [hneg]
  obtain ⟨k, hk⟩ : ∃ k, W - 1 = k + 1 := ⟨W - 2, by omega⟩
  have hL : (natDigits (rheDiv x.num x.den)).length ≤ W - 1 := by
    rw [hk]; exact natDigits_length_le k _ (by rw [← hk]; exact hr)
  have hLpos := natDigits_length_pos (rheDiv x.num x.den)
  have h10 : rheDiv (x.num * 10 ^ 1) x.den < 10 ^ (W - 1) * 10 := by
    apply rheDiv_lt_of_lt_half _ _ _ (Nat.one_le_iff_ne_zero.2 (by positivity))
    obtain ⟨M', hM'⟩ : ∃ M', 10 ^ (W - 1) = M' + 1 :=
      ⟨10 ^ (W - 1) - 1, by have : 1 ≤ 10 ^ (W - 1) := Nat.one_le_pow _ _ (by norm_num); omega⟩
    rw [hM'] at hg ⊢
    have e1 : (2 * (M' + 1) - 1) * x.den = 2 * (M' * x.den) + x.den := by
      have : 2 * (M' + 1) - 1 = 2 * M' + 1 := by omega
      rw [this]; ring
    have e2 : (2 * ((M' + 1) * 10) - 1) * x.den = 20 * (M' * x.den) + 19 * x.den := by
      have : 2 * ((M' + 1) * 10) - 1 = 20 * M' + 19 := by omega
      rw [this]; ring
    rw [e1] at hg
    rw [e2, pow_one]
    omega
  have hI : rheDiv (x.num * 10 ^ 1) x.den / 10 ^ 1 < 10 ^ (W - 1) := by
    apply Nat.div_lt_of_lt_mul; rw [pow_one, mul_comm (10 : Nat)]; rw [pow_one] at h10; exact h10
  have hLI : (natDigits (rheDiv (x.num * 10 ^ 1) x.den / 10 ^ 1)).length ≤ W - 1 := by
    rw [hk]; exact natDigits_length_le k _ (by rw [← hk]; exact hI)
  have hfmt := fmtF_shape 1 (by norm_num) x
  rw [hneg] at hfmt
  simp only [Bool.false_eq_true, if_false, List.nil_append] at hfmt
  have hidx : ∃ i, indexOf? '.' (rjust W (fmtF 1 x)) = some i ∧ i < W := by
    rw [hfmt, rjust]
    have := indexOf_dot (List.replicate (W - (natDigits (rheDiv (x.num * 10 ^ 1) x.den / 10 ^ 1) ++
        '.' :: fracDigits 1 (rheDiv (x.num * 10 ^ 1) x.den)).length) ' ')
      (natDigits (rheDiv (x.num * 10 ^ 1) x.den / 10 ^ 1))
      (fracDigits 1 (rheDiv (x.num * 10 ^ 1) x.den))
      (by intro c hc; rw [List.eq_of_mem_replicate hc]; decide)
      (fun c hc => isDigit_ne c '.' (natDigits_all_digit _ c hc) (by decide))
    simp only [List.append_assoc] at this
    refine ⟨_, this, ?_⟩
    have hp := natDigits_length_pos (rheDiv (x.num * 10 ^ 1) x.den / 10 ^ 1)
    simp only [List.length_replicate, List.length_cons, List.length_append, fracDigits_length]
    omega
  obtain ⟨i, hi, hiW⟩ := hidx
  -- the second rendering: `round(value)` with one decimal
  have hsecond : fmtFixedN 1 (decide (roundInt x < 0)) (roundInt x).natAbs 1 =
      natDigits (rheDiv x.num x.den) ++ ['.', '0'] := by
    have h1 : decide (roundInt x < 0) = false := by rw [hrint]; simp
    have h2 : (roundInt x).natAbs = rheDiv x.num x.den := by rw [hrint]; simp
    rw [h1, h2]
    unfold fmtFixedN
    simp only [rheDiv_one, pow_one, Bool.false_eq_true, if_false, List.nil_append, one_ne_zero]
    have e1 : rheDiv x.num x.den * 10 / 10 = rheDiv x.num x.den := Nat.mul_div_cancel _ (by norm_num)
    have e2 : fracDigits 1 (rheDiv x.num x.den * 10) = ['0'] := by
      simp [fracDigits, digitChar_zero]
    rw [e1, e2]
  unfold lastPos
  simp only [hi, hiW, if_true, hsecond]
  rcases Nat.lt_or_ge ((natDigits (rheDiv x.num x.den)).length + 2) (W + 1) with hshort | hfull
  · refine ⟨['0'], Or.inr rfl, ?_, ?_⟩
    · have htext : (intFld false (rheDiv x.num x.den) ['0']).text =
          natDigits (rheDiv x.num x.den) ++ ['.', '0'] := by
        simp [intFld, Fld.text, Fld.mant, Fld.exText]
      rw [htext]
      apply List.take_of_length_le
      rw [rjust_length_of_le _ _ (by simp; omega)]
    · simp [intFld, Fld.text, Fld.mant, Fld.exText]; omega
  · refine ⟨[], Or.inl rfl, ?_, ?_⟩
    · have htext : (intFld false (rheDiv x.num x.den) []).text =
          natDigits (rheDiv x.num x.den) ++ ['.'] := by
        simp [intFld, Fld.text, Fld.mant, Fld.exText]
      have hlenW : (natDigits (rheDiv x.num x.den)).length + 1 = W := by omega
      rw [htext, rjust_of_ge W (natDigits (rheDiv x.num x.den) ++ ['.', '0']) (by simp; omega),
        rjust_of_ge W (natDigits (rheDiv x.num x.den) ++ ['.']) (by simp; omega)]
      have e : natDigits (rheDiv x.num x.den) ++ ['.', '0'] =
          (natDigits (rheDiv x.num x.den) ++ ['.']) ++ ['0'] := by simp
      rw [e, ← hlenW]
      have : (natDigits (rheDiv x.num x.den)).length + 1 = (natDigits (rheDiv x.num x.den) ++ ['.']).length := by
        simp
      rw [this, List.take_left]
    · simp [intFld, Fld.text, Fld.mant, Fld.exText]; omega


theorem intFld_rat (neg : Bool) (r : Nat) (fp : Str) (hfp : fp = [] ∨ fp = ['0']) :
    decRat (intFld neg r fp).dec = (if neg then -1 else 1) * (r : ℚ) := by
  have hval : digitsVal ((intFld neg r fp).ip ++ (intFld neg r fp).fp) *
      10 ^ (fp.length - (intFld neg r fp).fp.length) = r * 10 ^ fp.length := by
    simp only [intFld, Nat.sub_self, pow_zero, mul_one]
    rw [digitsVal_append, digitsVal_natDigits]
    rcases hfp with rfl | rfl <;> simp [digitsVal]
  rw [fld_rat (intFld neg r fp) fp.length (r * 10 ^ fp.length) (le_refl _) hval]
  have hex : (intFld neg r fp).expVal = 0 := rfl
  have hn : (intFld neg r fp).neg = neg := rfl
  rw [hex, hn]
  congr 1
  push_cast
  rw [zero_sub, zpow_neg, zpow_natCast]
  field_simp

/-- `|round_half_even(|x|) − |x|| ≤ ½` for the integer written by a final branch -/
theorem int_rat_err (neg : Bool) (x : Dbl) (hd : 0 < x.den) (hneg : x.neg = neg) (fp : Str)
    (hfp : fp = [] ∨ fp = ['0']) :
    |decRat (intFld neg (rheDiv x.num x.den) fp).dec - dblRat x| ≤ 1 / 2 := by
  rw [intFld_rat neg _ fp hfp]
  unfold dblRat
  rw [hneg, sgn_abs]
  exact rheDiv_rat x.num x.den hd

end PyYetiVerif.NasFloat
