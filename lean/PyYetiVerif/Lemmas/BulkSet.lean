import PyYetiVerif.Lemmas.BulkText
/-! Helper lemmas for the case-control SET reader of C13 (core Lean only): `rdsets` on the physical
lines written by `wtset`. -/
namespace PyYetiVerif.Bulk

/-! ### `str.split(",")` -/

theorem splitOnChar_cons (c x : Char) (s : Txt) :
    splitOnChar c (x :: s) =
      if x = c then [] :: splitOnChar c s
      else ((x :: (splitOnChar c s).headD []) :: (splitOnChar c s).tail) := by
  unfold splitOnChar
  simp only [List.foldr_cons]
  split <;> rfl

theorem splitOnChar_none (c : Char) (s : Txt) (h : c ∉ s) : splitOnChar c s = [s] := by
  induction s with
  | nil => rfl
  | cons x r ih =>
      have hx : x ≠ c := fun e => h (by simp [e])
      rw [splitOnChar_cons, if_neg hx, ih (fun hm => h (by simp [hm]))]
      rfl

theorem splitOnChar_append (c : Char) (a b : Txt) (h : c ∉ a) :
    splitOnChar c (a ++ c :: b) = a :: splitOnChar c b := by
  induction a with
  | nil => simp [splitOnChar_cons]
  | cons x r ih =>
      have hx : x ≠ c := fun e => h (by simp [e])
      rw [List.cons_append, splitOnChar_cons, if_neg hx, ih (fun hm => h (by simp [hm]))]
      rfl

/-! ### prefix scans -/

theorem takeWhile_append_stop {α : Type} (p : α → Bool) (a b : List α) (ha : ∀ x ∈ a, p x = true)
    (hb : ∀ x, b.head? = some x → p x = false) : (a ++ b).takeWhile p = a := by
  induction a with
  | nil =>
      cases b with
      | nil => rfl
      | cons x r => simp [hb x rfl]
  | cons x r ih => simp [ha x (by simp), ih (fun y hy => ha y (by simp [hy]))]

theorem dropWhile_append_stop {α : Type} (p : α → Bool) (a b : List α) (ha : ∀ x ∈ a, p x = true)
    (hb : ∀ x, b.head? = some x → p x = false) : (a ++ b).dropWhile p = b := by
  induction a with
  | nil =>
      cases b with
      | nil => rfl
      | cons x r => simp [hb x rfl]
  | cons x r ih => simp [ha x (by simp), ih (fun y hy => ha y (by simp [hy]))]

theorem skipSp_blanks (k : Nat) (t : Txt) (h : ∀ x, t.head? = some x → x ≠ ' ') : skipSp (blanks k ++ t) = t := by
  unfold skipSp
  apply dropWhile_append_stop
  · intro x hx; simp [mem_blanks hx]
  · intro x hx; simp [h x hx]

/-! ### non-negative integers as text -/

theorem dec_nat_digits {n : Int} (h : 0 ≤ n) : (dec n).all Char.isDigit = true := by
  rw [List.all_eq_true]; exact dec_nonneg_digits h

theorem digitsVal_dec {n : Int} (h : 0 ≤ n) : (digitsVal (dec n) : Int) = n := by
  rw [dec_nonneg h, digitsVal_toDigits]; exact Int.toNat_of_nonneg h

theorem dec_head_digit {n : Int} (h : 0 ≤ n) : ∀ x, (dec n).head? = some x → x.isDigit = true :=
  fun x hx => dec_nonneg_digits h x (List.mem_of_mem_head? hx)

theorem digit_ne_space {x : Char} (h : x.isDigit = true) : x ≠ ' ' := by
  intro e; subst e; exact absurd h (by decide)

theorem digit_ne_comma {x : Char} (h : x.isDigit = true) : x ≠ ',' := by
  intro e; subst e; exact absurd h (by decide)

theorem toLower_of_isDigit {x : Char} (h : x.isDigit = true) : x.toLower = x := by
  unfold Char.toLower
  have hn : ¬ (x.val ≥ 'A'.val ∧ x.val ≤ 'Z'.val) := by
    rintro ⟨h1, _⟩
    simp only [Char.isDigit, Bool.and_eq_true, decide_eq_true_eq] at h
    have a := UInt32.le_iff_toNat_le.mp h.2
    have b := UInt32.le_iff_toNat_le.mp h1
    have c1 : ('9'.val).toNat = 57 := by decide
    have c2 : ('A'.val).toNat = 65 := by decide
    omega
  rw [dif_neg hn]

/-- characters at which the THRU scan cannot start -/
def NotT (c : Char) : Prop := c.toLower ≠ 't'

theorem notT_digit {x : Char} (h : x.isDigit = true) : NotT x := by
  unfold NotT
  rw [toLower_of_isDigit h]
  intro e; subst e; exact absurd h (by decide)

theorem notT_space : NotT ' ' := by unfold NotT; decide

/-! ### `(\d+)[ ]*THRU[ ]*(\d+)` -/

theorem thruMatch_step (pre : Txt) (c : Char) (r : Txt) (h : NotT c) :
    thruMatch pre (c :: r) = thruMatch (c :: pre) r := by
  have : ¬ (lower ((c :: r).take 4) = txt "thru") := by
    intro e
    have := congrArg List.head? e
    simp [lower, txt] at this
    exact h this
  simp only [thruMatch, this, if_false]

theorem thruMatch_skip (u v pre : Txt) (h : ∀ c ∈ u, NotT c) : thruMatch pre (u ++ v) = thruMatch (u.reverse ++ pre) v := by
  induction u generalizing pre with
  | nil => rfl
  | cons c r ih =>
      rw [List.cons_append, thruMatch_step pre c _ (h c (by simp)), ih _ (fun x hx => h x (by simp [hx]))]
      simp

theorem thruMatch_none (t pre : Txt) (h : ∀ c ∈ t, NotT c) : thruMatch pre t = none := by
  have := thruMatch_skip t [] pre h
  rw [List.append_nil] at this
  rw [this]; rfl

/-- the item `[ ]a THRU b` -/
theorem thruMatch_item (k : Nat) (a b : Int) (ha : 0 ≤ a) (hb : 0 ≤ b) :
    thruMatch [] (blanks k ++ dec a ++ txt " THRU " ++ dec b) = some (a.toNat, b.toNat) := by
  have e : blanks k ++ dec a ++ txt " THRU " ++ dec b = (blanks k ++ dec a ++ [' ']) ++ (txt "THRU " ++ dec b) := by
    simp [txt]
  have hu : ∀ c ∈ blanks k ++ dec a ++ [' '], NotT c := by
    intro c hc
    simp only [List.mem_append, List.mem_singleton] at hc
    rcases hc with (hc | hc) | hc
    · rw [mem_blanks hc]; exact notT_space
    · exact notT_digit (dec_nonneg_digits ha c hc)
    · rw [hc]; exact notT_space
  rw [e, thruMatch_skip _ _ [] hu]
  have hv : txt "THRU " ++ dec b = 'T' :: ('H' :: 'R' :: 'U' :: ' ' :: dec b) := by simp [txt]
  rw [hv]
  have hlow : lower (('T' :: ('H' :: 'R' :: 'U' :: ' ' :: dec b)).take 4) = txt "thru" := by
    simp only [List.take_succ_cons, List.take_zero]; decide
  have hpre : ((blanks k ++ dec a ++ [' ']).reverse ++ []) = ' ' :: ((dec a).reverse ++ blanks k) := by
    simp [blanks_reverse]
  have hA : ((' ' :: ((dec a).reverse ++ blanks k)).dropWhile (· = ' ')).takeWhile Char.isDigit = (dec a).reverse := by
    have h1 : (' ' :: ((dec a).reverse ++ blanks k)).dropWhile (· = ' ') = (dec a).reverse ++ blanks k := by
      have hne : (dec a).reverse ≠ [] := by simpa using dec_ne_nil a
      cases hq : (dec a).reverse with
      | nil => exact absurd hq hne
      | cons x r =>
          have hx : x.isDigit = true := dec_nonneg_digits ha x (by
            have : x ∈ (dec a).reverse := by rw [hq]; simp
            simpa using this)
          simp [digit_ne_space hx]
    rw [h1]
    apply takeWhile_append_stop
    · intro x hx; exact dec_nonneg_digits ha x (by simpa using hx)
    · intro x hx
      have := List.mem_of_mem_head? hx
      rw [mem_blanks this]; decide
  have hB : (skipSp (('T' :: ('H' :: 'R' :: 'U' :: ' ' :: dec b)).drop 4)).takeWhile Char.isDigit = dec b := by
    have : ('T' :: ('H' :: 'R' :: 'U' :: ' ' :: dec b)).drop 4 = blanks 1 ++ dec b := by simp [blanks]
    rw [this, skipSp_blanks 1 _ (fun x hx => digit_ne_space (dec_head_digit hb x hx))]
    exact takeWhile_all _ _ (dec_nonneg_digits hb)
  simp only [thruMatch, hlow, if_true, hpre, hA, hB]
  have e1 : (dec a).reverse.isEmpty = false := by
    cases hq : (dec a).reverse with
    | nil => exact absurd (by simpa using hq) (dec_ne_nil a)
    | cons => rfl
  have e2 : (dec b).isEmpty = false := by
    cases hq : dec b with
    | nil => exact absurd hq (dec_ne_nil b)
    | cons => rfl
  simp only [e1, e2, Bool.or_self, Bool.false_eq_true, if_false, List.reverse_reverse]
  rw [dec_nonneg ha, dec_nonneg hb, digitsVal_toDigits, digitsVal_toDigits]

/-! ### one item, one line -/

def Item.NonNeg : Item → Prop
  | .one x => 0 ≤ x
  | .thru a b => 0 ≤ a ∧ 0 ≤ b

/-- the loop body of `_rd_set_line` -/
def parseItem (item : Txt) : Option (List Int) :=
  match thruMatch [] item with
  | some (a, b) => some (rangeI a b)
  | none => (parseInt item).map ([·])

theorem rdSetLine_eq (line : Txt) : rdSetLine line = ((splitOnChar ',' line).mapM parseItem).map List.flatten := rfl

theorem parseItem_item (k : Nat) (it : Item) (h : it.NonNeg) : parseItem (blanks k ++ it.txt) = some it.expand := by
  cases it with
  | one x =>
      have hn : thruMatch [] (blanks k ++ dec x) = none := by
        apply thruMatch_none
        intro c hc
        rcases List.mem_append.mp hc with hc | hc
        · rw [mem_blanks hc]; exact notT_space
        · exact notT_digit (dec_nonneg_digits h c hc)
      have hp : parseInt (blanks k ++ dec x) = some x := by
        have := parseInt_pad k 0 x
        simpa [blanks] using this
      simp [parseItem, Item.txt, hn, hp, Item.expand]
  | thru a b =>
      obtain ⟨ha, hb⟩ := h
      have e : blanks k ++ (Item.thru a b).txt = blanks k ++ dec a ++ txt " THRU " ++ dec b := by
        simp [Item.txt]
      rw [e]
      simp only [parseItem, thruMatch_item k a b ha hb, Item.expand, Int.toNat_of_nonneg ha, Int.toNat_of_nonneg hb]

theorem item_chars (it : Item) (h : it.NonNeg) : ∀ c ∈ it.txt, c.isDigit = true ∨ c ∈ txt " THRU " := by
  intro c hc
  cases it with
  | one x => exact Or.inl (dec_nonneg_digits h c hc)
  | thru a b =>
      simp only [Item.txt, List.mem_append] at hc
      rcases hc with (hc | hc) | hc
      · exact Or.inl (dec_nonneg_digits h.1 c hc)
      · exact Or.inr hc
      · exact Or.inl (dec_nonneg_digits h.2 c hc)

theorem item_nocomma (it : Item) (h : it.NonNeg) : ',' ∉ it.txt := by
  intro hc
  rcases item_chars it h ',' hc with h | h
  · exact absurd h (by decide)
  · exact absurd h (by decide)

/-- first and last character of an item are digits -/
theorem item_ends (it : Item) (h : it.NonNeg) :
    (∃ c r, it.txt = c :: r ∧ c.isDigit = true) ∧ (∃ r c, it.txt = r ++ [c] ∧ c.isDigit = true) := by
  have hd : ∀ n : Int, 0 ≤ n → (∃ c r, dec n = c :: r ∧ c.isDigit = true) ∧ (∃ r c, dec n = r ++ [c] ∧ c.isDigit = true) := by
    intro n hn
    constructor
    · cases hq : dec n with
      | nil => exact absurd hq (dec_ne_nil n)
      | cons c r => exact ⟨c, r, rfl, dec_nonneg_digits hn c (by simp [hq])⟩
    · rcases List.eq_nil_or_concat (dec n) with hq | ⟨r, c, hq⟩
      · exact absurd hq (dec_ne_nil n)
      · exact ⟨r, c, by simpa using hq, dec_nonneg_digits hn c (by simp [hq])⟩
  cases it with
  | one x => exact hd x h
  | thru a b =>
      obtain ⟨⟨c, r, e1, h1⟩, _⟩ := hd a h.1
      obtain ⟨_, ⟨r', c', e2, h2⟩⟩ := hd b h.2
      exact ⟨⟨c, r ++ txt " THRU " ++ dec b, by simp [Item.txt, e1], h1⟩,
        ⟨dec a ++ txt " THRU " ++ r', c', by simp [Item.txt, e2], h2⟩⟩

/-- the text of items separated by `", "` -/
def joined : List Item → Txt
  | [] => []
  | [it] => it.txt
  | it :: r => it.txt ++ txt ", " ++ joined r

theorem joined_eq_setBody (I : List Item) : joined I = (setBody I).flatten := by
  induction I with
  | nil => rfl
  | cons it r ih =>
      cases r with
      | nil => simp [joined, setBody]
      | cons it' r' => simp only [joined, setBody, List.flatten_cons, ih, List.append_assoc]

theorem split_joined (it : Item) (I : List Item) (h : ∀ x ∈ it :: I, x.NonNeg) :
    splitOnChar ',' (joined (it :: I)) = it.txt :: I.map fun x => ' ' :: x.txt := by
  induction I generalizing it with
  | nil => simpa [joined] using splitOnChar_none ',' it.txt (item_nocomma it (h it (by simp)))
  | cons it' r ih =>
      have := ih it' (fun x hx => h x (by simp [hx]))
      have e : joined (it :: it' :: r) = it.txt ++ ',' :: (' ' :: joined (it' :: r)) := by simp [joined, txt]
      rw [e, splitOnChar_append ',' _ _ (item_nocomma it (h it (by simp))), splitOnChar_cons, if_neg (by decide), this]
      simp

theorem rdSetLine_joined (I : List Item) (hne : I ≠ []) (h : ∀ x ∈ I, x.NonNeg) :
    rdSetLine (joined I) = some (expand I) := by
  cases I with
  | nil => exact absurd rfl hne
  | cons it r =>
      rw [rdSetLine_eq, split_joined it r h]
      have h0 : parseItem it.txt = some it.expand := by
        have := parseItem_item 0 it (h it (by simp)); simpa [blanks] using this
      have hr : (r.map fun x => ' ' :: x.txt).mapM parseItem = some (r.map Item.expand) := by
        have : ∀ (r : List Item), (∀ x ∈ r, x.NonNeg) → (r.map fun x => ' ' :: x.txt).mapM parseItem = some (r.map Item.expand) := by
          intro r
          induction r with
          | nil => intro _; rfl
          | cons x xs ih =>
              intro hx
              have := parseItem_item 1 x (hx x (by simp))
              have e : blanks 1 ++ x.txt = ' ' :: x.txt := by simp [blanks]
              rw [e] at this
              simp [List.mapM_cons, this, ih (fun y hy => hx y (by simp [hy]))]
        exact this r (fun x hx => h x (by simp [hx]))
      simp [List.mapM_cons, h0, hr, expand, List.flatMap_def]

theorem joined_ends (I : List Item) (hne : I ≠ []) (h : ∀ x ∈ I, x.NonNeg) :
    (∃ c r, joined I = c :: r ∧ c.isDigit = true) ∧ (∃ r c, joined I = r ++ [c] ∧ c.isDigit = true) := by
  induction I with
  | nil => exact absurd rfl hne
  | cons it r ih =>
      obtain ⟨⟨c, t, e1, h1⟩, ⟨t', c', e2, h2⟩⟩ := item_ends it (h it (by simp))
      cases r with
      | nil => exact ⟨⟨c, t, by simp [joined, e1], h1⟩, ⟨t', c', by simp [joined, e2], h2⟩⟩
      | cons it' r' =>
          obtain ⟨_, ⟨u, d, e3, h3⟩⟩ := ih (by simp) (fun x hx => h x (by simp [hx]))
          exact ⟨⟨c, t ++ txt ", " ++ joined (it' :: r'), by simp [joined, e1], h1⟩,
            ⟨it.txt ++ txt ", " ++ u, d, by simp [joined, e3], h3⟩⟩

theorem joined_edge (I : List Item) (hne : I ≠ []) (h : ∀ x ∈ I, x.NonNeg) : Edge (joined I) := by
  obtain ⟨⟨c, r, e1, h1⟩, ⟨r', c', e2, h2⟩⟩ := joined_ends I hne h
  constructor
  · intro x hx; rw [e1] at hx; simp at hx; subst hx; exact isSp_of_isDigit h1
  · intro x hx; rw [e2] at hx; simp at hx; subst hx; exact isSp_of_isDigit h2

/-! ### the continuation loop of `_rdset` -/

/-- token of an item that is not the last of the set -/
def ctok (it : Item) : Txt := it.txt ++ txt ", "

theorem setBody_cons2 (it it' : Item) (I : List Item) : setBody (it :: it' :: I) = ctok it :: setBody (it' :: I) := rfl

theorem setBody_length (J : List Item) : (setBody J).length = J.length := by
  induction J with
  | nil => rfl
  | cons it r ih => cases r with
    | nil => rfl
    | cons it' r' => simp only [setBody_cons2, List.length_cons] at ih ⊢; omega

/-- a break between tokens is a break between items -/
theorem setBody_split (X : List Txt) : ∀ (J : List Item) (Y : List Txt), X ≠ [] → Y ≠ [] → setBody J = X ++ Y →
    ∃ K J', K ≠ [] ∧ J' ≠ [] ∧ J = K ++ J' ∧ X = K.map ctok ∧ Y = setBody J' := by
  induction X with
  | nil => intro J Y hX; exact absurd rfl hX
  | cons x X' ih =>
      intro J Y _ hY h
      match J, h with
      | [], h => simp [setBody] at h
      | [it], h =>
          have hl := congrArg List.length h
          simp only [setBody, List.length_cons, List.length_nil, List.length_append] at hl
          have : Y.length = 0 := by omega
          exact absurd (List.eq_nil_of_length_eq_zero this) hY
      | it :: it' :: J'', h =>
          rw [setBody_cons2, List.cons_append] at h
          injection h with h1 h2
          by_cases hX' : X' = []
          · subst hX'
            exact ⟨[it], it' :: J'', by simp, by simp, rfl, by simp [h1], by simpa using h2.symm⟩
          · obtain ⟨K, J', hK, hJ', e1, e2, e3⟩ := ih (it' :: J'') Y hX' hY h2
            exact ⟨it :: K, J', by simp, hJ', by simp [e1], by simp [h1, e2], e3⟩

theorem flatten_ctok (K : List Item) (hK : K ≠ []) : (K.map ctok).flatten = joined K ++ txt ", " := by
  induction K with
  | nil => exact absurd rfl hK
  | cons it r ih =>
      cases r with
      | nil => simp [ctok, joined]
      | cons it' r' =>
          have := ih (by simp)
          simp only [List.map_cons, List.flatten_cons] at this ⊢
          rw [this]; simp [ctok, joined]

theorem expand_append (a b : List Item) : expand (a ++ b) = expand a ++ expand b := by simp [expand]

theorem rdSetBody_final (fuel : Nat) (J : List Item) (hne : J ≠ []) (h : ∀ x ∈ J, x.NonNeg) (rest : List Txt) :
    rdSetBody (fuel + 1) (strip (joined J)) rest = some (expand J, rest) := by
  have hs : strip (joined J) = joined J := by simpa [blanks] using strip_pad 0 0 (joined_edge J hne h)
  obtain ⟨⟨c, r, e1, _⟩, ⟨r', c', e2, h2⟩⟩ := joined_ends J hne h
  have hemp : (joined J).isEmpty = false := by rw [e1]; rfl
  have hlast : (joined J).getLast? ≠ some ',' := by
    rw [e2]; simp; exact digit_ne_comma h2
  rw [hs]
  simp only [rdSetBody, hemp, Bool.false_eq_true, if_false, hlast, rdSetLine_joined J hne h, Option.map_some]

theorem rdSetBody_cont (fuel : Nat) (K : List Item) (hne : K ≠ []) (h : ∀ x ∈ K, x.NonNeg) (l : Txt) (rest : List Txt) :
    rdSetBody (fuel + 1) (strip (K.map ctok).flatten) (l :: rest) =
      (rdSetBody fuel (strip l) rest).map fun (v, q) => (expand K ++ v, q) := by
  obtain ⟨⟨c, r, e1, h1⟩, ⟨r', c', e2, h2⟩⟩ := joined_ends K hne h
  have hs : strip (K.map ctok).flatten = joined K ++ [','] := by
    rw [flatten_ctok K hne]
    have he : Edge (joined K ++ [',']) := by
      constructor
      · intro x hx; rw [e1] at hx; simp at hx; subst hx; exact isSp_of_isDigit h1
      · intro x hx; simp at hx; subst hx; decide
    have := strip_pad 0 1 he
    simpa [blanks, txt] using this
  have hemp : (joined K ++ [',']).isEmpty = false := by rw [e1]; rfl
  have hlast : (joined K ++ [',']).getLast? = some ',' := by simp
  have hdrop : ((joined K ++ [',']).reverse.dropWhile (· = ',')).reverse = joined K := by
    rw [e2]
    simp [digit_ne_comma h2]
  rw [hs]
  simp only [rdSetBody, hemp, Bool.false_eq_true, if_false, hlast, if_true, hdrop, rdSetLine_joined K hne h]

theorem rdSetBody_empty (fuel : Nat) (l : Txt) (rest : List Txt) :
    rdSetBody (fuel + 1) [] (l :: rest) = (rdSetBody fuel (strip l) rest).map fun (v, q) => ([] ++ v, q) := by
  rw [rdSetBody]; simp

/-- the lines after the header, any grouping of the tokens into non-empty lines -/
theorem rdSetBody_groups (Gs : List (List Txt)) : ∀ (g : List Txt) (J : List Item) (fuel : Nat),
    g ≠ [] → (∀ x ∈ Gs, x ≠ []) → J ≠ [] → (∀ x ∈ J, x.NonNeg) → (g :: Gs).flatten = setBody J → Gs.length < fuel →
    rdSetBody fuel (strip g.flatten) (Gs.map List.flatten) = some (expand J, []) := by
  induction Gs with
  | nil =>
      intro g J fuel _ _ hJ hn hfl hf
      simp only [List.flatten_cons, List.flatten_nil, List.append_nil] at hfl
      cases fuel with
      | zero => omega
      | succ f =>
          rw [hfl, ← joined_eq_setBody]
          exact rdSetBody_final f J hJ hn []
  | cons g' Gs' ih =>
      intro g J fuel hg hGs hJ hn hfl hf
      have hg' : g' ≠ [] := hGs g' (by simp)
      have hY : (g' :: Gs').flatten ≠ [] := by
        cases g' with
        | nil => exact absurd rfl hg'
        | cons a b => simp
      rw [List.flatten_cons] at hfl
      obtain ⟨K, J', hK, hJ', e1, e2, e3⟩ := setBody_split g J _ hg hY hfl.symm
      cases fuel with
      | zero => omega
      | succ f =>
          have hnK : ∀ x ∈ K, x.NonNeg := fun x hx => hn x (by simp [e1, hx])
          have hnJ' : ∀ x ∈ J', x.NonNeg := fun x hx => hn x (by simp [e1, hx])
          rw [e2, List.map_cons, rdSetBody_cont f K hK hnK,
            ih g' J' f hg' (fun x hx => hGs x (by simp [hx])) hJ' hnJ' e3 (by simp at hf; omega)]
          simp [e1, expand_append]

/-! ### the header line -/

theorem rdSetsAux_nil (fuel : Nat) (d : List (Val × List Int)) : rdSetsAux fuel [] d = some d := by
  cases fuel <;> rfl

theorem setHead_written (setid : Int) (hs : 0 ≤ setid) (T : Txt) (hT : ∀ x, T.head? = some x → x.isDigit = true) :
    setHead (txt "SET " ++ dec setid ++ txt " = " ++ T) = some (setid.toNat, T) := by
  have e : txt "SET " ++ dec setid ++ txt " = " ++ T = 'S' :: 'E' :: 'T' :: ' ' :: (dec setid ++ (' ' :: '=' :: ' ' :: T)) := by
    simp [txt]
  rw [e]
  have h1 : skipSp ('S' :: 'E' :: 'T' :: ' ' :: (dec setid ++ (' ' :: '=' :: ' ' :: T))) =
      'S' :: 'E' :: 'T' :: ' ' :: (dec setid ++ (' ' :: '=' :: ' ' :: T)) := by
    simp [skipSp]
  have h2 : skipSp (('S' :: 'E' :: 'T' :: ' ' :: (dec setid ++ (' ' :: '=' :: ' ' :: T))).drop 3) =
      dec setid ++ (' ' :: '=' :: ' ' :: T) := by
    have := skipSp_blanks 1 (dec setid ++ (' ' :: '=' :: ' ' :: T)) (by
      intro x hx
      rw [List.head?_append] at hx
      cases hq : (dec setid).head? with
      | none => exact absurd (List.head?_eq_none_iff.mp hq) (dec_ne_nil setid)
      | some y => rw [hq] at hx; simp at hx; subst hx; exact digit_ne_space (dec_head_digit hs y hq))
    simpa [blanks] using this
  have h3 : (dec setid ++ (' ' :: '=' :: ' ' :: T)).takeWhile Char.isDigit = dec setid :=
    takeWhile_append_stop _ _ _ (dec_nonneg_digits hs) (by intro x hx; simp at hx; subst hx; decide)
  have h4 : (dec setid ++ (' ' :: '=' :: ' ' :: T)).dropWhile Char.isDigit = ' ' :: '=' :: ' ' :: T :=
    dropWhile_append_stop _ _ _ (dec_nonneg_digits hs) (by intro x hx; simp at hx; subst hx; decide)
  have h5 : skipSp (' ' :: '=' :: ' ' :: T) = '=' :: ' ' :: T := by simp [skipSp]
  have h6 : skipSp (' ' :: T) = T := by
    have := skipSp_blanks 1 T (fun x hx => digit_ne_space (hT x hx))
    simpa [blanks] using this
  have h7 : (dec setid).isEmpty = false := by
    cases hq : dec setid with
    | nil => exact absurd hq (dec_ne_nil setid)
    | cons => rfl
  have h8 : startsWith (txt "set") (lower (('S' :: 'E' :: 'T' :: ' ' :: (dec setid ++ (' ' :: '=' :: ' ' :: T))).take 3)) = true := by
    simp only [List.take_succ_cons, List.take_zero]; decide
  unfold setHead
  simp only [h1, h8, Bool.not_true, Bool.false_eq_true, if_false, h2, h3, h4, h5, h6, h7]
  rw [dec_nonneg hs, digitsVal_toDigits]

/-- `rdsets` on the lines of one SET statement: the first group begins with the header token, the
other groups are any non-empty lines of item tokens -/
theorem rdSets_groups (setid : Int) (hs : 0 ≤ setid) (J : List Item) (hJ : J ≠ []) (hn : ∀ x ∈ J, x.NonNeg)
    (T1 : List Txt) (Gs : List (List Txt)) (hGs : ∀ x ∈ Gs, x ≠ [])
    (hfl : T1 ++ Gs.flatten = setBody J) :
    rdSets (((txt "SET " ++ dec setid ++ txt " = ") :: T1).flatten :: Gs.map List.flatten) =
      some [(Val.int setid, expand J)] := by
  have hTd : ∀ x, T1.flatten.head? = some x → x.isDigit = true := by
    intro x hx
    by_cases hT1 : T1 = []
    · subst hT1; simp at hx
    · -- T1 is a non-empty prefix of the body tokens: its text begins like `joined J`
      have : ∃ r, T1.flatten = joined J ∨ ∃ K, K ≠ [] ∧ (∀ y ∈ K, y.NonNeg) ∧ T1.flatten = joined K ++ r := by
        by_cases hG : Gs.flatten = []
        · rw [hG, List.append_nil] at hfl
          exact ⟨[], Or.inl (by rw [hfl, joined_eq_setBody])⟩
        · obtain ⟨K, J', hK, _, e1, e2, _⟩ := setBody_split T1 J _ hT1 hG hfl.symm
          exact ⟨txt ", ", Or.inr ⟨K, hK, fun y hy => hn y (by simp [e1, hy]), by rw [e2, flatten_ctok K hK]⟩⟩
      obtain ⟨r, h | ⟨K, hK, hnK, h⟩⟩ := this
      · obtain ⟨⟨c, t, e, hc⟩, _⟩ := joined_ends J hJ hn
        rw [h, e] at hx; simp at hx; subst hx; exact hc
      · obtain ⟨⟨c, t, e, hc⟩, _⟩ := joined_ends K hK hnK
        rw [h, e] at hx; simp at hx; subst hx; exact hc
  have hline : ((txt "SET " ++ dec setid ++ txt " = ") :: T1).flatten = txt "SET " ++ dec setid ++ txt " = " ++ T1.flatten := by
    simp
  have hnb : startsWith (txt "begin bulk") (lower (skipSp (txt "SET " ++ dec setid ++ txt " = " ++ T1.flatten))) = false := by
    have e : txt "SET " ++ dec setid ++ txt " = " ++ T1.flatten = 'S' :: ('E' :: 'T' :: ' ' :: (dec setid ++ txt " = " ++ T1.flatten)) := by
      simp [txt]
    rw [e]
    simp only [skipSp, List.dropWhile_cons]
    rfl
  have hbody : rdSetBody ((Gs.map List.flatten).length + 2) (strip T1.flatten) (Gs.map List.flatten) = some (expand J, []) := by
    by_cases hT1 : T1 = []
    · subst hT1
      rw [List.nil_append] at hfl
      cases Gs with
      | nil => simp at hfl; have := congrArg List.length hfl; rw [setBody_length] at this; simp at this; exact absurd this hJ
      | cons g Gs' =>
          have hstrip : strip ([] : List Txt).flatten = [] := by decide
          rw [hstrip]
          simp only [List.map_cons, List.length_cons]
          rw [rdSetBody_empty, rdSetBody_groups Gs' g J _ (hGs g (by simp)) (fun x hx => hGs x (by simp [hx])) hJ hn hfl (by simp)]
          simp
    · exact rdSetBody_groups Gs T1 J _ hT1 hGs hJ hn (by simpa using hfl) (by simp)
  unfold rdSets
  rw [hline]
  simp only [List.length_cons, rdSetsAux, hnb, Bool.false_eq_true, if_false, setHead_written setid hs _ hTd, hbody,
    rdSetsAux_nil, dictPut]
  simp [Int.toNat_of_nonneg hs]

/-! ### from `wtset` to the groups -/

theorem mem_rangeI (a b x : Int) : x ∈ rangeI a b ↔ a ≤ x ∧ x ≤ b := by
  simp only [rangeI, List.mem_map, List.mem_range]
  constructor
  · rintro ⟨k, hk, rfl⟩; omega
  · rintro ⟨h1, h2⟩; exact ⟨(x - a).toNat, by omega, by omega⟩

theorem compress_expand (ids : List Int) : expand (compress ids) = ids := by
  cases ids with
  | nil => rfl
  | cons x xs => simpa [compress, rangeI_self] using expand_compressAux xs (Int.le_refl x)

theorem compress_nonneg (ids : List Int) (h : ∀ x ∈ ids, 0 ≤ x) : ∀ it ∈ compress ids, it.NonNeg := by
  intro it hit
  have hsub : ∀ x ∈ it.expand, x ∈ ids := by
    intro x hx
    rw [← compress_expand ids]
    exact List.mem_flatMap.mpr ⟨it, hit, hx⟩
  have hp : it.Proper := by
    cases ids with
    | nil => simp [compress] at hit
    | cons x xs => exact compressAux_proper xs x x it hit
  cases it with
  | one x => exact h x (hsub x (by simp [Item.expand]))
  | thru a b =>
      have hab : a < b := hp
      exact ⟨h a (hsub a ((mem_rangeI a b a).mpr ⟨by omega, by omega⟩)),
        h b (hsub b ((mem_rangeI a b b).mpr ⟨by omega, by omega⟩))⟩

theorem compress_ne_nil (ids : List Int) (h : ids ≠ []) : compress ids ≠ [] := by
  intro e
  have := compress_expand ids
  rw [e] at this
  exact h this.symm

theorem wrapGo_nonempty (m : Nat) (ts : List Txt) (hts : ∀ t ∈ ts, t.length ≤ m) :
    ∀ (cur : List Txt) (n : Nat), (cur = [] → n = 0 ∧ ts ≠ []) → ∀ g ∈ wrapGo m cur n ts, g ≠ [] := by
  induction ts with
  | nil =>
      intro cur n h g hg
      simp [wrapGo] at hg; subst hg
      intro e; exact (h e).2 rfl
  | cons t ts ih =>
      intro cur n h g hg
      have ht := hts t (by simp)
      have hts' : ∀ u ∈ ts, u.length ≤ m := fun u hu => hts u (by simp [hu])
      unfold wrapGo at hg
      split at hg
      · rename_i hgt
        simp only [List.mem_cons] at hg
        rcases hg with rfl | hg
        · intro e; have := (h e).1; omega
        · exact ih hts' [t] t.length (by simp) g hg
      · exact ih hts' (cur ++ [t]) (n + t.length) (by simp) g hg

/-- `rdsets (wtset …)` on physical lines -/
theorem rdSets_setLines (setid : Int) (ids : List Int) (maxLen : Nat) (hs : 0 ≤ setid) (hne : ids ≠ [])
    (hn : ∀ x ∈ ids, 0 ≤ x) (h : ∀ t ∈ setTokens setid ids, t.length ≤ maxLen) :
    rdSets (setLines setid ids maxLen) = some [(Val.int setid, ids)] := by
  have hJ := compress_ne_nil ids hne
  have hnJ := compress_nonneg ids hn
  have hbody : setBody (compress ids) ≠ [] := by
    intro e; have := congrArg List.length e; rw [setBody_length] at this; simp at this; exact hJ this
  unfold setLines wrapLines wrapGroups
  rw [presplit_id maxLen _ h]
  have hlen : ¬ (setTokens setid ids).length < 2 := by
    simp only [setTokens, List.length_cons]
    cases hq : setBody (compress ids) with
    | nil => exact absurd hq hbody
    | cons a b => simp
  simp only [hlen, if_false]
  have hflat := wrapGo_flatten maxLen (setTokens setid ids) [] 0
  have hnon := wrapGo_nonempty maxLen (setTokens setid ids) h [] 0 (by intro _; exact ⟨rfl, by simp [setTokens]⟩)
  rw [List.nil_append] at hflat
  cases hG : wrapGo maxLen [] 0 (setTokens setid ids) with
  | nil => rw [hG] at hflat; simp [setTokens] at hflat
  | cons g1 Gs =>
      rw [hG] at hflat hnon
      have hg1 : g1 ≠ [] := hnon g1 (by simp)
      cases g1 with
      | nil => exact absurd rfl hg1
      | cons t0 T1 =>
          simp only [setTokens, List.flatten_cons, List.cons_append] at hflat
          injection hflat with h0 hrest
          subst h0
          have := rdSets_groups setid hs (compress ids) hJ hnJ T1 Gs (fun x hx => hnon x (by simp [hx])) hrest
          rw [compress_expand] at this
          simpa using this

end PyYetiVerif.Bulk
