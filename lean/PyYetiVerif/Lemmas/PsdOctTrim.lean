import PyYetiVerif.Lemmas.PsdOct
import PyYetiVerif.Lemmas.FixtimeDrops
import PyYetiVerif.Lemmas.Fixtime
import Mathlib.Tactic.Positivity
/-! Helper lemmas for C19: the trimming rules and the band count of `psd.get_freq_oct`. -/
namespace PyYetiVerif.PsdOct
open Real

section trim
variable {α : Type} [LinearOrder α]

theorem mem_filter_hi (hi : List α) (e : α) (i : Nat) :
    i ∈ ((List.range hi.length).filter fun i => match hi[i]? with
      | some v => decide (v ≤ e) | none => false) ↔ ∃ (h : i < hi.length), hi[i] ≤ e := by
  rw [List.mem_filter, List.mem_range]
  constructor
  · rintro ⟨h, hp⟩
    rw [List.getElem?_eq_getElem h] at hp
    exact ⟨h, by simpa using hp⟩
  · rintro ⟨h, hp⟩
    refine ⟨h, ?_⟩
    rw [List.getElem?_eq_getElem h]
    simpa using hp

theorem mem_filter_lo (lo : List α) (s : α) (i : Nat) :
    i ∈ ((List.range lo.length).filter fun i => match lo[i]? with
      | some v => decide (s ≤ v) | none => false) ↔ ∃ (h : i < lo.length), s ≤ lo[i] := by
  rw [List.mem_filter, List.mem_range]
  constructor
  · rintro ⟨h, hp⟩
    rw [List.getElem?_eq_getElem h] at hp
    exact ⟨h, by simpa using hp⟩
  · rintro ⟨h, hp⟩
    refine ⟨h, ?_⟩
    rw [List.getElem?_eq_getElem h]
    simpa using hp

theorem nat_head_le_mem {l : List Nat} (hs : l.Pairwise (· < ·)) {x y : Nat} (hx : l.head? = some x)
    (hy : y ∈ l) : x ≤ y := by
  cases l with
  | nil => simp at hx
  | cons a r =>
      simp only [List.head?_cons, Option.some.injEq] at hx
      subst hx
      rcases List.mem_cons.mp hy with rfl | hm
      · exact le_refl _
      · exact le_of_lt ((List.pairwise_cons.mp hs).1 y hm)

theorem nat_mem_le_getLast {l : List Nat} (hs : l.Pairwise (· < ·)) {x y : Nat} (hx : x ∈ l)
    (hy : l.getLast? = some y) : x ≤ y := by
  obtain ⟨i, hi, rfl⟩ := List.mem_iff_getElem.mp hx
  rw [List.getLast?_eq_getElem?] at hy
  have hl : l.length - 1 < l.length := by omega
  rw [List.getElem?_eq_getElem hl] at hy
  injection hy with hy
  subst hy
  rcases Nat.eq_or_lt_of_le (show i ≤ l.length - 1 by omega) with h | h
  · simp [h]
  · exact le_of_lt (List.pairwise_iff_getElem.mp hs i (l.length - 1) hi hl h)

/-- **the trimming rule**: for non-decreasing `lo`, `hi` the slice `[Nmin, Nmax)` computed by
`Nmax = max(nonzero(hi <= e)) + 1`, `Nmin = min(nonzero(lo >= s))` holds exactly the indices that pass
both tests (both inclusive: a band whose edge/centre EQUALS the limit is kept) -/
theorem trimIdx_spec (lo hi : List α) (s e : α) (hlo : lo.Pairwise (· ≤ ·)) (hhi : hi.Pairwise (· ≤ ·))
    (b a' : Nat) (h : trimIdx lo hi s e = some (b, a')) :
    (∀ (i : Nat) (hi' : i < lo.length), b ≤ i ↔ s ≤ lo[i]) ∧
      (∀ (i : Nat) (hi' : i < hi.length), i < a' ↔ hi[i] ≤ e) ∧ a' ≤ hi.length ∧ b < lo.length := by
  unfold trimIdx at h
  simp only at h
  split at h
  · rename_i a b0 ha hb
    injection h with h
    injection h with h1 h2
    subst h1
    subst h2
    have hsH : ((List.range hi.length).filter fun i => match hi[i]? with
        | some v => decide (v ≤ e) | none => false).Pairwise (· < ·) :=
      List.Pairwise.filter _ List.pairwise_lt_range
    have hsL : ((List.range lo.length).filter fun i => match lo[i]? with
        | some v => decide (s ≤ v) | none => false).Pairwise (· < ·) :=
      List.Pairwise.filter _ List.pairwise_lt_range
    have hbm : b0 ∈ _ := List.mem_of_mem_head? hb
    have ham : a ∈ _ := List.mem_of_getLast? ha
    obtain ⟨hbl, hbp⟩ := (mem_filter_lo lo s b0).mp hbm
    obtain ⟨hal, hap⟩ := (mem_filter_hi hi e a).mp ham
    constructor
    · intro i hi'
      constructor
      · intro hle
        exact le_trans hbp (PyYetiVerif.Fixtime.sorted_getElem_le hlo hle hi')
      · intro hp
        exact nat_head_le_mem hsL hb ((mem_filter_lo lo s i).mpr ⟨hi', hp⟩)
    refine ⟨?_, by omega, hbl⟩
    · intro i hi'
      constructor
      · intro hlt
        exact le_trans (PyYetiVerif.Fixtime.sorted_getElem_le hhi (by omega) hal) hap
      · intro hp
        have := nat_mem_le_getLast hsH ((mem_filter_hi hi e i).mpr ⟨hi', hp⟩) ha
        omega
  · exact absurd h (by simp)

/-- … and it raises (`max`/`min` of an empty sequence) iff no band passes the upper test or no band
passes the lower test -/
theorem trimIdx_none_iff (lo hi : List α) (s e : α) :
    trimIdx lo hi s e = none ↔ (∀ (i : Nat) (h : i < hi.length), ¬ hi[i] ≤ e) ∨
      (∀ (i : Nat) (h : i < lo.length), ¬ s ≤ lo[i]) := by
  unfold trimIdx
  simp only
  constructor
  · intro h
    split at h
    · exact absurd h (by simp)
    · rename_i hne
      by_contra hc
      rw [not_or] at hc
      obtain ⟨h1, h2⟩ := hc
      push Not at h1 h2
      obtain ⟨i, hi1, hi2⟩ := h1
      obtain ⟨j, hj1, hj2⟩ := h2
      have m1 := (mem_filter_hi hi e i).mpr ⟨hi1, hi2⟩
      have m2 := (mem_filter_lo lo s j).mpr ⟨hj1, hj2⟩
      obtain ⟨a, ha⟩ : ∃ a, ((List.range hi.length).filter fun i => match hi[i]? with
          | some v => decide (v ≤ e) | none => false).getLast? = some a :=
        ⟨_, List.getLast?_eq_some_getLast (List.ne_nil_of_mem m1)⟩
      obtain ⟨b, hb⟩ : ∃ b, ((List.range lo.length).filter fun i => match lo[i]? with
          | some v => decide (s ≤ v) | none => false).head? = some b := by
        cases hl : ((List.range lo.length).filter fun i => match lo[i]? with
          | some v => decide (s ≤ v) | none => false) with
        | nil => rw [hl] at m2; simp at m2
        | cons x _ => exact ⟨x, rfl⟩
      exact hne a b ha hb
  · intro h
    split
    · rename_i a b ha hb
      have ham := List.mem_of_getLast? ha
      have hbm := List.mem_of_mem_head? hb
      obtain ⟨h1, h2⟩ := (mem_filter_hi hi e a).mp ham
      obtain ⟨h3, h4⟩ := (mem_filter_lo lo s b).mp hbm
      rcases h with h | h
      · exact absurd h2 (h a h1)
      · exact absurd h4 (h b h3)
    · rfl

end trim

/-- which untrimmed bands `trim` keeps (centre `c`, band `[c/f, c·f]`, limits `s`, `e`) — every
comparison is inclusive: a band whose edge (or centre) EQUALS a limit is kept -/
def keepBand (trim : Trim) (f s e c : ℝ) : Prop :=
  match trim with
  | .outside => s ≤ c * f ∧ c / f ≤ e
  | .center => s ≤ c ∧ c ≤ e
  | .inside => s ≤ c / f ∧ c * f ≤ e

/-! ### the untrimmed scale is increasing -/

theorem octRatio_ge_one (n : ℝ) (hn : 0 < n) (exact : Bool) : 1 ≤ octRatio n exact := by
  unfold octRatio
  split
  · exact Real.one_le_rpow (by norm_num) (by positivity)
  · exact Real.one_le_rpow (by norm_num) (by positivity)

theorem octScale_mono (n s e : ℝ) (hn : 0 < n) (exact : Bool) (anchor : Option ℝ)
    (ha : ∀ a, anchor = some a → 0 < a) :
    (octScale n s e exact anchor).1.Pairwise (· ≤ ·) := by
  rw [List.pairwise_iff_getElem]
  intro i j hi hj hij
  obtain ⟨d, rfl⟩ : ∃ d, j = i + 1 + d := ⟨j - i - 1, by omega⟩
  induction d with
  | zero =>
      obtain ⟨h1, h2⟩ := octScale_step n s e (ne_of_gt hn) exact anchor ha i hj
      show (octScale n s e exact anchor).1[i] ≤ (octScale n s e exact anchor).1[i + 1]
      rw [h1]
      have := octRatio_ge_one n hn exact
      nlinarith
  | succ d ih =>
      have hj' : i + 1 + d < (octScale n s e exact anchor).1.length := by omega
      have h0 := ih hj' (by omega)
      obtain ⟨h1, h2⟩ := octScale_step n s e (ne_of_gt hn) exact anchor ha (i + 1 + d) hj
      have e1 : i + 1 + (d + 1) = i + 1 + d + 1 := by omega
      simp only [e1]
      rw [h1]
      have := octRatio_ge_one n hn exact
      nlinarith

end PyYetiVerif.PsdOct
