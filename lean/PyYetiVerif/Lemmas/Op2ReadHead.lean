import PyYetiVerif.Lemmas.Op2Read
/-! C11: the OUTPUT2 reader model on the encoder's file header and data-block header. -/
namespace PyYetiVerif.Op2R
open PyYetiVerif.Op4 PyYetiVerif.Op2
open PyYetiVerif.Op4V (leBytes natBytes intBytes)

theorem inKey_small (v : V2) (x : Int) (h1 : -2147483648 ≤ x) (h2 : x < 2147483648) : InKey v x := by
  unfold InKey; split <;> omega

theorem drop4_R (v : V2) (b rest : List Nat) : (R v b ++ rest).drop 4 = b ++ (mark v b.length ++ rest) := by
  simp only [R, List.append_assoc]
  exact List.drop_left' (length_mark v _)

theorem drop4_mark (v : V2) (n : Nat) (rest : List Nat) : (mark v n ++ rest).drop 4 = rest :=
  List.drop_left' (length_mark v n)

theorem decodeAscii_ok (b : List Nat) (h : ∀ x ∈ b, x < 128) : decodeAscii b = .ok b := by
  unfold decodeAscii
  rw [if_pos]
  simpa using h

theorem dropWhile_self {p : Nat → Bool} : ∀ (l : List Nat), (∀ x ∈ l, p x = false) → l.dropWhile p = l
  | [], _ => rfl
  | a :: t, h => by simp [List.dropWhile, h a (List.mem_cons_self)]

theorem dropWhile_blanks (k : Nat) (l : List Nat) :
    (List.replicate k 32 ++ l).dropWhile isPySpace = l.dropWhile isPySpace := by
  induction k with
  | zero => simp
  | succ k ih =>
    rw [List.replicate_succ, List.cons_append, List.dropWhile_cons]
    have : isPySpace 32 = true := by decide
    simp only [this, if_true, ih]

/-- a label without white space survives `ljust`, `.strip().replace(" ", "")` -/
theorem labelOf_ljust (n : Nat) (label : List Nat) (h : ∀ c ∈ label, 32 < c ∧ c < 127) :
    labelOf (ljust n label) = label := by
  have hns : ∀ x ∈ label, isPySpace x = false := by
    intro x hx
    have := h x hx
    simp only [isPySpace, Bool.or_eq_false_iff, Bool.and_eq_false_iff, decide_eq_false_iff_not]
    omega
  have hne : ∀ x ∈ label, (x != 32) = true := by
    intro x hx
    have := h x hx
    simp only [bne_iff_ne, ne_eq]
    omega
  unfold labelOf pyStrip ljust
  cases label with
  | nil =>
    have := dropWhile_blanks (n - 0) []
    simp only [List.append_nil, List.dropWhile_nil] at this
    simp only [List.nil_append, List.length_nil, this, List.reverse_nil, List.dropWhile_nil, List.filter_nil]
  | cons a t =>
    rw [List.cons_append, List.dropWhile_cons, hns a (List.mem_cons_self)]
    simp only [Bool.false_eq_true, if_false]
    rw [← List.cons_append, List.reverse_append, List.reverse_replicate, dropWhile_blanks,
      dropWhile_self _ (by intro x hx; exact hns x (List.mem_reverse.1 hx)), List.reverse_reverse]
    exact List.filter_eq_self.2 hne

theorem skipKey_K2r (v : V2) (a b : Int) (rest : List Nat) : skipKey v 2 (K v a ++ (K v b ++ rest)) = rest := by
  rw [← List.append_assoc]; exact skipKey_K2 v a b rest

theorem rdHeader_header (v : V2) (date : List Int) (label rest : List Nat) (hd : date.length = 3)
    (hdk : ∀ x ∈ date, InKey v x) (hl : ∀ c ∈ label, 32 < c ∧ c < 127) (hll : label.length ≤ 2 * kb v) :
    rdHeader v (header v date label ++ rest)
      = .ok (some ⟨date, List.replicate (7 * kb v) 78, label⟩, rest) := by
  have hk : (keys v date).length = kb v * 3 := by rw [length_keys, hd, Nat.mul_comm]
  have hu : unpackInts v.e (kb v) 3 (keys v date) = .ok date := hd ▸ unpackInts_keys v date hdk
  have hkb := kb_cases v
  have hn : (List.replicate (7 * kb v) 78).length < 2147483648 := by
    rw [List.length_replicate]; rcases hkb with ⟨_, h⟩ | ⟨_, h⟩ <;> omega
  have hlj : (ljust (2 * kb v) label).length < 2147483648 := by
    simp only [ljust, List.length_append, List.length_replicate]; rcases hkb with ⟨_, h⟩ | ⟨_, h⟩ <;> omega
  have ha1 : decodeAscii (List.replicate (7 * kb v) 78) = .ok (List.replicate (7 * kb v) 78) :=
    decodeAscii_ok _ (by intro x hx; rw [List.eq_of_mem_replicate hx]; decide)
  have ha2 : decodeAscii (ljust (2 * kb v) label) = .ok (ljust (2 * kb v) label) := by
    apply decodeAscii_ok
    intro x hx
    simp only [ljust, List.mem_append, List.mem_replicate] at hx
    rcases hx with hx | ⟨_, rfl⟩
    · have := hl x hx; omega
    · decide
  simp only [header, List.append_assoc]
  simp only [rdHeader, getKey_K v 3 _ (inKey_small v 3 (by omega) (by omega)), bind_ok, ne_eq, not_true_eq_false,
    if_false, drop4_R, List.take_left' hk, List.drop_left' hk, hu, drop4_mark,
    getKey_K v 7 _ (inKey_small v 7 (by omega) (by omega)), rdI4_R v _ _ hn, pyRead_len _ _ hn, ha1,
    getKey_K v 2 _ (inKey_small v 2 (by omega) (by omega)), rdI4_R v _ _ hlj, pyRead_len _ _ hlj, ha2,
    skipKey_K2r, labelOf_ljust _ _ hl, pure_eq]

theorem skipKey_K4r (v : V2) (a b c d : Int) (rest : List Nat) :
    skipKey v 4 (K v a ++ (K v b ++ (K v c ++ (K v d ++ rest)))) = rest := by
  rw [← List.append_assoc, ← List.append_assoc, ← List.append_assoc]; exact skipKey_K4 v a b c d rest

theorem validname_ljust (n : Nat) (name : List Nat) : validname (ljust n name) = validname name := by
  unfold validname ljust
  rw [List.filter_append]
  have : ∀ k, (List.replicate k 32).filter
      (fun c => (47 < c && c < 58) || (64 < c && c < 91) || c == 95 || (96 < c && c < 123)) = [] := by
    intro k
    induction k with
    | zero => rfl
    | succ k ih => rw [List.replicate_succ, List.filter_cons]; simp only [ih]; decide
  rw [this, List.append_nil]

theorem rdNT_blockHead (v : V2) (name : List Nat) (trailer : List Int) (type : Int) (rest : List Nat)
    (ht : trailer.length = 7) (htk : ∀ x ∈ trailer, InKey v x) (hty : InKey v type)
    (hn : name.length < 2147483000) :
    rdNT v (blockHead v name trailer type ++ rest) = .ok (some ⟨validname name, trailer, type⟩, rest) := by
  have hkb := kb_cases v
  have hnm : (ljust (2 * kb v) name).length < 2147483648 := by
    simp only [ljust, List.length_append, List.length_replicate]; rcases hkb with ⟨_, h⟩ | ⟨_, h⟩ <;> omega
  have hkl : (keys v trailer).length < 2147483648 := by
    rw [length_keys, ht]; rcases hkb with ⟨_, h⟩ | ⟨_, h⟩ <;> omega
  have hcast : ((kb v : Nat) : Int) * 7 = ((keys v trailer).length : Int) := by
    rw [length_keys, ht]; rcases hkb with ⟨_, h⟩ | ⟨_, h⟩ <;> simp [h]
  have hu : unpackInts v.e (kb v) (7 : Int).toNat (keys v trailer) = .ok trailer := by
    have := unpackInts_keys v trailer htk
    rw [ht] at this
    exact this
  have sm : ∀ x : Int, -2147483648 ≤ x → x < 2147483648 → InKey v x := inKey_small v
  simp only [blockHead, List.append_assoc]
  simp only [rdNT, rdEot_K v 2 _ (sm 2 (by omega) (by omega)), bind_ok, show ((2 : Int) = 0) = False by simp,
    if_false, rdI4_R v _ _ hnm, pyRead_len _ _ hnm, drop4_mark,
    getKey_K v (-1) _ (sm (-1) (by omega) (by omega)), getKey_K v 7 _ (sm 7 (by omega) (by omega)), drop4_R, hcast,
    pyRead_len _ _ hkl, hu, skipKey_K4r, skipKey_K2r, getKey_K v type _ hty, pure_eq,
    validname_ljust]
end PyYetiVerif.Op2R
