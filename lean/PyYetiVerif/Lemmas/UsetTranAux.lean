import PyYetiVerif.Lemmas.UsetTranSel
import Mathlib.Data.Nat.Bitwise
/-!
Helper lemmas for `Props/C18Tran.lean`, `Props/C18Ulvs.lean`, `Props/C18Prt.lean`: a strict look-up returns its
request (expanded), dictionary assignment `setD`, the member-number column of `usetprt`, bits of an or-fold.
-/
set_option linter.constructorNameAsVariable false
set_option linter.unusedSectionVars false
namespace PyYetiVerif.C18
open PyYetiVerif.Uset PyYetiVerif.Locate

/-- a strict look-up returns one position per expanded DOF -/
theorem mkdofpv_lengths {pmask : Nat} {tbl : List Row} {sp : SetSpec} {req : Request} {strict : Bool}
    {pv : List Nat} {out : List (Nat × Nat)} (h : mkdofpv pmask tbl sp req strict = .ok (pv, out)) :
    pv.length = out.length := by
  unfold mkdofpv at h
  cases sp with
  | p =>
      simp only at h
      obtain ⟨dof, _, h⟩ := bind_ok h
      exact (mkdofpv_spec _ _ _ _ _ h).2.1.length_eq
  | mask mk =>
      simp only at h
      obtain ⟨pv', _, h⟩ := bind_ok h
      split at h
      · cases h
      · obtain ⟨dof, _, h⟩ := bind_ok h
        exact (mkdofpv_spec _ _ _ _ _ h).2.1.length_eq

theorem expandRow_single (p : Nat × Nat) (h : p.2 < 10) : expandRow p = [p] := by
  unfold expandRow digits
  rw [digitsRev]
  simp [h]

theorem expanddof2_fixed : ∀ (l : List (Nat × Nat)), (∀ p ∈ l, p.2 ≤ 6) → l.flatMap expandRow = l
  | [], _ => rfl
  | p :: t, h => by
      rw [List.flatMap_cons, expandRow_single p (by have := h p List.mem_cons_self; omega),
        expanddof2_fixed t (fun q hq => h q (List.mem_cons_of_mem _ hq))]
      rfl

theorem expanddof_le6 {req : Request} {e : List (Nat × Nat)} (h : expanddof req = .ok e) :
    ∀ p ∈ e, p.2 ≤ 6 := by
  cases req with
  | ids l g =>
      simp only [expanddof, Except.ok.injEq] at h
      subst h
      intro p hp
      unfold expanddof1 at hp
      obtain ⟨n, _, hp⟩ := List.mem_flatMap.mp hp
      obtain ⟨d, hd, rfl⟩ := List.mem_map.mp hp
      cases g <;> simp at hd <;> omega
  | rows r =>
      simp only [expanddof, expanddof2] at h
      split at h
      · cases h
      · rename_i hany
        simp only [Except.ok.injEq] at h
        subst h
        intro p hp
        by_contra hlt
        exact hany (List.any_eq_true.mpr ⟨p, hp, by simpa using hlt⟩)

/-- the DOF list a strict look-up returns is expanded already: looking it up again returns it unchanged -/
theorem mkdofpv_rows_fixed {pmask : Nat} {tbl : List Row} {sp sp' : SetSpec} {req : Request}
    {pv pv' : List Nat} {dof dof' : List (Nat × Nat)}
    (h : mkdofpv pmask tbl sp req true = .ok (pv, dof))
    (h' : mkdofpv pmask tbl sp' (.rows dof) true = .ok (pv', dof')) : dof' = dof := by
  have hle : ∀ p ∈ dof, p.2 ≤ 6 := by
    unfold mkdofpv at h
    cases sp with
    | p =>
        simp only at h
        obtain ⟨e, he, h⟩ := bind_ok h
        rw [(mkdofpv_spec _ _ _ _ _ h).2.2 rfl]
        exact expanddof_le6 he
    | mask mk =>
        simp only at h
        obtain ⟨_, _, h⟩ := bind_ok h
        split at h
        · cases h
        · obtain ⟨e, he, h⟩ := bind_ok h
          rw [(mkdofpv_spec _ _ _ _ _ h).2.2 rfl]
          exact expanddof_le6 he
  have hex : expanddof (.rows dof) = .ok dof := by
    simp only [expanddof, expanddof2, expanddof2_fixed dof hle]
    rw [if_neg]
    intro hany
    obtain ⟨p, hp, hlt⟩ := List.any_eq_true.mp hany
    have := hle p hp
    simp only [decide_eq_true_eq] at hlt
    omega
  unfold mkdofpv at h'
  cases sp' with
  | p =>
      simp only at h'
      rw [hex] at h'
      exact (mkdofpv_spec _ _ _ _ _ h').2.2 rfl
  | mask mk =>
      simp only at h'
      obtain ⟨_, _, h'⟩ := bind_ok h'
      split at h'
      · cases h'
      · rw [hex] at h'
        exact (mkdofpv_spec _ _ _ _ _ h').2.2 rfl

theorem liftE_ok {β : Type} {x : Except Err β} {v : β} (h : liftE x = .ok v) : x = .ok v := by
  cases x with
  | error e => cases h
  | ok a => simp only [liftE, Except.ok.injEq] at h; rw [h]


theorem find?_setD_self {β : Type} (l : List (Nat × β)) (k : Nat) (v : β) :
    (setD l k v).find? (fun p => p.1 = k) = some (k, v) := by
  unfold setD
  split
  · rename_i hany
    induction l with
    | nil => simp at hany
    | cons p t ih =>
        rw [List.map_cons]
        by_cases hp : p.1 = k
        · simp [hp]
        · have : t.any (fun p => decide (p.1 = k)) = true := by
            simpa [hp] using hany
          rw [if_neg hp, List.find?_cons_of_neg (by simpa using hp)]
          exact ih this
  · rename_i hany
    rw [List.find?_append]
    have : l.find? (fun p => decide (p.1 = k)) = none := by
      rw [List.find?_eq_none]
      intro p hp hpk
      exact hany (List.any_eq_true.mpr ⟨p, hp, hpk⟩)
    simp [this]

theorem find?_setD_other {β : Type} (l : List (Nat × β)) (k k' : Nat) (v : β) (h : k' ≠ k) :
    (setD l k v).find? (fun p => p.1 = k') = l.find? (fun p => p.1 = k') := by
  unfold setD
  split
  · rename_i hany
    clear hany
    induction l with
    | nil => rfl
    | cons p t ih =>
        rw [List.map_cons]
        by_cases hp : p.1 = k
        · have hp' : ¬ p.1 = k' := fun he => h (he.symm.trans hp)
          rw [if_pos hp, List.find?_cons_of_neg (by simpa using h.symm),
            List.find?_cons_of_neg (by simpa using hp')]
          exact ih
        · rw [if_neg hp]
          by_cases hp' : p.1 = k'
          · simp [hp']
          · rw [List.find?_cons_of_neg (by simpa using hp'), List.find?_cons_of_neg (by simpa using hp')]
            exact ih
  · rw [List.find?_append]
    have : [(k, v)].find? (fun p => decide (p.1 = k')) = none := by simp [h.symm]
    rw [this, Option.or_none]


theorem memberCol_go_spec (mask : Nat) : ∀ (ws : List Nat) (k i : Nat),
    (memberCol.go mask ws k).getD i 0 =
      if (ws[i]?.map (inSet · mask)) = some true then k + ((ws.take (i + 1)).filter (inSet · mask)).length else 0
  | [], k, i => by simp [memberCol.go]
  | w :: rest, k, 0 => by
      unfold memberCol.go
      by_cases hw : inSet w mask = true
      · simp [hw]
      · simp [hw]
  | w :: rest, k, i + 1 => by
      unfold memberCol.go
      by_cases hw : inSet w mask = true
      · simp only [hw, if_true, List.getD_cons_succ, memberCol_go_spec mask rest (k + 1) i,
          List.getElem?_cons_succ, List.take_succ_cons, List.filter_cons_of_pos, List.length_cons]
        split <;> omega
      · simp only [hw, Bool.false_eq_true, if_false, List.getD_cons_succ, memberCol_go_spec mask rest k i,
          List.getElem?_cons_succ, List.take_succ_cons]
        rw [List.filter_cons_of_neg (by simpa using hw)]


theorem prtAll_names (req : List SetName) :
    let pv := listIntersect prtAll req
    pv.2.filterMap (req[·]?) = prtAll.filter (fun s => req.contains s) ∧
    pv.1.filterMap (prtAll[·]?) = prtAll.filter (fun s => req.contains s) := by
  have he : prtAll.eraseDups = prtAll := by decide
  unfold listIntersect
  simp only [he]
  constructor
  · rw [List.filterMap_map]
    conv_rhs => rw [← List.filterMap_some (l := prtAll.filter fun s => req.contains s)]
    apply List.filterMap_congr
    intro x hx
    have hx2 : x ∈ req := by simpa using (List.mem_filter.mp hx).2
    simp only [Function.comp, List.getElem?_idxOf hx2]
  · rw [List.filterMap_map]
    conv_rhs => rw [← List.filterMap_some (l := prtAll.filter fun s => req.contains s)]
    apply List.filterMap_congr
    intro x hx
    have hx1 : x ∈ prtAll := (List.mem_filter.mp hx).1
    simp only [Function.comp, List.getElem?_idxOf hx1]


theorem testBit_foldl_or (msk : SetName → Nat) (i : Nat) : ∀ (l : List SetName) (acc : Nat),
    (l.foldl (fun acc k => acc ||| msk k) acc).testBit i = (acc.testBit i || l.any (fun s => (msk s).testBit i))
  | [], acc => by simp
  | k :: t, acc => by
      rw [List.foldl_cons, testBit_foldl_or msk i t, Nat.testBit_or, List.any_cons, Bool.or_assoc]


end PyYetiVerif.C18
