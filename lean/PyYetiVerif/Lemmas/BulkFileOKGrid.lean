import PyYetiVerif.Lemmas.BulkFileOKTab
import PyYetiVerif.Lemmas.BulkGrid
/-! One GRID card of `wtgrids` as a card segment (C13; core Lean only). -/
namespace PyYetiVerif.Bulk

theorem match_grid (c : Char) (x : Txt) (hc : c = ' ' ∨ c = '*') : ∀ k, k < bulkReaders.length →
    (bulkReaders.getD k fun _ => false) ('G' :: 'R' :: 'I' :: 'D' :: c :: ' ' :: ' ' :: ' ' :: x) = decide (k = 1) := by
  intro k hk
  have : k = 0 ∨ k = 1 ∨ k = 2 ∨ k = 3 ∨ k = 4 ∨ k = 5 ∨ k = 6 := by
    have : bulkReaders.length = 7 := rfl
    omega
  rcases hc with rfl | rfl <;> rcases this with rfl | rfl | rfl | rfl | rfl | rfl | rfl <;> rfl

theorem gridCard_segOK (wide short : Bool) (r : GRow) (hc : r.Clean (if wide then 16 else 8)) :
    ∃ f cs, gridCard wide (r.fields (if wide then 16 else 8) short) = f :: cs ∧ SegLocalOK bulkReaders (.card 1 f cs) := by
  cases wide with
  | false =>
      simp only [Bool.false_eq_true, if_false] at hc ⊢
      obtain ⟨hx, hy, hz, hid, hcp, hcd, hps, hse⟩ := hc
      have hline : gridCard false (r.fields 8 short) = [txt "GRID    " ++ (r.fields 8 short).flatten] := by
        simp [gridCard]
      have e8 : ∀ x, txt "GRID    " ++ x = 'G' :: 'R' :: 'I' :: 'D' :: ' ' :: ' ' :: ' ' :: ' ' :: x := fun _ => rfl
      refine ⟨_, _, hline, ?_, ?_, ?_⟩
      · rw [e8]; exact match_grid ' ' _ (Or.inl rfl)
      · rw [e8]
        exact ⟨isCont_of_head 'G' _ (by decide) _, isCont_of_head 'G' _ (by decide) _, isCont_of_head 'G' _ (by decide) _⟩
      · intro l hl; simp at hl
  | true =>
      simp only [if_true] at hc ⊢
      obtain ⟨hx, hy, hz, hid, hcp, hcd, hps, hse⟩ := hc
      have hfl1 : FixedLine 16 (txt "GRID*   ") ([fmtI 16 r.id, fmtI 16 r.cp, r.x] ++ [r.y]) 0 := by
        refine FixedLine.build 16 _ _ _ _ (by decide) (by decide) (by decide) ?_ (cleanField_ne_nil (by decide) hy) hy.2 (by simp)
        intro f hf
        simp only [List.cons_append, List.nil_append, List.mem_cons, List.not_mem_nil, or_false] at hf
        rcases hf with rfl | rfl | rfl | rfl
        · exact fieldOK_padL_dec 16 _ hid
        · exact fieldOK_padL_dec 16 _ hcp
        · exact hx.1
        · exact hy.1
      have hline : gridCard true (r.fields 16 short) =
          [txt "GRID*   " ++ ([fmtI 16 r.id, fmtI 16 r.cp, r.x] ++ [r.y]).flatten ++ blanks 0,
           txt "*       " ++ ((r.fields 16 short).drop 4).flatten] := by
        simp only [gridCard, GRow.fields, if_true]
        have ht : ([fmtI 16 r.id, fmtI 16 r.cp, r.x, r.y, r.z, fmtI 16 r.cd] ++
            (if short then [] else [fmtO 16 r.ps, fmtO 16 r.seid])).take 4 = [fmtI 16 r.id, fmtI 16 r.cp, r.x, r.y] := by simp
        rw [ht]
        simp [blanks]
      have hm := hfl1.modeOf
      have hstar : (txt "GRID*   ").contains '*' = true := by decide
      rw [hstar] at hm
      simp only [if_true] at hm
      have e8 : ∀ x, txt "GRID*   " ++ x = 'G' :: 'R' :: 'I' :: 'D' :: '*' :: ' ' :: ' ' :: ' ' :: x := fun _ => rfl
      refine ⟨_, _, hline, ?_, ?_, ?_⟩
      · rw [List.append_assoc, e8]; exact match_grid '*' _ (Or.inr rfl)
      · rw [List.append_assoc, e8]
        exact ⟨isCont_of_head 'G' _ (by decide) _, isCont_of_head 'G' _ (by decide) _, isCont_of_head 'G' _ (by decide) _⟩
      · intro l hl
        simp only [List.mem_singleton] at hl
        subst hl
        rw [hm]
        exact ⟨isCont_star16 _, noMatch_star _⟩

end PyYetiVerif.Bulk
