import PyYetiVerif.Lemmas.BulkFileOKDmigF
/-! Files assembled from written blocks (C13; core Lean only): the blocks, their admissible inputs, their lines and
their segments. -/
namespace PyYetiVerif.Bulk

/-- one call of a writer -/
inductive WBlock where
  | csuper (sid : Int) (grids : List Int)
  | extrn (pairs : List (Int × Int))
  | spoint (ids : List Int)
  | tabled1 (wide : Bool) (tid : Int) (pairs : List (Txt × Txt))
  | set (setid : Int) (ids : List Int) (maxLen : Nat)
  | grid (g : GridIn)
  | cord (cs : List CordIn)
  | dmig (d : Dmig)
  | dmigF (fmt : Int → Txt) (d : Dmig)
  | comment (ls : List Txt)

/-- the admissible inputs: the hypotheses of the round-trip theorems of each writer -/
def WBlock.Admissible : WBlock → Prop
  | .csuper sid grids => (dec sid).length ≤ 8 ∧ ∀ x ∈ grids, (dec x).length ≤ 8
  | .extrn pairs => pairs ≠ [] ∧ ∀ p ∈ pairs, (dec p.1).length ≤ 8 ∧ (dec p.2).length ≤ 8
  | .spoint _ => True
  | .tabled1 wide tid pairs => TabIn wide (txt "TABLED1") tid pairs
  | .set setid ids maxLen => ids ≠ [] ∧ (∀ x ∈ ids, 0 ≤ x) ∧ ∀ t ∈ setTokens setid ids, t.length ≤ maxLen
  | .grid g => g.Compat ∧ ∀ r ∈ g.rows, r.Clean g.w
  | .cord cs => ∀ c ∈ cs, c.Clean
  | .dmig d => d.Clean
  | .dmigF fmt d => d.CleanF fmt
  | .comment ls => ∀ l ∈ ls, ∃ r, l = '$' :: r

/-- the text written -/
def WBlock.lines : WBlock → List Txt
  | .csuper sid grids => csuperLines sid grids
  | .extrn pairs => extrnLines pairs
  | .spoint ids => spointLines ids
  | .tabled1 wide tid pairs => tabled1Lines wide (txt "TABLED1") tid pairs
  | .set setid ids maxLen => setLines setid ids maxLen
  | .grid g => match gridLines g with | .ok ls => ls | _ => []
  | .cord cs => cordLines cs
  | .dmig d => d.lines
  | .dmigF fmt d => d.linesF fmt
  | .comment ls => ls

def cardSeg (o : Nat) : List Txt → List Seg
  | [] => []
  | f :: cs => [.card o f cs]

/-- the same text as segments: one card (CSUPER, EXTRN, TABLED1), one card per line (SPOINT), one block of lines that
belong to no card reader (SET) -/
def WBlock.segs : WBlock → List Seg
  | .csuper sid grids => cardSeg 4 (csuperLines sid grids)
  | .extrn pairs => cardSeg 5 (extrnLines pairs)
  | .spoint ids => spointSegs ids
  | .tabled1 wide tid pairs => cardSeg 6 (tabled1Lines wide (txt "TABLED1") tid pairs)
  | .set setid ids maxLen => [.junk (setLines setid ids maxLen)]
  | .grid g => g.rows.flatMap fun r => cardSeg 1 (gridCard g.wide (r.fields g.w g.short))
  | .cord cs => cs.flatMap cordSegs
  | .dmig d => d.segs
  | .dmigF fmt d => d.segsF fmt
  | .comment ls => [.junk ls]

theorem fileOf_cardSeg (o : Nat) (ls : List Txt) : fileOf (cardSeg o ls) = ls := by
  cases ls <;> simp [cardSeg, fileOf, Seg.lines]

theorem fileOf_flatMap (f : α → List Seg) (l : List α) : fileOf (l.flatMap f) = l.flatMap fun a => fileOf (f a) := by
  induction l with
  | nil => rfl
  | cons a r ih => simp only [List.flatMap_cons]; rw [← ih]; simp [fileOf]

theorem WBlock.fileOf_segs (b : WBlock) (h : b.Admissible) : fileOf b.segs = b.lines := by
  cases b with
  | csuper sid grids => exact fileOf_cardSeg _ _
  | extrn pairs => exact fileOf_cardSeg _ _
  | spoint ids => exact (spoint_segs ids).1.symm
  | tabled1 wide tid pairs => exact fileOf_cardSeg _ _
  | set setid ids maxLen => simp [WBlock.segs, WBlock.lines, fileOf, Seg.lines]
  | grid g =>
      simp only [WBlock.segs, WBlock.lines, gridLines_rows g h.1, fileOf_flatMap, fileOf_cardSeg]
  | cord cs =>
      simp only [WBlock.segs, WBlock.lines, cordLines, fileOf_flatMap, cordSegs_file]
  | dmig d => exact d.fileOf_segs
  | dmigF fmt d => exact d.fileOf_segsF fmt
  | comment ls => simp [WBlock.segs, WBlock.lines, fileOf, Seg.lines]

theorem WBlock.segs_local (b : WBlock) (h : b.Admissible) : ∀ s ∈ b.segs, SegLocalOK bulkReaders s := by
  cases b with
  | csuper sid grids =>
      obtain ⟨f, cs, e, hok⟩ := csuper_seg sid grids h.1 h.2
      intro s hs
      simp only [WBlock.segs, e, cardSeg, List.mem_singleton] at hs
      subst hs; exact hok
  | extrn pairs =>
      obtain ⟨f, cs, e, hok⟩ := extrn_seg pairs h.1 h.2
      intro s hs
      simp only [WBlock.segs, e, cardSeg, List.mem_singleton] at hs
      subst hs; exact hok
  | spoint ids => exact (spoint_segs ids).2
  | tabled1 wide tid pairs =>
      obtain ⟨f, cs, e, hok⟩ := tabled1_seg wide tid pairs h
      intro s hs
      simp only [WBlock.segs, e, cardSeg, List.mem_singleton] at hs
      subst hs; exact hok
  | set setid ids maxLen =>
      intro s hs
      simp only [WBlock.segs, List.mem_singleton] at hs
      subst hs
      exact set_junk setid ids maxLen h.1 h.2.1 h.2.2
  | grid g =>
      intro s hs
      obtain ⟨r, hr, hsr⟩ := List.mem_flatMap.mp hs
      obtain ⟨f, cs, e, hok⟩ := gridCard_segOK g.wide g.short r (h.2 r hr)
      have e' : gridCard g.wide (r.fields g.w g.short) = f :: cs := e
      rw [e'] at hsr
      simp only [cardSeg, List.mem_singleton] at hsr
      subst hsr; exact hok
  | cord cs =>
      intro s hs
      obtain ⟨c, hc, hsc⟩ := List.mem_flatMap.mp hs
      exact cordSegs_ok c (h c hc) s hsc
  | dmig d => exact d.segs_ok h
  | dmigF fmt d => exact d.segsF_ok fmt h
  | comment ls =>
      intro s hs
      simp only [WBlock.segs, List.mem_singleton] at hs
      subst hs
      refine ⟨?_, ?_⟩
      · intro l hl k hk
        obtain ⟨r, rfl⟩ := h l hl
        exact noMatch_dollar r k hk
      · intro x hx m
        obtain ⟨r, rfl⟩ := h x (List.mem_of_mem_head? hx)
        exact isCont_of_head '$' _ (by decide) m

theorem fileOf_flatMap_segs (bs : List WBlock) (h : ∀ b ∈ bs, b.Admissible) :
    fileOf (bs.flatMap WBlock.segs) = bs.flatMap WBlock.lines := by
  rw [fileOf_flatMap]
  induction bs with
  | nil => rfl
  | cons b r ih =>
      simp only [List.flatMap_cons]
      rw [b.fileOf_segs (h b (by simp)), ih (fun x hx => h x (by simp [hx]))]

end PyYetiVerif.Bulk
