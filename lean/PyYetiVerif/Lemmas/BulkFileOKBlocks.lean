import PyYetiVerif.Lemmas.BulkFileOKTab
/-! Files assembled from written blocks (C13; core Lean only): the blocks, their admissible inputs, their lines and
their segments. -/
namespace PyYetiVerif.Bulk

/-- one call of a writer -/
inductive WBlock where
  | csuper (sid : Int) (grids : List Int)
  | extrn (pairs : List (Int × Int))
  | spoint (ids : List Int)
  | tabled1 (wide : Bool) (tid : Int) (pairs : List (Txt × Txt))
  | set (setid : Int) (ids : List Int) (maxLen : Nat)

/-- the admissible inputs: the hypotheses of the round-trip theorems of each writer -/
def WBlock.Admissible : WBlock → Prop
  | .csuper sid grids => (dec sid).length ≤ 8 ∧ ∀ x ∈ grids, (dec x).length ≤ 8
  | .extrn pairs => pairs ≠ [] ∧ ∀ p ∈ pairs, (dec p.1).length ≤ 8 ∧ (dec p.2).length ≤ 8
  | .spoint _ => True
  | .tabled1 wide tid pairs => TabIn wide (txt "TABLED1") tid pairs
  | .set setid ids maxLen => ids ≠ [] ∧ (∀ x ∈ ids, 0 ≤ x) ∧ ∀ t ∈ setTokens setid ids, t.length ≤ maxLen

/-- the text written -/
def WBlock.lines : WBlock → List Txt
  | .csuper sid grids => csuperLines sid grids
  | .extrn pairs => extrnLines pairs
  | .spoint ids => spointLines ids
  | .tabled1 wide tid pairs => tabled1Lines wide (txt "TABLED1") tid pairs
  | .set setid ids maxLen => setLines setid ids maxLen

def cardSeg (o : Nat) : List Txt → List Seg
  | [] => []
  | f :: cs => [.card o f cs]

/-- the same text as segments: one card (CSUPER, EXTRN, TABLED1), one card per line (SPOINT), one block of lines that
belong to no card reader (SET) -/
def WBlock.segs : WBlock → List Seg
  | .csuper sid grids => cardSeg 4 (csuperLines sid grids)
  | .extrn pairs => cardSeg 5 (extrnLines pairs)
  | .spoint ids => spointSegs ids
  | .tabled1 wide tid pairs => cardSeg 6 (tabled1Lines wide (txt "TABLED1") tid pairs)
  | .set setid ids maxLen => [.junk (setLines setid ids maxLen)]

theorem fileOf_cardSeg (o : Nat) (ls : List Txt) : fileOf (cardSeg o ls) = ls := by
  cases ls <;> simp [cardSeg, fileOf, Seg.lines]

theorem WBlock.fileOf_segs (b : WBlock) : fileOf b.segs = b.lines := by
  cases b with
  | csuper sid grids => exact fileOf_cardSeg _ _
  | extrn pairs => exact fileOf_cardSeg _ _
  | spoint ids => exact (spoint_segs ids).1.symm
  | tabled1 wide tid pairs => exact fileOf_cardSeg _ _
  | set setid ids maxLen => simp [WBlock.segs, WBlock.lines, fileOf, Seg.lines]

theorem WBlock.segs_local (b : WBlock) (h : b.Admissible) : ∀ s ∈ b.segs, SegLocalOK bulkReaders s := by
  cases b with
  | csuper sid grids =>
      obtain ⟨f, cs, e, hok⟩ := csuper_seg sid grids h.1 h.2
      intro s hs
      simp only [WBlock.segs, e, cardSeg, List.mem_singleton] at hs
      subst hs; exact hok
  | extrn pairs =>
      obtain ⟨f, cs, e, hok⟩ := extrn_seg pairs h.1 h.2
      intro s hs
      simp only [WBlock.segs, e, cardSeg, List.mem_singleton] at hs
      subst hs; exact hok
  | spoint ids => exact (spoint_segs ids).2
  | tabled1 wide tid pairs =>
      obtain ⟨f, cs, e, hok⟩ := tabled1_seg wide tid pairs h
      intro s hs
      simp only [WBlock.segs, e, cardSeg, List.mem_singleton] at hs
      subst hs; exact hok
  | set setid ids maxLen =>
      intro s hs
      simp only [WBlock.segs, List.mem_singleton] at hs
      subst hs
      exact set_junk setid ids maxLen h.1 h.2.1 h.2.2

theorem fileOf_flatMap_segs (bs : List WBlock) : fileOf (bs.flatMap WBlock.segs) = bs.flatMap WBlock.lines := by
  induction bs with
  | nil => rfl
  | cons b r ih =>
      simp only [List.flatMap_cons]
      rw [← ih, ← b.fileOf_segs]
      simp [fileOf]

end PyYetiVerif.Bulk
