import PyYetiVerif.Lemmas.SuPartition
import Mathlib.Data.List.Sort
import Mathlib.Order.Basic
/-!
Helper lemmas for the auto-detected partition of C01 (`rb is None`), for the order of the index
vectors and for `_mk_slice`.
-/
namespace PyYetiVerif.SuPartition

theorem nonrf_pairwise (n : Nat) (rf : List Nat) : (nonrf n rf).Pairwise (· < ·) :=
  List.Pairwise.sublist List.filter_sublist List.pairwise_lt_range

/-- gathering an ascending list through ascending positions gives an ascending list -/
theorem take_pairwise {nr pv : List Nat} (hnr : nr.Pairwise (· < ·)) (hpv : pv.Pairwise (· < ·)) :
    (take nr pv).Pairwise (· < ·) := by
  unfold take
  refine List.Pairwise.filterMap (fun i => nr[i]?) ?_ hpv
  intro i j hij b hb b' hb'
  obtain ⟨hi, rfl⟩ := List.getElem?_eq_some_iff.1 hb
  obtain ⟨hj, rfl⟩ := List.getElem?_eq_some_iff.1 hb'
  exact List.pairwise_iff_getElem.1 hnr i j hi hj hij

/-- a strictly ascending list below `n` is what `nonzero` of its indicator vector returns -/
theorem filter_range_contains_eq {n : Nat} {l : List Nat} (hl : l.Pairwise (· < ·))
    (hn : ∀ x ∈ l, x < n) : (List.range n).filter l.contains = l := by
  have hLs : ((List.range n).filter l.contains).Pairwise (· < ·) :=
    List.Pairwise.sublist List.filter_sublist List.pairwise_lt_range
  have hperm : ((List.range n).filter l.contains).Perm l := by
    refine (List.perm_ext_iff_of_nodup (hLs.imp (fun h => Nat.ne_of_lt h))
      (hl.imp (fun h => Nat.ne_of_lt h))).2 ?_
    intro a
    rw [List.mem_filter, List.mem_range, List.contains_iff_mem]
    exact ⟨fun h => h.2, fun h => ⟨hn a h, h⟩⟩
  exact hperm.eq_of_pairwise' (hLs.imp (fun h => Nat.le_of_lt h)) (hl.imp (fun h => Nat.le_of_lt h))

theorem mem_take_lt {n : Nat} {rf pv : List Nat} {g : Nat} (h : g ∈ take (nonrf n rf) pv) : g < n := by
  obtain ⟨i, _, hg⟩ := mem_take.1 h
  exact (mem_nonrf.1 (List.mem_of_getElem? hg)).1

/-- `el[nonrf[_el]] = True; el = nonzero(el)` lists the modes of `_el` in the order of `_el`
(for any ascending `_el`) -/
theorem scatter_gather_eq {n : Nat} {rf pv : List Nat} (hpv : pv.Pairwise (· < ·)) :
    (List.range n).filter (take (nonrf n rf) pv).contains = take (nonrf n rf) pv :=
  filter_range_contains_eq (take_pairwise (nonrf_pairwise n rf) hpv) (fun _ h => mem_take_lt h)

theorem filter_range_pairwise (m : Nat) (q : Nat → Bool) : ((List.range m).filter q).Pairwise (· < ·) :=
  List.Pairwise.sublist List.filter_sublist List.pairwise_lt_range

/-- gathering through the positions that pass `q` -/
theorem mem_take_filter {nr : List Nat} {q : Nat → Bool} {g : Nat} :
    g ∈ take nr ((List.range nr.length).filter q) ↔ ∃ i, nr[i]? = some g ∧ q i = true := by
  rw [mem_take]
  constructor
  · rintro ⟨i, hi, hg⟩
    exact ⟨i, hg, (List.mem_filter.1 hi).2⟩
  · rintro ⟨i, hg, hq⟩
    exact ⟨i, List.mem_filter.2 ⟨List.mem_range.2 (List.getElem?_eq_some_iff.1 hg).1, hq⟩, hg⟩

/-! ### `_mk_slice` -/

theorem consecutive_iff (a : Nat) (r : List Nat) :
    consecutive (a :: r) = true ↔ a :: r = List.range' a (r.length + 1) := by
  induction r generalizing a with
  | nil => simp [consecutive, List.range']
  | cons b r ih =>
    rw [consecutive, Bool.and_eq_true, ih b]
    simp only [beq_iff_eq, List.length_cons]
    constructor
    · rintro ⟨rfl, h⟩
      rw [List.range'_succ, ← h]
    · intro h
      rw [List.range'_succ] at h
      have h1 := List.cons.inj h
      have h2 : b = a + 1 := by
        have := h1.2
        rw [List.range'_succ] at this
        exact (List.cons.inj this).1
      subst h2
      exact ⟨rfl, h1.2⟩

/-! ### `ndarray.max` -/

theorem foldl_max_lt_iff {α : Type} [LinearOrder α] (tol : α) (r : List α) (a : α) :
    r.foldl (fun m x => if m < x then x else m) a < tol ↔ a < tol ∧ ∀ x ∈ r, x < tol := by
  induction r generalizing a with
  | nil => simp
  | cons b r ih =>
    rw [List.foldl_cons, ih]
    by_cases h : a < b
    · simp only [h, if_true, List.mem_cons, forall_eq_or_imp]
      exact ⟨fun ⟨h1, h2⟩ => ⟨lt_trans h h1, h1, h2⟩, fun ⟨_, h1, h2⟩ => ⟨h1, h2⟩⟩
    · simp only [h, if_false, List.mem_cons, forall_eq_or_imp]
      exact ⟨fun ⟨h1, h2⟩ => ⟨h1, lt_of_le_of_lt (not_lt.1 h) h1, h2⟩, fun ⟨h1, _, h2⟩ => ⟨h1, h2⟩⟩

theorem listMax_lt_iff {α : Type} [LinearOrder α] (d tol : α) (hd : d < tol) (l : List α) :
    listMax d l < tol ↔ ∀ x ∈ l, x < tol := by
  cases l with
  | nil => simp [listMax, hd]
  | cons a r =>
    rw [listMax, foldl_max_lt_iff]
    simp

end PyYetiVerif.SuPartition
