import PyYetiVerif.Lemmas.UsetUpFuel
/-!
Helper lemmas for `Props/C18Cyc.lean`: a used-up recursion fuel of `upqsetpv` comes from a chain of nested calls.
-/
set_option linter.constructorNameAsVariable false
namespace PyYetiVerif.C18
open PyYetiVerif.Uset

/-- `u` is an upstream SE of `d` that the loop of `upqsetpv(nas, d)` does not skip -/
def Link (selist : List (Nat × Nat)) (d u : Nat) : Prop := (u, d) ∈ selist ∧ u ≠ d

section
variable {a q p : Nat} {nas : Nas}

theorem foldlM_upqStep_rec {r : Nat → Except Err (List Bool)} {sedn : Nat} {usetdn : List Row}
    (l : List Nat) (init : List Bool) (h : IsRec (l.foldlM (upqStep a q p nas r sedn usetdn) init)) :
    ∃ c ∈ l, c ≠ sedn ∧ nas.selist.any (fun x => x.2 = c) = true ∧ IsRec (r c) := by
  by_contra hno
  refine foldlM_upqStep_noRec l init ?_ h
  intro c hc hne hany hrec
  exact hno ⟨c, hc, hne, hany, hrec⟩

/-- a used-up fuel comes from a nested call one level up that used up its fuel -/
theorem upqsetpv_rec_step (fuel s : Nat) (h : IsRec (upqsetpv a q p nas (fuel + 1) s)) :
    ∃ c, Link nas.selist s c ∧ IsRec (upqsetpv a q p nas fuel c) := by
  rw [upqsetpv] at h
  split at h
  · simp [IsRec] at h
  · cases hu : lookupD nas.uset s with
    | error e =>
        rw [hu] at h
        exact absurd (by rw [hu]; simpa [IsRec, bind, Except.bind] using h) (lookupD_noRec nas.uset s)
    | ok usetdn =>
        rw [hu] at h
        simp only [bind, Except.bind] at h
        obtain ⟨c, hc, hne, _, hrec⟩ := foldlM_upqStep_rec _ _ h
        obtain ⟨row, hrow, rfl⟩ := List.mem_map.mp hc
        obtain ⟨hmem, hrs⟩ := List.mem_filter.mp hrow
        have hrs' : row.2 = s := by simpa using hrs
        refine ⟨row.1, ⟨?_, hne⟩, hrec⟩
        rw [← hrs']
        exact hmem

/-- … so a fuel of `n` used up gives a chain of `n` nested calls -/
theorem upqsetpv_rec_chain : ∀ (n s : Nat), IsRec (upqsetpv a q p nas n s) →
    ∃ f : Nat → Nat, f 0 = s ∧ ∀ i < n, Link nas.selist (f i) (f (i + 1))
  | 0, s, _ => ⟨fun _ => s, rfl, fun i hi => by omega⟩
  | n + 1, s, h => by
      obtain ⟨c, hl, hrec⟩ := upqsetpv_rec_step n s h
      obtain ⟨g, hg0, hg⟩ := upqsetpv_rec_chain n c hrec
      refine ⟨fun i => if i = 0 then s else g (i - 1), rfl, ?_⟩
      intro i hi
      cases i with
      | zero => simpa [hg0] using hl
      | succ i =>
          have := hg i (by omega)
          cases i with
          | zero => simpa using this
          | succ i => simpa using this

theorem foldlM_never_ok {β γ ε : Type} (step : β → γ → Except ε β) :
    ∀ (l : List γ) (init : β), (∃ x ∈ l, ∀ acc out, step acc x ≠ .ok out) →
      ∀ out, l.foldlM step init ≠ .ok out
  | [], _, ⟨x, hx, _⟩, _ => by cases hx
  | y :: t, init, ⟨x, hx, hbad⟩, out => by
      rw [List.foldlM_cons]
      cases hy : step init y with
      | error e => intro h; cases h
      | ok acc' =>
          simp only [bind, Except.bind]
          rcases List.mem_cons.mp hx with rfl | hmem
          · exact absurd hy (hbad init acc')
          · exact foldlM_never_ok step t acc' ⟨x, hmem, hbad⟩ out

end

end PyYetiVerif.C18
