import PyYetiVerif.Model.FreqSolve
import Mathlib.Data.ZMod.Basic
import Mathlib.Algebra.Field.ZMod
import Mathlib.LinearAlgebra.Matrix.Notation
/-! Concrete witnesses for the non-vacuity examples of `Props/C02h.lean`: a 3-equation system
(one rigid-body, one elastic, one residual-flexibility equation) over the field `ZMod 5`, where
`i = 2` (`2 · 2 = −1`) and everything is decidable by evaluation.  Definitions only. -/
namespace PyYetiVerif.Freq.Witness
open PyYetiVerif.Freq

instance fact5 : Fact (Nat.Prime 5) := ⟨by decide⟩

/-- uncoupled: `m = [1,1,1]`, `b = [0,1,0]`, `k = [0,2,3]` -/
def envUnc : ColEnv (ZMod 5) :=
  { i := 2, isZero := fun x => decide (x = 0), absLt := fun a b => decide (a = 0 ∧ b ≠ 0),
    M := fun r c => if r = c then 1 else 0,
    B := fun r c => if r = c ∧ r = 1 then 1 else 0,
    K := fun r c => if r = c then (if r = 1 then 2 else if r = 2 then 3 else 0) else 0,
    mNone := false, unc := true, inc := Incrb.all, dispOnly := false }

/-- the same with a *damped* rigid-body mode (`b = [1,1,0]`; findings F51 / F52): at `Ω = 1` the
rigid-body row has the dynamic stiffness `−1 + 2·1 = 1` -/
def envUncD : ColEnv (ZMod 5) :=
  { envUnc with B := fun r c => if r = c ∧ r ≤ 1 then 1 else 0 }

/-- the same layout treated as coupled (`m = I`, `b = 0`, `k = diag(0,1,3)`): LU solves, `imrb`,
complex modes -/
def envCoup : ColEnv (ZMod 5) :=
  { i := 2, isZero := fun x => decide (x = 0), absLt := fun a b => decide (a = 0 ∧ b ≠ 0),
    M := fun r c => if r = c then 1 else 0,
    B := fun _ _ => 0,
    K := fun r c => if r = c then (if r = 1 then 1 else if r = 2 then 3 else 0) else 0,
    mNone := false, unc := false, inc := Incrb.all, dispOnly := false }

/-- `rb = [0]`, `el = [1]`, `rf = [2]` -/
def lay : Layout := ⟨3, [2], [0, 1], [0], [1], [0], [1]⟩

/-- constructor state on the real uncoupled path -/
def stUnc : SuState := ⟨lay, [0, 1], [0, 1], [0], [1], none, some [0, 1]⟩

/-- constructor state after `get_su_eig` -/
def stCoup : SuState := ⟨lay, [1], [1], [], [0], some [0], some [1]⟩

/-- eigen data of the elastic block `ẍ + x = f`: `λ = ±i = (2, 3)` -/
def eig : EigData (ZMod 5) stCoup.kdof.length := ⟨2, ![2, 3], fun _ => ![1, 1], fun j _ => ![4, 1] j⟩

end PyYetiVerif.Freq.Witness
