import PyYetiVerif.Model.FindapLocate
import PyYetiVerif.Lemmas.Findap
import Mathlib.Data.List.Nodup
/-! Helper lemmas for C10 / `locate.find_duplicates`: the sorted-neighbour flag and the scatter
through `find?`. -/
set_option linter.unusedVariables false
namespace PyYetiVerif.Findap.Dups
open PyYetiVerif.Findap

section
variable {α : Type} [Field α] [LinearOrder α] [IsStrictOrderedRing α]

/-- entry `k` of `tf = abs(diff(sorted)) <= tol` -/
theorem tf_getD (tol : α) (vals : List α) (k : Nat) :
    ((vals.zip vals.tail).map fun p => !decide (tol < absd p.2 p.1)).getD k false = true ↔
      ∃ h : k + 1 < vals.length, ¬ tol < |vals[k + 1] - vals[k]| := by
  by_cases h : k + 1 < vals.length
  · have hk : k < ((vals.zip vals.tail).map fun p => !decide (tol < absd p.2 p.1)).length := by
      simp; omega
    rw [List.getD_eq_getElem?_getD, List.getElem?_eq_getElem hk]
    simp [absd_eq_abs, h]
  · have hk : ((vals.zip vals.tail).map fun p => !decide (tol < absd p.2 p.1)).length ≤ k := by
      simp; omega
    rw [List.getD_eq_getElem?_getD, List.getElem?_eq_none hk]
    simp [h]

/-- the flag the code computes at sorted position `k`: a neighbour within `tol` exists iff ANY other
sorted position is within `tol` -/
theorem flag_iff (tol : α) (vals : List α) (hs : vals.Pairwise (· ≤ ·)) (k : Nat)
    (hk : k < vals.length) :
    ((((vals.zip vals.tail).map fun p => !decide (tol < absd p.2 p.1)).getD k false ||
      (decide (0 < k) &&
        ((vals.zip vals.tail).map fun p => !decide (tol < absd p.2 p.1)).getD (k - 1) false))
      = true) ↔ ∃ j, ∃ hj : j < vals.length, j ≠ k ∧ ¬ tol < |vals[j] - vals[k]| := by
  have mono : ∀ i j (hi : i < vals.length) (hj : j < vals.length), i ≤ j → vals[i] ≤ vals[j] := by
    intro i j hi hj hij
    rcases Nat.eq_or_lt_of_le hij with rfl | hlt
    · exact le_rfl
    · exact List.pairwise_iff_getElem.mp hs i j hi hj hlt
  rw [Bool.or_eq_true, Bool.and_eq_true, tf_getD, tf_getD, decide_eq_true_eq]
  constructor
  · rintro (⟨h, hc⟩ | ⟨h0, h, hc⟩)
    · exact ⟨k + 1, h, by omega, hc⟩
    · refine ⟨k - 1, by omega, by omega, ?_⟩
      have e : k - 1 + 1 = k := by omega
      simp only [e] at hc
      rwa [abs_sub_comm]
  · rintro ⟨j, hj, hne, hc⟩
    rcases Nat.lt_or_gt_of_ne hne with hlt | hgt
    · right
      have e : k - 1 + 1 = k := by omega
      refine ⟨by omega, by omega, ?_⟩
      simp only [e]
      intro hl
      apply hc
      have h1 := mono j (k - 1) hj (by omega) (by omega)
      have h2 := mono (k - 1) k (by omega) hk (by omega)
      rw [abs_of_nonneg (by linarith)] at hl
      rw [abs_sub_comm, abs_of_nonneg (by linarith)]
      linarith
    · left
      refine ⟨by omega, ?_⟩
      intro hl
      apply hc
      have h1 := mono (k + 1) j (by omega) hj (by omega)
      have h2 := mono k (k + 1) hk (by omega) (by omega)
      rw [abs_of_nonneg (by linarith)] at hl
      rw [abs_of_nonneg (by linarith)]
      linarith

/-- at sorted position `k` the code's flag is "some entry with another ORIGINAL index is within
`tol`" -/
theorem flag_eq_any (tol : α) (s : List (α × Nat)) (hs : (s.map (·.1)).Pairwise (· ≤ ·))
    (hn : (s.map (·.2)).Nodup) (k : Nat) (hk : k < s.length) :
    ((((s.map (·.1)).zip (s.map (·.1)).tail).map fun p => !decide (tol < absd p.2 p.1)).getD k false ||
      (decide (0 < k) &&
        (((s.map (·.1)).zip (s.map (·.1)).tail).map
          fun p => !decide (tol < absd p.2 p.1)).getD (k - 1) false)) =
    s.any (fun q => decide (q.2 ≠ s[k].2) && !decide (tol < absd q.1 s[k].1)) := by
  rw [Bool.eq_iff_iff, flag_iff tol _ hs k (by simpa using hk), List.any_eq_true]
  constructor
  · rintro ⟨j, hj, hne, hc⟩
    have hj' : j < s.length := by simpa using hj
    refine ⟨s[j], List.getElem_mem hj', ?_⟩
    have h2 : s[j].2 ≠ s[k].2 := by
      intro e
      apply hne
      have := (hn.getElem_inj_iff (hi := by simpa using hj') (hj := by simpa using hk)).mp
        (by simpa using e)
      exact this
    simp only [List.getElem_map] at hc
    simp [h2, absd_eq_abs, hc]
  · rintro ⟨q, hq, h⟩
    obtain ⟨j, hj, rfl⟩ := List.mem_iff_getElem.mp hq
    simp only [Bool.and_eq_true, decide_eq_true_eq, Bool.not_eq_true', decide_eq_false_iff_not,
      absd_eq_abs] at h
    refine ⟨j, by simpa using hj, ?_, by simpa using h.2⟩
    rintro rfl
    exact h.1 rfl

omit [Field α] [LinearOrder α] [IsStrictOrderedRing α] in
/-- what `placed.find?` can return -/
theorem placed_some (s : List (α × Nat)) (flag : Nat → Bool) (p : Nat) (q : Nat × Bool)
    (h : (((List.range s.length).zip s).map fun q => (q.2.2, flag q.1)).find?
      (fun q => q.1 = p) = some q) :
    ∃ k, ∃ hk : k < s.length, s[k].2 = p ∧ q.2 = flag k := by
  have h1 := List.mem_of_find?_eq_some h
  have h2 := List.find?_some h
  obtain ⟨x, hx, rfl⟩ := List.mem_map.mp h1
  obtain ⟨i, hi, rfl⟩ := List.mem_iff_getElem.mp hx
  have hi' : i < s.length := by simp at hi; exact hi
  refine ⟨i, hi', ?_, ?_⟩
  · simpa using h2
  · simp

omit [Field α] [LinearOrder α] [IsStrictOrderedRing α] in
theorem placed_none (s : List (α × Nat)) (flag : Nat → Bool) (p : Nat)
    (h : (((List.range s.length).zip s).map fun q => (q.2.2, flag q.1)).find?
      (fun q => q.1 = p) = none) (k : Nat) (hk : k < s.length) : s[k].2 ≠ p := by
  intro e
  have := List.find?_eq_none.mp h (s[k].2, flag k) (by
    refine List.mem_map.mpr ⟨(k, s[k]), ?_, rfl⟩
    refine List.mem_iff_getElem.mpr ⟨k, by simpa using hk, by simp⟩)
  simp [e] at this

end

end PyYetiVerif.Findap.Dups
