import PyYetiVerif.Lemmas.ApplyUfFull
import PyYetiVerif.Lemmas.Extrema
/-! Helper lemmas for C16 (`apply_uf`, full stiffness): the partition layer of
`Model/ApplyUfFull.lean` when there are no residual-flexibility modes. -/
namespace PyYetiVerif.ApplyUfFull
open PyYetiVerif.ApplyUf (Uf)

section routine
variable {α : Type} {n : Nat}

/-- index of elastic mode `i` among all modes when there are no residual-flexibility modes -/
def sh (nrb : Nat) (h : nrb ≤ n) (i : Fin (n - nrb)) : Fin n := ⟨nrb + i, by omega⟩

/-- rows of an elastic result placed back among all `n` modes, rigid-body rows zero -/
def liftE [Zero α] (nrb : Nat) (h : nrb ≤ n) (w : Fin (n - nrb) → α) : Fin n → α :=
  fun j => if hj : nrb ≤ j.val then w ⟨j.val - nrb, by omega⟩ else 0

theorem elasticIdx_nil (n nrb : Nat) :
    elasticIdx n nrb [] = List.ofFn (fun i : Fin (n - nrb) => nrb + i.val) := by
  unfold elasticIdx
  apply List.ext_getElem
  · simp
  · intro i h1 h2
    simp

variable [Zero α]

theorem pick_ofFn {k : Nat} (idx : Fin k → Fin n) (x : Fin n → α) :
    pick (List.ofFn fun i => (idx i).val) (toL x) = toL (fun i => x (idx i)) := by
  unfold pick toL
  apply List.ext_getElem
  · simp
  · intro i h1 h2
    simp [List.getD_eq_getElem?_getD]

theorem pickM_ofFn {k : Nat} (idx : Fin k → Fin n) (A : Matrix (Fin n) (Fin n) α) :
    pickM (List.ofFn fun i => (idx i).val) (List.ofFn fun i => (idx i).val) (toLL A)
      = toLL (A.submatrix idx idx) := by
  unfold pickM toLL
  apply List.ext_getElem
  · simp
  · intro i h1 h2
    simp only [List.getElem_map, List.getElem_ofFn]
    have : (List.ofFn fun i => List.ofFn (A i)).getD (idx ⟨i, by simpa using h1⟩).val [] = toL (A (idx ⟨i, by simpa using h1⟩)) := by
      simp [List.getD_eq_getElem?_getD, toL]
    rw [this]
    exact pick_ofFn idx _


theorem scatter_shift (nrb : Nat) (h : nrb ≤ n) (w : Fin (n - nrb) → α) :
    scatter (List.ofFn fun i : Fin (n - nrb) => nrb + i.val) (toL w) (List.replicate n (0 : α))
      = toL (liftE nrb h w) := by
  unfold scatter liftE
  have hz : (List.ofFn fun i : Fin (n - nrb) => nrb + i.val).zip (toL w)
      = List.ofFn fun i : Fin (n - nrb) => (nrb + i.val, w i) := by
    unfold toL
    apply List.ext_getElem
    · simp
    · intro i h1 h2
      simp
  rw [hz]
  have hnd : ((List.ofFn fun i : Fin (n - nrb) => (nrb + i.val, w i)).map (·.1)).Nodup := by
    rw [List.map_ofFn]
    apply List.nodup_ofFn.2
    intro i j hij
    simp only [Function.comp_apply] at hij
    exact Fin.ext (by omega)
  apply List.ext_getElem?
  intro j
  by_cases hjn : j < n
  · by_cases hj : nrb ≤ j
    · have hmem : (j, w ⟨j - nrb, by omega⟩) ∈ List.ofFn fun i : Fin (n - nrb) => (nrb + i.val, w i) := by
        rw [List.mem_ofFn]
        exact ⟨⟨j - nrb, by omega⟩, by simp; omega⟩
      rw [PyYetiVerif.Extrema.foldl_set_get _ _ hnd j _ hmem (by simpa using hjn)]
      simp [toL, hjn, hj]
    · have hnot : j ∉ (List.ofFn fun i : Fin (n - nrb) => (nrb + i.val, w i)).map (·.1) := by
        rw [List.map_ofFn, List.mem_ofFn]
        rintro ⟨i, hi⟩
        simp only [Function.comp_apply] at hi
        omega
      rw [PyYetiVerif.Extrema.foldl_set_get_of_notMem _ _ _ hnot]
      simp [toL, hjn, hj]
  · have hlen := PyYetiVerif.Extrema.foldl_set_length (List.replicate n (0 : α))
      (List.ofFn fun i : Fin (n - nrb) => (nrb + i.val, w i))
    rw [List.getElem?_eq_none (by rw [hlen]; simpa using Nat.le_of_not_lt hjn),
      List.getElem?_eq_none (by simpa [toL] using Nat.le_of_not_lt hjn)]


theorem scaleAV_nil [Mul α] (D : FullData α) (hrf : D.rf = []) (uf : Uf α) (x : Fin n → α) :
    scaleAV D uf (toL x) = toL fun j : Fin n =>
      if j.val < D.nrb then x j * (uf.ruf * uf.suf) else x j * (uf.euf * uf.duf) := by
  unfold scaleAV toL
  apply List.ext_getElem
  · simp
  · intro i h1 h2
    simp [hrf]

/-- Mathlib-side description of a modal coefficient over all `n` modes -/
inductive ArgM (n : Nat) (α : Type) where
  | vec (d : Fin n → α)
  | mat (A : Matrix (Fin n) (Fin n) α)

def ArgM.toArg : ArgM n α → Arg α
  | .vec d => .vec (toL d)
  | .mat A => .mat (toLL A)

/-- its elastic partition when there are no residual-flexibility modes -/
def ArgM.blockM (nrb : Nat) (h : nrb ≤ n) : ArgM n α → CoefM (n - nrb) α
  | .vec d => .diag fun i => d (sh nrb h i)
  | .mat A => .full (A.submatrix (sh nrb h) (sh nrb h))

theorem block_toArg (nrb : Nat) (h : nrb ≤ n) (c : ArgM n α) :
    c.toArg.block (List.ofFn fun i : Fin (n - nrb) => nrb + i.val) = (c.blockM nrb h).toModel := by
  cases c with
  | vec d =>
    simp only [ArgM.toArg, Arg.block, ArgM.blockM, CoefM.toModel]
    congr 1
    exact pick_ofFn (sh nrb h) d
  | mat A =>
    simp only [ArgM.toArg, Arg.block, ArgM.blockM, CoefM.toModel]
    congr 1
    exact pickM_ofFn (sh nrb h) A

/-- well-shaped modal data without residual-flexibility modes -/
def dataM (nrb : Nat) (m : Option (ArgM n α)) (b : ArgM n α) (K : Matrix (Fin n) (Fin n) α)
    (KeeInv : Matrix (Fin (n - nrb)) (Fin (n - nrb)) α) : FullData α :=
  ⟨n, nrb, [], m.map ArgM.toArg, b.toArg, toLL K, toLL KeeInv, []⟩

theorem blocksOf_dataM (nrb : Nat) (h : nrb ≤ n) (m : Option (ArgM n α)) (b : ArgM n α)
    (K : Matrix (Fin n) (Fin n) α) (KeeInv : Matrix (Fin (n - nrb)) (Fin (n - nrb)) α) :
    blocksOf (dataM nrb m b K KeeInv)
      = blocksM (m.map (ArgM.blockM nrb h)) (b.blockM nrb h) (K.submatrix (sh nrb h) (sh nrb h)) KeeInv
          (0 : Matrix (Fin 0) (Fin 0) α) 0 := by
  simp only [blocksOf, dataM, blocksM, elasticIdx_nil, block_toArg nrb h]
  congr 1
  · cases m with
    | none => rfl
    | some c => simp [block_toArg nrb h]
  · exact pickM_ofFn (sh nrb h) K

theorem colOf_dataM (nrb : Nat) (h : nrb ≤ n) (m : Option (ArgM n α)) (b : ArgM n α)
    (K : Matrix (Fin n) (Fin n) α) (KeeInv : Matrix (Fin (n - nrb)) (Fin (n - nrb)) α)
    (a v d : Fin n → α) :
    colOf (dataM nrb m b K KeeInv) ⟨toL a, toL v, toL d⟩
      = colM (fun i => a (sh nrb h i)) (fun i => v (sh nrb h i)) (fun i => d (sh nrb h i))
          (fun _ : Fin 0 => (0 : α)) := by
  simp only [colOf, dataM, colM, elasticIdx_nil]
  congr 1
  · exact pick_ofFn (sh nrb h) a
  · exact pick_ofFn (sh nrb h) v
  · exact pick_ofFn (sh nrb h) d

end routine

section unfold
variable {α : Type} [Add α] [Mul α] [Neg α] [Zero α]

theorem applyFull_none (D : FullData α) (cols : List (FullCol α)) (uf : Uf α)
    (hne : (D.nrb == D.n) = false) :
    (applyFull none D cols uf).1 = cols.map fun c =>
      assemble D uf c (applyBlock uf (blocksOf D).kinvE (blocksOf D).kinvR (colOf D c)
        (preBlock (blocksOf D) (colOf D c))) := by
  unfold applyFull applyBlocks
  simp only [hne, Bool.false_eq_true, if_false]
  apply List.ext_getElem
  · simp
  · intro i h1 h2
    simp

end unfold
end PyYetiVerif.ApplyUfFull
