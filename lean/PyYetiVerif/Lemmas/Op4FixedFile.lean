import PyYetiVerif.Lemmas.Op4Fixed
/-! The F2 repair candidate through `rdMatrix` / `rdFile`: the chain of Lemmas/Op4File.lean with the strings of the
patched nonbigmat writer (`stringsFx`).  Core Lean only. -/
namespace PyYetiVerif.Op4
open PyYetiVerif.Generated.Op4Consts

theorem expand_length (runs : List (Nat × Nat)) : (expand runs).length = (runs.map (·.2)).sum := by
  induction runs with
  | nil => rfl
  | cons p t ih => rw [expand_cons]; simp [ih]

theorem runsFx_sum (cplx : Bool) (col : List Entry) :
    ((runsFx cplx col).map (·.2)).sum = (nzIdx cplx col).length := by
  rw [← expand_length, expand_splitStrings _ (maxStrRows_pos cplx), expand_colStats]

theorem stringsFx_length_le_rows (cplx : Bool) (col : List Entry) : (stringsFx cplx col).length ≤ col.length := by
  rw [stringsFx_eq, List.length_map]
  have h1 := length_le_sum_of_pos ((runsFx cplx col).map (·.2)) (by
    intro x hx
    rw [List.mem_map] at hx
    obtain ⟨p, hp, rfl⟩ := hx
    exact (runsFx_bounds cplx col p hp).1)
  rw [List.length_map, runsFx_sum] at h1
  exact Nat.le_trans h1 (nzIdxFrom_length_le cplx col 0)

theorem sumLens_stringsFx_le (cplx : Bool) (col : List Entry) : sumLens (stringsFx cplx col) ≤ col.length := by
  rw [stringsFx_eq]
  have h1 := sumLens_map_le col (runsFx cplx col)
  rw [runsFx_sum] at h1
  exact Nat.le_trans h1 (nzIdxFrom_length_le cplx col 0)

theorem nwordsFx_bound (cplx : Bool) (col : List Entry) :
    nwordsNonbig cplx (stringsFx cplx col) ≤ 6 * col.length := by
  have h1 := stringsFx_length_le_rows cplx col
  have h2 := sumLens_stringsFx_le cplx col
  unfold nwordsNonbig
  cases cplx <;> simp [mult] <;> omega

theorem stringsFx_ne_nil (cplx : Bool) (col : List Entry) (s : Nat) (tl : List Nat)
    (h : nzIdx cplx col = s :: tl) : stringsFx cplx col ≠ [] := by
  have hs : s ∈ nzIdx cplx col := by rw [h]; exact List.mem_cons_self
  obtain ⟨p, hp, _⟩ := (mem_runsFx cplx col s).1 hs
  rw [stringsFx_eq]
  intro hnil
  have := List.map_eq_nil_iff.1 hnil
  rw [this] at hp
  cases hp

theorem stringsFx_nil (cplx : Bool) (col : List Entry) (h : nzIdx cplx col = []) : stringsFx cplx col = [] := by
  unfold stringsFx; rw [h]; rfl

/-- the record of a non-zero column, patched writer -/
def recOfFx (e : Endian) (lay : Layout) (cplx : Bool) (c : Nat) (col : List Entry) (s : Nat) (tl : List Nat) : Rec :=
  match lay with
  | .nonbigmat =>
    let ss := stringsFx cplx col
    { c := c, r := 0, nw := nwordsNonbig cplx ss, reclen := (3 + nwordsNonbig cplx ss) * 4,
      payload := ss.flatMap (nonbigStringWords e cplx), puts := ss.map fun s => (s.1, s.2.map (normE cplx)) }
  | l => recOf e l cplx c col s tl

def encColFx (e : Endian) (lay : Layout) (cplx : Bool) : Nat → List Entry → List Nat :=
  match lay with
  | .nonbigmat => encColNonbigFx e cplx
  | l => encCol e l cplx

theorem encColFx_nonzero (e : Endian) (lay : Layout) (cplx : Bool) (c : Nat) (col : List Entry) (s : Nat)
    (tl : List Nat) (h : nzIdx cplx col = s :: tl) :
    encColFx e lay cplx c col = (recOfFx e lay cplx c col s tl).words := by
  cases lay
  · exact encCol_nonzero e .dense cplx c col s tl h
  · exact encCol_nonzero e .bigmat cplx c col s tl h
  · simp only [encColFx, recOfFx, Rec.words, encColNonbigFx]
    have := stringsFx_ne_nil cplx col s tl h
    split
    · next h' => exact absurd h' this
    · simp

theorem encColFx_zero (e : Endian) (lay : Layout) (cplx : Bool) (c : Nat) (col : List Entry)
    (h : nzIdx cplx col = []) : encColFx e lay cplx c col = [] := by
  cases lay
  · exact encCol_zero e .dense cplx c col h
  · exact encCol_zero e .bigmat cplx c col h
  · simp [encColFx, encColNonbigFx, stringsFx_nil cplx col h]

theorem recOfFx_good (e : Endian) (lay : Layout) (cplx : Bool) (ncols c : Nat) (col : List Entry) (s : Nat)
    (tl : List Nat) (h : nzIdx cplx col = s :: tl) (hc : c < ncols) (hn : ncols + 1 < 2147483648)
    (hrows : col.length < 268435456) (hnb : lay = .nonbigmat → col.length < 65536) :
    (recOfFx e lay cplx c col s tl).Good e lay cplx ncols := by
  cases lay
  · exact recOf_good e .dense cplx ncols c col s tl h hc hn hrows (by simp)
  · exact recOf_good e .bigmat cplx ncols c col s tl h hc hn hrows (by simp)
  · have hb := nwordsFx_bound cplx col
    refine ⟨hc, by simp only [recOfFx]; omega, by simp only [recOfFx]; omega, by simp only [recOfFx]; omega, ?_⟩
    intro tail
    simp only [recOfFx, bodyOf, Int.toNat_natCast]
    exact rdStringsNonbig_enc e cplx _ tail (stringsFx_rows cplx col (hnb rfl)) _ (strings_length_le cplx _).1

def recsOfFx (e : Endian) (lay : Layout) (cplx : Bool) : Nat → List (List Entry) → List Rec
  | _, [] => []
  | c, col :: t =>
    match nzIdx cplx col with
    | [] => recsOfFx e lay cplx (c + 1) t
    | s :: tl => recOfFx e lay cplx c col s tl :: recsOfFx e lay cplx (c + 1) t

theorem encCols_recsFx (e : Endian) (lay : Layout) (cplx : Bool) :
    ∀ (cols : List (List Entry)) (c : Nat),
      encCols (encColFx e lay cplx) c cols = (recsOfFx e lay cplx c cols).flatMap Rec.words := by
  intro cols
  induction cols with
  | nil => intro c; rfl
  | cons col t ih =>
    intro c
    unfold encCols recsOfFx
    split
    · next h => rw [encColFx_zero e lay cplx c col h, ih]; rfl
    · next s tl h => rw [encColFx_nonzero e lay cplx c col s tl h, ih]; simp

theorem recsOfFx_good (e : Endian) (lay : Layout) (cplx : Bool) (ncols rows : Nat) (hn : ncols + 1 < 2147483648)
    (hrows : rows < 268435456) (hnb : lay = .nonbigmat → rows < 65536) :
    ∀ (cols : List (List Entry)) (c : Nat), c + cols.length ≤ ncols → (∀ col ∈ cols, col.length = rows) →
      ∀ rc ∈ recsOfFx e lay cplx c cols, rc.Good e lay cplx ncols := by
  intro cols
  induction cols with
  | nil => intro c _ _ rc hrc; simp [recsOfFx] at hrc
  | cons col t ih =>
    intro c hc hl rc hrc
    have hcl := hl col (List.mem_cons_self)
    have iht := ih (c + 1) (by simp at hc ⊢; omega) (fun x hx => hl x (List.mem_cons_of_mem _ hx))
    unfold recsOfFx at hrc
    split at hrc
    · exact iht rc hrc
    · next s tl h =>
      rcases List.mem_cons.1 hrc with rfl | hrc
      · exact recOfFx_good e lay cplx ncols c col s tl h (by simp at hc; omega) hn (by omega)
          (fun hh => by have := hnb hh; omega)
      · exact iht rc hrc

theorem recOfFx_r (e : Endian) (lay : Layout) (cplx : Bool) (c : Nat) (col : List Entry) (s : Nat) (tl : List Nat) :
    (lay = .dense → 0 < (recOfFx e lay cplx c col s tl).r) ∧ (lay ≠ .dense → (recOfFx e lay cplx c col s tl).r = 0) := by
  cases lay <;> simp [recOfFx, recOf]

theorem recsOfFx_r (e : Endian) (lay : Layout) (cplx : Bool) :
    ∀ (cols : List (List Entry)) (c : Nat), ∀ rc ∈ recsOfFx e lay cplx c cols,
      (lay = .dense → 0 < rc.r) ∧ (lay ≠ .dense → rc.r = 0) := by
  intro cols
  induction cols with
  | nil => intro c rc hrc; simp [recsOfFx] at hrc
  | cons col t ih =>
    intro c rc hrc
    unfold recsOfFx at hrc
    split at hrc
    · exact ih (c + 1) rc hrc
    · rcases List.mem_cons.1 hrc with rfl | hrc
      · exact recOfFx_r e lay cplx c col _ _
      · exact ih (c + 1) rc hrc

theorem recsOfFx_ne_nil (e : Endian) (lay : Layout) (cplx : Bool) :
    ∀ (cols : List (List Entry)) (c : Nat), recsOfFx e lay cplx c cols ≠ [] → ∃ col ∈ cols, 0 < col.length := by
  intro cols
  induction cols with
  | nil => intro c h; simp [recsOfFx] at h
  | cons col t ih =>
    intro c h
    unfold recsOfFx at h
    split at h
    · obtain ⟨x, hx, hl⟩ := ih (c + 1) h
      exact ⟨x, List.mem_cons_of_mem _ hx, hl⟩
    · next s tl hnz =>
      have hs_mem : s ∈ nzIdx cplx col := by rw [hnz]; exact List.mem_cons_self
      obtain ⟨xs, hxs, _⟩ := (mem_nzIdx _ _ _).1 hs_mem
      have := (List.getElem?_eq_some_iff.1 hxs).1
      exact ⟨col, List.mem_cons_self, by omega⟩

theorem encMatWordsFx_eq (e : Endian) (lay : Layout) (m : Mat) (ws : List Nat)
    (h : encMatWordsFx e lay m = some ws) :
    ws = headerWords e m (lay == .bigmat) ++ ((recsOfFx e lay m.cplx 0 m.cols).flatMap Rec.words
      ++ trailerWords e m.cols.length) := by
  cases lay
  · simp only [encMatWordsFx, encMatWords, Option.some.injEq] at h
    rw [← h, ← encCols_recsFx]; simp [encColFx, encCol]; rfl
  · simp only [encMatWordsFx, encMatWords, Option.some.injEq] at h
    rw [← h, ← encCols_recsFx]; simp [encColFx, encCol]
  · simp only [encMatWordsFx] at h
    split at h
    · simp only [Option.some.injEq] at h
      rw [← h, ← encCols_recsFx]; simp [encColFx]; rfl
    · cases h

theorem rdMatrix_encFx (e : Endian) (lay : Layout) (m : Mat) (rest ws : List Nat) (hwf : m.Wf)
    (hnb : lay = .nonbigmat → m.rows < 65536) (henc : encMatWordsFx e lay m = some ws) :
    ∃ lay' auto, rdMatrix e (ws ++ rest) =
      some ({ rawName := nameField m.name,
              rows := if lay = .bigmat then -(m.rows : Int) else (m.rows : Int),
              cols := (m.cols.length : Int), form := (m.form : Int), mtype := (mtypeOf m.cplx : Int),
              layout := lay', sparseAuto := auto,
              puts := (recsOfFx e lay m.cplx 0 m.cols).flatMap Rec.outPuts }, rest) := by
  rw [encMatWordsFx_eq e lay m ws henc]
  obtain ⟨n0, n1, hn01, hname⟩ := name_words e m.name hwf.name_lt
  have hgood := recsOfFx_good e lay m.cplx m.cols.length m.rows hwf.ncols_lt hwf.rows_lt hnb m.cols 0
    (by omega) hwf.cols_len
  have hrows : ofI32 (i32 (if (lay == .bigmat) = true then -(m.rows : Int) else (m.rows : Int)))
      = if lay = .bigmat then -(m.rows : Int) else (m.rows : Int) := by
    have := hwf.rows_lt
    rw [ofI32_i32]
    · cases lay <;> simp
    · split <;> omega
    · split <;> omega
  have hmt := mtype_cases m.cplx
  have hncols := ofI32_small m.cols.length (by have := hwf.ncols_lt; omega)
  have hform := ofI32_small m.form hwf.form_lt
  obtain ⟨d0, d1, hd01⟩ := dWords_two e sqrt2Bits
  generalize hrecs : recsOfFx e lay m.cplx 0 m.cols = recs at hgood
  cases recs with
  | nil =>
    simp only [headerWords, hdrReclen, hn01, trailerWords, hd01, List.flatMap_nil, List.nil_append, List.cons_append,
      List.append_assoc, rdMatrix, hrows, hmt.1, hmt.2.1, if_false, hncols, hform, hmt.2.2]
    rw [ofI32_small (m.cols.length + 1) hwf.ncols_lt]
    have hc0 : ((m.cols.length + 1 : Nat) : Int) - 1 = (m.cols.length : Int) := by omega
    rw [hc0]
    simp only [List.length_append, List.length_cons, rdCols_succ, Int.lt_irrefl, if_false, hname]
    exact ⟨_, _, rfl⟩
  | cons hd t =>
    have hg := hgood hd (List.mem_cons_self)
    have hgt : ∀ rc ∈ t, rc.Good e lay m.cplx m.cols.length := fun x hx => hgood x (List.mem_cons_of_mem _ hx)
    simp only [headerWords, hdrReclen, hn01, trailerWords, hd01, List.flatMap_cons, Rec.words, List.nil_append,
      List.cons_append, List.append_assoc, rdMatrix, hrows, hmt.1, hmt.2.1, if_false, hncols, hform, hmt.2.2]
    rw [ofI32_small _ hg.hc31, ofI32_small _ hg.hr31, ofI32_small _ hg.hnw31]
    have hc0 : ((hd.c + 1 : Nat) : Int) - 1 = (hd.c : Int) := by omega
    rw [hc0]
    have hcge : decide ((hd.c : Int) ≥ (m.cols.length : Int)) = false := by
      have := hg.hc; simp; omega
    have hr := recsOfFx_r e lay m.cplx m.cols 0 hd (by rw [hrecs]; exact List.mem_cons_self)
    obtain ⟨col, hcol, hlen⟩ := recsOfFx_ne_nil e lay m.cplx m.cols 0 (by rw [hrecs]; simp)
    have hrows_pos : 0 < m.rows := by rw [← hwf.cols_len col hcol]; exact hlen
    rw [hcge, chooseLayout_col lay m.rows hd.r hrows_pos hnb hr.1 hr.2]
    rw [rdCols_chain e lay m.cplx m.cols.length hwf.ncols_lt d0 d1 20 rest t hd _ [] (by
      have := words_length_ge t
      simp only [List.length_append, List.length_cons]; omega) hg hgt]
    refine ⟨lay, (chooseLayout (if lay = Layout.bigmat then -(m.rows : Int) else (m.rows : Int)) (hd.r : Int) false).snd, ?_⟩
    simp only [hname, List.nil_append]
    rfl

theorem putsCol_recOfFx (e : Endian) (lay : Layout) (cplx : Bool) (c : Nat) (col : List Entry) (s : Nat) (tl : List Nat)
    (h : nzIdx cplx col = s :: tl) :
    putsCol (List.replicate col.length (0, 0)) (recOfFx e lay cplx c col s tl).puts = some (decCol lay cplx col) := by
  cases lay
  · exact putsCol_recOf e .dense cplx c col s tl h
  · exact putsCol_recOf e .bigmat cplx c col s tl h
  · simp only [recOfFx, decCol, h]
    exact putsCol_stringsFx cplx col

theorem applyPuts_recsFx (e : Endian) (lay : Layout) (cplx : Bool) (rows : Nat) :
    ∀ (cols : List (List Entry)) (pre : List (List Entry)), (∀ col ∈ cols, col.length = rows) →
      ((recsOfFx e lay cplx pre.length cols).flatMap Rec.outPuts).foldlM putStep
          (pre ++ List.replicate cols.length (List.replicate rows ((0, 0) : Entry)))
        = some (pre ++ cols.map (decCol lay cplx)) := by
  intro cols
  induction cols with
  | nil => intro pre _; simp [recsOfFx]
  | cons col t ih =>
    intro pre hl
    have hcl := hl col (List.mem_cons_self)
    have iht := ih (pre ++ [decCol lay cplx col]) (fun x hx => hl x (List.mem_cons_of_mem _ hx))
    simp only [List.length_append, List.length_singleton, List.append_assoc, List.singleton_append] at iht
    unfold recsOfFx
    split
    · next hz =>
      rw [decCol_zero lay cplx col hz, hcl] at iht
      simp only [List.length_cons, List.replicate_succ, List.map_cons]
      rw [iht, decCol_zero lay cplx col hz, hcl]
    · next s tl hnz =>
      simp only [List.flatMap_cons, List.foldlM_append, List.length_cons, List.replicate_succ, Rec.outPuts]
      have hc : (recOfFx e lay cplx pre.length col s tl).c = pre.length := by cases lay <;> rfl
      rw [hc]
      have hput := putsCol_recOfFx e lay cplx pre.length col s tl hnz
      rw [hcl] at hput
      rw [fold_col pre.length _ _ (List.replicate rows (0, 0)) (decCol lay cplx col) (by simp) hput]
      simp only [Option.bind_eq_bind, Option.bind_some, set_append_mid, List.map_cons]
      exact iht

theorem rdMatrix_decOfFx (e : Endian) (lay : Layout) (m : Mat) (rest ws : List Nat) (hwf : m.Wf)
    (hnb : lay = .nonbigmat → m.rows < 65536) (henc : encMatWordsFx e lay m = some ws) :
    ∃ d, rdMatrix e (ws ++ rest) = some (d, rest) ∧ DecOf (lay, m) d := by
  obtain ⟨lay', auto, h⟩ := rdMatrix_encFx e lay m rest ws hwf hnb henc
  refine ⟨_, h, rfl, rfl, rfl, rfl, rfl, ?_⟩
  have := applyPuts_recsFx e lay m.cplx m.rows m.cols [] hwf.cols_len
  simpa [applyPuts_eq] using this

theorem encMatWordsFx_ne_nil (e : Endian) (lay : Layout) (m : Mat) (ws : List Nat)
    (h : encMatWordsFx e lay m = some ws) : ws ≠ [] := by
  rw [encMatWordsFx_eq e lay m ws h]
  simp [headerWords]

theorem rdFile_encFx (e : Endian) :
    ∀ (ms : List (Layout × Mat)) (ws : List Nat) (fuel : Nat), encFileWordsFx e ms = some ws → ms.length < fuel →
      (∀ p ∈ ms, p.2.Wf ∧ (p.1 = .nonbigmat → p.2.rows < 65536)) →
      ∃ ds, rdFile e fuel ws = some ds ∧ DecsOf ms ds := by
  intro ms
  induction ms with
  | nil =>
    intro ws fuel h _ _
    simp only [encFileWordsFx, Option.some.injEq] at h
    subst h
    exact ⟨[], by cases fuel <;> rfl, DecsOf.nil⟩
  | cons p t ih =>
    intro ws fuel h hf hall
    obtain ⟨lay, m⟩ := p
    simp only [encFileWordsFx] at h
    cases ha : encMatWordsFx e lay m with
    | none => simp [ha] at h
    | some a =>
      cases hb : encFileWordsFx e t with
      | none => simp [ha, hb] at h
      | some b =>
        simp only [ha, hb, Option.bind_eq_bind, Option.bind_some, Option.some.injEq] at h
        subst h
        obtain ⟨f, rfl⟩ : ∃ f, fuel = f + 1 := ⟨fuel - 1, by simp at hf; omega⟩
        have hp := hall (lay, m) (List.mem_cons_self)
        obtain ⟨d, hd, hdec⟩ := rdMatrix_decOfFx e lay m b a hp.1 hp.2 ha
        obtain ⟨ds, hds, hall2⟩ := ih b f hb (by simp at hf; omega) (fun q hq => hall q (List.mem_cons_of_mem _ hq))
        have hne := encMatWordsFx_ne_nil e lay m a ha
        refine ⟨d :: ds, ?_, DecsOf.cons hdec hall2⟩
        cases hab : a ++ b with
        | nil => simp at hab; exact absurd hab.1 hne
        | cons w ws' =>
          rw [← hab]
          have : rdFile e (f + 1) (a ++ b) = match rdMatrix e (a ++ b) with
              | some (d, rest) => (rdFile e f rest).map (d :: ·)
              | none => none := by
            rw [hab]; rfl
          rw [this, hd]
          simp only [hds, Option.map_some]

theorem encFileWordsFx_length (e : Endian) :
    ∀ (ms : List (Layout × Mat)) (ws : List Nat), encFileWordsFx e ms = some ws → ms.length ≤ ws.length := by
  intro ms
  induction ms with
  | nil => intro ws _; simp
  | cons p t ih =>
    intro ws h
    obtain ⟨lay, m⟩ := p
    simp only [encFileWordsFx] at h
    cases ha : encMatWordsFx e lay m with
    | none => simp [ha] at h
    | some a =>
      cases hb : encFileWordsFx e t with
      | none => simp [ha, hb] at h
      | some b =>
        simp only [ha, hb, Option.bind_eq_bind, Option.bind_some, Option.some.injEq] at h
        subst h
        have h1 := ih b hb
        have h2 : 1 ≤ a.length := by
          have := encMatWordsFx_ne_nil e lay m a ha
          cases a with
          | nil => exact absurd rfl this
          | cons _ _ => simp
        simp only [List.length_cons, List.length_append]
        omega

/-- the patched writer produces a file for every list of matrices whose nonbigmat members have fewer than 65536 rows -/
theorem encFileWordsFx_isSome (e : Endian) :
    ∀ (ms : List (Layout × Mat)), (∀ p ∈ ms, (∀ col ∈ p.2.cols, col.length = p.2.rows) ∧
        (p.1 = .nonbigmat → p.2.rows < 65536)) → (encFileWordsFx e ms).isSome = true := by
  intro ms
  induction ms with
  | nil => intro _; rfl
  | cons p t ih =>
    intro hall
    obtain ⟨lay, m⟩ := p
    have hp := hall (lay, m) List.mem_cons_self
    have ht := ih fun q hq => hall q (List.mem_cons_of_mem _ hq)
    have hm : (encMatWordsFx e lay m).isSome = true := by
      cases lay
      · simp [encMatWordsFx, encMatWords]
      · simp [encMatWordsFx, encMatWords]
      · have : m.cols.all (stringsFitFx m.cplx) = true := by
          rw [List.all_eq_true]
          intro col hcol
          exact stringsFitFx_true m.cplx col (by rw [hp.1 col hcol]; exact hp.2 rfl)
        simp [encMatWordsFx, this]
    simp only [encFileWordsFx]
    cases ha : encMatWordsFx e lay m with
    | none => rw [ha] at hm; cases hm
    | some a =>
      cases hb : encFileWordsFx e t with
      | none => rw [hb] at ht; cases ht
      | some b => simp

end PyYetiVerif.Op4
