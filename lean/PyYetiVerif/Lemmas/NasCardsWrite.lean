import PyYetiVerif.Lemmas.NasCardsLines
/-! C12 cards, writer side: the text of `wtcard8` as physical lines (`chunks` of 8 fields, the
continuation lines behind `"\n+       "`), and the lines of a text (`fileLines`). -/
set_option linter.unusedSimpArgs false
set_option linter.unusedVariables false
namespace PyYetiVerif.NasCards
open PyYetiVerif.PyFloat PyYetiVerif.NasFloat

/-! ### the text the writers produce, as lines -/

/-- the writers' loop with the separator as a parameter -/
def bodyGen (W : Nat) (sep : Nat → Str) (fmt : Dbl → Str) : Nat → List Tok → Str
  | _, [] => []
  | i, t :: ts => sep i ++ enc W fmt t ++ bodyGen W sep fmt (i + 1) ts

def sep8 (i : Nat) : Str := if i > 0 && i % 8 == 0 then "\n+       ".toList else []
def sep16 (i : Nat) : Str :=
  if i > 0 && i % 8 == 0 then "*\n*       ".toList
  else if i > 0 && i % 4 == 0 then "\n*       ".toList else []

theorem body8_eq (fmt : Dbl → Str) (i : Nat) (toks : List Tok) :
    body8 fmt i toks = bodyGen 8 sep8 fmt i toks := by
  induction toks generalizing i with
  | nil => rfl
  | cons t ts ih => simp only [body8, bodyGen, sep8, ih]

theorem body16_eq (fmt : Dbl → Str) (i : Nat) (toks : List Tok) :
    body16 fmt i toks = bodyGen 16 sep16 fmt i toks := by
  induction toks generalizing i with
  | nil => rfl
  | cons t ts ih => simp only [body16, bodyGen, sep16, ih]

/-- no separator for the next `d` fields -/
theorem bodyGen_run (W : Nat) (sep : Nat → Str) (fmt : Dbl → Str) (d : Nat) (j : Nat) (toks : List Tok)
    (hsep : ∀ t < d, sep (j + t) = []) (hd : d ≤ toks.length) :
    bodyGen W sep fmt j toks =
      ((toks.take d).map (enc W fmt)).flatten ++ bodyGen W sep fmt (j + d) (toks.drop d) := by
  induction d generalizing j toks with
  | zero => simp
  | succ d ih =>
    cases toks with
    | nil => simp at hd
    | cons t ts =>
      simp only [List.length_cons] at hd
      have h0 : sep j = [] := by simpa using hsep 0 (by omega)
      have := ih (j + 1) ts (fun t ht => by
        have := hsep (t + 1) (by omega)
        rw [← this]; congr 1; omega) (by omega)
      simp only [bodyGen, h0, List.nil_append, List.take_succ_cons, List.map_cons, List.flatten_cons,
        List.drop_succ_cons, this, List.append_assoc]
      congr 3; omega

/-- chunks of `per` fields: the fields of each physical line -/
def chunksAux (per : Nat) : Nat → List Str → List (List Str)
  | 0, fs => [fs]
  | fuel + 1, fs => if fs.length ≤ per then [fs] else fs.take per :: chunksAux per fuel (fs.drop per)

def chunks (per : Nat) (fs : List Str) : List (List Str) := chunksAux per fs.length fs


theorem chunksAux_le (per fuel : Nat) (fs : List Str) (h : fs.length ≤ per) :
    chunksAux per fuel fs = [fs] := by
  cases fuel with
  | zero => rfl
  | succ f => simp [chunksAux, h]

theorem chunksAux_gt (per fuel : Nat) (fs : List Str) (h : ¬ fs.length ≤ per) :
    chunksAux per (fuel + 1) fs = fs.take per :: chunksAux per fuel (fs.drop per) := by
  simp [chunksAux, h]

theorem chunksAux_map_len (per fuel : Nat) (fs : List Str) : (chunksAux per fuel fs) ≠ [] := by
  cases fuel with
  | zero => simp [chunksAux]
  | succ f => unfold chunksAux; split_ifs <;> simp

/-- the continuation lines of a small-field card: each chunk behind `"\n+       "` -/
def restText8 (cs : List (List Str)) : Str :=
  (cs.map fun c => "\n+       ".toList ++ c.flatten).flatten

theorem sep8_cont (m : Nat) : sep8 (8 * (m + 1)) = "\n+       ".toList := by
  have h1 : 8 * (m + 1) > 0 := by omega
  have h2 : 8 * (m + 1) % 8 = 0 := Nat.mul_mod_right 8 _
  simp [sep8, h1, h2]

theorem sep8_none (i : Nat) (h : i % 8 ≠ 0) : sep8 i = [] := by
  simp [sep8, h]

theorem bodyGen8_rest (fmt : Dbl → Str) (fuel : Nat) (toks : List Tok) (m : Nat) (hne : toks ≠ [])
    (hfuel : toks.length ≤ fuel) :
    bodyGen 8 sep8 fmt (8 * (m + 1)) toks = restText8 (chunksAux 8 fuel (toks.map (enc 8 fmt))) := by
  induction fuel generalizing toks m with
  | zero =>
    have : toks = [] := List.length_eq_zero_iff.1 (by omega)
    exact absurd this hne
  | succ fuel ih =>
    cases toks with
    | nil => exact absurd rfl hne
    | cons t ts =>
      simp only [List.length_cons] at hfuel
      by_cases hlen : ((t :: ts).map (enc 8 fmt)).length ≤ 8
      · rw [chunksAux_le _ _ _ hlen]
        simp only [restText8, List.map_cons, List.map_nil, List.flatten_cons,
          List.flatten_nil, List.append_nil]
        simp only [List.length_map, List.length_cons] at hlen
        have hrun := bodyGen_run 8 sep8 fmt ts.length (8 * (m + 1) + 1) ts
          (fun t ht => sep8_none _ (by omega)) (le_refl _)
        simp only [bodyGen, sep8_cont, hrun, List.take_length, List.drop_length, List.append_nil]
        simp
      · rw [chunksAux_gt _ _ _ hlen]
        simp only [List.length_map, List.length_cons, not_le] at hlen
        have hrun := bodyGen_run 8 sep8 fmt 7 (8 * (m + 1) + 1) ts
          (fun t ht => sep8_none _ (by omega)) (by omega)
        have hdne : ts.drop 7 ≠ [] := by
          intro h
          have := congrArg List.length h
          simp at this; omega
        have hih := ih (ts.drop 7) (m + 1) hdne (by simp; omega)
        have e1 : 8 * (m + 1) + 1 + 7 = 8 * (m + 1 + 1) := by ring
        rw [e1] at hrun
        simp only [bodyGen, sep8_cont, hrun, hih, restText8, List.map_cons, List.flatten_cons,
          List.take_succ_cons, List.drop_succ_cons, List.map_take, List.map_drop, List.append_assoc]


theorem sep8_first (t : Nat) (ht : t < 8) : sep8 (0 + t) = [] := by
  rcases Nat.eq_zero_or_pos t with rfl | hpos
  · simp [sep8]
  · exact sep8_none _ (by omega)

/-- the body of a small-field card: first chunk on the name line, the others behind `"\n+       "` -/
theorem bodyGen8_first (fmt : Dbl → Str) (toks : List Tok) :
    ∃ c0 cs, chunks 8 (toks.map (enc 8 fmt)) = c0 :: cs ∧
      bodyGen 8 sep8 fmt 0 toks = c0.flatten ++ restText8 cs := by
  unfold chunks
  by_cases hlen : (toks.map (enc 8 fmt)).length ≤ 8
  · refine ⟨toks.map (enc 8 fmt), [], chunksAux_le _ _ _ hlen, ?_⟩
    simp only [List.length_map] at hlen
    have hrun := bodyGen_run 8 sep8 fmt toks.length 0 toks
      (fun t ht => sep8_first t (by omega)) (le_refl _)
    simp only [hrun, List.take_length, List.drop_length, bodyGen, List.append_nil, restText8,
      List.map_nil, List.flatten_nil]
  · obtain ⟨f', hf'⟩ : ∃ f', (toks.map (enc 8 fmt)).length = f' + 1 := ⟨_, (Nat.succ_pred_eq_of_pos (by omega)).symm⟩
    rw [hf', chunksAux_gt _ _ _ hlen]
    refine ⟨_, _, rfl, ?_⟩
    simp only [List.length_map, not_le] at hlen hf'
    have hrun := bodyGen_run 8 sep8 fmt 8 0 toks (fun t ht => sep8_first t ht) (by omega)
    have hdne : toks.drop 8 ≠ [] := by
      intro h
      have := congrArg List.length h
      simp at this; omega
    have hrest := bodyGen8_rest fmt f' (toks.drop 8) 0 hdne (by simp; omega)
    simp only [Nat.zero_add, Nat.mul_one] at hrun hrest
    rw [hrun, hrest]
    simp only [List.map_take, List.map_drop]

/-! ### the lines of a text -/

theorem fileLines_go_line (l rest acc : Str) (h : ∀ c ∈ l, c ≠ '\n') :
    fileLines.go (l ++ '\n' :: rest) acc = (acc.reverse ++ l ++ ['\n']) :: fileLines.go rest [] := by
  induction l generalizing acc with
  | nil => simp [fileLines.go]
  | cons a t ih =>
    have ha : (a == '\n') = false := by simp [h a List.mem_cons_self]
    simp only [List.cons_append, fileLines.go, ha, Bool.false_eq_true, if_false]
    rw [ih (a :: acc) (fun c hc => h c (List.mem_cons_of_mem _ hc))]
    simp

theorem fileLines_lines (l0 : Str) (ls : List Str) (h0 : ∀ c ∈ l0, c ≠ '\n')
    (hls : ∀ l ∈ ls, ∀ c ∈ l, c ≠ '\n') :
    fileLines (l0 ++ (ls.map fun l => '\n' :: l).flatten ++ ['\n']) =
      (l0 ++ ['\n']) :: ls.map (· ++ ['\n']) := by
  unfold fileLines
  induction ls generalizing l0 with
  | nil =>
    simp only [List.map_nil, List.flatten_nil, List.append_nil]
    have := fileLines_go_line l0 [] [] h0
    simpa [fileLines.go] using this
  | cons l ls ih =>
    have e : l0 ++ ((l :: ls).map fun l => '\n' :: l).flatten ++ ['\n'] =
        l0 ++ '\n' :: (l ++ (ls.map fun l => '\n' :: l).flatten ++ ['\n']) := by simp
    rw [e, fileLines_go_line l0 _ [] h0]
    have := ih l (hls l List.mem_cons_self) (fun l' h => hls l' (List.mem_cons_of_mem _ h))
    simp only [List.reverse_nil, List.nil_append, List.map_cons]
    rw [this]

end PyYetiVerif.NasCards
