import PyYetiVerif.Lemmas.SuCoefDelconjRun
import Mathlib.Analysis.Complex.RealDeriv
/-!
Helper lemmas for the real recovery of the coupled path of C01: real second-order systems, their
complexification, and the indexing of `coupledRun`.
-/
namespace PyYetiVerif.SuCoef
open Matrix PyYetiVerif.C01 ComplexConjugate

set_option linter.unusedSectionVars false

variable {n N : ℕ}

/-- a real matrix as a complex one -/
noncomputable def cMat (M : Matrix (Fin n) (Fin n) ℝ) : Matrix (Fin n) (Fin n) ℂ :=
  M.map fun x => (x : ℂ)

/-- a real vector as a complex one -/
noncomputable def cVec (x : Fin n → ℝ) : Fin n → ℂ := fun j => (x j : ℂ)

theorem cMat_mulVec (M : Matrix (Fin n) (Fin n) ℝ) (x : Fin n → ℝ) : cMat M *ᵥ cVec x = cVec (M *ᵥ x) := by
  funext i
  simp [cMat, cVec, Matrix.mulVec, dotProduct]

theorem cMat_mul_eq_one {A B : Matrix (Fin n) (Fin n) ℝ} (h : A * B = 1) : cMat A * cMat B = 1 := by
  ext i j
  have := congrFun (congrFun h i) j
  rw [Matrix.mul_apply, Matrix.one_apply] at this
  rw [Matrix.mul_apply, Matrix.one_apply]
  simp only [cMat, Matrix.map_apply]
  have h2 := congrArg (fun x : ℝ => (x : ℂ)) this
  simp only [Complex.ofReal_sum, Complex.ofReal_mul] at h2
  rw [h2]
  split_ifs <;> simp

theorem cVec_add (x y : Fin n → ℝ) : cVec (x + y) = cVec x + cVec y := by funext j; simp [cVec]
theorem cVec_sub (x y : Fin n → ℝ) : cVec (x - y) = cVec x - cVec y := by funext j; simp [cVec]
theorem cVec_smul (c : ℝ) (x : Fin n → ℝ) : cVec (c • x) = (c : ℂ) • cVec x := by funext j; simp [cVec]
theorem cVec_zero : cVec (0 : Fin n → ℝ) = 0 := by funext j; simp [cVec]
theorem cVec_injective {x y : Fin n → ℝ} (h : cVec x = cVec y) : x = y := by
  funext j
  exact Complex.ofReal_injective (congrFun h j)

/-- `d, v` solve the real equation `M d'' + B d' + K d = f₀ + t fs`, `d 0 = d₀`, `d' 0 = v₀` -/
structure IsSol2R (M B K : Matrix (Fin n) (Fin n) ℝ) (f0 fs d0 v0 : Fin n → ℝ)
    (d v : ℝ → Fin n → ℝ) : Prop where
  dd : ∀ t, HasDerivAt d (v t) t
  dv : ∀ t, ∃ a, HasDerivAt v a t ∧ M *ᵥ a + B *ᵥ v t + K *ᵥ d t = f0 + t • fs
  d0 : d 0 = d0
  v0 : v 0 = v0

theorem hasDerivAt_cVec {x : ℝ → Fin n → ℝ} {x' : Fin n → ℝ} {t : ℝ} (h : HasDerivAt x x' t) :
    HasDerivAt (fun t => cVec (x t)) (cVec x') t := by
  rw [hasDerivAt_pi] at h ⊢
  intro j
  exact (h j).ofReal_comp

theorem hasDerivAt_re {x : ℝ → Fin n → ℂ} {x' : Fin n → ℂ} {t : ℝ} (h : HasDerivAt x x' t) :
    HasDerivAt (fun t j => (x t j).re) (fun j => (x' j).re) t := by
  rw [hasDerivAt_pi] at h ⊢
  intro j
  exact Complex.reCLM.hasFDerivAt.comp_hasDerivAt t (h j)

theorem IsSol2R.complexify {M B K : Matrix (Fin n) (Fin n) ℝ} {f0 fs d0 v0 : Fin n → ℝ}
    {d v : ℝ → Fin n → ℝ} (h : IsSol2R M B K f0 fs d0 v0 d v) :
    IsSol2 (cMat M) (cMat B) (cMat K) (cVec f0) (cVec fs) (cVec d0) (cVec v0)
      (fun t => cVec (d t)) (fun t => cVec (v t)) := by
  refine ⟨fun t => hasDerivAt_cVec (h.dd t), fun t => ?_, by rw [h.d0], by rw [h.v0]⟩
  obtain ⟨a, ha, he⟩ := h.dv t
  refine ⟨cVec a, hasDerivAt_cVec ha, ?_⟩
  rw [cMat_mulVec, cMat_mulVec, cMat_mulVec, ← cVec_add, ← cVec_add, he, cVec_add, cVec_smul]

theorem re_cMat_mulVec (M : Matrix (Fin n) (Fin n) ℝ) (x : Fin n → ℂ) (i : Fin n) :
    ((cMat M *ᵥ x) i).re = (M *ᵥ fun j => (x j).re) i := by
  simp [cMat, Matrix.mulVec, dotProduct]

/-- the real part of a solution of the complexified real system solves the real system -/
theorem IsSol2.re {M B K : Matrix (Fin n) (Fin n) ℝ} {f0 fs d0 v0 : Fin n → ℝ}
    {d v : ℝ → Fin n → ℂ}
    (h : IsSol2 (cMat M) (cMat B) (cMat K) (cVec f0) (cVec fs) (cVec d0) (cVec v0) d v) :
    IsSol2R M B K f0 fs d0 v0 (fun t j => (d t j).re) (fun t j => (v t j).re) := by
  refine ⟨fun t => hasDerivAt_re (h.dd t), fun t => ?_, ?_, ?_⟩
  · obtain ⟨a, ha, he⟩ := h.dv t
    refine ⟨fun j => (a j).re, hasDerivAt_re ha, ?_⟩
    funext i
    have := congrArg Complex.re (congrFun he i)
    simp only [Pi.add_apply, Complex.add_re, re_cMat_mulVec, Pi.smul_apply, smul_eq_mul, cVec,
      Complex.mul_re, Complex.ofReal_re, Complex.ofReal_im, zero_mul, sub_zero] at this
    simpa using this
  · funext j; simp [h.d0, cVec]
  · funext j; simp [h.v0, cVec]

theorem gOf_eq (Mi : Matrix (Fin n) (Fin n) ℝ) (f : Fin n → ℝ) :
    (Sum.elim (cMat Mi *ᵥ cVec f) 0 : Fin n ⊕ Fin n → ℂ) = gOf (Mi *ᵥ f) := by
  rw [cMat_mulVec]; rfl

theorem slope_eq (Mi : Matrix (Fin n) (Fin n) ℝ) (f0 f1 : Fin n → ℝ) (h : ℝ) (order1 : Bool) :
    (Sum.elim (cMat Mi *ᵥ cVec (if order1 then h⁻¹ • (f1 - f0) else 0)) 0 : Fin n ⊕ Fin n → ℂ)
      = if order1 then ((h : ℂ)⁻¹) • (gOf (Mi *ᵥ f1) - gOf (Mi *ᵥ f0)) else 0 := by
  cases order1 with
  | true =>
    simp only [if_true]
    rw [cMat_mulVec, Matrix.mulVec_smul, Matrix.mulVec_sub]
    funext i
    cases i <;> simp [gOf, cVec]
  | false =>
    simp only [Bool.false_eq_true, if_false, cVec_zero, Matrix.mulVec_zero]
    funext i
    cases i <;> simp

/-! ### indexing `coupledRun` -/

theorem coupledRun_getElem? (order1 : Bool) (isSmall : ℂ → Bool) (h : ℂ) (e : Eig ℂ n N)
    (d0 v0 : Fin n → ℝ) (imfs : List (Fin n → ℝ)) (j : ℕ) :
    (coupledRun order1 isSmall h e d0 v0 imfs)[j]? =
      ((runModal order1 (fun k => coefSel isSmall (e.lam k) h) (modalInit e (cVec d0) (cVec v0))
        (imfs.map fun f => modalForce e (cVec f)))[j]?).map
        fun y => if j = 0 then (d0, v0) else (recoverReal e.urD y, recoverReal e.urV y) := by
  have hrun : coupledRun order1 isSmall h e d0 v0 imfs =
      recoverTail (d0, v0) (fun y => (recoverReal e.urD y, recoverReal e.urV y))
        (runModal order1 (fun k => coefSel isSmall (e.lam k) h) (modalInit e (cVec d0) (cVec v0))
          (imfs.map fun f => modalForce e (cVec f))) := rfl
  rw [hrun]
  generalize (runModal order1 (fun k => coefSel isSmall (e.lam k) h) (modalInit e (cVec d0) (cVec v0))
    (imfs.map fun f => modalForce e (cVec f))) = ys
  cases ys with
  | nil => simp [recoverTail]
  | cons y rest =>
    cases j with
    | zero => simp [recoverTail]
    | succ j => simp [recoverTail]

end PyYetiVerif.SuCoef
