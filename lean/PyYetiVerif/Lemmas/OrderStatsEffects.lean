import PyYetiVerif.Model.OrderStatsEffects
import Mathlib.Tactic.Common
/-!
Buffer semantics of the effect skeletons and soundness of the taint analysis `absRun`
(C20 `arguments_unchanged`).

A state binds variables to buffer identifiers; `fresh` allocates a new identifier, `share` copies a
binding, `write` records the identifier bound to the written variable.  `if` takes either branch,
`while` runs its body any number of times.  The caller's buffers are the identifiers `< k` that the
`k` parameters are bound to on entry.
-/
namespace PyYetiVerif.Effects

structure St where
  /-- variable ↦ buffer identifier -/
  env : Nat → Option Nat
  /-- next unused identifier -/
  next : Nat
  /-- identifiers of the buffers written so far -/
  written : List Nat

inductive Exec : Prog → St → St → Prop
  | skip (s) : Exec .skip s s
  | share (x src s) :
      Exec (.share x src) s ⟨fun v => if v = x then s.env src else s.env v, s.next, s.written⟩
  | fresh (x s) :
      Exec (.fresh x) s ⟨fun v => if v = x then some s.next else s.env v, s.next + 1, s.written⟩
  | write (x s) : Exec (.write x) s ⟨s.env, s.next, (s.env x).toList ++ s.written⟩
  | seq {a b s t u} : Exec a s t → Exec b t u → Exec (.seq a b) s u
  | altL {a b s t} : Exec a s t → Exec (.alt a b) s t
  | altR {a b s t} : Exec b s t → Exec (.alt a b) s t
  | loopDone {body} (s) : Exec (.loop body) s s
  | loopStep {body s t u} : Exec body s t → Exec (.loop body) t u → Exec (.loop body) s u

/-- entry state of a function with `k` parameters: parameter `i` holds the caller's buffer `i` -/
def init (k : Nat) : St := ⟨fun v => if v < k then some v else none, k, []⟩

/-- `S` over-approximates the variables holding a caller buffer; no caller buffer was written -/
structure Inv (k : Nat) (S : Taint) (s : St) : Prop where
  taint : ∀ v id, s.env v = some id → id < k → v ∈ S
  wr : ∀ id ∈ s.written, k ≤ id
  nx : k ≤ s.next

theorem Inv.weaken {k S S' s} (h : Inv k S s) (hs : ∀ v ∈ S, v ∈ S') : Inv k S' s :=
  ⟨fun v id a b => hs v (h.taint v id a b), h.wr, h.nx⟩

theorem loopFix_spec (f : Taint → Option Taint) :
    ∀ n S R, loopFix f n S = some R →
      (∀ v ∈ S, v ∈ R) ∧ ∃ R', f R = some R' ∧ ∀ v ∈ R', v ∈ R := by
  intro n
  induction n with
  | zero => intro S R h; simp [loopFix] at h
  | succ n ih =>
    intro S R h
    unfold loopFix at h
    cases hf : f S with
    | none => simp [hf] at h
    | some S' =>
      simp only [hf] at h
      by_cases hall : S'.all (fun v => decide (v ∈ S)) = true
      · simp only [hall, if_true, Option.some.injEq] at h
        subst h
        exact ⟨fun v hv => hv, S', hf, fun v hv => by simpa using (List.all_eq_true.1 hall) v hv⟩
      · simp only [hall] at h
        obtain ⟨h1, h2⟩ := ih _ _ h
        exact ⟨fun v hv => h1 v (List.mem_append_left _ hv), h2⟩

theorem loopFix_stable (f : Taint → Option Taint) (n : Nat) {R R' : Taint} (hf : f R = some R')
    (hs : ∀ v ∈ R', v ∈ R) : loopFix f (n + 1) R = some R := by
  unfold loopFix
  have : R'.all (fun v => decide (v ∈ R)) = true := List.all_eq_true.2 (by simpa using hs)
  simp [hf, this]

theorem absRun_sound (k : Nat) {p : Prog} {s t : St} (h : Exec p s t) :
    ∀ S S', absRun p S = some S' → Inv k S s → Inv k S' t := by
  induction h with
  | skip s => intro S S' h i; simp only [absRun, Option.some.injEq] at h; exact h ▸ i
  | share x src s =>
    intro S S' h i
    simp only [absRun, Option.some.injEq] at h
    subst h
    refine ⟨fun v id hv hid => ?_, i.wr, i.nx⟩
    by_cases hvx : v = x
    · subst hvx
      simp only [if_true] at hv
      have := i.taint src id hv hid
      simp [this]
    · simp only [hvx, if_false] at hv
      have := i.taint v id hv hid
      by_cases hsrc : src ∈ S
      · simp [hsrc, this]
      · simp [hsrc, this, hvx]
  | fresh x s =>
    intro S S' h i
    simp only [absRun, Option.some.injEq] at h
    subst h
    refine ⟨fun v id hv hid => ?_, i.wr, Nat.le_succ_of_le i.nx⟩
    by_cases hvx : v = x
    · subst hvx
      simp only [if_true, Option.some.injEq] at hv
      have := i.nx
      omega
    · simp only [hvx, if_false] at hv
      simpa [hvx] using i.taint v id hv hid
  | write x s =>
    intro S S' h i
    by_cases hx : x ∈ S
    · simp [absRun, hx] at h
    · simp only [absRun, hx, if_false, Option.some.injEq] at h
      subst h
      refine ⟨i.taint, fun id hid => ?_, i.nx⟩
      rcases List.mem_append.1 hid with h1 | h1
      · by_contra hlt
        have hid' : id < k := Nat.lt_of_not_le hlt
        have : s.env x = some id := by
          cases hex : s.env x with
          | none => simp [hex] at h1
          | some j => simp [hex] at h1; simp [h1]
        exact hx (i.taint x id this hid')
      · exact i.wr id h1
  | @seq a b s t u _ _ iha ihb =>
    intro S S' h i
    simp only [absRun] at h
    cases ha : absRun a S with
    | none => rw [ha] at h; simp at h
    | some A =>
      rw [ha] at h
      exact ihb A S' h (iha S A ha i)
  | altL _ iha =>
    intro S S' h i
    simp only [absRun] at h
    split at h
    · rename_i A B ha hb
      simp only [Option.some.injEq] at h
      subst h
      exact (iha S A ha i).weaken fun v hv => List.mem_append_left _ hv
    · simp at h
  | altR _ ihb =>
    intro S S' h i
    simp only [absRun] at h
    split at h
    · rename_i A B ha hb
      simp only [Option.some.injEq] at h
      subst h
      exact (ihb S B hb i).weaken fun v hv => List.mem_append_right _ hv
    · simp at h
  | loopDone s =>
    intro S S' h i
    simp only [absRun] at h
    exact i.weaken (loopFix_spec _ _ _ _ h).1
  | loopStep _ _ ihb ihl =>
    intro S S' h i
    simp only [absRun] at h
    obtain ⟨h1, R', hf, h2⟩ := loopFix_spec _ _ _ _ h
    have i1 := (ihb S' R' hf (i.weaken h1)).weaken h2
    exact ihl S' S' (by simp only [absRun]; exact loopFix_stable _ _ hf h2) i1

theorem init_inv (k : Nat) : Inv k (List.range k) (init k) := by
  refine ⟨fun v id hv hid => ?_, fun id hid => by simp [init] at hid, Nat.le_refl _⟩
  simp only [init] at hv
  by_cases hvk : v < k
  · exact List.mem_range.2 hvk
  · simp [hvk] at hv

end PyYetiVerif.Effects
