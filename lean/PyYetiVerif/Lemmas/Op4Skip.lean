import PyYetiVerif.Lemmas.Op4File
/-! Lemmas for C11 on the OUTPUT4 model of C04: the skipper (`_skipop4_binary`) ends exactly where
the reader does, and `dir` lists what `load` returns. -/
namespace PyYetiVerif.Op4
open PyYetiVerif.Generated.Op4Consts

theorem length_flatMap_dWords (e : Endian) (ds : List Nat) : (ds.flatMap (dWords e)).length = 2 * ds.length := by
  induction ds with
  | nil => rfl
  | cons d t ih =>
    simp only [List.flatMap_cons, List.length_append, ih, List.length_cons]
    cases e <;> simp [dWords] <;> omega

theorem length_valWords (e : Endian) (cplx : Bool) (seg : List Entry) :
    (valWords e cplx seg).length = 2 * (seg.length * mult cplx) := by
  unfold valWords
  rw [length_flatMap_dWords, length_segDs]

theorem length_bigPayload (e : Endian) (cplx : Bool) (ss : List (Nat × List Entry)) :
    (ss.flatMap (bigStringWords e cplx)).length = nwordsBig cplx ss := by
  induction ss with
  | nil => simp [nwordsBig, sumLens]
  | cons s t ih =>
    rw [nwordsBig_cons]
    simp only [List.flatMap_cons, List.length_append, ih, bigStringWords, List.length_cons, List.length_nil,
      length_valWords]
    have : s.2.length * 2 * mult cplx = 2 * (s.2.length * mult cplx) := by
      rw [Nat.mul_assoc, Nat.mul_left_comm]
    omega

theorem length_nonbigPayload (e : Endian) (cplx : Bool) (ss : List (Nat × List Entry)) :
    (ss.flatMap (nonbigStringWords e cplx)).length = nwordsNonbig cplx ss := by
  induction ss with
  | nil => simp [nwordsNonbig, sumLens]
  | cons s t ih =>
    rw [nwordsNonbig_cons]
    simp only [List.flatMap_cons, List.length_append, ih, nonbigStringWords, List.length_cons, length_valWords]
    have : s.2.length * 2 * mult cplx = 2 * (s.2.length * mult cplx) := by
      rw [Nat.mul_assoc, Nat.mul_left_comm]
    omega

/-- the record length announces exactly the words of the record -/
theorem recOf_reclen (e : Endian) (lay : Layout) (cplx : Bool) (c : Nat) (col : List Entry) (s : Nat) (tl : List Nat) :
    (recOf e lay cplx c col s tl).reclen = (3 + (recOf e lay cplx c col s tl).payload.length) * 4 := by
  cases lay
  · simp only [recOf, length_valWords]; omega
  · simp only [recOf, length_bigPayload]
  · simp only [recOf, length_nonbigPayload]

theorem recsOf_reclen (e : Endian) (lay : Layout) (cplx : Bool) :
    ∀ (cols : List (List Entry)) (c : Nat), ∀ rc ∈ recsOf e lay cplx c cols,
      rc.reclen = (3 + rc.payload.length) * 4 := by
  intro cols
  induction cols with
  | nil => intro c rc hrc; simp [recsOf] at hrc
  | cons col t ih =>
    intro c rc hrc
    unfold recsOf at hrc
    split at hrc
    · exact ih (c + 1) rc hrc
    · rcases List.mem_cons.1 hrc with rfl | hrc
      · exact recOf_reclen e lay cplx c col _ _
      · exact ih (c + 1) rc hrc

theorem skipCols_succ (cols : Int) (fuel : Nat) (icol : Int) (ws : List Nat) :
    skipCols cols (fuel + 1) icol ws =
      if icol ≤ cols then
        match ws with
        | reclen :: icol' :: rest => skipCols cols fuel (ofI32 icol') (rest.drop (reclen / 4))
        | _ => none
      else some ws := by
  conv => lhs; unfold skipCols
  rfl

theorem skipCols_chain (ncols : Nat) (hn : ncols + 1 < 2147483648) (t1 t2 t3 : Nat) (rest : List Nat) :
    ∀ (recs : List Rec) (fuel : Nat) (icol : Int), recs.length + 2 ≤ fuel → icol ≤ (ncols : Int) →
      (∀ rc ∈ recs, rc.c < ncols ∧ rc.c + 1 < 2147483648 ∧ rc.reclen = (3 + rc.payload.length) * 4) →
      skipCols ncols fuel icol (recs.flatMap Rec.words ++ 20 :: (ncols + 1) :: 1 :: 2 :: t1 :: t2 :: t3 :: rest)
        = some rest := by
  intro recs
  induction recs with
  | nil =>
    intro fuel icol hf hi _
    obtain ⟨f, rfl⟩ : ∃ f, fuel = f + 2 := ⟨fuel - 2, by simp at hf; omega⟩
    rw [skipCols_succ]
    simp only [hi, if_true, List.flatMap_nil, List.nil_append]
    rw [ofI32_small _ hn, skipCols_succ]
    have : ¬ (((ncols + 1 : Nat) : Int) ≤ (ncols : Int)) := by omega
    rw [if_neg this]
    rfl
  | cons rc t ih =>
    intro fuel icol hf hi hall
    obtain ⟨f, rfl⟩ : ∃ f, fuel = f + 1 := ⟨fuel - 1, by simp at hf; omega⟩
    obtain ⟨h1, h2, h3⟩ := hall rc (List.mem_cons_self)
    rw [skipCols_succ]
    simp only [hi, if_true, List.flatMap_cons, Rec.words, List.cons_append, List.append_assoc]
    rw [ofI32_small _ h2]
    have hdrop : (rc.r :: rc.nw :: (rc.payload ++ ([rc.reclen] ++ (t.flatMap Rec.words ++
        20 :: (ncols + 1) :: 1 :: 2 :: t1 :: t2 :: t3 :: rest)))).drop (rc.reclen / 4)
        = t.flatMap Rec.words ++ 20 :: (ncols + 1) :: 1 :: 2 :: t1 :: t2 :: t3 :: rest := by
      have hq : rc.reclen / 4 = rc.payload.length + 3 := by rw [h3]; omega
      rw [hq]
      simp only [List.drop_succ_cons]
      rw [show rc.payload.length + 1 = (rc.payload ++ [rc.reclen]).length by simp, ← List.append_assoc,
        List.drop_left]
    simp only [List.singleton_append, List.nil_append] at hdrop ⊢
    rw [hdrop]
    exact ih f _ (by simp at hf ⊢; omega) (by omega) (fun x hx => hall x (List.mem_cons_of_mem _ hx))

/-- skipping the column records of an encoded matrix leaves exactly the words after the matrix -/
theorem skip_matrix (e : Endian) (lay : Layout) (m : Mat) (rest : List Nat) (hwf : m.Wf)
    (hnb : lay = .nonbigmat → m.rows < 65536) (fuel : Nat)
    (hf : ((recsOf e lay m.cplx 0 m.cols).flatMap Rec.words).length + 2 ≤ fuel) :
    skipCols m.cols.length fuel 0
        ((recsOf e lay m.cplx 0 m.cols).flatMap Rec.words ++ trailerWords e m.cols.length ++ rest) = some rest := by
  obtain ⟨d0, d1, hd01⟩ := dWords_two e sqrt2Bits
  have hgood := recsOf_good e lay m.cplx m.cols.length m.rows hwf.ncols_lt hwf.rows_lt hnb m.cols 0
    (by omega) hwf.cols_len
  have hlen := recsOf_reclen e lay m.cplx m.cols 0
  simp only [trailerWords, hd01, List.cons_append, List.nil_append, List.append_assoc]
  exact skipCols_chain m.cols.length hwf.ncols_lt d0 d1 20 rest _ fuel 0
    (by have := words_length_ge (recsOf e lay m.cplx 0 m.cols); omega) (by omega)
    (fun rc hrc => ⟨(hgood rc hrc).hc, (hgood rc hrc).hc31, hlen rc hrc⟩)

/-- the header entry `dir` prints for a decoded matrix -/
def Dec.listing (d : Dec) : List Nat × Int × Int × Int × Int :=
  (d.rawName, (if d.rows < 0 then -d.rows else d.rows), d.cols, d.form, d.mtype)

theorem nameField_ascii (name : List Nat) (h : ∀ b ∈ name, b < 128) : (nameField name).any (· ≥ 128) = false := by
  rw [List.any_eq_false]
  intro b hb
  unfold nameField at hb
  have hb := List.mem_of_mem_take hb
  rcases List.mem_append.1 hb with hb | hb
  · rw [List.mem_map] at hb
    obtain ⟨x, hx, rfl⟩ := hb
    have := h x hx
    have : upperB x < 128 := by unfold upperB; split <;> omega
    simp; omega
  · rw [List.mem_replicate] at hb; simp; omega

theorem dirWords_enc (e : Endian) :
    ∀ (ms : List (Layout × Mat)) (ws : List Nat) (fuel : Nat), encFileWords e ms = some ws → ms.length < fuel →
      (∀ p ∈ ms, p.2.Wf ∧ (p.1 = .nonbigmat → p.2.rows < 65536) ∧ ∀ b ∈ p.2.name, b < 128) →
      ∀ ds, DecsOf ms ds → dirWords e fuel ws = .ok (ds.map Dec.listing) := by
  intro ms
  induction ms with
  | nil =>
    intro ws fuel h _ _ ds hds
    simp only [encFileWords, Option.some.injEq] at h
    subst h
    cases hds
    cases fuel <;> rfl
  | cons p t ih =>
    intro ws fuel h hf hall ds hds
    obtain ⟨lay, m⟩ := p
    cases hds with
    | cons hdec hrest =>
    rename_i d ds'
    simp only [encFileWords] at h
    cases ha : encMatWords e lay m with
    | none => simp [ha] at h
    | some a =>
      cases hb : encFileWords e t with
      | none => simp [ha, hb] at h
      | some b =>
        simp only [ha, hb, Option.bind_eq_bind, Option.bind_some, Option.some.injEq] at h
        subst h
        obtain ⟨f, rfl⟩ : ∃ f, fuel = f + 1 := ⟨fuel - 1, by simp at hf; omega⟩
        obtain ⟨hwf, hnb, hascii⟩ : m.Wf ∧ (lay = .nonbigmat → m.rows < 65536) ∧ ∀ b ∈ m.name, b < 128 :=
          hall (lay, m) (List.mem_cons_self)
        have htl : (trailerWords e m.cols.length).length = 7 := by
          obtain ⟨d0, d1, h⟩ := dWords_two e sqrt2Bits
          simp [trailerWords, h]
        have iht := ih b f hb (by simp at hf; omega) (fun q hq => hall q (List.mem_cons_of_mem _ hq)) ds' hrest
        obtain ⟨n0, n1, hn01, hname⟩ := name_words e m.name hwf.name_lt
        obtain ⟨hd1, hd2, hd3, hd4, hd5, _⟩ := hdec
        rw [encMatWords_eq e lay m a ha]
        have hrows : ofI32 (i32 (if (lay == .bigmat) = true then -(m.rows : Int) else (m.rows : Int)))
            = if lay = .bigmat then -(m.rows : Int) else (m.rows : Int) := by
          have := hwf.rows_lt
          rw [ofI32_i32]
          · cases lay <;> simp
          · split <;> omega
          · split <;> omega
        have hmt := mtype_cases m.cplx
        have hncols := ofI32_small m.cols.length (by have := hwf.ncols_lt; omega)
        have hform := ofI32_small m.form hwf.form_lt
        simp only [headerWords, hdrReclen, hn01, List.cons_append, List.nil_append, List.append_assoc, dirWords,
          List.drop_succ_cons, List.drop_zero, hname, nameField_ascii m.name hascii, Bool.false_eq_true, if_false,
          hncols, hrows, hform, hmt.1]
        have hskip := skip_matrix e lay m b hwf hnb
          (((recsOf e lay m.cplx 0 m.cols).flatMap Rec.words ++ (trailerWords e m.cols.length ++ b)).length + 1)
          (by simp only [List.length_append]; omega)
        simp only [List.append_assoc] at hskip
        simp only [hskip, iht, List.map_cons, Dec.listing, hd1, hd2, hd3, hd4, hd5]

end PyYetiVerif.Op4
