import PyYetiVerif.Model.FixtimeDespike
import PyYetiVerif.Lemmas.FixtimeFull
import Mathlib.Analysis.Real.Sqrt
import Mathlib.Data.Rat.Cast.Order
import Mathlib.Tactic.Linarith
import Mathlib.Tactic.Positivity
/-! Helper lemmas for C19: the despikers (`Model/FixtimeDespike.lean`). -/
namespace PyYetiVerif.Despike
open PyYetiVerif.Fixtime

/-- `a > sigma·sqrt(b)` decided on squares -/
theorem sq_test (sigma a b : ℚ) (hs : 0 ≤ sigma) (ha : 0 ≤ a) (hb : 0 ≤ b) :
    sigma * sigma * b < a * a ↔ (sigma : ℝ) * Real.sqrt (b : ℝ) < (a : ℝ) := by
  have hsr : (0 : ℝ) ≤ (sigma : ℝ) := by exact_mod_cast hs
  have har : (0 : ℝ) ≤ (a : ℝ) := by exact_mod_cast ha
  have hbr : (0 : ℝ) ≤ (b : ℝ) := by exact_mod_cast hb
  have e : (sigma : ℝ) * Real.sqrt (b : ℝ) = Real.sqrt ((sigma : ℝ) * (sigma : ℝ) * (b : ℝ)) := by
    rw [Real.sqrt_mul (mul_nonneg hsr hsr), Real.sqrt_mul_self hsr]
  rw [e, Real.sqrt_lt (by positivity) har]
  have : (sigma * sigma * b < a * a) ↔ ((sigma * sigma * b : ℚ) : ℝ) < ((a * a : ℚ) : ℝ) := by
    exact Rat.cast_lt.symm
  rw [this]
  push_cast
  rw [sq]

theorem selBy_length_aux {β : Type} : ∀ (x : List β) (pv : List Bool), pv.length = x.length →
    ((x.zip pv).filter fun p => p.2 == false).length = (pv.filter (· == false)).length
  | [], [], _ => by simp
  | [], _ :: _, h => by simp at h
  | _ :: _, [], h => by simp at h
  | a :: r, b :: q, h => by
      have hq : q.length = r.length := by simpa using h
      have ih := selBy_length_aux r q hq
      cases b
      · simp only [List.zip_cons_cons, List.filter_cons, beq_self_eq_true, if_true, List.length_cons]
        omega
      · simp only [List.zip_cons_cons, List.filter_cons]
        exact ih

theorem selBy_replicate_false {β : Type} : ∀ (y : List β), selBy y (List.replicate y.length false) false = y
  | [] => rfl
  | a :: l => by
      have ih := selBy_replicate_false l
      unfold selBy at ih ⊢
      simp only [List.length_cons, List.replicate_succ, List.zip_cons_cons, List.filter_cons, beq_self_eq_true,
        if_true, List.map_cons]
      rw [ih]

theorem iterate_none (step : State → Option (State × Outcome × Option State)) (maxiter : Int) (fuel : Nat) (s t : State)
    (h : step s = some (t, Outcome.none, none)) : iterate step maxiter (fuel + 1) s = some t := by
  unfold iterate
  rw [h]

theorem iterateD_none (step : DState → Option (DState × Outcome × Option DState)) (maxiter : Int) (fuel : Nat) (s t : DState)
    (h : step s = some (t, Outcome.none, none)) : iterateD step maxiter (fuel + 1) s = some t := by
  unfold iterateD
  rw [h]

theorem stepFirst_noflags (sigma : ℚ) (m : MinLim) (n : Nat) (xp : XP) (s : State)
    (h : nonzeroIdx s.flags = []) :
    stepFirst sigma m n xp s = some ({ s with niter := s.niter + 1 }, Outcome.none, none) := by
  unfold stepFirst lastTrue
  simp only [h, List.getLast?_nil]

theorem stepLast_noflags (sigma : ℚ) (m : MinLim) (n : Nat) (xp : XP) (s : State)
    (h : nonzeroIdx s.flags = []) :
    stepLast sigma m n xp s = some ({ s with niter := s.niter + 1 }, Outcome.none, none) := by
  unfold stepLast firstTrue
  simp only [h, List.head?_nil]

theorem stepFirstD_noflags (sigma : ℚ) (m : MinLim) (n : Nat) (xp : XP) (s : DState)
    (h : nonzeroIdx s.flags = []) :
    stepFirstD sigma m n xp s = some ({ s with niter := s.niter + 1 }, Outcome.none, none) := by
  unfold stepFirstD lastTrue
  simp only [h, List.getLast?_nil]

theorem stepLastD_noflags (sigma : ℚ) (m : MinLim) (n : Nat) (xp : XP) (s : DState)
    (h : nonzeroIdx s.flags = []) :
    stepLastD sigma m n xp s = some ({ s with niter := s.niter + 1 }, Outcome.none, none) := by
  unfold stepLastD firstTrue
  simp only [h, List.head?_nil]

end PyYetiVerif.Despike
