import PyYetiVerif.Lemmas.FixtimeTnewIdem
import Mathlib.Tactic.NormNum
import Mathlib.Tactic.Positivity
/-! Helper lemma for C19: a uniform time vector has no 3-sigma outlier times (`_del_outtimes`
removes nothing from an already-uniform record). -/
namespace PyYetiVerif.Fixtime

theorem sumQ_append_single (l : List ℚ) (x : ℚ) : sumQ (l ++ [x]) = sumQ l + x := by
  unfold sumQ
  rw [List.foldl_append]
  rfl

theorem sumQ_map_range_succ (f : Nat → ℚ) (n : Nat) :
    sumQ ((List.range (n + 1)).map f) = sumQ ((List.range n).map f) + f n := by
  rw [List.range_succ, List.map_append, List.map_cons, List.map_nil, sumQ_append_single]

theorem sum_affine (a b : ℚ) : ∀ n : Nat,
    sumQ ((List.range n).map fun (k : Nat) => a + (k : ℚ) * b) = (n : ℚ) * a + (n : ℚ) * ((n : ℚ) - 1) / 2 * b
  | 0 => by simp [sumQ]
  | n + 1 => by
      rw [sumQ_map_range_succ, sum_affine a b n]
      push_cast
      ring

theorem sum_sq_dev (m b : ℚ) : ∀ n : Nat,
    sumQ ((List.range n).map fun (k : Nat) => (((k : ℚ) - m) * b) * (((k : ℚ) - m) * b)) =
      ((n : ℚ) * ((n : ℚ) - 1) * (2 * (n : ℚ) - 1) / 6 - m * (n : ℚ) * ((n : ℚ) - 1) + (n : ℚ) * m * m) * b * b
  | 0 => by simp [sumQ]
  | n + 1 => by
      rw [sumQ_map_range_succ, sum_sq_dev m b n]
      push_cast
      ring

/-- no point of the uniform vector `t0 + k/sr`, `k < L`, `L ≥ 2`, is more than 3 standard deviations
from the mean (the ends are at `sqrt(3 (L-1)/(L+1)) < 1.74` sigma) -/
theorem outlierAt_grid (t0 sr : ℚ) (hsr : 0 < sr) (L : Nat) (hL : 2 ≤ L) (k : Nat) (hk : k < L) :
    outlierAt (grid0 t0 sr L) (t0 + (k : ℚ) / sr) = false := by
  have hLq : (2 : ℚ) ≤ (L : ℚ) := by exact_mod_cast hL
  have hkq : (k : ℚ) ≤ (L : ℚ) - 1 := by
    have : k + 1 ≤ L := hk
    have : ((k + 1 : Nat) : ℚ) ≤ (L : ℚ) := by exact_mod_cast this
    push_cast at this; linarith
  have hk0 : (0 : ℚ) ≤ (k : ℚ) := by positivity
  have hsr0 : sr ≠ 0 := ne_of_gt hsr
  have hg : grid0 t0 sr L = (List.range L).map fun (j : Nat) => t0 + (j : ℚ) * (1 / sr) := by
    unfold grid0
    apply List.map_congr_left
    intro j _
    push_cast
    ring
  have hmean : sumQ (grid0 t0 sr L) / (L : ℚ) = t0 + ((L : ℚ) - 1) / 2 * (1 / sr) := by
    rw [hg, sum_affine]
    field_simp
  have hdev : (grid0 t0 sr L).map (fun y => (y - (t0 + ((L : ℚ) - 1) / 2 * (1 / sr))) * (y - (t0 + ((L : ℚ) - 1) / 2 * (1 / sr)))) =
      (List.range L).map fun (j : Nat) => (((j : ℚ) - ((L : ℚ) - 1) / 2) * (1 / sr)) * (((j : ℚ) - ((L : ℚ) - 1) / 2) * (1 / sr)) := by
    rw [hg, List.map_map]
    apply List.map_congr_left
    intro j _
    simp only [Function.comp]
    ring
  unfold outlierAt
  simp only [length_grid0]
  rw [hmean, hdev, sum_sq_dev]
  simp only [decide_eq_false_iff_not, not_lt]
  have hL1 : (0 : ℚ) < (L : ℚ) - 1 := by linarith
  have e1 : (t0 + (k : ℚ) / sr - (t0 + ((L : ℚ) - 1) / 2 * (1 / sr))) = ((k : ℚ) - ((L : ℚ) - 1) / 2) * (1 / sr) := by
    ring
  rw [e1]
  have e2 : 9 * ((((L : ℚ) * ((L : ℚ) - 1) * (2 * (L : ℚ) - 1) / 6 - ((L : ℚ) - 1) / 2 * (L : ℚ) * ((L : ℚ) - 1) +
      (L : ℚ) * (((L : ℚ) - 1) / 2) * (((L : ℚ) - 1) / 2)) * (1 / sr) * (1 / sr)) / ((L : ℚ) - 1)) =
      3 * (L : ℚ) * ((L : ℚ) + 1) / 4 * ((1 / sr) * (1 / sr)) := by
    field_simp
    ring
  rw [e2]
  have hpos : (0 : ℚ) ≤ (1 / sr) * (1 / sr) := by positivity
  have key : ((k : ℚ) - ((L : ℚ) - 1) / 2) * ((k : ℚ) - ((L : ℚ) - 1) / 2) ≤ 3 * (L : ℚ) * ((L : ℚ) + 1) / 4 := by
    nlinarith
  calc ((k : ℚ) - ((L : ℚ) - 1) / 2) * (1 / sr) * (((k : ℚ) - ((L : ℚ) - 1) / 2) * (1 / sr))
      = (((k : ℚ) - ((L : ℚ) - 1) / 2) * ((k : ℚ) - ((L : ℚ) - 1) / 2)) * ((1 / sr) * (1 / sr)) := by ring
    _ ≤ 3 * (L : ℚ) * ((L : ℚ) + 1) / 4 * ((1 / sr) * (1 / sr)) := mul_le_mul_of_nonneg_right key hpos

end PyYetiVerif.Fixtime
