import PyYetiVerif.Lemmas.ExtremaHeap
set_option linter.unusedSimpArgs false
/-! Helper lemmas for C16: the store model of `cla.extrema` (`Model/ExtremaHeap.lean`) computes what
the value model (`Model/Extrema.lean`, `upd2`) computes. -/
namespace PyYetiVerif.ExtremaHeap
open PyYetiVerif.Extrema

variable {α X L : Type}

/-- the accumulator's members are distinct live cells -/
def Live (h : Heap α X L) (c : CatRef) : Prop :=
  c.ext < h.vals.length ∧ (∀ r, c.extx = some r → r < h.xs.length) ∧
  c.maxcase < h.labs.length ∧ c.mincase < h.labs.length ∧ c.maxcase ≠ c.mincase

/-- what one call hands in, read from the store `h`: the `(max, min)` triples of the value model;
`nox` stands for "no abscissa" -/
def readCall (h : Heap α X L) (nox : X) (e : MmRef × LabArg L × Option (LabArg L)) :
    Option (Tr α X L × Tr α X L) :=
  match h.vals[e.1.ext]?, readLab h e.2.1 with
  | some v, some lmax =>
    match readMin h lmax e.2.2, (match e.1.extx with
        | none => some (nox, nox)
        | some r => h.xs[r]?) with
    | some lmin, some x => some (⟨v.1, x.1, lmax⟩, ⟨v.2, x.2, lmin⟩)
    | _, _ => none
  | _, _ => none

/-- every reference of the call points into the first `n` cells -/
def InRange (n : Nat × Nat × Nat) (e : MmRef × LabArg L × Option (LabArg L)) : Prop :=
  e.1.ext < n.1 ∧ (∀ r, e.1.extx = some r → r < n.2.1) ∧
  (∀ r, e.2.1 = .list r → r < n.2.2) ∧ (∀ r, e.2.2 = some (.list r) → r < n.2.2)

theorem keeps_vals {n : Nat × Nat × Nat} {h hk : Heap α X L} (k : Keeps n h hk) (r : Nat) (hr : r < n.1) :
    hk.vals[r]? = h.vals[r]? := by
  have := congrArg Heap.vals k.1
  simp only [Heap.below] at this
  have h1 : (hk.vals.take n.1)[r]? = hk.vals[r]? := by simp [hr]
  have h2 : (h.vals.take n.1)[r]? = h.vals[r]? := by simp [hr]
  rw [← h1, ← h2, this]

theorem keeps_xs {n : Nat × Nat × Nat} {h hk : Heap α X L} (k : Keeps n h hk) (r : Nat) (hr : r < n.2.1) :
    hk.xs[r]? = h.xs[r]? := by
  have := congrArg Heap.xs k.1
  simp only [Heap.below] at this
  have h1 : (hk.xs.take n.2.1)[r]? = hk.xs[r]? := by simp [hr]
  have h2 : (h.xs.take n.2.1)[r]? = h.xs[r]? := by simp [hr]
  rw [← h1, ← h2, this]

theorem keeps_labs {n : Nat × Nat × Nat} {h hk : Heap α X L} (k : Keeps n h hk) (r : Nat) (hr : r < n.2.2) :
    hk.labs[r]? = h.labs[r]? := by
  have := congrArg Heap.labs k.1
  simp only [Heap.below] at this
  have h1 : (hk.labs.take n.2.2)[r]? = hk.labs[r]? := by simp [hr]
  have h2 : (h.labs.take n.2.2)[r]? = h.labs[r]? := by simp [hr]
  rw [← h1, ← h2, this]

theorem keeps_readLab {n : Nat × Nat × Nat} {h hk : Heap α X L} (k : Keeps n h hk) (a : LabArg L)
    (ha : ∀ r, a = .list r → r < n.2.2) : readLab hk a = readLab h a := by
  cases a with
  | str s => rfl
  | list r => exact keeps_labs k r (ha r rfl)

theorem keeps_readMin {n : Nat × Nat × Nat} {h hk : Heap α X L} (k : Keeps n h hk) (lmax : L)
    (b : Option (LabArg L)) (hb : ∀ r, b = some (.list r) → r < n.2.2) :
    readMin hk lmax b = readMin h lmax b := by
  cases b with
  | none => rfl
  | some a => exact keeps_readLab k a fun r hr => hb r (by rw [hr])


/-- the accumulator `c` holds the value-level state `r` in the store `h` -/
def Holds (h : Heap α X L) (c : CatRef) (r : Cur α X L) (nox : X) : Prop :=
  h.vals[c.ext]? = some (r.hi.v, r.lo.v) ∧
  (match c.extx with
    | none => r.hi.x = nox ∧ r.lo.x = nox
    | some cx => h.xs[cx]? = some (r.hi.x, r.lo.x)) ∧
  h.labs[c.maxcase]? = some r.hi.lab ∧ h.labs[c.mincase]? = some r.lo.lab

theorem readCat_of_holds (h : Heap α X L) (c : CatRef) (r : Cur α X L) (nox : X)
    (hh : Holds h c r nox) : readCat h c nox = some r := by
  obtain ⟨h1, h2, h3, h4⟩ := hh
  obtain ⟨⟨hv, hx, hl⟩, ⟨lv, lx, ll⟩⟩ := r
  unfold readCat
  cases hcx : c.extx with
  | none =>
    simp only [hcx] at h2
    obtain ⟨rfl, rfl⟩ := h2
    simp [h1, h3, h4]
  | some cx =>
    simp only [hcx] at h2
    simp [h1, h2, h3, h4]

/-- the abscissa pair a call hands in (`nox` when it hands in none) -/
def readX (h : Heap α X L) (nox : X) (mm : MmRef) : Option (X × X) :=
  match mm.extx with
  | none => some (nox, nox)
  | some r => h.xs[r]?

/-- the abscissa pair the accumulator holds (`nanX` twice when it has no `ext_x`) -/
def HoldsX (h : Heap α X L) (extx : Option Nat) (x0 : X × X) (nanX : X) : Prop :=
  match extx with
  | none => x0 = (nanX, nanX)
  | some cx => h.xs[cx]? = some x0

/-- `_put_time` for a row that is replaced, whatever the two sides have of abscissae: the
accumulator's pair takes the input's abscissa in this column (`nanX` when the input has none) -/
theorem putTime_spec (nanX : X) (h : Heap α X L) (c : CatRef) (mm : MmRef) (col : Nat)
    (xv x0 : X × X) (hx : HoldsX h c.extx x0 nanX) (hxv : readX h nanX mm = some xv) :
    ∃ h' c', putTime nanX h c mm col = some (h', c') ∧ h'.vals = h.vals ∧ h'.labs = h.labs ∧
      c'.ext = c.ext ∧ c'.maxcase = c.maxcase ∧ c'.mincase = c.mincase ∧
      HoldsX h' c'.extx (setCol x0 col (getCol xv col)) nanX := by
  unfold putTime
  cases hmx : mm.extx with
  | none =>
    simp only [readX, hmx, Option.some.injEq] at hxv
    subst hxv
    cases hcx : c.extx with
    | none =>
      simp only [hcx, HoldsX] at hx
      subst hx
      refine ⟨h, c, rfl, rfl, rfl, rfl, rfl, rfl, ?_⟩
      simp only [hcx, HoldsX, setCol, getCol]
      split <;> rfl
    | some cx =>
      simp only [hcx, HoldsX] at hx
      have lx : cx < h.xs.length := (List.getElem?_eq_some_iff.1 hx).1
      refine ⟨writeX h cx (setCol x0 col nanX), c, by simp [hx], rfl, rfl, rfl, rfl, rfl, ?_⟩
      simp only [hcx, HoldsX, writeX, getCol]
      simp only [List.getElem?_set_self lx]
      split <;> rfl
  | some rx =>
    simp only [readX, hmx] at hxv
    cases hcx : c.extx with
    | none =>
      simp only [hcx, HoldsX] at hx
      subst hx
      refine ⟨(allocX h (setCol (nanX, nanX) col (getCol xv col))).1, { c with extx := some h.xs.length },
        by simp [hxv, allocX], rfl, rfl, rfl, rfl, rfl, ?_⟩
      simp [HoldsX, allocX]
    | some cx =>
      simp only [hcx, HoldsX] at hx
      have lx : cx < h.xs.length := (List.getElem?_eq_some_iff.1 hx).1
      refine ⟨writeX h cx (setCol x0 col (getCol xv col)), c, by simp [hxv, hx], rfl, rfl, rfl, rfl, rfl, ?_⟩
      simp [hcx, HoldsX, writeX, lx]

section upd
variable [LT α] [DecidableLT α]

omit [LT α] [DecidableLT α] in
/-- a later call, one column: the store operation is `Tr.upd` on the value-level state — whether or
not the two sides have abscissae (a side without contributes `nanX`) -/
theorem updCol_spec (nanX : X) (better : α → α → Bool) (h : Heap α X L) (c : CatRef)
    (r : Cur α X L) (mm : MmRef) (col : Nat) (hcol : col = 0 ∨ col = 1) (lab : L)
    (mv : Option α × Option α) (xv : X × X)
    (hh : Holds h c r nanX) (hne : c.maxcase ≠ c.mincase)
    (hmv : h.vals[mm.ext]? = some mv) (hxv : readX h nanX mm = some xv) :
    ∃ h' c', updCol nanX better h c mm col lab = some (h', c') ∧
      c'.ext = c.ext ∧ c'.maxcase = c.maxcase ∧ c'.mincase = c.mincase ∧
      Holds h' c' (if col = 0 then ⟨r.hi.upd better ⟨mv.1, xv.1, lab⟩, r.lo⟩
        else ⟨r.hi, r.lo.upd better ⟨mv.2, xv.2, lab⟩⟩) nanX := by
  obtain ⟨h1, h2, h3, h4⟩ := hh
  have lv : c.ext < h.vals.length := (List.getElem?_eq_some_iff.1 h1).1
  have l3 : c.maxcase < h.labs.length := (List.getElem?_eq_some_iff.1 h3).1
  have l4 : c.mincase < h.labs.length := (List.getElem?_eq_some_iff.1 h4).1
  have hx0 : HoldsX h c.extx (r.hi.x, r.lo.x) nanX := by
    unfold HoldsX
    cases hcx : c.extx with
    | none => simp only [hcx] at h2; rw [h2.1, h2.2]
    | some cx => simpa [hcx] using h2
  have holdsX_iff : ∀ (h' : Heap α X L) (c' : CatRef) (r' : Cur α X L),
      HoldsX h' c'.extx (r'.hi.x, r'.lo.x) nanX →
      (match c'.extx with
        | none => r'.hi.x = nanX ∧ r'.lo.x = nanX
        | some cx => h'.xs[cx]? = some (r'.hi.x, r'.lo.x)) := by
    intro h' c' r' hx'
    unfold HoldsX at hx'
    cases hcx : c'.extx with
    | none => simp only [hcx, Prod.mk.injEq] at hx'; exact hx'
    | some cx => simpa [hcx] using hx'
  unfold updCol
  simp only [h1, hmv, Option.bind_eq_bind, Option.bind_some]
  rcases hcol with rfl | rfl
  · -- the maximum column
    simp only [getCol, setCol, beq_self_eq_true, if_true, Tr.upd]
    by_cases hr : nanRepl better r.hi.v mv.1 = true
    · simp only [hr, if_true]
      obtain ⟨h', c', hp, hv', hl', e1, e2, e3, hx'⟩ := putTime_spec nanX
        (writeV (writeL h c.maxcase lab) c.ext (mv.1, r.lo.v)) c mm 0 xv (r.hi.x, r.lo.x)
        (by simpa [HoldsX, writeV, writeL] using hx0) (by simpa [readX, writeV, writeL] using hxv)
      refine ⟨h', c', hp, e1, e2, e3, ?_, ?_, ?_, ?_⟩
      · rw [e1, hv']; simp [writeV, writeL, lv]
      · exact holdsX_iff h' c' _ (by simpa [setCol, getCol] using hx')
      · rw [e2, hl']; simp [writeV, writeL, l3]
      · rw [e3, hl']; simp [writeV, writeL, List.getElem?_set_ne hne, h4]
    · simp only [hr, Bool.false_eq_true, if_false]
      exact ⟨h, c, rfl, rfl, rfl, rfl, h1, h2, h3, h4⟩
  · -- the minimum column
    simp only [getCol, setCol, Nat.reduceBEq, Bool.false_eq_true, if_false, Tr.upd, Nat.one_ne_zero]
    by_cases hr : nanRepl better r.lo.v mv.2 = true
    · simp only [hr, if_true]
      obtain ⟨h', c', hp, hv', hl', e1, e2, e3, hx'⟩ := putTime_spec nanX
        (writeV (writeL h c.mincase lab) c.ext (r.hi.v, mv.2)) c mm 1 xv (r.hi.x, r.lo.x)
        (by simpa [HoldsX, writeV, writeL] using hx0) (by simpa [readX, writeV, writeL] using hxv)
      refine ⟨h', c', hp, e1, e2, e3, ?_, ?_, ?_, ?_⟩
      · rw [e1, hv']; simp [writeV, writeL, lv]
      · exact holdsX_iff h' c' _ (by simpa [setCol, getCol] using hx')
      · rw [e2, hl']; simp [writeV, writeL, List.getElem?_set_ne (Ne.symm hne), h3]
      · rw [e3, hl']; simp [writeV, writeL, l4]
    · simp only [hr, Bool.false_eq_true, if_false]
      exact ⟨h, c, rfl, rfl, rfl, rfl, h1, h2, h3, h4⟩

end upd


/-- the first call: the accumulator holds copies of what was handed in, in distinct new cells -/
theorem firstCall_spec (nox : X) (h h' : Heap α X L) (c' : CatRef) (mm : MmRef) (lmax lmin : L)
    (mv : Option α × Option α) (xv : X × X)
    (hmv : h.vals[mm.ext]? = some mv) (hxv : readX h nox mm = some xv)
    (hs : firstCall true h mm lmax lmin = some (h', c')) :
    Holds h' c' ⟨⟨mv.1, xv.1, lmax⟩, ⟨mv.2, xv.2, lmin⟩⟩ nox ∧ c'.maxcase ≠ c'.mincase ∧
    c'.extx.isSome = mm.extx.isSome := by
  unfold firstCall at hs
  simp only [hmv] at hs
  cases hmx : mm.extx with
  | none =>
    simp only [readX, hmx, Option.some.injEq] at hxv
    subst hxv
    simp only [hmx, Option.some.injEq, Prod.mk.injEq] at hs
    obtain ⟨rfl, rfl⟩ := hs
    refine ⟨⟨by simp [allocV, allocL], by simp, by simp [allocV, allocL], by simp [allocV, allocL]⟩,
      by simp [allocV, allocL], by simp⟩
  | some rx =>
    simp only [readX, hmx] at hxv
    have hx' : (allocV h mv).1.xs[rx]? = some xv := by simpa [allocV] using hxv
    simp only [hmx, if_true, hx', Option.some.injEq, Prod.mk.injEq] at hs
    obtain ⟨rfl, rfl⟩ := hs
    refine ⟨⟨by simp [allocV, allocL, allocX], by simp [allocV, allocL, allocX],
      by simp [allocV, allocL, allocX], by simp [allocV, allocL, allocX]⟩,
      by simp [allocV, allocL, allocX], by simp⟩

section run
variable [LT α] [DecidableLT α]

/-- the state of a history: nothing yet, or an accumulator holding a value-level state -/
def Agree (n : Nat × Nat × Nat) (nox : X) (hk : Heap α X L) (cur : Option CatRef)
    (s : Option (Cur α X L)) : Prop :=
  (cur = none ∧ s = none) ∨
  ∃ c r, cur = some c ∧ s = some r ∧ Holds hk c r nox ∧ c.maxcase ≠ c.mincase ∧ Owned n c

omit [LT α] [DecidableLT α] in
theorem readCall_keeps {n : Nat × Nat × Nat} {h hk : Heap α X L} (k : Keeps n h hk) (nox : X)
    (e : MmRef × LabArg L × Option (LabArg L)) (hr : InRange n e) :
    hk.vals[e.1.ext]? = h.vals[e.1.ext]? ∧ readLab hk e.2.1 = readLab h e.2.1 ∧
    (∀ l, readMin hk l e.2.2 = readMin h l e.2.2) ∧ readX hk nox e.1 = readX h nox e.1 := by
  obtain ⟨r1, r2, r3, r4⟩ := hr
  refine ⟨keeps_vals k _ r1, keeps_readLab k _ r3, fun l => keeps_readMin k l _ r4, ?_⟩
  unfold readX
  cases hx : e.1.extx with
  | none => rfl
  | some r => exact keeps_xs k r (r2 r hx)

/-- one call of the store model is `upd2` on the value-level state (a call without abscissae hands
in `nanX`) -/
theorem step_spec (n : Nat × Nat × Nat) (nanX : X) (h hk h1 : Heap α X L)
    (cur : Option CatRef) (s : Option (Cur α X L)) (c1 : CatRef)
    (e : MmRef × LabArg L × Option (LabArg L))
    (k : Keeps n h hk) (ha : Agree n nanX hk cur s) (hr : InRange n e)
    (hs : step true nanX hk cur e.1 e.2.1 e.2.2 = some (h1, c1)) :
    ∃ m, readCall h nanX e = some m ∧ Keeps n h h1 ∧ Agree n nanX h1 (some c1) (some (upd2 s m)) := by
  obtain ⟨kv, kl, km, kx⟩ := readCall_keeps k nanX e hr
  have hfr := step_frame n nanX hk h1 cur c1 e.1 e.2.1 e.2.2 k.2
    (by
      intro c hc
      rcases ha with ⟨h0, -⟩ | ⟨c', r, h0, -, -, -, ho⟩
      · rw [h0] at hc; cases hc
      · rw [h0] at hc; cases hc; exact ho) hs
  unfold step at hs
  cases hla : readLab hk e.2.1 with
  | none => simp [hla] at hs
  | some lmax =>
    simp only [hla] at hs
    cases hlb : readMin hk lmax e.2.2 with
    | none => simp [hlb] at hs
    | some lmin =>
      simp only [hlb] at hs
      -- the value and the abscissae handed in can be read (the call went through)
      have hreads : ∃ mv xv, hk.vals[e.1.ext]? = some mv ∧ readX hk nanX e.1 = some xv := by
        rcases ha with ⟨h0, -⟩ | ⟨c, r, h0, -, hh, -, -⟩
        · subst h0
          simp only at hs
          unfold firstCall at hs
          cases hmv : hk.vals[e.1.ext]? with
          | none => simp [hmv] at hs
          | some mv =>
            refine ⟨mv, ?_⟩
            simp only [hmv] at hs
            unfold readX
            cases hx : e.1.extx with
            | none => exact ⟨_, rfl, rfl⟩
            | some rx =>
              simp only [hx, if_true] at hs
              cases hxv : (allocV hk mv).1.xs[rx]? with
              | none => simp [hxv] at hs
              | some xv => exact ⟨xv, rfl, by simpa [allocV] using hxv⟩
        · subst h0
          simp only at hs
          cases hu : updCol nanX gtB hk c e.1 0 lmax with
          | none => simp [hu] at hs
          | some p =>
            unfold updCol at hu
            cases hmv : hk.vals[e.1.ext]? with
            | none => simp [hh.1, hmv] at hu
            | some mv =>
              refine ⟨mv, ?_⟩
              unfold readX
              cases hx : e.1.extx with
              | none => exact ⟨_, rfl, rfl⟩
              | some rx =>
                -- `InRange` puts the cell below `n ≤` size
                have hlt : rx < hk.xs.length := Nat.lt_of_lt_of_le (hr.2.1 rx hx) k.2.2.1
                exact ⟨hk.xs[rx], rfl, by simp [hlt]⟩
      obtain ⟨mv, xv, hmv, hxv⟩ := hreads
      have hm : readCall h nanX e = some (⟨mv.1, xv.1, lmax⟩, ⟨mv.2, xv.2, lmin⟩) := by
        unfold readCall
        have e1 : h.vals[e.1.ext]? = some mv := by rw [← kv]; exact hmv
        have e2 : readLab h e.2.1 = some lmax := by rw [← kl]; exact hla
        have e3 : readMin h lmax e.2.2 = some lmin := by rw [← km]; exact hlb
        have e4 : readX h nanX e.1 = some xv := by rw [← kx]; exact hxv
        unfold readX at e4
        simp only [e1, e2, e3, e4]
      refine ⟨_, hm, k.trans hfr.1, ?_⟩
      rcases ha with ⟨h0, hs0⟩ | ⟨c, r, h0, hs0, hh, hne, ho⟩
      · subst h0 hs0
        simp only at hs
        obtain ⟨f1, f2, -⟩ := firstCall_spec nanX hk h1 c1 e.1 lmax lmin mv xv hmv hxv hs
        exact Or.inr ⟨c1, _, rfl, rfl, f1, f2, hfr.2⟩
      · subst h0 hs0
        simp only at hs
        obtain ⟨ha1, ca, hu1, ea1, ea2, ea3, hh1⟩ := updCol_spec nanX gtB hk c r e.1 0 (Or.inl rfl) lmax mv xv
          hh hne hmv hxv
        simp only [hu1] at hs
        obtain ⟨k1, oa⟩ := updCol_frame n nanX gtB hk ha1 c ca e.1 0 lmax k.2 ho hu1
        obtain ⟨kv1, -, -, kx1⟩ := readCall_keeps k1 nanX e hr
        have hnea : ca.maxcase ≠ ca.mincase := by rw [ea2, ea3]; exact hne
        obtain ⟨ha2, cb, hu2, eb1, eb2, eb3, hh2⟩ := updCol_spec nanX ltB ha1 ca _ e.1 1 (Or.inr rfl) lmin mv xv
          hh1 hnea (by rw [kv1]; exact hmv) (by rw [kx1]; exact hxv)
        rw [hu2] at hs
        simp only [Option.some.injEq, Prod.mk.injEq] at hs
        obtain ⟨rfl, rfl⟩ := hs
        refine Or.inr ⟨cb, _, rfl, rfl, ?_, by rw [eb2, eb3]; exact hnea, hfr.2⟩
        simpa [upd2] using hh2

theorem run_spec (n : Nat × Nat × Nat) (nanX : X) (h : Heap α X L) :
    ∀ (hist : List (MmRef × LabArg L × Option (LabArg L))) (hk h' : Heap α X L)
      (cur cur' : Option CatRef) (s : Option (Cur α X L)),
      Keeps n h hk → Agree n nanX hk cur s →
      (∀ e ∈ hist, InRange n e) →
      run true nanX hk cur hist = some (h', cur') →
      ∃ ms, hist.mapM (readCall h nanX) = some ms ∧
        Agree n nanX h' cur' (ms.foldl (fun s m => some (upd2 s m)) s)
  | [], hk, h', cur, cur', s, _, ha, _, hs => by
    simp only [run, Option.some.injEq, Prod.mk.injEq] at hs
    obtain ⟨rfl, rfl⟩ := hs
    exact ⟨[], rfl, ha⟩
  | e :: rest, hk, h', cur, cur', s, k, ha, hr, hs => by
    obtain ⟨mm, a, bb⟩ := e
    simp only [run] at hs
    cases h1 : step true nanX hk cur mm a bb with
    | none => simp [h1] at hs
    | some p =>
      obtain ⟨h1', c1⟩ := p
      simp only [h1] at hs
      obtain ⟨m, hm, k1, a1⟩ := step_spec n nanX h hk h1' cur s c1 (mm, a, bb) k ha
        (hr _ (List.mem_cons_self ..)) h1
      obtain ⟨ms, hms, a2⟩ := run_spec n nanX h rest h1' h' (some c1) cur' _ k1 a1
        (fun e he => hr e (List.mem_cons_of_mem _ he)) hs
      exact ⟨m :: ms, by simp [hm, hms], a2⟩

end run

end PyYetiVerif.ExtremaHeap
