import PyYetiVerif.Model.ExtremaLabels
import PyYetiVerif.Lemmas.Extrema
import Mathlib.Data.List.Nodup
import Mathlib.Data.List.Perm.Basic
/-!
Helper lemmas for `Props/C16Labels.lean`: the insertion loop of `merge_lists` (the same invariants
as C18's `Lemmas/LocateMerge.lean`, restated for the copy of the loop in `Model/ExtremaLabels.lean`),
`new[pv] = old` read by label, and `extrema` on aligned tables read row by row.
-/
set_option linter.unusedSectionVars false
namespace PyYetiVerif.ExtremaLabels
open PyYetiVerif.Extrema

section merge
variable {β : Type} [DecidableEq β]

theorem sublist_insertAt (l : List β) (i : Nat) (xs : List β) : l.Sublist (insertAt l i xs) := by
  unfold insertAt
  conv => lhs; rw [← List.take_append_drop i l]
  rw [List.append_assoc]
  exact List.Sublist.append (List.Sublist.refl _) (List.sublist_append_right _ _)

theorem perm_insertAt (l : List β) (i : Nat) (xs : List β) : (insertAt l i xs).Perm (l ++ xs) := by
  unfold insertAt
  conv => rhs; rw [← List.take_append_drop i l]
  rw [List.append_assoc, List.append_assoc]
  exact List.Perm.append_left _ List.perm_append_comm

theorem mem_insertAt {l : List β} {i : Nat} {xs : List β} {x : β} :
    x ∈ insertAt l i xs ↔ x ∈ l ∨ x ∈ xs := by
  rw [(perm_insertAt l i xs).mem_iff, List.mem_append]

/-- list1 stays a subsequence of the working list -/
theorem foldl_mergeStep_sublist : ∀ (l2 : List β) (st : List β × List β),
    st.1.Sublist (l2.foldl mergeStep st).1
  | [], _ => List.Sublist.refl _
  | e :: t, st => by
      rw [List.foldl_cons]
      refine List.Sublist.trans ?_ (foldl_mergeStep_sublist t _)
      unfold mergeStep
      split
      · exact sublist_insertAt _ _ _
      · exact List.Sublist.refl _

/-- the merged list holds exactly the items of both lists -/
theorem foldl_mergeStep_mem (x : β) : ∀ (l2 : List β) (st : List β × List β),
    (x ∈ (l2.foldl mergeStep st).1 ++ (l2.foldl mergeStep st).2 ↔ x ∈ st.1 ∨ x ∈ st.2 ∨ x ∈ l2)
  | [], st => by simp
  | e :: t, st => by
      rw [List.foldl_cons, foldl_mergeStep_mem x t]
      unfold mergeStep
      split
      · rename_i hc
        have he : e ∈ st.1 := by simpa using hc
        simp only [mem_insertAt, List.not_mem_nil, false_or, List.mem_cons]
        constructor
        · rintro ((h | h) | h)
          · exact Or.inl h
          · exact Or.inr (Or.inl h)
          · exact Or.inr (Or.inr (Or.inr h))
        · rintro (h | h | h | h)
          · exact Or.inl (Or.inl h)
          · exact Or.inl (Or.inr h)
          · exact Or.inl (Or.inl (h ▸ he))
          · exact Or.inr h
      · simp only [List.mem_append, List.mem_cons, List.not_mem_nil, or_false]
        constructor
        · rintro (h | (h | h) | h)
          · exact Or.inl h
          · exact Or.inr (Or.inl h)
          · exact Or.inr (Or.inr (Or.inl h))
          · exact Or.inr (Or.inr (Or.inr h))
        · rintro (h | h | h | h)
          · exact Or.inl h
          · exact Or.inr (Or.inl (Or.inl h))
          · exact Or.inr (Or.inl (Or.inr h))
          · exact Or.inr (Or.inr h)

/-- no repeats in the inputs, none in the merged list -/
theorem foldl_mergeStep_nodup : ∀ (l2 : List β) (st : List β × List β),
    st.1.Nodup → (st.2 ++ l2).Nodup → (∀ x ∈ st.1, x ∉ st.2) →
    ((l2.foldl mergeStep st).1 ++ (l2.foldl mergeStep st).2).Nodup
  | [], st, h1, h2, h3 => by
      simp only [List.foldl_nil]
      rw [List.append_nil] at h2
      exact List.Nodup.append h1 h2 (by intro x hx hx2; exact h3 x hx hx2)
  | e :: t, st, h1, h2, h3 => by
      rw [List.foldl_cons]
      apply foldl_mergeStep_nodup t
      · unfold mergeStep
        split
        · simp only
          rw [(perm_insertAt _ _ _).nodup_iff]
          exact List.Nodup.append h1 (List.Nodup.of_append_left h2)
            (by intro x hx hx2; exact h3 x hx hx2)
        · exact h1
      · unfold mergeStep
        split
        · simp only [List.nil_append]
          exact (List.nodup_cons.mp (List.Nodup.of_append_right h2)).2
        · simpa using h2
      · unfold mergeStep
        split
        · simp
        · rename_i hc
          have he : e ∉ st.1 := by simpa using hc
          intro x hx
          simp only [List.mem_append, List.mem_singleton, not_or]
          exact ⟨h3 x hx, fun hxe => he (hxe ▸ hx)⟩

/-- searching from `prev` for the items of a list that is a subsequence of what lies at and
behind `prev`: every search succeeds, at non-decreasing positions `≥ prev`. -/
theorem pv1Loop_spec (merged : List β) : ∀ (l : List β) (prev : Nat),
    l.Sublist (merged.drop prev) →
    (pv1Loop merged prev l).map (merged[·]?) = l.map some ∧
    (pv1Loop merged prev l).Pairwise (· ≤ ·) ∧ ∀ i ∈ pv1Loop merged prev l, prev ≤ i
  | [], _, _ => by simp [pv1Loop]
  | e :: rest, prev, hsub => by
      have hmem : e ∈ merged.drop prev := hsub.subset List.mem_cons_self
      have hget : merged[indexFrom merged e prev]? = some e := by
        unfold indexFrom
        rw [← List.getElem?_drop]
        exact List.getElem?_idxOf hmem
      have hrest : rest.Sublist (merged.drop (indexFrom merged e prev)) := by
        unfold indexFrom
        rw [← List.drop_drop]
        generalize merged.drop prev = D at hsub hmem
        clear hget
        induction D with
        | nil => cases hmem
        | cons d D' ih =>
            by_cases hde : d = e
            · subst hde
              rw [List.idxOf_cons_self, List.drop_zero]
              exact (List.cons_sublist_cons.mp hsub).trans (List.sublist_cons_self _ _)
            · have hne : ¬ (d == e) = true := by simpa using hde
              rw [List.idxOf_cons, cond_eq_ite, if_neg hne, List.drop_succ_cons]
              have hsub' : (e :: rest).Sublist D' := by
                cases hsub with
                | cons _ h => exact h
                | cons_cons _ h => exact absurd rfl hde
              exact ih hsub' (hsub'.subset List.mem_cons_self)
      obtain ⟨ih1, ih2, ih3⟩ := pv1Loop_spec merged rest (indexFrom merged e prev) hrest
      unfold pv1Loop
      simp only [List.map_cons, hget, ih1, List.pairwise_cons, true_and]
      refine ⟨⟨fun i hi => ih3 i hi, ih2⟩, ?_⟩
      have hle : prev ≤ indexFrom merged e prev := by unfold indexFrom; omega
      intro i hi
      rcases List.mem_cons.1 hi with rfl | hi
      · exact hle
      · exact Nat.le_trans hle (ih3 i hi)

/-- positions are distinct when the items are -/
theorem pairwise_lt_of_map {γ : Type} {R : List Nat} {l : List γ} (f : Nat → Option γ)
    (h1 : R.map f = l.map some) (h2 : R.Pairwise (· ≤ ·)) (hnd : l.Nodup) :
    R.Pairwise (· < ·) := by
  have hR : R.Nodup := by
    apply List.Nodup.of_map f
    rw [h1]
    exact hnd.map (fun a b h => Option.some.inj h)
  have := h2.and hR
  exact this.imp (by intro a b h; omega)

theorem nodupB_iff : ∀ (l : List β), nodupB l = true ↔ l.Nodup
  | [] => by simp [nodupB]
  | a :: l => by simp [nodupB, nodupB_iff l]

/-- in a list without repeats a position is determined by its item -/
theorem map_getElem?_eq_map_idxOf {m : List β} (hm : m.Nodup) : ∀ (pv : List Nat) (l : List β),
    pv.map (m[·]?) = l.map some → pv = l.map m.idxOf
  | [], [], _ => rfl
  | [], _ :: _, h => by simp at h
  | _ :: _, [], h => by simp at h
  | i :: pv, e :: l, h => by
      simp only [List.map_cons, List.cons.injEq] at h
      obtain ⟨hi, hrest⟩ := h
      obtain ⟨hlt, hget⟩ := List.getElem?_eq_some_iff.1 hi
      have : m.idxOf e = i := by
        rw [← hget]
        exact hm.idxOf_getElem i hlt
      simp [this, map_getElem?_eq_map_idxOf hm pv l hrest]

/-- `merge_lists` of two lists without repeats: the merged list has none, holds exactly the items of
both, keeps `l1` as a subsequence, and both index maps are "position of the item in the merged list" -/
theorem mergeLists_nodup (l1 l2 : List β) (h1 : l1.Nodup) (h2 : l2.Nodup) :
    (mergeLists l1 l2).1.Nodup ∧ (∀ x, x ∈ (mergeLists l1 l2).1 ↔ x ∈ l1 ∨ x ∈ l2) ∧
    l1.Sublist (mergeLists l1 l2).1 ∧
    (mergeLists l1 l2).2.1 = l1.map (mergeLists l1 l2).1.idxOf ∧
    (mergeLists l1 l2).2.2 = l2.map (mergeLists l1 l2).1.idxOf := by
  have hnd : (mergeLists l1 l2).1.Nodup := by
    unfold mergeLists
    exact foldl_mergeStep_nodup l2 (l1, []) h1 (by simpa using h2) (by simp)
  have hsub : l1.Sublist (mergeLists l1 l2).1 := by
    unfold mergeLists
    exact (foldl_mergeStep_sublist l2 (l1, [])).trans (List.sublist_append_left _ _)
  refine ⟨hnd, ?_, hsub, ?_, rfl⟩
  · intro x
    unfold mergeLists
    simp only
    rw [foldl_mergeStep_mem x l2 (l1, [])]
    simp
  · obtain ⟨h, -, -⟩ := pv1Loop_spec (mergeLists l1 l2).1 l1 0 (by simpa using hsub)
    exact map_getElem?_eq_map_idxOf hnd _ _ h

end merge

/-! ### tables read by label -/
section byLabel
variable {Lb R : Type} [DecidableEq Lb]

theorem rowAt_of_mem {labels : List Lb} {rows : List R} {l : Lb} (h : l ∈ labels) :
    rowAt labels rows l = rows[labels.idxOf l]? := by simp [rowAt, h]

theorem rowAt_of_notMem {labels : List Lb} {rows : List R} {l : Lb} (h : l ∉ labels) :
    rowAt labels rows l = none := by simp [rowAt, h]

/-- with as many rows as labels every listed label has a row -/
theorem rowAt_isSome {labels : List Lb} {rows : List R} {l : Lb} (h : l ∈ labels)
    (hlen : rows.length = labels.length) : ∃ r, rowAt labels rows l = some r := by
  rw [rowAt_of_mem h]
  have : labels.idxOf l < rows.length := by rw [hlen]; exact List.idxOf_lt_length_iff.2 h
  exact ⟨rows[labels.idxOf l], List.getElem?_eq_getElem this⟩

/-- reading by position: in a label list without repeats the row at position `p` is the row of the
label at position `p` -/
theorem rowAt_getElem {labels : List Lb} {rows : List R} (hn : labels.Nodup) (p : Nat)
    (hp : p < labels.length) : rowAt labels rows labels[p] = rows[p]? := by
  rw [rowAt_of_mem (List.getElem_mem hp), hn.idxOf_getElem p hp]

theorem rowAt_map {S : Type} (f : R → S) (labels : List Lb) (rows : List R) (l : Lb) :
    rowAt labels (rows.map f) l = (rowAt labels rows l).map f := by
  unfold rowAt
  split <;> simp

theorem rowAt_zipWith {A B C : Type} (f : A → B → C) (labels : List Lb) (as : List A) (bs : List B)
    (l : Lb) :
    rowAt labels (List.zipWith f as bs) l
      = (rowAt labels as l).bind fun a => (rowAt labels bs l).map (f a) := by
  unfold rowAt
  split
  · rw [List.getElem?_zipWith]
    cases as[labels.idxOf l]? <;> cases bs[labels.idxOf l]? <;> rfl
  · rfl

/-- `new = fill; new[pv] = old` read by label: a label the old table lists keeps its row, every
other label of the new list gets the fill row -/
theorem rowAt_expandRows (fill : R) (labels l3 : List Lb) (rows : List R) (hn : labels.Nodup)
    (hsub : ∀ x ∈ labels, x ∈ l3) (hlen : rows.length = labels.length) (x : Lb) (hx : x ∈ l3) :
    rowAt l3 (expandRows fill l3.length (labels.map l3.idxOf) rows) x
      = some ((rowAt labels rows x).getD fill) := by
  have hlt : l3.idxOf x < l3.length := List.idxOf_lt_length_iff.2 hx
  have hfst : ((labels.map l3.idxOf).zip rows).map (·.1) = labels.map l3.idxOf := by
    apply List.map_fst_zip
    simp [hlen]
  rw [rowAt_of_mem hx]
  unfold expandRows
  by_cases hxl : x ∈ labels
  · obtain ⟨r, hr⟩ := rowAt_isSome hxl hlen
    rw [hr, Option.getD_some]
    rw [rowAt_of_mem hxl] at hr
    have hi : labels.idxOf x < labels.length := List.idxOf_lt_length_iff.2 hxl
    apply foldl_set_get
    · rw [hfst]
      refine hn.map_on ?_
      intro a ha b hb hab
      exact (List.idxOf_inj (hsub a ha)).1 hab
    · rw [List.mem_iff_getElem?]
      refine ⟨labels.idxOf x, ?_⟩
      rw [List.getElem?_zip_eq_some]
      refine ⟨?_, hr⟩
      rw [List.getElem?_map, List.getElem?_eq_getElem hi]
      simp
    · simpa using hlt
  · rw [rowAt_of_notMem hxl, Option.getD_none, foldl_set_get_of_notMem]
    · simp [hlt]
    · rw [hfst]
      intro hmem
      obtain ⟨y, hy, hxy⟩ := List.mem_map.1 hmem
      exact hxl (((List.idxOf_inj (hsub y hy)).1 hxy) ▸ hy)

theorem length_expandRows (fill : R) (n : Nat) (pv : List Nat) (rows : List R) :
    (expandRows fill n pv rows).length = n := by
  unfold expandRows
  rw [foldl_set_length]
  simp

theorem mem_expandRows (fill : R) (n : Nat) (pv : List Nat) (rows : List R) (r : R)
    (h : r ∈ expandRows fill n pv rows) : r = fill ∨ r ∈ rows := by
  unfold expandRows at h
  have key : ∀ (ws : List (Nat × R)) (arr : List R),
      r ∈ ws.foldl (fun acc p => acc.set p.1 p.2) arr → r ∈ arr ∨ ∃ w ∈ ws, r = w.2 := by
    intro ws
    induction ws with
    | nil => intro arr h; exact Or.inl h
    | cons w ws ih =>
      intro arr h
      rcases ih _ h with h | ⟨w', hw', rfl⟩
      · rcases List.mem_or_eq_of_mem_set h with h | h
        · exact Or.inl h
        · exact Or.inr ⟨w, List.mem_cons_self, h⟩
      · exact Or.inr ⟨w', List.mem_cons_of_mem _ hw', rfl⟩
  rcases key _ _ h with h | ⟨w, hw, rfl⟩
  · exact Or.inl (List.eq_of_mem_replicate h)
  · exact Or.inr (List.of_mem_zip hw).2

end byLabel

/-! ### `extrema` on aligned tables, row by row -/
section rows
variable {α X Lb : Type} [LT α] [DecidableLT α]

/-- a later call seen from one row when both sides have abscissae, or neither -/
def rowSpec (j : Nat) (a : ARow α X) (m : Cur α (Option X) String) : ARow α X :=
  ⟨upd2 (some a.cur) (m.hi, m.lo), a.mx.set j m.hi.v, a.mn.set j m.lo.v, a.mxx.set j m.hi.x,
    a.mnx.set j m.lo.x⟩

/-- the row carries no abscissae (a table without `ext_x`) -/
def NoX (c : Cur α (Option X) String) : Prop := c.hi.x = none ∧ c.lo.x = none

/-- one later call seen from one row, whatever the two sides have of abscissae: it is the value-level
compare-and-replace, PROVIDED a table without `ext_x` carries NaN abscissae (`hna`, `hnm`) and the
flags `t0`, `t1` (`j.size > 0`) are set whenever this row is replaced -/
theorem step_rowwise (accX valX t0 t1 : Bool) (j : Nat) (a : ARow α X) (m : Cur α (Option X) String)
    (hna : accX = false → NoX a.cur) (hnm : valX = false → NoX m)
    (h0 : nanRepl gtB a.cur.hi.v m.hi.v = true → t0 = true)
    (h1 : nanRepl ltB a.cur.lo.v m.lo.v = true → t1 = true) :
    stepLo (accX || (valX && t0)) valX t1 (stepHi accX valX t0 (recordRow valX j a m) m) m
      = rowSpec j a m := by
  obtain ⟨⟨⟨ahv, ahx, ahl⟩, ⟨alv, alx, all⟩⟩, mx, mn, mxx, mnx⟩ := a
  obtain ⟨⟨mhv, mhx, mhl⟩, ⟨mlv, mlx, mll⟩⟩ := m
  simp only at h0 h1
  cases accX <;> cases valX
  · obtain ⟨e1, e2⟩ := hna rfl
    obtain ⟨e3, e4⟩ := hnm rfl
    simp only at e1 e2 e3 e4
    subst e1 e2 e3 e4
    cases hr0 : nanRepl gtB ahv mhv <;> cases hr1 : nanRepl ltB alv mlv <;>
      simp [stepLo, stepHi, recordRow, rowSpec, putTime, putTimeOther, upd2, Tr.upd, hr0, hr1]
  · obtain ⟨e1, e2⟩ := hna rfl
    simp only at e1 e2
    subst e1 e2
    cases hr0 : nanRepl gtB ahv mhv <;> cases hr1 : nanRepl ltB alv mlv <;> cases t0 <;> cases t1 <;>
      simp_all [stepLo, stepHi, recordRow, rowSpec, putTime, putTimeOther, upd2, Tr.upd]
  · obtain ⟨e3, e4⟩ := hnm rfl
    simp only at e3 e4
    subst e3 e4
    cases hr0 : nanRepl gtB ahv mhv <;> cases hr1 : nanRepl ltB alv mlv <;>
      simp [stepLo, stepHi, recordRow, rowSpec, putTime, putTimeOther, upd2, Tr.upd, hr0, hr1]
  · cases hr0 : nanRepl gtB ahv mhv <;> cases hr1 : nanRepl ltB alv mlv <;>
      simp [stepLo, stepHi, recordRow, rowSpec, putTime, putTimeOther, upd2, Tr.upd, hr0, hr1]

theorem zipWith_fuse {A B : Type} (f g h : A → B → A) : ∀ (as : List A) (ms : List B),
    List.zipWith h (List.zipWith g (List.zipWith f as ms) ms) ms
      = List.zipWith (fun a m => h (g (f a m) m) m) as ms
  | [], _ => by simp
  | _ :: _, [] => by simp
  | a :: as, m :: ms => by simp [zipWith_fuse f g h as ms]

theorem zipWith_congr_mem {A B C : Type} (f g : A → B → C) : ∀ (as : List A) (ms : List B),
    (∀ a ∈ as, ∀ m ∈ ms, f a m = g a m) → List.zipWith f as ms = List.zipWith g as ms
  | [], _, _ => by simp
  | _ :: _, [], _ => by simp
  | a :: as, m :: ms, h => by
      simp only [List.zipWith_cons_cons, List.cons.injEq]
      exact ⟨h a List.mem_cons_self m List.mem_cons_self,
        zipWith_congr_mem f g as ms fun a' ha m' hm =>
          h a' (List.mem_cons_of_mem _ ha) m' (List.mem_cons_of_mem _ hm)⟩

theorem zipWith_congr_zip {A B C : Type} (f g : A → B → C) : ∀ (as : List A) (ms : List B),
    (∀ p ∈ as.zip ms, f p.1 p.2 = g p.1 p.2) → List.zipWith f as ms = List.zipWith g as ms
  | [], _, _ => by simp
  | _ :: _, [], _ => by simp
  | a :: as, m :: ms, h => by
      simp only [List.zipWith_cons_cons, List.cons.injEq]
      exact ⟨h (a, m) (by simp), zipWith_congr_zip f g as ms fun p hp => h p (by simp [hp])⟩

theorem mem_zipWith {A B C : Type} (f : A → B → C) : ∀ (as : List A) (ms : List B) (c : C),
    c ∈ List.zipWith f as ms → ∃ p ∈ as.zip ms, c = f p.1 p.2
  | [], _, _, h => by simp at h
  | _ :: _, [], _, h => by simp at h
  | a :: as, m :: ms, c, h => by
      simp only [List.zipWith_cons_cons, List.mem_cons] at h
      rcases h with rfl | h
      · exact ⟨(a, m), by simp, rfl⟩
      · obtain ⟨p, hp, hc⟩ := mem_zipWith f as ms c h
        exact ⟨p, by simp [hp], hc⟩

/-- the flag `ext_x is not None` after a later call -/
def hasXAfter (a : Acc α X Lb) (valX : Bool) (ms : List (Cur α (Option X) String)) : Bool :=
  a.hasX || (valX && (a.rows.zip ms).any fun p => nanRepl gtB p.1.cur.hi.v p.2.hi.v) ||
    (valX && (a.rows.zip ms).any fun p => nanRepl ltB p.1.cur.lo.v p.2.lo.v)

/-- `extrema` on aligned tables, whatever the two sides have of abscissae (a table without `ext_x`
carrying NaN abscissae): every row is updated on its own -/
theorem extremaTbl_rowwise (j : Nat) (a : Acc α X Lb) (valX : Bool)
    (ms : List (Cur α (Option X) String))
    (hna : a.hasX = false → ∀ r ∈ a.rows, NoX r.cur) (hnm : valX = false → ∀ m ∈ ms, NoX m) :
    extremaTbl j a valX ms
      = { a with hasX := hasXAfter a valX ms, rows := List.zipWith (rowSpec j) a.rows ms } := by
  unfold extremaTbl hasXAfter
  simp only
  rw [zipWith_fuse]
  congr 1
  apply zipWith_congr_zip
  intro p hp
  have hp1 : p.1 ∈ a.rows := (List.of_mem_zip hp).1
  have hp2 : p.2 ∈ ms := (List.of_mem_zip hp).2
  exact step_rowwise a.hasX valX _ _ j p.1 p.2 (fun h => hna h p.1 hp1) (fun h => hnm h p.2 hp2)
    (fun h => List.any_eq_true.2 ⟨p, hp, h⟩) (fun h => List.any_eq_true.2 ⟨p, hp, h⟩)

theorem noX_upd2 (c m : Cur α (Option X) String) (hc : NoX c) (hm : NoX m) :
    NoX (upd2 (some c) (m.hi, m.lo)) := by
  unfold NoX upd2 Tr.upd
  simp only
  constructor
  · split
    · exact hm.1
    · exact hc.1
  · split
    · exact hm.2
    · exact hc.2

theorem noX_relabel (case : String) (u : Bool) (d : Nat) (m : Cur α (Option X) String) :
    NoX (relabel case u d m) ↔ NoX m := Iff.rfl

theorem noX_fillCur : NoX (fillCur : Cur α (Option X) String) := ⟨rfl, rfl⟩

/-- a NaN row never replaces anything -/
theorem upd2_nan (c m : Cur α (Option X) String) (h1 : m.hi.v = none) (h2 : m.lo.v = none) :
    upd2 (some c) (m.hi, m.lo) = c := by
  obtain ⟨⟨cv, cx, cl⟩, ⟨dv, dx, dl⟩⟩ := c
  obtain ⟨⟨mv, mx, ml⟩, ⟨nv, nx, nl⟩⟩ := m
  simp only at h1 h2
  subst h1 h2
  cases cv <;> cases dv <;> simp [upd2, Tr.upd, nanRepl]

end rows

/-! ### the reference by label, one more event -/
section snoc
variable {α X Lb : Type} [LT α] [DecidableLT α] [DecidableEq Lb]

theorem record_snoc {γ : Type} (n : Nat) (fill : γ) (ws : List (Nat × γ)) (w : Nat × γ) :
    record n fill (ws ++ [w]) = (record n fill ws).set w.1 w.2 := by
  simp [record, List.foldl_append]

theorem set_replicate_self {γ : Type} (n j : Nat) (a : γ) :
    (List.replicate n a).set j a = List.replicate n a := by
  apply List.ext_getElem?
  intro i
  rw [List.getElem?_set]
  split
  · rename_i h
    subst h
    split <;> simp_all
  · rfl

theorem record_all_fill {γ : Type} (n : Nat) (fill : γ) (ws : List (Nat × γ))
    (h : ∀ w ∈ ws, w.2 = fill) : record n fill ws = List.replicate n fill := by
  induction ws using List.reverseRecOn with
  | nil => rfl
  | append_singleton ws w ih =>
    rw [record_snoc, ih fun w' hw' => h w' (List.mem_append_left _ hw'),
      h w (List.mem_append_right _ List.mem_cons_self), set_replicate_self]

theorem evRow_eq_none {d : Nat} {l : Lb} {e : Ev α X Lb} (h : l ∉ e.cat.labels) :
    evRow d l e = none := by simp [evRow, rowAt_of_notMem h]

theorem rowFold_snoc (d : Nat) (l : Lb) (e0 : Ev α X Lb) (rest : List (Ev α X Lb)) (e : Ev α X Lb) :
    rowFold d l (e0 :: (rest ++ [e]))
      = match evRow d l e with
        | some m => upd2 (some (rowFold d l (e0 :: rest))) (m.hi, m.lo)
        | none => rowFold d l (e0 :: rest) := by
  simp only [rowFold, List.filterMap_append, List.foldl_append]
  cases h : evRow d l e <;> simp [h]

theorem colFold_snoc {γ : Type} (d : Nat) (l : Lb) (nc : Nat)
    (sel : Cur α (Option X) String → Option γ) (es : List (Ev α X Lb)) (e : Ev α X Lb) :
    colFold d l nc sel (es ++ [e]) = (colFold d l nc sel es).set e.j ((evRow d l e).bind sel) := by
  simp only [colFold, List.map_append, List.map_cons, List.map_nil]
  rw [record_snoc]

/-- the row of label `l` after one more event: the row so far updated with what the event holds for
`l`, or with the fill row when it does not list `l` -/
theorem specRow_snoc (d nc : Nat) (l : Lb) (e0 : Ev α X Lb) (rest : List (Ev α X Lb)) (e : Ev α X Lb) :
    specRow d nc l (e0 :: (rest ++ [e]))
      = rowSpec e.j (specRow d nc l (e0 :: rest))
          ((evRow d l e).getD (relabel e.case e.useExt d fillCur)) := by
  have happ : e0 :: (rest ++ [e]) = (e0 :: rest) ++ [e] := rfl
  unfold specRow rowSpec
  rw [rowFold_snoc]
  rw [happ, colFold_snoc, colFold_snoc, colFold_snoc, colFold_snoc]
  cases h : evRow d l e with
  | none =>
    simp only [Option.getD_none, Option.bind_none]
    rw [upd2_nan _ _ rfl rfl]
    rfl
  | some m => rfl

theorem specRow_of_notCarried (d nc : Nat) (l : Lb) (es : List (Ev α X Lb))
    (h : ∀ e ∈ es, l ∉ e.cat.labels) : specRow d nc l es = fillARow nc := by
  have hnone : ∀ e ∈ es, evRow d l e = none := fun e he => evRow_eq_none (h e he)
  have hcol : ∀ {γ : Type} (sel : Cur α (Option X) String → Option γ),
      colFold d l nc sel es = List.replicate nc none := by
    intro γ sel
    unfold colFold
    apply record_all_fill
    intro w hw
    obtain ⟨e, he, rfl⟩ := List.mem_map.1 hw
    simp [hnone e he]
  have hrow : rowFold d l es = fillCur := by
    cases es with
    | nil => rfl
    | cons e0 rest =>
      have : rest.filterMap (evRow d l) = [] := by
        rw [List.filterMap_eq_nil_iff]
        intro e he
        exact hnone e (List.mem_cons_of_mem _ he)
      simp [rowFold, this, hnone e0 List.mem_cons_self]
  unfold specRow fillARow
  rw [hrow, hcol, hcol, hcol, hcol]

theorem labelFold_snoc (acc : List Lb) (ls : List (List Lb)) (l : List Lb) :
    labelFold acc (ls ++ [l])
      = if labelFold acc ls = l then labelFold acc ls else (mergeLists (labelFold acc ls) l).1 := by
  induction ls generalizing acc with
  | nil => rfl
  | cons a ls ih =>
    simp only [List.cons_append, labelFold]
    exact ih _

end snoc

end PyYetiVerif.ExtremaLabels
