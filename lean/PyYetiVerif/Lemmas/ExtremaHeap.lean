import PyYetiVerif.Model.ExtremaHeap
import Mathlib.Data.List.Basic
/-! Helper lemmas for C16: frame reasoning for `Model/ExtremaHeap.lean` — allocation appends, and a
write at a reference at or above `n` leaves the first `n` cells alone. -/
namespace PyYetiVerif.ExtremaHeap
open PyYetiVerif.Extrema

variable {α X L : Type}

/-- the first `n` cells of each kind: the objects that existed before the accumulator was started -/
def Heap.below (n : Nat × Nat × Nat) (h : Heap α X L) : Heap α X L :=
  ⟨h.vals.take n.1, h.xs.take n.2.1, h.labs.take n.2.2⟩

def Heap.size (h : Heap α X L) : Nat × Nat × Nat := (h.vals.length, h.xs.length, h.labs.length)

theorem below_size (h : Heap α X L) : h.below h.size = h := by
  simp [Heap.below, Heap.size]

/-- the store has at least the old cells -/
def Big (n : Nat × Nat × Nat) (h : Heap α X L) : Prop :=
  n.1 ≤ h.vals.length ∧ n.2.1 ≤ h.xs.length ∧ n.2.2 ≤ h.labs.length

/-- every member of the accumulator is an object allocated after the start -/
def Owned (n : Nat × Nat × Nat) (c : CatRef) : Prop :=
  n.1 ≤ c.ext ∧ (∀ r, c.extx = some r → n.2.1 ≤ r) ∧ n.2.2 ≤ c.maxcase ∧ n.2.2 ≤ c.mincase

/-- `h'` still holds the old cells of `h` -/
def Keeps (n : Nat × Nat × Nat) (h h' : Heap α X L) : Prop := h'.below n = h.below n ∧ Big n h'

theorem Keeps.refl (n : Nat × Nat × Nat) (h : Heap α X L) (hb : Big n h) : Keeps n h h := ⟨rfl, hb⟩

theorem Keeps.trans {n : Nat × Nat × Nat} {a b c : Heap α X L} (h1 : Keeps n a b) (h2 : Keeps n b c) :
    Keeps n a c := ⟨h2.1.trans h1.1, h2.2⟩

theorem keeps_allocV (n : Nat × Nat × Nat) (h : Heap α X L) (hb : Big n h) (v : Option α × Option α) :
    Keeps n h (allocV h v).1 ∧ n.1 ≤ (allocV h v).2 := by
  obtain ⟨h1, h2, h3⟩ := hb
  refine ⟨⟨?_, ?_, h2, h3⟩, h1⟩
  · simp [Heap.below, allocV, List.take_append_of_le_length h1]
  · simp only [allocV, List.length_append, List.length_singleton]
    omega

theorem keeps_allocX (n : Nat × Nat × Nat) (h : Heap α X L) (hb : Big n h) (v : X × X) :
    Keeps n h (allocX h v).1 ∧ n.2.1 ≤ (allocX h v).2 := by
  obtain ⟨h1, h2, h3⟩ := hb
  refine ⟨⟨?_, h1, ?_, h3⟩, h2⟩
  · simp [Heap.below, allocX, List.take_append_of_le_length h2]
  · simp only [allocX, List.length_append, List.length_singleton]
    omega

theorem keeps_allocL (n : Nat × Nat × Nat) (h : Heap α X L) (hb : Big n h) (v : L) :
    Keeps n h (allocL h v).1 ∧ n.2.2 ≤ (allocL h v).2 := by
  obtain ⟨h1, h2, h3⟩ := hb
  refine ⟨⟨?_, h1, h2, ?_⟩, h3⟩
  · simp [Heap.below, allocL, List.take_append_of_le_length h3]
  · simp only [allocL, List.length_append, List.length_singleton]
    omega

theorem keeps_writeV (n : Nat × Nat × Nat) (h : Heap α X L) (hb : Big n h) (r : Nat) (hr : n.1 ≤ r)
    (v : Option α × Option α) : Keeps n h (writeV h r v) := by
  refine ⟨?_, ?_⟩
  · simp [Heap.below, writeV, List.take_set_of_le hr]
  · simpa [Big, writeV] using hb

theorem keeps_writeX (n : Nat × Nat × Nat) (h : Heap α X L) (hb : Big n h) (r : Nat) (hr : n.2.1 ≤ r)
    (v : X × X) : Keeps n h (writeX h r v) := by
  refine ⟨?_, ?_⟩
  · simp [Heap.below, writeX, List.take_set_of_le hr]
  · simpa [Big, writeX] using hb

theorem keeps_writeL (n : Nat × Nat × Nat) (h : Heap α X L) (hb : Big n h) (r : Nat) (hr : n.2.2 ≤ r)
    (v : L) : Keeps n h (writeL h r v) := by
  refine ⟨?_, ?_⟩
  · simp [Heap.below, writeL, List.take_set_of_le hr]
  · simpa [Big, writeL] using hb

theorem putTime_frame (n : Nat × Nat × Nat) (nanX : X) (h h' : Heap α X L) (c c' : CatRef)
    (mm : MmRef) (col : Nat) (hb : Big n h) (ho : Owned n c)
    (hs : putTime nanX h c mm col = some (h', c')) : Keeps n h h' ∧ Owned n c' := by
  unfold putTime at hs
  obtain ⟨o1, o2, o3, o4⟩ := ho
  split at hs
  · -- the accumulator had no abscissae: a copy is allocated
    rename_i rx hmx hcx
    cases hx : h.xs[rx]? with
    | none => simp [hx] at hs
    | some xv =>
      simp only [hx, Option.bind_eq_bind, Option.bind_some, Option.pure_def, Option.some.injEq,
        Prod.mk.injEq] at hs
      obtain ⟨rfl, rfl⟩ := hs
      obtain ⟨hk, hr⟩ := keeps_allocX n h hb (setCol (nanX, nanX) col (getCol xv col))
      exact ⟨hk, o1, fun r hr' => (by cases hr'; exact hr), o3, o4⟩
  · rename_i rx cx hmx hcx
    cases hx : h.xs[rx]? with
    | none => simp [hx] at hs
    | some xv =>
      cases hc : h.xs[cx]? with
      | none => simp [hx, hc] at hs
      | some cv =>
        simp only [hx, hc, Option.bind_eq_bind, Option.bind_some, Option.pure_def, Option.some.injEq,
          Prod.mk.injEq] at hs
        obtain ⟨rfl, rfl⟩ := hs
        exact ⟨keeps_writeX n h hb cx (o2 cx hcx) _, o1, o2, o3, o4⟩
  · rename_i cx hmx hcx
    cases hc : h.xs[cx]? with
    | none => simp [hc] at hs
    | some cv =>
      simp only [hc, Option.bind_eq_bind, Option.bind_some, Option.pure_def, Option.some.injEq,
        Prod.mk.injEq] at hs
      obtain ⟨rfl, rfl⟩ := hs
      exact ⟨keeps_writeX n h hb cx (o2 cx hcx) _, o1, o2, o3, o4⟩
  · simp only [Option.pure_def, Option.some.injEq, Prod.mk.injEq] at hs
    obtain ⟨rfl, rfl⟩ := hs
    exact ⟨Keeps.refl n h hb, o1, o2, o3, o4⟩

section step
variable [LT α] [DecidableLT α]

omit [LT α] [DecidableLT α] in
theorem updCol_frame (n : Nat × Nat × Nat) (nanX : X) (better : α → α → Bool) (h h' : Heap α X L)
    (c c' : CatRef) (mm : MmRef) (col : Nat) (lab : L) (hb : Big n h) (ho : Owned n c)
    (hs : updCol nanX better h c mm col lab = some (h', c')) : Keeps n h h' ∧ Owned n c' := by
  unfold updCol at hs
  cases hcv : h.vals[c.ext]? with
  | none => simp [hcv] at hs
  | some cv =>
    cases hmv : h.vals[mm.ext]? with
    | none => simp [hcv, hmv] at hs
    | some mv =>
      simp only [hcv, hmv, Option.bind_eq_bind, Option.bind_some] at hs
      split at hs
      · have k1 := keeps_writeL n h hb (if col == 0 then c.maxcase else c.mincase)
          (by split <;> [exact ho.2.2.1; exact ho.2.2.2]) lab
        have k2 := keeps_writeV n _ k1.2 c.ext ho.1 (setCol cv col (getCol mv col))
        obtain ⟨k3, o3⟩ := putTime_frame n nanX _ h' c c' mm col k2.2 ho hs
        exact ⟨(k1.trans k2).trans k3, o3⟩
      · simp only [Option.pure_def, Option.some.injEq, Prod.mk.injEq] at hs
        obtain ⟨rfl, rfl⟩ := hs
        exact ⟨Keeps.refl n h hb, ho⟩

omit [LT α] [DecidableLT α] in
theorem firstCall_frame (n : Nat × Nat × Nat) (h h' : Heap α X L) (c' : CatRef) (mm : MmRef)
    (lmax lmin : L) (hb : Big n h) (hs : firstCall true h mm lmax lmin = some (h', c')) :
    Keeps n h h' ∧ Owned n c' := by
  unfold firstCall at hs
  cases hmv : h.vals[mm.ext]? with
  | none => simp [hmv] at hs
  | some mv =>
    simp only [hmv] at hs
    obtain ⟨k1, r1⟩ := keeps_allocV n h hb mv
    cases hx : mm.extx with
    | none =>
      simp only [hx, Option.some.injEq, Prod.mk.injEq] at hs
      obtain ⟨rfl, rfl⟩ := hs
      obtain ⟨k2, r2⟩ := keeps_allocL n _ k1.2 lmax
      obtain ⟨k3, r3⟩ := keeps_allocL n _ k2.2 lmin
      exact ⟨(k1.trans k2).trans k3, r1, fun r hr => (by cases hr), r2, r3⟩
    | some rx =>
      simp only [hx, if_true] at hs
      cases hxv : (allocV h mv).1.xs[rx]? with
      | none => simp [hxv] at hs
      | some xv =>
        simp only [hxv, Option.some.injEq, Prod.mk.injEq] at hs
        obtain ⟨rfl, rfl⟩ := hs
        obtain ⟨k2, r2⟩ := keeps_allocX n _ k1.2 xv
        obtain ⟨k3, r3⟩ := keeps_allocL n _ k2.2 lmax
        obtain ⟨k4, r4⟩ := keeps_allocL n _ k3.2 lmin
        exact ⟨((k1.trans k2).trans k3).trans k4, r1, fun r hr => (by cases hr; exact r2), r3, r4⟩

theorem step_frame (n : Nat × Nat × Nat) (nanX : X) (h h' : Heap α X L) (cur : Option CatRef)
    (c' : CatRef) (mm : MmRef) (a : LabArg L) (b : Option (LabArg L)) (hb : Big n h)
    (ho : ∀ c, cur = some c → Owned n c)
    (hs : step true nanX h cur mm a b = some (h', c')) : Keeps n h h' ∧ Owned n c' := by
  unfold step at hs
  cases hla : readLab h a with
  | none => simp [hla] at hs
  | some lmax =>
    simp only [hla] at hs
    cases hlb : readMin h lmax b with
    | none => simp [hlb] at hs
    | some lmin =>
      simp only [hlb] at hs
      cases cur with
      | none => exact firstCall_frame n h h' c' mm lmax lmin hb hs
      | some c =>
        simp only at hs
        cases h1 : updCol nanX gtB h c mm 0 lmax with
        | none => simp [h1] at hs
        | some p =>
          obtain ⟨h1', c1⟩ := p
          simp only [h1] at hs
          obtain ⟨k1, o1⟩ := updCol_frame n nanX gtB h h1' c c1 mm 0 lmax hb (ho c rfl) h1
          obtain ⟨k2, o2⟩ := updCol_frame n nanX ltB h1' h' c1 c' mm 1 lmin k1.2 o1 hs
          exact ⟨k1.trans k2, o2⟩

theorem run_frame (n : Nat × Nat × Nat) (nanX : X) :
    ∀ (hist : List (MmRef × LabArg L × Option (LabArg L))) (h h' : Heap α X L)
      (cur cur' : Option CatRef), Big n h → (∀ c, cur = some c → Owned n c) →
      run true nanX h cur hist = some (h', cur') → Keeps n h h' ∧ ∀ c, cur' = some c → Owned n c
  | [], h, h', cur, cur', hb, ho, hs => by
    simp only [run, Option.some.injEq, Prod.mk.injEq] at hs
    obtain ⟨rfl, rfl⟩ := hs
    exact ⟨Keeps.refl n h hb, ho⟩
  | (mm, a, b) :: rest, h, h', cur, cur', hb, ho, hs => by
    simp only [run] at hs
    cases h1 : step true nanX h cur mm a b with
    | none => simp [h1] at hs
    | some p =>
      obtain ⟨h1', c1⟩ := p
      simp only [h1] at hs
      obtain ⟨k1, o1⟩ := step_frame n nanX h h1' cur c1 mm a b hb ho h1
      obtain ⟨k2, o2⟩ := run_frame n nanX rest h1' h' (some c1) cur' k1.2
        (fun c hc => by cases hc; exact o1) hs
      exact ⟨k1.trans k2, o2⟩

end step
end PyYetiVerif.ExtremaHeap
