import PyYetiVerif.Model.KFactorApi
import PyYetiVerif.Lemmas.OrderStatsApi
import Mathlib.Logic.Function.Iterate
/-!
Lemmas about the vectorised Newton loop of `_getr` (`Model/KFactorApi.lean`): the loop applies the
scalar Newton step to every element the same number of times `K`, it stops before the cap only when no
element moved by more than `tol` in the last pass, and `K` never exceeds the cap.
-/
set_option linter.unusedSectionVars false
namespace PyYetiVerif.KFactor

variable {α : Type} [Add α] [Mul α] [Sub α] [Div α] [Neg α] [One α] [Zero α] [OfNat α 2] [NatCast α]
variable [LT α] [DecidableLT α]

theorem getrLoop_spec (o : Ops α) (tol : α) (ns probs : List α) :
    ∀ (fuel loops : Nat) (r rold r' : List α) (L : Nat),
      getrLoop o tol ns probs fuel loops r rold = (r', L) →
      ∃ K, K ≤ fuel ∧ L = loops + K ∧ r' = (stepAll o ns probs)^[K] r ∧
        (K < fuel →
          (K = 0 ∧ anyMoved tol r rold = false) ∨
          (∃ K', K = K' + 1 ∧
            anyMoved tol ((stepAll o ns probs)^[K' + 1] r) ((stepAll o ns probs)^[K'] r) = false)) := by
  intro fuel
  induction fuel with
  | zero =>
    intro loops r rold r' L h
    simp only [getrLoop, Prod.mk.injEq] at h
    exact ⟨0, Nat.le_refl _, by omega, by simp [h.1], fun hlt => absurd hlt (Nat.lt_irrefl 0)⟩
  | succ fuel ih =>
    intro loops r rold r' L h
    simp only [getrLoop] at h
    by_cases hm : anyMoved tol r rold = true
    · simp only [hm, if_true] at h
      obtain ⟨K, hK, hL, hr, hstop⟩ := ih _ _ _ _ _ h
      refine ⟨K + 1, by omega, by omega, by rw [hr, Function.iterate_succ_apply], fun hlt => ?_⟩
      right
      rcases hstop (by omega) with ⟨hK0, hnm⟩ | ⟨K', hK', hnm⟩
      · subst hK0
        exact ⟨0, rfl, by simpa using hnm⟩
      · subst hK'
        refine ⟨K' + 1, rfl, ?_⟩
        simpa [Function.iterate_succ_apply] using hnm
    · simp only [hm] at h
      simp only [Bool.false_eq_true, if_false, Prod.mk.injEq] at h
      exact ⟨0, by omega, by omega, by simp [h.1], fun _ => Or.inl ⟨rfl, by simpa using hm⟩⟩

theorem zip3With_getElem? {β γ δ ε : Type} (f : β → γ → δ → ε) :
    ∀ (xs : List β) (ys : List γ) (zs : List δ) (j : Nat) (x : β) (y : γ) (z : δ),
      xs[j]? = some x → ys[j]? = some y → zs[j]? = some z →
      (zip3With f xs ys zs)[j]? = some (f x y z) := by
  intro xs
  induction xs with
  | nil => intro ys zs j x y z h; simp at h
  | cons a as ih =>
    intro ys zs j x y z hx hy hz
    cases ys with
    | nil => simp at hy
    | cons b bs =>
      cases zs with
      | nil => simp at hz
      | cons c cs =>
        cases j with
        | zero =>
          simp only [List.getElem?_cons_zero, Option.some.injEq] at hx hy hz
          subst hx hy hz
          simp [zip3With]
        | succ j =>
          simp only [List.getElem?_cons_succ] at hx hy hz
          simpa [zip3With] using ih bs cs j x y z hx hy hz

/-- after `K` passes the `j`-th element is the `K`-th scalar Newton iterate of its own starting value -/
theorem stepAll_iterate_getElem? (o : Ops α) (ns probs : List α) (j : Nat) (n p : α)
    (hn : ns[j]? = some n) (hp : probs[j]? = some p) :
    ∀ (K : Nat) (rs : List α) (r : α), rs[j]? = some r →
      ((stepAll o ns probs)^[K] rs)[j]? = some ((newtonStep o n p)^[K] r) := by
  intro K
  induction K with
  | zero => intro rs r h; simpa using h
  | succ K ih =>
    intro rs r h
    rw [Function.iterate_succ_apply, Function.iterate_succ_apply]
    exact ih _ _ (zip3With_getElem? _ _ _ _ _ _ _ _ hn hp h)

/-- `np.any(abs(r - rold) > tol)` is false exactly when no element moved by more than `tol` -/
theorem anyMoved_false (tol : α) : ∀ (xs ys : List α), anyMoved tol xs ys = false →
    ∀ (j : Nat) (x y : α), xs[j]? = some x → ys[j]? = some y → ¬ tol < absv (x - y) := by
  intro xs
  induction xs with
  | nil => intro ys _ j x y h; simp at h
  | cons a as ih =>
    intro ys h j x y hx hy
    cases ys with
    | nil => simp at hy
    | cons b bs =>
      simp only [anyMoved, Bool.or_eq_false_iff, decide_eq_false_iff_not] at h
      cases j with
      | zero =>
        simp only [List.getElem?_cons_zero, Option.some.injEq] at hx hy
        subst hx hy
        exact h.1
      | succ j =>
        simp only [List.getElem?_cons_succ] at hx hy
        exact ih bs h.2 j x y hx hy

end PyYetiVerif.KFactor
