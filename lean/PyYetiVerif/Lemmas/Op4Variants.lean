import PyYetiVerif.Model.Op4Variants
import PyYetiVerif.Lemmas.Op4
/-! Helper lemmas for C11: the column decoders generalised over the words per real. -/
namespace PyYetiVerif.Op4V
open PyYetiVerif.Op4

/-- one word per real: single precision with 32-bit keys, or any real with 64-bit keys -/
def codec1 : RealCodec where
  w := 1
  split x := [x]
  join l := l.headD 0
  split_length _ := rfl
  join_split _ := rfl
  w_pos := by decide

/-- two words per real: double precision with 32-bit keys (the `dWords`/`joinW` of Model/Op4) -/
def codec2 (e : Endian) : RealCodec where
  w := 2
  split x := dWords e x
  join l := match l with
    | [a, b] => joinW e a b
    | _ => 0
  split_length x := by cases e <;> rfl
  join_split x := by
    cases e
    · simp only [dWords, joinW, W, Nat.mod_add_div']
    · simp only [dWords, joinW, W, Nat.div_add_mod']
  w_pos := by decide

theorem takeReals_flatMap (R : RealCodec) (xs rest : List Nat) :
    takeReals R xs.length (xs.flatMap R.split ++ rest) = some (xs, rest) := by
  induction xs with
  | nil => simp [takeReals]
  | cons x t ih =>
    have hl := R.split_length x
    have h1 : ¬ ((R.split x ++ (t.flatMap R.split ++ rest)).length < R.w) := by
      simp [hl]
    have h2 : (R.split x ++ (t.flatMap R.split ++ rest)).drop R.w = t.flatMap R.split ++ rest := by
      rw [← hl]; simp
    have h3 : (R.split x ++ (t.flatMap R.split ++ rest)).take R.w = R.split x := by
      rw [← hl]; simp
    simp only [List.flatMap_cons, List.append_assoc, List.length_cons, takeReals, h1, if_false, h2, ih, h3,
      R.join_split]

theorem nwBig_cons (R : RealCodec) (s : VStr) (t : List VStr) :
    nwBig R (s :: t) = (s.2.length * R.w + 1 + 1) + nwBig R t := by
  simp [nwBig]

theorem nwNonbig_cons (R : RealCodec) (s : VStr) (t : List VStr) :
    nwNonbig R (s :: t) = (s.2.length * R.w + 1) + nwNonbig R t := by
  simp [nwNonbig]

theorem rdBigV_zero (R : RealCodec) (fuel : Nat) (ws : List Nat) : rdBigV R fuel 0 ws = some ([], ws) := by
  cases fuel <;> simp [rdBigV]

theorem rdNonbigV_zero (R : RealCodec) (fuel : Nat) (ws : List Nat) :
    rdNonbigV R fuel 0 ws = some ([], ws) := by
  cases fuel <;> simp [rdNonbigV]

theorem rdBigV_enc (R : RealCodec) (ss : List VStr) (rest : List Nat) :
    ∀ fuel, ss.length ≤ fuel →
      rdBigV R fuel (nwBig R ss) (ss.flatMap (bigWords R) ++ rest) = some (ss, rest) := by
  induction ss with
  | nil => intro fuel _; simp [nwBig, rdBigV_zero]
  | cons s t ih =>
    intro fuel hf
    cases fuel with
    | zero => simp at hf
    | succ f =>
      have ht := ih f (by simpa using hf)
      rw [nwBig_cons]
      generalize hq : s.2.length * R.w = q
      have e1 : q + 1 + 1 + nwBig R t = (q + 1 + nwBig R t) + 1 := by omega
      rw [e1]
      simp only [List.flatMap_cons, bigWords, List.cons_append, List.nil_append, List.append_assoc, hq]
      rw [rdBigV]
      have hdiv : (q + 1 - 1) / R.w = s.2.length := by
        rw [← hq, Nat.add_sub_cancel, Nat.mul_div_cancel _ R.w_pos]
      rw [hdiv, takeReals_flatMap]
      have e2 : q + 1 + nwBig R t + 1 - (q + 1 + 1) = nwBig R t := by omega
      have c1 : ¬ (q + 1 = 0 ∨ s.1 + 1 = 0 ∨ q + 1 + nwBig R t + 1 < q + 1 + 1) := by omega
      simp only [e2, ht, c1, if_false, Nat.add_sub_cancel]

theorem rdNonbigV_enc (R : RealCodec) (ss : List VStr) (rest : List Nat)
    (hrow : ∀ s ∈ ss, s.1 + 1 < 65536) :
    ∀ fuel, ss.length ≤ fuel →
      rdNonbigV R fuel (nwNonbig R ss) (ss.flatMap (nonbigWords R) ++ rest) = some (ss, rest) := by
  induction ss with
  | nil => intro fuel _; simp [nwNonbig, rdNonbigV_zero]
  | cons s t ih =>
    intro fuel hf
    cases fuel with
    | zero => simp at hf
    | succ f =>
      have hs : s.1 + 1 < 65536 := hrow s (List.mem_cons_self)
      have ht := ih (fun x hx => hrow x (List.mem_cons_of_mem _ hx)) f (by simpa using hf)
      rw [nwNonbig_cons]
      generalize hq : s.2.length * R.w = q
      have e1 : q + 1 + nwNonbig R t = (q + nwNonbig R t) + 1 := by omega
      rw [e1]
      simp only [List.flatMap_cons, nonbigWords, List.cons_append, List.append_assoc, hq]
      rw [rdNonbigV]
      have hd : (s.1 + 1 + (q + 1) * 65536) / 65536 = q + 1 := by omega
      simp only [hd, Nat.add_sub_cancel]
      have hdiv : q / R.w = s.2.length := by
        rw [← hq, Nat.mul_div_cancel _ R.w_pos]
      rw [hdiv, takeReals_flatMap]
      have e2 : q + nwNonbig R t + 1 - (q + 1) = nwNonbig R t := by omega
      have c1 : ¬ (q + 1 = 0 ∨ s.1 + 1 = 0 ∨ q + nwNonbig R t + 1 < q + 1) := by omega
      simp only [e2, ht, c1, if_false, Nat.add_sub_cancel]

/-! ### putting strings into a column of reals -/

theorem getElem?_spliceN (X ys : List Nat) (r : Nat) (h : r + ys.length ≤ X.length) (i : Nat) :
    (X.take r ++ ys ++ X.drop (r + ys.length))[i]?
      = if i < r then X[i]? else if i < r + ys.length then ys[i - r]? else X[i]? := by
  have hr : (X.take r).length = r := by simp; omega
  by_cases h1 : i < r
  · simp only [h1, if_true]
    rw [List.append_assoc, List.getElem?_append_left (by omega)]
    simp [List.getElem?_take, h1]
  · simp only [h1, if_false]
    rw [List.append_assoc, List.getElem?_append_right (by omega), hr]
    by_cases h2 : i < r + ys.length
    · simp only [h2, if_true]
      rw [List.getElem?_append_left (by omega)]
    · simp only [h2, if_false]
      rw [List.getElem?_append_right (by omega), List.getElem?_drop]
      congr 1; omega

theorem putReals_spec' (target : List Nat) :
    ∀ (runs : List VStr) (X : List Nat), X.length = target.length →
      (∀ p ∈ runs, p.1 + p.2.length ≤ target.length ∧ ∀ k, k < p.2.length → p.2[k]? = target[p.1 + k]?) →
      (∀ i, i < target.length → (∀ p ∈ runs, ¬ (p.1 ≤ i ∧ i < p.1 + p.2.length)) → X[i]? = target[i]?) →
      putReals X runs = some target := by
  intro runs
  induction runs with
  | nil =>
    intro X hlen _ hX
    simp only [putReals, Option.some.injEq]
    apply List.ext_getElem?
    intro i
    by_cases hi : i < target.length
    · exact hX i hi (by simp)
    · rw [List.getElem?_eq_none (by omega), List.getElem?_eq_none (by omega)]
  | cons p t ih =>
    intro X hlen hruns hX
    obtain ⟨hp1, hp2⟩ := hruns p (List.mem_cons_self)
    have hin : p.1 + p.2.length ≤ X.length := by omega
    simp only [putReals, hin, if_true]
    apply ih
    · simp; omega
    · intro q hq; exact hruns q (List.mem_cons_of_mem _ hq)
    · intro i hi hnot
      rw [getElem?_spliceN X p.2 p.1 hin i]
      by_cases h1 : i < p.1
      · simp only [h1, if_true]
        apply hX i hi
        intro q hq
        rcases List.mem_cons.1 hq with rfl | hq
        · omega
        · exact hnot q hq
      · simp only [h1, if_false]
        by_cases h2 : i < p.1 + p.2.length
        · simp only [h2, if_true]
          rw [hp2 (i - p.1) (by omega)]
          congr 1; omega
        · simp only [h2, if_false]
          apply hX i hi
          intro q hq
          rcases List.mem_cons.1 hq with rfl | hq
          · omega
          · exact hnot q hq

/-- `ss` is a way of cutting the column `col` into strings: every string is a slice of the column
and every entry that is not `+0.0` lies in some string (zeros may be stored or left out, strings
may touch or overlap) -/
def IsPartition (col : List Nat) (ss : List VStr) : Prop :=
  (∀ s ∈ ss, s.1 + s.2.length ≤ col.length ∧ ∀ k, k < s.2.length → s.2[k]? = col[s.1 + k]?) ∧
    ∀ i x, col[i]? = some x → x ≠ 0 → ∃ s ∈ ss, s.1 ≤ i ∧ i < s.1 + s.2.length

theorem putReals_partition (col : List Nat) (ss : List VStr) (h : IsPartition col ss) :
    putReals (List.replicate col.length 0) ss = some col := by
  apply putReals_spec'
  · simp
  · exact h.1
  · intro i hi hnot
    rw [List.getElem?_replicate, if_pos hi]
    have hx : col[i]? = some col[i] := List.getElem?_eq_getElem hi
    rw [hx]
    by_cases hz : col[i] = 0
    · rw [hz]
    · exfalso
      obtain ⟨s, hs, h1, h2⟩ := h.2 i col[i] hx hz
      exact hnot s hs ⟨h1, h2⟩

end PyYetiVerif.Op4V
