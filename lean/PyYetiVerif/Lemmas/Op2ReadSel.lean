import PyYetiVerif.Model.Op2ReadForms
import PyYetiVerif.Lemmas.Op2ReadFile
/-! C11: `rdop2mats(names, which)` of Model/Op2ReadForms.lean: the name test, named subset = filter of the full
read, which occurrence of a repeated name is returned. -/
namespace PyYetiVerif.Op2RF
open PyYetiVerif.Op4 (Endian)
open PyYetiVerif.Op2
open PyYetiVerif.Op2R

/-- the name test of `_has_match` for one non-empty pattern, as a Boolean: prefix match when the upper-cased
pattern ends in `*`, equality with the upper-cased pattern otherwise -/
def matchB (name patt : List Nat) : Bool :=
  let p := patt.map upperB
  if p.getLast? = some 42 then p.dropLast.isPrefixOf name else name == p

theorem matchPat_pure (name patt : List Nat) (h : patt ≠ []) : matchPat name patt = .ok (matchB name patt) := by
  unfold matchPat matchB
  have hne : patt.map upperB ≠ [] := by simpa using h
  cases hg : (patt.map upperB).getLast? with
  | none => exact absurd (List.getLast?_eq_none_iff.1 hg) hne
  | some c =>
    simp only [hg, Option.some.injEq]
    by_cases hc : c = 42
    · simp only [hc, if_true]
    · simp only [hc, if_false]

theorem hasMatch_pure (name : List Nat) : ∀ (pats : List (List Nat)), (∀ p ∈ pats, p ≠ []) →
    hasMatch name pats = .ok (pats.any (matchB name)) := by
  intro pats
  induction pats with
  | nil => intro _; rfl
  | cons p t ih =>
    intro h
    rw [hasMatch, matchPat_pure name p (h p List.mem_cons_self)]
    cases hm : matchB name p with
    | true => simp [hm]
    | false =>
      simp only [List.any_cons, hm, Bool.false_or]
      exact ih (fun q hq => h q (List.mem_cons_of_mem _ hq))

theorem filterM'_pure {α} (p : α → M Bool) (q : α → Bool) : ∀ (l : List α), (∀ a ∈ l, p a = .ok (q a)) →
    filterM' p l = .ok (l.filter q) := by
  intro l
  induction l with
  | nil => intro _; rfl
  | cons a t ih =>
    intro h
    rw [filterM', h a List.mem_cons_self, ih (fun x hx => h x (List.mem_cons_of_mem _ hx))]
    cases hq : q a <;> simp [List.filter_cons, hq]

/-- `_get_unique` commutes with a filter on the names -/
theorem getUnique_filter (P : List Nat → Bool) : ∀ (l seen seen' : List (List Nat)),
    (∀ n, P n = true → (seen.contains n = seen'.contains n)) →
    getUnique seen (l.filter P) = (getUnique seen' l).filter P := by
  intro l
  induction l with
  | nil => intro _ _ _; rfl
  | cons a t ih =>
    intro seen seen' h
    cases hP : P a with
    | false =>
      rw [List.filter_cons_of_neg (by simp [hP])]
      simp only [getUnique]
      split
      · exact ih seen seen' h
      · rw [List.filter_cons_of_neg (by simp [hP])]
        apply ih
        intro n hn
        rw [h n hn]
        have : n ≠ a := by intro e; rw [e, hP] at hn; cases hn
        simp [List.contains_cons, this]
    | true =>
      rw [List.filter_cons_of_pos (by simp [hP])]
      simp only [getUnique]
      rw [h a hP]
      split
      · exact ih seen seen' h
      · rw [List.filter_cons_of_pos (by simp [hP])]
        congr 1
        apply ih
        intro n hn
        simp only [List.contains_cons]
        rw [h n hn]

theorem mapME_filter {α β} (g : α → M β) (P : α → Bool) (fst : β → α) : ∀ (l : List α) (L : List β),
    mapME g l = .ok L → (∀ a b, g a = .ok b → fst b = a) → mapME g (l.filter P) = .ok (L.filter (fun b => P (fst b))) := by
  intro l
  induction l with
  | nil =>
    intro L h _
    simp only [mapME, Except.ok.injEq] at h
    subst h; rfl
  | cons a t ih =>
    intro L h hf
    rw [mapME] at h
    cases hg : g a with
    | error e => rw [hg] at h; cases h
    | ok b =>
      rw [hg] at h
      simp only at h
      cases ht : mapME g t with
      | error e => rw [ht] at h; cases h
      | ok bs =>
        rw [ht] at h
        simp only [Except.ok.injEq] at h
        subst h
        have hb := hf a b hg
        have hrec := ih bs ht hf
        cases hP : P a with
        | false =>
          rw [List.filter_cons_of_neg (by simp [hP]), List.filter_cons_of_neg (by simp [hb, hP])]
          exact hrec
        | true =>
          rw [List.filter_cons_of_pos (by simp [hP]), List.filter_cons_of_pos (by simp [hb, hP])]
          rw [mapME, hg, hrec]

/-- **named subset = filter** for `rdop2mats`: whenever the call without names returns `L`, the call with a
non-empty list of non-empty patterns returns exactly the entries of `L` whose name passes `_has_match`, in the
same order, with the same occurrence(s) of every name -/
theorem rdMatsSel_named (v : V2) (f : List Nat) (dir : List Entry) (w : Which) (pats : List (List Nat))
    (hne : pats ≠ []) (hp : ∀ p ∈ pats, p ≠ []) (L : List (List Nat × List Mat))
    (h : rdMatsSel v f dir none w = .ok L) :
    rdMatsSel v f dir (some pats) w = .ok (L.filter fun x => pats.any (matchB x.1)) := by
  unfold rdMatsSel at h ⊢
  cases pats with
  | nil => exact absurd rfl hne
  | cons p0 pt =>
    simp only
    rw [filterM'_pure (fun n => hasMatch n (p0 :: pt)) (fun n => (p0 :: pt).any (matchB n)) _
      (fun n _ => hasMatch_pure n (p0 :: pt) hp)]
    simp only
    rw [getUnique_filter (fun n => (p0 :: pt).any (matchB n)) _ [] [] (fun _ _ => rfl)]
    apply mapME_filter _ _ (fun b => b.1) _ L h
    intro a b hab
    split at hab
    · cases hab
    · split at hab
      · cases hab
      · simp only [Except.ok.injEq] at hab
        rw [← hab]

/-! ### `which`: Python indexing of the occurrences -/

theorem pick_map {α β} (g : α → β) (w : Which) (l : List α) :
    pick w (l.map g) = (match pick w l with | .error e => .error e | .ok xs => .ok (xs.map g)) := by
  cases w with
  | all => rfl
  | idx i =>
    simp only [pick, List.length_map, List.getElem?_map]
    by_cases hj : (if i < 0 then i + (l.length : Int) else i) < 0
    · simp only [hj, if_true]
    · simp only [hj, if_false]
      cases l[(if i < 0 then i + (l.length : Int) else i).toNat]? <;> rfl

theorem mapME_congr {α β} (f g : α → M β) : ∀ (l : List α), (∀ a ∈ l, f a = g a) → mapME f l = mapME g l := by
  intro l
  induction l with
  | nil => intro _; rfl
  | cons a t ih =>
    intro h
    rw [mapME, mapME, h a List.mem_cons_self, ih (fun x hx => h x (List.mem_cons_of_mem _ hx))]

theorem mapME_map_ok {α β} (F : α → M β) (g : α → β) : ∀ (l : List α), (∀ a ∈ l, F a = .ok (g a)) →
    mapME F l = .ok (l.map g) := by
  intro l
  induction l with
  | nil => intro _; rfl
  | cons a t ih =>
    intro h
    rw [mapME, h a List.mem_cons_self, ih (fun x hx => h x (List.mem_cons_of_mem _ hx))]
    rfl

theorem pick_mem {α} (w : Which) (l xs : List α) (h : pick w l = .ok xs) : ∀ x ∈ xs, x ∈ l := by
  cases w with
  | all => simp only [pick, Except.ok.injEq] at h; subst h; exact fun x hx => hx
  | idx i =>
    simp only [pick] at h
    by_cases hj : (if i < 0 then i + (l.length : Int) else i) < 0
    · rw [if_pos hj] at h; cases h
    · rw [if_neg hj] at h
      cases hx : l[(if i < 0 then i + (l.length : Int) else i).toNat]? with
      | none => rw [hx] at h; cases h
      | some x =>
        rw [hx] at h
        simp only [Except.ok.injEq] at h
        subst h
        intro y hy
        simp only [List.mem_cons, List.not_mem_nil, or_false] at hy
        subst hy
        exact List.mem_of_getElem? hx

/-- what `rdop2mats(which=w)` has to return on an encoded file: the distinct matrix names in order of first
appearance, each with the matrices of the blocks `w` picks (Python indexing: `0` the first, `-1` the last,
`"all"` every one) among the blocks of that name, in file order -/
def whichMats (v : V2) (bs : List Block) (w : Which) : M (List (List Nat × List Mat)) :=
  mapME (fun n =>
    match pick w ((matBlocks bs).filter fun m => vname m == n) with
    | .error e => .error e
    | .ok ms => .ok (n, ms.map (matOf v))) (getUnique [] ((matBlocks bs).map vname))

theorem rdMatsSel_enc (v : V2) (date : List Int) (label : List Nat) (bs : List Block)
    (hb : ∀ b ∈ bs, BlockOk v b) (hc : ∀ b ∈ bs, ContentOk v b) (w : Which) :
    rdMatsSel v (encOp2 v date label bs) (entriesFrom v (header v date label).length bs) none w = whichMats v bs w := by
  unfold rdMatsSel whichMats
  simp only [filter_entries]
  have hnames : ((matPos v (header v date label).length bs).map (toE v)).map (fun x => x.name)
      = (matBlocks bs).map vname := by
    rw [← matPos_fst v bs (header v date label).length, List.map_map, List.map_map]
    rfl
  rw [hnames]
  apply mapME_congr
  intro n _
  have hfil : ((matPos v (header v date label).length bs).map (toE v)).filter (fun x => x.name == n)
      = ((matPos v (header v date label).length bs).filter (fun t => vname t.1 == n)).map (toE v) := by
    rw [List.filter_map]; rfl
  have hfil2 : (matBlocks bs).filter (fun m => vname m == n)
      = ((matPos v (header v date label).length bs).filter (fun t => vname t.1 == n)).map (·.1) := by
    rw [← matPos_fst v bs (header v date label).length, List.filter_map]; rfl
  rw [hfil, hfil2, pick_map, pick_map]
  cases hpk : pick w ((matPos v (header v date label).length bs).filter (fun t => vname t.1 == n)) with
  | error e => rfl
  | ok ts =>
    simp only
    have hmem : ∀ t ∈ ts, t ∈ matPos v (header v date label).length bs :=
      fun t ht => (List.mem_filter.1 (pick_mem w _ ts hpk t ht)).1
    have hm : mapME (rdMat v (encOp2 v date label bs)) (ts.map (toE v)) = .ok (ts.map fun t => matOf v t.1) := by
      have := mapME_map_ok (fun t => rdMat v (encOp2 v date label bs) (toE v t)) (fun t => matOf v t.1) ts
        (fun t ht => rdMat_enc v date label bs hb hc t (hmem t ht))
      rw [← this]
      clear this hmem hpk
      induction ts with
      | nil => rfl
      | cons a t ih => simp only [List.map_cons, mapME, ih]
    rw [hm]
    simp only [List.map_map]
    rfl

end PyYetiVerif.Op2RF
