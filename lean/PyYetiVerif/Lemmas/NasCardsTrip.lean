import PyYetiVerif.Lemmas.NasCardsRead
import PyYetiVerif.Lemmas.NasCardsWrite
/-! C12 cards: `rdcards (wtcard8 fields)` for multi-line small-field cards — chunks of 8 fields,
the text as lines, the reader on those lines, and `glue_dtb`: up to trailing blanks the reader
returns the fields. -/
set_option linter.unusedSimpArgs false
set_option linter.unusedVariables false
namespace PyYetiVerif.NasCards
open PyYetiVerif.PyFloat PyYetiVerif.NasFloat

/-! ### chunks -/

theorem chunksAux_props (per : Nat) (hper : 1 ≤ per) (fuel : Nat) (fs : List Str) (hfuel : fs.length ≤ fuel) :
    (chunksAux per fuel fs).flatten = fs ∧
    ∀ c ∈ chunksAux per fuel fs, c.length ≤ per ∧ ∀ f ∈ c, f ∈ fs := by
  induction fuel generalizing fs with
  | zero =>
    have : fs = [] := List.length_eq_zero_iff.1 (by omega)
    subst this
    simp [chunksAux]
  | succ fuel ih =>
    by_cases hlen : fs.length ≤ per
    · rw [chunksAux_le _ _ _ hlen]
      simp [hlen]
    · rw [chunksAux_gt _ _ _ hlen]
      obtain ⟨h1, h2⟩ := ih (fs.drop per) (by simp; omega)
      constructor
      · simp only [List.flatten_cons, h1, List.take_append_drop]
      · intro c hc
        rcases List.mem_cons.1 hc with rfl | hc
        · exact ⟨by simp, fun f hf => List.mem_of_mem_take hf⟩
        · obtain ⟨h3, h4⟩ := h2 c hc
          exact ⟨h3, fun f hf => List.mem_of_mem_drop (h4 f hf)⟩

/-- every chunk but the last is full -/
def fullButLast (per : Nat) : List (List Str) → Prop
  | [] => True
  | [_] => True
  | c :: c' :: cs => c.length = per ∧ fullButLast per (c' :: cs)

theorem chunksAux_full (per fuel : Nat) (fs : List Str) : fullButLast per (chunksAux per fuel fs) := by
  induction fuel generalizing fs with
  | zero => simp [chunksAux, fullButLast]
  | succ fuel ih =>
    by_cases hlen : fs.length ≤ per
    · rw [chunksAux_le _ _ _ hlen]; simp [fullButLast]
    · rw [chunksAux_gt _ _ _ hlen]
      have := ih (fs.drop per)
      obtain ⟨c', cs, hc⟩ : ∃ c' cs, chunksAux per fuel (fs.drop per) = c' :: cs := by
        cases h : chunksAux per fuel (fs.drop per) with
        | nil => exact absurd h (chunksAux_map_len _ _ _)
        | cons a b => exact ⟨a, b, rfl⟩
      rw [hc] at this ⊢
      exact ⟨by simp; omega, this⟩


/-! ### small-field cards -/

/-- a formatted field as the card theorems need it: exact width, blanks the only white space, no
comment character and no comma -/
def CardField (n : Nat) (f : Str) : Prop := FieldOK n f ∧ ∀ c ∈ f, c ≠ ','

theorem field_no_newline (n : Nat) (f : Str) (h : FieldOK n f) : ∀ c ∈ f, c ≠ '\n' := by
  intro c hc heq
  have := h.2.1 c hc (by rw [heq]; decide)
  rw [heq] at this
  exact absurd this (by decide)

theorem ljust_name_chars (name : Str) (hname : NameOK name) :
    ∀ c ∈ ljust 8 name, c ≠ '\n' ∧ c ≠ ',' ∧ c ≠ '$' := by
  obtain ⟨_, _, hch⟩ := hname
  intro c hc
  simp only [ljust, List.mem_append] at hc
  rcases hc with h | h
  · obtain ⟨h1, h2, h3⟩ := hch c h
    refine ⟨?_, h3, h2⟩
    rintro rfl; exact absurd h1 (by decide)
  · rw [List.eq_of_mem_replicate h]; decide

theorem cont8_chars : ∀ c ∈ "+       ".toList, c ≠ '\n' ∧ c ≠ ',' ∧ c ≠ '$' := by decide

/-- **`rdcards (wtcard8 fields)`** — multi-line small-field cards: any number of fields, `+`
continuation lines, blank fields anywhere.  The reader returns one card: the name (if kept) and
the values of the physical lines glued with blank padding, the trailing blank fields of the last
line dropped. -/
theorem wtcard8_rdcards (name : Str) (toks : List Tok) (keep : Bool) (hname : NameOK name)
    (hstar : ∀ c ∈ name, c ≠ '*') (hf : ∀ t ∈ toks, CardField 8 (enc 8 formatFloat8 t)) :
    ∃ text, wtcard8 name toks = some text ∧
      rdcards name keep text = [(if keep then [NasVal.str name] else []) ++
        glue 8 ((chunks 8 (toks.map (enc 8 formatFloat8))).map
          fun c => (dropEnd isBlankField c).map cardVal)] := by
  obtain ⟨c0, cs, hchunks, hbody⟩ := bodyGen8_first formatFloat8 toks
  have hlen8 : ¬ name.length > 8 := by have := hname.2.1; omega
  generalize hfs : toks.map (enc 8 formatFloat8) = fs at hchunks
  have hfsok : ∀ f ∈ fs, CardField 8 f := by
    intro f hf'
    rw [← hfs] at hf'
    obtain ⟨t, ht, rfl⟩ := List.mem_map.1 hf'
    exact hf t ht
  obtain ⟨hflat, hcprops⟩ := chunksAux_props 8 (by norm_num) fs.length fs (le_refl _)
  have hcp : ∀ c ∈ c0 :: cs, c.length ≤ 8 ∧ ∀ f ∈ c, CardField 8 f := by
    intro c hc
    have := hcprops c (by unfold chunks at hchunks; rw [hchunks]; exact hc)
    exact ⟨this.1, fun f hf' => hfsok f (this.2 f hf')⟩
  -- the text
  refine ⟨ljust 8 name ++ c0.flatten ++
      ((cs.map fun c => "+       ".toList ++ c.flatten).map fun l => '\n' :: l).flatten ++ ['\n'], ?_, ?_⟩
  · unfold wtcard8
    simp only [hlen8, if_false, body8_eq, hbody, restText8]
    congr 1
    simp [List.map_map, Function.comp_def]
  · -- lines of the file
    have hl0 : ∀ c ∈ ljust 8 name ++ c0.flatten, c ≠ '\n' := by
      intro c hc
      rcases List.mem_append.1 hc with h | h
      · exact (ljust_name_chars name hname c h).1
      · obtain ⟨f, hf', hcf⟩ := List.mem_flatten.1 h
        exact field_no_newline 8 f ((hcp c0 List.mem_cons_self).2 f hf').1 c hcf
    have hls : ∀ l ∈ cs.map (fun c => "+       ".toList ++ c.flatten), ∀ c ∈ l, c ≠ '\n' := by
      intro l hl c hc
      obtain ⟨ch, hch, rfl⟩ := List.mem_map.1 hl
      rcases List.mem_append.1 hc with h | h
      · exact (cont8_chars c h).1
      · obtain ⟨f, hf', hcf⟩ := List.mem_flatten.1 h
        exact field_no_newline 8 f ((hcp ch (List.mem_cons_of_mem _ hch)).2 f hf').1 c hcf
    have hlines := fileLines_lines (ljust 8 name ++ c0.flatten) _ hl0 hls
    apply rdcards_single name keep _ _ _ hlines
    · have e : ljust 8 name ++ c0.flatten ++ ['\n'] =
          name ++ (List.replicate (8 - name.length) ' ' ++ c0.flatten ++ ['\n']) := by simp [ljust]
      rw [e]; exact lower_prefix _ _
    · -- rdOne
      have hcomma : (ljust 8 name ++ c0.flatten ++ ['\n']).contains ',' = false := by
        rw [List.contains_eq_mem]
        simp only [decide_eq_false_iff_not, List.mem_append, List.mem_singleton]
        rintro ((h | h) | h)
        · exact (ljust_name_chars name hname _ h).2.1 rfl
        · obtain ⟨f, hf', hcf⟩ := List.mem_flatten.1 h
          exact ((hcp c0 List.mem_cons_self).2 f hf').2 _ hcf rfl
        · exact absurd h (by decide)
      obtain ⟨w', htake, hw', hw'd⟩ := take72_newline (ljust 8 name ++ c0.flatten) (by
        have h1 : (ljust 8 name).length = 8 := by simp [ljust]; have := hname.2.1; omega
        have h2 := flatten_length_eq 8 c0 (fun f hf' => ((hcp c0 List.mem_cons_self).2 f hf').1.1)
        have h3 := (hcp c0 List.mem_cons_self).1
        simp only [List.length_append, h1, h2]; omega)
      obtain ⟨j, hj⟩ := name_line_take8 name hname c0.flatten
      have hs1 : rstripWs ((ljust 8 name ++ c0.flatten ++ ['\n']).take 72) =
          rstripWs (ljust 8 name ++ c0.flatten) := by
        rw [htake]; exact rstripBy_append_allp isWs _ w' hw'
      have hstar8 : ((rstripWs ((ljust 8 name ++ c0.flatten ++ ['\n']).take 72)).take 8).contains '*' = false := by
        rw [hs1, hj, List.contains_eq_mem]
        simp only [decide_eq_false_iff_not, List.mem_append]
        rintro (h | h)
        · exact hstar _ h rfl
        · have := List.eq_of_mem_replicate h
          exact absurd this (by decide)
      unfold rdOne
      simp only [hcomma, Bool.false_eq_true, if_false, hstar8]
      have hcont : ∀ l ∈ (cs.map fun c => "+       ".toList ++ c.flatten).map (· ++ ['\n']),
          isCont [' ', '+'] l = true := by
        intro l hl
        simp only [List.map_map, List.mem_map, Function.comp_apply] at hl
        obtain ⟨ch, _, rfl⟩ := hl
        rfl
      rw [rdfixed_card 8 (by norm_num) [' ', '+'] keep name hname c0
        (fun f hf' => ((hcp c0 List.mem_cons_self).2 f hf').1)
        (by have := (hcp c0 List.mem_cons_self).1; omega) ['\n'] w' hw' htake _ hcont]
      simp only [List.length_map, Prod.mk.injEq, and_true]
      congr 2
      unfold chunks at hchunks ⊢
      rw [hchunks]
      simp only [Nat.lt_irrefl, if_false, List.map_cons, List.map_map, List.cons.injEq, true_and]
      apply List.map_congr_left
      intro ch hch
      simp only [Function.comp_apply]
      obtain ⟨w2, htake2, hw2, hw2d⟩ := take72_newline ("+       ".toList ++ ch.flatten) (by
        have h2 := flatten_length_eq 8 ch (fun f hf' => ((hcp ch (List.mem_cons_of_mem _ hch)).2 f hf').1.1)
        have h3 := (hcp ch (List.mem_cons_of_mem _ hch)).1
        simp only [List.length_append, h2]
        have : "+       ".toList.length = 8 := rfl
        omega)
      exact lineVals_layout 8 (by norm_num) "+       ".toList rfl (fun c hc => (cont8_chars c hc).2.2) ch
        (fun f hf' => ((hcp ch (List.mem_cons_of_mem _ hch)).2 f hf').1)
        (by have := (hcp ch (List.mem_cons_of_mem _ hch)).1; omega) ['\n'] w2 hw2 hw2d htake2


/-! ### up to trailing blanks: the fields themselves -/

def blankV : NasVal := NasVal.str []

/-- drop the trailing blank values -/
def dtb (vs : List NasVal) : List NasVal := dropEnd (· == blankV) vs

theorem dropEnd_map {α β : Type} (p : α → Bool) (q : β → Bool) (g : α → β) (l : List α)
    (h : ∀ a ∈ l, q (g a) = p a) : dropEnd q (l.map g) = (dropEnd p l).map g := by
  unfold dropEnd
  rw [← List.map_reverse]
  have : ∀ w : List α, (∀ a ∈ w, q (g a) = p a) → (w.map g).dropWhile q = (w.dropWhile p).map g := by
    intro w hw
    induction w with
    | nil => rfl
    | cons a w ih =>
      have ha := hw a List.mem_cons_self
      simp only [List.map_cons, List.dropWhile, ha]
      cases p a
      · rfl
      · exact ih (fun b hb => hw b (List.mem_cons_of_mem _ hb))
  rw [this _ (fun a ha => h a (List.mem_reverse.1 ha)), List.map_reverse]

theorem nasSscanf_cases (s : Str) (hne : stripWs s ≠ []) :
    (∃ n, nasSscanf s true = .int n) ∨ (∃ b, nasSscanf s true = .flt b) ∨
      nasSscanf s true = .str (stripWs s) := by
  have hemp : (stripWs s).isEmpty = false := by
    cases hs : stripWs s with
    | nil => exact absurd hs hne
    | cons a t => rfl
  unfold nasSscanf
  cases h1 : parseInt? s with
  | some n => exact Or.inl ⟨n, rfl⟩
  | none =>
    cases h2 : parseFloat? s with
    | some b => exact Or.inr (Or.inl ⟨b, rfl⟩)
    | none =>
      simp only [hemp, Bool.false_eq_true, if_false]
      cases h3 : parseFloat? (replace ['d'] ['e'] (lower (stripWs s))) with
      | some b => exact Or.inr (Or.inl ⟨b, rfl⟩)
      | none =>
        simp only
        cases h4 : parseFloat? ((replace ['d'] ['e'] (lower (stripWs s))).take 1 ++
            replace ['-'] ['e', '-'] (replace ['+'] ['e', '+']
              ((replace ['d'] ['e'] (lower (stripWs s))).drop 1))) with
        | some b => exact Or.inr (Or.inl ⟨b, rfl⟩)
        | none => exact Or.inr (Or.inr (by simp))

theorem cardVal_ne_blank (f : Str) (h : stripWs f ≠ []) : cardVal f ≠ blankV := by
  unfold cardVal blankV
  rcases nasSscanf_cases f h with ⟨n, hn⟩ | ⟨b, hb⟩ | hs
  · rw [hn]; exact fun hc => NasVal.noConfusion hc
  · rw [hb]; exact fun hc => NasVal.noConfusion hc
  · rw [hs]
    intro hc
    injection hc with hc
    exact h hc

theorem cardVal_blank_iff (n : Nat) (f : Str) (hok : FieldOK n f) :
    (cardVal f == blankV) = isBlankField f := by
  cases hb : isBlankField f with
  | true =>
    have : f = List.replicate f.length ' ' := by
      apply List.eq_replicate_iff.2
      refine ⟨rfl, ?_⟩
      intro c hc
      simp only [isBlankField, List.all_eq_true, beq_iff_eq] at hb
      exact hb c hc
    rw [this, cardVal_blank]; rfl
  | false =>
    obtain ⟨x, hx, hxws⟩ := nonblank_mem n f hok hb
    have hne : stripWs f ≠ [] := by
      intro hnil
      -- a non-blank character survives stripping
      have h1 : ∃ y ∈ f, isWs y = false := ⟨x, hx, hxws⟩
      unfold stripWs stripBy at hnil
      have h2 : ∃ y ∈ lstripBy isWs f, isWs y = false := by
        unfold lstripBy
        have : ∀ w : Str, (∃ y ∈ w, isWs y = false) → ∃ y ∈ w.dropWhile isWs, isWs y = false := by
          intro w hw
          induction w with
          | nil => simp at hw
          | cons a w ih =>
            by_cases ha : isWs a = true
            · simp only [List.dropWhile, ha]
              obtain ⟨y, hy, hyw⟩ := hw
              rcases List.mem_cons.1 hy with rfl | hy
              · rw [ha] at hyw; exact absurd hyw (by decide)
              · exact ih ⟨y, hy, hyw⟩
            · simp only [List.dropWhile, ha]
              exact ⟨a, List.mem_cons_self, by simpa using ha⟩
        exact this f h1
      obtain ⟨y, hy, hyw⟩ := h2
      obtain ⟨z, hz, hzall, _⟩ := rstripBy_split isWs (lstripBy isWs f)
      rw [hnil, List.nil_append] at hz
      have := hzall y (by rw [← hz]; exact hy)
      rw [this] at hyw; exact absurd hyw (by decide)
    have := cardVal_ne_blank f hne
    simp [this]


theorem dtb_split (v : List NasVal) : ∃ k, v = dtb v ++ List.replicate k blankV := by
  obtain ⟨z, hz, hzall, _⟩ := dropEnd_split (· == blankV) v
  refine ⟨z.length, ?_⟩
  have : z = List.replicate z.length blankV := by
    apply List.eq_replicate_iff.2
    exact ⟨rfl, fun c hc => by simpa using hzall c hc⟩
  rw [← this]; exact hz

theorem dtb_append_blanks (a : List NasVal) (k : Nat) : dtb (a ++ List.replicate k blankV) = dtb a :=
  dropEnd_append_all _ a _ (fun c hc => by rw [List.eq_of_mem_replicate hc]; rfl)

theorem dtb_idem (v : List NasVal) : dtb (dtb v) = dtb v := by
  obtain ⟨k, hk⟩ := dtb_split v
  have := dtb_append_blanks (dtb v) k
  rw [← hk] at this
  exact this.symm

theorem dtb_append_dtb (a b : List NasVal) : dtb (a ++ dtb b) = dtb (a ++ b) := by
  obtain ⟨k, hk⟩ := dtb_split b
  conv_rhs => rw [hk, ← List.append_assoc, dtb_append_blanks]

/-- the lines of a written card: every line that is followed by fields is full -/
def GlueOK (inc : Nat) : List (List NasVal) → Prop
  | [] => True
  | [_] => True
  | v :: v' :: rest =>
    (v.length = inc ∨ (v.length ≤ inc ∧ ∀ u ∈ v' :: rest, u = [])) ∧ GlueOK inc (v' :: rest)

theorem glue_empties (inc : Nat) (us : List (List NasVal)) (h : ∀ u ∈ us, u = []) :
    ∃ k, glue inc (us.map dtb) = List.replicate k blankV := by
  induction us with
  | nil => exact ⟨0, rfl⟩
  | cons u us ih =>
    have hu : u = [] := h u List.mem_cons_self
    subst hu
    obtain ⟨k, hk⟩ := ih (fun u' hu' => h u' (List.mem_cons_of_mem _ hu'))
    cases us with
    | nil => exact ⟨0, rfl⟩
    | cons u' us' =>
      refine ⟨inc + k, ?_⟩
      simp only [List.map_cons] at hk ⊢
      have hd : dtb ([] : List NasVal) = [] := rfl
      rw [hd, glue, hk]
      simp only [List.length_nil, Nat.sub_zero, List.nil_append, blankV, List.replicate_append_replicate]

/-- **up to trailing blanks the reader returns the fields**: gluing the trailing-blank-stripped
lines of a written card gives back the concatenation of the lines. -/
theorem glue_dtb (inc : Nat) (vs : List (List NasVal)) (hok : GlueOK inc vs) :
    dtb (glue inc (vs.map dtb)) = dtb vs.flatten := by
  induction vs with
  | nil => rfl
  | cons v rest ih =>
    cases rest with
    | nil => simp [glue, dtb_idem]
    | cons v' rest' =>
      obtain ⟨hv, hrest⟩ := hok
      have hih := ih hrest
      simp only [List.map_cons, glue, List.flatten_cons] at hih ⊢
      obtain ⟨k, hk⟩ := dtb_split v
      have hklen : v.length = (dtb v).length + k := by
        have := congrArg List.length hk
        simpa using this
      rcases hv with hfull | ⟨hle, hemp⟩
      · have e : dtb v ++ List.replicate (inc - (dtb v).length) (NasVal.str []) = v := by
          have : inc - (dtb v).length = k := by omega
          rw [this]; exact hk.symm
        rw [← List.append_assoc, e, ← dtb_append_dtb, hih, dtb_append_dtb, List.append_assoc]
      · obtain ⟨k2, hk2⟩ := glue_empties inc (v' :: rest') hemp
        simp only [List.map_cons] at hk2
        rw [hk2]
        have hflat : v' ++ rest'.flatten = [] := by
          have h1 : v' = [] := hemp v' List.mem_cons_self
          have h2 : rest'.flatten = [] := by
            apply List.flatten_eq_nil_iff.2
            intro u hu; exact hemp u (List.mem_cons_of_mem _ hu)
          rw [h1, h2]; rfl
        rw [hflat, List.append_nil]
        have e : dtb v ++ List.replicate (inc - (dtb v).length) (NasVal.str []) ++ List.replicate k2 blankV =
            dtb v ++ List.replicate (inc - (dtb v).length + k2) blankV := by
          simp only [blankV, List.append_assoc, List.replicate_append_replicate]
        rw [e, dtb_append_blanks, dtb_idem]


theorem dtb_cons_keep (a : NasVal) (l : List NasVal) (ha : a ≠ blankV) : dtb (a :: l) = a :: dtb l := by
  obtain ⟨k, hk⟩ := dtb_split l
  obtain ⟨z, _, _, hlast⟩ := dropEnd_split (· == blankV) l
  have e : a :: l = (a :: dtb l) ++ List.replicate k blankV := by rw [List.cons_append, ← hk]
  rw [e, dtb_append_blanks]
  -- the last element of `a :: dtb l` is not blank
  unfold dtb
  generalize dropEnd (fun x => x == blankV) l = m at hlast
  rcases List.eq_nil_or_concat m with rfl | ⟨w, g, rfl⟩
  · simp [dropEnd, ha]
  · simp only [List.concat_eq_append] at hlast ⊢
    have hg : (g == blankV) = false := hlast g (by simp)
    have e2 : a :: (w ++ [g]) = (a :: w) ++ [g] := rfl
    rw [e2]
    exact dropEnd_snoc_keep (fun x => x == blankV) (a :: w) g hg

theorem fullButLast_glueOK (per : Nat) (cs : List (List Str)) (g : Str → NasVal)
    (h : fullButLast per cs) : GlueOK per (cs.map (List.map g)) := by
  induction cs with
  | nil => trivial
  | cons c rest ih =>
    cases rest with
    | nil => trivial
    | cons c' rest' =>
      obtain ⟨h1, h2⟩ := h
      exact ⟨Or.inl (by simpa using h1), ih h2⟩

/-- **`card_roundtrip` for small-field cards** (`wtcard8`, any number of fields and `+`
continuation lines): the reader returns exactly one card and, up to trailing blank fields, it is
the name followed by the values of the written fields, field for field. -/
theorem wtcard8_roundtrip (name : Str) (toks : List Tok) (keep : Bool) (hname : NameOK name)
    (hstar : ∀ c ∈ name, c ≠ '*') (hf : ∀ t ∈ toks, CardField 8 (enc 8 formatFloat8 t)) :
    ∃ text r, wtcard8 name toks = some text ∧ rdcards name keep text = [r] ∧
      dtb r = (if keep then [NasVal.str name] else []) ++
        dtb (toks.map fun t => cardVal (enc 8 formatFloat8 t)) := by
  obtain ⟨text, hw, hr⟩ := wtcard8_rdcards name toks keep hname hstar hf
  refine ⟨text, _, hw, hr, ?_⟩
  obtain ⟨hflat, hcprops⟩ := chunksAux_props 8 (by norm_num) (toks.map (enc 8 formatFloat8)).length
    (toks.map (enc 8 formatFloat8)) (le_refl _)
  have hfull := chunksAux_full 8 (toks.map (enc 8 formatFloat8)).length (toks.map (enc 8 formatFloat8))
  change (chunks 8 (toks.map (enc 8 formatFloat8))).flatten = _ at hflat
  change ∀ c ∈ chunks 8 (toks.map (enc 8 formatFloat8)), _ at hcprops
  change fullButLast 8 (chunks 8 (toks.map (enc 8 formatFloat8))) at hfull
  generalize chunks 8 (toks.map (enc 8 formatFloat8)) = cs at hflat hcprops hfull
  have hmap : (cs.map fun c => (dropEnd isBlankField c).map cardVal) = (cs.map (List.map cardVal)).map dtb := by
    rw [List.map_map]
    apply List.map_congr_left
    intro c hc
    simp only [Function.comp_apply, dtb]
    rw [dropEnd_map isBlankField (· == blankV) cardVal c]
    intro f hf'
    have : f ∈ toks.map (enc 8 formatFloat8) := (hcprops c hc).2 f hf'
    obtain ⟨t, ht, rfl⟩ := List.mem_map.1 this
    exact cardVal_blank_iff 8 _ (hf t ht).1
  have hG := glue_dtb 8 (cs.map (List.map cardVal)) (fullButLast_glueOK 8 cs cardVal hfull)
  have hfl : (cs.map (List.map cardVal)).flatten = toks.map fun t => cardVal (enc 8 formatFloat8 t) := by
    rw [← List.map_flatten, hflat, List.map_map]; rfl
  rw [hmap]
  cases keep with
  | false => simp only [Bool.false_eq_true, if_false, List.nil_append]; rw [hG, hfl]
  | true =>
    simp only [if_true, List.singleton_append]
    have hnb : NasVal.str name ≠ blankV := by
      obtain ⟨⟨c0, t, hn, _⟩, _, _⟩ := hname
      intro hc; injection hc with hc; rw [hn] at hc; exact absurd hc (by simp)
    rw [dtb_cons_keep _ _ hnb, hG, hfl]


/-! ### which formatted fields are card fields -/

theorem cardField_blank (W : Nat) : CardField W (List.replicate W ' ') := by
  refine ⟨⟨by simp, ?_, ?_⟩, ?_⟩ <;>
  · intro c hc
    rw [List.eq_of_mem_replicate hc]
    decide

theorem cardField_rjust (W : Nat) (s : Str) (hlen : s.length ≤ W)
    (hch : ∀ c ∈ s, isWs c = false ∧ c ≠ '$' ∧ c ≠ ',') : CardField W (rjust W s) := by
  unfold rjust
  refine ⟨⟨by simp; omega, ?_, ?_⟩, ?_⟩
  · intro c hc hws
    rcases List.mem_append.1 hc with h | h
    · exact List.eq_of_mem_replicate h
    · rw [(hch c h).1] at hws; exact absurd hws (by decide)
  · intro c hc
    rcases List.mem_append.1 hc with h | h
    · rw [List.eq_of_mem_replicate h]; decide
    · exact (hch c h).2.1
  · intro c hc
    rcases List.mem_append.1 hc with h | h
    · rw [List.eq_of_mem_replicate h]; decide
    · exact (hch c h).2.2

theorem cardField_ljust (W : Nat) (s : Str) (hlen : s.length ≤ W)
    (hch : ∀ c ∈ s, isWs c = false ∧ c ≠ '$' ∧ c ≠ ',') : CardField W (ljust W s) := by
  unfold ljust
  refine ⟨⟨by simp; omega, ?_, ?_⟩, ?_⟩
  · intro c hc hws
    rcases List.mem_append.1 hc with h | h
    · rw [(hch c h).1] at hws; exact absurd hws (by decide)
    · exact List.eq_of_mem_replicate h
  · intro c hc
    rcases List.mem_append.1 hc with h | h
    · exact (hch c h).2.1
    · rw [List.eq_of_mem_replicate h]; decide
  · intro c hc
    rcases List.mem_append.1 hc with h | h
    · exact (hch c h).2.2
    · rw [List.eq_of_mem_replicate h]; decide

theorem digit_card_char (c : Char) (h : isDigit c = true) : isWs c = false ∧ c ≠ '$' ∧ c ≠ ',' :=
  ⟨isDigit_not_ws c h, isDigit_ne c '$' h (by decide), isDigit_ne c ',' h (by decide)⟩

/-- an integer that fits the field -/
theorem cardField_int (W : Nat) (fmt : Dbl → Str) (n : Int) (h : (intStr n).length ≤ W) :
    CardField W (enc W fmt (.int n)) := by
  apply cardField_rjust W _ h
  intro c hc
  simp only [intStr, List.mem_append] at hc
  rcases hc with h | h
  · split_ifs at h
    · simp at h; subst h; decide
    · simp at h
  · exact digit_card_char c (natDigits_all_digit _ c h)

/-- a real field of the emitted grammar that fits the width -/
theorem cardField_fld (W : Nat) (f : Fld) (hwf : f.wf = true) (hlen : f.text.length ≤ W) :
    CardField W (rjust W f.text) := by
  apply cardField_rjust W _ hlen
  obtain ⟨hip, hfp, _, hex⟩ := wf_parts f hwf
  intro c hc
  simp only [Fld.text, Fld.mant, Fld.exText, List.mem_append, List.mem_cons] at hc
  rcases hc with (h | h | rfl | h) | h
  · split_ifs at h
    · simp at h; subst h; decide
    · simp at h
  · exact digit_card_char c (hip c h)
  · decide
  · exact digit_card_char c (hfp c h)
  · cases hfe : f.ex with
    | none => rw [hfe] at h; simp at h
    | some e =>
      rw [hfe] at h
      simp only [FExp.text, List.mem_append, List.mem_cons] at h
      rcases h with h | rfl | h
      · split_ifs at h
        · simp at h; subst h; decide
        · simp at h
      · split_ifs <;> decide
      · exact digit_card_char c ((hex e hfe).2.1 c h)

end PyYetiVerif.NasCards
