import PyYetiVerif.Lemmas.UsetTranM
import Mathlib.Algebra.BigOperators.Ring.Finset
import Mathlib.Algebra.BigOperators.Group.Finset.Sigma
/-!
Associativity of the model's list matrix product (`Uset.dot`, the model of `np.dot` / `@`) over a semiring, for
rectangular matrices (`Uset.Rect`): the statement is an equality of `Except` values, so it covers the `ValueError`
of mismatching inner dimensions too.
-/
set_option linter.constructorNameAsVariable false
set_option linter.unusedSectionVars false
namespace PyYetiVerif.Uset
open PyYetiVerif.Locate

/-- every row of `A` has `A.c` entries (the shape hypothesis: the lists are a rectangular array) -/
def Rect {α : Type} (A : M α) : Prop := ∀ r ∈ A.r, r.length = A.c

instance {α : Type} (A : M α) : Decidable (Rect A) := by unfold Rect; infer_instance

section semi
variable {α : Type} [Semiring α]

theorem list_sum_range_eq_finset (f : Nat → α) : ∀ n, ((List.range n).map f).sum = ∑ j ∈ Finset.range n, f j
  | 0 => rfl
  | n + 1 => by
      rw [List.range_succ, List.map_append, List.sum_append, Finset.sum_range_succ,
        list_sum_range_eq_finset f n]
      simp

theorem zip_eq_map_range {β γ : Type} (l₁ : List β) (l₂ : List γ) (d₁ : β) (d₂ : γ) (h : l₁.length = l₂.length) :
    l₁.zip l₂ = (List.range l₂.length).map fun j => (l₁.getD j d₁, l₂.getD j d₂) := by
  apply List.ext_getElem
  · simp [h]
  · intro i h1 h2
    simp only [List.length_zip, h, Nat.min_self] at h1
    have h1' : i < l₁.length := by omega
    simp [List.getD_eq_getElem?_getD, List.getElem?_eq_getElem h1, List.getElem?_eq_getElem h1']

/-- an entry of `coef @ B` as a sum over the rows of `B` -/
theorem rowComb_getD_range (n : Nat) (coef : List α) (B : List (List α)) (hB : ∀ r ∈ B, r.length = n)
    (hlen : coef.length = B.length) (c : Nat) (hc : c < n) :
    (rowComb n coef B).getD c 0 = ∑ j ∈ Finset.range B.length, coef.getD j 0 * (B.getD j []).getD c 0 := by
  rw [(rowComb_get n coef B hB c hc).1, zip_eq_map_range coef B 0 [] hlen, List.map_map,
    ← list_sum_range_eq_finset]
  rfl

theorem ext_getD {l₁ l₂ : List α} (n : Nat) (h₁ : l₁.length = n) (h₂ : l₂.length = n)
    (h : ∀ c, c < n → l₁.getD c 0 = l₂.getD c 0) : l₁ = l₂ := by
  apply List.ext_getElem (by rw [h₁, h₂])
  intro i hi₁ hi₂
  have := h i (by omega)
  simpa [List.getD_eq_getElem?_getD, List.getElem?_eq_getElem hi₁, List.getElem?_eq_getElem hi₂] using this

/-- **`(a @ B) @ C = a @ (B @ C)` for one row of coefficients** -/
theorem rowComb_assoc (a : List α) (B C : List (List α)) (m n : Nat) (ha : a.length = B.length)
    (hB : ∀ r ∈ B, r.length = m) (hm : m = C.length) (hC : ∀ r ∈ C, r.length = n) :
    rowComb n (rowComb m a B) C = rowComb n a (B.map fun b => rowComb n b C) := by
  have hBC : ∀ r ∈ B.map (fun b => rowComb n b C), r.length = n := by
    intro r hr
    obtain ⟨b, _, rfl⟩ := List.mem_map.mp hr
    exact rowComb_length n b C hC
  apply ext_getD n (rowComb_length n _ C hC) (rowComb_length n a _ hBC)
  intro c hc
  rw [rowComb_getD_range n _ C hC (by rw [rowComb_length m a B hB, hm]) c hc,
    rowComb_getD_range n a _ hBC (by rw [List.length_map, ha]) c hc, List.length_map]
  have h1 : ∀ k ∈ Finset.range C.length, (rowComb m a B).getD k 0 * (C.getD k []).getD c 0 =
      ∑ j ∈ Finset.range B.length, a.getD j 0 * ((B.getD j []).getD k 0 * (C.getD k []).getD c 0) := by
    intro k hk
    rw [rowComb_getD_range m a B hB ha k (by rw [hm]; exact Finset.mem_range.mp hk), Finset.sum_mul]
    exact Finset.sum_congr rfl fun j _ => mul_assoc _ _ _
  have h2 : ∀ j ∈ Finset.range B.length, a.getD j 0 * ((B.map fun b => rowComb n b C).getD j []).getD c 0 =
      ∑ k ∈ Finset.range C.length, a.getD j 0 * ((B.getD j []).getD k 0 * (C.getD k []).getD c 0) := by
    intro j hj
    have hjl : j < B.length := Finset.mem_range.mp hj
    have hb : (B.getD j []).length = C.length := by
      rw [List.getD_eq_getElem?_getD, List.getElem?_eq_getElem hjl]
      simp only [Option.getD_some]
      rw [hB _ (List.getElem_mem hjl), hm]
    have : (B.map fun b => rowComb n b C).getD j [] = rowComb n (B.getD j []) C := by
      simp [List.getD_eq_getElem?_getD, List.getElem?_eq_getElem hjl]
    rw [this, rowComb_getD_range n _ C hC hb c hc, Finset.mul_sum]
  rw [Finset.sum_congr rfl h1, Finset.sum_congr rfl h2, Finset.sum_comm]

theorem dot_rect {A B C : M α} (hB : Rect B) (h : dot A B = .ok C) : Rect C := by
  obtain ⟨hr, hc⟩ := dot_eq h
  intro r hrm
  rw [hr] at hrm
  obtain ⟨row, _, rfl⟩ := List.mem_map.mp hrm
  rw [hc]
  exact rowComb_length B.c row B.r hB

/-- **`np.dot(np.dot(A, B), C) = np.dot(A, np.dot(B, C))`** for rectangular `A`, `B`, `C`, as `Except` values:
both orders raise `ValueError` exactly when one pair of inner dimensions disagrees -/
theorem dot_assoc (A B C : M α) (hA : Rect A) (hB : Rect B) (hC : Rect C) :
    (dot A B >>= fun ab => dot ab C) = (dot B C >>= fun bc => dot A bc) := by
  unfold dot
  by_cases h1 : A.c = B.r.length <;> by_cases h2 : B.c = C.r.length <;>
    simp only [h1, h2, ne_eq, not_true_eq_false, not_false_eq_true, if_true, if_false, bind, Except.bind,
      List.length_map]
  · congr 1
    congr 1
    rw [List.map_map]
    apply List.map_congr_left
    intro row hrow
    exact rowComb_assoc row B.r C.r C.r.length C.c (by rw [hA row hrow, h1])
      (fun r hr => (hB r hr).trans h2) rfl hC

/-- the left-to-right product `((X · L₁) · L₂) · …` -/
def chainM {α : Type} [Add α] [Mul α] [OfNat α 0] [OfNat α 1] (X : M α) : List (M α) → Except TErr (M α)
  | [] => .ok X
  | L :: rest => dot X L >>= fun Y => chainM Y rest

theorem chainM_rect : ∀ (l : List (M α)) (X Y : M α), Rect X → (∀ L ∈ l, Rect L) → chainM X l = .ok Y → Rect Y
  | [], X, Y, hX, _, h => by
      simp only [chainM, Except.ok.injEq] at h
      subst h; exact hX
  | L :: t, X, Y, _, hl, h => by
      simp only [chainM] at h
      obtain ⟨Z, hZ, h⟩ := bind_ok h
      exact chainM_rect t Z Y (dot_rect (hl L List.mem_cons_self) hZ) (fun M hM => hl M (List.mem_cons_of_mem _ hM)) h

/-- **associativity along a chain**: `((X · L) · L₁) · … · L_k = X · (((L · L₁) · …) · L_k)` -/
theorem chainM_assoc : ∀ (l : List (M α)) (X L : M α), Rect X → Rect L → (∀ M ∈ l, Rect M) →
    (dot X L >>= fun Y => chainM Y l) = (chainM L l >>= fun Z => dot X Z)
  | [], X, L, _, _, _ => by
      simp only [chainM, bind, Except.bind]
      cases dot X L <;> rfl
  | L' :: t, X, L, hX, hL, hl => by
      have hL' : Rect L' := hl L' List.mem_cons_self
      have ht : ∀ M ∈ t, Rect M := fun M hM => hl M (List.mem_cons_of_mem _ hM)
      simp only [chainM]
      have e1 : (dot X L >>= fun Y => dot Y L' >>= fun Y => chainM Y t) =
          ((dot X L >>= fun Y => dot Y L') >>= fun Y => chainM Y t) := by
        cases dot X L <;> rfl
      rw [e1, dot_assoc X L L' hX hL hL']
      cases hZ : dot L L' with
      | error e => rfl
      | ok Z =>
          have := chainM_assoc t X Z hX (dot_rect hL' hZ) ht
          simp only [bind, Except.bind] at this ⊢
          exact this

end semi
end PyYetiVerif.Uset
