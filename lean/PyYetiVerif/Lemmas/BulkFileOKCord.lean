import PyYetiVerif.Lemmas.BulkFileOKGrid
/-! One CORD2x card of `wtcoordcards` (comment line + three physical lines) as segments (C13; core Lean only). -/
namespace PyYetiVerif.Bulk

theorem noMatch_dollar (r : Txt) :
    ∀ k, k < bulkReaders.length → (bulkReaders.getD k fun _ => false) ('$' :: r) = false := by
  intro k hk
  have : k = 0 ∨ k = 1 ∨ k = 2 ∨ k = 3 ∨ k = 4 ∨ k = 5 ∨ k = 6 := by
    have : bulkReaders.length = 7 := rfl
    omega
  rcases this with rfl | rfl | rfl | rfl | rfl | rfl | rfl <;> rfl

/-- the segments of one coordinate system: its comment line, its card -/
def cordSegs (c : CordIn) : List Seg :=
  [.junk [txt "$ Coordinate " ++ dec c.cid ++ [':']], .card 2 ((cordCard c).headD []) (cordCard c).tail]

theorem cordSegs_file (c : CordIn) : fileOf (cordSegs c) = (txt "$ Coordinate " ++ dec c.cid ++ [':']) :: cordCard c := by
  simp [cordSegs, fileOf, Seg.lines, cordCard]

theorem cordSegs_ok (c : CordIn) (hc : c.Clean) : ∀ s ∈ cordSegs c, SegLocalOK bulkReaders s := by
  obtain ⟨name, cid, ref, abc⟩ := c
  obtain ⟨hname, h9, hf, hcid, href⟩ := hc
  simp only at hname h9 hf hcid href
  obtain ⟨a1, a2, a3, b1, b2, b3, c1, c2, c3, rfl⟩ := list9 abc h9
  have hfa : ∀ f, f ∈ [a1, a2, a3, b1, b2, b3, c1, c2, c3] → CleanField 16 f := hf
  have ha1 := hfa a1 (by simp); have ha2 := hfa a2 (by simp)
  have hlead : (padR 8 (name ++ ['*'])).length = 8 ∧ '$' ∉ padR 8 (name ++ ['*']) ∧ ',' ∉ padR 8 (name ++ ['*']) ∧
      (padR 8 (name ++ ['*'])).contains '*' = true ∧
      (∀ r k, k < bulkReaders.length → (bulkReaders.getD k fun _ => false) (padR 8 (name ++ ['*']) ++ r) = decide (k = 2)) ∧
      ∀ r m, isCont m (padR 8 (name ++ ['*']) ++ r) = false := by
    have hk7 : ∀ k, k < bulkReaders.length → k = 0 ∨ k = 1 ∨ k = 2 ∨ k = 3 ∨ k = 4 ∨ k = 5 ∨ k = 6 := by
      intro k hk
      have : bulkReaders.length = 7 := rfl
      omega
    rcases hname with h | h | h <;> subst h
    · refine ⟨by decide, by decide, by decide, by decide, ?_, fun r m => by cases m <;> rfl⟩
      intro r k hk
      rcases hk7 k hk with rfl | rfl | rfl | rfl | rfl | rfl | rfl <;> rfl
    · refine ⟨by decide, by decide, by decide, by decide, ?_, fun r m => by cases m <;> rfl⟩
      intro r k hk
      rcases hk7 k hk with rfl | rfl | rfl | rfl | rfl | rfl | rfl <;> rfl
    · refine ⟨by decide, by decide, by decide, by decide, ?_, fun r m => by cases m <;> rfl⟩
      intro r k hk
      rcases hk7 k hk with rfl | rfl | rfl | rfl | rfl | rfl | rfl <;> rfl
  obtain ⟨hl8, hld, hlc, hlstar, hlmatch, hlhead⟩ := hlead
  have hfl1 : FixedLine 16 (padR 8 (name ++ ['*'])) ([padL 16 (dec cid), padL 16 (dec ref), a1] ++ [a2]) 0 := by
    refine FixedLine.build 16 _ _ _ _ hl8 hld hlc ?_ (cleanField_ne_nil (by decide) ha2) ha2.2 (by simp)
    intro f hf'
    simp only [List.cons_append, List.nil_append, List.mem_cons, List.not_mem_nil, or_false] at hf'
    rcases hf' with rfl | rfl | rfl | rfl
    · exact fieldOK_padL_dec 16 _ hcid
    · exact fieldOK_padL_dec 16 _ href
    · exact ha1.1
    · exact ha2.1
  have hcard : cordCard ⟨name, cid, ref, [a1, a2, a3, b1, b2, b3, c1, c2, c3]⟩ =
      [(padR 8 (name ++ ['*']) ++ ([padL 16 (dec cid), padL 16 (dec ref), a1] ++ [a2]).flatten ++ blanks 0) ++ ['*'],
       '*' :: (blanks 7 ++ ([a3, b1, b2] ++ [b3]).flatten ++ ['*']),
       '*' :: (blanks 7 ++ ([c1, c2] ++ [c3]).flatten)] := by
    simp [cordCard, blanks, padR]
  have hstar : ',' ∉ ['*'] := by decide
  have hm1 : modeOf ((padR 8 (name ++ ['*']) ++ ([padL 16 (dec cid), padL 16 (dec ref), a1] ++ [a2]).flatten ++ blanks 0) ++ ['*']) = .f16 := by
    rw [modeOf_extra _ _ (by rw [hfl1.length_eq]; simp) hstar, hfl1.modeOf, hlstar]; rfl
  intro s hs
  simp only [cordSegs, hcard, List.headD_cons, List.tail_cons, List.mem_cons, List.not_mem_nil, or_false] at hs
  rcases hs with rfl | rfl
  · refine ⟨?_, ?_⟩
    · intro l hl k hk
      simp only [List.mem_singleton] at hl
      subst hl
      exact noMatch_dollar _ k hk
    · intro x hx m
      simp only [List.head?_cons, Option.some.injEq] at hx
      subst hx
      exact isCont_of_head '$' _ (by decide) m
  · refine ⟨?_, ⟨?_, ?_, ?_⟩, ?_⟩
    · rw [List.append_assoc, List.append_assoc]; exact hlmatch _
    · rw [List.append_assoc, List.append_assoc]; exact hlhead _ _
    · rw [List.append_assoc, List.append_assoc]; exact hlhead _ _
    · rw [List.append_assoc, List.append_assoc]; exact hlhead _ _
    · intro l hl
      rw [hm1]
      simp only [List.mem_cons, List.not_mem_nil, or_false] at hl
      rcases hl with rfl | rfl
      · exact ⟨rfl, noMatch_star _⟩
      · exact ⟨rfl, noMatch_star _⟩

end PyYetiVerif.Bulk
