import PyYetiVerif.Lemmas.BulkFileOKCord
import PyYetiVerif.Lemmas.BulkDmigText
/-! The text of `wtdmig` (integer-valued terms, `Dmig.lines`) as card segments (C13; core Lean only). -/
namespace PyYetiVerif.Bulk

theorem match_dmig (c : Char) (x : Txt) (hc : c = ' ' ∨ c = '*') : ∀ k, k < bulkReaders.length →
    (bulkReaders.getD k fun _ => false) ('D' :: 'M' :: 'I' :: 'G' :: c :: ' ' :: ' ' :: ' ' :: x) = decide (k = 0) := by
  intro k hk
  have : k = 0 ∨ k = 1 ∨ k = 2 ∨ k = 3 ∨ k = 4 ∨ k = 5 ∨ k = 6 := by
    have : bulkReaders.length = 7 := rfl
    omega
  rcases hc with rfl | rfl <;> rcases this with rfl | rfl | rfl | rfl | rfl | rfl | rfl <;> rfl

def Dmig.header (d : Dmig) : Txt :=
  padR 8 (txt "DMIG") ++ padR 8 d.name ++ padL 8 (dec 0) ++ padL 8 (dec d.form) ++
    padL 8 (dec d.mtype) ++ padL 8 (dec 0) ++ padL 8 (dec 0) ++ blanks 8 ++ padL 8 (dec d.ncol)

/-- header card, then one card per written column -/
def Dmig.segs (d : Dmig) : List Seg :=
  .card 0 d.header [] :: d.cards.map fun c => .card 0 ((d.cardLines c).headD []) (d.cardLines c).tail

theorem Dmig.fileOf_segs (d : Dmig) : fileOf d.segs = d.lines := by
  rw [Dmig.lines_eq]
  unfold Dmig.segs fileOf
  simp only [List.flatMap_cons, Seg.lines, List.singleton_append, Dmig.header]
  congr 1
  generalize d.cards = cs
  induction cs with
  | nil => rfl
  | cons c r ih => simp only [List.map_cons, List.flatMap_cons, Seg.lines, ih]; rfl

theorem Dmig.segs_ok (d : Dmig) (hc : d.Clean) : ∀ s ∈ d.segs, SegLocalOK bulkReaders s := by
  intro s hs
  simp only [Dmig.segs, List.mem_cons, List.mem_map] at hs
  rcases hs with rfl | ⟨c, hm, rfl⟩
  · have e8 : ∀ x, padR 8 (txt "DMIG") ++ x = 'D' :: 'M' :: 'I' :: 'G' :: ' ' :: ' ' :: ' ' :: ' ' :: x := fun _ => rfl
    have e : d.header = 'D' :: 'M' :: 'I' :: 'G' :: ' ' :: ' ' :: ' ' :: ' ' :: (padR 8 d.name ++ padL 8 (dec 0) ++ padL 8 (dec d.form) ++
        padL 8 (dec d.mtype) ++ padL 8 (dec 0) ++ padL 8 (dec 0) ++ blanks 8 ++ padL 8 (dec d.ncol)) := by
      simp only [Dmig.header, List.append_assoc]; exact e8 _
    rw [e]
    refine ⟨match_dmig ' ' _ (Or.inl rfl), ⟨isCont_of_head 'D' _ (by decide) _, isCont_of_head 'D' _ (by decide) _,
      isCont_of_head 'D' _ (by decide) _⟩, ?_⟩
    intro l hl; simp at hl
  · obtain ⟨hg, hcj, _⟩ := hc.labels c hm
    have hfl : FixedLine 16 (padR 8 (txt "DMIG*")) ([padR 16 d.name, padL 16 (dec c.1.1)] ++ [padL 16 (dec c.1.2)]) 0 := by
      refine FixedLine.build 16 _ _ _ 0 (by decide) (by decide) (by decide) ?_ (padL_dec_ne_nil 16 _) (lastSolid_padL_dec 16 _) (by simp)
      intro f hf
      simp only [List.cons_append, List.nil_append, List.mem_cons, List.not_mem_nil, or_false] at hf
      rcases hf with rfl | rfl | rfl
      · exact fieldOK_padR 16 _ (by have := hc.name_len; omega) hc.name_d hc.name_c
      · exact fieldOK_padL_dec 16 _ hg
      · exact fieldOK_padL_dec 16 _ hcj
    have hmode := hfl.modeOf
    have hstar : (padR 8 (txt "DMIG*")).contains '*' = true := by decide
    rw [hstar] at hmode; simp only [if_true] at hmode
    have e1 : padR 8 (txt "DMIG*") ++ padR 16 d.name ++ padL 16 (dec c.1.1) ++ padL 16 (dec c.1.2) =
        padR 8 (txt "DMIG*") ++ ([padR 16 d.name, padL 16 (dec c.1.1)] ++ [padL 16 (dec c.1.2)]).flatten ++ blanks 0 := by
      simp [blanks]
    have e8 : ∀ x, padR 8 (txt "DMIG*") ++ x = 'D' :: 'M' :: 'I' :: 'G' :: '*' :: ' ' :: ' ' :: ' ' :: x := fun _ => rfl
    simp only [Dmig.cardLines, List.headD_cons, List.tail_cons]
    refine ⟨?_, ⟨?_, ?_, ?_⟩, ?_⟩
    · rw [List.append_assoc, List.append_assoc, e8]; exact match_dmig '*' _ (Or.inr rfl)
    · rw [List.append_assoc, List.append_assoc, e8]; exact isCont_of_head 'D' _ (by decide) _
    · rw [List.append_assoc, List.append_assoc, e8]; exact isCont_of_head 'D' _ (by decide) _
    · rw [List.append_assoc, List.append_assoc, e8]; exact isCont_of_head 'D' _ (by decide) _
    · intro l hl
      obtain ⟨e, _, rfl⟩ := List.mem_map.mp hl
      rw [e1, hmode]
      have es : ∀ x, padR 8 ['*'] ++ x = '*' :: (blanks 7 ++ x) := fun _ => rfl
      rw [List.append_assoc, List.append_assoc, List.append_assoc, es]
      exact ⟨rfl, noMatch_star _⟩

end PyYetiVerif.Bulk
