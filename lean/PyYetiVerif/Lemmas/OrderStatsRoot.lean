import PyYetiVerif.Lemmas.OrderStats
import PyYetiVerif.Model.OrderStatsApi
import Mathlib.Topology.Order.IntermediateValue
import Mathlib.Topology.Algebra.Ring.Real
import Mathlib.Topology.Algebra.Monoid
import Mathlib.Tactic.FunProp
import Mathlib.Tactic.Positivity
import Mathlib.Tactic.FieldSimp
/-!
Lemmas for the `'p'` query of `order_stats` (C20): the confidence `tail n r q` as a function of the
exceedance probability `q = 1 - p` is 0 at 0, 1 at 1, strictly increasing on `(0, 1)` (any ordered
field) and continuous (over `ℝ`: it is a polynomial in `q`); and the invariant of the bisection
`bisectQ` that models the root finder.
-/
set_option linter.unusedSectionVars false
namespace PyYetiVerif.OrderStats

section ordered
variable {α : Type} [Field α] [LinearOrder α] [IsStrictOrderedRing α]

/-- nothing exceeds the quantile when the exceedance probability is 0 -/
theorem tail_at_zero {n r : ℕ} (hr : 1 ≤ r) : tail n r (0 : α) = 0 := by
  rw [tail_eq_sum]
  apply Finset.sum_eq_zero
  intro k hk
  have hk1 : k ≠ 0 := by
    have := (Finset.mem_Ico.1 hk).1
    omega
  simp [zero_pow hk1]

/-- everything exceeds the quantile when the exceedance probability is 1 -/
theorem tail_at_one {n r : ℕ} (hr : r ≤ n) : tail n r (1 : α) = 1 := by
  rw [tail_eq_sum, Finset.sum_eq_single n]
  · simp
  · intro k hk hkn
    have hlt : k < n := by
      have := (Finset.mem_Ico.1 hk).2
      omega
    have : n - k ≠ 0 := by omega
    simp [zero_pow this]
  · intro h
    exact absurd (Finset.mem_Ico.2 ⟨hr, Nat.lt_succ_self n⟩) h

theorem pmf_pos {q : α} (h0 : 0 < q) (h1 : q < 1) {n k : ℕ} (hk : k ≤ n) : 0 < pmf n k q := by
  rw [pmf_def]
  have hc : (0 : α) < (n.choose k : α) := by exact_mod_cast Nat.choose_pos hk
  exact mul_pos (mul_pos hc (pow_pos h0 _)) (pow_pos (sub_pos.2 h1) _)

/-- strictly more exceedance probability, strictly more confidence (inside `(0, 1)`, for ranks that the
sample can show) -/
theorem tail_strictMono_q {q q' : α} (h0 : 0 < q) (hqq : q < q') (h1 : q' < 1) {n r : ℕ} (hr : 1 ≤ r)
    (hrn : r ≤ n) : tail n r q < tail n r q' := by
  obtain ⟨m, rfl⟩ : ∃ m, n = m + 1 := ⟨n - 1, by omega⟩
  obtain ⟨k, rfl⟩ : ∃ k, r = k + 1 := ⟨r - 1, by omega⟩
  have hkm : k ≤ m := by omega
  rw [tail_succ_succ, tail_succ_succ]
  have hq1 : q ≤ 1 := (hqq.trans h1).le
  have a1 := tail_mono_q h0.le hqq.le h1.le m k
  have a2 := tail_mono_q h0.le hqq.le h1.le m (k + 1)
  have a3 : 0 < pmf m k q' := pmf_pos (h0.trans hqq) h1 hkm
  rw [← tail_sub_succ] at a3
  have e1 : 0 ≤ q * (tail m k q' - tail m k q) := mul_nonneg h0.le (sub_nonneg.2 a1)
  have e2 : 0 ≤ (1 - q') * (tail m (k + 1) q' - tail m (k + 1) q) :=
    mul_nonneg (sub_nonneg.2 h1.le) (sub_nonneg.2 a2)
  have e3 : 0 < (q' - q) * (tail m k q' - tail m (k + 1) q) :=
    mul_pos (sub_pos.2 hqq) (by linarith)
  nlinarith [e1, e2, e3]

/-- invariant of the bisection that models the root finder: the bracket stays inside the initial one,
keeps `¬ g lo`, `g hi`, and its width is halved at every step -/
theorem bisectQ_spec (g : α → Bool) :
    ∀ (k : ℕ) (lo hi : α), lo ≤ hi → g lo = false → g hi = true →
      let b := bisectQ g k lo hi
      lo ≤ b.1 ∧ b.1 ≤ b.2 ∧ b.2 ≤ hi ∧ g b.1 = false ∧ g b.2 = true ∧
        b.2 - b.1 = (hi - lo) / 2 ^ k := by
  intro k
  induction k with
  | zero => intro lo hi h hl hh; simp [bisectQ, h, hl, hh]
  | succ k ih =>
    intro lo hi h hl hh
    simp only [bisectQ, Nat.cast_ofNat]
    have hm1 : lo ≤ (lo + hi) / 2 := by linarith
    have hm2 : (lo + hi) / 2 ≤ hi := by linarith
    by_cases hg : g ((lo + hi) / 2) = true
    · simp only [hg, if_true]
      obtain ⟨i1, i2, i3, i4, i5, i6⟩ := ih lo ((lo + hi) / 2) hm1 hl hg
      refine ⟨i1, i2, i3.trans hm2, i4, i5, ?_⟩
      rw [i6, pow_succ]; field_simp; ring
    · have hg' : g ((lo + hi) / 2) = false := by simpa using hg
      simp only [hg', Bool.false_eq_true, if_false]
      obtain ⟨i1, i2, i3, i4, i5, i6⟩ := ih ((lo + hi) / 2) hi hm2 hg' hh
      refine ⟨hm1.trans i1, i2, i3, i4, i5, ?_⟩
      rw [i6, pow_succ]; field_simp; ring

end ordered

section real

theorem continuous_pmf (n k : ℕ) : Continuous fun q : ℝ => pmf n k q := by
  simp only [pmf_def]
  fun_prop

theorem continuous_lower (n r : ℕ) : Continuous fun q : ℝ => lower n q r := by
  induction r with
  | zero => simp only [lower_zero]; exact continuous_const
  | succ r ih => simp only [lower_succ]; exact ih.add (continuous_pmf n r)

/-- the confidence is a polynomial in the exceedance probability, hence continuous -/
theorem continuous_tail (n r : ℕ) : Continuous fun q : ℝ => tail n r q := by
  unfold tail
  exact continuous_const.sub (continuous_lower n r)

/-- intermediate value theorem for the confidence polynomial: every level in `(0, 1)` is attained at
some exceedance probability strictly between 0 and 1 -/
theorem tail_attains {n r : ℕ} (hr : 1 ≤ r) (hrn : r ≤ n) {c : ℝ} (hc0 : 0 < c) (hc1 : c < 1) :
    ∃ q : ℝ, 0 < q ∧ q < 1 ∧ tail n r q = c := by
  have hivt := intermediate_value_Icc (show (0 : ℝ) ≤ 1 by norm_num)
    (continuous_tail n r).continuousOn
  simp only [tail_at_zero hr, tail_at_one hrn] at hivt
  obtain ⟨q, ⟨hq0, hq1⟩, hq⟩ := hivt ⟨hc0.le, hc1.le⟩
  simp only at hq
  refine ⟨q, ?_, ?_, hq⟩
  · rcases hq0.lt_or_eq with h | h
    · exact h
    · subst h; rw [tail_at_zero hr] at hq; linarith
  · rcases hq1.lt_or_eq with h | h
    · exact h
    · subst h; rw [tail_at_one hrn] at hq; linarith

end real
end PyYetiVerif.OrderStats
