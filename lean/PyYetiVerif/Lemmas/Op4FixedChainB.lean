import PyYetiVerif.Lemmas.Op4FixedChainA
/-! GENERATED (see Lemmas/Op4FixedChainA.lean): copy of Lemmas/Op4AsciiFile.lean for the F3 repair candidate. -/
namespace PyYetiVerif.Op4AFx
open PyYetiVerif.Op4 PyYetiVerif.Op4A PyYetiVerif.Generated.Op4Consts


/-! ### the record of a non-zero column, as lines -/

def arecOf (d : Nat) (lay : Layout) (cplx : Bool) (c : Nat) (col : List Entry) (s : Nat) (tl : List Nat) : ARec :=
  match lay with
  | .dense =>
    let seg := denseSeg col s tl
    { c := c, r := s + 1, nw := (segDs cplx seg).length, body := valLines d (segDs cplx seg),
      puts := [(s, seg.map (aEntry d cplx))] }
  | .bigmat =>
    let ss := strings cplx col
    { c := c, r := 0, nw := nwordsBig cplx ss, body := ss.flatMap (bigStrLines d cplx),
      puts := ss.map fun s => (s.1, s.2.map (aEntry d cplx)) }
  | .nonbigmat =>
    let ss := strings cplx col
    { c := c, r := 0, nw := nwordsNonbig cplx ss, body := ss.flatMap (nonbigStrLines d cplx),
      puts := ss.map fun s => (s.1, s.2.map (aEntry d cplx)) }

def arecsOf (d : Nat) (lay : Layout) (cplx : Bool) : Nat → List (List Entry) → List ARec
  | _, [] => []
  | c, col :: t =>
    match nzIdx cplx col with
    | [] => arecsOf d lay cplx (c + 1) t
    | s :: tl => arecOf d lay cplx c col s tl :: arecsOf d lay cplx (c + 1) t

/-- the ASCII column writer of a layout -/
def ascCol (d : Nat) (lay : Layout) (cplx : Bool) : Nat → List Entry → List Char :=
  match lay with
  | .dense => ascColDenseFx d cplx
  | .bigmat => ascColBigFx d cplx
  | .nonbigmat => ascColNonbigFx d cplx

theorem intLine_isLines (l : Str) (h : ∀ c ∈ l, FieldChar c) : IsLines (l ++ ['\n']) [l ++ ['\n']] :=
  IsLines.line l fun c hc => (h c hc).ne_nl

theorem intLine3_isLines (a b c : Int) : IsLines (intLine3 a b c) [intLine3 a b c] := by
  unfold intLine3
  apply intLine_isLines
  intro x hx
  simp only [List.mem_append] at hx
  rcases hx with (h | h) | h <;> exact fmtInt_fieldChar _ _ x h

theorem valLines_isLines (d : Nat) (hp : 1 ≤ perline d) (ds : List Nat) :
    IsLines (valueLinesFx d ds.length ds) (valLines d ds) :=
  valueLines_isLines d hp ds.length ds (Nat.le_refl _)

theorem bigStr_isLines (d : Nat) (hp : 1 ≤ perline d) (cplx : Bool) (s : Nat × List Entry) :
    IsLines (fmtInt 8 ((s.2.length : Int) * 2 * (mult cplx : Int) + 1) ++ fmtInt 8 ((s.1 : Int) + 1) ++ ['\n'] ++
        valueLinesFx d (segDs cplx s.2).length (segDs cplx s.2)) (bigStrLines d cplx s) := by
  unfold bigStrLines
  have h1 : ((s.2.length * 2 * mult cplx + 1 : Nat) : Int) = (s.2.length : Int) * 2 * (mult cplx : Int) + 1 := by
    push_cast; rfl
  have h2 : ((s.1 + 1 : Nat) : Int) = (s.1 : Int) + 1 := by push_cast; rfl
  rw [h1, h2]
  have hl : IsLines (fmtInt 8 ((s.2.length : Int) * 2 * (mult cplx : Int) + 1) ++ fmtInt 8 ((s.1 : Int) + 1) ++ ['\n'])
      [fmtInt 8 ((s.2.length : Int) * 2 * (mult cplx : Int) + 1) ++ fmtInt 8 ((s.1 : Int) + 1) ++ ['\n']] := by
    apply intLine_isLines
    intro x hx
    rcases List.mem_append.1 hx with h | h <;> exact fmtInt_fieldChar _ _ x h
  exact hl.append (valLines_isLines d hp _)

theorem nonbigStr_isLines (d : Nat) (hp : 1 ≤ perline d) (cplx : Bool) (s : Nat × List Entry) :
    IsLines (fmtInt 11 ((packIS (s.1 + 1) (s.2.length * 2 * mult cplx) : Nat) : Int) ++ ['\n'] ++
        valueLinesFx d (segDs cplx s.2).length (segDs cplx s.2)) (nonbigStrLines d cplx s) := by
  unfold nonbigStrLines
  have hl : IsLines (fmtInt 11 ((packIS (s.1 + 1) (s.2.length * 2 * mult cplx) : Nat) : Int) ++ ['\n'])
      [fmtInt 11 ((packIS (s.1 + 1) (s.2.length * 2 * mult cplx) : Nat) : Int) ++ ['\n']] :=
    intLine_isLines _ (fmtInt_fieldChar _ _)
  exact hl.append (valLines_isLines d hp _)

/-- the text the column writer prints is exactly the lines of the column's record -/
theorem ascCol_nonzero (d : Nat) (hp : 1 ≤ perline d) (lay : Layout) (cplx : Bool) (c : Nat) (col : List Entry)
    (s : Nat) (tl : List Nat) (h : nzIdx cplx col = s :: tl) :
    IsLines (ascCol d lay cplx c col) (arecOf d lay cplx c col s tl).lines := by
  cases lay
  · -- dense
    simp only [ascCol, ascColDenseFx]
    split
    · next h' => rw [h] at h'; cases h'
    · next s' tl' h' =>
      rw [h] at h'
      cases h'
      simp only [arecOf, ARec.lines, ARec.head]
      have h1 : ((c + 1 : Nat) : Int) = (c : Int) + 1 := by push_cast; rfl
      have h2 : ((s + 1 : Nat) : Int) = (s : Int) + 1 := by push_cast; rfl
      rw [h1, h2]
      exact (intLine3_isLines _ _ _).append (valLines_isLines d hp _)
  · -- bigmat
    simp only [ascCol, ascColBigFx]
    have hne := strings_ne_nil cplx col s tl h
    split
    · next h' => exact absurd h' hne
    · simp only [arecOf, ARec.lines, ARec.head]
      have h1 : ((c + 1 : Nat) : Int) = (c : Int) + 1 := by push_cast; rfl
      rw [h1]
      have hhead := intLine3_isLines ((c : Int) + 1) ((0 : Nat) : Int) ((nwordsBig cplx (strings cplx col) : Nat) : Int)
      have hbody := IsLines.flatMap (fun s : Nat × List Entry =>
          fmtInt 8 ((s.2.length : Int) * 2 * (mult cplx : Int) + 1) ++ fmtInt 8 ((s.1 : Int) + 1) ++ ['\n'] ++
            valueLinesFx d (segDs cplx s.2).length (segDs cplx s.2)) (bigStrLines d cplx) (strings cplx col)
        (fun s _ => bigStr_isLines d hp cplx s)
      exact hhead.append hbody
  · -- nonbigmat
    simp only [ascCol, ascColNonbigFx]
    have hne := strings_ne_nil cplx col s tl h
    split
    · next h' => exact absurd h' hne
    · simp only [arecOf, ARec.lines, ARec.head]
      have h1 : ((c + 1 : Nat) : Int) = (c : Int) + 1 := by push_cast; rfl
      rw [h1]
      have hhead := intLine3_isLines ((c : Int) + 1) ((0 : Nat) : Int) ((nwordsNonbig cplx (strings cplx col) : Nat) : Int)
      have hbody := IsLines.flatMap (fun s : Nat × List Entry =>
          fmtInt 11 ((packIS (s.1 + 1) (s.2.length * 2 * mult cplx) : Nat) : Int) ++ ['\n'] ++
            valueLinesFx d (segDs cplx s.2).length (segDs cplx s.2)) (nonbigStrLines d cplx) (strings cplx col)
        (fun s _ => nonbigStr_isLines d hp cplx s)
      exact hhead.append hbody

theorem ascCol_zero (d : Nat) (lay : Layout) (cplx : Bool) (c : Nat) (col : List Entry)
    (h : nzIdx cplx col = []) : ascCol d lay cplx c col = [] := by
  cases lay
  · simp [ascCol, ascColDenseFx, h]
  · simp [ascCol, ascColBigFx, strings_nil cplx col h]
  · simp [ascCol, ascColNonbigFx, strings_nil cplx col h]

theorem ascCols_isLines (d : Nat) (hp : 1 ≤ perline d) (lay : Layout) (cplx : Bool) :
    ∀ (cols : List (List Entry)) (c : Nat),
      IsLines (ascCols (ascCol d lay cplx) c cols) ((arecsOf d lay cplx c cols).flatMap ARec.lines) := by
  intro cols
  induction cols with
  | nil => intro c; exact IsLines.nil
  | cons col t ih =>
    intro c
    unfold ascCols arecsOf
    split
    · next h => rw [ascCol_zero d lay cplx c col h]; simpa using ih (c + 1)
    · next s tl h =>
      simp only [List.flatMap_cons]
      exact (ascCol_nonzero d hp lay cplx c col s tl h).append (ih (c + 1))

/-! ### the records are consumed by the column loops -/

theorem mem_strings (cplx : Bool) (col : List Entry) (s : Nat × List Entry) (hs : s ∈ strings cplx col) :
    s.1 + s.2.length ≤ col.length ∧ 1 ≤ s.2.length ∧ ∀ x ∈ s.2, x ∈ col := by
  simp only [strings, List.mem_map] at hs
  obtain ⟨q, hq, rfl⟩ := hs
  have hr := run_in_range cplx col q hq
  have hpos := colStats_pos _ q hq
  refine ⟨by simp <;> omega, by simp <;> omega, ?_⟩
  intro x hx
  exact List.mem_of_mem_drop (List.mem_of_mem_take hx)

theorem mem_segDs (cplx : Bool) (seg : List Entry) (b : Nat) (hb : b ∈ segDs cplx seg) :
    ∃ x ∈ seg, b ∈ entryDs cplx x := by
  simpa [segDs, List.mem_flatMap] using hb

theorem flatMap_length_ge {α β} (f : α → List β) (xs : List α) (h : ∀ x ∈ xs, 1 ≤ (f x).length) :
    xs.length ≤ (xs.flatMap f).length := by
  induction xs with
  | nil => simp
  | cons x t ih =>
    have h1 := h x List.mem_cons_self
    have h2 := ih fun y hy => h y (List.mem_cons_of_mem _ hy)
    simp only [List.flatMap_cons, List.length_append, List.length_cons]
    omega

theorem arecOf_good (g : Cfg) (d : Nat) (cplx : Bool) (hg : GoodCfg g d cplx) (hd : 1 ≤ d) (hp : 1 ≤ perline d)
    (lay : Layout) (ncols c : Nat) (col : List Entry) (s : Nat) (tl : List Nat) (h : nzIdx cplx col = s :: tl)
    (hc : c < ncols) (hn : ncols + 1 < 10 ^ 8) (hrows : 6 * col.length < 10 ^ 8)
    (hnb : lay = .nonbigmat → col.length < 65536)
    (hfit : ∀ x ∈ col, ∀ b ∈ entryDs cplx x, Fits d b) :
    (arecOf d lay cplx c col s tl).Good g lay ncols := by
  have hs_mem : s ∈ nzIdx cplx col := by rw [h]; exact List.mem_cons_self
  obtain ⟨xs, hxs, _⟩ := (mem_nzIdx _ _ _).1 hs_mem
  have hs_lt : s < col.length := (List.getElem?_eq_some_iff.1 hxs).1
  have hm := mult_le_two cplx
  have hb := nwords_bound cplx col
  have fitN : ∀ k : Nat, k < 10 ^ 8 → IntFits 8 (k : Int) := fun k hk => intFits_nat 8 k (by omega) hk
  cases lay
  · -- dense
    have hseg : (denseSeg col s tl).length ≤ col.length := by unfold denseSeg; simp <;> omega
    have hmul : (segDs cplx (denseSeg col s tl)).length ≤ 2 * col.length := by
      rw [segDs_length]
      have := Nat.mul_le_mul hseg hm.1; omega
    refine ⟨hc, fitN _ (by simp only [arecOf]; omega), fitN _ (by simp only [arecOf]; omega),
      fitN _ (by simp only [arecOf]; omega), (fun _ => by simp only [arecOf]; omega), ?_⟩
    intro tail
    simp only [arecOf, bodyA]
    obtain ⟨blk, hblk, hvals⟩ := readVals_valLines g d cplx hg hd hp (denseSeg col s tl)
      (fun b hb => by
        obtain ⟨x, hx, hbx⟩ := mem_segDs cplx _ b hb
        exact hfit x (List.mem_of_mem_drop (List.mem_of_mem_take hx)) b hbx) tail
    rw [hblk]
    simp only [hvals, Option.map_some, Nat.add_sub_cancel]
  · -- bigmat
    refine ⟨hc, fitN _ (by simp only [arecOf]; omega), fitN _ (by simp only [arecOf]; omega),
      fitN _ (by simp only [arecOf]; omega), (fun hh => nomatch hh), ?_⟩
    intro tail
    simp only [arecOf, bodyA]
    apply rdStrBig_enc g d cplx hg hd hp tail
    · rw [List.length_append]
      have := flatMap_length_ge (bigStrLines d cplx) (strings cplx col) (fun x _ => by simp [bigStrLines])
      omega
    · intro s' hs' b hb
      obtain ⟨x, hx, hbx⟩ := mem_segDs cplx _ b hb
      exact hfit x ((mem_strings cplx col s' hs').2.2 x hx) b hbx
    · intro s' hs'
      obtain ⟨h1, h2, _⟩ := mem_strings cplx col s' hs'
      have : s'.2.length * 2 * mult cplx ≤ 4 * col.length := by
        have h3 : s'.2.length ≤ col.length := by omega
        have := Nat.mul_le_mul h3 hm.1
        have e : s'.2.length * 2 * mult cplx = 2 * (s'.2.length * mult cplx) := by ring
        omega
      constructor <;> omega
  · -- nonbigmat
    refine ⟨hc, fitN _ (by simp only [arecOf]; omega), fitN _ (by simp only [arecOf]; omega),
      fitN _ (by simp only [arecOf]; omega), (fun hh => nomatch hh), ?_⟩
    intro tail
    simp only [arecOf, bodyA]
    apply rdStrNonbig_enc g d cplx hg hd hp tail
    · rw [List.length_append]
      have := flatMap_length_ge (nonbigStrLines d cplx) (strings cplx col) (fun x _ => by simp [nonbigStrLines])
      omega
    · intro s' hs' b hb
      obtain ⟨x, hx, hbx⟩ := mem_segDs cplx _ b hb
      exact hfit x ((mem_strings cplx col s' hs').2.2 x hx) b hbx
    · exact strings_rows cplx col (hnb rfl)

theorem arecsOf_good (g : Cfg) (d : Nat) (cplx : Bool) (hg : GoodCfg g d cplx) (hd : 1 ≤ d) (hp : 1 ≤ perline d)
    (lay : Layout) (ncols rows : Nat) (hn : ncols + 1 < 10 ^ 8) (hrows : 6 * rows < 10 ^ 8)
    (hnb : lay = .nonbigmat → rows < 65536) :
    ∀ (cols : List (List Entry)) (c : Nat), c + cols.length ≤ ncols → (∀ col ∈ cols, col.length = rows) →
      (∀ col ∈ cols, ∀ x ∈ col, ∀ b ∈ entryDs cplx x, Fits d b) →
      ∀ rc ∈ arecsOf d lay cplx c cols, rc.Good g lay ncols := by
  intro cols
  induction cols with
  | nil => intro c _ _ _ rc hrc; simp [arecsOf] at hrc
  | cons col t ih =>
    intro c hc hl hfit rc hrc
    have hcl := hl col List.mem_cons_self
    have iht := ih (c + 1) (by simp at hc ⊢; omega) (fun x hx => hl x (List.mem_cons_of_mem _ hx))
      (fun x hx => hfit x (List.mem_cons_of_mem _ hx))
    unfold arecsOf at hrc
    split at hrc
    · exact iht rc hrc
    · next s tl h =>
      rcases List.mem_cons.1 hrc with rfl | hrc
      · exact arecOf_good g d cplx hg hd hp lay ncols c col s tl h (by simp at hc; omega) hn (by omega)
          (fun hh => by have := hnb hh; omega) (hfit col List.mem_cons_self)
      · exact iht rc hrc

/-! ### the title line -/

theorem rstrip_line (body : Str) (h : ∀ l, body.getLast? = some l → isWs l = false) :
    rstrip (body ++ ['\n']) = body := by
  unfold rstrip
  rw [List.reverse_append]
  have hnl : isWs '\n' = true := by decide
  simp only [List.reverse_singleton, List.singleton_append, List.dropWhile_cons, hnl, if_true]
  cases hb : body.reverse with
  | nil =>
    have : body = [] := by simpa using hb
    simp [this]
  | cons x t =>
    have hx : body.getLast? = some x := by rw [List.getLast?_eq_head?_reverse, hb]; rfl
    simp only [List.dropWhile_cons, h x hx, Bool.false_eq_true, if_false]
    rw [← hb]; exact List.reverse_reverse body

theorem isDigit_toNat (c : Char) (h : c.isDigit = true) : 48 ≤ c.toNat ∧ c.toNat ≤ 57 := by
  simp only [Char.isDigit, Bool.and_eq_true, decide_eq_true_eq] at h
  have a : '0'.val ≤ c.val := h.1
  have b : c.val ≤ '9'.val := h.2
  rw [UInt32.le_iff_toNat_le] at a b
  exact ⟨a, b⟩

theorem upperC_digit (c : Char) (h : c.isDigit = true) : upperC c = c := by
  have := isDigit_toNat c h
  unfold upperC
  rw [if_neg (by omega)]

/-- the announced format `1P,{P}E{N}.{D}` -/
def specOf (P N D : Nat) : Str :=
  ['1', 'P', ','] ++ (Nat.toDigits 10 P ++ 'E' :: (Nat.toDigits 10 N ++ '.' :: Nat.toDigits 10 D))

theorem mem_specOf (P N D : Nat) (x : Char) (hx : x ∈ specOf P N D) :
    x = '1' ∨ x = 'P' ∨ x = ',' ∨ x = 'E' ∨ x = '.' ∨ x.isDigit = true := by
  simp only [specOf, List.mem_append, List.mem_cons, List.not_mem_nil, or_false] at hx
  rcases hx with (h | h | h) | h | h | h | h | h
  · exact Or.inl h
  · exact Or.inr (Or.inl h)
  · exact Or.inr (Or.inr (Or.inl h))
  · exact Or.inr (Or.inr (Or.inr (Or.inr (Or.inr (toDigits_isDigit _ x h)))))
  · exact Or.inr (Or.inr (Or.inr (Or.inl h)))
  · exact Or.inr (Or.inr (Or.inr (Or.inr (Or.inr (toDigits_isDigit _ x h)))))
  · exact Or.inr (Or.inr (Or.inr (Or.inr (Or.inl h))))
  · exact Or.inr (Or.inr (Or.inr (Or.inr (Or.inr (toDigits_isDigit _ x h)))))

theorem pyInt_toDigits (k : Nat) : pyInt? (Nat.toDigits 10 k) = some (k : Int) := by
  have := pyInt_intChars [] [] (k : Int) (by simp) (by simp)
  have hk : intChars (k : Int) = Nat.toDigits 10 k := by
    unfold intChars
    have : ¬ ((k : Int) < 0) := by omega
    simp [this]
  simpa [hk] using this

theorem parseFormat_specOf (P N D : Nat) (hP : 1 ≤ P) (hN : 1 ≤ N) :
    parseFormat (specOf P N D) = some (P, N) := by
  have hws : ∀ x ∈ specOf P N D, isWs x = false := by
    intro x hx
    rcases mem_specOf P N D x hx with h | h | h | h | h | h
    · rw [h]; decide
    · rw [h]; decide
    · rw [h]; decide
    · rw [h]; decide
    · rw [h]; decide
    · exact isDigit_not_ws x h
  have hup : (specOf P N D).map upperC = specOf P N D := by
    have : ∀ x ∈ specOf P N D, upperC x = x := by
      intro x hx
      rcases mem_specOf P N D x hx with h | h | h | h | h | h
      · rw [h]; decide
      · rw [h]; decide
      · rw [h]; decide
      · rw [h]; decide
      · rw [h]; decide
      · exact upperC_digit x h
    conv => rhs; rw [← List.map_id (specOf P N D)]
    exact List.map_congr_left this
  have hstrip : strip (specOf P N D) = specOf P N D := by
    have := strip_body [] (specOf P N D) [] (by simp) (by simp) hws
    simpa using this
  unfold parseFormat
  rw [hstrip, hup]
  have h3 : "1P,".toList = ['1', 'P', ','] := by rfl
  have hpre : (['1', 'P', ','] : Str).isPrefixOf (specOf P N D) = true := by
    simp [specOf, List.isPrefixOf]
  have hdrop : (specOf P N D).drop 3 = Nat.toDigits 10 P ++ 'E' :: (Nat.toDigits 10 N ++ '.' :: Nat.toDigits 10 D) := by
    simp [specOf]
  simp only [h3, hpre, if_true, hdrop]
  have hnotE : ∀ x ∈ Nat.toDigits 10 P, (!(x == 'E' || x == 'D')) = true := by
    intro x hx
    have := isDigit_toNat x (toDigits_isDigit _ x hx)
    have h1 : (x == 'E') = false := by
      rw [beq_eq_false_iff_ne]; intro h; rw [h] at this; revert this; decide
    have h2 : (x == 'D') = false := by
      rw [beq_eq_false_iff_ne]; intro h; rw [h] at this; revert this; decide
    simp [h1, h2]
  have htw : (Nat.toDigits 10 P ++ 'E' :: (Nat.toDigits 10 N ++ '.' :: Nat.toDigits 10 D)).takeWhile
      (fun c => !(c == 'E' || c == 'D')) = Nat.toDigits 10 P := by
    rw [takeWhile_all _ _ hnotE]; simp
  rw [htw]
  have hPpos : 0 < (Nat.toDigits 10 P).length := Nat.length_toDigits_pos
  have hlen : (Nat.toDigits 10 P).length <
      (Nat.toDigits 10 P ++ 'E' :: (Nat.toDigits 10 N ++ '.' :: Nat.toDigits 10 D)).length := by simp
  rw [if_pos ⟨hlen, hPpos⟩, List.take_left, List.drop_append]
  have hnodot : ∀ x ∈ Nat.toDigits 10 N, (x != '.') = true := by
    intro x hx
    have := isDigit_toNat x (toDigits_isDigit _ x hx)
    simp only [bne_iff_ne]
    intro h; rw [h] at this; revert this; decide
  have hd1 : (List.drop ((Nat.toDigits 10 P).length + 1 - (Nat.toDigits 10 P).length)
      ('E' :: (Nat.toDigits 10 N ++ '.' :: Nat.toDigits 10 D))) = Nat.toDigits 10 N ++ '.' :: Nat.toDigits 10 D := by
    have : (Nat.toDigits 10 P).length + 1 - (Nat.toDigits 10 P).length = 1 := by omega
    rw [this]; rfl
  rw [List.drop_of_length_le (by omega), List.nil_append, hd1, takeWhile_all _ _ hnodot]
  simp only [List.takeWhile_cons, bne_self_eq_false, Bool.false_eq_true, if_false, List.append_nil,
    pyInt_toDigits]
  have : (1 : Int) ≤ (P : Int) ∧ (1 : Int) ≤ (N : Int) := by omega
  simp [this]

theorem header_slices (f1 f2 f3 f4 nm rest : Str) (w : Nat) (h1 : f1.length = w) (h2 : f2.length = w)
    (h3 : f3.length = 8) (h4 : f4.length = 8) (h5 : nm.length = 8) :
    slice (f1 ++ f2 ++ f3 ++ f4 ++ nm ++ rest) 0 w = f1 ∧
    slice (f1 ++ f2 ++ f3 ++ f4 ++ nm ++ rest) w (2 * w) = f2 ∧
    slice (f1 ++ f2 ++ f3 ++ f4 ++ nm ++ rest) (2 * w) (2 * w + 8) = f3 ∧
    slice (f1 ++ f2 ++ f3 ++ f4 ++ nm ++ rest) (2 * w + 8) (2 * w + 16) = f4 ∧
    slice (f1 ++ f2 ++ f3 ++ f4 ++ nm ++ rest) (2 * w + 16) (2 * w + 24) = nm ∧
    (f1 ++ f2 ++ f3 ++ f4 ++ nm ++ rest).drop (2 * w + 24) = rest ∧
    (f1 ++ f2 ++ f3 ++ f4 ++ nm ++ rest).length = 2 * w + 24 + rest.length := by
  refine ⟨?_, ?_, ?_, ?_, ?_, ?_, ?_⟩
  · have := slice_mid [] f1 (f2 ++ (f3 ++ (f4 ++ (nm ++ rest))))
    simpa [h1, List.append_assoc] using this
  · have := slice_mid f1 f2 (f3 ++ (f4 ++ (nm ++ rest)))
    rw [h1, h2] at this
    have e : w + w = 2 * w := by omega
    rw [e] at this
    simpa [List.append_assoc] using this
  · have := slice_mid (f1 ++ f2) f3 (f4 ++ (nm ++ rest))
    rw [List.length_append, h1, h2, h3] at this
    have e : w + w = 2 * w := by omega
    rw [e] at this
    simpa [List.append_assoc] using this
  · have := slice_mid (f1 ++ f2 ++ f3) f4 (nm ++ rest)
    rw [List.length_append, List.length_append, h1, h2, h3, h4] at this
    have e : w + w + 8 = 2 * w + 8 := by omega
    have e2 : 2 * w + 8 + 8 = 2 * w + 16 := by omega
    rw [e, e2] at this
    simpa [List.append_assoc] using this
  · have := slice_mid (f1 ++ f2 ++ f3 ++ f4) nm rest
    rw [List.length_append, List.length_append, List.length_append, h1, h2, h3, h4, h5] at this
    have e : w + w + 8 + 8 = 2 * w + 16 := by omega
    have e2 : 2 * w + 16 + 8 = 2 * w + 24 := by omega
    rw [e, e2] at this
    exact this
  · have hl : (f1 ++ f2 ++ f3 ++ f4 ++ nm).length = 2 * w + 24 := by
      simp only [List.length_append, h1, h2, h3, h4, h5]; omega
    rw [← hl, List.drop_left]
  · simp only [List.length_append, h1, h2, h3, h4, h5]; omega

theorem getLast_nonws (pre tail : Str) (hne : tail ≠ []) (h : ∀ x ∈ tail, isWs x = false) :
    ∀ l, (pre ++ tail).getLast? = some l → isWs l = false := by
  intro l hl
  rw [List.getLast?_append] at hl
  cases ht : tail.getLast? with
  | none => exact absurd (List.getLast?_eq_none_iff.1 ht) hne
  | some y =>
    rw [ht] at hl
    have hy : y = l := by simpa using hl
    rw [← hy]
    exact h y (List.mem_of_getLast? ht)

theorem isSuffixOf_false_of_not_mem (p l : Str) (c : Char) (hc : c ∈ p) (h : c ∉ l) : p.isSuffixOf l = false := by
  cases hs : p.isSuffixOf l with
  | false => rfl
  | true =>
    have := List.isSuffixOf_iff_suffix.1 hs
    exact absurd (this.subset hc) h

theorem specOf_not_ws (P N D : Nat) : ∀ x ∈ specOf P N D, isWs x = false := by
  intro x hx
  rcases mem_specOf P N D x hx with h | h | h | h | h | h
  · rw [h]; decide
  · rw [h]; decide
  · rw [h]; decide
  · rw [h]; decide
  · rw [h]; decide
  · exact isDigit_not_ws x h

theorem specOf_ne_bar (P N D : Nat) : '|' ∉ specOf P N D := by
  intro hx
  rcases mem_specOf P N D _ hx with h | h | h | h | h | h <;> revert h <;> decide

theorem specOf_ne_nil (P N D : Nat) : specOf P N D ≠ [] := by simp [specOf]

/-- the title line of `_loadop4_ascii`, generically: two integer fields of width `w` (8, or 16 with the
`|I16` suffix), form and type in 8, the name in 8, the announced format -/
theorem rdHeader_generic (i16 : Bool) (c r f t : Int) (nm : Str) (P N D : Nat) (hP : 1 ≤ P) (hN : 1 ≤ N)
    (hc : IntFits (if i16 then 16 else 8) c) (hr : IntFits (if i16 then 16 else 8) r) (hf : IntFits 8 f)
    (ht : IntFits 8 t) (hnm : nm.length = 8) (hnobar : '|' ∉ nm) :
    rdHeader (fmtInt (if i16 then 16 else 8) c ++ fmtInt (if i16 then 16 else 8) r ++ fmtInt 8 f ++ fmtInt 8 t ++ nm
        ++ (specOf P N D ++ (if i16 then "|I16".toList else [])) ++ ['\n'])
      = some (some { cols := c, rows := r, form := f, mtype := t, name := nm, perline := P, numlen := N }) := by
  have h4 : "|I16".toList = ['|', 'I', '1', '6'] := by rfl
  have l1 := fmtInt_length _ c hc
  have l2 := fmtInt_length _ r hr
  have l3 := fmtInt_length 8 f hf
  have l4 := fmtInt_length 8 t ht
  unfold rdHeader
  cases i16 with
  | false =>
    simp only [Bool.false_eq_true, if_false, List.append_nil] at l1 l2 ⊢
    rw [rstrip_line _ (getLast_nonws _ _ (specOf_ne_nil P N D) (specOf_not_ws P N D))]
    have hne : (fmtInt 8 c ++ fmtInt 8 r ++ fmtInt 8 f ++ fmtInt 8 t ++ nm ++ specOf P N D).isEmpty = false := by
      have := specOf_ne_nil P N D
      cases hsp : specOf P N D with
      | nil => exact absurd hsp this
      | cons a b => simp
    have hsuf : "|I16".toList.isSuffixOf (fmtInt 8 c ++ fmtInt 8 r ++ fmtInt 8 f ++ fmtInt 8 t ++ nm ++ specOf P N D)
        = false := by
      apply isSuffixOf_false_of_not_mem _ _ '|' (by rw [h4]; simp)
      intro hx
      simp only [List.mem_append] at hx
      rcases hx with ((((h | h) | h) | h) | h) | h
      · exact (fmtInt_fieldChar _ _ _ h).ne_bar rfl
      · exact (fmtInt_fieldChar _ _ _ h).ne_bar rfl
      · exact (fmtInt_fieldChar _ _ _ h).ne_bar rfl
      · exact (fmtInt_fieldChar _ _ _ h).ne_bar rfl
      · exact hnobar h
      · exact specOf_ne_bar P N D h
    obtain ⟨s1, s2, s3, s4, s5, s6, s7⟩ := header_slices _ _ _ _ nm (specOf P N D) 8 l1 l2 l3 l4 hnm
    simp only [hne, hsuf, Bool.false_eq_true, if_false, hdrWidthSmall]
    have e1 : 2 * 8 = 16 := rfl
    have e2 : 2 * 8 + 8 = 24 := rfl
    have e3 : 2 * 8 + 16 = 32 := rfl
    have e4 : 2 * 8 + 24 = 40 := rfl
    simp only [e1, e2, e3, e4] at s2 s3 s4 s5 s6 s7 ⊢
    rw [s1, s2, s3, s4, s5, s6, pyInt_fmtInt', pyInt_fmtInt', pyInt_fmtInt', pyInt_fmtInt']
    have hlen : (fmtInt 8 c ++ fmtInt 8 r ++ fmtInt 8 f ++ fmtInt 8 t ++ nm ++ specOf P N D).length > 40 := by
      rw [s7]
      have := List.length_pos_iff.2 (specOf_ne_nil P N D)
      omega
    simp only [hlen, if_true, parseFormat_specOf P N D hP hN]
  | true =>
    simp only [if_true] at l1 l2 ⊢
    rw [h4]
    have hlast : ∀ x ∈ specOf P N D ++ ['|', 'I', '1', '6'], isWs x = false := by
      intro x hx
      rcases List.mem_append.1 hx with h | h
      · exact specOf_not_ws P N D x h
      · simp only [List.mem_cons, List.not_mem_nil, or_false] at h
        rcases h with h | h | h | h <;> rw [h] <;> decide
    rw [rstrip_line _ (getLast_nonws _ _ (by simp) hlast)]
    have hne : (fmtInt 16 c ++ fmtInt 16 r ++ fmtInt 8 f ++ fmtInt 8 t ++ nm ++
        (specOf P N D ++ ['|', 'I', '1', '6'])).isEmpty = false := by simp
    have hsuf : (['|', 'I', '1', '6'] : Str).isSuffixOf (fmtInt 16 c ++ fmtInt 16 r ++ fmtInt 8 f ++ fmtInt 8 t ++ nm ++
        (specOf P N D ++ ['|', 'I', '1', '6'])) = true := by
      rw [List.isSuffixOf_iff_suffix, ← List.append_assoc]
      exact List.suffix_append _ _
    have htake : (fmtInt 16 c ++ fmtInt 16 r ++ fmtInt 8 f ++ fmtInt 8 t ++ nm ++ (specOf P N D ++ ['|', 'I', '1', '6'])).take
        ((fmtInt 16 c ++ fmtInt 16 r ++ fmtInt 8 f ++ fmtInt 8 t ++ nm ++ (specOf P N D ++ ['|', 'I', '1', '6'])).length - 4)
        = fmtInt 16 c ++ fmtInt 16 r ++ fmtInt 8 f ++ fmtInt 8 t ++ nm ++ specOf P N D := by
      rw [← List.append_assoc]
      have : ((fmtInt 16 c ++ fmtInt 16 r ++ fmtInt 8 f ++ fmtInt 8 t ++ nm ++ specOf P N D) ++ ['|', 'I', '1', '6']).length - 4
          = (fmtInt 16 c ++ fmtInt 16 r ++ fmtInt 8 f ++ fmtInt 8 t ++ nm ++ specOf P N D).length := by
        rw [List.length_append]; simp
      rw [this, List.take_left]
    obtain ⟨s1, s2, s3, s4, s5, s6, s7⟩ := header_slices _ _ _ _ nm (specOf P N D) 16 l1 l2 l3 l4 hnm
    simp only [hne, hsuf, Bool.false_eq_true, if_false, if_true, htake, hdrWidthBig]
    have e1 : 2 * 16 = 32 := rfl
    have e2 : 2 * 16 + 8 = 40 := rfl
    have e3 : 2 * 16 + 16 = 48 := rfl
    have e4 : 2 * 16 + 24 = 56 := rfl
    simp only [e1, e2, e3, e4] at s2 s3 s4 s5 s6 s7 ⊢
    rw [s1, s2, s3, s4, s5, s6, pyInt_fmtInt', pyInt_fmtInt', pyInt_fmtInt', pyInt_fmtInt']
    have hlen : (fmtInt 16 c ++ fmtInt 16 r ++ fmtInt 8 f ++ fmtInt 8 t ++ nm ++ specOf P N D).length > 56 := by
      rw [s7]
      have := List.length_pos_iff.2 (specOf_ne_nil P N D)
      omega
    simp only [hlen, if_true, parseFormat_specOf P N D hP hN]

/-! ### a whole matrix -/

/-- the name field of the title line: upper case, padded to 8 -/
def nameStr (name : List Nat) : Str := (name.map upperB).map Char.ofNat ++ List.replicate (8 - name.length) ' '

structure WfA (m : Mat) : Prop where
  cols_len : ∀ col ∈ m.cols, col.length = m.rows
  rows_lt : 6 * m.rows < 10 ^ 8
  ncols_lt : m.cols.length + 1 < 10 ^ 8
  form_lt : m.form < 10 ^ 8
  name_ident : isIdent m.name = true
  name_len : m.name.length ≤ 8

theorem ofNat_toNat (b : Nat) (h : b < 128) : (Char.ofNat b).toNat = b := by
  have hv : b.isValidChar := by left; omega
  simp [Char.ofNat, hv, Char.toNat, Char.ofNatAux]

theorem nameStr_length (name : List Nat) (h : name.length ≤ 8) : (nameStr name).length = 8 := by
  simp [nameStr]; omega

theorem nameStr_chars (name : List Nat) (h : isIdent name = true) :
    ∀ x ∈ nameStr name, x ≠ '|' ∧ x ≠ '\n' := by
  intro x hx
  simp only [nameStr, List.mem_append, List.mem_map] at hx
  rcases hx with ⟨b', ⟨b, hb, rfl⟩, rfl⟩ | hx
  · have hal := (List.all_eq_true.1 (isIdent_all name h)) b hb
    rw [isAlnumU_iff] at hal
    have hu : upperB b < 128 ∧ upperB b ≠ 124 ∧ upperB b ≠ 10 := by
      unfold upperB; split <;> omega
    have := ofNat_toNat (upperB b) hu.1
    constructor
    · intro hc; rw [hc] at this; have : (124 : Nat) = upperB b := this; omega
    · intro hc; rw [hc] at this; have : (10 : Nat) = upperB b := this; omega
  · rw [List.eq_of_mem_replicate hx]; constructor <;> decide

/-- what `_loadop4_ascii` reads from the title line -/
def hdrOf (d : Nat) (m : Mat) (big : Bool) : Hdr :=
  { cols := (m.cols.length : Int), rows := if big then -(m.rows : Int) else (m.rows : Int), form := (m.form : Int),
    mtype := (mtypeOf m.cplx : Int), name := nameStr m.name, perline := perline d, numlen := numlen d }

theorem asciiHeader_eq (d : Nat) (m : Mat) (big : Bool) :
    asciiHeader d m big =
      fmtInt (if decide (m.rows > 9999999) then 16 else 8) (m.cols.length : Int) ++
        fmtInt (if decide (m.rows > 9999999) then 16 else 8) (if big then -(m.rows : Int) else (m.rows : Int)) ++
        fmtInt 8 (m.form : Int) ++ fmtInt 8 (mtypeOf m.cplx : Int) ++ nameStr m.name ++
        (specOf (perline d) (numlen d) d ++ (if decide (m.rows > 9999999) then "|I16".toList else [])) ++ ['\n'] := by
  unfold asciiHeader nameStr specOf
  have h3 : "1P,".toList = ['1', 'P', ','] := by rfl
  by_cases h : m.rows > 9999999
  · simp [h, h3, List.append_assoc]
  · simp [h, h3, List.append_assoc]

theorem mtype_fits (cplx : Bool) : IntFits 8 (mtypeOf cplx : Int) := by
  cases cplx <;> exact intFits_nat 8 _ (by omega) (by simp [mtypeOf])

theorem rdHeader_asciiHeader (d : Nat) (m : Mat) (big : Bool) (hwf : WfA m) (hp : 1 ≤ perline d) :
    rdHeader (asciiHeader d m big) = some (some (hdrOf d m big)) := by
  rw [asciiHeader_eq]
  have hN := numlen_pos d
  have hnm := nameStr_length m.name hwf.name_len
  have hbar : '|' ∉ nameStr m.name := fun hx => (nameStr_chars m.name hwf.name_ident _ hx).1 rfl
  have hrows := hwf.rows_lt
  have hncols := hwf.ncols_lt
  have hform := hwf.form_lt
  apply rdHeader_generic (decide (m.rows > 9999999)) _ _ _ _ _ _ _ d hp hN _ _ _ (mtype_fits m.cplx) hnm hbar
  · -- cols
    by_cases h : m.rows > 9999999
    · simp only [h, decide_true, if_true]; exact intFits_nat 16 _ (by omega) (by omega)
    · simp only [h, decide_false, Bool.false_eq_true, if_false]; exact intFits_nat 8 _ (by omega) (by omega)
  · -- rows
    by_cases h : m.rows > 9999999
    · simp only [h, decide_true, if_true]
      cases big
      · simp only [Bool.false_eq_true, if_false]; exact intFits_nat 16 _ (by omega) (by omega)
      · simp only [if_true]
        have := intChars_length_neg m.rows 15 (by omega) (by omega)
        exact this
    · simp only [h, decide_false, Bool.false_eq_true, if_false]
      cases big
      · simp only [Bool.false_eq_true, if_false]; exact intFits_nat 8 _ (by omega) (by omega)
      · simp only [if_true]
        have := intChars_length_neg m.rows 7 (by omega) (by omega)
        exact this
  · exact intFits_nat 8 _ (by omega) hform

theorem asciiHeader_isLines (d : Nat) (m : Mat) (big : Bool) (hwf : WfA m) :
    IsLines (asciiHeader d m big) [asciiHeader d m big] := by
  rw [asciiHeader_eq]
  apply IsLines.line
  intro c hc
  have h4 : "|I16".toList = ['|', 'I', '1', '6'] := by rfl
  simp only [List.mem_append] at hc
  rcases hc with ((((h | h) | h) | h) | h) | (h | h)
  · exact (fmtInt_fieldChar _ _ c h).ne_nl
  · exact (fmtInt_fieldChar _ _ c h).ne_nl
  · exact (fmtInt_fieldChar _ _ c h).ne_nl
  · exact (fmtInt_fieldChar _ _ c h).ne_nl
  · exact (nameStr_chars m.name hwf.name_ident c h).2
  · rcases mem_specOf _ _ _ c h with h | h | h | h | h | h
    · rw [h]; decide
    · rw [h]; decide
    · rw [h]; decide
    · rw [h]; decide
    · rw [h]; decide
    · intro hc; rw [hc] at h; revert h; decide
  · split at h
    · rw [h4] at h
      simp only [List.mem_cons, List.not_mem_nil, or_false] at h
      rcases h with h | h | h | h <;> rw [h] <;> decide
    · simp at h

/-- the two lines that end a matrix -/
theorem asciiTrailer_isLines (d ncols : Nat) :
    IsLines (asciiTrailerFx d ncols) [trailerHead ncols, fmtEFx d sqrt2Bits ++ ['\n']] := by
  unfold asciiTrailerFx trailerHead
  have h1 : ((ncols + 1 : Nat) : Int) = (ncols : Int) + 1 := by push_cast; rfl
  rw [h1]
  have ha := intLine3_isLines ((ncols : Int) + 1) 1 1
  have hb : IsLines (fmtEFx d sqrt2Bits ++ ['\n']) [fmtEFx d sqrt2Bits ++ ['\n']] :=
    IsLines.line _ fun c hc => (fmtE_fieldChar d _ c hc).ne_nl
  have := ha.append hb
  simpa [intLine3, List.append_assoc] using this

/-- a matrix as lines: title line, the records of the non-zero columns, the two trailer lines -/
def matLines (d : Nat) (lay : Layout) (m : Mat) : List Str :=
  asciiHeader d m (lay == .bigmat) :: ((arecsOf d lay m.cplx 0 m.cols).flatMap ARec.lines ++
    [trailerHead m.cols.length, fmtEFx d sqrt2Bits ++ ['\n']])

theorem encMatAscii_isLines (d : Nat) (hp : 1 ≤ perline d) (lay : Layout) (m : Mat) (hwf : WfA m) :
    IsLines (encMatAsciiFx d lay m) (matLines d lay m) := by
  unfold matLines
  cases lay
  · exact ((asciiHeader_isLines d m false hwf).append (ascCols_isLines d hp .dense m.cplx m.cols 0)).append
      (asciiTrailer_isLines d m.cols.length)
  · exact ((asciiHeader_isLines d m true hwf).append (ascCols_isLines d hp .bigmat m.cplx m.cols 0)).append
      (asciiTrailer_isLines d m.cols.length)
  · exact ((asciiHeader_isLines d m false hwf).append (ascCols_isLines d hp .nonbigmat m.cplx m.cols 0)).append
      (asciiTrailer_isLines d m.cols.length)

theorem arecOf_r (d : Nat) (lay : Layout) (cplx : Bool) (c : Nat) (col : List Entry) (s : Nat) (tl : List Nat) :
    (lay = .dense → 0 < (arecOf d lay cplx c col s tl).r) ∧ (lay ≠ .dense → (arecOf d lay cplx c col s tl).r = 0) := by
  cases lay <;> simp [arecOf]

theorem arecsOf_r (d : Nat) (lay : Layout) (cplx : Bool) :
    ∀ (cols : List (List Entry)) (c : Nat), ∀ rc ∈ arecsOf d lay cplx c cols,
      (lay = .dense → 0 < rc.r) ∧ (lay ≠ .dense → rc.r = 0) := by
  intro cols
  induction cols with
  | nil => intro c rc hrc; simp [arecsOf] at hrc
  | cons col t ih =>
    intro c rc hrc
    unfold arecsOf at hrc
    split at hrc
    · exact ih (c + 1) rc hrc
    · rcases List.mem_cons.1 hrc with rfl | hrc
      · exact arecOf_r d lay cplx c col _ _
      · exact ih (c + 1) rc hrc

theorem arecsOf_ne_nil (d : Nat) (lay : Layout) (cplx : Bool) :
    ∀ (cols : List (List Entry)) (c : Nat), arecsOf d lay cplx c cols ≠ [] → ∃ col ∈ cols, 0 < col.length := by
  intro cols
  induction cols with
  | nil => intro c h; simp [arecsOf] at h
  | cons col t ih =>
    intro c h
    unfold arecsOf at h
    split at h
    · obtain ⟨x, hx, hl⟩ := ih (c + 1) h
      exact ⟨x, List.mem_cons_of_mem _ hx, hl⟩
    · next s tl hnz =>
      have hs_mem : s ∈ nzIdx cplx col := by rw [hnz]; exact List.mem_cons_self
      obtain ⟨xs, hxs, _⟩ := (mem_nzIdx _ _ _).1 hs_mem
      have := (List.getElem?_eq_some_iff.1 hxs).1
      exact ⟨col, List.mem_cons_self, by omega⟩

theorem goodCfg_of_mtype (dformat : Bool) (d : Nat) (cplx : Bool) :
    GoodCfg { dformat := dformat, cplx := decide ((3 : Int) ≤ (mtypeOf cplx : Int)),
              wper := if ((mtypeOf cplx : Nat) : Int) % 2 = 1 then 1 else 2, perline := perline d, numlen := numlen d }
      d cplx := by
  cases cplx <;> simp [GoodCfg, mtypeOf]

theorem lines_length_ge (recs : List ARec) : recs.length ≤ (recs.flatMap ARec.lines).length :=
  flatMap_length_ge _ _ fun rc _ => by simp [ARec.lines]

/-- `_loadop4_ascii` on the lines of a written matrix -/
theorem rdMatrixA_enc (dformat : Bool) (d : Nat) (hd : 1 ≤ d) (hp : 1 ≤ perline d) (lay : Layout) (m : Mat)
    (hwf : WfA m) (hnb : lay = .nonbigmat → m.rows < 65536)
    (hfit : ∀ col ∈ m.cols, ∀ x ∈ col, ∀ b ∈ entryDs m.cplx x, Fits d b) (rest : List Str) :
    ∃ lay' auto, rdMatrixA dformat (matLines d lay m ++ rest) =
      some (some ({ rawName := nameStr m.name,
                    rows := if lay = .bigmat then -(m.rows : Int) else (m.rows : Int),
                    cols := (m.cols.length : Int), form := (m.form : Int), mtype := (mtypeOf m.cplx : Int),
                    perline := perline d, numlen := numlen d, layout := lay', sparseAuto := auto,
                    puts := (arecsOf d lay m.cplx 0 m.cols).flatMap ARec.outPuts }, rest)) := by
  have hgc := goodCfg_of_mtype dformat d m.cplx
  have hrowsb : 6 * m.rows < 10 ^ 8 := hwf.rows_lt
  have hgood := arecsOf_good _ d m.cplx hgc hd hp lay m.cols.length m.rows hwf.ncols_lt hrowsb hnb m.cols 0
    (by omega) hwf.cols_len hfit
  have hnfit : IntFits 8 ((m.cols.length + 1 : Nat) : Int) := intFits_nat 8 _ (by omega) hwf.ncols_lt
  have hrows_eq : (hdrOf d m (lay == .bigmat)).rows = if lay = .bigmat then -(m.rows : Int) else (m.rows : Int) := by
    cases lay <;> simp [hdrOf]
  unfold matLines
  simp only [List.cons_append, rdMatrixA, rdHeader_asciiHeader d m _ hwf hp]
  generalize hrecs : arecsOf d lay m.cplx 0 m.cols = recs at hgood
  cases recs with
  | nil =>
    simp only [List.flatMap_nil, List.nil_append, List.cons_append, trailerHead,
      colHead_intLine3 _ _ _ hnfit intFits_one]
    have hc0 : ((m.cols.length + 1 : Nat) : Int) - 1 = (m.cols.length : Int) := by omega
    rw [hc0]
    have hge : decide ((m.cols.length : Int) ≥ (hdrOf d m (lay == .bigmat)).cols) = true := by simp [hdrOf]
    rw [hge]
    have hcols : (hdrOf d m (lay == .bigmat)).cols = (m.cols.length : Int) := rfl
    rcases hcl : (chooseLayout (hdrOf d m (lay == .bigmat)).rows 1 true).1 with _ | _ | _
    · simp only [hcols, rdDense_succ, Int.lt_irrefl, if_false, List.drop_one, List.tail_cons, hrows_eq]
      exact ⟨_, _, rfl⟩
    · simp only [hcols, rdSparse_succ, Int.lt_irrefl, if_false, List.drop_one, List.tail_cons, hrows_eq]
      exact ⟨_, _, rfl⟩
    · simp only [hcols, rdSparse_succ, Int.lt_irrefl, if_false, List.drop_one, List.tail_cons, hrows_eq]
      exact ⟨_, _, rfl⟩
  | cons hd' t =>
    have hg := hgood hd' List.mem_cons_self
    have hgt : ∀ rc ∈ t, rc.Good _ lay m.cols.length := fun x hx => hgood x (List.mem_cons_of_mem _ hx)
    simp only [List.flatMap_cons, ARec.lines, List.cons_append, ARec.head, colHead_intLine3 _ _ _ hg.fc hg.fr]
    have hc0 : ((hd'.c + 1 : Nat) : Int) - 1 = (hd'.c : Int) := by omega
    rw [hc0]
    have hcge : decide ((hd'.c : Int) ≥ (hdrOf d m (lay == .bigmat)).cols) = false := by
      have := hg.hc; simp [hdrOf]; omega
    have hr := arecsOf_r d lay m.cplx m.cols 0 hd' (by rw [hrecs]; exact List.mem_cons_self)
    obtain ⟨col, hcol, hlen⟩ := arecsOf_ne_nil d lay m.cplx m.cols 0 (by rw [hrecs]; simp)
    have hrows_pos : 0 < m.rows := by rw [← hwf.cols_len col hcol]; exact hlen
    have hlay := chooseLayout_col lay m.rows hd'.r hrows_pos hnb hr.1 hr.2
    rw [hcge, hrows_eq, hlay]
    have hcols : (hdrOf d m (lay == .bigmat)).cols = (m.cols.length : Int) := rfl
    have hmt : (hdrOf d m (lay == .bigmat)).mtype = (mtypeOf m.cplx : Int) := rfl
    have hpl : (hdrOf d m (lay == .bigmat)).perline = perline d := rfl
    have hnl : (hdrOf d m (lay == .bigmat)).numlen = numlen d := rfl
    have hfuel : t.length + 2 ≤ (hd'.body ++ (t.flatMap ARec.lines ++
        (trailerHead m.cols.length :: (fmtEFx d sqrt2Bits ++ ['\n']) :: rest))).length + 1 := by
      have := lines_length_ge t
      simp only [List.length_append, List.length_cons]; omega
    cases lay with
    | dense =>
      have hch := rdDense_chain _ m.cols.length hnfit ((fmtEFx d sqrt2Bits ++ ['\n']) :: rest) t hd' _ [] hfuel hg hgt
      simp only [hcols, hmt, hpl, hnl, ARec.head, List.append_assoc, List.cons_append, List.nil_append] at hch ⊢
      rw [hch]
      simp only [List.drop_one, List.tail_cons, List.nil_append]
      exact ⟨_, _, rfl⟩
    | bigmat =>
      have hch := rdSparse_chain _ true m.cols.length hnfit ((fmtEFx d sqrt2Bits ++ ['\n']) :: rest) t hd' _ [] hfuel hg hgt
      simp only [hcols, hmt, hpl, hnl, ARec.head, List.append_assoc, List.cons_append, List.nil_append] at hch ⊢
      rw [hch]
      simp only [List.drop_one, List.tail_cons, List.nil_append]
      exact ⟨_, _, rfl⟩
    | nonbigmat =>
      have hch := rdSparse_chain _ false m.cols.length hnfit ((fmtEFx d sqrt2Bits ++ ['\n']) :: rest) t hd' _ [] hfuel hg hgt
      simp only [hcols, hmt, hpl, hnl, ARec.head, List.append_assoc, List.cons_append, List.nil_append] at hch ⊢
      rw [hch]
      simp only [List.drop_one, List.tail_cons, List.nil_append]
      exact ⟨_, _, rfl⟩


end PyYetiVerif.Op4AFx
