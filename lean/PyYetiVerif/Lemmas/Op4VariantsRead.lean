import PyYetiVerif.Model.Op4VariantsRead
import PyYetiVerif.Lemmas.Op2ReadMat
/-! C11: the binary OUTPUT4 reader model (Model/Op4VariantsRead.lean) on the pieces the variant encoder
(Model/Op4Variants.lean) writes: keys, record heads, reals on both sides of the cut-off, the string loops of
the bigmat and nonbigmat column readers. -/
namespace PyYetiVerif.Op4VR
open PyYetiVerif.Op4 (Endian Layout chooseLayout checkName)
open PyYetiVerif.Op4V (Variant VStr VMat natBytes intBytes keyBytes realBytes wper strPayload strWords)
open PyYetiVerif.Op2 (V2 kb)
open PyYetiVerif.Op2R (M Err natOfBytes intOfBytes chunks rdI4 rdKeyRaw pyRead seekFwd InKey)
open PyYetiVerif.Generated.Op4Consts

/-- what `_op4open_read` detects of a variant: byte order and key width -/
def v2 (v : Variant) : V2 := ⟨v.e, v.bit64⟩

theorem key_eq (v : Variant) (x : Int) : Op4V.key v x = Op2.key (v2 v) x := rfl
theorem mark_eq (v : Variant) (n : Nat) : Op4V.mark v n = Op2.mark (v2 v) n := rfl
theorem keyBytes_eq (v : Variant) : keyBytes v = kb (v2 v) := rfl
theorem real_eq (v : Variant) (x : Nat) : Op4V.real v x = natBytes v.e (realBytes v) x := rfl

theorem length_key (v : Variant) (x : Int) : (Op4V.key v x).length = kb (v2 v) := Op2R.length_key (v2 v) x
theorem length_mark (v : Variant) (n : Nat) : (Op4V.mark v n).length = 4 := Op2R.length_mark (v2 v) n

theorem wper_cases (v : Variant) : wper v = 1 ∨ wper v = 2 := by
  unfold wper; split
  · exact Or.inl rfl
  · split
    · exact Or.inl rfl
    · exact Or.inr rfl

theorem realBytes_pos (v : Variant) : 0 < realBytes v := by unfold realBytes; split <;> omega

/-- the `if mtype & 1` of `_loadop4_binary` picks the words per real and the bytes per real of the variant -/
theorem cfgOf_enc (v : Variant) (cut : Int) (cplx : Bool) :
    cfgOf (v2 v) cut ((Op4V.mtypeV v cplx : Nat) : Int) = ⟨v2 v, cut, wper v, realBytes v⟩ := by
  unfold cfgOf Op4V.mtypeV wper realBytes v2 kb
  cases v.single <;> cases v.bit64 <;> cases cplx <;> rfl

/-! ### keys and record heads -/

theorem rdI4_mark (v : Variant) (n : Nat) (rest : List Nat) (h : n < 2147483648) :
    rdI4 (v2 v) (Op4V.mark v n ++ rest) = .ok ((n : Int), rest) := Op2R.rdI4_mark (v2 v) n rest h

theorem rdKeyRaw_key (v : Variant) (x : Int) (rest : List Nat) (h : InKey (v2 v) x) :
    rdKeyRaw (v2 v) (Op4V.key v x ++ rest) = .ok (x, rest) := Op2R.rdKeyRaw_key (v2 v) x rest h

theorem drop4_mark (v : Variant) (n : Nat) (rest : List Nat) : (Op4V.mark v n ++ rest).drop 4 = rest :=
  List.drop_left' (length_mark v n)

theorem rdRecHead_enc (v : Variant) (n : Nat) (a b c : Int) (rest : List Nat) (hn : n < 2147483648)
    (ha : InKey (v2 v) a) (hb : InKey (v2 v) b) (hc : InKey (v2 v) c) :
    rdRecHead (v2 v) (Op4V.mark v n ++ (Op4V.key v a ++ (Op4V.key v b ++ (Op4V.key v c ++ rest))))
      = .ok ((n : Int), a, b, c, rest) := by
  simp only [rdRecHead, rdI4_mark v n _ hn, rdKeyRaw_key v _ _ ha, rdKeyRaw_key v _ _ hb, rdKeyRaw_key v _ _ hc]

/-! ### reals: the two paths on either side of `_rowsCutoff` -/

/-- cutting the first `k` pieces out of the prefix that holds them or out of the whole is the same -/
theorem chunks_take (w : Nat) : ∀ (k : Nat) (s : List Nat), k * w ≤ s.length →
    chunks w k (s.take (k * w)) = chunks w k s := by
  intro k
  induction k with
  | zero => intro s _; rfl
  | succ k ih =>
    intro s hav
    rw [Op2R.chunks_succ, Op2R.chunks_succ]
    have h1 : (s.take ((k + 1) * w)).take w = s.take w := by
      rw [List.take_take]; congr 1; rw [Nat.succ_mul]; omega
    have h2 : (s.take ((k + 1) * w)).drop w = (s.drop w).take (k * w) := by
      rw [List.drop_take]; congr 1; rw [Nat.succ_mul]; omega
    rw [h1, h2, ih]
    rw [List.length_drop]; rw [Nat.succ_mul] at hav; omega

/-- **the two value-reading paths are the same function of the bytes**: whenever the announced `n ≥ 0`
reals are there, `struct.unpack(numform % n, fp.read(bytesreal * n))` and `np.fromfile(fp, numform2, n)`
return the same values and leave the same bytes -/
theorem valsStruct_eq_valsFromfile (e : Endian) (w : Nat) (hw : 0 < w) (n : Int) (s : List Nat) (hn : 0 ≤ n)
    (hav : n.toNat * w ≤ s.length) : valsStruct e w n s = valsFromfile e w n s := by
  have hnn : ¬ (n < 0) := by omega
  have hmin : min n.toNat (s.length / w) = n.toNat := by
    apply Nat.min_eq_left
    rw [Nat.le_div_iff_mul_le hw]; exact hav
  have htl : (s.take (n.toNat * w)).length = n.toNat * w := by rw [List.length_take]; omega
  unfold valsStruct valsFromfile
  simp only [hnn, if_false, htl, if_true, hmin, chunks_take w n.toNat s hav]

theorem valsStruct_enc (e : Endian) (w : Nat) (xs rest : List Nat) (h : ∀ x ∈ xs, x < 256 ^ w) :
    valsStruct e w (xs.length : Int) (xs.flatMap (natBytes e w) ++ rest) = .ok (xs, rest) := by
  have hl := Op2R.length_valBytes e w xs
  have hnn : ¬ ((xs.length : Int) < 0) := by omega
  unfold valsStruct
  simp only [Int.toNat_natCast, hnn, if_false, List.take_left' hl, hl, if_true, List.drop_left' hl]
  have := Op2R.chunks_flatMap w (natBytes e w) (fun x => Op2R.length_natBytes e w x) xs []
  rw [List.append_nil] at this
  rw [this, Op2R.map_natOfBytes e w xs h]

/-- both ways of reading the reals of a string return the encoded bit patterns and stop behind them,
whatever the cut-off -/
theorem rdVals_enc (c : Cfg) (hw : 0 < c.rb) (xs rest : List Nat) (h : ∀ x ∈ xs, x < 256 ^ c.rb) :
    rdVals c (xs.length : Int) (xs.flatMap (natBytes c.v.e c.rb) ++ rest) = .ok (xs, rest) := by
  unfold rdVals
  split
  · exact valsStruct_enc c.v.e c.rb xs rest h
  · rw [← valsStruct_eq_valsFromfile c.v.e c.rb hw _ _ (by omega)]
    · exact valsStruct_enc c.v.e c.rb xs rest h
    · rw [Int.toNat_natCast, List.length_append, Op2R.length_valBytes]; omega

/-- `rdVals_enc` for the configuration of a variant -/
theorem rdVals_encV (v : Variant) (cut : Int) (xs rest : List Nat) (h : ∀ x ∈ xs, x < 256 ^ realBytes v) :
    rdVals ⟨v2 v, cut, wper v, realBytes v⟩ (xs.length : Int) (xs.flatMap (natBytes v.e (realBytes v)) ++ rest)
      = .ok (xs, rest) :=
  rdVals_enc ⟨v2 v, cut, wper v, realBytes v⟩ (realBytes_pos v) xs rest h

/-! ### strings -/

/-- what the encoder needs of a string to be readable: reals of the stored width, row and length keys
representable; for the packed nonbigmat header the row must stay below 2¹⁶ -/
structure StrOk (v : Variant) (lay : Layout) (s : VStr) : Prop where
  vals : ∀ x ∈ s.2, x < 256 ^ realBytes v
  row : InKey (v2 v) ((s.1 : Int) + 1)
  len : InKey (v2 v) (((s.2.length * wper v : Nat) : Int) + 1)
  is : lay = .nonbigmat → s.1 + 1 < 65536 ∧
    InKey (v2 v) (((s.1 + 1 : Nat) : Int) + (((s.2.length * wper v : Nat) : Int) + 1) * 65536)

def nwOf (v : Variant) (lay : Layout) (ss : List VStr) : Nat := (ss.map (strWords v lay)).sum

theorem nwOf_cons (v : Variant) (lay : Layout) (s : VStr) (t : List VStr) :
    nwOf v lay (s :: t) = strWords v lay s + nwOf v lay t := by simp [nwOf]

theorem strPayload_big (v : Variant) (s : VStr) :
    strPayload v .bigmat s = Op4V.key v (((s.2.length * wper v : Nat) : Int) + 1) ++
      (Op4V.key v ((s.1 : Int) + 1) ++ s.2.flatMap (natBytes v.e (realBytes v))) := by
  simp only [strPayload, List.append_assoc, Int.natCast_mul]; rfl

theorem strPayload_nonbig (v : Variant) (s : VStr) :
    strPayload v .nonbigmat s = Op4V.key v (((s.1 + 1 : Nat) : Int) + (((s.2.length * wper v : Nat) : Int) + 1) * 65536) ++
      s.2.flatMap (natBytes v.e (realBytes v)) := by
  simp only [strPayload, Int.natCast_mul]; rfl

theorem strPayload_dense (v : Variant) (s : VStr) :
    strPayload v .dense s = s.2.flatMap (natBytes v.e (realBytes v)) := rfl

theorem div_wper (v : Variant) (n : Nat) : (((n * wper v : Nat) : Int)) / ((wper v : Nat) : Int) = (n : Int) := by
  rw [Int.natCast_mul]
  rcases wper_cases v with h | h <;> rw [h] <;> omega

/-- `while nwords > 0` of `_rd_bigmat_binary` on the encoder's strings: every string comes back as one put
(0-based row, column, its reals), the word count is consumed to zero, what follows is untouched -/
theorem rdStrsBig_enc (v : Variant) (cut : Int) (col : Nat) (rest : List Nat) :
    ∀ (ss : List VStr) (acc : List Put) (fuel : Nat), (∀ s ∈ ss, StrOk v .bigmat s) → ss.length < fuel →
      rdStrsBig ⟨v2 v, cut, wper v, realBytes v⟩ (col : Int) fuel ((nwOf v .bigmat ss : Nat) : Int)
          (ss.flatMap (strPayload v .bigmat) ++ rest) acc
        = .ok (acc ++ ss.map (fun s => (s.1, col, s.2)), rest) := by
  intro ss
  induction ss with
  | nil =>
    intro acc fuel _ hf
    cases fuel with
    | zero => omega
    | succ f => simp [rdStrsBig, nwOf]
  | cons s t ih =>
    intro acc fuel hok hf
    cases fuel with
    | zero => omega
    | succ f =>
      have hs := hok s List.mem_cons_self
      have hpos : ((nwOf v .bigmat (s :: t) : Nat) : Int) > 0 := by
        rw [nwOf_cons]; simp only [strWords]; omega
      have hn : (((s.2.length * wper v : Nat) : Int) + 1 - 1) / ((wper v : Nat) : Int) = (s.2.length : Int) := by
        rw [Int.add_sub_cancel]; exact div_wper v _
      have hr : ¬ ((s.1 : Int) + 1 - 1 < 0 ∨ (col : Int) < 0) := by omega
      have hnw : ((nwOf v .bigmat (s :: t) : Nat) : Int) - (((s.2.length * wper v : Nat) : Int) + 1 + 1)
          = ((nwOf v .bigmat t : Nat) : Int) := by
        rw [nwOf_cons]; simp only [strWords]; omega
      have hrow : ((s.1 : Int) + 1 - 1).toNat = s.1 := by omega
      rw [rdStrsBig]
      simp only [hpos, if_true, List.flatMap_cons, strPayload_big, List.append_assoc, rdKeyRaw_key v _ _ hs.len,
        rdKeyRaw_key v _ _ hs.row, hn, rdVals_encV v cut _ _ hs.vals, hr,
        if_false, hnw, hrow, Int.toNat_natCast]
      rw [ih (acc ++ [(s.1, col, s.2)]) f (fun x hx => hok x (List.mem_cons_of_mem _ hx)) (by simpa using hf)]
      simp

theorem pow_shift : ((2 ^ isShiftR : Nat) : Int) = 65536 := by decide

/-- `while nwords > 0` of `_rd_nonbigmat_binary` on the encoder's strings (rows below 2¹⁶) -/
theorem rdStrsNonbig_enc (v : Variant) (cut : Int) (col : Nat) (rest : List Nat) :
    ∀ (ss : List VStr) (acc : List Put) (fuel : Nat), (∀ s ∈ ss, StrOk v .nonbigmat s) → ss.length < fuel →
      rdStrsNonbig ⟨v2 v, cut, wper v, realBytes v⟩ (col : Int) fuel ((nwOf v .nonbigmat ss : Nat) : Int)
          (ss.flatMap (strPayload v .nonbigmat) ++ rest) acc
        = .ok (acc ++ ss.map (fun s => (s.1, col, s.2)), rest) := by
  intro ss
  induction ss with
  | nil =>
    intro acc fuel _ hf
    cases fuel with
    | zero => omega
    | succ f => simp [rdStrsNonbig, nwOf]
  | cons s t ih =>
    intro acc fuel hok hf
    cases fuel with
    | zero => omega
    | succ f =>
      have hs := hok s List.mem_cons_self
      obtain ⟨hrow16, hisk⟩ := hs.is rfl
      generalize hq : s.2.length * wper v = q at *
      have hpos : ((nwOf v .nonbigmat (s :: t) : Nat) : Int) > 0 := by
        rw [nwOf_cons]; simp only [strWords]; omega
      have hL : (((s.1 + 1 : Nat) : Int) + ((q : Int) + 1) * 65536) / 65536 - 1 = (q : Int) := by omega
      have hn : (q : Int) / ((wper v : Nat) : Int) = (s.2.length : Int) := by rw [← hq]; exact div_wper v _
      have hr : (((s.1 + 1 : Nat) : Int) + ((q : Int) + 1) * 65536) - ((q : Int) + 1) * 65536 - 1 = (s.1 : Int) := by omega
      have hr' : ¬ ((s.1 : Int) < 0 ∨ (col : Int) < 0) := by omega
      have hnw : ((nwOf v .nonbigmat (s :: t) : Nat) : Int) - ((q : Int) + 1) = ((nwOf v .nonbigmat t : Nat) : Int) := by
        rw [nwOf_cons]; simp only [strWords]; omega
      rw [rdStrsNonbig]
      simp only [hpos, if_true, List.flatMap_cons, strPayload_nonbig, List.append_assoc, hq, rdKeyRaw_key v _ _ hisk,
        pow_shift, hL, hn, hr, rdVals_encV v cut _ _ hs.vals, hr', if_false, hnw, Int.toNat_natCast]
      rw [ih (acc ++ [(s.1, col, s.2)]) f (fun x hx => hok x (List.mem_cons_of_mem _ hx)) (by simpa using hf)]
      simp

end PyYetiVerif.Op4VR
