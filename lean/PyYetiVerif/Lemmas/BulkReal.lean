import PyYetiVerif.Lemmas.BulkSet
/-! `nas_sscanf` of C13's reader model (`Bulk.nasScan`) on the decimal shapes the writers' real formats produce
(core Lean only): `[-]ip.fp`, `[-]ip.fp(e|E)±dd` and, through the `d → e` rewriting, `[-]ip.fpD±dd`. -/
namespace PyYetiVerif.Bulk

def sgnT (neg : Bool) : Txt := if neg then ['-'] else []
def esT (eneg : Bool) : Char := if eneg then '-' else '+'

def AllDig (s : Txt) : Prop := ∀ c ∈ s, c.isDigit = true

theorem digit_noSp {c : Char} (h : c.isDigit = true) : isSp c = false := isSp_of_isDigit h

theorem digit_ne {c d : Char} (h : c.isDigit = true) (hd : d.isDigit = false) : c ≠ d := by
  intro e; subst e; rw [h] at hd; exact absurd hd (by decide)

/-- the mantissa `[-]ip.fp…` with a non-empty integer part is an `Edge` text when its last character is solid -/
theorem edge_mant (neg : Bool) (ip rest : Txt) (hip : AllDig ip) (hne : ip ≠ [])
    (hl : ∀ c, (sgnT neg ++ ip ++ rest).getLast? = some c → isSp c = false) : Edge (sgnT neg ++ ip ++ rest) := by
  refine ⟨?_, hl⟩
  intro c hc
  cases neg with
  | true => simp [sgnT] at hc; subst hc; decide
  | false =>
      cases ip with
      | nil => exact absurd rfl hne
      | cons a t => simp [sgnT] at hc; subst hc; exact digit_noSp (hip a (by simp))

theorem splitSign_sgn (neg : Bool) (ip rest : Txt) (hip : AllDig ip) (hne : ip ≠ []) :
    splitSign (sgnT neg ++ ip ++ rest) = (neg, ip ++ rest) := by
  cases neg with
  | true => simp [sgnT, splitSign]
  | false =>
      cases ip with
      | nil => exact absurd rfl hne
      | cons a t =>
          have ha := hip a (by simp)
          have h1 : a ≠ '-' := digit_ne ha (by decide)
          have h2 : a ≠ '+' := digit_ne ha (by decide)
          simp only [sgnT, Bool.false_eq_true, if_false, List.nil_append, List.cons_append]
          unfold splitSign
          split
          · rename_i r heq; injection heq with hc _; exact absurd hc h1
          · rename_i r heq; injection heq with hc _; exact absurd hc h2
          · rfl

/-- `int()` refuses a text with a decimal point -/
theorem parseInt_dot (k : Nat) (neg : Bool) (ip rest : Txt) (hip : AllDig ip) (hne : ip ≠ [])
    (hl : ∀ c, (sgnT neg ++ ip ++ '.' :: rest).getLast? = some c → isSp c = false) :
    parseInt (blanks k ++ (sgnT neg ++ ip ++ '.' :: rest)) = none := by
  have hs := strip_pad k 0 (edge_mant neg ip ('.' :: rest) hip hne hl)
  simp only [blanks, List.replicate_zero, List.append_nil] at hs
  unfold parseInt
  rw [show blanks k = List.replicate k ' ' from rfl, hs, splitSign_sgn neg ip _ hip hne]
  have : (ip ++ '.' :: rest).all Char.isDigit = false := by
    rw [List.all_eq_false]; exact ⟨'.', by simp, by decide⟩
  simp [this]

/-- `float()` on `[-]ip.fp` followed by `tail` whose first character is no digit: the digits are split at the
point, the exponent part is `tail` -/
theorem parseFloat_shape (k : Nat) (neg : Bool) (ip fp tail : Txt) (hip : AllDig ip) (hne : ip ≠ []) (hfp : AllDig fp)
    (ht : ∀ c, tail.head? = some c → c.isDigit = false)
    (hl : ∀ c, (sgnT neg ++ ip ++ '.' :: (fp ++ tail)).getLast? = some c → isSp c = false) :
    parseFloat (blanks k ++ (sgnT neg ++ ip ++ '.' :: (fp ++ tail))) =
      (let mant : Int := digitsVal (ip ++ fp)
       let mant := if neg then -mant else mant
       match tail with
       | [] => some (mant, -(fp.length : Int))
       | c :: q =>
           if c = 'e' || c = 'E' then
             let (eneg, ed) := splitSign q
             if ed.isEmpty || !(ed.all Char.isDigit) then none
             else
               let e : Int := digitsVal ed
               some (mant, (if eneg then -e else e) - (fp.length : Int))
           else none) := by
  have hs := strip_pad k 0 (edge_mant neg ip ('.' :: (fp ++ tail)) hip hne hl)
  simp only [blanks, List.replicate_zero, List.append_nil] at hs
  unfold parseFloat
  rw [show blanks k = List.replicate k ' ' from rfl, hs, splitSign_sgn neg ip _ hip hne]
  have h1 : (ip ++ '.' :: (fp ++ tail)).takeWhile Char.isDigit = ip :=
    takeWhile_append_stop _ _ _ hip (by intro x hx; simp at hx; subst hx; decide)
  have h2 : (ip ++ '.' :: (fp ++ tail)).dropWhile Char.isDigit = '.' :: (fp ++ tail) :=
    dropWhile_append_stop _ _ _ hip (by intro x hx; simp at hx; subst hx; decide)
  have h3 : (fp ++ tail).takeWhile Char.isDigit = fp := takeWhile_append_stop _ _ _ hfp ht
  have h4 : (fp ++ tail).dropWhile Char.isDigit = tail := dropWhile_append_stop _ _ _ hfp ht
  have h5 : (ip.isEmpty && fp.isEmpty) = false := by
    cases ip with
    | nil => exact absurd rfl hne
    | cons => rfl
  simp only [h1, h2, h3, h4, h5, Bool.false_eq_true, if_false]
  cases tail <;> rfl

theorem splitSign_es (eneg : Bool) (ed : Txt) : splitSign (esT eneg :: ed) = (eneg, ed) := by
  cases eneg <;> rfl

/-- `[-]ip.fp` -/
theorem nasScan_fixed (k : Nat) (neg : Bool) (ip fp : Txt) (hip : AllDig ip) (hne : ip ≠ []) (hfp : AllDig fp) :
    nasScan (blanks k ++ (sgnT neg ++ ip ++ '.' :: fp)) =
      .num (if neg then -(digitsVal (ip ++ fp) : Int) else (digitsVal (ip ++ fp) : Int)) (-(fp.length : Int)) := by
  have hl : ∀ c, (sgnT neg ++ ip ++ '.' :: fp).getLast? = some c → isSp c = false := by
    intro c hc
    rw [getLast?_append_ne (by simp)] at hc
    cases hq : fp.getLast? with
    | none =>
        have : fp = [] := List.getLast?_eq_none_iff.mp hq
        subst this; simp at hc; subst hc; decide
    | some x =>
        have hx : x ∈ fp := List.mem_of_getLast? hq
        have : ('.' :: fp).getLast? = some x := by
          rw [show '.' :: fp = ['.'] ++ fp from rfl, getLast?_append_ne (by intro e; subst e; simp at hq)]; exact hq
        rw [this] at hc; injection hc with hc; subst hc
        exact digit_noSp (hfp x hx)
  have hI := parseInt_dot k neg ip fp hip hne hl
  have hF := parseFloat_shape k neg ip fp [] hip hne hfp (by simp) (by simpa using hl)
  simp only [List.append_nil] at hF
  unfold nasScan
  rw [hI, hF]

theorem lastSolid_sci (neg : Bool) (ip fp : Txt) (ec : Char) (eneg : Bool) (ed : Txt) (hed : AllDig ed) (hedne : ed ≠ []) :
    ∀ c, (sgnT neg ++ ip ++ '.' :: (fp ++ ec :: esT eneg :: ed)).getLast? = some c → isSp c = false := by
  intro c hc
  have e : sgnT neg ++ ip ++ '.' :: (fp ++ ec :: esT eneg :: ed) = (sgnT neg ++ ip ++ '.' :: (fp ++ [ec, esT eneg])) ++ ed := by simp
  rw [e, getLast?_append_ne hedne] at hc
  exact digit_noSp (hed c (List.mem_of_getLast? hc))

theorem parseFloat_sci (k : Nat) (neg : Bool) (ip fp : Txt) (ec : Char) (eneg : Bool) (ed : Txt) (hip : AllDig ip) (hne : ip ≠ [])
    (hfp : AllDig fp) (hec : ec = 'e' ∨ ec = 'E') (hed : AllDig ed) (hedne : ed ≠ []) :
    parseFloat (blanks k ++ (sgnT neg ++ ip ++ '.' :: (fp ++ ec :: esT eneg :: ed))) =
      some (if neg then -(digitsVal (ip ++ fp) : Int) else (digitsVal (ip ++ fp) : Int),
        (if eneg then -(digitsVal ed : Int) else (digitsVal ed : Int)) - (fp.length : Int)) := by
  have hF := parseFloat_shape k neg ip fp (ec :: esT eneg :: ed) hip hne hfp
    (by intro c hc; simp at hc; subst hc; rcases hec with h | h <;> subst h <;> decide)
    (lastSolid_sci neg ip fp ec eneg ed hed hedne)
  have hce : (ec = 'e' || ec = 'E') = true := by rcases hec with h | h <;> subst h <;> decide
  have hemp : (ed.isEmpty || !(ed.all Char.isDigit)) = false := by
    have h1 : ed.isEmpty = false := by cases ed with | nil => exact absurd rfl hedne | cons => rfl
    have h2 : ed.all Char.isDigit = true := List.all_eq_true.mpr hed
    simp [h1, h2]
  rw [hF]
  simp only [hce, if_true, splitSign_es, hemp, Bool.false_eq_true, if_false]

/-- `[-]ip.fp(e|E)±dd` -/
theorem nasScan_sci (k : Nat) (neg : Bool) (ip fp : Txt) (ec : Char) (eneg : Bool) (ed : Txt) (hip : AllDig ip) (hne : ip ≠ [])
    (hfp : AllDig fp) (hec : ec = 'e' ∨ ec = 'E') (hed : AllDig ed) (hedne : ed ≠ []) :
    nasScan (blanks k ++ (sgnT neg ++ ip ++ '.' :: (fp ++ ec :: esT eneg :: ed))) =
      .num (if neg then -(digitsVal (ip ++ fp) : Int) else (digitsVal (ip ++ fp) : Int))
        ((if eneg then -(digitsVal ed : Int) else (digitsVal ed : Int)) - (fp.length : Int)) := by
  have hI := parseInt_dot k neg ip (fp ++ ec :: esT eneg :: ed) hip hne (lastSolid_sci neg ip fp ec eneg ed hed hedne)
  have hF := parseFloat_sci k neg ip fp ec eneg ed hip hne hfp hec hed hedne
  unfold nasScan
  rw [hI, hF]

theorem lower_digits (s : Txt) (h : AllDig s) : lower s = s := by
  unfold lower
  induction s with
  | nil => rfl
  | cons c r ih =>
      simp only [List.map_cons, toLower_of_isDigit (h c (by simp))]
      rw [ih (fun x hx => h x (by simp [hx]))]

theorem replaceChar_none (a : Char) (b s : Txt) (h : a ∉ s) : replaceChar a b s = s := by
  induction s with
  | nil => rfl
  | cons c r ih =>
      have hc : c ≠ a := fun e => h (by simp [e])
      have hr : a ∉ r := fun hm => h (by simp [hm])
      simp only [replaceChar, List.flatMap_cons, if_neg hc]
      have := ih hr
      unfold replaceChar at this
      rw [this]; rfl

theorem replaceChar_append (a : Char) (b s t : Txt) : replaceChar a b (s ++ t) = replaceChar a b s ++ replaceChar a b t := by
  simp [replaceChar]

theorem lower_sgn (neg : Bool) : lower (sgnT neg) = sgnT neg := by cases neg <;> rfl
theorem d_notin_digits (s : Txt) (h : AllDig s) : 'd' ∉ s := fun hm => absurd (h 'd' hm) (by decide)

/-- `[-]ip.fpD±dd`: `float()` refuses the `D`; the text is lower-cased, `d` becomes `e`, and `float()` reads it -/
theorem nasScan_D (k : Nat) (neg : Bool) (ip fp : Txt) (eneg : Bool) (ed : Txt) (hip : AllDig ip) (hne : ip ≠ [])
    (hfp : AllDig fp) (hed : AllDig ed) (hedne : ed ≠ []) :
    nasScan (blanks k ++ (sgnT neg ++ ip ++ '.' :: (fp ++ 'D' :: esT eneg :: ed))) =
      .num (if neg then -(digitsVal (ip ++ fp) : Int) else (digitsVal (ip ++ fp) : Int))
        ((if eneg then -(digitsVal ed : Int) else (digitsVal ed : Int)) - (fp.length : Int)) := by
  have hlast : ∀ (ec : Char) c, (sgnT neg ++ ip ++ '.' :: (fp ++ ec :: esT eneg :: ed)).getLast? = some c → isSp c = false := by
    intro ec c hc
    have e : sgnT neg ++ ip ++ '.' :: (fp ++ ec :: esT eneg :: ed) = (sgnT neg ++ ip ++ '.' :: (fp ++ [ec, esT eneg])) ++ ed := by simp
    rw [e, getLast?_append_ne hedne] at hc
    exact digit_noSp (hed c (List.mem_of_getLast? hc))
  have hI := parseInt_dot k neg ip (fp ++ 'D' :: esT eneg :: ed) hip hne (hlast 'D')
  have hF := parseFloat_shape k neg ip fp ('D' :: esT eneg :: ed) hip hne hfp (by intro c hc; simp at hc; subst hc; decide) (hlast 'D')
  have hD : ('D' = 'e' || 'D' = 'E') = false := by decide
  simp only [hD, Bool.false_eq_true, if_false] at hF
  have hs := strip_pad k 0 (edge_mant neg ip ('.' :: (fp ++ 'D' :: esT eneg :: ed)) hip hne (hlast 'D'))
  simp only [blanks, List.replicate_zero, List.append_nil] at hs
  have hemp : (sgnT neg ++ ip ++ '.' :: (fp ++ 'D' :: esT eneg :: ed)).isEmpty = false := by
    cases neg <;> cases ip <;> simp [sgnT]
  have hlow : lower (sgnT neg ++ ip ++ '.' :: (fp ++ 'D' :: esT eneg :: ed)) =
      sgnT neg ++ ip ++ '.' :: (fp ++ 'd' :: esT eneg :: ed) := by
    have e1 : lower ('.' :: (fp ++ 'D' :: esT eneg :: ed)) = '.' :: (fp ++ 'd' :: esT eneg :: ed) := by
      have : lower (esT eneg :: ed) = esT eneg :: ed := by
        have := lower_digits ed hed
        cases eneg <;> simp [lower, esT] at this ⊢ <;> exact this
      have e : '.' :: (fp ++ 'D' :: esT eneg :: ed) = ['.'] ++ (fp ++ (['D'] ++ (esT eneg :: ed))) := by simp
      rw [e, lower_append, lower_append, lower_append, lower_digits fp hfp, this]
      rfl
    rw [lower_append, lower_append, lower_sgn, lower_digits ip hip, e1]
  have hrep : replaceChar 'd' ['e'] (sgnT neg ++ ip ++ '.' :: (fp ++ 'd' :: esT eneg :: ed)) =
      sgnT neg ++ ip ++ '.' :: (fp ++ 'e' :: esT eneg :: ed) := by
    have e : sgnT neg ++ ip ++ '.' :: (fp ++ 'd' :: esT eneg :: ed) =
        (sgnT neg ++ ip ++ '.' :: fp) ++ (['d'] ++ (esT eneg :: ed)) := by simp
    have h1 : 'd' ∉ sgnT neg ++ ip ++ '.' :: fp := by
      intro hm
      simp only [List.mem_append, List.mem_cons] at hm
      rcases hm with (hm | hm) | hm | hm
      · cases neg <;> simp [sgnT] at hm
      · exact d_notin_digits ip hip hm
      · exact absurd hm (by decide)
      · exact d_notin_digits fp hfp hm
    have h2 : 'd' ∉ esT eneg :: ed := by
      intro hm
      rcases List.mem_cons.mp hm with hm | hm
      · cases eneg <;> simp [esT] at hm
      · exact d_notin_digits ed hed hm
    rw [e, replaceChar_append, replaceChar_none _ _ _ h1, replaceChar_append, replaceChar_none _ _ (esT eneg :: ed) h2]
    simp [replaceChar]
  have hF2 := parseFloat_sci 0 neg ip fp 'e' eneg ed hip hne hfp (Or.inl rfl) hed hedne
  simp only [blanks, List.replicate_zero, List.nil_append] at hF2
  unfold nasScan
  rw [hI, hF]
  simp only [show blanks k = List.replicate k ' ' from rfl, hs, hemp, Bool.false_eq_true, if_false, hlow, hrep, hF2]

end PyYetiVerif.Bulk
