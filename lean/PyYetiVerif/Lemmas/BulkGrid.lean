import PyYetiVerif.Model.BulkGrid
import PyYetiVerif.Lemmas.BulkText
/-! Helper lemmas for the GRID / vecwrite part of C13 (core Lean only). -/
namespace PyYetiVerif.Bulk

/-! ### `vecwrite`: the length rule -/

/-- every argument with a length has length ≤ 1 or `n` -/
def LensOk (n : Nat) (lens : List (Option Nat)) : Prop := ∀ c, some c ∈ lens → c ≤ 1 ∨ c = n

theorem vecLength_keep (n : Nat) (lens : List (Option Nat)) (h : LensOk n lens) :
    vecLength n lens = some n := by
  induction lens with
  | nil => rfl
  | cons a r ih =>
      have hr : LensOk n r := fun c hc => h c (by simp [hc])
      cases a with
      | none => simpa [vecLength] using ih hr
      | some c =>
          rcases h c (by simp) with hc | hc
          · have : ¬ c > 1 := by omega
            simpa [vecLength, this] using ih hr
          · subst hc
            by_cases h1 : c > 1
            · simpa [vecLength, h1] using ih hr
            · simpa [vecLength, h1] using ih hr

theorem vecLength_found (n : Nat) (hn : 1 < n) (lens : List (Option Nat)) (h : LensOk n lens)
    (hm : some n ∈ lens) : vecLength 1 lens = some n := by
  induction lens with
  | nil => simp at hm
  | cons a r ih =>
      have hr : LensOk n r := fun c hc => h c (by simp [hc])
      cases a with
      | none =>
          have : some n ∈ r := by simpa using hm
          simpa [vecLength] using ih hr this
      | some c =>
          rcases h c (by simp) with hc | hc
          · have h1 : ¬ c > 1 := by omega
            have : some n ∈ r := by
              rcases List.mem_cons.mp hm with e | e
              · simp at e; omega
              · exact e
            simpa [vecLength, h1] using ih hr this
          · subst hc
            simp only [vecLength, hn, if_true]
            simpa using vecLength_keep c r hr

/-- soundness of the rule: when `vecwrite` accepts the arguments, every length > 1 is the row count
(so a length-1 argument after a length-N argument never resets it, and two different N raise) -/
theorem vecLength_sound (lens : List (Option Nat)) : ∀ (len n : Nat), vecLength len lens = some n →
    (1 < len → n = len) ∧ (∀ c, some c ∈ lens → 1 < c → c = n) ∧ (len ≤ 1 → (∀ c, some c ∈ lens → c ≤ 1) → n = len) := by
  induction lens with
  | nil => intro len n h; simp [vecLength] at h; subst h; simp
  | cons a r ih =>
      intro len n h
      cases a with
      | none =>
          simp only [vecLength] at h
          obtain ⟨h1, h2, h3⟩ := ih len n h
          exact ⟨h1, fun c hc => h2 c (by simpa using hc), fun hl hc => h3 hl (fun c hc' => hc c (by simp [hc']))⟩
      | some c =>
          simp only [vecLength] at h
          by_cases hc : c > 1
          · rw [if_pos hc] at h
            by_cases hbad : len > 1 ∧ c ≠ len
            · rw [if_pos hbad] at h; simp at h
            · rw [if_neg hbad] at h
              obtain ⟨h1, h2, _⟩ := ih c n h
              have hcn : n = c := h1 hc
              refine ⟨fun hl => ?_, fun c' hc' hc1 => ?_, fun _ hall => ?_⟩
              · have : c = len := by
                  by_cases e : c = len
                  · exact e
                  · exact absurd ⟨hl, e⟩ hbad
                omega
              · rcases List.mem_cons.mp hc' with e | e
                · simp at e; omega
                · exact h2 c' e hc1
              · have := hall c (by simp); omega
          · rw [if_neg hc] at h
            obtain ⟨h1, h2, h3⟩ := ih len n h
            refine ⟨h1, fun c' hc' hc1 => ?_, fun hl hall => h3 hl (fun c' hc' => hall c' (by simp [hc']))⟩
            rcases List.mem_cons.mp hc' with e | e
            · simp at e; omega
            · exact h2 c' e hc1

/-! ### broadcast semantics -/

/-- an argument fits `n` rows: scalar, length 1 or length `n` -/
def VArg.Compat {α : Type} (n : Nat) : VArg α → Prop
  | .scalar _ => True
  | .vec l => l.length = 1 ∨ l.length = n

/-- the `n`-vector the argument stands for (documented: scalars and length-1 arrays are repeated) -/
def VArg.bc {α : Type} (n : Nat) : VArg α → List α
  | .scalar a => List.replicate n a
  | .vec [a] => List.replicate n a
  | .vec l => l

theorem VArg.bc_length {α : Type} (n : Nat) (a : VArg α) (h : a.Compat n) : (a.bc n).length = n := by
  cases a with
  | scalar x => simp [VArg.bc]
  | vec l =>
      match l, h with
      | [x], _ => simp [VArg.bc]
      | [], h => simp [VArg.Compat] at h; simp [VArg.bc, ← h]
      | x :: y :: r, h => simp [VArg.Compat] at h; simp [VArg.bc]; omega

theorem VArg.get_bc {α : Type} (n : Nat) (a : VArg α) (h : a.Compat n) (i : Nat) (hi : i < n) :
    a.get i = (a.bc n)[i]? := by
  cases a with
  | scalar x => simp [VArg.get, VArg.bc, hi]
  | vec l =>
      match l, h with
      | [x], _ => simp [VArg.get, VArg.bc, hi]
      | [], h => rfl
      | x :: y :: r, h => rfl

theorem VArg.map_compat {α β : Type} (f : α → β) (n : Nat) (a : VArg α) (h : a.Compat n) : (a.map f).Compat n := by
  cases a with
  | scalar x => trivial
  | vec l => simpa [VArg.map, VArg.Compat] using h

theorem VArg.map_bc {α β : Type} (f : α → β) (n : Nat) (a : VArg α) : (a.map f).bc n = (a.bc n).map f := by
  cases a with
  | scalar x => simp [VArg.map, VArg.bc]
  | vec l =>
      match l with
      | [x] => simp [VArg.map, VArg.bc]
      | [] => rfl
      | x :: y :: r => rfl

theorem optAll_some {α : Type} (l : List α) : optAll (l.map some) = some l := by
  induction l with
  | nil => rfl
  | cons a r ih => simp [optAll, ih]

theorem optAll_map_some {α β : Type} (l : List α) (f : α → Option β) (g : α → β) (h : ∀ a ∈ l, f a = some (g a)) :
    optAll (l.map f) = some (l.map g) := by
  induction l with
  | nil => rfl
  | cons a r ih =>
      simp [optAll, h a (by simp), ih (fun x hx => h x (by simp [hx]))]

theorem vecRows_ok {α : Type} (args : List (VArg α)) (n : Nat) (rowf : Nat → List α)
    (hl : vecLength 1 (args.map VArg.len?) = some n)
    (hr : ∀ i, i < n → optAll (args.map (·.get i)) = some (rowf i)) :
    vecRows args = .ok ((List.range n).map rowf) := by
  unfold vecRows
  rw [hl]
  have := optAll_map_some (List.range n) (fun i => optAll (args.map (·.get i))) rowf
    (fun i hi => hr i (List.mem_range.mp hi))
  simp only [this]

/-- two vector arguments longer than 1 of different lengths: ValueError, wherever they stand -/
theorem vecRows_mismatch {α : Type} (args : List (VArg α)) (l₁ l₂ : List α) (h1 : VArg.vec l₁ ∈ args)
    (h2 : VArg.vec l₂ ∈ args) (g1 : 1 < l₁.length) (g2 : 1 < l₂.length) (hne : l₁.length ≠ l₂.length) :
    vecRows args = .valueError := by
  unfold vecRows
  cases h : vecLength 1 (args.map VArg.len?) with
  | none => rfl
  | some n =>
      obtain ⟨_, hs, _⟩ := vecLength_sound _ 1 n h
      have m1 : some l₁.length ∈ args.map VArg.len? := List.mem_map.mpr ⟨_, h1, rfl⟩
      have m2 : some l₂.length ∈ args.map VArg.len? := List.mem_map.mpr ⟨_, h2, rfl⟩
      have := hs _ m1 g1
      have := hs _ m2 g2
      omega

theorem VArg.bc_vec_full {α : Type} (n : Nat) (l : List α) (h : l.length = n) : (VArg.vec l).bc n = l := by
  match l, h with
  | [x], h => simp at h; subst h; rfl
  | [], _ => rfl
  | x :: y :: r, _ => rfl

/-! ### `wtgrids` rows -/

structure GRow where
  id : Int
  cp : Int
  x : Txt
  y : Txt
  z : Txt
  cd : Int
  ps : Option Int
  seid : Option Int
deriving DecidableEq

def GRow.fields (w : Nat) (short : Bool) (r : GRow) : List Txt :=
  [fmtI w r.id, fmtI w r.cp, r.x, r.y, r.z, fmtI w r.cd] ++ (if short then [] else [fmtO w r.ps, fmtO w r.seid])

def GridIn.n (g : GridIn) : Nat := g.ids.length

/-- row `i` of the call with every argument expanded to an `N`-vector (`N = len(grids)`): the
documented meaning of the call -/
def GridIn.row (g : GridIn) (i : Nat) : Option GRow := do
  let id ← g.ids[i]?
  let cp ← (g.cp.bc g.n)[i]?
  let p ← ((VArg.vec g.xyz).bc g.n)[i]?
  let cd ← (g.cd.bc g.n)[i]?
  let ps ← (g.ps.bc g.n)[i]?
  let seid ← (g.seid.bc g.n)[i]?
  some ⟨id, cp, p.1, p.2.1, p.2.2, cd, ps, seid⟩

def GridIn.rows (g : GridIn) : List GRow := (List.range g.n).filterMap g.row

/-- the packaging is admissible: at least one grid, every other argument a scalar, a length-1 vector
or a length-`N` vector (`xyz`: 1 row or `N` rows) -/
def GridIn.Compat (g : GridIn) : Prop :=
  1 ≤ g.n ∧ g.cp.Compat g.n ∧ (VArg.vec g.xyz).Compat g.n ∧ g.cd.Compat g.n ∧ g.ps.Compat g.n ∧ g.seid.Compat g.n

theorem getElem?_of_bc {α : Type} (n : Nat) (a : VArg α) (h : a.Compat n) (i : Nat) (hi : i < n) :
    ∃ v, (a.bc n)[i]? = some v := by
  have := VArg.bc_length n a h
  exact ⟨(a.bc n)[i], by simp [this, hi]⟩

theorem GridIn.row_some (g : GridIn) (h : g.Compat) (i : Nat) (hi : i < g.n) : ∃ r, g.row i = some r := by
  obtain ⟨_, h2, h3, h4, h5, h6⟩ := h
  obtain ⟨v1, e1⟩ : ∃ v, g.ids[i]? = some v := ⟨g.ids[i], by simp [GridIn.n] at hi; simp [hi]⟩
  obtain ⟨v2, e2⟩ := getElem?_of_bc _ _ h2 i hi
  obtain ⟨v3, e3⟩ := getElem?_of_bc _ _ h3 i hi
  obtain ⟨v4, e4⟩ := getElem?_of_bc _ _ h4 i hi
  obtain ⟨v5, e5⟩ := getElem?_of_bc _ _ h5 i hi
  obtain ⟨v6, e6⟩ := getElem?_of_bc _ _ h6 i hi
  exact ⟨⟨v1, v2, v3.1, v3.2.1, v3.2.2, v4, v5, v6⟩, by simp [GridIn.row, e1, e2, e3, e4, e5, e6]⟩

theorem filterMap_range_length {α : Type} (n : Nat) (f : Nat → Option α) (h : ∀ i, i < n → ∃ r, f i = some r) :
    ((List.range n).filterMap f).length = n := by
  induction n with
  | zero => rfl
  | succ k ih =>
      obtain ⟨r, hr⟩ := h k (by omega)
      rw [List.range_succ, List.filterMap_append]
      simp [hr, ih (fun i hi => h i (by omega))]

theorem GridIn.rows_length (g : GridIn) (h : g.Compat) : g.rows.length = g.n :=
  filterMap_range_length g.n g.row (g.row_some h)

theorem get_map_bc {α β : Type} (f : α → β) (n : Nat) (a : VArg α) (h : a.Compat n) (i : Nat) (hi : i < n) :
    (a.map f).get i = ((a.bc n)[i]?).map f := by
  rw [VArg.get_bc n _ (VArg.map_compat f n a h) i hi, VArg.map_bc, List.getElem?_map]

theorem GridIn.lens_ok (g : GridIn) (h : g.Compat) : LensOk g.n (g.args.map VArg.len?) := by
  obtain ⟨_, h2, h3, h4, h5, h6⟩ := h
  have hv : ∀ {β : Type} (a : VArg β), a.Compat g.n → ∀ c, a.len? = some c → c ≤ 1 ∨ c = g.n := by
    intro β a ha c hc
    cases a with
    | scalar x => simp [VArg.len?] at hc
    | vec l => simp [VArg.len?] at hc; subst hc; rcases ha with e | e <;> omega
  have hx : ∀ (f : Txt × Txt × Txt → Txt) c, (VArg.vec (g.xyz.map f)).len? = some c → c ≤ 1 ∨ c = g.n := by
    intro f c hc
    simp [VArg.len?] at hc; subst hc; rcases h3 with e | e <;> omega
  intro c hc
  simp only [GridIn.args, List.map_append, List.map_cons, List.map_nil, List.mem_append, List.mem_cons,
    List.not_mem_nil, or_false] at hc
  rcases hc with (hc | hc | hc | hc | hc | hc) | hc
  · simp [VArg.len?] at hc; right; unfold GridIn.n; omega
  · exact hv _ (VArg.map_compat _ _ _ h2) c hc.symm
  · exact hx _ c hc.symm
  · exact hx _ c hc.symm
  · exact hx _ c hc.symm
  · exact hv _ (VArg.map_compat _ _ _ h4) c hc.symm
  · split at hc
    · simp at hc
    · simp only [List.map_cons, List.map_nil, List.mem_cons, List.not_mem_nil, or_false] at hc
      rcases hc with hc | hc
      · exact hv _ (VArg.map_compat _ _ _ h5) c hc.symm
      · exact hv _ (VArg.map_compat _ _ _ h6) c hc.symm

theorem GridIn.length_ok (g : GridIn) (h : g.Compat) : vecLength 1 (g.args.map VArg.len?) = some g.n := by
  by_cases h1 : g.n = 1
  · have := vecLength_keep g.n _ (g.lens_ok h)
    rw [h1] at this ⊢; exact this
  · have hn : 1 < g.n := by have := h.1; omega
    apply vecLength_found g.n hn _ (g.lens_ok h)
    simp [GridIn.args, VArg.len?, GridIn.n]

theorem GridIn.args_get (g : GridIn) (h : g.Compat) (i : Nat) (hi : i < g.n) (r : GRow) (hr : g.row i = some r) :
    optAll (g.args.map (·.get i)) = some (r.fields g.w g.short) := by
  obtain ⟨_, h2, h3, h4, h5, h6⟩ := h
  obtain ⟨v1, e1⟩ : ∃ v, g.ids[i]? = some v := ⟨g.ids[i], by simp [GridIn.n] at hi; simp [hi]⟩
  obtain ⟨v2, e2⟩ := getElem?_of_bc _ _ h2 i hi
  obtain ⟨v3, e3⟩ := getElem?_of_bc _ _ h3 i hi
  obtain ⟨v4, e4⟩ := getElem?_of_bc _ _ h4 i hi
  obtain ⟨v5, e5⟩ := getElem?_of_bc _ _ h5 i hi
  obtain ⟨v6, e6⟩ := getElem?_of_bc _ _ h6 i hi
  simp [GridIn.row, e1, e2, e3, e4, e5, e6] at hr
  subst hr
  have hids : (VArg.vec (g.ids.map (fmtI g.w))).get i = some (fmtI g.w v1) := by
    have hc : (VArg.vec g.ids).Compat g.n := Or.inr rfl
    have := get_map_bc (fmtI g.w) g.n (.vec g.ids) hc i hi
    rw [VArg.bc_vec_full g.n g.ids rfl, e1] at this
    simpa [VArg.map] using this
  have hxyz : ∀ f : Txt × Txt × Txt → Txt, (VArg.vec (g.xyz.map f)).get i = some (f v3) := by
    intro f
    have := get_map_bc f g.n (.vec g.xyz) h3 i hi
    rw [e3] at this
    simpa [VArg.map] using this
  have hcp := get_map_bc (fmtI g.w) g.n g.cp h2 i hi
  have hcd := get_map_bc (fmtI g.w) g.n g.cd h4 i hi
  have hps := get_map_bc (fmtO g.w) g.n g.ps h5 i hi
  have hse := get_map_bc (fmtO g.w) g.n g.seid h6 i hi
  rw [e2] at hcp; rw [e4] at hcd; rw [e5] at hps; rw [e6] at hse
  cases hs : g.short <;>
    simp [GridIn.args, GRow.fields, hs, optAll, hids, hxyz, hcp, hcd, hps, hse]

/-- the text of `wtgrids` is that of the fully expanded call, for every admissible packaging -/
theorem gridLines_rows (g : GridIn) (h : g.Compat) :
    gridLines g = .ok (g.rows.flatMap fun r => gridCard g.wide (r.fields g.w g.short)) := by
  have hrow : ∀ i, i < g.n → ∃ r, g.row i = some r := g.row_some h
  -- a total row function agreeing with `g.row` below `n`
  let rowf : Nat → List Txt := fun i => match g.row i with
    | some r => r.fields g.w g.short
    | none => []
  have hget : ∀ i, i < g.n → optAll (g.args.map (·.get i)) = some (rowf i) := by
    intro i hi
    obtain ⟨r, hr⟩ := hrow i hi
    simp only [rowf, hr]
    exact g.args_get h i hi r hr
  have hv := vecRows_ok g.args g.n rowf (g.length_ok h) hget
  have hrows : (List.range g.n).map rowf = g.rows.map (fun r => r.fields g.w g.short) := by
    unfold GridIn.rows
    generalize g.n = n at hrow
    induction n with
    | zero => rfl
    | succ k ih =>
        obtain ⟨r, hr⟩ := hrow k (by omega)
        rw [List.range_succ, List.map_append, List.filterMap_append, List.map_append,
          ih (fun i hi => hrow i (by omega))]
        simp [rowf, hr]
  unfold gridLines
  rw [hv, hrows]
  simp only [List.flatMap_map]

/-! ### reading GRID cards back -/

def GRow.Clean (w : Nat) (r : GRow) : Prop :=
  CleanField w r.x ∧ CleanField w r.y ∧ CleanField w r.z ∧ (dec r.id).length ≤ w ∧ (dec r.cp).length ≤ w ∧
  (dec r.cd).length ≤ w ∧ (∀ p, r.ps = some p → (dec p).length ≤ w) ∧ (∀ s, r.seid = some s → (dec s).length ≤ w)

/-- the fields after CD that survive the reader's `rstrip`, and the number of blank columns after them -/
def gtail (w : Nat) (short : Bool) (ps seid : Option Int) : List Txt × Nat :=
  if short then ([], 0) else
  match ps, seid with
  | _, some s => ([fmtO w ps, fmtO w (some s)], 0)
  | some p, none => ([fmtO w (some p)], w)
  | none, none => ([], 2 * w)

/-- what `rdgrids` returns for the row -/
def GRow.vals (r : GRow) : List Val :=
  [.int r.id, .int r.cp, (nasScan r.x).zero, (nasScan r.y).zero, (nasScan r.z).zero, .int r.cd,
   .int (r.ps.getD 0), .int (r.seid.getD 0)]

theorem blanks_append (a b : Nat) : blanks a ++ blanks b = blanks (a + b) := by
  simp [blanks, List.replicate_append_replicate]

theorem gtail_flatten (w : Nat) (short : Bool) (ps seid : Option Int) :
    (if short then [] else [fmtO w ps, fmtO w seid]).flatten =
      (gtail w short ps seid).1.flatten ++ blanks (gtail w short ps seid).2 := by
  cases short <;> cases ps <;> cases seid <;> simp [gtail, fmtO, blanks] <;> omega

theorem gtail_ok (w : Nat) (short : Bool) (ps seid : Option Int)
    (hp : ∀ p, ps = some p → (dec p).length ≤ w) (hs : ∀ s, seid = some s → (dec s).length ≤ w) :
    ∀ f ∈ (gtail w short ps seid).1, FieldOK w f := by
  intro f hf
  cases short <;> cases ps <;> cases seid <;> simp [gtail, fmtO] at hf
  · rcases hf with rfl | rfl
    · exact fieldOK_blanks w
    · exact fieldOK_padL_dec w _ (hs _ rfl)
  · subst hf; exact fieldOK_padL_dec w _ (hp _ rfl)
  · rcases hf with rfl | rfl
    · exact fieldOK_padL_dec w _ (hp _ rfl)
    · exact fieldOK_padL_dec w _ (hs _ rfl)

/-- the solid part `base ++ tail` always ends in a written integer -/
theorem gtail_last (w : Nat) (short : Bool) (ps seid : Option Int) (pre : List Txt) (cd : Int) :
    ∃ S' n, pre ++ [fmtI w cd] ++ (gtail w short ps seid).1 = S' ++ [padL w (dec n)] ∧
      S'.length + 1 = pre.length + 1 + (gtail w short ps seid).1.length := by
  cases short with
  | true => exact ⟨pre, cd, by simp [gtail, fmtI], by simp [gtail]⟩
  | false =>
      cases ps with
      | none =>
          cases seid with
          | none => exact ⟨pre, cd, by simp [gtail, fmtI], by simp [gtail]⟩
          | some s => exact ⟨pre ++ [padL w (dec cd), blanks w], s, by simp [gtail, fmtI, fmtO], by simp [gtail]⟩
      | some p =>
          cases seid with
          | none => exact ⟨pre ++ [padL w (dec cd)], p, by simp [gtail, fmtI, fmtO], by simp [gtail]⟩
          | some s => exact ⟨pre ++ [padL w (dec cd), padL w (dec p)], s, by simp [gtail, fmtI, fmtO], by simp [gtail]⟩

theorem gtail_budget (w : Nat) (short : Bool) (ps seid : Option Int) :
    w * (gtail w short ps seid).1.length + (gtail w short ps seid).2 ≤ 2 * w := by
  cases short <;> cases ps <;> cases seid <;> simp [gtail] <;> omega

theorem gtail_vals (w : Nat) (short : Bool) (ps seid : Option Int) (pre : List Val) (hpre : pre.length = 6)
    (hsh : short = true → ps = none ∧ seid = none) :
    padTo (Val.int 0) 8 (pre ++ ((gtail w short ps seid).1.map nasScan).map Val.zero) =
      pre ++ [.int (ps.getD 0), .int (seid.getD 0)] := by
  cases short <;> cases ps <;> cases seid <;>
    simp [gtail, fmtO, padTo, hpre, nasScan_padL, nasScan_blanks, Val.zero] at hsh ⊢

def GRow.base (w : Nat) (r : GRow) : List Txt := [fmtI w r.id, fmtI w r.cp, r.x, r.y, r.z, fmtI w r.cd]

/-- the fields of the card the reader sees -/
def GRow.solid (w : Nat) (short : Bool) (r : GRow) : List Txt := r.base w ++ (gtail w short r.ps r.seid).1

theorem startsWith_grid (lead : Txt) (rest : Txt) (h : lower lead = txt "grid" ++ txt "    " ∨ lower lead = txt "grid" ++ txt "*   ") :
    startsWith (txt "grid") (lower (lead ++ rest)) = true := by
  rw [lower_append]
  rcases h with h | h <;> rw [h, List.append_assoc] <;> exact startsWith_append _ _

theorem gridCard_read_small (short : Bool) (r : GRow) (hc : r.Clean 8) (fuel : Nat) (rest : List Txt)
    (hr : ∀ x, rest.head? = some x → ∃ t, x = 'G' :: t) :
    rdcardsAux (txt "grid") (fuel + 1) (gridCard false (r.fields 8 short) ++ rest) =
      (r.solid 8 short).map nasScan :: rdcardsAux (txt "grid") fuel rest := by
  obtain ⟨hx, hy, hz, hid, hcp, hcd, hps, hse⟩ := hc
  obtain ⟨S', n, hS, hlen⟩ := gtail_last 8 short r.ps r.seid [fmtI 8 r.id, fmtI 8 r.cp, r.x, r.y, r.z] r.cd
  have hsol : r.solid 8 short = S' ++ [padL 8 (dec n)] := by
    rw [← hS]; simp [GRow.solid, GRow.base]
  have hok : ∀ f ∈ r.solid 8 short, FieldOK 8 f := by
    intro f hf
    simp only [GRow.solid, GRow.base, List.mem_append, List.mem_cons, List.not_mem_nil, or_false] at hf
    rcases hf with (rfl | rfl | rfl | rfl | rfl | rfl) | hf
    · exact fieldOK_padL_dec 8 _ hid
    · exact fieldOK_padL_dec 8 _ hcp
    · exact hx.1
    · exact hy.1
    · exact hz.1
    · exact fieldOK_padL_dec 8 _ hcd
    · exact gtail_ok 8 short r.ps r.seid hps hse f hf
  have hbud := gtail_budget 8 short r.ps r.seid
  have hfl : FixedLine 8 (txt "GRID    ") (r.solid 8 short) (gtail 8 short r.ps r.seid).2 := by
    rw [hsol]
    refine FixedLine.build 8 _ S' _ _ (by decide) (by decide) (by decide) (by rw [← hsol]; exact hok)
      (by intro e; simp [padL] at e; exact dec_ne_nil n e.2) (lastSolid_padL_dec 8 n) ?_
    simp at hlen; omega
  have hline : gridCard false (r.fields 8 short) =
      [txt "GRID    " ++ (r.solid 8 short).flatten ++ blanks (gtail 8 short r.ps r.seid).2] := by
    simp only [gridCard, GRow.fields, GRow.solid, GRow.base, List.flatten_append, gtail_flatten, Bool.false_eq_true, if_false]
    simp
  rw [hline]
  have hm := hfl.modeOf
  have hstar : (txt "GRID    ").contains '*' = false := by decide
  rw [hstar] at hm
  simp only [Bool.false_eq_true, if_false] at hm
  have hcard := rdcardsAux_card (txt "grid") fuel
    (txt "GRID    " ++ (r.solid 8 short).flatten ++ blanks (gtail 8 short r.ps r.seid).2) [] rest
    (by rw [List.append_assoc]; exact startsWith_grid _ _ (Or.inl (by decide)))
    (by simp)
    (by intro x hx; obtain ⟨t, rfl⟩ := hr x hx; exact isCont_G _ t)
  simp only [List.nil_append, List.map_nil] at hcard
  rw [List.singleton_append, hcard, hm, hfl.fields .f8 (by decide) (by decide) true]
  simp [cardVals]

theorem gridCard_read_wide (short : Bool) (r : GRow) (hc : r.Clean 16) (fuel : Nat) (rest : List Txt)
    (hr : ∀ x, rest.head? = some x → ∃ t, x = 'G' :: t) :
    rdcardsAux (txt "grid") (fuel + 1) (gridCard true (r.fields 16 short) ++ rest) =
      (r.solid 16 short).map nasScan :: rdcardsAux (txt "grid") fuel rest := by
  obtain ⟨hx, hy, hz, hid, hcp, hcd, hps, hse⟩ := hc
  obtain ⟨S', n, hS, hlen⟩ := gtail_last 16 short r.ps r.seid [r.z] r.cd
  -- first line
  have hfl1 : FixedLine 16 (txt "GRID*   ") ([fmtI 16 r.id, fmtI 16 r.cp, r.x] ++ [r.y]) 0 := by
    refine FixedLine.build 16 _ _ _ _ (by decide) (by decide) (by decide) ?_ (cleanField_ne_nil (by decide) hy) hy.2 (by simp)
    intro f hf
    simp only [List.cons_append, List.nil_append, List.mem_cons, List.not_mem_nil, or_false] at hf
    rcases hf with rfl | rfl | rfl | rfl
    · exact fieldOK_padL_dec 16 _ hid
    · exact fieldOK_padL_dec 16 _ hcp
    · exact hx.1
    · exact hy.1
  -- second line
  have hok2 : ∀ f ∈ [r.z] ++ [fmtI 16 r.cd] ++ (gtail 16 short r.ps r.seid).1, FieldOK 16 f := by
    intro f hf
    simp only [List.mem_append, List.mem_cons, List.not_mem_nil, or_false] at hf
    rcases hf with (rfl | rfl) | hf
    · exact hz.1
    · exact fieldOK_padL_dec 16 _ hcd
    · exact gtail_ok 16 short r.ps r.seid hps hse f hf
  have hbud := gtail_budget 16 short r.ps r.seid
  have hfl2 : FixedLine 16 (txt "*       ") ([r.z] ++ [fmtI 16 r.cd] ++ (gtail 16 short r.ps r.seid).1)
      (gtail 16 short r.ps r.seid).2 := by
    rw [hS]
    refine FixedLine.build 16 _ S' _ _ (by decide) (by decide) (by decide) (by rw [← hS]; exact hok2)
      (by intro e; simp [padL] at e; exact dec_ne_nil n e.2) (lastSolid_padL_dec 16 n) ?_
    simp at hlen; omega
  have hline : gridCard true (r.fields 16 short) =
      [txt "GRID*   " ++ ([fmtI 16 r.id, fmtI 16 r.cp, r.x] ++ [r.y]).flatten ++ blanks 0,
       txt "*       " ++ ([r.z] ++ [fmtI 16 r.cd] ++ (gtail 16 short r.ps r.seid).1).flatten ++
         blanks (gtail 16 short r.ps r.seid).2] := by
    simp only [gridCard, GRow.fields, if_true]
    have ht : ([fmtI 16 r.id, fmtI 16 r.cp, r.x, r.y, r.z, fmtI 16 r.cd] ++
        (if short then [] else [fmtO 16 r.ps, fmtO 16 r.seid])).take 4 = [fmtI 16 r.id, fmtI 16 r.cp, r.x, r.y] := by simp
    have hd : ([fmtI 16 r.id, fmtI 16 r.cp, r.x, r.y, r.z, fmtI 16 r.cd] ++
        (if short then [] else [fmtO 16 r.ps, fmtO 16 r.seid])).drop 4 =
        [r.z, fmtI 16 r.cd] ++ (if short then [] else [fmtO 16 r.ps, fmtO 16 r.seid]) := by simp
    rw [ht, hd, List.flatten_append, gtail_flatten]
    simp [blanks]
  rw [hline]
  have hm := hfl1.modeOf
  have hstar : (txt "GRID*   ").contains '*' = true := by decide
  rw [hstar] at hm
  simp only [if_true] at hm
  have hcard := rdcardsAux_card (txt "grid") fuel
    (txt "GRID*   " ++ ([fmtI 16 r.id, fmtI 16 r.cp, r.x] ++ [r.y]).flatten ++ blanks 0)
    [txt "*       " ++ ([r.z] ++ [fmtI 16 r.cd] ++ (gtail 16 short r.ps r.seid).1).flatten ++
         blanks (gtail 16 short r.ps r.seid).2] rest
    (by rw [List.append_assoc]; exact startsWith_grid _ _ (Or.inr (by decide)))
    (by intro x hx; simp only [List.mem_singleton] at hx; subst hx; rw [hm]; rfl)
    (by intro x hx; obtain ⟨t, rfl⟩ := hr x hx; exact isCont_G _ t)
  have e2 : ∀ (a b : Txt) (rest : List Txt), [a, b] ++ rest = a :: ([b] ++ rest) := by intros; rfl
  rw [e2, hcard, hm, hfl1.fields .f16 (by decide) (by decide) true]
  simp only [List.map_cons, List.map_nil, hfl2.fields .f16 (by decide) (by decide) false]
  simp [cardVals, padTo, Mode.inc, GRow.solid, GRow.base]

theorem gridCard_head (wide : Bool) (F : List Txt) : ∃ t ls, gridCard wide F = ('G' :: t) :: ls := by
  cases wide
  · exact ⟨_, _, rfl⟩
  · exact ⟨_, _, rfl⟩

theorem flatMap_gridCard_head (wide : Bool) (f : GRow → List Txt) (rows : List GRow) :
    ∀ x, (rows.flatMap fun r => gridCard wide (f r)).head? = some x → ∃ t, x = 'G' :: t := by
  intro x hx
  cases rows with
  | nil => simp at hx
  | cons r rs =>
      obtain ⟨t, ls, h⟩ := gridCard_head wide (f r)
      simp [List.flatMap_cons, h] at hx
      exact ⟨t, hx.symm⟩

theorem rdcardsAux_grid_rows (wide short : Bool) (rows : List GRow)
    (hc : ∀ r ∈ rows, r.Clean (if wide then 16 else 8)) : ∀ fuel,
    (rows.flatMap fun r => gridCard wide (r.fields (if wide then 16 else 8) short)).length < fuel →
    rdcardsAux (txt "grid") fuel (rows.flatMap fun r => gridCard wide (r.fields (if wide then 16 else 8) short)) =
      rows.map fun r => (r.solid (if wide then 16 else 8) short).map nasScan := by
  induction rows with
  | nil => intro fuel _; simp [rdcardsAux_nil]
  | cons r rs ih =>
      intro fuel hf
      have ih := ih (fun x hx => hc x (by simp [hx]))
      have hr := flatMap_gridCard_head wide (fun r => r.fields (if wide then 16 else 8) short) rs
      obtain ⟨t, ls, hh⟩ := gridCard_head wide (r.fields (if wide then 16 else 8) short)
      cases fuel with
      | zero => omega
      | succ f =>
          have hlen : (rs.flatMap fun r => gridCard wide (r.fields (if wide then 16 else 8) short)).length < f := by
            simp only [List.flatMap_cons, List.length_append, hh, List.length_cons] at hf; omega
          rw [List.flatMap_cons, List.map_cons, ← ih f hlen]
          have hcr := hc r (by simp)
          cases wide with
          | false => exact gridCard_read_small short r hcr f _ hr
          | true => exact gridCard_read_wide short r hcr f _ hr

theorem foldl_max_length_le {α : Type} (b : Nat) (cards : List (List α)) (h : ∀ c ∈ cards, c.length ≤ b) :
    ∀ a, a ≤ b → cards.foldl (fun a c => max a c.length) a ≤ b := by
  induction cards with
  | nil => intro a ha; simpa using ha
  | cons c r ih =>
      intro a ha
      simp only [List.foldl_cons]
      apply ih (fun x hx => h x (by simp [hx]))
      have := h c (by simp); omega

theorem gtail_length_le (w : Nat) (short : Bool) (ps seid : Option Int) : (gtail w short ps seid).1.length ≤ 2 := by
  cases short <;> cases ps <;> cases seid <;> simp [gtail]

theorem rdcardsAux_skip_all (nm : Txt) (pre : List Txt) (h : ∀ l ∈ pre, startsWith nm (lower l) = false) :
    ∀ (fuel : Nat) (rest : List Txt), rdcardsAux nm (pre.length + fuel) (pre ++ rest) = rdcardsAux nm fuel rest := by
  induction pre with
  | nil => intro fuel rest; simp
  | cons l r ih =>
      intro fuel rest
      have e : (l :: r).length + fuel = (r.length + fuel) + 1 := by simp; omega
      rw [e, List.cons_append, rdcardsAux_skip nm _ l _ (h l (by simp))]
      exact ih (fun x hx => h x (by simp [hx])) fuel rest

/-- `rdgrids` on the cards of fully expanded rows, after any lines that are not GRID cards -/
theorem rdGrids_rows (wide short : Bool) (rows : List GRow) (hne : rows ≠ [])
    (hc : ∀ r ∈ rows, r.Clean (if wide then 16 else 8))
    (hsh : short = true → ∀ r ∈ rows, r.ps = none ∧ r.seid = none)
    (pre : List Txt) (hpre : ∀ l ∈ pre, startsWith (txt "grid") (lower l) = false) :
    rdGrids (pre ++ rows.flatMap fun r => gridCard wide (r.fields (if wide then 16 else 8) short)) =
      .rows (rows.map GRow.vals) := by
  have hl : lower (txt "grid") = txt "grid" := by decide
  have hcards := rdcardsAux_grid_rows wide short rows hc _ (Nat.lt_succ_self _)
  unfold rdGrids rdcards
  rw [hl, List.length_append, Nat.add_assoc, rdcardsAux_skip_all _ pre hpre, hcards]
  have hlen : ∀ r : GRow, ((r.solid (if wide then 16 else 8) short).map nasScan).length ≤ 8 ∧
      6 ≤ ((r.solid (if wide then 16 else 8) short).map nasScan).length := by
    intro r
    have := gtail_length_le (if wide then 16 else 8) short r.ps r.seid
    simp only [GRow.solid, GRow.base, List.length_map, List.length_append, List.length_cons, List.length_nil]
    omega
  have hemp : (List.map (fun x => List.map Val.zero x)
      (List.map (fun r => List.map nasScan (GRow.solid (if wide = true then 16 else 8) short r)) rows)).isEmpty = false := by
    cases rows with
    | nil => exact absurd rfl hne
    | cons => rfl
  have hany : (List.map (fun x => List.map Val.zero x)
      (List.map (fun r => List.map nasScan (GRow.solid (if wide = true then 16 else 8) short r)) rows)).any List.isEmpty = false := by
    rw [List.any_eq_false]
    intro c hc'
    simp only [List.mem_map] at hc'
    obtain ⟨c', ⟨r, _, rfl⟩, rfl⟩ := hc'
    have := (hlen r).2
    cases hq : List.map nasScan (GRow.solid (if wide = true then 16 else 8) short r) with
    | nil => rw [hq] at this; simp at this
    | cons => simp
  have hmx : max 8 ((List.map (fun x => List.map Val.zero x)
      (List.map (fun r => List.map nasScan (GRow.solid (if wide = true then 16 else 8) short r)) rows)).foldl
        (fun a c => max a c.length) 0) = 8 := by
    have := foldl_max_length_le 8 (List.map (fun x => List.map Val.zero x)
      (List.map (fun r => List.map nasScan (GRow.solid (if wide = true then 16 else 8) short r)) rows)) (by
        intro c hc'
        simp only [List.mem_map] at hc'
        obtain ⟨c', ⟨r, _, rfl⟩, rfl⟩ := hc'
        simpa using (hlen r).1) 0 (by omega)
    omega
  simp only [hemp, hany, hmx, Bool.false_eq_true, if_false]
  congr 1
  rw [List.map_map, List.map_map]
  apply List.map_congr_left
  intro r hr
  have hs := fun h => hsh h r hr
  simp only [Function.comp, GRow.solid, List.map_append, GRow.vals]
  have := gtail_vals (if wide then 16 else 8) short r.ps r.seid
    ((((r.base (if wide then 16 else 8)).map nasScan)).map Val.zero) (by simp [GRow.base]) hs
  rw [this]
  simp [GRow.base, fmtI, nasScan_padL, Val.zero]

theorem GridIn.short_rows (g : GridIn) (h : g.short = true) : ∀ r ∈ g.rows, r.ps = none ∧ r.seid = none := by
  intro r hr
  unfold GridIn.short at h
  split at h
  · rename_i hp hs
    simp only [GridIn.rows, List.mem_filterMap, List.mem_range] at hr
    obtain ⟨i, hi, hrow⟩ := hr
    simp only [GridIn.row, hp, hs, Option.bind_eq_bind, Option.bind_eq_some_iff, Option.some.injEq] at hrow
    obtain ⟨_, _, _, _, _, _, _, _, ps, hps, seid, hseid, rfl⟩ := hrow
    have e1 : VArg.bc g.n (VArg.scalar (none : Option Int)) = List.replicate g.n none := rfl
    rw [e1] at hps hseid
    simp only [List.getElem?_replicate, if_pos hi, Option.some.injEq] at hps hseid
    exact ⟨hps.symm, hseid.symm⟩
  · exact absurd h (by simp)

theorem optAll_filterMap {α β : Type} (l : List α) (f : α → Option β) (h : ∀ a ∈ l, ∃ b, f a = some b) :
    optAll (l.map f) = some (l.filterMap f) := by
  induction l with
  | nil => rfl
  | cons a r ih =>
      obtain ⟨b, hb⟩ := h a (by simp)
      simp [optAll, hb, ih (fun x hx => h x (by simp [hx]))]

/-- `vecwrite`, any argument list that fits `n ≥ 1` rows (scalars, length-1 and length-`n` vectors in
any order; for `n > 1` at least one `n`-vector): row `i` holds element `i` of the broadcast of every
argument. -/
theorem vecRows_broadcast {α : Type} (args : List (VArg α)) (n : Nat) (hn : 1 ≤ n)
    (hc : ∀ a ∈ args, a.Compat n) (hfound : n = 1 ∨ ∃ l, VArg.vec l ∈ args ∧ l.length = n) :
    vecRows args = .ok ((List.range n).map fun i => args.filterMap fun a => (a.bc n)[i]?) := by
  have hlens : LensOk n (args.map VArg.len?) := by
    intro c hcm
    obtain ⟨a, ha, hac⟩ := List.mem_map.mp hcm
    have := hc a ha
    cases a with
    | scalar x => simp [VArg.len?] at hac
    | vec l => simp [VArg.len?] at hac; subst hac; rcases this with e | e <;> omega
  have hl : vecLength 1 (args.map VArg.len?) = some n := by
    by_cases h1 : n = 1
    · subst h1; exact vecLength_keep 1 _ hlens
    · rcases hfound with e | ⟨l, hl, hln⟩
      · exact absurd e h1
      · apply vecLength_found n (by omega) _ hlens
        exact List.mem_map.mpr ⟨_, hl, by simp [VArg.len?, hln]⟩
  apply vecRows_ok args n _ hl
  intro i hi
  have : args.map (·.get i) = args.map (fun a => (a.bc n)[i]?) := by
    apply List.map_congr_left
    intro a ha
    exact VArg.get_bc n a (hc a ha) i hi
  rw [this]
  exact optAll_filterMap args _ (fun a ha => getElem?_of_bc n a (hc a ha) i hi)

end PyYetiVerif.Bulk
