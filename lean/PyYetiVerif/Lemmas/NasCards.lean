import PyYetiVerif.Model.NasCards
import PyYetiVerif.Lemmas.NasFloat
/-! Helper lemmas for the card part of C12: chunking of a fixed-field line, integer / blank fields. -/
set_option linter.unusedSimpArgs false
namespace PyYetiVerif.NasCards
open PyYetiVerif.PyFloat PyYetiVerif.NasFloat

/-- the reader's loop positioned at the start of the remaining fields reads exactly them -/
theorem fieldsLoop_flatten (n : Nat) (hn : 0 < n) (s : Str) (rem : List Str)
    (hrem : ∀ f ∈ rem, f.length = n) (j fuel : Nat) (hs : s.drop j = rem.flatten)
    (hfit : j + rem.length * n ≤ 72) (hfuel : rem.length ≤ fuel) :
    fieldsLoop n s (j + rem.length * n) fuel j = rem.map cardVal := by
  induction rem generalizing j fuel with
  | nil =>
    cases fuel with
    | zero => rfl
    | succ fuel => simp [fieldsLoop]
  | cons f rest ih =>
    have hf : f.length = n := hrem f List.mem_cons_self
    have hrest : ∀ g ∈ rest, g.length = n := fun g hg => hrem g (List.mem_cons_of_mem _ hg)
    obtain ⟨fuel', rfl⟩ : ∃ fuel', fuel = fuel' + 1 := by
      simp only [List.length_cons] at hfuel; exact ⟨fuel - 1, by omega⟩
    simp only [List.length_cons] at hfit hfuel ⊢
    have e1 : (rest.length + 1) * n = n + rest.length * n := by ring
    have hc1 : j ≤ 72 - n := by rw [e1] at hfit; omega
    have hc2 : j + (rest.length + 1) * n > j := by rw [e1]; omega
    have htake : (s.drop j).take n = f := by
      rw [hs, List.flatten_cons, List.take_left' hf]
    have hdrop : s.drop (j + n) = rest.flatten := by
      rw [← List.drop_drop, hs, List.flatten_cons, List.drop_left' hf]
    have e2 : j + (rest.length + 1) * n = (j + n) + rest.length * n := by rw [e1]; ring
    have := ih hrest (j + n) fuel' hdrop (by rw [← e2]; exact hfit) (by omega)
    simp only [fieldsLoop, hc1, hc2, and_self, if_true, htake, List.map_cons]
    rw [e2, this]

/-- `body8` of at most eight fields (from field index `i`) is the concatenation of the fields:
no continuation is inserted before field 8. -/
theorem body8_flatten (fmt : Dbl → Str) (toks : List Tok) (i : Nat) (h : i + toks.length ≤ 8) :
    body8 fmt i toks = (toks.map (enc 8 fmt)).flatten := by
  induction toks generalizing i with
  | nil => rfl
  | cons t ts ih =>
    simp only [List.length_cons] at h
    have hi : (i > 0 && i % 8 == 0) = false := by
      rcases Nat.eq_zero_or_pos i with h0 | hpos
      · subst h0; rfl
      · have : i % 8 = i := Nat.mod_eq_of_lt (by omega)
        simp [this]; omega
    simp only [body8, hi, Bool.false_eq_true, if_false, List.nil_append, List.map_cons,
      List.flatten_cons, ih (i + 1) (by omega)]

/-! ### fields -/

theorem digitChar_isDigit (d : Nat) (h : d < 10) : isDigit (digitChar d) = true := by
  have key : ∀ d, d < 10 → isDigit (digitChar d) = true := by decide
  exact key d h

theorem digitChar_val (d : Nat) (h : d < 10) : (digitChar d).toNat - 48 = d := by
  have key : ∀ d, d < 10 → (digitChar d).toNat - 48 = d := by decide
  exact key d h

theorem digitsVal_append (s : Str) (c : Char) :
    digitsVal (s ++ [c]) = digitsVal s * 10 + (c.toNat - 48) := by
  simp [digitsVal, List.foldl_append]

/-- `str(n)` consists of digits and reads back as `n` -/
theorem natDigits_spec (n : Nat) : (natDigits n).all isDigit = true ∧ digitsVal (natDigits n) = n := by
  induction n using Nat.strong_induction_on with
  | _ n ih =>
    by_cases h10 : n < 10
    · rw [natDigits_lt_ten n h10]
      simp [digitChar_isDigit n h10, digitsVal, digitChar_val n h10]
    · rw [natDigits_ge_ten n h10]
      obtain ⟨h1, h2⟩ := ih (n / 10) (by omega)
      have hm : n % 10 < 10 := Nat.mod_lt _ (by norm_num)
      refine ⟨by simp [List.all_append, h1, digitChar_isDigit _ hm], ?_⟩
      rw [digitsVal_append, h2, digitChar_val _ hm]
      omega

theorem isWs_space : isWs ' ' = true := by decide

theorem digit_not_ws (c : Char) (h : isDigit c = true) : isWs c = false := by
  simp only [isDigit, Bool.and_eq_true, decide_eq_true_eq] at h
  obtain ⟨h1, h2⟩ := h
  have h1' : 48 ≤ c.toNat := h1
  have hne : ∀ d : Char, d.toNat < 48 → c ≠ d := by
    intro d hd hcd; rw [hcd] at h1'; omega
  simp [isWs, hne ' ' (by decide), hne '\n' (by decide), hne '\t' (by decide), hne '\r' (by decide),
    hne '\x0b' (by decide), hne '\x0c' (by decide)]


theorem natDigits_last (n : Nat) : ∃ u, natDigits n = u ++ [digitChar (n % 10)] := by
  by_cases h10 : n < 10
  · exact ⟨[], by rw [natDigits_lt_ten n h10, Nat.mod_eq_of_lt h10]; rfl⟩
  · exact ⟨natDigits (n / 10), natDigits_ge_ten n h10⟩

theorem natDigits_head (n : Nat) : ∃ c u, natDigits n = c :: u ∧ isDigit c = true := by
  have hall := (natDigits_spec n).1
  have hpos := natDigits_length_pos n
  cases h : natDigits n with
  | nil => rw [h] at hpos; simp at hpos
  | cons c u =>
    rw [h] at hall
    simp only [List.all_cons, Bool.and_eq_true] at hall
    exact ⟨c, u, rfl, hall.1⟩

theorem rstripBy_snoc_neg (p : Char → Bool) (v : Str) (d : Char) (hd : p d = false) :
    rstripBy p (v ++ [d]) = v ++ [d] := by
  simp [rstripBy, hd]

/-- stripping a right-justified token whose first and last characters are not white space -/
theorem stripWs_pad (m : Nat) (c : Char) (u v : Str) (d : Char) (hcu : c :: u = v ++ [d])
    (hc : isWs c = false) (hd : isWs d = false) :
    stripWs (List.replicate m ' ' ++ c :: u) = c :: u := by
  unfold stripWs stripBy
  rw [lstripBy_replicate_append _ _ isWs_space, lstripBy_cons_neg _ _ hc, hcu,
    rstripBy_snoc_neg _ _ _ hd]

theorem parseNat_natDigits (k : Nat) : parseNat? (natDigits k) = some k := by
  obtain ⟨h1, h2⟩ := natDigits_spec k
  have hne : natDigits k ≠ [] := by
    intro h; have := natDigits_length_pos k; rw [h] at this; simp at this
  simp [parseNat?, hne, h1, h2]

theorem splitSign_digit (c : Char) (u : Str) (h : isDigit c = true) :
    splitSign (c :: u) = (false, c :: u) := by
  have h1 : c ≠ '-' := by rintro rfl; revert h; decide
  have h2 : c ≠ '+' := by rintro rfl; revert h; decide
  unfold splitSign
  split
  · rename_i r heq; injection heq with hc _; exact absurd hc h1
  · rename_i r heq; injection heq with hc _; exact absurd hc h2
  · rfl

/-- the reader reads an integer field back: `int(f"{n:Wd}") = n` -/
theorem parseInt_rjust_intStr (W : Nat) (n : Int) : parseInt? (rjust W (intStr n)) = some n := by
  obtain ⟨v, hv⟩ := natDigits_last n.natAbs
  obtain ⟨c, u, hcu, hc⟩ := natDigits_head n.natAbs
  have hm : n.natAbs % 10 < 10 := Nat.mod_lt _ (by norm_num)
  have hdws : isWs (digitChar (n.natAbs % 10)) = false := digit_not_ws _ (digitChar_isDigit _ hm)
  unfold parseInt? rjust intStr
  by_cases hneg : n < 0
  · simp only [hneg, if_true, List.singleton_append]
    have e : '-' :: natDigits n.natAbs = ('-' :: v) ++ [digitChar (n.natAbs % 10)] := by rw [hv]; rfl
    rw [stripWs_pad _ '-' _ _ _ e (by decide) hdws]
    simp only [splitSign, parseNat_natDigits]
    have hab : (n.natAbs : Int) = -n := by omega
    simp [hab]
  · simp only [hneg, if_false, List.nil_append]
    rw [hcu] at hv
    rw [hcu, stripWs_pad _ c u _ _ hv (digit_not_ws c hc) hdws, splitSign_digit c u hc, ← hcu]
    simp only [parseNat_natDigits, Bool.false_eq_true, if_false]
    congr 1; omega

theorem nasSscanf_int_field (W : Nat) (n : Int) : nasSscanf (rjust W (intStr n)) true = .int n := by
  unfold nasSscanf; rw [parseInt_rjust_intStr]

theorem stripWs_spaces (m : Nat) : stripWs (List.replicate m ' ') = [] := by
  have := lstripBy_replicate_append isWs ' ' isWs_space m []
  simp only [List.append_nil] at this
  unfold stripWs stripBy
  rw [this]; rfl

/-- a blank field reads as the blank value `""` -/
theorem cardVal_blank (m : Nat) : cardVal (List.replicate m ' ') = .str [] := by
  have hs := stripWs_spaces m
  have h1 : parseInt? (List.replicate m ' ') = none := by
    unfold parseInt?; rw [hs]; rfl
  have h2 : parseFloat? (List.replicate m ' ') = none := by
    unfold parseFloat? parseDec?; rw [hs]; rfl
  unfold cardVal nasSscanf
  simp [h1, h2, hs]

end PyYetiVerif.NasCards
