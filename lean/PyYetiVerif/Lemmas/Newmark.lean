import PyYetiVerif.Model.Newmark
import PyYetiVerif.Model.Cdf
import Mathlib.Algebra.Module.LinearMap.Defs
import Mathlib.Analysis.Complex.Norm
import Mathlib.Tactic.Ring
import Mathlib.Tactic.FieldSimp
import Mathlib.Tactic.Linarith
import Mathlib.Tactic.LinearCombination
import Mathlib.Tactic.Positivity
/-!
Helper definitions and lemmas for C17 (Newmark-Beta and cd-as-force recurrences).
-/
namespace PyYetiVerif.Newmark

/-! ### quadratic test solutions -/
section quad
variable {α : Type} [Field α]

/-- `u(s) = c0 + c1 s + c2 s²` -/
def quad (c0 c1 c2 s : α) : α := c0 + c1 * s + c2 * s ^ 2
/-- the matching force `m u'' + b u' + k u` -/
def quadForce (m b k c0 c1 c2 s : α) : α := m * (2 * c2) + b * (c1 + 2 * c2 * s) + k * quad c0 c1 c2 s

/-- clearing the divisions by `3` and by `A` in one evaluation of the recurrence -/
theorem step_mul_A [CharZero α] (A a b c n A1 A0 u w : α) (hA : A ≠ 0) :
    A * (a / 3 / A + b / 3 / A + c / 3 / A + n + A1 / A * u + A0 / A * w)
      = (a + b + c) / 3 + A * n + A1 * u + A0 * w := by
  field_simp

end quad

/-! ### a real quadratic satisfying the Schur–Cohn (Jury) conditions has its roots in the open disc -/

theorem quad_roots_in_disc (a2 a1 a0 : ℝ) (h0 : |a0| < a2) (hp : 0 < a2 + a1 + a0)
    (hm : 0 < a2 - a1 + a0) (z : ℂ) (hz : (a2 : ℂ) * z ^ 2 + a1 * z + a0 = 0) : ‖z‖ < 1 := by
  obtain ⟨h0l, h0r⟩ := abs_lt.mp h0
  have hre := congrArg Complex.re hz
  have him := congrArg Complex.im hz
  simp only [pow_two, Complex.add_re, Complex.mul_re, Complex.ofReal_re, Complex.ofReal_im,
    Complex.add_im, Complex.mul_im, Complex.zero_re, Complex.zero_im, zero_mul, sub_zero,
    add_zero] at hre him
  set x := z.re
  set y := z.im
  have hsq : x * x + y * y < 1 := by
    by_cases hy : y = 0
    · -- real root: `p(x) = 0` with `p > 0` outside `(-1, 1)`
      rw [hy] at hre
      by_contra hcon
      push Not at hcon
      rw [hy] at hcon
      have hx : 1 ≤ x ∨ x ≤ -1 := by
        by_contra hx
        push Not at hx
        nlinarith
      rcases hx with hx | hx
      · nlinarith [mul_nonneg (sub_nonneg.mpr hx) (sub_nonneg.mpr hx)]
      · nlinarith [mul_nonneg (sub_nonneg.mpr (neg_le_neg hx)) (sub_nonneg.mpr (neg_le_neg hx))]
    · -- complex pair: `a1 = -2 a2 x`, hence `a2 (x² + y²) = a0`
      have h1 : a2 * (2 * x) + a1 = 0 := by
        have : y * (a2 * (2 * x) + a1) = 0 := by linarith
        rcases mul_eq_zero.mp this with h | h
        · exact absurd h hy
        · exact h
      have h2 : a2 * (x * x + y * y) = a0 := by nlinarith
      have ha2 : 0 < a2 := by linarith
      by_contra hcon
      push Not at hcon
      nlinarith
  have hn : ‖z‖ ^ 2 = x * x + y * y := by
    rw [Complex.sq_norm, Complex.normSq_apply]
  by_contra hcon
  push Not at hcon
  nlinarith [norm_nonneg z]

/-! ### the documented equations as a relation on (reversed) histories -/
section documented
variable {α V : Type} [Field α] [AddCommGroup V] [Module α V]

/-- `a * x` is `a • x`, `x / a` is `a⁻¹ • x` -/
@[reducible] def moduleVecOps : VecOps α V := ⟨fun a x => a • x, fun x a => a⁻¹ • x⟩

/-- `Documented A A1 A0 N us fs`: `us = [u_n, …, u_0, u₋₁]`, `fs = [F_n, …, F_0, F₋₁]` (most recent first)
and every three consecutive entries satisfy
`A u_{j+1} = (F_{j+1} + F_j + F_{j-1}) / 3 + N_j + A1 u_j + A0 u_{j-1}`, where `N_j` sees the index `j` and
the history `[u_j, …, u₋₁]`. -/
inductive Documented (A A1 A0 : V → V) (N : Nat → List V → V) : List V → List V → Prop
  | base (u0 um f0 fm : V) : Documented A A1 A0 N [u0, um] [f0, fm]
  | step {u2 u1 u0 f2 f1 f0 : V} {us fs : List V} :
      Documented A A1 A0 N (u1 :: u0 :: us) (f1 :: f0 :: fs) →
      A u2 = (3 : α)⁻¹ • (f2 + f1 + f0) + N us.length (u1 :: u0 :: us) + A1 u1 + A0 u0 →
      Documented A A1 A0 N (u2 :: u1 :: u0 :: us) (f2 :: f1 :: f0 :: fs)

theorem Documented.length_eq {A A1 A0 : V → V} {N : Nat → List V → V} {us fs : List V}
    (h : Documented (α := α) A A1 A0 N us fs) : us.length = fs.length := by
  induction h with
  | base => rfl
  | step _ _ ih => simp only [List.length_cons] at ih ⊢; omega

variable (S : Sys V α) (nl N : Nat → List V → V) (A : V →ₗ[α] V) (A1 A0 : V → V)

attribute [local instance] moduleVecOps

theorem A_scaled (hsolve : ∀ x, A (S.solve x) = x) (f : V) : A (scaled S f) = (3 : α)⁻¹ • f := by
  simp only [scaled, hsolve, VecOps.sdiv]

theorem A_step (hsolve : ∀ x, A (S.solve x) = x) (hA1 : ∀ x, A (S.A1 x) = A1 x)
    (hA0 : ∀ x, A (S.A0 x) = A0 x) (hnl : ∀ j hs, A (nl j hs) = N j hs)
    (f2 f1 f0 u1 u0 : V) (j : Nat) (hs : List V) :
    A (step S (scaled S f2) (scaled S f1) (scaled S f0) (nl j hs) u1 u0)
      = (3 : α)⁻¹ • (f2 + f1 + f0) + N j hs + A1 u1 + A0 u0 := by
  simp only [step, map_add, A_scaled S A hsolve, hA1, hA0, hnl, smul_add]

/-- invariant of the integration loop -/
theorem loop_documented (hsolve : ∀ x, A (S.solve x) = x) (hA1 : ∀ x, A (S.A1 x) = A1 x)
    (hA0 : ∀ x, A (S.A0 x) = A0 x) (hnl : ∀ j hs, A (nl j hs) = N j hs) (tail : List V) :
    ∀ (raw : List V) (s : LoopSt V) (f1 f0 : V) (fs Y : List V),
      Documented (α := α) A A1 A0 N s.hist (f1 :: f0 :: fs) → s.j = s.older.length →
      s.g1 = scaled S f1 → s.g0 = scaled S f0 → s.hist = Y ++ tail →
      ∃ (f1' f0' : V) (fs' Y' : List V),
        raw.reverse ++ f1 :: f0 :: fs = f1' :: f0' :: fs' ∧
        Documented (α := α) A A1 A0 N (loop S nl s (raw.map (scaled S))).hist (f1' :: f0' :: fs') ∧
        (loop S nl s (raw.map (scaled S))).j = (loop S nl s (raw.map (scaled S))).older.length ∧
        (loop S nl s (raw.map (scaled S))).g1 = scaled S f1' ∧
        (loop S nl s (raw.map (scaled S))).hist = Y' ++ tail := by
  intro raw
  induction raw with
  | nil =>
    intro s f1 f0 fs Y hd hj hg1 _ hY
    exact ⟨f1, f0, fs, Y, by simp, by simpa [loop] using hd, by simpa [loop] using hj,
      by simpa [loop] using hg1, by simpa [loop] using hY⟩
  | cons r raw ih =>
    intro s f1 f0 fs Y hd hj hg1 hg0 hY
    simp only [List.map_cons, loop]
    have hstep := A_step S nl N A A1 A0 hsolve hA1 hA0 hnl r f1 f0 s.u1 s.u0 s.j s.hist
    rw [← hg1, ← hg0, hj] at hstep
    obtain ⟨f1', f0', fs', Y', he, hd', hj', hg', hY'⟩ :=
      ih { j := s.j + 1, u1 := step S (scaled S r) s.g1 s.g0 (nl s.j s.hist) s.u1 s.u0, u0 := s.u1,
           older := s.u0 :: s.older, g1 := scaled S r, g0 := s.g1 } r f1 (f0 :: fs)
        (step S (scaled S r) s.g1 s.g0 (nl s.j s.hist) s.u1 s.u0 :: Y)
        (by
          simp only [LoopSt.hist]
          refine Documented.step (by simpa [LoopSt.hist] using hd) ?_
          rw [hj]; exact hstep)
        (by simp [hj]) rfl hg1
        (by simp only [LoopSt.hist] at hY ⊢; rw [hY]; rfl)
    exact ⟨f1', f0', fs', Y', by simpa using he, hd', hj', hg', hY'⟩

end documented

/-! ### central differences: what `velo` / `accel` put at position `j` -/
section differences
variable {α V : Type} [Add V] [Sub V] [VecOps α V] [OfNat α 2]
open VecOps

theorem accel_getElem? (sqh : α) : ∀ (uu : List V) (j : Nat) (a b c : V),
    uu[j]? = some a → uu[j + 1]? = some b → uu[j + 2]? = some c →
    (accel sqh uu)[j]? = some (sdiv (c - smul (2 : α) b + a) sqh)
  | [], _, _, _, _, h, _, _ => by simp at h
  | [_], _, _, _, _, _, h, _ => by simp at h
  | [_, _], _, _, _, _, _, _, h => by simp at h
  | x :: y :: z :: rest, 0, a, b, c, ha, hb, hc => by
    simp only [List.getElem?_cons_zero, List.getElem?_cons_succ, Option.some.injEq] at ha hb hc
    subst ha hb hc
    simp [accel]
  | x :: y :: z :: rest, j + 1, a, b, c, ha, hb, hc => by
    simp only [accel, List.getElem?_cons_succ] at ha hb hc ⊢
    exact accel_getElem? sqh (y :: z :: rest) j a b c ha hb hc

omit [Add V] [OfNat α 2] in
theorem velo_getElem? (h2 : α) : ∀ (uu : List V) (j : Nat) (a c : V),
    uu[j]? = some a → uu[j + 2]? = some c →
    (velo h2 uu)[j]? = some (sdiv (c - a) h2)
  | [], _, _, _, h, _ => by simp at h
  | [_], _, _, _, _, h => by simp at h
  | [_, _], _, _, _, _, h => by simp at h
  | x :: y :: z :: rest, 0, a, c, ha, hc => by
    simp only [List.getElem?_cons_zero, List.getElem?_cons_succ, Option.some.injEq] at ha hc
    subst ha hc
    simp [velo]
  | x :: y :: z :: rest, j + 1, a, c, ha, hc => by
    simp only [velo, List.getElem?_cons_succ] at ha hc ⊢
    exact velo_getElem? h2 (y :: z :: rest) j a c ha hc

end differences

end PyYetiVerif.Newmark
