import Mathlib.Analysis.SpecialFunctions.Integrals.Basic
import PyYetiVerif.Model.ExpSeries
/-!
# C07 — the coefficient sequences are the termwise integrals

`I1 = ∫₀ʰ e^{At} dt`, `I2 = ∫₀ʰ t e^{At} dt` and the variation-of-constants integrals of one step
under a zero- or first-order hold, term by term (`A^k` has the scalar factor `t^k / k!`).
-/
open intervalIntegral
namespace PyYetiVerif.ExpSeries

theorem fact_eq' (n : ℕ) : fact n = n.factorial := by
  induction n with
  | zero => rfl
  | succ n ih => simp [fact, ih, Nat.factorial_succ]

theorem phi1Coef_real (k : ℕ) : ((phi1Coef k : ℚ) : ℝ) = 1 / ((k + 1) * (k.factorial : ℝ)) := by
  simp [phi1Coef, fact_eq', Nat.factorial_succ]
theorem phi2Coef_real (k : ℕ) : ((phi2Coef k : ℚ) : ℝ) = 1 / ((k + 2) * (k.factorial : ℝ)) := by
  simp [phi2Coef, fact_eq']
theorem psiCoef_real (k : ℕ) : ((psiCoef k : ℚ) : ℝ) = 1 / ((k + 2) * ((k + 1) * (k.factorial : ℝ))) := by
  simp only [psiCoef, fact_eq', Nat.factorial_succ]
  push_cast
  ring

/-- `∫₀ʰ s^k/k! · s^j ds` -/
theorem integral_term (h : ℝ) (k j : ℕ) :
    ∫ s in (0 : ℝ)..h, s ^ k / (k.factorial : ℝ) * s ^ j
      = h ^ (k + j + 1) / ((k + j + 1 : ℕ) * (k.factorial : ℝ)) := by
  have : ∀ s : ℝ, s ^ k / (k.factorial : ℝ) * s ^ j = (1 / (k.factorial : ℝ)) * s ^ (k + j) := by
    intro s; rw [pow_add]; ring
  simp_rw [this]
  rw [integral_const_mul, integral_pow]
  have h0 : (k.factorial : ℝ) ≠ 0 := by positivity
  have h1 : ((k + j + 1 : ℕ) : ℝ) ≠ 0 := by positivity
  push_cast at h1 ⊢
  field_simp
  ring

theorem I1_termwise (h : ℝ) (k : ℕ) :
    ∫ t in (0 : ℝ)..h, t ^ k / (k.factorial : ℝ) = h ^ (k + 1) * ((phi1Coef k : ℚ) : ℝ) := by
  have := integral_term h k 0
  simp only [pow_zero, mul_one, add_zero] at this
  rw [this, phi1Coef_real]; push_cast; ring

theorem I2_termwise (h : ℝ) (k : ℕ) :
    ∫ t in (0 : ℝ)..h, t * (t ^ k / (k.factorial : ℝ)) = h ^ (k + 2) * ((phi2Coef k : ℚ) : ℝ) := by
  have := integral_term h k 1
  simp only [pow_one] at this
  simp_rw [mul_comm _ (_ / _)]
  rw [this, phi2Coef_real]; push_cast; ring

theorem zoh_termwise (h : ℝ) (k : ℕ) :
    ∫ τ in (0 : ℝ)..h, (h - τ) ^ k / (k.factorial : ℝ) = h ^ (k + 1) * ((phi1Coef k : ℚ) : ℝ) := by
  have := integral_comp_sub_left (fun s : ℝ => s ^ k / (k.factorial : ℝ)) h (a := 0) (b := h)
  simp only [sub_self, sub_zero] at this
  rw [this, I1_termwise]

theorem foh_termwise_P (h : ℝ) (hh : h ≠ 0) (k : ℕ) :
    ∫ τ in (0 : ℝ)..h, (h - τ) ^ k / (k.factorial : ℝ) * (1 - τ / h)
      = h ^ (k + 1) * ((phi2Coef k : ℚ) : ℝ) := by
  have := integral_comp_sub_left (fun s : ℝ => s ^ k / (k.factorial : ℝ) * (s / h)) h (a := 0) (b := h)
  simp only [sub_self, sub_zero] at this
  have e : ∀ τ : ℝ, (h - τ) ^ k / (k.factorial : ℝ) * (1 - τ / h)
      = (h - τ) ^ k / (k.factorial : ℝ) * ((h - τ) / h) := by
    intro τ; congr 1; field_simp
  simp_rw [e]
  rw [this]
  have e2 : ∀ s : ℝ, s ^ k / (k.factorial : ℝ) * (s / h) = (1 / h) * (s ^ k / (k.factorial : ℝ) * s ^ 1) := by
    intro s; ring
  simp_rw [e2]
  rw [integral_const_mul, integral_term, phi2Coef_real]
  have h0 : (k.factorial : ℝ) ≠ 0 := by positivity
  push_cast
  field_simp
  ring

theorem foh_termwise_Q (h : ℝ) (hh : h ≠ 0) (k : ℕ) :
    ∫ τ in (0 : ℝ)..h, (h - τ) ^ k / (k.factorial : ℝ) * (τ / h)
      = h ^ (k + 1) * ((psiCoef k : ℚ) : ℝ) := by
  have := integral_comp_sub_left (fun s : ℝ => s ^ k / (k.factorial : ℝ) * ((h - s) / h)) h (a := 0) (b := h)
  simp only [sub_self, sub_zero, sub_sub_cancel] at this
  rw [this]
  have e2 : ∀ s : ℝ, s ^ k / (k.factorial : ℝ) * ((h - s) / h)
      = (s ^ k / (k.factorial : ℝ) * s ^ 0) - (1 / h) * (s ^ k / (k.factorial : ℝ) * s ^ 1) := by
    intro s; field_simp
  simp_rw [e2]
  rw [integral_sub, integral_const_mul, integral_term, integral_term, psiCoef_real]
  · have h0 : (k.factorial : ℝ) ≠ 0 := by positivity
    push_cast
    field_simp
    ring
  · exact (by fun_prop : Continuous fun s : ℝ => s ^ k / (k.factorial : ℝ) * s ^ 0).intervalIntegrable _ _
  · exact (by fun_prop : Continuous fun s : ℝ => 1 / h * (s ^ k / (k.factorial : ℝ) * s ^ 1)).intervalIntegrable _ _

end PyYetiVerif.ExpSeries
