import Mathlib.Analysis.Calculus.MeanValue
import Mathlib.Analysis.Calculus.Deriv.Pow
import Mathlib.Analysis.Calculus.Deriv.Shift
import Mathlib.Analysis.Calculus.Deriv.Add
import Mathlib.Analysis.Calculus.Deriv.Mul
import Mathlib.Tactic.Ring
import Mathlib.Tactic.FieldSimp
import Mathlib.Tactic.Linarith
import Mathlib.Tactic.Positivity
/-!
Taylor remainder bounds for the finite differences that occur in the Newmark-beta scheme, for functions
with explicit derivative chains (`HasDerivAt g (g1 t) t` for every `t`) and derivative bounds on the
interval actually used.  Everything is derived from one fencing lemma (`abs_le_of_deriv_abs_le`, from
Mathlib's `image_le_of_deriv_right_le_deriv_boundary`).
-/
namespace PyYetiVerif.Newmark
open Set

/-- if `φ 0 = 0` and `|φ'| ≤ c sⁿ` on `[0, h]` then `|φ s| ≤ c/(n+1) s^(n+1)` on `[0, h]` -/
theorem abs_le_of_deriv_abs_le (φ φ' : ℝ → ℝ) (h c : ℝ) (n : ℕ)
    (hd : ∀ s ∈ Icc 0 h, HasDerivAt φ (φ' s) s) (h0 : φ 0 = 0)
    (hb : ∀ s ∈ Icc 0 h, |φ' s| ≤ c * s ^ n) :
    ∀ s ∈ Icc 0 h, |φ s| ≤ c / (n + 1) * s ^ (n + 1) := by
  have hn : ((n : ℝ) + 1) ≠ 0 := by positivity
  have hB : ∀ s : ℝ, HasDerivAt (fun s => c / (n + 1) * s ^ (n + 1)) (c * s ^ n) s := by
    intro s
    have := (hasDerivAt_pow (n + 1) s).const_mul (c / ((n : ℝ) + 1))
    refine this.congr_deriv ?_
    push_cast
    field_simp
  have hcont : ContinuousOn φ (Icc 0 h) := fun s hs => (hd s hs).continuousAt.continuousWithinAt
  have hBc : ContinuousOn (fun s : ℝ => c / (n + 1) * s ^ (n + 1)) (Icc 0 h) :=
    fun s _ => (hB s).continuousAt.continuousWithinAt
  have hB0 : c / ((n : ℝ) + 1) * (0 : ℝ) ^ (n + 1) = 0 := by simp
  intro s hs
  rw [abs_le]
  constructor
  · have := image_le_of_deriv_right_le_deriv_boundary (f := fun s => -φ s) (f' := fun s => -φ' s)
      (a := 0) (b := h) hcont.neg
      (fun x hx => ((hd x (Ico_subset_Icc_self hx)).neg).hasDerivWithinAt)
      (B := fun s => c / (n + 1) * s ^ (n + 1)) (B' := fun s => c * s ^ n)
      (by simp only [h0, hB0, neg_zero, le_refl]) hBc (fun x _ => (hB x).hasDerivWithinAt)
      (fun x hx => by
        have := hb x (Ico_subset_Icc_self hx); rw [abs_le] at this; linarith [this.1]) hs
    linarith
  · exact image_le_of_deriv_right_le_deriv_boundary (f := φ) (f' := φ')
      (a := 0) (b := h) hcont
      (fun x hx => (hd x (Ico_subset_Icc_self hx)).hasDerivWithinAt)
      (B := fun s => c / (n + 1) * s ^ (n + 1)) (B' := fun s => c * s ^ n)
      (by simp only [h0, hB0, le_refl]) hBc (fun x _ => (hB x).hasDerivWithinAt)
      (fun x hx => by
        have := hb x (Ico_subset_Icc_self hx); rw [abs_le] at this; linarith [this.2]) hs

section diffs
variable (g g1 g2 g3 : ℝ → ℝ)

/-- `|g(a+s) + g(a−s)| ≤ 2M` from a bound on `[a−h, a+h]` -/
theorem abs_sym_le (f : ℝ → ℝ) (a h M : ℝ) (hM : ∀ t ∈ Icc (a - h) (a + h), |f t| ≤ M) (sg : ℝ)
    (hsg : |sg| = 1) : ∀ s ∈ Icc 0 h, |f (a + s) + sg * f (a - s)| ≤ 2 * M * s ^ 0 := by
  intro s hs
  have h1 := hM (a + s) ⟨by linarith [hs.1, hs.2], by linarith [hs.1, hs.2]⟩
  have h2 := hM (a - s) ⟨by linarith [hs.1, hs.2], by linarith [hs.1, hs.2]⟩
  have h3 : |f (a + s) + sg * f (a - s)| ≤ |f (a + s)| + |sg * f (a - s)| := abs_add_le _ _
  rw [abs_mul, hsg, one_mul] at h3
  simp only [pow_zero, mul_one]
  linarith

/-- second difference, two derivatives: `|g(a+h) − 2 g(a) + g(a−h)| ≤ M h²` with `|g''| ≤ M` -/
theorem second_diff_le (hd0 : ∀ t, HasDerivAt g (g1 t) t) (hd1 : ∀ t, HasDerivAt g1 (g2 t) t)
    (a h M : ℝ) (hh : 0 ≤ h) (hM : ∀ t ∈ Icc (a - h) (a + h), |g2 t| ≤ M) :
    |g (a + h) - 2 * g a + g (a - h)| ≤ M * h ^ 2 := by
  have e1 : ∀ s ∈ Icc 0 h, HasDerivAt (fun s => g1 (a + s) + (-1) * g1 (a - s))
      (g2 (a + s) + 1 * g2 (a - s)) s := by
    intro s _
    have := ((hd1 (a + s)).comp_const_add a s).add (((hd1 (a - s)).comp_const_sub a s).const_mul (-1))
    exact this.congr_deriv (by ring)
  have e0 : ∀ s ∈ Icc 0 h, HasDerivAt (fun s => g (a + s) - 2 * g a + g (a - s))
      (g1 (a + s) + (-1) * g1 (a - s)) s := by
    intro s _
    have := (((hd0 (a + s)).comp_const_add a s).sub_const (2 * g a)).add
      ((hd0 (a - s)).comp_const_sub a s)
    exact this.congr_deriv (by ring)
  have b2 := abs_sym_le g2 a h M hM 1 (by simp)
  have b1 := abs_le_of_deriv_abs_le _ _ h (2 * M) 0 e1 (by simp) b2
  have b0 := abs_le_of_deriv_abs_le _ _ h (2 * M / ((0 : ℕ) + 1)) (0 + 1) e0 (by simp; ring) b1
  refine le_trans (b0 h ⟨hh, le_refl _⟩) (le_of_eq ?_)
  push_cast; ring

/-- centred first difference, three derivatives:
`|g(a+h) − g(a−h) − 2h g'(a)| ≤ M h³ / 3` with `|g'''| ≤ M` -/
theorem centered_diff_le (hd0 : ∀ t, HasDerivAt g (g1 t) t) (hd1 : ∀ t, HasDerivAt g1 (g2 t) t)
    (hd2 : ∀ t, HasDerivAt g2 (g3 t) t)
    (a h M : ℝ) (hh : 0 ≤ h) (hM : ∀ t ∈ Icc (a - h) (a + h), |g3 t| ≤ M) :
    |g (a + h) - g (a - h) - 2 * h * g1 a| ≤ M / 3 * h ^ 3 := by
  have e2 : ∀ s ∈ Icc 0 h, HasDerivAt (fun s => g2 (a + s) + (-1) * g2 (a - s))
      (g3 (a + s) + 1 * g3 (a - s)) s := by
    intro s _
    have := ((hd2 (a + s)).comp_const_add a s).add (((hd2 (a - s)).comp_const_sub a s).const_mul (-1))
    exact this.congr_deriv (by ring)
  have e1 : ∀ s ∈ Icc 0 h, HasDerivAt (fun s => g1 (a + s) + g1 (a - s) - 2 * g1 a)
      (g2 (a + s) + (-1) * g2 (a - s)) s := by
    intro s _
    have := (((hd1 (a + s)).comp_const_add a s).add
      ((hd1 (a - s)).comp_const_sub a s)).sub_const (2 * g1 a)
    exact this.congr_deriv (by ring)
  have e0 : ∀ s ∈ Icc 0 h, HasDerivAt (fun s => g (a + s) - g (a - s) - 2 * s * g1 a)
      (g1 (a + s) + g1 (a - s) - 2 * g1 a) s := by
    intro s _
    have := (((hd0 (a + s)).comp_const_add a s).sub
      ((hd0 (a - s)).comp_const_sub a s)).sub (((hasDerivAt_id s).const_mul 2).mul_const (g1 a))
    exact this.congr_deriv (by ring)
  have b3 := abs_sym_le g3 a h M hM 1 (by simp)
  have b2 := abs_le_of_deriv_abs_le _ _ h (2 * M) 0 e2 (by simp) b3
  have b1 := abs_le_of_deriv_abs_le _ _ h (2 * M / ((0 : ℕ) + 1)) (0 + 1) e1 (by simp; ring) b2
  have b0 := abs_le_of_deriv_abs_le _ _ h (2 * M / ((0 : ℕ) + 1) / ((0 + 1 : ℕ) + 1)) (0 + 1 + 1) e0
    (by simp) b1
  refine le_trans (b0 h ⟨hh, le_refl _⟩) (le_of_eq ?_)
  push_cast; ring

/-- second difference against the second derivative, four derivatives:
`|g(a+h) − 2 g(a) + g(a−h) − h² g''(a)| ≤ M h⁴ / 12` with `|g''''| ≤ M` -/
theorem second_diff_taylor_le (g4 : ℝ → ℝ) (hd0 : ∀ t, HasDerivAt g (g1 t) t)
    (hd1 : ∀ t, HasDerivAt g1 (g2 t) t) (hd2 : ∀ t, HasDerivAt g2 (g3 t) t)
    (hd3 : ∀ t, HasDerivAt g3 (g4 t) t)
    (a h M : ℝ) (hh : 0 ≤ h) (hM : ∀ t ∈ Icc (a - h) (a + h), |g4 t| ≤ M) :
    |g (a + h) - 2 * g a + g (a - h) - h ^ 2 * g2 a| ≤ M / 12 * h ^ 4 := by
  have e0 : ∀ s ∈ Icc 0 h, HasDerivAt (fun s => g (a + s) - 2 * g a + g (a - s) - s ^ 2 * g2 a)
      (g1 (a + s) - g1 (a - s) - 2 * s * g2 a) s := by
    intro s _
    have := ((((hd0 (a + s)).comp_const_add a s).sub_const (2 * g a)).add
      ((hd0 (a - s)).comp_const_sub a s)).sub ((hasDerivAt_pow 2 s).mul_const (g2 a))
    exact this.congr_deriv (by simp; ring)
  have b1 : ∀ s ∈ Icc 0 h, |g1 (a + s) - g1 (a - s) - 2 * s * g2 a| ≤ M / 3 * s ^ 3 := by
    intro s hs
    exact centered_diff_le g1 g2 g3 g4 hd1 hd2 hd3 a s M hs.1 fun t ht =>
      hM t ⟨by linarith [ht.1, hs.2], by linarith [ht.2, hs.2]⟩
  have b0 := abs_le_of_deriv_abs_le _ _ h (M / 3) 3 e0 (by simp; ring) b1
  refine le_trans (b0 h ⟨hh, le_refl _⟩) (le_of_eq ?_)
  push_cast; ring

/-- one-sided Taylor remainders of orders 1, 2, 3 with `|g'''| ≤ M` on `[a, a+h]` -/
theorem forward_taylor_le (hd0 : ∀ t, HasDerivAt g (g1 t) t) (hd1 : ∀ t, HasDerivAt g1 (g2 t) t)
    (hd2 : ∀ t, HasDerivAt g2 (g3 t) t)
    (a h M : ℝ) (hh : 0 ≤ h) (hM : ∀ t ∈ Icc a (a + h), |g3 t| ≤ M) :
    |g2 (a + h) - g2 a| ≤ M * h ∧
    |g1 (a + h) - g1 a - h * g2 a| ≤ M / 2 * h ^ 2 ∧
    |g (a + h) - g a - h * g1 a - h ^ 2 / 2 * g2 a| ≤ M / 6 * h ^ 3 := by
  have e2 : ∀ s ∈ Icc 0 h, HasDerivAt (fun s => g2 (a + s) - g2 a) (g3 (a + s)) s := by
    intro s _
    exact ((hd2 (a + s)).comp_const_add a s).sub_const (g2 a)
  have e1 : ∀ s ∈ Icc 0 h, HasDerivAt (fun s => g1 (a + s) - g1 a - s * g2 a) (g2 (a + s) - g2 a) s := by
    intro s _
    have := (((hd1 (a + s)).comp_const_add a s).sub_const (g1 a)).sub
      ((hasDerivAt_id s).mul_const (g2 a))
    exact this.congr_deriv (by simp)
  have e0 : ∀ s ∈ Icc 0 h, HasDerivAt (fun s => g (a + s) - g a - s * g1 a - s ^ 2 / 2 * g2 a)
      (g1 (a + s) - g1 a - s * g2 a) s := by
    intro s _
    have := ((((hd0 (a + s)).comp_const_add a s).sub_const (g a)).sub
      ((hasDerivAt_id s).mul_const (g1 a))).sub
      (((hasDerivAt_pow 2 s).div_const 2).mul_const (g2 a))
    exact this.congr_deriv (by simp)
  have b3 : ∀ s ∈ Icc 0 h, |g3 (a + s)| ≤ M * s ^ 0 := by
    intro s hs
    simpa using hM (a + s) ⟨by linarith [hs.1], by linarith [hs.2]⟩
  have b2 := abs_le_of_deriv_abs_le _ _ h M 0 e2 (by simp) b3
  have b1 := abs_le_of_deriv_abs_le _ _ h (M / ((0 : ℕ) + 1)) (0 + 1) e1 (by simp) b2
  have b0 := abs_le_of_deriv_abs_le _ _ h (M / ((0 : ℕ) + 1) / ((0 + 1 : ℕ) + 1)) (0 + 1 + 1) e0
    (by simp) b1
  have hmem : h ∈ Icc 0 h := ⟨hh, le_refl _⟩
  refine ⟨?_, ?_, ?_⟩
  · refine le_trans (b2 h hmem) (le_of_eq ?_)
    push_cast; ring
  · refine le_trans (b1 h hmem) (le_of_eq ?_)
    push_cast; ring
  · refine le_trans (b0 h hmem) (le_of_eq ?_)
    push_cast; ring

end diffs

end PyYetiVerif.Newmark
