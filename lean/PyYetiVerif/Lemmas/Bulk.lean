import PyYetiVerif.Model.Bulk
/-! Helper lemmas for C13 (core Lean tactics only). -/
namespace PyYetiVerif.Bulk

/-! ### chunks -/

theorem chunks_flatten {α : Type} (k : Nat) (l : List α) : (chunks k l).flatten = l := by
  fun_induction chunks k l with
  | case1 l h he => simp_all
  | case2 l h he => simp
  | case3 l h ih => simp [ih]

theorem chunks_length_le {α : Type} (k : Nat) (hk : 0 < k) (l : List α) :
    ∀ c ∈ chunks k l, c.length ≤ k ∧ 0 < c.length := by
  fun_induction chunks k l with
  | case1 l h he => simp
  | case2 l h he =>
      intro c hc
      simp only [List.mem_singleton] at hc
      subst hc
      rcases h with h | h
      · omega
      · refine ⟨h, ?_⟩
        cases c with
        | nil => simp at he
        | cons => simp
  | case3 l h ih =>
      intro c hc
      simp only [List.mem_cons] at hc
      rcases hc with hc | hc
      · subst hc
        simp only [List.length_take]
        omega
      · exact ih c hc

/-! ### THRU -/

theorem rangeI_self (a : Int) : rangeI a a = [a] := by
  have h : (a + 1 - a).toNat = 1 := by omega
  simp [rangeI, h, List.range_succ]

theorem rangeI_succ {a b : Int} (h : a ≤ b) : rangeI a (b + 1) = rangeI a b ++ [b + 1] := by
  have h1 : (b + 1 + 1 - a).toNat = (b + 1 - a).toNat + 1 := by omega
  simp [rangeI, h1, List.range_succ]
  omega

theorem expand_mkItem {s c : Int} (h : s ≤ c) : (mkItem s c).expand = rangeI s c := by
  unfold mkItem
  split
  · rfl
  · have : s = c := by omega
    subst this
    simp [Item.expand, rangeI_self]

theorem expand_cons (i : Item) (l : List Item) : expand (i :: l) = i.expand ++ expand l := by
  simp [expand]

theorem expand_compressAux (xs : List Int) : ∀ {s c : Int}, s ≤ c →
    expand (compressAux s c xs) = rangeI s c ++ xs := by
  induction xs with
  | nil => intro s c h; simp [compressAux, expand, expand_mkItem h]
  | cons x xs ih =>
      intro s c h
      unfold compressAux
      split
      · rename_i hx
        subst hx
        rw [ih (by omega), rangeI_succ h]
        simp
      · rw [expand_cons, expand_mkItem h, ih (Int.le_refl x), rangeI_self]
        simp

theorem mkItem_first (s c : Int) : (mkItem s c).first = s := by
  unfold mkItem; split <;> rfl

theorem mkItem_last {s c : Int} (h : s ≤ c) : (mkItem s c).last = c := by
  unfold mkItem; split
  · rfl
  · simp [Item.last]; omega

theorem mkItem_proper (s c : Int) : (mkItem s c).Proper := by
  unfold mkItem; split
  · assumption
  · trivial

theorem compressAux_head (xs : List Int) : ∀ (s c : Int),
    ∃ it r, compressAux s c xs = it :: r ∧ it.first = s := by
  induction xs with
  | nil => intro s c; exact ⟨_, _, rfl, mkItem_first s c⟩
  | cons x xs ih =>
      intro s c
      unfold compressAux
      split
      · exact ih s x
      · exact ⟨_, _, rfl, mkItem_first s c⟩

theorem compressAux_noMerge (xs : List Int) : ∀ {s c : Int}, s ≤ c →
    NoMerge (compressAux s c xs) := by
  induction xs with
  | nil => intro s c _; simp [compressAux, NoMerge]
  | cons x xs ih =>
      intro s c h
      unfold compressAux
      split
      · exact ih (by omega)
      · rename_i hx
        obtain ⟨it, r, hr, hf⟩ := compressAux_head xs x x
        have := ih (s := x) (c := x) (Int.le_refl x)
        rw [hr] at this ⊢
        refine ⟨?_, this⟩
        rw [hf, mkItem_last h]
        exact hx

theorem compressAux_proper (xs : List Int) : ∀ (s c : Int),
    ∀ it ∈ compressAux s c xs, it.Proper := by
  induction xs with
  | nil => intro s c it hit; simp [compressAux] at hit; subst hit; exact mkItem_proper s c
  | cons x xs ih =>
      intro s c it hit
      unfold compressAux at hit
      split at hit
      · exact ih s x it hit
      · simp only [List.mem_cons] at hit
        rcases hit with hit | hit
        · subst hit; exact mkItem_proper s c
        · exact ih x x it hit


/-! ### wtnasints -/

theorem nasintsLines_flatten {α : Type} (start : Nat) (ints : List α) :
    (nasintsLines start ints).flatten = ints := by
  unfold nasintsLines
  split
  · simp [chunks_flatten]
  · simp

theorem nasintsLines_shape {α : Type} (start : Nat) (ints : List α) :
    ∃ f r, nasintsLines start ints = f :: r ∧ f.length ≤ 10 - start ∧
      ∀ l ∈ r, l.length ≤ 8 ∧ 0 < l.length := by
  unfold nasintsLines
  split
  · refine ⟨_, _, rfl, ?_, chunks_length_le 8 (by omega) _⟩
    simp only [List.length_take]; omega
  · refine ⟨_, _, rfl, by omega, by simp⟩

theorem blanks_length (n : Nat) : (blanks n).length = n := by simp [blanks]

theorem padL_length {w : Nat} {s : Txt} (h : s.length ≤ w) : (padL w s).length = w := by
  simp [padL, blanks]; omega

theorem padR_length {w : Nat} {s : Txt} (h : s.length ≤ w) : (padR w s).length = w := by
  simp [padR, blanks]; omega

theorem fmtInts_length (l : List Int) (h : ∀ x ∈ l, (dec x).length ≤ 8) :
    (fmtInts l).length = 8 * l.length := by
  induction l with
  | nil => simp [fmtInts]
  | cons x xs ih =>
      have hx := padL_length (h x (by simp))
      have := ih (fun y hy => h y (by simp [hy]))
      simp only [fmtInts, List.map_cons, List.flatten_cons, List.length_append, List.length_cons] at this ⊢
      omega

/-! ### SPOINT cards -/

theorem allInts_ints (l : List Int) : allInts (l.map Val.int) = some l := by
  induction l with
  | nil => rfl
  | cons x xs ih => simp [allInts, ih]

/-- the reader's loop body applied to a written card -/
def rdF (c : List Fld) : Option (List Int) := spointCard (c.map Fld.val)

theorem rdF_ints (l : List Int) : rdF (l.map Fld.int) = some l := by
  have h : (l.map Fld.int).map Fld.val = l.map Val.int := by simp [Fld.val]
  unfold rdF
  rw [h]
  unfold spointCard
  split
  · rename_i a w b r heq
    match l, heq with
    | _ :: _ :: _, heq => simp at heq
  · exact allInts_ints l

theorem rdF_thru (a b : Int) :
    rdF [Fld.int a, Fld.word (txt "THRU"), Fld.int b] = some (rangeI a b) := by
  have : lower (txt "THRU") = txt "thru" := by decide
  simp [rdF, spointCard, Fld.val, this]

theorem spoint_cards (items : List Item) : ∀ (p : List Int),
    optFlatten ((thruCards p items).map rdF) = some (p ++ expand items) := by
  induction items with
  | nil =>
      intro p
      unfold thruCards
      by_cases hp : p = []
      · subst hp; simp [optFlatten, expand]
      · have : p.isEmpty = false := by cases p <;> simp_all
        simp only [this, Bool.false_eq_true, if_false, List.map_cons, List.map_nil, optFlatten, rdF_ints]
        simp [expand]
  | cons it r ih =>
      intro p
      cases it with
      | thru a b =>
          unfold thruCards
          by_cases hp : p = []
          · subst hp
            simp only [List.isEmpty_nil, if_true, List.nil_append, List.map_cons, optFlatten, rdF_thru, ih []]
            simp [expand_cons, Item.expand]
          · have : p.isEmpty = false := by cases p <;> simp_all
            simp only [this, Bool.false_eq_true, if_false, List.cons_append, List.nil_append,
              List.map_cons, optFlatten, rdF_thru, rdF_ints, ih []]
            simp [expand_cons, Item.expand]
      | one x =>
          unfold thruCards
          split
          · simp only [List.map_cons, optFlatten, rdF_ints, ih []]
            simp [expand_cons, Item.expand]
          · rw [ih (p ++ [x])]
            simp [expand_cons, Item.expand]

theorem thruCards_width (items : List Item) : ∀ (p : List Int), p.length < 8 →
    ∀ c ∈ thruCards p items, c.length ≤ 8 ∧ 0 < c.length := by
  induction items with
  | nil =>
      intro p hp c hc
      unfold thruCards at hc
      cases p with
      | nil => simp at hc
      | cons x xs => simp at hc; subst hc; simp at hp ⊢; omega
  | cons it r ih =>
      intro p hp c hc
      cases it with
      | thru a b =>
          unfold thruCards at hc
          simp only [List.mem_append, List.mem_cons] at hc
          rcases hc with hc | hc | hc
          · cases p with
            | nil => simp at hc
            | cons x xs => simp at hc; subst hc; simp at hp ⊢; omega
          · subst hc; simp
          · exact ih [] (by simp) c hc
      | one x =>
          unfold thruCards at hc
          split at hc
          · rename_i h8
            simp only [List.mem_cons] at hc
            rcases hc with hc | hc
            · subst hc; simp at h8 ⊢; omega
            · exact ih [] (by simp) c hc
          · rename_i h8
            exact ih (p ++ [x]) (by simp at h8 ⊢; omega) c hc

/-! ### EXTRN pairs -/

theorem pairUp_interleave (ps : List (Int × Int)) : pairUp (interleave ps) = some ps := by
  induction ps with
  | nil => rfl
  | cons p r ih => obtain ⟨a, b⟩ := p; simp [interleave, pairUp, ih]

/-! ### wrapping -/

theorem wrapGo_flatten (m : Nat) (ts : List Txt) : ∀ (cur : List Txt) (n : Nat),
    (wrapGo m cur n ts).flatten = cur ++ ts := by
  induction ts with
  | nil => intro cur n; simp [wrapGo]
  | cons t ts ih =>
      intro cur n
      unfold wrapGo
      split
      · simp [ih]
      · simp [ih]

theorem wrapGo_fits (m : Nat) (ts : List Txt) (hts : ∀ t ∈ ts, t.length ≤ m) :
    ∀ (cur : List Txt) (n : Nat), n = cur.flatten.length → n ≤ m →
      ∀ g ∈ wrapGo m cur n ts, g.flatten.length ≤ m := by
  induction ts with
  | nil => intro cur n hn hm g hg; simp [wrapGo] at hg; subst hg; omega
  | cons t ts ih =>
      intro cur n hn hm g hg
      have ht := hts t (by simp)
      have hts' : ∀ u ∈ ts, u.length ≤ m := fun u hu => hts u (by simp [hu])
      unfold wrapGo at hg
      split at hg
      · simp only [List.mem_cons] at hg
        rcases hg with hg | hg
        · subst hg; omega
        · exact ih hts' [t] t.length (by simp) ht g hg
      · rename_i hle
        exact ih hts' (cur ++ [t]) (n + t.length) (by simp [hn]) (by omega) g hg

theorem presplit_id (m : Nat) (ts : List Txt) (hts : ∀ t ∈ ts, t.length ≤ m) : presplit m ts = ts := by
  induction ts with
  | nil => rfl
  | cons t ts ih =>
      have ht := hts t (by simp)
      have := ih (fun u hu => hts u (by simp [hu]))
      unfold presplit at this ⊢
      simp only [List.flatMap_cons, this]
      have : ¬ t.length > m := by omega
      simp [this]

theorem wrapGroups_flatten (m : Nat) (ts : List Txt) (hts : ∀ t ∈ ts, t.length ≤ m) :
    (wrapGroups m ts).flatten = ts := by
  unfold wrapGroups
  simp only [presplit_id m ts hts]
  split
  · rename_i h
    match ts, h with
    | [], _ => rfl
    | [t], _ => simp
    | _ :: _ :: _, h => simp at h; omega
  · simp [wrapGo_flatten]

theorem wrapGroups_fits (m : Nat) (ts : List Txt) (hts : ∀ t ∈ ts, t.length ≤ m) :
    ∀ g ∈ wrapGroups m ts, g.flatten.length ≤ m := by
  unfold wrapGroups
  simp only [presplit_id m ts hts]
  split
  · intro g hg
    simp only [List.mem_map] at hg
    obtain ⟨t, ht, rfl⟩ := hg
    simpa using hts t ht
  · exact wrapGo_fits m ts hts [] 0 (by simp) (by omega)


/-! ### TABLED1 -/

theorem fullChunks_spec {α : Type} (k : Nat) (l : List α) :
    (fullChunks k l).1.flatten ++ (fullChunks k l).2 = l ∧ ∀ c ∈ (fullChunks k l).1, c.length = k := by
  fun_induction fullChunks k l with
  | case1 l h res ih =>
      obtain ⟨ih1, ih2⟩ := ih
      refine ⟨?_, ?_⟩
      · simp only [List.flatten_cons, List.append_assoc, res, ih1, List.take_append_drop]
      · intro c hc
        simp only [List.mem_cons] at hc
        rcases hc with hc | hc
        · subst hc; simp only [List.length_take]; omega
        · exact ih2 c hc
  | case2 l h => simp

def flat2 (ps : List (Txt × Txt)) : List Txt := ps.flatMap fun p => [p.1, p.2]

theorem flat2_length (ps : List (Txt × Txt)) : (flat2 ps).length = 2 * ps.length := by
  induction ps with
  | nil => rfl
  | cons p r ih => simp only [flat2, List.flatMap_cons, List.length_append, List.length_cons] at ih ⊢; simp at ih ⊢; omega

theorem flat2_append (a b : List (Txt × Txt)) : flat2 (a ++ b) = flat2 a ++ flat2 b := by
  simp [flat2]

theorem flat2_flatten (L : List (List (Txt × Txt))) : (L.map flat2).flatten = flat2 L.flatten := by
  induction L with
  | nil => rfl
  | cons a r ih => simp [ih, flat2_append]

theorem pairUp_flat2 (ps : List (Txt × Txt)) : pairUp (flat2 ps) = some ps := by
  induction ps with
  | nil => rfl
  | cons p r ih => simp only [flat2, List.flatMap_cons] at ih ⊢; simp [pairUp, ih]

theorem cardVals_full {α : Type} (b : α) (inc : Nat) (last : List α) (rows : List (List α))
    (h : ∀ r ∈ rows, r.length = inc) : cardVals b inc (rows ++ [last]) = rows.flatten ++ last := by
  induction rows with
  | nil => simp [cardVals]
  | cons r rs ih =>
      have hr := h r (by simp)
      have ih := ih (fun x hx => h x (by simp [hx]))
      have hne : rs ++ [last] ≠ [] := by simp
      rw [List.cons_append]
      cases hq : rs ++ [last] with
      | nil => exact absurd hq hne
      | cons q qs =>
          rw [hq] at ih
          simp only [cardVals, ih, padTo, hr, Nat.sub_self, List.replicate_zero, List.append_nil,
            List.flatten_cons, List.append_assoc]

theorem tabled1Rows_eq (wide : Bool) (pairs : List (Txt × Txt)) :
    tabled1Rows wide pairs =
      (fullChunks (if wide then 2 else 4) pairs).1.map flat2 ++
        [flat2 (fullChunks (if wide then 2 else 4) pairs).2 ++ [txt "ENDT"]] := rfl

theorem tabled1_fields (wide : Bool) (tid : Txt) (pairs : List (Txt × Txt)) :
    tablePairs (cardVals ([] : Txt) (if wide then 4 else 8)
      ((if wide then [[tid], []] else [[tid]]) ++ tabled1Rows wide pairs)) = some pairs := by
  rw [tabled1Rows_eq]
  obtain ⟨h1, h2⟩ := fullChunks_spec (if wide then 2 else 4) pairs
  generalize fullChunks (if wide then 2 else 4) pairs = fc at h1 h2
  have hrows : ∀ r ∈ fc.1.map flat2, r.length = if wide then 4 else 8 := by
    intro r hr
    simp only [List.mem_map] at hr
    obtain ⟨g, hg, rfl⟩ := hr
    rw [flat2_length, h2 g hg]
    cases wide <;> rfl
  have hbody := cardVals_full ([] : Txt) (if wide then 4 else 8) (flat2 fc.2 ++ [txt "ENDT"]) _ hrows
  have hall : (fc.1.map flat2).flatten ++ (flat2 fc.2 ++ [txt "ENDT"]) = flat2 pairs ++ [txt "ENDT"] := by
    rw [flat2_flatten, ← List.append_assoc, ← flat2_append, h1]
  rw [hall] at hbody
  have hne : ∃ q qs, fc.1.map flat2 ++ [flat2 fc.2 ++ [txt "ENDT"]] = q :: qs := by
    cases fc.1.map flat2 with
    | nil => exact ⟨_, _, rfl⟩
    | cons a b => exact ⟨_, _, rfl⟩
  obtain ⟨q, qs, hq⟩ := hne
  rw [hq] at hbody ⊢
  cases wide with
  | false =>
      simp only [Bool.false_eq_true, if_false, List.cons_append, List.nil_append, cardVals] at hbody ⊢
      rw [hbody]
      simp [tablePairs, padTo, pairUp_flat2]
  | true =>
      simp only [if_true, List.cons_append, List.nil_append, cardVals] at hbody ⊢
      rw [hbody]
      simp [tablePairs, padTo, pairUp_flat2]

/-- slicing a line of equal-width fields (the last one possibly shorter) -/
theorem chunks_uniform (w : Nat) (hw : 0 < w) (last : Txt) (hl : 0 < last.length ∧ last.length ≤ w)
    (fs : List Txt) (h : ∀ f ∈ fs, f.length = w) : chunks w (fs.flatten ++ last) = fs ++ [last] := by
  induction fs with
  | nil =>
      unfold chunks
      have : ¬ last.isEmpty := by cases last <;> simp_all
      simp [hl.2, this]
  | cons f r ih =>
      have hf := h f (by simp)
      have ih := ih (fun x hx => h x (by simp [hx]))
      unfold chunks
      have hlen : ¬ (w = 0 ∨ ((f :: r).flatten ++ last).length ≤ w) := by
        simp only [List.flatten_cons, List.length_append]; omega
      rw [dif_neg hlen]
      have e : (f :: r).flatten ++ last = f ++ (r.flatten ++ last) := by simp
      rw [e, ← hf, List.take_left, List.drop_left, hf, ih]
      simp


/-! ### DMIG -/

/-- the matrix term in row `i`, column `j` is `v` (row `i` exists) -/
def Dmig.At (d : Dmig) (i j : Nat) (v : Int × Int) : Prop :=
  ∃ row, d.m[i]? = some row ∧ row.getD j (0, 0) = v

def Dmig.start (d : Dmig) (j : Nat) : Nat := if d.form = 6 then j else 0

theorem zip_fst_sublist {α β : Type} (l₁ : List α) : ∀ (l₂ : List β), ((l₁.zip l₂).map (·.1)).Sublist l₁ := by
  induction l₁ with
  | nil => intro l₂; simp
  | cons a r ih =>
      intro l₂
      cases l₂ with
      | nil => simp
      | cons b q => simpa using (ih q).cons₂ a

theorem mem_colEntries (d : Dmig) (j : Nat) (rl v : Int × Int) :
    (rl, v) ∈ d.colEntries j ↔
      v ≠ (0, 0) ∧ ∃ i, d.start j ≤ i ∧ d.rowids[i]? = some rl ∧ d.At i j v := by
  unfold Dmig.colEntries Dmig.col Dmig.At Dmig.start
  rw [List.mem_filter]
  constructor
  · rintro ⟨hmem, hv⟩
    obtain ⟨k, hk⟩ := List.mem_iff_getElem?.mp hmem
    rw [List.getElem?_drop, List.getElem?_zip_eq_some] at hk
    obtain ⟨hr, hc⟩ := hk
    simp only [List.getElem?_map] at hc
    refine ⟨by simpa using hv, _, Nat.le_add_right _ k, hr, ?_⟩
    cases hm : d.m[(if d.form = 6 then j else 0) + k]? with
    | none => simp [hm] at hc
    | some row => exact ⟨row, rfl, by simpa [hm] using hc⟩
  · rintro ⟨hv, i, hi, hr, row, hm, hrow⟩
    refine ⟨List.mem_iff_getElem?.mpr ⟨i - (if d.form = 6 then j else 0), ?_⟩, by simpa using hv⟩
    rw [List.getElem?_drop, List.getElem?_zip_eq_some, Nat.add_sub_cancel' hi]
    refine ⟨hr, ?_⟩
    subst hrow
    simp [hm]

theorem colWritten_of_At (d : Dmig) (i j : Nat) (v : Int × Int) (h : d.At i j v) (hv : v ≠ (0, 0)) :
    d.colWritten j = true := by
  obtain ⟨row, hm, hrow⟩ := h
  unfold Dmig.colWritten Dmig.col
  rw [List.any_eq_true]
  refine ⟨v, ?_, by simpa using hv⟩
  rw [List.mem_iff_getElem?]
  subst hrow
  exact ⟨i, by simp [hm]⟩

theorem mem_entries (d : Dmig) (rl cl v : Int × Int) :
    (rl, cl, v) ∈ d.entries ↔
      ∃ j, j < d.colids.length ∧ d.colWritten j = true ∧ cl = d.colLabel j ∧ (rl, v) ∈ d.colEntries j := by
  unfold Dmig.entries Dmig.cards
  simp only [List.mem_flatMap, List.mem_map, List.mem_filter, List.mem_range]
  constructor
  · rintro ⟨c, ⟨j, ⟨hj, hw⟩, rfl⟩, e, he, heq⟩
    simp only [Prod.mk.injEq] at heq
    obtain ⟨h1, h2, h3⟩ := heq
    refine ⟨j, hj, hw, h2.symm, ?_⟩
    rw [← h1, ← h3]; exact he
  · rintro ⟨j, hj, hw, rfl, he⟩
    exact ⟨_, ⟨j, ⟨hj, hw⟩, rfl⟩, (rl, v), he, rfl⟩

theorem foldl_max_spec (l : List (Int × Int)) : ∀ (a : Int),
    a ≤ l.foldl (fun a c => max a c.1) a ∧ (∀ c ∈ l, c.1 ≤ l.foldl (fun a c => max a c.1) a) ∧
      (l.foldl (fun a c => max a c.1) a = a ∨ ∃ c ∈ l, c.1 = l.foldl (fun a c => max a c.1) a) := by
  induction l with
  | nil => intro a; simp
  | cons h t ih =>
      intro a
      obtain ⟨h1, h2, h3⟩ := ih (max a h.1)
      simp only [List.foldl_cons, List.mem_cons]
      refine ⟨by omega, ?_, ?_⟩
      · rintro c (rfl | hc)
        · omega
        · exact h2 c hc
      · rcases h3 with h3 | ⟨c, hc, hceq⟩
        · by_cases hle : h.1 ≤ a
          · left; rw [h3]; omega
          · right; exact ⟨h, Or.inl rfl, by rw [h3]; omega⟩
        · right; exact ⟨c, Or.inr hc, hceq⟩

theorem form_cases (d : Dmig) : d.form = 9 ∨ d.form = 2 ∨ d.form = 6 ∨ d.form = 1 := by
  unfold Dmig.form
  split
  · simp
  · split
    · simp
    · split <;> simp

end PyYetiVerif.Bulk
