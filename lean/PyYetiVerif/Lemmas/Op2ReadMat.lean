import PyYetiVerif.Lemmas.Op2ReadHead
import PyYetiVerif.Lemmas.Op4Variants
/-! C11: `rdop2matrix` / `skipop2matrix` of the reader model on the encoder's matrix body. -/
namespace PyYetiVerif.Op2R
open PyYetiVerif.Op4 PyYetiVerif.Op2
open PyYetiVerif.Op4V (leBytes natBytes intBytes)

/-! ### the specification side: putting strings into a column -/

/-- 0-based index of the first stored real of a string (two reals per complex element) -/
def strRow (cplx : Bool) (s : MStr) : Nat := if cplx then (s.1 - 1) * 2 else s.1 - 1

def putStr (cplx : Bool) (X : List Nat) (s : MStr) : List Nat :=
  X.take (strRow cplx s) ++ s.2 ++ X.drop (strRow cplx s + s.2.length)

/-- the column after every string has been put at its row, in file order -/
def putCol (cplx : Bool) (X : List Nat) (strs : List MStr) : List Nat := strs.foldl (putStr cplx) X

/-- what the encoder needs of a string to be readable: row ≥ 1 and representable, it fits into the
column of `rows` stored reals, its reals are bit patterns of the stored width, its record length is a
4-byte integer -/
structure StrOk (v : V2) (single cplx : Bool) (rows : Nat) (s : MStr) : Prop where
  row_pos : 1 ≤ s.1
  row_key : InKey v (s.1 : Int)
  fits : strRow cplx s + s.2.length ≤ rows
  vals : ∀ x ∈ s.2, x < 256 ^ realBytes v single
  len : kb v + s.2.length * realBytes v single < 2147483648

instance (v : V2) (single cplx : Bool) (rows : Nat) (s : MStr) : Decidable (StrOk v single cplx rows s) :=
  decidable_of_iff (1 ≤ s.1 ∧ InKey v (s.1 : Int) ∧ strRow cplx s + s.2.length ≤ rows ∧
      (∀ x ∈ s.2, x < 256 ^ realBytes v single) ∧ kb v + s.2.length * realBytes v single < 2147483648)
    ⟨fun ⟨a, b, c, d, e⟩ => ⟨a, b, c, d, e⟩, fun h => ⟨h.row_pos, h.row_key, h.fits, h.vals, h.len⟩⟩

theorem length_putStr (cplx : Bool) (X : List Nat) (s : MStr) (h : strRow cplx s + s.2.length ≤ X.length) :
    (putStr cplx X s).length = X.length := by
  simp only [putStr, List.length_append, List.length_take, List.length_drop]
  omega

theorem realBytes_pos (v : V2) (single : Bool) : 0 < realBytes v single := by
  unfold realBytes; split <;> omega

theorem realBytes_cases (v : V2) (single : Bool) : realBytes v single = 4 ∨ realBytes v single = 8 := by
  unfold realBytes; split <;> simp

/-! ### values -/

theorem length_valBytes (e : Endian) (w : Nat) (xs : List Nat) :
    (xs.flatMap (natBytes e w)).length = xs.length * w :=
  length_flatMap_const w (natBytes e w) (fun x => length_natBytes e w x) xs

theorem map_natOfBytes (e : Endian) (w : Nat) (xs : List Nat) (h : ∀ x ∈ xs, x < 256 ^ w) :
    (xs.map (natBytes e w)).map (natOfBytes e) = xs := by
  rw [List.map_map, List.map_congr_left (g := id)]
  · simp
  · intro x hx; exact natOfBytes_natBytes_lt e w x (h x hx)

/-- both ways of reading the reals of a string (`struct.unpack` below the cut-off, `np.fromfile` from
it on) return the encoded bit patterns and stop behind them -/
theorem rdVals_enc (e : Endian) (w : Nat) (hw : 0 < w) (xs rest : List Nat) (h : ∀ x ∈ xs, x < 256 ^ w) :
    rdVals e w (xs.length : Int) (xs.flatMap (natBytes e w) ++ rest) = .ok (xs, rest) := by
  have hl := length_valBytes e w xs
  unfold rdVals
  simp only [Int.toNat_natCast]
  have hnn : ¬ ((xs.length : Int) < 0) := by omega
  split
  · simp only [hnn, if_false, List.take_left' hl, hl, if_true, List.drop_left' hl]
    have := chunks_flatMap w (natBytes e w) (fun x => length_natBytes e w x) xs []
    rw [List.append_nil] at this
    rw [this, map_natOfBytes e w xs h]
  · have hmin : min xs.length ((xs.flatMap (natBytes e w) ++ rest).length / w) = xs.length := by
      apply Nat.min_eq_left
      rw [List.length_append, hl, Nat.le_div_iff_mul_le hw]
      omega
    rw [hmin, chunks_flatMap w (natBytes e w) (fun x => length_natBytes e w x) xs rest,
      map_natOfBytes e w xs h, List.drop_left' hl]

/-! ### the assignment -/

theorem assignSlice_fits (col : List Nat) (a : Nat) (vals : List Nat) (h : a + vals.length ≤ col.length) :
    assignSlice col (a : Int) ((a : Int) + (vals.length : Int)) vals
      = .ok (col.take a ++ vals ++ col.drop (a + vals.length)) := by
  have h1 : pyClip col.length (a : Int) = a := by
    unfold pyClip
    rw [if_neg (by omega), Int.toNat_natCast]
    omega
  have h2 : pyClip col.length ((a : Int) + (vals.length : Int)) = a + vals.length := by
    unfold pyClip
    rw [if_neg (by omega)]
    have : ((a : Int) + (vals.length : Int)).toNat = a + vals.length := by omega
    rw [this]
    omega
  unfold assignSlice
  simp only [h1, h2, Nat.add_sub_cancel_left, if_true]

/-! ### one column: `key = _getkey(); while key > 0: …` -/

/-- `key = self._getkey()` followed by `while key > 0:` -/
def rdColFrom (c : MCfg) (j fuel : Nat) (s : List Nat) (mat : List (List Nat)) : M (List (List Nat) × List Nat) :=
  match getKey c.v s with
  | .error e => .error e
  | .ok (key, s) => rdColStrs c j fuel key s mat

/-- the key in front of a string record: the number of key-sized words of the record -/
def strCount (v : V2) (single : Bool) (s : MStr) : Int :=
  (((key v s.1 ++ s.2.flatMap (natBytes v.e (realBytes v single))).length : Nat) : Int) / ((kb v : Nat) : Int)

theorem encStr_eq (v : V2) (single : Bool) (s : MStr) :
    encStr v single s = K v (strCount v single s) ++ R v (key v s.1 ++ s.2.flatMap (natBytes v.e (realBytes v single))) := rfl

theorem length_payload (v : V2) (single : Bool) (s : MStr) :
    (key v s.1 ++ s.2.flatMap (natBytes v.e (realBytes v single))).length = kb v + s.2.length * realBytes v single := by
  rw [List.length_append, length_key, length_valBytes]

theorem strCount_ok' (v : V2) (single : Bool) (s : MStr) (hl : kb v + s.2.length * realBytes v single < 2147483648) :
    0 < strCount v single s ∧ InKey v (strCount v single s) := by
  unfold strCount
  rw [length_payload]
  generalize s.2.length * realBytes v single = q at *
  have : 0 < (((kb v + q : Nat) : Int)) / ((kb v : Nat) : Int) ∧
      (((kb v + q : Nat) : Int)) / ((kb v : Nat) : Int) < 2147483648 := by
    rcases kb_cases v with ⟨_, hk⟩ | ⟨_, hk⟩ <;> rw [hk] at hl ⊢ <;> omega
  exact ⟨this.1, inKey_small v _ (by omega) this.2⟩

theorem strCount_ok (v : V2) (single cplx : Bool) (rows : Nat) (s : MStr) (h : StrOk v single cplx rows s) :
    0 < strCount v single s ∧ InKey v (strCount v single s) := strCount_ok' v single s h.len

theorem set_self (mat : List (List Nat)) (j : Nat) (col : List Nat) (h : mat[j]? = some col) : mat.set j col = mat := by
  obtain ⟨hj, rfl⟩ := List.getElem?_eq_some_iff.1 h
  exact List.set_getElem_self hj

theorem rdColFrom_enc (c : MCfg) (single : Bool) (hcw : c.w = realBytes c.v single) (rows j : Nat) (neg : Int)
    (hneg : neg ≤ 0) (hnk : InKey c.v neg) (tail : List Nat) :
    ∀ (strs : List MStr) (mat : List (List Nat)) (col : List Nat) (fuel : Nat),
      (∀ s ∈ strs, StrOk c.v single c.cplx rows s) → mat[j]? = some col → col.length = rows → strs.length < fuel →
      rdColFrom c j fuel (strs.flatMap (encStr c.v single) ++ (K c.v neg ++ tail)) mat
        = .ok (mat.set j (putCol c.cplx col strs), tail) := by
  intro strs
  induction strs with
  | nil =>
    intro mat col fuel _ hm _ hf
    cases fuel with
    | zero => omega
    | succ f =>
      have : ¬ (neg > 0) := by omega
      simp only [rdColFrom, List.flatMap_nil, List.nil_append, getKey_K c.v neg _ hnk, rdColStrs, this, if_false,
        putCol, List.foldl_nil]
      exact congrArg (fun m => Except.ok (m, tail)) (set_self mat j col hm).symm
  | cons s t ih =>
    intro mat col fuel hok hm hcl hf
    cases fuel with
    | zero => omega
    | succ f =>
      have hs := hok s List.mem_cons_self
      obtain ⟨hcp, hck⟩ := strCount_ok c.v single c.cplx rows s hs
      have hpl : (key c.v s.1 ++ s.2.flatMap (natBytes c.v.e (realBytes c.v single))).length < 2147483648 := by
        rw [length_payload]; exact hs.len
      have hn : ((((key c.v s.1 ++ s.2.flatMap (natBytes c.v.e (realBytes c.v single))).length : Nat) : Int)
            - ((kb c.v : Nat) : Int)) / ((realBytes c.v single : Nat) : Int) = (s.2.length : Int) := by
        rw [length_payload]
        have hw := realBytes_pos c.v single
        have : (((kb c.v + s.2.length * realBytes c.v single : Nat) : Int) - ((kb c.v : Nat) : Int))
            = (s.2.length : Int) * ((realBytes c.v single : Nat) : Int) := by
          rw [Int.natCast_add, Int.natCast_mul]; omega
        rw [this, Int.mul_ediv_cancel _ (by omega)]
      have hr : (if c.cplx then ((s.1 : Int) - 1) * 2 else (s.1 : Int) - 1) = ((strRow c.cplx s : Nat) : Int) := by
        have := hs.row_pos
        unfold strRow
        split <;> omega
      have hfit : strRow c.cplx s + s.2.length ≤ col.length := by rw [hcl]; exact hs.fits
      simp only [rdColFrom, List.flatMap_cons, encStr_eq, List.append_assoc, getKey_K c.v _ _ hck, rdColStrs,
        gt_iff_lt, hcp, if_true, rdI4_R c.v _ _ hpl, rdKeyRaw_key c.v _ _ hs.row_key, hcw, hn, hr,
        rdVals_enc c.v.e _ (realBytes_pos c.v single) _ _ hs.vals, hm, assignSlice_fits col _ _ hfit, drop4_mark]
      have hcol' : col.take (strRow c.cplx s) ++ (s.2 ++ col.drop (strRow c.cplx s + s.2.length)) = putStr c.cplx col s :=
        (List.append_assoc _ _ _).symm
      rw [hcol']
      have hm' : (mat.set j (putStr c.cplx col s))[j]? = some (putStr c.cplx col s) := by
        obtain ⟨hj, _⟩ := List.getElem?_eq_some_iff.1 hm
        rw [List.getElem?_set_self hj]
      have := ih (mat.set j (putStr c.cplx col s))
        (putStr c.cplx col s) f (fun x hx => hok x (List.mem_cons_of_mem _ hx)) hm'
        (by rw [length_putStr c.cplx col s hfit, hcl]) (by simpa using hf)
      rw [List.set_set] at this
      exact this
/-! ### all columns: `while dtype > 0: …` -/

theorem length_encStr_pos (v : V2) (single : Bool) (s : MStr) : 1 ≤ (encStr v single s).length := by
  rw [encStr_eq, List.length_append, length_K]; omega

theorem length_le_flatMap_encStr (v : V2) (single : Bool) (t : List MStr) :
    t.length ≤ (t.flatMap (encStr v single)).length := by
  induction t with
  | nil => simp
  | cons s t ih =>
    have := length_encStr_pos v single s
    simp only [List.flatMap_cons, List.length_append, List.length_cons]; omega

/-- the first `_getkey` of a column succeeds and leaves at least as many bytes as there are strings -/
theorem getKey_strs (c : MCfg) (single : Bool) (rows : Nat) (neg : Int) (hnk : InKey c.v neg) (tail : List Nat)
    (strs : List MStr) (hok : ∀ s ∈ strs, StrOk c.v single c.cplx rows s) :
    ∃ key s1, getKey c.v (strs.flatMap (encStr c.v single) ++ (K c.v neg ++ tail)) = .ok (key, s1) ∧
      strs.length ≤ s1.length := by
  cases strs with
  | nil => exact ⟨neg, tail, by simp only [List.flatMap_nil, List.nil_append, getKey_K c.v neg _ hnk], by simp⟩
  | cons s t =>
    obtain ⟨_, hck⟩ := strCount_ok c.v single c.cplx rows s (hok s List.mem_cons_self)
    refine ⟨strCount c.v single s, R c.v (key c.v s.1 ++ s.2.flatMap (natBytes c.v.e (realBytes c.v single))) ++
      (t.flatMap (encStr c.v single) ++ (K c.v neg ++ tail)),
      by simp only [List.flatMap_cons, encStr_eq, List.append_assoc, getKey_K c.v _ _ hck], ?_⟩
    have := length_le_flatMap_encStr c.v single t
    simp only [List.length_append, length_R, List.length_cons]
    omega

theorem rdColStrs_enc (c : MCfg) (single : Bool) (hcw : c.w = realBytes c.v single) (rows j : Nat) (neg : Int)
    (hneg : neg ≤ 0) (hnk : InKey c.v neg) (tail : List Nat) (strs : List MStr) (mat : List (List Nat))
    (col : List Nat) (hok : ∀ s ∈ strs, StrOk c.v single c.cplx rows s) (hm : mat[j]? = some col)
    (hcl : col.length = rows) (key : Int) (s1 : List Nat)
    (hg : getKey c.v (strs.flatMap (encStr c.v single) ++ (K c.v neg ++ tail)) = .ok (key, s1)) (fuel : Nat)
    (hf : strs.length < fuel) :
    rdColStrs c j fuel key s1 mat = .ok (mat.set j (putCol c.cplx col strs), tail) := by
  have := rdColFrom_enc c single hcw rows j neg hneg hnk tail strs mat col fuel hok hm hcl hf
  unfold rdColFrom at this
  rw [hg] at this
  exact this

/-- the matrix after the columns `j, j+1, …` have received their strings -/
def setCols (cplx : Bool) : Nat → List (List MStr) → List (List Nat) → List (List Nat)
  | _, [], mat => mat
  | j, c :: cs, mat => setCols cplx (j + 1) cs (mat.set j (putCol cplx (mat[j]?.getD []) c))

theorem length_putCol (cplx : Bool) (rows : Nat) : ∀ (strs : List MStr) (X : List Nat), X.length = rows →
    (∀ s ∈ strs, strRow cplx s + s.2.length ≤ rows) → (putCol cplx X strs).length = rows := by
  intro strs
  induction strs with
  | nil => intro X h _; exact h
  | cons s t ih =>
    intro X h hs
    have h1 := hs s List.mem_cons_self
    exact ih (putStr cplx X s) (by rw [length_putStr cplx X s (by omega)]; exact h)
      (fun x hx => hs x (List.mem_cons_of_mem _ hx))

theorem length_encMatCols (v : V2) (single : Bool) (ncols : Nat) :
    ∀ (cols : List (List MStr)) (j : Nat), cols.length ≤ (encMatCols v single ncols j cols).length := by
  intro cols
  induction cols with
  | nil => intro j; simp [encMatCols]
  | cons c cs ih =>
    intro j
    have := ih (j + 1)
    simp only [encMatCols, List.length_append, length_K, List.length_cons]
    omega

theorem rdCols_enc (c : MCfg) (single : Bool) (hcw : c.w = realBytes c.v single) (rows ncols : Nat)
    (hnc : ncols < 2147483000) (tail : List Nat) :
    ∀ (cols : List (List MStr)) (j : Nat) (mat : List (List Nat)) (fuel : Nat),
      cols ≠ [] → j + cols.length = ncols → mat.length = ncols → (∀ col ∈ mat, col.length = rows) →
      (∀ strs ∈ cols, ∀ s ∈ strs, StrOk c.v single c.cplx rows s) → cols.length ≤ fuel →
      rdCols c fuel j (encMatCols c.v single ncols j cols ++ tail) mat = .ok (setCols c.cplx j cols mat, tail) := by
  intro cols
  induction cols with
  | nil => intro j mat fuel h; exact absurd rfl h
  | cons c0 cs ih =>
    intro j mat fuel _ hj hml hmc hok hf
    cases fuel with
    | zero => simp at hf
    | succ f =>
      have hjl : j < mat.length := by simp only [List.length_cons] at hj; omega
      have hm : mat[j]? = some mat[j] := List.getElem?_eq_getElem hjl
      have hcl : mat[j].length = rows := hmc _ (List.getElem_mem hjl)
      have hok0 := hok c0 List.mem_cons_self
      have hnk : InKey c.v (-((j : Int) + 4)) := inKey_small c.v _ (by omega) (by omega)
      have sm := inKey_small c.v
      simp only [encMatCols, List.append_assoc]
      obtain ⟨key, s1, hg, hl⟩ := getKey_strs c single rows (-((j : Int) + 4)) hnk
        (K c.v 1 ++ (K c.v (if (j + 1 == ncols) = true then 0 else 1) ++ (encMatCols c.v single ncols (j + 1) cs ++ tail)))
        c0 hok0
      have hcol := rdColStrs_enc c single hcw rows j (-((j : Int) + 4)) (by omega) hnk _ c0 mat mat[j] hok0 hm hcl key s1 hg
        (s1.length + 1) (by omega)
      simp only [rdCols, hg, hcol, getKey_K c.v 1 _ (sm 1 (by omega) (by omega))]
      have hset : mat.set j (putCol c.cplx mat[j] c0) = mat.set j (putCol c.cplx (mat[j]?.getD []) c0) := by
        rw [hm]; rfl
      by_cases hlast : j + 1 = ncols
      · have hcs : cs = [] := by
          cases cs with
          | nil => rfl
          | cons a b => simp only [List.length_cons] at hj; omega
        subst hcs
        have hb : (j + 1 == ncols) = true := by rw [hlast]; exact beq_self_eq_true _
        simp only [hb, if_true, getKey_K c.v 0 _ (sm 0 (by omega) (by omega)), encMatCols, List.nil_append,
          gt_iff_lt, Int.lt_irrefl, if_false, setCols, hset]
      · have hb : (j + 1 == ncols) = false := by
          rw [beq_eq_false_iff_ne]; exact hlast
        have hcs : cs ≠ [] := by
          intro h; subst h; simp only [List.length_cons, List.length_nil] at hj; omega
        simp only [hb, Bool.false_eq_true, if_false, getKey_K c.v 1 _ (sm 1 (by omega) (by omega)), gt_iff_lt,
          show (0 : Int) < 1 by omega, if_true]
        rw [ih (j + 1) _ f hcs (by simp only [List.length_cons] at hj; omega) (by rw [List.length_set]; exact hml)
          ?_ (fun strs h => hok strs (List.mem_cons_of_mem _ h)) (by simpa using hf)]
        · simp only [setCols, hset]
        · intro col hcol
          rcases List.mem_or_eq_of_mem_set hcol with h | h
          · exact hmc col h
          · rw [h]
            exact length_putCol c.cplx rows c0 mat[j] hcl (fun s hs => (hok0 s hs).fits)
/-! ### `rdop2matrix` -/

theorem setCols_replicate (cplx : Bool) (z : List Nat) : ∀ (cols : List (List MStr)) (pre : List (List Nat)),
    setCols cplx pre.length cols (pre ++ List.replicate cols.length z) = pre ++ cols.map (putCol cplx z) := by
  intro cols
  induction cols with
  | nil => intro pre; simp [setCols]
  | cons c cs ih =>
    intro pre
    have hget : (pre ++ List.replicate (cs.length + 1) z)[pre.length]? = some z := by
      rw [List.getElem?_append_right (Nat.le_refl _), Nat.sub_self, List.replicate_succ]; rfl
    have hset : (pre ++ List.replicate (cs.length + 1) z).set pre.length (putCol cplx z c)
        = (pre ++ [putCol cplx z c]) ++ List.replicate cs.length z := by
      rw [List.set_append_right _ _ (Nat.le_refl _), Nat.sub_self, List.replicate_succ, List.set_cons_zero,
        List.append_assoc]; rfl
    have := ih (pre ++ [putCol cplx z c])
    simp only [List.length_append, List.length_cons, List.length_nil, Nat.zero_add, List.append_assoc,
      List.cons_append, List.nil_append] at this
    simp only [setCols, List.length_cons, hget, Option.getD_some, hset, List.map_cons, List.append_assoc,
      List.cons_append, List.nil_append]
    exact this

/-- stored reals per column -/
def rowsEff (cplx : Bool) (rows : Nat) : Nat := if cplx then rows * 2 else rows

theorem bytesPer_eq (v : V2) (mtype : Int) (single : Bool) (hs : single = decide (mtype % 2 = 1)) :
    bytesPer v mtype = realBytes v single := by
  unfold bytesPer realBytes fbytes
  subst hs
  rcases kb_cases v with ⟨hb, hk⟩ | ⟨hb, hk⟩ <;> by_cases h : mtype % 2 = 1 <;> simp [h, hb, hk]

theorem rdMatrix_enc (v : V2) (single cplx : Bool) (trailer : List Int) (rows ncols : Nat) (mtype : Int)
    (cols : List (List MStr)) (rest : List Nat)
    (h2 : trailer[2]? = some (rows : Int)) (h4 : trailer[4]? = some mtype) (h1 : trailer[1]? = some (ncols : Int))
    (hs : single = decide (mtype % 2 = 1)) (hc : cplx = decide (mtype > 2))
    (hne : cols ≠ []) (hlen : cols.length = ncols) (hnc : ncols < 2147483000)
    (hok : ∀ strs ∈ cols, ∀ s ∈ strs, StrOk v single cplx (rowsEff cplx rows) s) :
    rdMatrix v trailer (encMatCols v single ncols 0 cols ++ (K v 0 ++ rest))
      = .ok (⟨rowsEff cplx rows, cplx, realBytes v single,
          cols.map (putCol cplx (List.replicate (rowsEff cplx rows) 0))⟩, rest) := by
  have hrows : (if cplx then (rows : Int) * 2 else (rows : Int)) = ((rowsEff cplx rows : Nat) : Int) := by
    unfold rowsEff; split <;> simp
  have hbp := bytesPer_eq v mtype single hs
  have hfuel : cols.length ≤ (encMatCols v single ncols 0 cols ++ (K v 0 ++ rest)).length + 1 := by
    have := length_encMatCols v single ncols cols 0
    rw [List.length_append]; omega
  have hnn : ¬ (((rowsEff cplx rows : Nat) : Int) < 0 ∨ ((ncols : Nat) : Int) < 0) := by omega
  have hcols := rdCols_enc ⟨v, cplx, realBytes v single⟩ single rfl (rowsEff cplx rows) ncols hnc (K v 0 ++ rest) cols 0
    (List.replicate ncols (List.replicate (rowsEff cplx rows) 0)) _ hne (by omega) (by simp)
    (by intro col hcol; rw [List.eq_of_mem_replicate hcol]; simp) hok hfuel
  have hsc := setCols_replicate cplx (List.replicate (rowsEff cplx rows) 0) cols []
  simp only [List.length_nil, List.nil_append, hlen] at hsc
  simp only [hsc] at hcols
  unfold rdMatrix
  simp only [h2, h4, h1, ← hc, hrows, hnn, if_false, Int.toNat_natCast, hbp, hcols,
    rdEot_K v 0 _ (inKey_small v 0 (by omega) (by omega))]
end PyYetiVerif.Op2R
