import PyYetiVerif.Model.RainflowImp
/-! API lemmas for the run-time of the shallow embedding (core Lean only). -/
namespace PyYetiVerif.RainflowImp

namespace Arr
variable {β : Type}

@[simp] theorem size_upd (a : Arr β) (i : Nat) (v : β) : (a.upd i v).size = a.size := by
  simp [upd, size]

theorem val_upd (a : Arr β) (i k : Nat) (v : β) (h : i < a.size) :
    (a.upd i v).val k = if k = i then some v else a.val k := by
  simp only [val, upd, Array.getElem?_setIfInBounds]
  simp only [size] at h
  by_cases hk : k = i
  · subst hk; simp [h]
  · have : ¬ i = k := fun e => hk e.symm
    simp [hk, this]

theorem val_upd_self (a : Arr β) (i : Nat) (v : β) (h : i < a.size) : (a.upd i v).val i = some v := by
  rw [val_upd a i i v h]; simp

theorem val_upd_ne (a : Arr β) (i k : Nat) (v : β) (h : i < a.size) (hk : k ≠ i) :
    (a.upd i v).val k = a.val k := by
  rw [val_upd a i k v h]; simp [hk]

@[simp] theorem get_natCast (a : Arr β) (n : Nat) : a.get (n : Int) = a.val n := by
  simp [get]

theorem set_natCast (a : Arr β) (n : Nat) (v : β) (h : n < a.size) :
    a.set (n : Int) v = some (a.upd n v) := by
  simp [set, h]

@[simp] theorem get_zero (a : Arr β) : a.get 0 = a.val 0 := get_natCast a 0
@[simp] theorem get_one (a : Arr β) : a.get 1 = a.val 1 := get_natCast a 1
@[simp] theorem get_two (a : Arr β) : a.get 2 = a.val 2 := get_natCast a 2
theorem set_zero (a : Arr β) (v : β) (h : 0 < a.size) : a.set 0 v = some (a.upd 0 v) :=
  set_natCast a 0 v h
theorem set_one (a : Arr β) (v : β) (h : 1 < a.size) : a.set 1 v = some (a.upd 1 v) :=
  set_natCast a 1 v h

theorem empty_natCast (n : Nat) : (Arr.empty (n : Int) : Option (Arr β)) = some ⟨Array.replicate n none⟩ := by
  simp [empty]

theorem empty_neg (n : Int) (h : n < 0) : (Arr.empty n : Option (Arr β)) = none := by
  simp [empty]; omega

@[simp] theorem size_replicate (n : Nat) : (⟨Array.replicate n none⟩ : Arr β).size = n := by
  simp [size]

@[simp] theorem val_ofList (l : List β) (i : Nat) : (ofList l).val i = l[i]? := by
  simp only [val, ofList, List.getElem?_toArray, List.getElem?_map]
  cases l[i]? <;> rfl

@[simp] theorem size_ofList (l : List β) : (ofList l).size = l.length := by
  simp [size, ofList]

theorem val_lt_size (a : Arr β) (i : Nat) (v : β) (h : a.val i = some v) : i < a.size := by
  simp only [val, size] at *
  rcases Nat.lt_or_ge i a.cells.size with h1 | h1
  · exact h1
  · rw [Array.getElem?_eq_none h1] at h; simp at h

end Arr

namespace Arr2
variable {β : Type}

/-- the cell vector has exactly `rows * cols` entries -/
def WF (a : Arr2 β) : Prop := a.cells.size = a.rows * a.cols

theorem wf_upd (a : Arr2 β) (i j : Nat) (v : β) (h : a.WF) : (a.upd i j v).WF := by
  simp [WF, upd] at *; exact h

@[simp] theorem rows_upd (a : Arr2 β) (i j : Nat) (v : β) : (a.upd i j v).rows = a.rows := rfl
@[simp] theorem cols_upd (a : Arr2 β) (i j : Nat) (v : β) : (a.upd i j v).cols = a.cols := rfl

theorem flat_lt (a : Arr2 β) (i j : Nat) (hi : i < a.rows) (hj : j < a.cols) :
    i * a.cols + j < a.rows * a.cols := by
  calc i * a.cols + j < i * a.cols + a.cols := by omega
    _ = (i + 1) * a.cols := by rw [Nat.succ_mul]
    _ ≤ a.rows * a.cols := Nat.mul_le_mul_right _ hi

theorem flat_inj (c i j i' j' : Nat) (hj : j < c) (hj' : j' < c) (h : i * c + j = i' * c + j') :
    i = i' ∧ j = j' := by
  have hc : 0 < c := by omega
  have h1 : (i * c + j) / c = i := by
    rw [Nat.mul_comm, Nat.mul_add_div hc, Nat.div_eq_of_lt hj]; simp
  have h2 : (i' * c + j') / c = i' := by
    rw [Nat.mul_comm, Nat.mul_add_div hc, Nat.div_eq_of_lt hj']; simp
  have hi : i = i' := by rw [← h1, ← h2, h]
  subst hi
  exact ⟨rfl, by omega⟩

theorem val_upd (a : Arr2 β) (i j i' j' : Nat) (v : β) (h : a.WF) (hi : i < a.rows) (hj : j < a.cols) :
    (a.upd i j v).val i' j' = if i' = i ∧ j' = j then some v else a.val i' j' := by
  simp only [val, rows_upd, cols_upd]
  by_cases hb : i' < a.rows ∧ j' < a.cols
  · simp only [hb, and_self, if_true]
    simp only [upd, Array.getElem?_setIfInBounds]
    have hlt : i * a.cols + j < a.cells.size := by rw [h]; exact flat_lt a i j hi hj
    by_cases he : i' = i ∧ j' = j
    · obtain ⟨rfl, rfl⟩ := he; simp [hlt]
    · have : ¬ (i * a.cols + j = i' * a.cols + j') := by
        intro e
        have := flat_inj a.cols i j i' j' hj hb.2 e
        exact he ⟨this.1.symm, this.2.symm⟩
      simp [this, he]
  · have : ¬ (i' = i ∧ j' = j) := by
      rintro ⟨rfl, rfl⟩; exact hb ⟨hi, hj⟩
    simp [hb, this]

theorem val_upd_ne_row (a : Arr2 β) (i j i' j' : Nat) (v : β) (h : a.WF) (hi : i < a.rows)
    (hj : j < a.cols) (hne : i' ≠ i) : (a.upd i j v).val i' j' = a.val i' j' := by
  rw [val_upd a i j i' j' v h hi hj]; simp [hne]

theorem set_natCast (a : Arr2 β) (i j : Nat) (v : β) (hi : i < a.rows) (hj : j < a.cols) :
    a.set (i : Int) (j : Int) v = some (a.upd i j v) := by
  simp [set, hi, hj]

theorem set_c0 (a : Arr2 β) (i : Nat) (v : β) (hi : i < a.rows) (hj : 0 < a.cols) :
    a.set (i : Int) 0 v = some (a.upd i 0 v) := set_natCast a i 0 v hi hj
theorem set_c1 (a : Arr2 β) (i : Nat) (v : β) (hi : i < a.rows) (hj : 1 < a.cols) :
    a.set (i : Int) 1 v = some (a.upd i 1 v) := set_natCast a i 1 v hi hj
theorem set_c2 (a : Arr2 β) (i : Nat) (v : β) (hi : i < a.rows) (hj : 2 < a.cols) :
    a.set (i : Int) 2 v = some (a.upd i 2 v) := set_natCast a i 2 v hi hj

theorem setAt_natCast (a : Arr2 β) (i j : Nat) (v : β) (hi : i < a.rows) (hj : j < a.cols) :
    a.setAt ((i * a.cols + j : Nat) : Int) v = some (a.upd i j v) := by
  have := flat_lt a i j hi hj
  unfold setAt upd
  rw [Int.toNat_natCast]
  have h0 : (0 : Int) ≤ ((i * a.cols + j : Nat) : Int) := Int.natCast_nonneg _
  simp only [h0, this, and_self, if_true]

theorem setAt_of (a : Arr2 β) (pos : Int) (i j : Nat) (v : β)
    (hpos : pos = ((i * a.cols + j : Nat) : Int)) (hi : i < a.rows) (hj : j < a.cols) :
    a.setAt pos v = some (a.upd i j v) := by
  rw [hpos]; exact setAt_natCast a i j v hi hj

theorem empty_natCast (r c : Nat) :
    (Arr2.empty (r : Int) (c : Int) : Option (Arr2 β)) = some ⟨r, c, Array.replicate (r * c) none⟩ := by
  simp [empty]

theorem wf_replicate (r c : Nat) : (⟨r, c, Array.replicate (r * c) none⟩ : Arr2 β).WF := by
  simp [WF]

theorem take_natCast (a : Arr2 β) (n : Nat) (h : n ≤ a.rows) :
    a.take (n : Int) = some ⟨n, a.cols, a.cells.extract 0 (n * a.cols)⟩ := by
  simp [take, h]

theorem val_take (a : Arr2 β) (n i j : Nat) (hw : a.WF) (h : n ≤ a.rows) (hi : i < n) :
    (⟨n, a.cols, a.cells.extract 0 (n * a.cols)⟩ : Arr2 β).val i j = a.val i j := by
  simp only [val]
  by_cases hj : j < a.cols
  · have h1 : i < a.rows := by omega
    simp only [hi, hj, h1, and_self, if_true, Array.getElem?_extract]
    have h2 : i * a.cols + j < n * a.cols := by
      calc i * a.cols + j < i * a.cols + a.cols := by omega
        _ = (i + 1) * a.cols := by rw [Nat.succ_mul]
        _ ≤ n * a.cols := Nat.mul_le_mul_right _ hi
    have h3 : n * a.cols ≤ a.cells.size := by rw [hw]; exact Nat.mul_le_mul_right _ h
    have h4 : min (n * a.cols) a.cells.size = n * a.cols := Nat.min_eq_left h3
    simp [h4, h2]
  · simp [hj]

theorem mapM_some {γ δ : Type} (f : γ → Option δ) (xs : List γ) (ys : List δ)
    (hlen : xs.length = ys.length)
    (h : ∀ i (h1 : i < xs.length) (h2 : i < ys.length), f xs[i] = some ys[i]) :
    xs.mapM f = some ys := by
  induction xs generalizing ys with
  | nil =>
      cases ys with
      | nil => simp
      | cons y ys => simp at hlen
  | cons x xs ih =>
      cases ys with
      | nil => simp at hlen
      | cons y ys =>
          have h0 := h 0 (by simp) (by simp)
          simp only [List.getElem_cons_zero] at h0
          have ih' := ih ys (by simpa using hlen) (fun i h1 h2 => by
            have := h (i + 1) (by simp; omega) (by simp; omega)
            simpa using this)
          simp [List.mapM_cons, h0, ih']

/-- `toRows` succeeds when every cell is written, and then lists them -/
theorem toRows_eq (a : Arr2 β) (rows : List (List β))
    (hlen : rows.length = a.rows)
    (hrow : ∀ i (h : i < rows.length), rows[i].length = a.cols ∧
      ∀ j (hj : j < rows[i].length), a.val i j = some (rows[i][j])) :
    a.toRows = some rows := by
  unfold toRows
  apply mapM_some
  · simp [hlen]
  · intro i h1 h2
    simp only [List.getElem_range]
    obtain ⟨hc, hv⟩ := hrow i h2
    apply mapM_some
    · simp [hc]
    · intro j hj1 hj2
      simp only [List.getElem_range]
      exact hv j hj2

end Arr2

/-- invariant rule for `for k in range(n)` -/
theorem forRange_inv {σ : Type} (P : Nat → σ → Prop) (n : Nat) (body : Int → σ → Option σ) (s0 : σ)
    (h0 : P 0 s0)
    (hstep : ∀ k s, k < n → P k s → ∃ s', body (k : Int) s = some s' ∧ P (k + 1) s') :
    ∃ s', forRange (n : Int) body s0 = some s' ∧ P n s' := by
  unfold forRange
  simp only [Int.toNat_natCast]
  induction n with
  | zero => exact ⟨s0, by simp, h0⟩
  | succ n ih =>
      obtain ⟨s1, h1, p1⟩ := ih (fun k s hk hp => hstep k s (by omega) hp)
      obtain ⟨s2, h2, p2⟩ := hstep n s1 (by omega) p1
      refine ⟨s2, ?_, p2⟩
      rw [List.range_succ, List.foldlM_append, h1]
      simpa using h2

end PyYetiVerif.RainflowImp
