import PyYetiVerif.Model.Fde
import Mathlib.Algebra.Order.Field.Basic
import Mathlib.Algebra.BigOperators.Group.List.Basic
import Mathlib.Tactic.Ring
import Mathlib.Tactic.Linarith
import Mathlib.Tactic.FieldSimp
/-! Helper lemmas for C10 / fdepsd bookkeeping. -/
set_option linter.unusedSectionVars false
namespace PyYetiVerif.Fde

variable {α : Type} [Field α] [LinearOrder α] [IsStrictOrderedRing α]

theorem cumCount_nil (level : α) : cumCount ([] : List (α × α)) level = 0 := by
  simp [cumCount]

theorem cumCount_cons (c : α × α) (cs : List (α × α)) (level : α) :
    cumCount (c :: cs) level = (if c.1 < level then 0 else c.2) + cumCount cs level := by
  unfold cumCount
  by_cases h : c.1 < level <;> simp [h]

theorem cumCount_antitone (cycles : List (α × α)) (hc : ∀ c ∈ cycles, 0 ≤ c.2) (l1 l2 : α)
    (h : l1 ≤ l2) : cumCount cycles l2 ≤ cumCount cycles l1 := by
  induction cycles with
  | nil => simp [cumCount_nil]
  | cons c cs ih =>
      rw [cumCount_cons, cumCount_cons]
      have ih' := ih (fun d hd => hc d (by simp [hd]))
      have hc0 := hc c (by simp)
      by_cases h1 : c.1 < l1
      · have h2 : c.1 < l2 := lt_of_lt_of_le h1 h
        simp only [h1, h2, if_true]; linarith
      · by_cases h2 : c.1 < l2
        · simp only [h1, h2, if_true, if_false]; linarith
        · simp only [h1, h2, if_false]; linarith

theorem cumCount_zero (cycles : List (α × α)) (ha : ∀ c ∈ cycles, 0 ≤ c.1) :
    cumCount cycles 0 = (cycles.map (·.2)).sum := by
  induction cycles with
  | nil => simp [cumCount_nil]
  | cons c cs ih =>
      rw [cumCount_cons, ih (fun d hd => ha d (by simp [hd]))]
      have := ha c (by simp)
      simp [not_lt.mpr this]

theorem binCount_sum (c : α) (r : List α) : (binCount (c :: r)).sum = c := by
  induction r generalizing c with
  | nil => simp [binCount]
  | cons d r ih => simp only [binCount, List.sum_cons, ih d]; ring

end PyYetiVerif.Fde
