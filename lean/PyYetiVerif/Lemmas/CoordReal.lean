import PyYetiVerif.Lemmas.CoordBuild
import PyYetiVerif.Lemmas.Coord
/-!
C14: the `ℝ` instances of the `==` hypotheses of `Lemmas/CoordChain.lean` / `Lemmas/CoordBuild.lean`, and a grid
for the non-vacuity examples of `Props/C14.lean`.
-/
namespace PyYetiVerif.Coord

theorem real_beqSound : BEqSound ℝ := fun _ _ h => of_decide_eq_true h
theorem real_beqRefl : BEqRefl ℝ := fun _ => decide_eq_true rfl

/-- a grid at the basic origin with basic output system -/
noncomputable def exGrid : GridR ℝ := ⟨false, ⟨0, 0, 0⟩, ⟨.rect, ⟨0, 0, 0⟩, M3.one⟩⟩

/-! ### the constants read from the source (`Generated/CoordConsts.lean`) are the ones the model hard-codes -/

/-- `a2r = math.pi / 180.0`, `theta * 180 / math.pi`: the model's `[OfNat α 180]` -/
example : Generated.CoordConsts.degHalfTurn = 180 := rfl
/-- components 1 … 6: the model's `Fin 6` -/
example : Generated.CoordConsts.maxDof = 6 := rfl
/-- the thresholds of the `ℝ` instance (`Lemmas/Coord.lean`: `1 / 10 ^ 8`, `1 / 10 ^ 12`) are the source's -/
example : (TransOps.tiny : ℝ) = 1 / 10 ^ Generated.CoordConsts.tinyExp
    ∧ (TransOps.tiny12 : ℝ) = 1 / 10 ^ Generated.CoordConsts.tiny12Exp := ⟨rfl, rfl⟩
example : Generated.CoordConsts.tinyExp = 8 ∧ Generated.CoordConsts.tiny12Exp = 12 := ⟨rfl, rfl⟩

end PyYetiVerif.Coord
