import PyYetiVerif.Lemmas.CoordBuild
import PyYetiVerif.Lemmas.Coord
/-!
C14: the `ℝ` instances of the `==` hypotheses of `Lemmas/CoordChain.lean` / `Lemmas/CoordBuild.lean`, and a grid
for the non-vacuity examples of `Props/C14.lean`.
-/
namespace PyYetiVerif.Coord

theorem real_beqSound : BEqSound ℝ := fun _ _ h => of_decide_eq_true h
theorem real_beqRefl : BEqRefl ℝ := fun _ => decide_eq_true rfl

/-- a grid at the basic origin with basic output system -/
noncomputable def exGrid : GridR ℝ := ⟨false, ⟨0, 0, 0⟩, ⟨.rect, ⟨0, 0, 0⟩, M3.one⟩⟩

end PyYetiVerif.Coord
