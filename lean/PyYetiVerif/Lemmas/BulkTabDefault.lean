import PyYetiVerif.Model.BulkTabDefault
import PyYetiVerif.Lemmas.BulkRealFmt
import PyYetiVerif.Lemmas.BulkTab
/-! Helper lemma for `Props/C13ValuesTab.lean` (`wttabled1`, default format). -/
namespace PyYetiVerif.C13
open PyYetiVerif.Bulk PyYetiVerif.PyFloat PyYetiVerif.NasFloat

/-- `rdtabled1` keeps a number it read (`np.array(…)` of numbers: strings would become `nan`) -/
theorem arr_dmigRead (x : Dbl) : Val.arr (dmigRead x) = dmigRead x := by
  by_cases h : (fmtE 9 x).length ≤ 16 <;> simp [dmigRead, h, readE, Val.arr]

end PyYetiVerif.C13
