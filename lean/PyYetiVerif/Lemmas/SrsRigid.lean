import PyYetiVerif.Lemmas.SrsPipe
import PyYetiVerif.Model.SrsExt
/-! Helper lemmas for C03: the `wn = 0` branches of the six coefficient functions are exact for
the rigid oscillator `u'' = -x(t)` (piecewise-linear input, at rest one sample before the
record). -/
set_option linter.unusedVariables false
set_option linter.unusedSimpArgs false
set_option linter.unusedSectionVars false
namespace PyYetiVerif.Srs

/-! ### the closed form solves `u'' = -x(t)` -/

theorem rigid_solves_ode' (h u0 v0 x0 x1 t : ℝ) :
    HasDerivAt (fun τ => rigidU h u0 v0 x0 x1 τ) (rigidV h v0 x0 x1 t) t ∧
    HasDerivAt (fun τ => rigidV h v0 x0 x1 τ) (-(x0 + (x1 - x0) * t / h)) t ∧
    rigidU h u0 v0 x0 x1 0 = u0 ∧ rigidV h v0 x0 x1 0 = v0 := by
  have h1 : HasDerivAt (fun τ : ℝ => τ) 1 t := hasDerivAt_id' t
  have h2 : HasDerivAt (fun τ : ℝ => τ * τ) (1 * t + t * 1) t := h1.mul h1
  have h3 : HasDerivAt (fun τ : ℝ => τ * τ * τ) ((1 * t + t * 1) * t + t * t * 1) t := h2.mul h1
  refine ⟨?_, ?_, ?_, ?_⟩
  · have := (((hasDerivAt_const t u0).add (h1.const_mul v0)).sub
      ((h2.const_mul x0).div_const 2)).sub ((h3.const_mul ((x1 - x0) / h)).div_const 6)
    simp only [Pi.add_def, Pi.mul_def, Pi.sub_def] at this
    unfold rigidU rigidV
    exact this.congr_deriv (by ring)
  · have := ((hasDerivAt_const t v0).sub (h1.const_mul x0)).sub
      ((h2.const_mul ((x1 - x0) / h)).div_const 2)
    simp only [Pi.add_def, Pi.mul_def, Pi.sub_def] at this
    unfold rigidV
    exact this.congr_deriv (by ring)
  · simp [rigidU]
  · simp [rigidV]

/-! ### the rigid one-step map is affine -/

theorem rigidStatesAux_eq_ss (h : ℝ) (hh : h ≠ 0) (xs : List ℝ) : ∀ u v x : ℝ,
    rigidStatesAux h u v x xs
      = ssAux 1 h 0 1 (-(h * h) / 3) (-h / 2) (-(h * h) / 6) (-h / 2) u v x xs := by
  induction xs with
  | nil => intros; rfl
  | cons x' xs ih =>
    intro u v x
    simp only [rigidStatesAux, ssAux]
    have e1 : rigidU h u v x x' h = 1 * u + h * v + -(h * h) / 3 * x + -(h * h) / 6 * x' := by
      unfold rigidU; field_simp; ring
    have e2 : rigidV h v x x' h = 0 * u + 1 * v + -h / 2 * x + -h / 2 * x' := by
      unfold rigidV; field_simp; ring
    rw [e1, e2, ih]

/-! ### coefficient sets at `wn = 0` -/

theorem coef_zero_a (st : SType) (hst : st ≠ .relvelo) (Q h : ℝ) :
    (st.coef Q h 0).a = [1, -2, 1] := by
  cases st <;> first | exact absurd rfl hst | simp [SType.coef, absacce, relacce, reldisp, pvelo, pacce]

theorem coef_zero_b (Q h : ℝ) :
    (SType.absacce.coef Q h 0).b = [0, 0, 0] ∧ (SType.relacce.coef Q h 0).b = [-1, 2, -1] ∧
    (SType.reldisp.coef Q h 0).b = [-1 * (h * h) / 6, -4 * (h * h) / 6, -1 * (h * h) / 6] ∧
    (SType.pvelo.coef Q h 0).b = [0, 0, 0] ∧ (SType.pacce.coef Q h 0).b = [0, 0, 0] ∧
    (SType.relvelo.coef Q h 0).b = [-1 * h / 2, -1 * h / 2] ∧ (SType.relvelo.coef Q h 0).a = [1, -1] := by
  simp [SType.coef, absacce, relacce, reldisp, pvelo, pacce, relvelo]

/-- first-order filter of the `relvelo` branch: `y_n = y_{n-1} - h/2 (x_n + x_{n-1})` -/
theorem lfilterAux_relvelo_zero (h : ℝ) (hh : h ≠ 0) (xs : List ℝ) : ∀ u v x z0 : ℝ,
    z0 = v + -1 * h / 2 * x →
    lfilterAux (-1 * h / 2) (-1 * h / 2) 0 (-1) 0 z0 0 xs
      = (rigidStatesAux h u v x xs).map fun s => s.2.1 := by
  induction xs with
  | nil => intros; rfl
  | cons x' xs ih =>
    intro u v x z0 hz
    simp only [lfilterAux, rigidStatesAux, List.map_cons]
    have hy : z0 + -1 * h / 2 * x' = rigidV h v x x' h := by
      rw [hz]; unfold rigidV; field_simp; ring
    rw [hy]
    congr 1
    have e1 : x' * 0 - rigidV h v x x' h * 0 = 0 := by ring
    rw [e1]
    apply ih
    ring

theorem lfilter_rigid_eq (st : SType) (Q h : ℝ) (hh : h ≠ 0) (xs : List ℝ) :
    lfilter (st.coef Q h 0) xs = rigidResp st Q h xs := by
  by_cases hst : st = .relvelo
  · subst hst
    obtain ⟨-, -, -, -, -, hb, ha⟩ := coef_zero_b Q h
    unfold lfilter rigidResp
    rw [hb, ha]
    simp only [coefAt, List.getElem?_cons_succ, List.getElem?_cons_zero, List.getElem?_nil]
    rw [lfilterAux_relvelo_zero h hh xs 0 0 0 0 (by ring)]
    apply List.map_congr_left
    intro s _
    obtain ⟨u, v, x⟩ := s
    rfl
  · have ha := coef_zero_a st hst Q h
    have ha1 : coefAt (st.coef Q h 0).a 1 = -((1 : ℝ) + 1) := by rw [ha]; norm_num [coefAt]
    have ha2 : coefAt (st.coef Q h 0).a 2 = (1 : ℝ) * 1 - h * 0 := by rw [ha]; norm_num [coefAt]
    obtain ⟨b1, b2, b3, b4, b5, -, -⟩ := coef_zero_b Q h
    unfold lfilter rigidResp
    rw [ha1, ha2, rigidStatesAux_eq_ss h hh]
    have hb : coefAt (st.coef Q h 0).b 0
          = (cvec Q 0 st).1 * (-(h * h) / 6) + (cvec Q 0 st).2.1 * (-h / 2) + (cvec Q 0 st).2.2 ∧
        coefAt (st.coef Q h 0).b 1
          = (cvec Q 0 st).1 * (-(h * h) / 3 - (1 * (-(h * h) / 6) - h * (-h / 2)))
            + (cvec Q 0 st).2.1 * (-h / 2 - (-0 * (-(h * h) / 6) + 1 * (-h / 2)))
            - (1 + 1) * (cvec Q 0 st).2.2 ∧
        coefAt (st.coef Q h 0).b 2
          = -((cvec Q 0 st).1 * (1 * (-(h * h) / 3) - h * (-h / 2))
              + (cvec Q 0 st).2.1 * (-0 * (-(h * h) / 3) + 1 * (-h / 2)))
            + (1 * 1 - h * 0) * (cvec Q 0 st).2.2 := by
      cases st
      · rw [b1]; simp only [coefAt, cvec, List.getElem?_cons_succ, List.getElem?_cons_zero]
        refine ⟨?_, ?_, ?_⟩ <;> ring
      · rw [b2]; simp only [coefAt, cvec, List.getElem?_cons_succ, List.getElem?_cons_zero]
        refine ⟨?_, ?_, ?_⟩ <;> ring
      · rw [b3]; simp only [coefAt, cvec, List.getElem?_cons_succ, List.getElem?_cons_zero]
        refine ⟨?_, ?_, ?_⟩ <;> ring
      · exact absurd rfl hst
      · rw [b4]; simp only [coefAt, cvec, List.getElem?_cons_succ, List.getElem?_cons_zero]
        refine ⟨?_, ?_, ?_⟩ <;> ring
      · rw [b5]; simp only [coefAt, cvec, List.getElem?_cons_succ, List.getElem?_cons_zero]
        refine ⟨?_, ?_, ?_⟩ <;> ring
    obtain ⟨h0, h1, h2⟩ := hb
    rw [lfilterAux_eq_ss _ _ _ _ _ _ _ _ _ _ _ _ _ _ h0 h1 h2 xs 0 0 0 0 0 (by ring) (by ring)]
    apply List.map_congr_left
    intro s _
    exact (out_eq st Q h 0 s).symm

/-- what the exact `wn = 0` response is, per response type -/
theorem rigid_out (Q h : ℝ) (s : ℝ × ℝ × ℝ) :
    SType.absacce.out (Osc.ofQ Q h 0) s = 0 ∧ SType.relacce.out (Osc.ofQ Q h 0) s = -s.2.2 ∧
    SType.reldisp.out (Osc.ofQ Q h 0) s = s.1 ∧ SType.relvelo.out (Osc.ofQ Q h 0) s = s.2.1 ∧
    SType.pvelo.out (Osc.ofQ Q h 0) s = 0 ∧ SType.pacce.out (Osc.ofQ Q h 0) s = 0 := by
  obtain ⟨u, v, x⟩ := s
  simp [SType.out, Osc.ofQ]

/-! ### the whole 0 Hz column -/

theorem map_sub_zero' (l : List ℝ) : l.map (· - (0 : ℝ)) = l := by
  conv_rhs => rw [← List.map_id l]
  apply List.map_congr_left
  intro a _
  simp

theorem srsCol_zero_hz' (o : Opts) (hic : o.ic ≠ .steady) (Q sr : ℝ) (hsr : sr ≠ 0)
    (freqs sig : List ℝ) : srsCol o Q sr freqs 0 sig = exactCol0 o Q sr freqs sig := by
  cases sig with
  | nil => rfl
  | cons s1 rest =>
    have hh : (1 : ℝ) / sr ≠ 0 := one_div_ne_zero hsr
    obtain ⟨st, ic, pk, tm, es⟩ := o
    simp only at hic
    simp only [srsCol, srsTail, exactCol0, mul_zero]
    have key : ∀ nz : ℕ,
        addBack st 0 (processIc ic st s1 (s1 :: rest)).2
          (lfilter (st.coef Q (1 / sr) 0)
            ((processIc ic st s1 (s1 :: rest)).1 ++ List.replicate nz (if ic = .steady then 0 - s1 else 0)))
        = (rigidStatesAux (1 / sr) 0 0 0
              ((s1 :: rest).map (· - icShift ic s1 (s1 :: rest)) ++ List.replicate nz 0)).map
            (st.out (Osc.ofQ Q (1 / sr) 0)) := by
      intro nz
      cases ic
      · simp only [processIc, addBack, icShift, map_sub_zero', reduceCtorEq, if_false]
        rw [lfilter_rigid_eq st Q _ hh]
        rfl
      · simp only [processIc, addBack, icShift, reduceCtorEq, if_false]
        rw [lfilter_rigid_eq st Q _ hh]
        rfl
      · simp only [processIc, addBack, icShift, reduceCtorEq, if_false]
        rw [lfilter_rigid_eq st Q _ hh]
        rfl
      · exact absurd rfl hic
    have hlen : (processIc ic st s1 (s1 :: rest)).1.length = (s1 :: rest).length := by
      cases ic <;> simp [processIc]
    cases tm
    · have k0 := key 0
      simp only [List.replicate_zero, List.append_nil] at k0
      simp only [reduceCtorEq, if_false, if_true, List.replicate_zero, List.append_nil, k0]
      rfl
    · simp only [reduceCtorEq, if_false, if_true, addOneCycle, key]
      rfl
    · simp only [reduceCtorEq, if_false, if_true, addOneCycle, key, hlen]
      rfl

end PyYetiVerif.Srs
