import PyYetiVerif.Lemmas.NewmarkConv
/-!
Velocities and accelerations of `Newmark.run` (C17): what the lists `hh.v`, `hh.a` hold in terms of the
displacement sequence (`uuAt`, `run_va`, `run_v_get`, `run_a_get`), and the ingredients of their convergence
statements: the energy form of the convergence core (`conv_core_energy`), difference quotients of the error
from the energy (`diff_le_of_energy`), the second difference of the error from the error recursion
(`second_diff_of_rec`), and the constants `convE1`, `convE2`, `convR` with `Rbar_le`.
-/
namespace PyYetiVerif.Newmark

/-! ### the list `[u₋₁, d_0, …, d_{n+1}, De]` of a linear run -/
section lists
variable {α V : Type} [Add V] [Sub V] [VecOps α V] [Mul α] [OfNat α 2] [OfNat α 3]
open VecOps

/-- entry `i` of the list the central differences are taken of: `u₋₁` at `0`, `d_{i-1}` for
`1 ≤ i ≤ n + 2`, the extrapolated `De` after that -/
def uuAt (S : Sys V α) (Fn : Nat → V) (d0 v0 z : V) (n : Nat) : Nat → V
  | 0 => uM1 S d0 v0
  | i + 1 => if i < n + 2 then dseq S Fn d0 v0 z i
             else lastStep S (fun _ _ => z) (stateAt S Fn d0 v0 z n)

/-- the forward list itself -/
def uuList (S : Sys V α) (Fn : Nat → V) (d0 v0 z : V) (n : Nat) : List V :=
  uM1 S d0 v0 :: ((List.range (n + 2)).map (dseq S Fn d0 v0 z)
    ++ [lastStep S (fun _ _ => z) (stateAt S Fn d0 v0 z n)])

omit [Mul α] [OfNat α 2] in
theorem uuList_getElem? (S : Sys V α) (Fn : Nat → V) (d0 v0 z : V) (n i : Nat) (hi : i ≤ n + 3) :
    (uuList S Fn d0 v0 z n)[i]? = some (uuAt S Fn d0 v0 z n i) := by
  cases i with
  | zero => simp [uuList, uuAt]
  | succ i =>
    simp only [uuList, uuAt, List.getElem?_cons_succ]
    by_cases h : i < n + 2
    · rw [if_pos h, List.getElem?_append_left (by simpa using h)]
      simp [List.getElem?_map, List.getElem?_range h]
    · have : i = n + 2 := by omega
      subst this
      rw [if_neg h, List.getElem?_append_right (by simp)]
      simp

/-- `run` on a linear system: displacements, extrapolated step, and the velocity / acceleration lists as
central differences of `uuList` -/
theorem run_va (S : Sys V α) (Fn : Nat → V) (d0 v0 z : V) (n : Nat) :
    ∃ hh, run S (fun _ _ => z) ((List.range (n + 2)).map Fn) d0 v0 = some hh ∧
      hh.d = (List.range (n + 2)).map (dseq S Fn d0 v0 z) ∧
      hh.de = lastStep S (fun _ _ => z) (stateAt S Fn d0 v0 z n) ∧
      hh.v = v0 :: (velo ((2 : α) * S.h) (uuList S Fn d0 v0 z n)).tail ∧
      hh.a = accel (S.h * S.h) (uuList S Fn d0 v0 z n) := by
  have hF : (List.range (n + 2)).map Fn
      = Fn 0 :: Fn 1 :: (List.range n).map (fun t => Fn (2 + t)) := by
    rw [List.range_succ_eq_map, List.map_cons, List.map_map, List.range_succ_eq_map, List.map_cons,
      List.map_map]
    refine congrArg₂ _ rfl (congrArg₂ _ rfl (List.map_congr_left fun t _ => ?_))
    simp only [Function.comp]
    congr 1; omega
  have hl := loop_stateAt S Fn d0 v0 z n 0
  simp only [Nat.zero_add] at hl
  rw [← start_eq_stateAt] at hl
  have hm : ((List.range n).map fun t => Fn (2 + t)).map (scaled S)
      = (List.range n).map fun t => scaled S (Fn (2 + t)) := by
    rw [List.map_map]; rfl
  have hext : extended S (fun _ _ => z) (stateAt S Fn d0 v0 z n) = uuList S Fn d0 v0 z n := by
    simp [extended, stateAt, LoopSt.hist, uuList, List.range_succ]
  refine ⟨_, by rw [hF]; rfl, ?_, ?_, ?_, ?_⟩
  · simp only [hm, hl]
    simp [stateAt, LoopSt.hist, List.range_succ]
  · simp only [hm, hl]
  · simp only [hm, hl, hext]
  · simp only [hm, hl, hext]

/-- position `j ≤ n + 1` of the acceleration list -/
theorem run_a_get (S : Sys V α) (Fn : Nat → V) (d0 v0 z : V) (n j : Nat) (hj : j ≤ n + 1) :
    (accel (S.h * S.h) (uuList S Fn d0 v0 z n))[j]?
      = some (sdiv (uuAt S Fn d0 v0 z n (j + 2) - smul (2 : α) (uuAt S Fn d0 v0 z n (j + 1))
          + uuAt S Fn d0 v0 z n j) (S.h * S.h)) :=
  accel_getElem? _ _ j _ _ _ (uuList_getElem? S Fn d0 v0 z n j (by omega))
    (uuList_getElem? S Fn d0 v0 z n (j + 1) (by omega))
    (uuList_getElem? S Fn d0 v0 z n (j + 2) (by omega))

/-- position `j + 1` (`j ≤ n`) of the velocity list `v0 :: tail (velo …)` -/
theorem run_v_get (S : Sys V α) (Fn : Nat → V) (d0 v0 z : V) (n j : Nat) (hj : j ≤ n) :
    (v0 :: (velo ((2 : α) * S.h) (uuList S Fn d0 v0 z n)).tail)[j + 1]?
      = some (sdiv (uuAt S Fn d0 v0 z n (j + 3) - uuAt S Fn d0 v0 z n (j + 1)) ((2 : α) * S.h)) := by
  rw [List.getElem?_cons_succ, List.getElem?_tail]
  exact velo_getElem? _ _ (j + 1) _ _ (uuList_getElem? S Fn d0 v0 z n (j + 1) (by omega))
    (uuList_getElem? S Fn d0 v0 z n (j + 3) (by omega))

end lists

/-! ### energy form of the convergence core -/

open Finset in
/-- The energy half of `conv_core`: under the same hypotheses the discrete energy of two consecutive errors
stays below `R̄² = (h Pm ρ + (T G + h D)/μ)²` on the first `N + 1` pairs. -/
theorem conv_core_energy (m b k h T μ ρ Pm G D : ℝ) (e g : ℕ → ℝ) (N : ℕ) (hμ : 0 < μ) (hmμ : m = μ ^ 2)
    (hb : 0 ≤ b) (hk : 0 ≤ k) (hh : 0 < h) (hρ : 0 ≤ ρ) (hρ2 : m + k * T ^ 2 / 3 ≤ ρ ^ 2)
    (hPm : 0 ≤ Pm) (hG : 0 ≤ G) (hD : 0 ≤ D) (hNT : ((N : ℝ) + 1) * h ≤ T)
    (hrec : ∀ n, coefA m b k h * e (n + 2) = g n + coefA1 m k h * e (n + 1) + coefA0 m b k h * e n)
    (he0 : e 0 = 0) (he1 : |e 1| ≤ h ^ 2 * Pm)
    (hg0 : 1 ≤ N → |g 0| ≤ G + D) (hgj : ∀ j, 1 ≤ j → j < N → |g j| ≤ G) :
    0 ≤ h * Pm * ρ + (T * G + h * D) / μ ∧
    ∀ j, j ≤ N → energy m k h (e (j + 1)) (e j) ≤ (h * Pm * ρ + (T * G + h * D) / μ) ^ 2 := by
  have hN0 : (0 : ℝ) ≤ N := Nat.cast_nonneg N
  have hhT : h ≤ T := by nlinarith
  have hNh : (N : ℝ) * h ≤ T := by nlinarith
  have hT : 0 < T := lt_of_lt_of_le hh hhT
  have hE0 : energy m k h (e 1) (e 0) ≤ (h * Pm * ρ) ^ 2 := by
    rw [he0]
    simp only [energy, sub_zero, mul_zero, add_zero]
    have hsq : (e 1) ^ 2 ≤ (h ^ 2 * Pm) ^ 2 := by
      rw [← sq_abs (e 1)]
      exact pow_le_pow_left₀ (abs_nonneg _) he1 2
    have hk3 : k / 3 ≤ k * T ^ 2 / 3 / h ^ 2 := by
      rw [le_div_iff₀ (by positivity)]
      have : h ^ 2 ≤ T ^ 2 := pow_le_pow_left₀ hh.le hhT 2
      nlinarith
    have hcoef : m / h ^ 2 + k / 3 ≤ ρ ^ 2 / h ^ 2 := by
      have : ρ ^ 2 / h ^ 2 ≥ (m + k * T ^ 2 / 3) / h ^ 2 :=
        div_le_div_of_nonneg_right hρ2 (by positivity)
      have e2 : (m + k * T ^ 2 / 3) / h ^ 2 = m / h ^ 2 + k * T ^ 2 / 3 / h ^ 2 := by ring
      linarith
    have hc0 : 0 ≤ m / h ^ 2 + k / 3 := by
      have : 0 ≤ m := by rw [hmμ]; positivity
      positivity
    calc m * (e 1 / h) ^ 2 + k / 3 * (e 1 ^ 2 + 0 ^ 2)
        = (e 1) ^ 2 * (m / h ^ 2 + k / 3) := by field_simp; ring
      _ ≤ (h ^ 2 * Pm) ^ 2 * (ρ ^ 2 / h ^ 2) :=
          mul_le_mul hsq hcoef hc0 (by positivity)
      _ = (h * Pm * ρ) ^ 2 := by field_simp
  have hR0 : 0 ≤ h * Pm * ρ := by positivity
  have hS : ∀ j, j ≤ N → ∑ i ∈ range j, |g i| ≤ j * G + D := by
    intro j
    induction j with
    | zero => intro _; simpa using hD
    | succ j ih =>
      intro hj
      rw [sum_range_succ]
      rcases Nat.eq_zero_or_pos j with rfl | hpos
      · simpa using hg0 hj
      · have := ih (Nat.le_of_succ_le hj)
        have hgj' := hgj j hpos (Nat.lt_of_succ_le hj)
        push_cast
        linarith
  have hRbar0 : 0 ≤ h * Pm * ρ + (T * G + h * D) / μ := by positivity
  refine ⟨hRbar0, ?_⟩
  intro j hj
  have h1 := energy_sum_le m b k h μ (h * Pm * ρ) e g hμ hmμ hb hk hh hR0 hrec hE0 j
  have hs0 : 0 ≤ ∑ i ∈ range j, |g i| := sum_nonneg fun _ _ => abs_nonneg _
  have hjN : (j : ℝ) ≤ N := Nat.cast_le.mpr hj
  have h2 : h / μ * ∑ i ∈ range j, |g i| ≤ (T * G + h * D) / μ := by
    have hb1 : ∑ i ∈ range j, |g i| ≤ N * G + D := by
      have := hS j hj
      have : (j : ℝ) * G ≤ N * G := mul_le_mul_of_nonneg_right hjN hG
      linarith
    have hb2 : h * (N * G + D) ≤ T * G + h * D := by nlinarith
    calc h / μ * ∑ i ∈ range j, |g i| ≤ h / μ * (N * G + D) :=
          mul_le_mul_of_nonneg_left hb1 (by positivity)
      _ = h * (N * G + D) / μ := by ring
      _ ≤ (T * G + h * D) / μ := div_le_div_of_nonneg_right hb2 hμ.le
  refine le_trans h1 (pow_le_pow_left₀ (by positivity) ?_ 2)
  linarith

/-- a difference of consecutive members from their energy: `|x − y| ≤ (h/μ) R` when `E(x, y) ≤ R²` -/
theorem diff_le_of_energy (m k h μ R x y : ℝ) (hμ : 0 < μ) (hmμ : m = μ ^ 2) (hk : 0 ≤ k) (hh : 0 < h)
    (hR : 0 ≤ R) (hE : energy m k h x y ≤ R ^ 2) : |x - y| ≤ h / μ * R := by
  have k1 : (μ * ((x - y) / h)) ^ 2 ≤ R ^ 2 := by
    rw [mul_pow, ← hmμ]; exact le_trans (kinetic_le_energy h _ _ hk) hE
  have b1 := abs_le_of_sq_le_sq k1 hR
  rw [abs_mul, abs_of_pos hμ, abs_div, abs_of_pos hh] at b1
  have : μ * (|x - y| / h) = |x - y| * (μ / h) := by ring
  rw [this] at b1
  have hpos : 0 < μ / h := by positivity
  calc |x - y| = |x - y| * (μ / h) / (μ / h) := by field_simp
    _ ≤ R / (μ / h) := div_le_div_of_nonneg_right b1 hpos.le
    _ = h / μ * R := by field_simp

/-- the centred first difference of the error: `|(e₂ − e₀)/(2h)| ≤ (R₂ + R₁)/(2μ)` -/
theorem centered_err_le (m k h μ R2 R1 e2 e1 e0 : ℝ) (hμ : 0 < μ) (hmμ : m = μ ^ 2) (hk : 0 ≤ k)
    (hh : 0 < h) (hR2 : 0 ≤ R2) (hR1 : 0 ≤ R1) (hE2 : energy m k h e2 e1 ≤ R2 ^ 2)
    (hE1 : energy m k h e1 e0 ≤ R1 ^ 2) : |(e2 - e0) / (2 * h)| ≤ (R2 + R1) / (2 * μ) := by
  have d2 := diff_le_of_energy m k h μ R2 e2 e1 hμ hmμ hk hh hR2 hE2
  have d1 := diff_le_of_energy m k h μ R1 e1 e0 hμ hmμ hk hh hR1 hE1
  have tri : |e2 - e0| ≤ |e2 - e1| + |e1 - e0| := by
    have : e2 - e0 = (e2 - e1) + (e1 - e0) := by ring
    rw [this]; exact abs_add_le _ _
  have h2 : (0 : ℝ) < 2 * h := by positivity
  rw [abs_div, abs_of_pos h2, div_le_iff₀ h2]
  calc |e2 - e0| ≤ h / μ * R2 + h / μ * R1 := by linarith
    _ = (R2 + R1) / (2 * μ) * (2 * h) := by field_simp

/-- the second difference of the error from the error recursion -/
theorem second_diff_of_rec (m b k h g e2 e1 e0 : ℝ) (hm : m ≠ 0) (hh : h ≠ 0)
    (hrec : coefA m b k h * e2 = g + coefA1 m k h * e1 + coefA0 m b k h * e0) :
    (e2 - 2 * e1 + e0) / h ^ 2
      = (g - b * ((e2 - e0) / (2 * h)) - k / 3 * (e2 + e1 + e0)) / m := by
  have hg : g = coefA m b k h * e2 - coefA1 m k h * e1 - coefA0 m b k h * e0 := by linarith
  rw [hg]
  simp only [coefA, coefA1, coefA0]
  field_simp
  ring

/-- `|second difference of the error / h²| ≤ (|g| + b V + k D) / m` from bounds `V` on the centred first
difference and `D` on the three errors -/
theorem second_diff_err_le (m b k h g e2 e1 e0 Vb Db : ℝ) (hm : 0 < m) (hb : 0 ≤ b) (hk : 0 ≤ k)
    (hh : 0 < h)
    (hrec : coefA m b k h * e2 = g + coefA1 m k h * e1 + coefA0 m b k h * e0)
    (hV : |(e2 - e0) / (2 * h)| ≤ Vb) (h2 : |e2| ≤ Db) (h1 : |e1| ≤ Db) (h0 : |e0| ≤ Db) :
    |(e2 - 2 * e1 + e0) / h ^ 2| ≤ (|g| + b * Vb + k * Db) / m := by
  rw [second_diff_of_rec m b k h g e2 e1 e0 hm.ne' hh.ne' hrec, abs_div, abs_of_pos hm]
  apply div_le_div_of_nonneg_right _ hm.le
  have t1 : |g - b * ((e2 - e0) / (2 * h)) - k / 3 * (e2 + e1 + e0)|
      ≤ |g| + |b * ((e2 - e0) / (2 * h))| + |k / 3 * (e2 + e1 + e0)| := by
    refine le_trans (abs_sub _ _) (add_le_add (abs_sub _ _) (le_refl _))
  rw [abs_mul, abs_mul, abs_of_nonneg hb, abs_of_nonneg (by positivity : 0 ≤ k / 3)] at t1
  have t2 : |e2 + e1 + e0| ≤ 3 * Db := by
    have := abs_add_le (e2 + e1) e0
    have := abs_add_le e2 e1
    linarith
  have t3 : b * |(e2 - e0) / (2 * h)| ≤ b * Vb := mul_le_mul_of_nonneg_left hV hb
  have t4 : k / 3 * |e2 + e1 + e0| ≤ k / 3 * (3 * Db) :=
    mul_le_mul_of_nonneg_left t2 (by positivity)
  linarith

/-! ### explicit constants -/

/-- coefficient of `|F(0) − K u₀ − B v₀| h` in the energy radius of the error -/
noncomputable def convE1 (m b k T : ℝ) : ℝ :=
  (b * T / 12 + m / 6) * √(m + k * T ^ 2 / 3) / m ^ 2 + 1 / (3 * √m)

/-- coefficient of `h²` in the energy radius of the error -/
noncomputable def convE2 (m b k T M3 M4 : ℝ) : ℝ :=
  (m * M3 / 2 + b * M3 * T / 4) * √(m + k * T ^ 2 / 3) / m + T * (5 * m * M4 / 12 + b * M3 / 2) / √m

/-- energy radius of the global error: `√E(e_{j+1}, e_j) ≤ convR` -/
noncomputable def convR (m b k T M3 M4 δ h : ℝ) : ℝ :=
  convE1 m b k T * δ * h + convE2 m b k T M3 M4 * h ^ 2

theorem convE1_nonneg (m b k T : ℝ) (hm : 0 < m) (hb : 0 ≤ b) (hT : 0 ≤ T) : 0 ≤ convE1 m b k T := by
  unfold convE1
  have := Real.sqrt_nonneg (m + k * T ^ 2 / 3)
  have := Real.sqrt_pos.mpr hm
  positivity

theorem convE2_nonneg (m b k T M3 M4 : ℝ) (hm : 0 < m) (hb : 0 ≤ b) (hT : 0 ≤ T) (h3 : 0 ≤ M3)
    (h4 : 0 ≤ M4) : 0 ≤ convE2 m b k T M3 M4 := by
  unfold convE2
  have := Real.sqrt_nonneg (m + k * T ^ 2 / 3)
  have := Real.sqrt_pos.mpr hm
  positivity

/-- the radius `R̄` of `conv_core_energy` for the scalar test equation is below `convR` -/
theorem Rbar_le (m b k T M3 M4 δ h : ℝ) (hm : 0 < m) (hb : 0 ≤ b) (hk : 0 ≤ k) (hh : 0 < h)
    (hhT : h ≤ T) (hM3 : 0 ≤ M3) (hM4 : 0 ≤ M4) (hδ : 0 ≤ δ) :
    h * ((δ / m * |b * h / 12 - m / 6| + m * M3 * h / 2 + b * M3 * h ^ 2 / 4) / m) * √(m + k * T ^ 2 / 3)
        + (T * ((5 * m * M4 / 12 + b * M3 / 2) * h ^ 2) + h * (δ / 3)) / √m
      ≤ convR m b k T M3 M4 δ h := by
  have hT : 0 < T := lt_of_lt_of_le hh hhT
  set μ := √m with hμd
  have hμ : 0 < μ := Real.sqrt_pos.mpr hm
  set ρ := √(m + k * T ^ 2 / 3) with hρd
  have hρ : 0 ≤ ρ := Real.sqrt_nonneg _
  set P := δ / m * |b * h / 12 - m / 6| + m * M3 * h / 2 + b * M3 * h ^ 2 / 4 with hP
  have hP' : P ≤ δ / m * (b * T / 12 + m / 6) + h * (m * M3 / 2 + b * M3 * T / 4) := by
    have h1 : |b * h / 12 - m / 6| ≤ b * T / 12 + m / 6 := by
      have : |b * h / 12 - m / 6| ≤ |b * h / 12| + |m / 6| := abs_sub _ _
      rw [abs_of_nonneg (by positivity : 0 ≤ b * h / 12), abs_of_pos (by positivity : 0 < m / 6)] at this
      have := mul_le_mul_of_nonneg_left hhT hb
      linarith
    have h3 : b * M3 * h ^ 2 / 4 ≤ h * (b * M3 * T / 4) := by
      have h4 : h ^ 2 ≤ h * T := by rw [sq]; exact mul_le_mul_of_nonneg_left hhT hh.le
      have := mul_le_mul_of_nonneg_left h4 (by positivity : 0 ≤ b * M3 / 4)
      linarith
    rw [hP]
    have := mul_le_mul_of_nonneg_left h1 (by positivity : 0 ≤ δ / m)
    linarith
  have hstep : h * (P / m) * ρ
      ≤ h * ((δ / m * (b * T / 12 + m / 6) + h * (m * M3 / 2 + b * M3 * T / 4)) / m) * ρ := by
    apply mul_le_mul_of_nonneg_right _ hρ
    apply mul_le_mul_of_nonneg_left _ hh.le
    exact div_le_div_of_nonneg_right hP' hm.le
  calc h * (P / m) * ρ + (T * ((5 * m * M4 / 12 + b * M3 / 2) * h ^ 2) + h * (δ / 3)) / μ
      ≤ h * ((δ / m * (b * T / 12 + m / 6) + h * (m * M3 / 2 + b * M3 * T / 4)) / m) * ρ
          + (T * ((5 * m * M4 / 12 + b * M3 / 2) * h ^ 2) + h * (δ / 3)) / μ := by linarith
    _ = convR m b k T M3 M4 δ h := by
        simp only [convR, convE1, convE2, ← hμd, ← hρd]
        field_simp
        ring

/-! ### the scalar test equation: energy and size of the global error -/

/-- global error of the scalar scheme at step `i` -/
noncomputable def errSeq (m b k h : ℝ) (u u1 f : ℝ → ℝ) (i : ℕ) : ℝ :=
  dseq (scalarSys m b k h) (fun j => f (j * h)) (u 0) (u1 0) 0 i - u ((i : ℝ) * h)

open Set in
/-- Everything the convergence statements need about the global error `e_i = d_i − u(i h)` of the scalar
scheme (hypotheses of `newmark_converges_scalar`): its energy radius `convR`, its size, its recurrence and
the size of the forcing. -/
theorem scalar_error_energy (m b k T M3 M4 : ℝ) (hm : 0 < m) (hb : 0 ≤ b) (hk : 0 ≤ k)
    (u u1 u2 u3 u4 f : ℝ → ℝ)
    (hu : ∀ t, HasDerivAt u (u1 t) t) (hu1 : ∀ t, HasDerivAt u1 (u2 t) t)
    (hu2 : ∀ t, HasDerivAt u2 (u3 t) t) (hu3 : ∀ t, HasDerivAt u3 (u4 t) t)
    (hM3 : ∀ t ∈ Icc 0 T, |u3 t| ≤ M3) (hM4 : ∀ t ∈ Icc 0 T, |u4 t| ≤ M4)
    (hode : ∀ t ∈ Icc 0 T, m * u2 t + b * u1 t + k * u t = f t)
    (h : ℝ) (n : ℕ) (hh : 0 < h) (hnT : ((n : ℝ) + 1) * h ≤ T) :
    0 ≤ convR m b k T M3 M4 |f 0 - (k * u 0 + b * u1 0)| h ∧
    (∀ j, j ≤ n → energy m k h (errSeq m b k h u u1 f (j + 1)) (errSeq m b k h u u1 f j)
        ≤ convR m b k T M3 M4 |f 0 - (k * u 0 + b * u1 0)| h ^ 2) ∧
    (∀ j, j ≤ n + 1 → |errSeq m b k h u u1 f j|
        ≤ T / √m * convR m b k T M3 M4 |f 0 - (k * u 0 + b * u1 0)| h) ∧
    (∀ i, coefA m b k h * errSeq m b k h u u1 f (i + 2)
        = errForce m b k h u u1 f i + coefA1 m k h * errSeq m b k h u u1 f (i + 1)
          + coefA0 m b k h * errSeq m b k h u u1 f i) ∧
    (∀ i, i < n → |errForce m b k h u u1 f i| ≤ (5 * m * M4 / 12 + b * M3 / 2) * h ^ 2
        + (if i = 0 then |f 0 - (k * u 0 + b * u1 0)| / 3 else 0)) := by
  have hn0 : (0 : ℝ) ≤ n := Nat.cast_nonneg n
  have hhT : h ≤ T := by nlinarith
  have hT : 0 < T := lt_of_lt_of_le hh hhT
  have h0T : (0 : ℝ) ∈ Icc 0 T := ⟨le_refl _, hT.le⟩
  have hM3n : 0 ≤ M3 := le_trans (abs_nonneg _) (hM3 0 h0T)
  have hM4n : 0 ≤ M4 := le_trans (abs_nonneg _) (hM4 0 h0T)
  set μ := √m with hμd
  have hμ : 0 < μ := Real.sqrt_pos.mpr hm
  have hmμ : m = μ ^ 2 := (Real.sq_sqrt hm.le).symm
  have hρarg : 0 ≤ m + k * T ^ 2 / 3 := by positivity
  set ρ := √(m + k * T ^ 2 / 3) with hρd
  have hρ : 0 ≤ ρ := Real.sqrt_nonneg _
  have hρ2 : m + k * T ^ 2 / 3 ≤ ρ ^ 2 := (Real.sq_sqrt hρarg).ge
  have hApos : 0 < coefA m b k h := by
    simp only [coefA]
    have : 0 < m / (h * h) := by positivity
    have : 0 ≤ b / (2 * h) := by positivity
    have : 0 ≤ k / 3 := by positivity
    linarith
  set δ0 := f 0 - (k * u 0 + b * u1 0) with hδ0
  have ha0 : u2 0 = δ0 / m := by
    have := hode 0 h0T
    rw [hδ0, ← this]; field_simp; ring
  set Cτ := 5 * m * M4 / 12 + b * M3 / 2 with hCτ
  have hCτ0 : 0 ≤ Cτ := by positivity
  set P := |δ0| / m * |b * h / 12 - m / 6| + m * M3 * h / 2 + b * M3 * h ^ 2 / 4 with hP
  have hP0 : 0 ≤ P := by positivity
  set e : ℕ → ℝ := errSeq m b k h u u1 f with he
  have hrec : ∀ i, coefA m b k h * e (i + 2)
      = errForce m b k h u u1 f i + coefA1 m k h * e (i + 1) + coefA0 m b k h * e i :=
    fun i => error_rec m b k h u u1 f hApos.ne' i
  have he0 : e 0 = 0 := by simp [he, errSeq, dseq]
  have he1 : |e 1| ≤ h ^ 2 * (P / m) := by
    have := startup_error_abs_le m b k h M3 u u1 u2 u3 f hm hb hk hh hu hu1 hu2
      (fun s hs => hM3 s ⟨hs.1, le_trans hs.2 hhT⟩) (hode h ⟨hh.le, hhT⟩)
    have e1 : e 1 = dseq (scalarSys m b k h) (fun j => f (j * h)) (u 0) (u1 0) 0 1 - u h := by
      simp [he, errSeq]
    rw [e1]
    have h2 : |u2 0| = |δ0| / m := by rw [ha0, abs_div, abs_of_pos hm]
    rw [h2] at this
    calc _ ≤ h ^ 2 / m * P := this
      _ = h ^ 2 * (P / m) := by ring
  have htr : ∀ i, i < n → |trunc m b k h u f (((i + 1 : ℕ) : ℝ) * h)| ≤ Cτ * h ^ 2 := by
    intro i hi
    have hi' : (i : ℝ) + 2 ≤ n + 1 := by
      have : i + 2 ≤ n + 1 := by omega
      exact_mod_cast this
    have hlo : (0 : ℝ) ≤ ((i + 1 : ℕ) : ℝ) * h - h := by
      push_cast; nlinarith [Nat.cast_nonneg (α := ℝ) i]
    have hhi : ((i + 1 : ℕ) : ℝ) * h + h ≤ T := by
      push_cast; nlinarith
    have sub : ∀ s ∈ Icc (((i + 1 : ℕ) : ℝ) * h - h) (((i + 1 : ℕ) : ℝ) * h + h), s ∈ Icc 0 T :=
      fun s hs => ⟨le_trans hlo hs.1, le_trans hs.2 hhi⟩
    exact trunc_abs_le m b k h M3 M4 u u1 u2 u3 u4 f _ hm.le hb hh hu hu1 hu2 hu3
      (fun s hs => hM3 s (sub s hs)) (fun s hs => hM4 s (sub s hs)) (fun s hs => hode s (sub s hs))
  have hg0 : 1 ≤ n → |errForce m b k h u u1 f 0| ≤ Cτ * h ^ 2 + |δ0| / 3 := by
    intro h1
    have h2 := htr 0 (by omega)
    have key : errForce m b k h u u1 f 0 = -trunc m b k h u f (((0 + 1 : ℕ) : ℝ) * h) - δ0 / 3 := by
      unfold errForce; rw [if_pos rfl]
    rw [key]
    refine le_trans (abs_sub _ _) ?_
    rw [abs_neg, abs_div, abs_of_pos (by norm_num : (0 : ℝ) < 3)]
    exact add_le_add h2 (le_refl _)
  have hgj : ∀ i, 1 ≤ i → i < n → |errForce m b k h u u1 f i| ≤ Cτ * h ^ 2 := by
    intro i h1 hi
    have hne : i ≠ 0 := by omega
    simp only [errForce, hne, if_false, sub_zero, abs_neg]
    exact htr i hi
  obtain ⟨hRb0, hEn⟩ := conv_core_energy m b k h T μ ρ (P / m) (Cτ * h ^ 2) (|δ0| / 3) e
    (errForce m b k h u u1 f) n hμ hmμ hb hk hh hρ hρ2 (div_nonneg hP0 hm.le)
    (mul_nonneg hCτ0 (sq_nonneg h)) (div_nonneg (abs_nonneg _) (by norm_num)) hnT hrec he0 he1 hg0 hgj
  have hRle := Rbar_le m b k T M3 M4 |δ0| h hm hb hk hh hhT hM3n hM4n (abs_nonneg _)
  rw [← hP, ← hCτ, ← hμd, ← hρd] at hRle
  set R := convR m b k T M3 M4 |δ0| h with hR
  have hR0 : 0 ≤ R := le_trans hRb0 hRle
  have hEn' : ∀ j, j ≤ n → energy m k h (e (j + 1)) (e j) ≤ R ^ 2 := fun j hj =>
    le_trans (hEn j hj) (pow_le_pow_left₀ hRb0 hRle 2)
  refine ⟨hR0, hEn', ?_, hrec, ?_⟩
  · intro j hj
    have hd := disp_sum_le m k h μ e (fun _ => R) hμ hmμ hk hh j fun i hi =>
      ⟨hR0, hEn' i (by omega)⟩
    rw [he0, sub_zero, Finset.sum_const, Finset.card_range, nsmul_eq_mul] at hd
    have hjT : (j : ℝ) * h ≤ T := by
      have : (j : ℝ) ≤ n + 1 := by exact_mod_cast hj
      nlinarith
    calc |e j| ≤ h / μ * (j * R) := hd
      _ = (j * h) / μ * R := by ring
      _ ≤ T / μ * R := by
          apply mul_le_mul_of_nonneg_right _ hR0
          exact div_le_div_of_nonneg_right hjT hμ.le
  · intro i hi
    rcases Nat.eq_zero_or_pos i with rfl | hpos
    · rw [if_pos rfl]; exact hg0 (by omega)
    · rw [if_neg (by omega), add_zero]; exact hgj i hpos hi

/-! ### the extrapolated last step -/

/-- the extra step in residual form: `A De = F_{nt-1} + A1 d_{nt-1} + A0 d_{nt-2}` (the three force terms
`Fe + F_{nt-1} + F_{nt-2}` with `Fe = 2 F_{nt-1} − F_{nt-2}` sum to `3 F_{nt-1}`) -/
theorem lastStep_scalar {α : Type} [Field α] [CharZero α] (m b k h : α) (Fn : ℕ → α) (d0 v0 : α)
    (hA : coefA m b k h ≠ 0) (n : ℕ) :
    coefA m b k h * lastStep (scalarSys m b k h) (fun _ _ => 0) (stateAt (scalarSys m b k h) Fn d0 v0 0 n)
      = Fn (n + 1) + coefA1 m k h * dseq (scalarSys m b k h) Fn d0 v0 0 (n + 1)
        + coefA0 m b k h * dseq (scalarSys m b k h) Fn d0 v0 0 n := by
  simp only [lastStep, stateAt, gseq, Nat.add_eq_zero_iff, one_ne_zero, and_false, if_false]
  generalize dseq (scalarSys m b k h) Fn d0 v0 0 (n + 1) = x1
  generalize dseq (scalarSys m b k h) Fn d0 v0 0 n = x0
  simp only [scalarSys, scaled, VecOps.smul, VecOps.sdiv]
  field_simp
  ring

/-- error of the extrapolated displacement `De` against `u(nt·h)` -/
noncomputable def errLast (m b k h : ℝ) (u u1 f : ℝ → ℝ) (n : ℕ) : ℝ :=
  lastStep (scalarSys m b k h) (fun _ _ => 0)
      (stateAt (scalarSys m b k h) (fun j => f (j * h)) (u 0) (u1 0) 0 n)
    - u (((n + 2 : ℕ) : ℝ) * h)

/-- forcing of the last error equation: minus the truncation error, minus a third of the second difference of
the force (the price of the linear extrapolation) -/
noncomputable def errForceLast (m b k h : ℝ) (u f : ℝ → ℝ) (n : ℕ) : ℝ :=
  -trunc m b k h u f (((n + 1 : ℕ) : ℝ) * h)
    - (f (((n + 1 : ℕ) : ℝ) * h + h) - 2 * f (((n + 1 : ℕ) : ℝ) * h) + f (((n + 1 : ℕ) : ℝ) * h - h)) / 3

theorem last_error_rec (m b k h : ℝ) (u u1 f : ℝ → ℝ) (hA : coefA m b k h ≠ 0) (n : ℕ) :
    coefA m b k h * errLast m b k h u u1 f n
      = errForceLast m b k h u f n + coefA1 m k h * errSeq m b k h u u1 f (n + 1)
        + coefA0 m b k h * errSeq m b k h u u1 f n := by
  rw [errLast, mul_sub, lastStep_scalar _ _ _ _ _ _ _ hA]
  have t2 : ((n + 1 : ℕ) : ℝ) * h + h = ((n + 2 : ℕ) : ℝ) * h := by push_cast; ring
  have t0 : ((n + 1 : ℕ) : ℝ) * h - h = (n : ℝ) * h := by push_cast; ring
  simp only [errForceLast, errSeq, trunc, t2, t0]
  ring

/-! ### bounds on the central differences of the scalar sequence (used mode by mode for coupled systems) -/

open Set in
/-- `|(d_{i+2} − d_i)/(2h) − u'(t_{i+1})| ≤ R/√m + M₃ h²/6` -/
theorem scalar_velocity_bound (m b k T M3 M4 : ℝ) (hm : 0 < m) (hb : 0 ≤ b) (hk : 0 ≤ k)
    (u u1 u2 u3 u4 f : ℝ → ℝ)
    (hu : ∀ t, HasDerivAt u (u1 t) t) (hu1 : ∀ t, HasDerivAt u1 (u2 t) t)
    (hu2 : ∀ t, HasDerivAt u2 (u3 t) t) (hu3 : ∀ t, HasDerivAt u3 (u4 t) t)
    (hM3 : ∀ t ∈ Icc 0 T, |u3 t| ≤ M3) (hM4 : ∀ t ∈ Icc 0 T, |u4 t| ≤ M4)
    (hode : ∀ t ∈ Icc 0 T, m * u2 t + b * u1 t + k * u t = f t)
    (h : ℝ) (n : ℕ) (hh : 0 < h) (hnT : ((n : ℝ) + 1) * h ≤ T) (i : ℕ) (hi : i < n) :
    |(dseq (scalarSys m b k h) (fun j : ℕ => f (j * h)) (u 0) (u1 0) 0 (i + 2)
        - dseq (scalarSys m b k h) (fun j : ℕ => f (j * h)) (u 0) (u1 0) 0 i) / (2 * h)
        - u1 (((i + 1 : ℕ) : ℝ) * h)|
      ≤ convR m b k T M3 M4 |f 0 - (k * u 0 + b * u1 0)| h / √m + M3 * h ^ 2 / 6 := by
  obtain ⟨hR0, hEn, -, -, -⟩ := scalar_error_energy m b k T M3 M4 hm hb hk u u1 u2 u3 u4 f hu hu1 hu2 hu3
    hM3 hM4 hode h n hh hnT
  set R := convR m b k T M3 M4 |f 0 - (k * u 0 + b * u1 0)| h with hR
  set μ := √m with hμd
  have hμ : 0 < μ := Real.sqrt_pos.mpr hm
  have hmμ : m = μ ^ 2 := (Real.sq_sqrt hm.le).symm
  set t := ((i + 1 : ℕ) : ℝ) * h with ht
  have tp : t + h = ((i + 2 : ℕ) : ℝ) * h := by rw [ht]; push_cast; ring
  have tm : t - h = ((i : ℕ) : ℝ) * h := by rw [ht]; push_cast; ring
  have hi0 : (0 : ℝ) ≤ i := Nat.cast_nonneg i
  have hiT : ((i : ℝ) + 2) * h ≤ T := by
    have : (i : ℝ) + 2 ≤ n + 1 := by exact_mod_cast (by omega : i + 2 ≤ n + 1)
    nlinarith
  have sub : ∀ s ∈ Icc (t - h) (t + h), s ∈ Icc 0 T := by
    intro s hs
    rw [tm] at hs; rw [tp] at hs
    refine ⟨le_trans (by positivity) hs.1, le_trans hs.2 ?_⟩
    push_cast; linarith
  have htr := centered_diff_le u u1 u2 u3 hu hu1 hu2 t h M3 hh.le (fun s hs => hM3 s (sub s hs))
  have hce := centered_err_le m k h μ R R (errSeq m b k h u u1 f (i + 2)) (errSeq m b k h u u1 f (i + 1))
    (errSeq m b k h u u1 f i) hμ hmμ hk hh hR0 hR0 (hEn (i + 1) (by omega)) (hEn i (by omega))
  have h2 : (0 : ℝ) < 2 * h := by positivity
  have key : ∀ D2 D0 U2 U0 w : ℝ, (D2 - D0) / (2 * h) - w
      = ((D2 - U2) - (D0 - U0)) / (2 * h) + (U2 - U0 - 2 * h * w) / (2 * h) := by
    intros; field_simp; ring
  have e2 : errSeq m b k h u u1 f (i + 2)
      = dseq (scalarSys m b k h) (fun j : ℕ => f (j * h)) (u 0) (u1 0) 0 (i + 2) - u (t + h) := by
    rw [tp]; rfl
  have e0 : errSeq m b k h u u1 f i
      = dseq (scalarSys m b k h) (fun j : ℕ => f (j * h)) (u 0) (u1 0) 0 i - u (t - h) := by
    rw [tm]; rfl
  rw [key _ _ (u (t + h)) (u (t - h)) _, ← e2, ← e0]
  refine le_trans (abs_add_le _ _) (add_le_add ?_ ?_)
  · calc _ ≤ (R + R) / (2 * μ) := hce
      _ = R / μ := by field_simp; ring
  · rw [abs_div, abs_of_pos h2, div_le_iff₀ h2]
    calc _ ≤ M3 / 3 * h ^ 3 := htr
      _ = M3 * h ^ 2 / 6 * (2 * h) := by ring

end PyYetiVerif.Newmark
