import PyYetiVerif.Lemmas.Op4FixedFile
import PyYetiVerif.Lemmas.Op4Domain
/-! The F2 repair candidate on the writer's TRUE domain: the chain of Lemmas/Op4Domain.lean (`rdMatrix_enc'` …
`writeFileWords_ok`) for the patched writer.  `recLen_sparseFx` / `recOfFx_good'` are written by hand, the rest is a
GENERATED copy of Lemmas/Op4Domain.lean lines 69-319 with `recOf ↦ recOfFx`, `recsOf ↦ recsOfFx`, `encMatWords ↦
encMatWordsFx`, `recLen ↦ recLenFx`, `writeMatWords ↦ writeMatWordsFx`, `Mat.WfD ↦ Mat.WfDFx`, `DecOfX ↦ DecOfXFx`. -/
namespace PyYetiVerif.Op4
open PyYetiVerif.Generated.Op4Consts

/-- the patched writer's domain: lengths, and every packed integer below `2^31` -/
structure Mat.WfDFx (lay : Layout) (m : Mat) : Prop where
  cols_len : ∀ col ∈ m.cols, col.length = m.rows
  rows_lt : m.rows < 2147483648
  ncols_lt : m.cols.length + 1 < 2147483648
  form_lt : m.form < 2147483648
  name_lt : ∀ b ∈ m.name, b < 256
  recs_fit : ∀ col ∈ m.cols, recLenFx lay m.cplx col < 2147483648

theorem recLen_sparseFx (cplx : Bool) (col : List Entry) (s : Nat) (tl : List Nat)
    (h : nzIdx cplx col = s :: tl) :
    recLenFx .nonbigmat cplx col = (3 + nwordsNonbig cplx (stringsFx cplx col)) * 4 := by
  have hne := stringsFx_ne_nil cplx col s tl h
  cases hs : stringsFx cplx col with
  | nil => exact absurd hs hne
  | cons a t => simp [recLenFx, hs]

theorem recOfFx_good' (e : Endian) (lay : Layout) (cplx : Bool) (ncols c : Nat) (col : List Entry) (s : Nat)
    (tl : List Nat) (h : nzIdx cplx col = s :: tl) (hc : c < ncols) (hn : ncols + 1 < 2147483648)
    (hrows : col.length < 2147483648) (hfit : recLenFx lay cplx col < 2147483648)
    (hnb : lay = .nonbigmat → col.length < 65536) :
    (recOfFx e lay cplx c col s tl).Good e lay cplx ncols := by
  cases lay
  · exact recOf_good' e .dense cplx ncols c col s tl h hc hn hrows hfit (by simp)
  · exact recOf_good' e .bigmat cplx ncols c col s tl h hc hn hrows hfit (by simp)
  · rw [recLen_sparseFx cplx col s tl h] at hfit
    refine ⟨hc, by simp only [recOfFx]; omega, by simp only [recOfFx]; omega, by simp only [recOfFx]; omega, ?_⟩
    intro tail
    simp only [recOfFx, bodyOf, Int.toNat_natCast]
    exact rdStringsNonbig_enc e cplx _ tail (stringsFx_rows cplx col (hnb rfl)) _ (strings_length_le cplx _).1

theorem recsOfFx_good' (e : Endian) (lay : Layout) (cplx : Bool) (ncols rows : Nat) (hn : ncols + 1 < 2147483648)
    (hrows : rows < 2147483648) (hnb : lay = .nonbigmat → rows < 65536) :
    ∀ (cols : List (List Entry)) (c : Nat), c + cols.length ≤ ncols → (∀ col ∈ cols, col.length = rows) →
      (∀ col ∈ cols, recLenFx lay cplx col < 2147483648) →
      ∀ rc ∈ recsOfFx e lay cplx c cols, rc.Good e lay cplx ncols := by
  intro cols
  induction cols with
  | nil => intro c _ _ _ rc hrc; simp [recsOfFx] at hrc
  | cons col t ih =>
    intro c hc hl hfit rc hrc
    have hcl := hl col (List.mem_cons_self)
    have iht := ih (c + 1) (by simp at hc ⊢; omega) (fun x hx => hl x (List.mem_cons_of_mem _ hx))
      (fun x hx => hfit x (List.mem_cons_of_mem _ hx))
    unfold recsOfFx at hrc
    split at hrc
    · exact iht rc hrc
    · next s tl h =>
      rcases List.mem_cons.1 hrc with rfl | hrc
      · exact recOfFx_good' e lay cplx ncols c col s tl h (by simp at hc; omega) hn (by omega)
          (hfit col List.mem_cons_self) (fun hh => by have := hnb hh; omega)
      · exact iht rc hrc

theorem recsOfFx_eq_nil_iff (e : Endian) (lay : Layout) (cplx : Bool) :
    ∀ (cols : List (List Entry)) (c : Nat), recsOfFx e lay cplx c cols = [] ↔ ∀ col ∈ cols, nzIdx cplx col = [] := by
  intro cols
  induction cols with
  | nil => intro c; simp [recsOfFx]
  | cons col t ih =>
    intro c
    unfold recsOfFx
    split
    · next h => rw [ih (c + 1)]; simp [h]
    · next s tl h => simp [h]

/-- `rdMatrix` on the words of a written matrix, with layout and `sparse=None` resolution explicit -/
theorem rdMatrix_encFx' (e : Endian) (lay : Layout) (m : Mat) (rest ws : List Nat) (hwf : m.WfDFx lay)
    (hnb : lay = .nonbigmat → m.rows < 65536) (henc : encMatWordsFx e lay m = some ws) :
    rdMatrix e (ws ++ rest) =
      some ({ rawName := nameField m.name,
              rows := if lay = .bigmat then -(m.rows : Int) else (m.rows : Int),
              cols := (m.cols.length : Int), form := (m.form : Int), mtype := (mtypeOf m.cplx : Int),
              layout := layOf lay m, sparseAuto := autoOf lay m,
              puts := (recsOfFx e lay m.cplx 0 m.cols).flatMap Rec.outPuts }, rest) := by
  rw [encMatWordsFx_eq e lay m ws henc]
  obtain ⟨n0, n1, hn01, hname⟩ := name_words e m.name hwf.name_lt
  have hgood := recsOfFx_good' e lay m.cplx m.cols.length m.rows hwf.ncols_lt hwf.rows_lt hnb m.cols 0
    (by omega) hwf.cols_len hwf.recs_fit
  have hrows : ofI32 (i32 (if (lay == .bigmat) = true then -(m.rows : Int) else (m.rows : Int)))
      = if lay = .bigmat then -(m.rows : Int) else (m.rows : Int) := by
    have := hwf.rows_lt
    rw [ofI32_i32]
    · cases lay <;> simp
    · split <;> omega
    · split <;> omega
  have hmt := mtype_cases m.cplx
  have hncols := ofI32_small m.cols.length (by have := hwf.ncols_lt; omega)
  have hform := ofI32_small m.form hwf.form_lt
  obtain ⟨d0, d1, hd01⟩ := dWords_two e sqrt2Bits
  have hnil := recsOfFx_eq_nil_iff e lay m.cplx m.cols 0
  generalize hrecs : recsOfFx e lay m.cplx 0 m.cols = recs at hgood hnil
  cases recs with
  | nil =>
    have hz := hnil.1 rfl
    simp only [headerWords, hdrReclen, hn01, trailerWords, hd01, List.flatMap_nil, List.nil_append, List.cons_append,
      List.append_assoc, rdMatrix, hrows, hmt.1, hmt.2.1, if_false, hncols, hform, hmt.2.2]
    rw [ofI32_small (m.cols.length + 1) hwf.ncols_lt]
    have hc0 : ((m.cols.length + 1 : Nat) : Int) - 1 = (m.cols.length : Int) := by omega
    rw [hc0]
    simp only [List.length_append, List.length_cons, rdCols_succ, Int.lt_irrefl, if_false, hname]
    -- the reader chosen for an all-zero matrix
    have hch : chooseLayout (if lay = .bigmat then -(m.rows : Int) else (m.rows : Int)) (ofI32 1)
        (decide ((m.cols.length : Int) ≥ (m.cols.length : Int))) = (layOf lay m, autoOf lay m) := by
      have h1 : ofI32 1 = 1 := by decide
      rw [h1]
      unfold chooseLayout layOf
      cases lay
      · simp [autoOf]
      · by_cases hr : 0 < m.rows
        · have : (-(m.rows : Int) < 0) := by omega
          simp [autoOf, hr, this]
        · have hr0 : m.rows = 0 := by omega
          simp [autoOf, hr0]
      · have : autoOf .nonbigmat m = false := (autoOf_nonbigmat_false m).2 hz
        simp [this]
    rw [hch]
    rfl
  | cons hd t =>
    have hg := hgood hd (List.mem_cons_self)
    have hgt : ∀ rc ∈ t, rc.Good e lay m.cplx m.cols.length := fun x hx => hgood x (List.mem_cons_of_mem _ hx)
    simp only [headerWords, hdrReclen, hn01, trailerWords, hd01, List.flatMap_cons, Rec.words, List.nil_append,
      List.cons_append, List.append_assoc, rdMatrix, hrows, hmt.1, hmt.2.1, if_false, hncols, hform, hmt.2.2]
    rw [ofI32_small _ hg.hc31, ofI32_small _ hg.hr31, ofI32_small _ hg.hnw31]
    have hc0 : ((hd.c + 1 : Nat) : Int) - 1 = (hd.c : Int) := by omega
    rw [hc0]
    have hcge : decide ((hd.c : Int) ≥ (m.cols.length : Int)) = false := by
      have := hg.hc; simp; omega
    have hr := recsOfFx_r e lay m.cplx m.cols 0 hd (by rw [hrecs]; exact List.mem_cons_self)
    obtain ⟨col, hcol, hlen⟩ := recsOfFx_ne_nil e lay m.cplx m.cols 0 (by rw [hrecs]; simp)
    have hrows_pos : 0 < m.rows := by rw [← hwf.cols_len col hcol]; exact hlen
    have hnz : ¬ ∀ col ∈ m.cols, nzIdx m.cplx col = [] := fun hh => by
      have := hnil.2 hh; cases this
    have hauto : autoOf lay m = decide (lay ≠ .dense) := by
      cases lay
      · simp [autoOf]
      · simp [autoOf, hrows_pos]
      · have : autoOf .nonbigmat m ≠ false := fun hh => hnz ((autoOf_nonbigmat_false m).1 hh)
        simpa using this
    have hch : chooseLayout (if lay = Layout.bigmat then -(m.rows : Int) else (m.rows : Int)) (hd.r : Int) false
        = (layOf lay m, autoOf lay m) := by
      have h1 := chooseLayout_col lay m.rows hd.r hrows_pos hnb hr.1 hr.2
      unfold layOf
      rw [hauto]
      cases lay
      · have := hr.1 rfl
        simp [chooseLayout, this]
      · have := hr.2 (by simp)
        simp [chooseLayout, this, hrows_pos]
      · have := hr.2 (by simp)
        have hlt := hnb rfl
        have h3 : ¬ ((m.rows : Int) < 0 ∨ (65536 : Int) ≤ (m.rows : Int)) := by omega
        simp [chooseLayout, this, rows4bigmat, h3]
    rw [hcge, hch]
    rw [rdCols_chain e (layOf lay m, autoOf lay m).1 m.cplx m.cols.length hwf.ncols_lt d0 d1 20 rest t hd _ [] (by
      have := words_length_ge t
      simp only [List.length_append, List.length_cons]; omega) (by
        have : (layOf lay m, autoOf lay m).1 = lay := by
          simp only [layOf, hauto]; cases lay <;> simp
        rw [this]; exact hg) (by
        have : (layOf lay m, autoOf lay m).1 = lay := by
          simp only [layOf, hauto]; cases lay <;> simp
        rw [this]; exact hgt)]
    simp only [hname, List.nil_append]
    rfl

theorem writeMatWordsFx_ok (e : Endian) (lay : Layout) (m : Mat) (ws : List Nat)
    (h : writeMatWordsFx e lay m = .ok ws) :
    encMatWordsFx e lay m = some ws ∧ m.rows < 2147483648 ∧ m.cols.length + 1 < 2147483648 ∧ m.form < 2147483648 ∧
      ∀ col ∈ m.cols, recLenFx lay m.cplx col < 2147483648 := by
  unfold writeMatWordsFx at h
  split at h
  · cases h
  · next hdim =>
    split at h
    · next hfit =>
      obtain ⟨h1, h2, h3⟩ := hfit
      cases henc : encMatWordsFx e lay m with
      | none => rw [henc] at h; cases h
      | some ws' =>
        rw [henc] at h
        simp only [Except.ok.injEq] at h
        subst h
        refine ⟨rfl, by omega, h2, h1, ?_⟩
        intro col hcol
        have := (List.all_eq_true.1 h3) col hcol
        simpa using this
    · cases h

/-! ### whole files on the true domain -/

/-- what `d` must be for the matrix `p.2` written in layout `p.1`: `DecOf` with the puts, the column reader and
the `sparse=None` resolution explicit -/
def DecOfXFx (e : Endian) (p : Layout × Mat) (d : Dec) : Prop :=
  DecOf p d ∧ d.layout = layOf p.1 p.2 ∧ d.sparseAuto = autoOf p.1 p.2 ∧
    d.puts = (recsOfFx e p.1 p.2.cplx 0 p.2.cols).flatMap Rec.outPuts

theorem rdMatrix_decOfXFx (e : Endian) (lay : Layout) (m : Mat) (rest ws : List Nat) (hwf : m.WfDFx lay)
    (hnb : lay = .nonbigmat → m.rows < 65536) (henc : encMatWordsFx e lay m = some ws) :
    ∃ d, rdMatrix e (ws ++ rest) = some (d, rest) ∧ DecOfXFx e (lay, m) d := by
  have h := rdMatrix_encFx' e lay m rest ws hwf hnb henc
  refine ⟨_, h, ⟨rfl, rfl, rfl, rfl, rfl, ?_⟩, rfl, rfl, rfl⟩
  have := applyPuts_recsFx e lay m.cplx m.rows m.cols [] hwf.cols_len
  simpa [applyPuts_eq] using this

theorem rdFile_encXFx (e : Endian) :
    ∀ (ms : List (Layout × Mat)) (ws : List Nat) (fuel : Nat), encFileWordsFx e ms = some ws → ms.length < fuel →
      (∀ p ∈ ms, p.2.WfDFx p.1 ∧ (p.1 = .nonbigmat → p.2.rows < 65536)) →
      ∃ ds, rdFile e fuel ws = some ds ∧ List.Forall₂ (DecOfXFx e) ms ds := by
  intro ms
  induction ms with
  | nil =>
    intro ws fuel h _ _
    simp only [encFileWordsFx, Option.some.injEq] at h
    subst h
    exact ⟨[], by cases fuel <;> rfl, List.Forall₂.nil⟩
  | cons p t ih =>
    intro ws fuel h hf hall
    obtain ⟨lay, m⟩ := p
    simp only [encFileWordsFx] at h
    cases ha : encMatWordsFx e lay m with
    | none => simp [ha] at h
    | some a =>
      cases hb : encFileWordsFx e t with
      | none => simp [ha, hb] at h
      | some b =>
        simp only [ha, hb, Option.bind_eq_bind, Option.bind_some, Option.some.injEq] at h
        subst h
        obtain ⟨f, rfl⟩ : ∃ f, fuel = f + 1 := ⟨fuel - 1, by simp at hf; omega⟩
        have hp := hall (lay, m) (List.mem_cons_self)
        obtain ⟨d, hd, hdec⟩ := rdMatrix_decOfXFx e lay m b a hp.1 hp.2 ha
        obtain ⟨ds, hds, hall2⟩ := ih b f hb (by simp at hf; omega) (fun q hq => hall q (List.mem_cons_of_mem _ hq))
        have hne := encMatWordsFx_ne_nil e lay m a ha
        refine ⟨d :: ds, ?_, List.Forall₂.cons hdec hall2⟩
        cases hab : a ++ b with
        | nil => simp at hab; exact absurd hab.1 hne
        | cons w ws' =>
          rw [← hab]
          have : rdFile e (f + 1) (a ++ b) = match rdMatrix e (a ++ b) with
              | some (d, rest) => (rdFile e f rest).map (d :: ·)
              | none => none := by
            rw [hab]; rfl
          rw [this, hd]
          simp only [hds, Option.map_some]

theorem writeFileWordsFx_ok (e : Endian) :
    ∀ (ms : List (Layout × Mat)) (ws : List Nat), writeFileWordsFx e ms = .ok ws →
      encFileWordsFx e ms = some ws ∧ ∀ p ∈ ms, p.2.rows < 2147483648 ∧ p.2.cols.length + 1 < 2147483648 ∧
        p.2.form < 2147483648 ∧ ∀ col ∈ p.2.cols, recLenFx p.1 p.2.cplx col < 2147483648 := by
  intro ms
  induction ms with
  | nil =>
    intro ws h
    simp only [writeFileWordsFx, Except.ok.injEq] at h
    subst h
    exact ⟨rfl, fun p hp => by cases hp⟩
  | cons p t ih =>
    intro ws h
    obtain ⟨lay, m⟩ := p
    simp only [writeFileWordsFx] at h
    cases ha : writeMatWordsFx e lay m with
    | error err => rw [ha] at h; cases h
    | ok a =>
      cases hb : writeFileWordsFx e t with
      | error err => rw [ha, hb] at h; cases h
      | ok b =>
        rw [ha, hb] at h
        have h' : a ++ b = ws := by cases h; rfl
        subst h'
        obtain ⟨h1, h2⟩ := writeMatWordsFx_ok e lay m a ha
        obtain ⟨h3, h4⟩ := ih b hb
        refine ⟨by simp [encFileWordsFx, h1, h3], ?_⟩
        intro q hq
        rcases List.mem_cons.1 hq with rfl | hq
        · exact h2
        · exact h4 q hq

/-! ### 32-bit words on the true domain, patched writer (`recOfFx_lt32'` by hand, the rest a GENERATED copy of
Lemmas/Op4Domain.lean lines 376-463 with the renames above and `stringsFit ↦ stringsFitFx`, `Mat.WfDB ↦ Mat.WfDBFx`) -/

theorem mem_stringsFx' (cplx : Bool) (col : List Entry) (s : Nat × List Entry) (hs : s ∈ stringsFx cplx col) :
    ∀ x ∈ s.2, x ∈ col := by
  simp only [stringsFx_eq, List.mem_map] at hs
  obtain ⟨q, _, rfl⟩ := hs
  intro x hx
  exact List.mem_of_mem_drop (List.mem_of_mem_take hx)

theorem recOfFx_lt32' (e : Endian) (lay : Layout) (cplx : Bool) (c : Nat) (col : List Entry) (s : Nat) (tl : List Nat)
    (h : nzIdx cplx col = s :: tl) (hc : c + 1 < 2147483648) (hrows : col.length < 2147483648)
    (hrec : recLenFx lay cplx col < 2147483648)
    (h64 : ∀ x ∈ col, Entry.Is64 x) (hfit : lay = .nonbigmat → stringsFitFx cplx col = true) :
    Lt32 (recOfFx e lay cplx c col s tl).words := by
  cases lay
  · exact recOf_lt32' e .dense cplx c col s tl h hc hrows hrec h64 (by simp)
  · exact recOf_lt32' e .bigmat cplx c col s tl h hc hrows hrec h64 (by simp)
  · rw [recLen_sparseFx cplx col s tl h] at hrec
    simp only [recOfFx, Rec.words]
    refine Lt32.cons (by omega) (Lt32.cons (by omega) (Lt32.cons (by omega) (Lt32.cons (by omega)
      (Lt32.append (Lt32.flatMap _ _ ?_) (Lt32.cons (by omega) Lt32.nil)))))
    intro s' hs'
    have h3 := mem_stringsFx' cplx col s' hs'
    have hf := hfit rfl
    unfold stringsFitFx at hf
    have := (List.all_eq_true.1 hf) s' hs'
    simp only [fitsI32, decide_eq_true_eq] at this
    simp only [nonbigStringWords]
    exact Lt32.cons (by omega) (valWords_lt e cplx _ fun x hx => h64 x (h3 x hx))

theorem recsOfFx_lt32' (e : Endian) (lay : Layout) (cplx : Bool) (ncols rows : Nat) (hn : ncols + 1 < 2147483648)
    (hrows : rows < 2147483648) :
    ∀ (cols : List (List Entry)) (c : Nat), c + cols.length ≤ ncols → (∀ col ∈ cols, col.length = rows) →
      (∀ col ∈ cols, recLenFx lay cplx col < 2147483648) →
      (∀ col ∈ cols, ∀ x ∈ col, Entry.Is64 x) → (lay = .nonbigmat → cols.all (stringsFitFx cplx) = true) →
      Lt32 ((recsOfFx e lay cplx c cols).flatMap Rec.words) := by
  intro cols
  induction cols with
  | nil => intro c _ _ _ _ _; simp [recsOfFx]; exact Lt32.nil
  | cons col t ih =>
    intro c hc hl hrec h64 hfit
    have iht := ih (c + 1) (by simp at hc ⊢; omega) (fun x hx => hl x (List.mem_cons_of_mem _ hx))
      (fun x hx => hrec x (List.mem_cons_of_mem _ hx))
      (fun x hx => h64 x (List.mem_cons_of_mem _ hx))
      (fun hh => by have := hfit hh; simp only [List.all_cons, Bool.and_eq_true] at this; exact this.2)
    unfold recsOfFx
    split
    · exact iht
    · next s tl h =>
      simp only [List.flatMap_cons]
      apply Lt32.append _ iht
      apply recOfFx_lt32' e lay cplx c col s tl h (by simp at hc; omega)
        (by rw [hl col List.mem_cons_self]; exact hrows) (hrec col List.mem_cons_self) (h64 col List.mem_cons_self)
      intro hh
      have := hfit hh
      simp only [List.all_cons, Bool.and_eq_true] at this
      exact this.1

/-- the byte-level domain: the writer's domain, a valid name, 64-bit patterns -/
structure Mat.WfDBFx (lay : Layout) (m : Mat) : Prop where
  wf : m.WfDFx lay
  name_ident : isIdent m.name = true
  name_len : m.name.length ≤ 8
  is64 : ∀ col ∈ m.cols, ∀ x ∈ col, Entry.Is64 x

theorem encMatWordsFx_lt32' (e : Endian) (lay : Layout) (m : Mat) (ws : List Nat) (hwf : m.WfDBFx lay)
    (henc : encMatWordsFx e lay m = some ws) : Lt32 ws := by
  rw [encMatWordsFx_eq e lay m ws henc]
  have hn := hwf.wf.ncols_lt
  have hform := hwf.wf.form_lt
  have hfit : lay = .nonbigmat → m.cols.all (stringsFitFx m.cplx) = true := by
    intro hh
    subst hh
    simp only [encMatWordsFx] at henc
    split at henc
    · assumption
    · cases henc
  apply Lt32.append
  · simp only [headerWords, hdrReclen]
    have hmt : mtypeOf m.cplx < 4294967296 := by cases m.cplx <;> simp [mtypeOf]
    exact Lt32.append (Lt32.append
      (Lt32.cons (by omega) (Lt32.cons (by omega) (Lt32.cons (i32_lt _) (Lt32.cons (by omega) (Lt32.cons hmt Lt32.nil)))))
      (wordsOfBytes_lt e _ (nameField_lt m.name hwf.wf.name_lt)))
      (Lt32.cons (by omega) Lt32.nil)
  · apply Lt32.append
    · exact recsOfFx_lt32' e lay m.cplx m.cols.length m.rows hn hwf.wf.rows_lt m.cols 0 (by omega) hwf.wf.cols_len
        hwf.wf.recs_fit hwf.is64 hfit
    · simp only [trailerWords]
      exact Lt32.append (Lt32.append
        (Lt32.cons (by omega) (Lt32.cons (by omega) (Lt32.cons (by omega) (Lt32.cons (by omega) Lt32.nil))))
        (dWords_lt e sqrt2Bits (by decide))) (Lt32.cons (by omega) Lt32.nil)

theorem encFileWordsFx_lt32' (e : Endian) :
    ∀ (ms : List (Layout × Mat)) (ws : List Nat), (∀ p ∈ ms, p.2.WfDBFx p.1) → encFileWordsFx e ms = some ws → Lt32 ws := by
  intro ms
  induction ms with
  | nil => intro ws _ h; simp only [encFileWordsFx, Option.some.injEq] at h; subst h; exact Lt32.nil
  | cons p t ih =>
    intro ws hall h
    obtain ⟨lay, m⟩ := p
    simp only [encFileWordsFx] at h
    cases ha : encMatWordsFx e lay m with
    | none => simp [ha] at h
    | some a =>
      cases hb : encFileWordsFx e t with
      | none => simp [ha, hb] at h
      | some b =>
        simp only [ha, hb, Option.bind_eq_bind, Option.bind_some, Option.some.injEq] at h
        subst h
        exact Lt32.append (encMatWordsFx_lt32' e lay m a (hall (lay, m) List.mem_cons_self) ha)
          (ih b (fun q hq => hall q (List.mem_cons_of_mem _ hq)) hb)

theorem decsOf_of_XFx (e : Endian) : ∀ (ms : List (Layout × Mat)) (ds : List Dec),
    List.Forall₂ (DecOfXFx e) ms ds → DecsOf ms ds := by
  intro ms ds h
  induction h with
  | nil => exact DecsOf.nil
  | cons h1 _ ih => exact DecsOf.cons h1.1 ih

end PyYetiVerif.Op4
