import PyYetiVerif.Lemmas.Op4AsciiDir
import PyYetiVerif.Lemmas.Op4Coo
/-! C04: the `sparse=True` triplets and the `sparse=None` resolution of the ASCII reader on written files. -/
namespace PyYetiVerif.Op4A
open PyYetiVerif.Op4 PyYetiVerif.Generated.Op4Consts List

/-- the triplets `sparse=True` returns for the columns `cols` of an ASCII file: as `cooList`, the value being the
printed decimal(s) of the stored element -/
def cooListA (d : Nat) (lay : Layout) (cplx : Bool) : Nat → List (List Entry) → List (Nat × Nat × AEntry)
  | _, [] => []
  | c, col :: t =>
    ((storedIdx lay cplx col).map fun r => (r, c, aEntry d cplx (col.getD r (0, 0)))) ++ cooListA d lay cplx (c + 1) t

theorem cooOfPutsA_cons (p : APut) (t : List APut) :
    cooOfPutsA (p :: t) = (((List.range p.2.2.length).zip p.2.2).map fun (i, x) => (p.1 + i, p.2.1, x)) ++ cooOfPutsA t := by
  simp [cooOfPutsA]

theorem cooOfPutsA_append (a b : List APut) : cooOfPutsA (a ++ b) = cooOfPutsA a ++ cooOfPutsA b := by
  simp [cooOfPutsA]

theorem putA_slice (d : Nat) (cplx : Bool) (c : Nat) (col : List Entry) (r0 n : Nat) (h : r0 + n ≤ col.length) :
    (((List.range (((col.drop r0).take n).map (aEntry d cplx)).length).zip (((col.drop r0).take n).map (aEntry d cplx))).map
        fun (i, x) => (r0 + i, c, x)) =
      (List.range' r0 n).map fun r => (r, c, aEntry d cplx (col.getD r (0, 0))) := by
  apply List.ext_getElem
  · simp; omega
  · intro i h1 h2
    have hi : i < n := by simpa using h2
    simp only [List.getElem_map, List.getElem_zip, List.getElem_range, List.getElem_take,
      List.getElem_drop, List.getElem_range', Nat.one_mul]
    have : col.getD (r0 + i) (0, 0) = col[r0 + i]'(by omega) := by
      rw [List.getD_eq_getElem?_getD, List.getElem?_eq_getElem (by omega)]; rfl
    rw [this]

theorem arecOf_coo (d : Nat) (lay : Layout) (cplx : Bool) (c : Nat) (col : List Entry) (s : Nat) (tl : List Nat)
    (h : nzIdx cplx col = s :: tl) :
    cooOfPutsA (arecOf d lay cplx c col s tl).outPuts =
      (storedIdx lay cplx col).map fun r => (r, c, aEntry d cplx (col.getD r (0, 0))) := by
  have hlast_mem : (s :: tl).getLast (by simp) ∈ nzIdx cplx col := by rw [h]; exact List.getLast_mem _
  obtain ⟨x, hx, _⟩ := (mem_nzIdx _ _ _).1 hlast_mem
  have hlast_lt := (List.getElem?_eq_some_iff.1 hx).1
  have hsorted := (nzIdxFrom_sorted cplx col 0).1
  have hs_le : s ≤ (s :: tl).getLast (by simp) := by
    have := (sorted_bounds (nzIdx cplx col) (by rw [h]; simp) hsorted s (by rw [h]; exact List.mem_cons_self)).2
    simpa [h] using this
  have hsparse : cooOfPutsA (((strings cplx col).map fun s => (s.1, s.2.map (aEntry d cplx))).map
        fun s => ((s.1, c, s.2) : APut)) =
      (nzIdx cplx col).map fun r => (r, c, aEntry d cplx (col.getD r (0, 0))) := by
    rw [← flatMap_runs (fun r => (r, c, aEntry d cplx (col.getD r (0, 0)))) (nzIdx cplx col)]
    simp only [strings, List.map_map, cooOfPutsA]
    rw [List.flatMap_map]
    apply flatMap_congr'
    intro q hq
    have hr := run_in_range cplx col q hq
    have := putA_slice d cplx c col q.1 q.2 hr
    simpa [Function.comp_def] using this
  cases lay
  · simp only [arecOf, ARec.outPuts, storedIdx, h, List.map_cons, List.map_nil, cooOfPutsA_cons]
    have := putA_slice d cplx c col s ((s :: tl).getLast (by simp) - s + 1) (by omega)
    simp only [cooOfPutsA, List.flatMap_nil, List.append_nil]
    simpa [denseSeg] using this
  · simp only [arecOf, ARec.outPuts, storedIdx]
    exact hsparse
  · simp only [arecOf, ARec.outPuts, storedIdx]
    exact hsparse

/-- the triplets of the sparse read of an ASCII file, for the puts of a written matrix -/
theorem arecsOf_coo (d : Nat) (lay : Layout) (cplx : Bool) : ∀ (cols : List (List Entry)) (c : Nat),
    cooOfPutsA ((arecsOf d lay cplx c cols).flatMap ARec.outPuts) = cooListA d lay cplx c cols := by
  intro cols
  induction cols with
  | nil => intro c; rfl
  | cons col t ih =>
    intro c
    unfold arecsOf cooListA
    split
    · next hz => rw [ih (c + 1), storedIdx_zero lay cplx col hz]; rfl
    · next s tl hnz =>
      rw [List.flatMap_cons, cooOfPutsA_append, ih (c + 1), arecOf_coo d lay cplx c col s tl hnz]

/-! ### the reader chosen and `sparse=None` -/

theorem chooseLayout_allzero (lay : Layout) (m : Mat) (hz : ∀ col ∈ m.cols, nzIdx m.cplx col = []) :
    chooseLayout (if lay = .bigmat then -(m.rows : Int) else (m.rows : Int)) 1 true = (layOf lay m, autoOf lay m) := by
  unfold chooseLayout layOf
  cases lay
  · simp [autoOf]
  · by_cases hr : 0 < m.rows
    · have : (-(m.rows : Int) < 0) := by omega
      simp [autoOf, hr, this]
    · have hr0 : m.rows = 0 := by omega
      simp [autoOf, hr0]
  · have : autoOf .nonbigmat m = false := (autoOf_nonbigmat_false m).2 hz
    simp [this]

theorem chooseLayout_first (lay : Layout) (m : Mat) (r : Nat) (hpos : 0 < m.rows)
    (hnb : lay = .nonbigmat → m.rows < 65536) (h1 : lay = .dense → 0 < r) (h2 : lay ≠ .dense → r = 0)
    (hnz : ¬ ∀ col ∈ m.cols, nzIdx m.cplx col = []) :
    chooseLayout (if lay = .bigmat then -(m.rows : Int) else (m.rows : Int)) (r : Int) false
        = (layOf lay m, autoOf lay m) ∧ layOf lay m = lay := by
  have hauto : autoOf lay m = decide (lay ≠ .dense) := by
    cases lay
    · simp [autoOf]
    · simp [autoOf, hpos]
    · have : autoOf .nonbigmat m ≠ false := fun hh => hnz ((autoOf_nonbigmat_false m).1 hh)
      simpa using this
  have hlay : layOf lay m = lay := by
    simp only [layOf, hauto]; cases lay <;> simp
  refine ⟨?_, hlay⟩
  rw [hlay, hauto]
  cases lay
  · have := h1 rfl
    simp [chooseLayout, this]
  · have := h2 (by simp)
    simp [chooseLayout, this, hpos]
  · have := h2 (by simp)
    have hlt := hnb rfl
    have h3 : ¬ ((m.rows : Int) < 0 ∨ (65536 : Int) ≤ (m.rows : Int)) := by omega
    simp [chooseLayout, this, rows4bigmat, h3]
    exact hlt

theorem arecsOf_eq_nil_iff (d : Nat) (lay : Layout) (cplx : Bool) :
    ∀ (cols : List (List Entry)) (c : Nat), arecsOf d lay cplx c cols = [] ↔ ∀ col ∈ cols, nzIdx cplx col = [] := by
  intro cols
  induction cols with
  | nil => intro c; simp [arecsOf]
  | cons col t ih =>
    intro c
    unfold arecsOf
    split
    · next h => rw [ih (c + 1)]; simp [h]
    · next s tl h => simp [h]

/-- `_loadop4_ascii` on the lines of a written matrix, with the reader chosen and `sparse=None` explicit -/
theorem rdMatrixA_encX (dformat : Bool) (d : Nat) (hd : 1 ≤ d) (hp : 1 ≤ perline d) (lay : Layout) (m : Mat)
    (hwf : WfA m) (hnb : lay = .nonbigmat → m.rows < 65536)
    (hfit : ∀ col ∈ m.cols, ∀ x ∈ col, ∀ b ∈ entryDs m.cplx x, Fits d b) (rest : List Str) :
    rdMatrixA dformat (matLines d lay m ++ rest) =
      some (some ({ rawName := nameStr m.name,
                    rows := if lay = .bigmat then -(m.rows : Int) else (m.rows : Int),
                    cols := (m.cols.length : Int), form := (m.form : Int), mtype := (mtypeOf m.cplx : Int),
                    perline := perline d, numlen := numlen d, layout := layOf lay m, sparseAuto := autoOf lay m,
                    puts := (arecsOf d lay m.cplx 0 m.cols).flatMap ARec.outPuts }, rest)) := by
  have hgc := goodCfg_of_mtype dformat d m.cplx
  have hrowsb : 6 * m.rows < 10 ^ 8 := hwf.rows_lt
  have hgood := arecsOf_good _ d m.cplx hgc hd hp lay m.cols.length m.rows hwf.ncols_lt hrowsb hnb m.cols 0
    (by omega) hwf.cols_len hfit
  have hnfit : IntFits 8 ((m.cols.length + 1 : Nat) : Int) := intFits_nat 8 _ (by omega) hwf.ncols_lt
  have hrows_eq : (hdrOf d m (lay == .bigmat)).rows = if lay = .bigmat then -(m.rows : Int) else (m.rows : Int) := by
    cases lay <;> simp [hdrOf]
  have hnil := arecsOf_eq_nil_iff d lay m.cplx m.cols 0
  unfold matLines
  simp only [List.cons_append, rdMatrixA, rdHeader_asciiHeader d m _ hwf hp]
  generalize hrecs : arecsOf d lay m.cplx 0 m.cols = recs at hgood hnil
  cases recs with
  | nil =>
    have hz := hnil.1 rfl
    simp only [List.flatMap_nil, List.nil_append, List.cons_append, trailerHead,
      colHead_intLine3 _ _ _ hnfit intFits_one]
    have hc0 : ((m.cols.length + 1 : Nat) : Int) - 1 = (m.cols.length : Int) := by omega
    rw [hc0]
    have hge : decide ((m.cols.length : Int) ≥ (hdrOf d m (lay == .bigmat)).cols) = true := by simp [hdrOf]
    rw [hge, hrows_eq, chooseLayout_allzero lay m hz]
    have hcols : (hdrOf d m (lay == .bigmat)).cols = (m.cols.length : Int) := rfl
    cases hl : layOf lay m
    · simp only [hcols, rdDense_succ, Int.lt_irrefl, if_false, List.drop_one, List.tail_cons]
      rfl
    · simp only [hcols, rdSparse_succ, Int.lt_irrefl, if_false, List.drop_one, List.tail_cons]
      rfl
    · simp only [hcols, rdSparse_succ, Int.lt_irrefl, if_false, List.drop_one, List.tail_cons]
      rfl
  | cons hd' t =>
    have hg := hgood hd' List.mem_cons_self
    have hgt : ∀ rc ∈ t, rc.Good _ lay m.cols.length := fun x hx => hgood x (List.mem_cons_of_mem _ hx)
    simp only [List.flatMap_cons, ARec.lines, List.cons_append, ARec.head, colHead_intLine3 _ _ _ hg.fc hg.fr]
    have hc0 : ((hd'.c + 1 : Nat) : Int) - 1 = (hd'.c : Int) := by omega
    rw [hc0]
    have hcge : decide ((hd'.c : Int) ≥ (hdrOf d m (lay == .bigmat)).cols) = false := by
      have := hg.hc; simp [hdrOf]; omega
    have hr := arecsOf_r d lay m.cplx m.cols 0 hd' (by rw [hrecs]; exact List.mem_cons_self)
    obtain ⟨col, hcol, hlen⟩ := arecsOf_ne_nil d lay m.cplx m.cols 0 (by rw [hrecs]; simp)
    have hrows_pos : 0 < m.rows := by rw [← hwf.cols_len col hcol]; exact hlen
    have hnz : ¬ ∀ col ∈ m.cols, nzIdx m.cplx col = [] := fun hh => by
      have := hnil.2 hh; cases this
    obtain ⟨hch, hlayeq⟩ := chooseLayout_first lay m hd'.r hrows_pos hnb hr.1 hr.2 hnz
    rw [hcge, hrows_eq, hch]
    have hcols : (hdrOf d m (lay == .bigmat)).cols = (m.cols.length : Int) := rfl
    have hmt : (hdrOf d m (lay == .bigmat)).mtype = (mtypeOf m.cplx : Int) := rfl
    have hpl : (hdrOf d m (lay == .bigmat)).perline = perline d := rfl
    have hnl : (hdrOf d m (lay == .bigmat)).numlen = numlen d := rfl
    have hfuel : t.length + 2 ≤ (hd'.body ++ (t.flatMap ARec.lines ++
        (trailerHead m.cols.length :: (fmtE d sqrt2Bits ++ ['\n']) :: rest))).length + 1 := by
      have := lines_length_ge t
      simp only [List.length_append, List.length_cons]; omega
    simp only [hlayeq]
    cases lay with
    | dense =>
      have hch := rdDense_chain _ m.cols.length hnfit ((fmtE d sqrt2Bits ++ ['\n']) :: rest) t hd' _ [] hfuel hg hgt
      simp only [hcols, hmt, hpl, hnl, ARec.head, List.append_assoc, List.cons_append, List.nil_append] at hch ⊢
      rw [hch]
      simp only [List.drop_one, List.tail_cons, List.nil_append]
      rfl
    | bigmat =>
      have hch := rdSparse_chain _ true m.cols.length hnfit ((fmtE d sqrt2Bits ++ ['\n']) :: rest) t hd' _ [] hfuel hg hgt
      simp only [hcols, hmt, hpl, hnl, ARec.head, List.append_assoc, List.cons_append, List.nil_append] at hch ⊢
      rw [hch]
      simp only [List.drop_one, List.tail_cons, List.nil_append]
      rfl
    | nonbigmat =>
      have hch := rdSparse_chain _ false m.cols.length hnfit ((fmtE d sqrt2Bits ++ ['\n']) :: rest) t hd' _ [] hfuel hg hgt
      simp only [hcols, hmt, hpl, hnl, ARec.head, List.append_assoc, List.cons_append, List.nil_append] at hch ⊢
      rw [hch]
      simp only [List.drop_one, List.tail_cons, List.nil_append]
      rfl

/-- what `a` must be, with the sparse views: `ADecOf` plus the triplets, the reader and `sparse=None` -/
def ADecOfX (d : Nat) (p : Layout × Mat) (a : ADec) : Prop :=
  ADecOf d p a ∧ a.layout = layOf p.1 p.2 ∧ a.sparseAuto = autoOf p.1 p.2 ∧
    cooOfPutsA a.puts = cooListA d p.1 p.2.cplx 0 p.2.cols

theorem rdFileA_encX (dformat : Bool) (d : Nat) (hd : 1 ≤ d) (hp : 1 ≤ perline d) :
    ∀ (ms : List (Layout × Mat)) (fuel : Nat), ms.length + 1 ≤ fuel → (∀ p ∈ ms, MatOK d p) →
      ∃ ds, rdFileA dformat fuel (ms.flatMap fun p => matLines d p.1 p.2) = some ds ∧ Forall₂ (ADecOfX d) ms ds := by
  intro ms
  induction ms with
  | nil =>
    intro fuel hf _
    obtain ⟨f, rfl⟩ : ∃ f, fuel = f + 1 := ⟨fuel - 1, by simp at hf; omega⟩
    exact ⟨[], by simp [rdFileA, rdMatrixA], Forall₂.nil⟩
  | cons p t ih =>
    intro fuel hf hok
    obtain ⟨f, rfl⟩ : ∃ f, fuel = f + 1 := ⟨fuel - 1, by simp at hf; omega⟩
    obtain ⟨hwf, hnb⟩ := hok p List.mem_cons_self
    have hm := rdMatrixA_encX dformat d hd hp p.1 p.2 hwf hnb (fun _ _ _ _ b _ => fits_all d b hd) (t.flatMap fun p => matLines d p.1 p.2)
    obtain ⟨ds, hds, hrel⟩ := ih f (by simp at hf ⊢; omega) (fun q hq => hok q (List.mem_cons_of_mem _ hq))
    refine ⟨{ rawName := nameStr p.2.name,
              rows := if p.1 = .bigmat then -(p.2.rows : Int) else (p.2.rows : Int),
              cols := (p.2.cols.length : Int), form := (p.2.form : Int), mtype := (mtypeOf p.2.cplx : Int),
              perline := perline d, numlen := numlen d, layout := layOf p.1 p.2, sparseAuto := autoOf p.1 p.2,
              puts := (arecsOf d p.1 p.2.cplx 0 p.2.cols).flatMap ARec.outPuts } :: ds, ?_,
      Forall₂.cons ⟨⟨rfl, rfl, rfl, rfl, rfl, rfl, rfl,
        applyPutsA_recs d p.1 p.2.cplx p.2.rows p.2.cols hwf.cols_len⟩, rfl, rfl, arecsOf_coo d p.1 p.2.cplx p.2.cols 0⟩ hrel⟩
    simp only [List.flatMap_cons, rdFileA, hm, hds, Option.map_some]

theorem loadAscii_encX (d : Nat) (hd : 1 ≤ d) (hp : 1 ≤ perline d) (ms : List (Layout × Mat)) (hne : ms ≠ [])
    (hok : ∀ p ∈ ms, MatOK d p) :
    ∃ ds, loadAscii (encFileAscii d ms) = some ds ∧ Forall₂ (ADecOfX d) ms ds := by
  have hlines := (encFileAscii_isLines d hp ms fun p hp' => (hok p hp').1).eq
  cases ms with
  | nil => exact absurd rfl hne
  | cons p t =>
    unfold loadAscii
    rw [isAsciiFile_enc d p t (hok p List.mem_cons_self).1, if_pos rfl, hlines]
    apply rdFileA_encX _ d hd hp (p :: t) _ _ hok
    have := flatMap_length_ge (fun p : Layout × Mat => matLines d p.1 p.2) (p :: t)
      (fun q _ => matLines_ne_nil d q.1 q.2)
    omega

end PyYetiVerif.Op4A
