import PyYetiVerif.Lemmas.SuCoefCoupled
import Mathlib.Data.Matrix.Block
import Mathlib.LinearAlgebra.Matrix.NonsingularInverse
/-!
Helper lemmas for the coupled path of C01: the state `[v; d]`, the state matrix
`[[-M⁻¹B, -M⁻¹K], [I, 0]]` (`_build_A`), the second-order equation of motion, and the block
partitions of `ur`, `ur_inv` (`_add_partition_copies`) as Mathlib matrices.
-/
namespace PyYetiVerif.SuCoef
open Matrix PyYetiVerif.C01

set_option linter.unusedSectionVars false

variable {n N : ℕ}

/-- `_build_A`: `A = [[-inv(m) b, -inv(m) k], [I, 0]]`, state `[v; d]` -/
def stateA (Mi B K : Matrix (Fin n) (Fin n) ℂ) : Matrix (Fin n ⊕ Fin n) (Fin n ⊕ Fin n) ℂ :=
  fromBlocks (-(Mi * B)) (-(Mi * K)) 1 0

/-- `ur` from its partitions: rows `[:ksize]` are `ur_v`, rows `[ksize:]` are `ur_d` -/
def Eig.U (e : Eig ℂ n N) : Matrix (Fin n ⊕ Fin n) (Fin N) ℂ := Matrix.of (Sum.elim e.urV e.urD)

/-- `ur_inv` from its partitions: columns `[:ksize]` are `ur_inv_v`, columns `[ksize:]` `ur_inv_d` -/
def Eig.V (e : Eig ℂ n N) : Matrix (Fin N) (Fin n ⊕ Fin n) ℂ :=
  Matrix.of fun k => Sum.elim (e.invV k) (e.invD k)

/-- `d, v` solve `M d'' + B d' + K d = f₀ + t fs`, `d 0 = d₀`, `d' 0 = v₀` -/
structure IsSol2 (M B K : Matrix (Fin n) (Fin n) ℂ) (f0 fs d0 v0 : Fin n → ℂ)
    (d v : ℝ → Fin n → ℂ) : Prop where
  dd : ∀ t, HasDerivAt d (v t) t
  dv : ∀ t, ∃ a, HasDerivAt v a t ∧ M *ᵥ a + B *ᵥ v t + K *ᵥ d t = f0 + (t : ℂ) • fs
  d0 : d 0 = d0
  v0 : v 0 = v0

theorem stateA_mulVec (Mi B K : Matrix (Fin n) (Fin n) ℂ) (v d : Fin n → ℂ) :
    stateA Mi B K *ᵥ Sum.elim v d = Sum.elim (-(Mi *ᵥ (B *ᵥ v)) - Mi *ᵥ (K *ᵥ d)) v := by
  rw [stateA, fromBlocks_mulVec]
  congr 1
  · simp only [Sum.elim_comp_inl, Sum.elim_comp_inr, Matrix.neg_mulVec, Matrix.mulVec_mulVec]
    ring
  · simp

/-- a solution of the second-order equation gives a solution of the state equation -/
theorem IsSol2.toState {M Mi B K : Matrix (Fin n) (Fin n) ℂ} {f0 fs d0 v0 : Fin n → ℂ}
    {d v : ℝ → Fin n → ℂ} (hM : Mi * M = 1) (h : IsSol2 M B K f0 fs d0 v0 d v) :
    IsStateSol (stateA Mi B K) (Sum.elim (Mi *ᵥ f0) 0) (Sum.elim (Mi *ᵥ fs) 0) (Sum.elim v0 d0)
      (fun t => Sum.elim (v t) (d t)) := by
  refine ⟨fun t => ?_, ?_⟩
  · obtain ⟨a, ha, he⟩ := h.dv t
    have hdd := h.dd t
    rw [hasDerivAt_pi] at ha hdd ⊢
    have ea : a = -(Mi *ᵥ (B *ᵥ v t)) - Mi *ᵥ (K *ᵥ d t) + Mi *ᵥ f0 + (t : ℂ) • (Mi *ᵥ fs) := by
      have h1 : Mi *ᵥ (M *ᵥ a + B *ᵥ v t + K *ᵥ d t) = Mi *ᵥ (f0 + (t : ℂ) • fs) := by rw [he]
      rw [Matrix.mulVec_add, Matrix.mulVec_add, Matrix.mulVec_mulVec, hM, Matrix.one_mulVec,
        Matrix.mulVec_add, Matrix.mulVec_smul] at h1
      calc a = (a + Mi *ᵥ (B *ᵥ v t) + Mi *ᵥ (K *ᵥ d t)) - Mi *ᵥ (B *ᵥ v t) - Mi *ᵥ (K *ᵥ d t) := by abel
        _ = _ := by rw [h1]; abel
    rw [stateA_mulVec]
    intro i
    cases i with
    | inl j =>
      simp only [Sum.elim_inl, Pi.add_apply, Pi.smul_apply]
      have := ha j
      rw [ea] at this
      simpa using this
    | inr j =>
      simp only [Sum.elim_inr, Pi.add_apply, Pi.smul_apply, Pi.zero_apply, smul_zero, add_zero]
      exact hdd j
  · rw [h.d0, h.v0]

/-- and conversely -/
theorem IsStateSol.toSol2 {M Mi B K : Matrix (Fin n) (Fin n) ℂ} {f0 fs d0 v0 : Fin n → ℂ}
    {z : ℝ → Fin n ⊕ Fin n → ℂ} (hM : M * Mi = 1)
    (h : IsStateSol (stateA Mi B K) (Sum.elim (Mi *ᵥ f0) 0) (Sum.elim (Mi *ᵥ fs) 0) (Sum.elim v0 d0) z) :
    IsSol2 M B K f0 fs d0 v0 (fun t j => z t (Sum.inr j)) (fun t j => z t (Sum.inl j)) := by
  have hz : ∀ t, z t = Sum.elim (fun j => z t (Sum.inl j)) (fun j => z t (Sum.inr j)) := by
    intro t; funext i; cases i <;> rfl
  have hd : ∀ t i, HasDerivAt (fun t => z t i)
      ((Sum.elim (-(Mi *ᵥ (B *ᵥ fun j => z t (Sum.inl j))) - Mi *ᵥ (K *ᵥ fun j => z t (Sum.inr j)))
        (fun j => z t (Sum.inl j)) + Sum.elim (Mi *ᵥ f0) 0 + (t : ℂ) • Sum.elim (Mi *ᵥ fs) 0
          : Fin n ⊕ Fin n → ℂ) i) t := by
    intro t i
    have := h.deriv t
    rw [hasDerivAt_pi] at this
    have h2 := this i
    rw [hz t, stateA_mulVec] at h2
    exact h2
  refine ⟨fun t => ?_, fun t => ?_, ?_, ?_⟩
  · rw [hasDerivAt_pi]
    intro j
    simpa using hd t (Sum.inr j)
  · refine ⟨-(Mi *ᵥ (B *ᵥ fun j => z t (Sum.inl j))) - Mi *ᵥ (K *ᵥ fun j => z t (Sum.inr j))
      + Mi *ᵥ f0 + (t : ℂ) • (Mi *ᵥ fs), ?_, ?_⟩
    · rw [hasDerivAt_pi]
      intro j
      simpa using hd t (Sum.inl j)
    · simp only [Matrix.mulVec_add, Matrix.mulVec_sub, Matrix.mulVec_neg, Matrix.mulVec_smul,
        Matrix.mulVec_mulVec, ← Matrix.mul_assoc, hM, Matrix.one_mul, Matrix.one_mulVec]
      abel
  · funext j
    have := congrFun h.init (Sum.inr j)
    simpa using this
  · funext j
    have := congrFun h.init (Sum.inl j)
    simpa using this

/-! ### the model's block operations -/

theorem modalInit_eq (e : Eig ℂ n N) (d0 v0 : Fin n → ℂ) : modalInit e d0 v0 = e.V *ᵥ Sum.elim v0 d0 := by
  funext k
  simp [modalInit, dotFin_eq, Eig.V, Matrix.mulVec, dotProduct, Fintype.sum_sum_type]

theorem modalForce_eq (e : Eig ℂ n N) (f : Fin n → ℂ) : modalForce e f = e.V *ᵥ Sum.elim f 0 := by
  funext k
  simp [modalForce, matVec, dotFin_eq, Eig.V, Matrix.mulVec, dotProduct, Fintype.sum_sum_type]

theorem recoverCplx_urD (e : Eig ℂ n N) (y : Fin N → ℂ) (j : Fin n) :
    recoverCplx e.urD y j = (e.U *ᵥ y) (Sum.inr j) := by
  simp [recoverCplx, matVec, dotFin_eq, Eig.U, Matrix.mulVec, dotProduct]

theorem recoverCplx_urV (e : Eig ℂ n N) (y : Fin N → ℂ) (j : Fin n) :
    recoverCplx e.urV y j = (e.U *ᵥ y) (Sum.inl j) := by
  simp [recoverCplx, matVec, dotFin_eq, Eig.U, Matrix.mulVec, dotProduct]

end PyYetiVerif.SuCoef
