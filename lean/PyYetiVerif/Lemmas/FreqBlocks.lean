import PyYetiVerif.Lemmas.FreqSolve
import PyYetiVerif.Lemmas.FreqGauss
import Mathlib.Tactic.FieldSimp
import Mathlib.Tactic.LinearCombination
import Mathlib.Data.List.OfFn
import Mathlib.Algebra.BigOperators.Fin
/-! Helper lemmas for C02: block equations (`blockSum`) obtained from the Gaussian elimination, from
a diagonal block, under scaling; and the evaluation of `partStiff` on a partition. -/
set_option linter.unusedSimpArgs false
set_option linter.unusedSectionVars false
set_option linter.unusedVariables false
namespace PyYetiVerif.Freq

section blocks
variable {α : Type} [Field α]

theorem blockSum_nil_left (A : Nat → Nat → α) (xs : List α) (r : Nat) : blockSum A [] xs r = 0 := by
  simp [blockSum]

theorem blockSum_cons (A : Nat → Nat → α) (a : Nat) (idx : List Nat) (x : α) (xs : List α) (r : Nat) :
    blockSum A (a :: idx) (x :: xs) r = A r a * x + blockSum A idx xs r := by
  simp [blockSum]

theorem blockSum_eq_dot (A : Nat → Nat → α) (idx : List Nat) (xs : List α) (r : Nat) :
    blockSum A idx xs r = dot (idx.map (A r)) xs := by
  rw [dot_map_eq_zip_sum]; rfl

theorem mem_zip_self (l : List Nat) (r : Nat) (hr : r ∈ l) : (r, r) ∈ l.zip l := by
  induction l with
  | nil => cases hr
  | cons a l ih =>
    rcases List.mem_cons.1 hr with rfl | h
    · simp
    · exact List.mem_cons_of_mem _ (ih h)

/-- `solveIdx` (the model's `la.solve` / `lu_solve` on an index-addressed block) returns block
values that satisfy the block equation -/
theorem blockEq_of_solveIdx (e : ColEnv α) (hz : ∀ x, e.isZero x = true ↔ x = 0)
    (A : Nat → Nat → α) (idx : List Nat) (F : Nat → α) (xs : List α)
    (h : solveIdx e A idx idx F = .ok xs) :
    xs.length = idx.length ∧ ∀ r ∈ idx, blockSum A idx xs r = F r := by
  unfold solveIdx at h
  simp only [bne_self_eq_false, Bool.false_eq_true, if_false] at h
  cases hg : gaussList e.isZero e.absLt idx.length
      ((idx.zip idx).map fun p => (idx.map (A p.1), F p.2)) with
  | none => rw [hg] at h; cases h
  | some ys =>
    rw [hg] at h
    simp only [ofOpt, Except.ok.injEq] at h
    subst h
    have hl : ((idx.zip idx).map fun p => (idx.map (A p.1), F p.2)).length = idx.length := by simp
    refine ⟨gaussList_length _ _ _ _ _ hg, ?_⟩
    intro r hr
    have := gaussList_sound e.isZero hz e.absLt idx.length _ ys hl hg (idx.map (A r), F r) (by
      simp only [List.mem_map]
      refine ⟨(r, r), ?_, rfl⟩
      exact mem_zip_self idx r hr)
    rw [blockSum_eq_dot]; exact this

/-- a diagonal block: only the own column contributes -/
theorem blockSum_diag (A : Nat → Nat → α) (idx : List Nat) (hnd : idx.Nodup) (g : Nat → α)
    (hoff : ∀ r ∈ idx, ∀ c ∈ idx, r ≠ c → A r c = 0) (r : Nat) (hr : r ∈ idx) :
    blockSum A idx (idx.map g) r = A r r * g r := by
  induction idx with
  | nil => cases hr
  | cons a idx ih =>
    rw [List.map_cons, blockSum_cons]
    have hnd' := List.nodup_cons.1 hnd
    rcases List.mem_cons.1 hr with rfl | hr'
    · have : blockSum A idx (idx.map g) r = 0 := by
        unfold blockSum
        rw [List.zip_map_right]
        apply List.sum_eq_zero
        intro t ht
        simp only [List.map_map, List.mem_map] at ht
        obtain ⟨cx, hcx, rfl⟩ := ht
        have hc : cx.1 ∈ idx := (List.of_mem_zip hcx).1
        show A r cx.1 * g cx.2 = 0
        rw [hoff r (by simp) cx.1 (List.mem_cons_of_mem _ hc) (fun h => hnd'.1 (h ▸ hc))]
        ring
      rw [this]; ring
    · rw [ih hnd'.2 (fun r hr c hc => hoff r (List.mem_cons_of_mem _ hr) c (List.mem_cons_of_mem _ hc)) hr']
      rw [hoff r hr a (by simp) (fun h => hnd'.1 (h ▸ hr'))]
      ring

/-- scaling the block matrix by `s` and the values by `t` -/
theorem blockSum_scale (A : Nat → Nat → α) (idx : List Nat) (xs : List α) (s t : α) (r : Nat) :
    blockSum (fun r c => s * A r c) idx (xs.map fun x => t * x) r = s * t * blockSum A idx xs r := by
  induction idx generalizing xs with
  | nil => simp [blockSum]
  | cons a idx ih =>
    cases xs with
    | nil => simp [blockSum]
    | cons x xs =>
      rw [List.map_cons, blockSum_cons, blockSum_cons, ih]; ring

theorem blockSum_congr (A A' : Nat → Nat → α) (idx : List Nat) (xs : List α) (r : Nat)
    (h : ∀ c ∈ idx, A r c = A' r c) : blockSum A idx xs r = blockSum A' idx xs r := by
  induction idx generalizing xs with
  | nil => simp [blockSum]
  | cons a idx ih =>
    cases xs with
    | nil => simp [blockSum]
    | cons x xs =>
      rw [blockSum_cons, blockSum_cons, h a (by simp), ih _ fun c hc => h c (List.mem_cons_of_mem _ hc)]

theorem zip_self_map {β : Type} (l : List Nat) (f : Nat × Nat → β) :
    (l.zip l).map f = l.map fun r => f (r, r) := by
  induction l with
  | nil => rfl
  | cons a l ih => simp [ih]

theorem blockSum_ofFn (A : Nat → Nat → α) (idx : List Nat) (d : Fin idx.length → α)
    (p : Fin idx.length) :
    blockSum A idx (List.ofFn d) idx[p] = ∑ q : Fin idx.length, A idx[p] idx[q] * d q := by
  have hz : idx.zip (List.ofFn d) = (List.finRange idx.length).map fun q => (idx[q], d q) := by
    apply List.ext_getElem
    · simp
    · intro k h1 h2
      simp
  unfold blockSum
  rw [hz, List.map_map, Fin.sum_univ_def]
  rfl

theorem zipWith_map_map_self {β γ δ ε : Type} (f : γ → δ → ε) (g : β → γ) (h : β → δ) (l : List β) :
    List.zipWith f (l.map g) (l.map h) = l.map fun x => f (g x) (h x) := by
  induction l with
  | nil => rfl
  | cons a l ih => simp [ih]

theorem zipWith_self_map_right {β γ ε : Type} (f : β → γ → ε) (h : β → γ) (l : List β) :
    List.zipWith f l (l.map h) = l.map fun x => f x (h x) := by
  induction l with
  | nil => rfl
  | cons a l ih => simp [ih]

/-- `rbDamp` returns one acceleration per rigid-body row -/
theorem rbDamp_length (e : ColEnv α) (br mr : Option (List Nat)) (arb out : List α) (w : α)
    (h : rbDamp e br mr arb w = .ok out) : out.length = arb.length := by
  unfold rbDamp at h
  by_cases hu : e.unc = true
  · simp only [hu, Bool.not_true, Bool.false_eq_true, if_false] at h
    cases br with
    | none => cases h
    | some br =>
      simp only at h
      by_cases hall : (br.all fun r => e.isZero (e.B r r)) = true
      · simp only [hall, if_true, Except.ok.injEq] at h
        subst h; rfl
      · simp only [hall, Bool.false_eq_true, if_false] at h
        cases him : rbIm e br mr with
        | error m => rw [him] at h; cases h
        | ok im =>
          rw [him] at h
          simp only at h
          by_cases hl : (im.length != br.length || br.length != arb.length) = true
          · simp only [hl, if_true] at h; cases h
          · simp only [hl, Bool.false_eq_true, if_false, Except.ok.injEq] at h
            subst h
            simp only [Bool.or_eq_true, bne_iff_ne, not_or, not_not] at hl
            simp [hl.1, hl.2]
  · simp only [hu, Bool.not_false, if_true, Except.ok.injEq] at h
    subst h; rfl

/-- a diagonal row: only the own column contributes to the full-size row sum -/
theorem sum_range_diag (n r : Nat) (hr : r < n) (f : Nat → α) (hf : ∀ c, c ≠ r → f c = 0) :
    ((List.range n).map f).sum = f r := by
  induction n with
  | zero => omega
  | succ n ih =>
    rw [List.range_succ, List.map_append, List.sum_append]
    by_cases h : r < n
    · rw [ih h]; simp [hf n (by omega)]
    · have hrn : r = n := by omega
      have : ((List.range n).map f).sum = 0 := by
        apply List.sum_eq_zero
        intro t ht
        obtain ⟨c, hc, rfl⟩ := List.mem_map.1 ht
        exact hf c (by have := List.mem_range.1 hc; omega)
      rw [this, hrn]; simp

theorem optionRow_d (inc : Incrb) (dO : Bool) (rb rf : List Nat) (c : Nat) (x : Dva α) :
    (optionRow inc dO rb rf c x).d = if c ∈ rb then (if inc.d = true then x.d else 0) else x.d := by
  unfold optionRow
  by_cases h : c ∈ rb
  · simp [h, applyIncrb]
  · simp only [List.contains_eq_mem, h, decide_false, Bool.false_eq_true, if_false]
    split <;> rfl

theorem scaleDva_one (x : Dva α) : scaleDva 1 x = x := by
  cases x; simp [scaleDva]

end blocks

theorem modifyRows_id {β : Type} (f : β → β) (hf : ∀ x, f x = x) (s : List β) (rows : List Nat) :
    modifyRows f s rows = s := by
  induction rows generalizing s with
  | nil => rfl
  | cons r rs ih =>
    simp only [modifyRows]
    cases h : s[r]? with
    | none => exact ih s
    | some x =>
      simp only [hf]
      rw [ih]
      apply List.ext_getElem?
      intro k
      by_cases hk : r = k
      · subst hk
        have hlt : r < s.length := by
          by_contra hge
          rw [List.getElem?_eq_none (by omega)] at h
          cases h
        simp [List.getElem?_set, hlt]
        rw [List.getElem?_eq_getElem hlt] at h
        exact (Option.some.inj h).symm
      · simp [List.getElem?_set, hk]

end PyYetiVerif.Freq
