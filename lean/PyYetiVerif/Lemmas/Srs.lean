import PyYetiVerif.Model.Srs
import Mathlib.Analysis.SpecialFunctions.Trigonometric.Basic
import Mathlib.Analysis.SpecialFunctions.Trigonometric.Deriv
import Mathlib.Analysis.SpecialFunctions.Sqrt
import Mathlib.Algebra.Order.Floor.Ring
import Mathlib.Tactic.LinearCombination
import Mathlib.Tactic.FieldSimp
import Mathlib.Tactic.Ring
import Mathlib.Tactic.Linarith
/-! Helper lemmas for C03: the real-number instance of the model's operation class, the
state-space ⇒ transposed-direct-form-II elimination (Cayley–Hamilton for 2×2), and the algebraic
identities between the code's coefficient formulas and the exact one-step oscillator solution.
The `linear_combination` cofactors were computed at development time with sympy (polynomial
division by `cos² + sin² - 1` and `4Q²q² - 4Q² + 1`); Lean checks the resulting identities. -/
set_option linter.unusedVariables false
set_option linter.unusedSimpArgs false
set_option linter.unusedSectionVars false
namespace PyYetiVerif.Srs

noncomputable instance instTransOpsReal : TransOps ℝ where
  exp := Real.exp
  cos := Real.cos
  sin := Real.sin
  sqrt := Real.sqrt
  pi := Real.pi
  natCeil x := ⌈x⌉₊
  ofNat n := (n : ℝ)

/-! ### affine state recursion and its elimination into a second-order filter -/
section generic
variable {K : Type} [CommRing K] [BEq K]

/-- `s' = A s + p x + r x'`, listing `(u, v, x)` after every step -/
def ssAux (a11 a12 a21 a22 p1 p2 r1 r2 : K) : K → K → K → List K → List (K × K × K)
  | _, _, _, [] => []
  | u, v, x, x' :: xs =>
      (a11 * u + a12 * v + p1 * x + r1 * x', a21 * u + a22 * v + p2 * x + r2 * x', x') ::
        ssAux a11 a12 a21 a22 p1 p2 r1 r2
          (a11 * u + a12 * v + p1 * x + r1 * x') (a21 * u + a22 * v + p2 * x + r2 * x') x' xs

/-- Two-step (Cayley–Hamilton) elimination: the output `c·s + d x` of the affine recursion is
produced by the transposed direct-form-II filter with `a = [1, -tr A, det A]` and the three
`b`'s below; the filter state is `z0 = c·(A s + p x)`, `z1 = b2 x - det A · y`. -/
theorem lfilterAux_eq_ss (a11 a12 a21 a22 p1 p2 r1 r2 c1 c2 d b0 b1 b2 : K)
    (h0 : b0 = c1 * r1 + c2 * r2 + d)
    (h1 : b1 = c1 * (p1 - (a22 * r1 - a12 * r2)) + c2 * (p2 - (-a21 * r1 + a11 * r2))
            - (a11 + a22) * d)
    (h2 : b2 = -(c1 * (a22 * p1 - a12 * p2) + c2 * (-a21 * p1 + a11 * p2))
            + (a11 * a22 - a12 * a21) * d)
    (xs : List K) : ∀ u v x z0 z1 : K,
      z0 = c1 * (a11 * u + a12 * v + p1 * x) + c2 * (a21 * u + a22 * v + p2 * x) →
      z1 = b2 * x - (a11 * a22 - a12 * a21) * (c1 * u + c2 * v + d * x) →
      lfilterAux b0 b1 b2 (-(a11 + a22)) (a11 * a22 - a12 * a21) z0 z1 xs
        = (ssAux a11 a12 a21 a22 p1 p2 r1 r2 u v x xs).map
            fun s => c1 * s.1 + c2 * s.2.1 + d * s.2.2 := by
  induction xs with
  | nil => intros; rfl
  | cons x' xs ih =>
    intro u v x z0 z1 hz0 hz1
    simp only [lfilterAux, ssAux, List.map_cons]
    have hy : z0 + b0 * x' = c1 * (a11 * u + a12 * v + p1 * x + r1 * x')
        + c2 * (a21 * u + a22 * v + p2 * x + r2 * x') + d * x' := by
      rw [hz0, h0]; ring
    rw [hy]
    congr 1
    apply ih
    · rw [hz1, h1, h2]; ring
    · ring

end generic

/-! ### facts about the real parameters -/

theorem sqz_sq {Q : ℝ} (hQ : 1 / 2 < Q) :
    Real.sqrt (1 - 1 / 2 / Q * (1 / 2 / Q)) ^ 2 = 1 - 1 / 2 / Q * (1 / 2 / Q) := by
  apply Real.sq_sqrt
  have hQ0 : 0 < Q := by linarith
  have h1 : 1 / 2 / Q < 1 := by
    rw [div_lt_one hQ0]; linarith
  have h0 : 0 < 1 / 2 / Q := by positivity
  nlinarith

theorem sqz_pos {Q : ℝ} (hQ : 1 / 2 < Q) : 0 < Real.sqrt (1 - 1 / 2 / Q * (1 / 2 / Q)) := by
  apply Real.sqrt_pos.mpr
  have hQ0 : 0 < Q := by linarith
  have h1 : 1 / 2 / Q < 1 := by
    rw [div_lt_one hQ0]; linarith
  have h0 : 0 < 1 / 2 / Q := by positivity
  nlinarith


/-! ### the real instance unfolds to Mathlib's functions -/
@[simp] theorem exp_real (x : ℝ) : (TransOps.exp x : ℝ) = Real.exp x := rfl
@[simp] theorem cos_real (x : ℝ) : (TransOps.cos x : ℝ) = Real.cos x := rfl
@[simp] theorem sin_real (x : ℝ) : (TransOps.sin x : ℝ) = Real.sin x := rfl
@[simp] theorem sqrt_real (x : ℝ) : (TransOps.sqrt x : ℝ) = Real.sqrt x := rfl
@[simp] theorem pi_real : (TransOps.pi : ℝ) = Real.pi := rfl
@[simp] theorem natCeil_real (x : ℝ) : TransOps.natCeil x = ⌈x⌉₊ := rfl
@[simp] theorem ofNat_real (n : ℕ) : (TransOps.ofNat n : ℝ) = (n : ℝ) := rfl

/-! ### the exact one-step map is affine: unit responses -/
noncomputable def A11 (o : Osc ℝ) : ℝ := o.uAt 1 0 0 0 o.dT
noncomputable def A12 (o : Osc ℝ) : ℝ := o.uAt 0 1 0 0 o.dT
noncomputable def P1 (o : Osc ℝ) : ℝ := o.uAt 0 0 1 0 o.dT
noncomputable def R1 (o : Osc ℝ) : ℝ := o.uAt 0 0 0 1 o.dT
noncomputable def A21 (o : Osc ℝ) : ℝ := o.vAt 1 0 0 0 o.dT
noncomputable def A22 (o : Osc ℝ) : ℝ := o.vAt 0 1 0 0 o.dT
noncomputable def P2 (o : Osc ℝ) : ℝ := o.vAt 0 0 1 0 o.dT
noncomputable def R2 (o : Osc ℝ) : ℝ := o.vAt 0 0 0 1 o.dT

theorem uAt_affine (o : Osc ℝ) (hw : o.wn ≠ 0) (hh : o.dT ≠ 0) (hd : o.wd ≠ 0) (u v x x' : ℝ) :
    o.uAt u v x x' o.dT = A11 o * u + A12 o * v + P1 o * x + R1 o * x' := by
  simp only [A11, A12, P1, R1, Osc.uAt, Osc.k1, Osc.k2, Osc.al, Osc.be]
  generalize o.wd = wd at *
  field_simp
  ring

theorem vAt_affine (o : Osc ℝ) (hw : o.wn ≠ 0) (hh : o.dT ≠ 0) (hd : o.wd ≠ 0) (u v x x' : ℝ) :
    o.vAt u v x x' o.dT = A21 o * u + A22 o * v + P2 o * x + R2 o * x' := by
  simp only [A21, A22, P2, R2, Osc.vAt, Osc.k1, Osc.k2, Osc.al, Osc.be]
  generalize o.wd = wd at *
  field_simp
  ring

theorem statesAux_eq_ss (o : Osc ℝ) (hw : o.wn ≠ 0) (hh : o.dT ≠ 0) (hd : o.wd ≠ 0)
    (xs : List ℝ) : ∀ u v x : ℝ,
    o.statesAux u v x xs = ssAux (A11 o) (A12 o) (A21 o) (A22 o) (P1 o) (P2 o) (R1 o) (R2 o) u v x xs := by
  induction xs with
  | nil => intros; rfl
  | cons x' xs ih =>
    intro u v x
    simp only [Osc.statesAux, ssAux]
    rw [uAt_affine o hw hh hd, vAt_affine o hw hh hd, ih]

theorem ofQ_wd_ne {Q h w : ℝ} (hQ : 1 / 2 < Q) (hw : 0 < w) : (Osc.ofQ Q h w).wd ≠ 0 := by
  simp only [Osc.wd, Osc.ofQ, sqrt_real]
  exact mul_ne_zero hw.ne' (sqz_pos hQ).ne'

/-! ### trace and determinant of the one-step matrix -/
theorem charpoly_core (Q h w : ℝ) (hQ : 1 / 2 < Q) (hh : 0 < h) (hw : 0 < w) :
    A11 (Osc.ofQ Q h w) + A22 (Osc.ofQ Q h w)
        = 2 * (Real.exp (-(1 / 2 / Q) * w * h) *
            Real.cos (h * (w * Real.sqrt (1 - 1 / 2 / Q * (1 / 2 / Q))))) ∧
      A11 (Osc.ofQ Q h w) * A22 (Osc.ofQ Q h w) - A12 (Osc.ofQ Q h w) * A21 (Osc.ofQ Q h w)
        = Real.exp (-(1 / 2 / Q) * w * h) * Real.exp (-(1 / 2 / Q) * w * h) := by
  have hwf : (w == 0) = false := by simpa using hw.ne'
  have hq2' := sqz_sq hQ
  have hq0 := (sqz_pos hQ).ne'
  have hQ0 : Q ≠ 0 := by linarith
  have hw0 := hw.ne'
  have hh0 := hh.ne'
  have hcs := Real.cos_sq_add_sin_sq (h * (w * Real.sqrt (1 - 1 / 2 / Q * (1 / 2 / Q))))
  simp only [hwf, coefAt, A11, A12, A21, A22, P1, P2, R1, R2, Osc.uAt, Osc.vAt, Osc.k1,
    Osc.k2, Osc.al, Osc.be, Osc.wd, Osc.ofQ, exp_real, cos_real, sin_real, sqrt_real,
    Bool.false_eq_true, if_false, List.getElem?_cons_succ, List.getElem?_cons_zero]
  generalize Real.sqrt (1 - 1 / 2 / Q * (1 / 2 / Q)) = q at *
  generalize Real.exp (-(1 / 2 / Q) * w * h) = E at *
  generalize Real.cos (h * (w * q)) = c at *
  generalize Real.sin (h * (w * q)) = s at *
  have hq2 : 4 * Q ^ 2 * q ^ 2 - 4 * Q ^ 2 + 1 = 0 := by
    rw [hq2']; field_simp; ring
  refine ⟨?_, ?_⟩
  · linear_combination (norm := (field_simp; ring)) (0) * hcs + (0) * hq2
  · linear_combination (norm := (field_simp; ring)) (E ^ 2) * hcs + (0) * hq2

/-! ### the three `b` identities per response type
`b0 = c·r + d`, `b1 = c·(p - adj(A) r) - tr(A) d`, `b2 = -c·adj(A) p + det(A) d`. -/

theorem absacce_ident (Q h w : ℝ) (hQ : 1 / 2 < Q) (hh : 0 < h) (hw : 0 < w) :
    coefAt (absacce Q h w).b 0 = (-(w * w)) * R1 (Osc.ofQ Q h w) + (-(2 * (1 / 2 / Q * w))) * R2 (Osc.ofQ Q h w) + (0) ∧
    coefAt (absacce Q h w).b 1 =
      (-(w * w)) * (P1 (Osc.ofQ Q h w) - (A22 (Osc.ofQ Q h w) * R1 (Osc.ofQ Q h w) - A12 (Osc.ofQ Q h w) * R2 (Osc.ofQ Q h w)))
      + (-(2 * (1 / 2 / Q * w))) * (P2 (Osc.ofQ Q h w) - (-A21 (Osc.ofQ Q h w) * R1 (Osc.ofQ Q h w) + A11 (Osc.ofQ Q h w) * R2 (Osc.ofQ Q h w)))
      - (A11 (Osc.ofQ Q h w) + A22 (Osc.ofQ Q h w)) * (0) ∧
    coefAt (absacce Q h w).b 2 =
      -((-(w * w)) * (A22 (Osc.ofQ Q h w) * P1 (Osc.ofQ Q h w) - A12 (Osc.ofQ Q h w) * P2 (Osc.ofQ Q h w))
        + (-(2 * (1 / 2 / Q * w))) * (-A21 (Osc.ofQ Q h w) * P1 (Osc.ofQ Q h w) + A11 (Osc.ofQ Q h w) * P2 (Osc.ofQ Q h w)))
      + (A11 (Osc.ofQ Q h w) * A22 (Osc.ofQ Q h w) - A12 (Osc.ofQ Q h w) * A21 (Osc.ofQ Q h w)) * (0) := by
  have hwf : (w == 0) = false := by simpa using hw.ne'
  have hq2' := sqz_sq hQ
  have hq0 := (sqz_pos hQ).ne'
  have hQ0 : Q ≠ 0 := by linarith
  have hw0 := hw.ne'
  have hh0 := hh.ne'
  have hcs := Real.cos_sq_add_sin_sq (h * (w * Real.sqrt (1 - 1 / 2 / Q * (1 / 2 / Q))))
  simp only [absacce, hwf, coefAt, A11, A12, A21, A22, P1, P2, R1, R2, Osc.uAt, Osc.vAt, Osc.k1,
    Osc.k2, Osc.al, Osc.be, Osc.wd, Osc.ofQ, exp_real, cos_real, sin_real, sqrt_real,
    Bool.false_eq_true, if_false, List.getElem?_cons_succ, List.getElem?_cons_zero]
  generalize Real.sqrt (1 - 1 / 2 / Q * (1 / 2 / Q)) = q at *
  generalize Real.exp (-(1 / 2 / Q) * w * h) = E at *
  generalize Real.cos (h * (w * q)) = c at *
  generalize Real.sin (h * (w * q)) = s at *
  have hq2 : 4 * Q ^ 2 * q ^ 2 - 4 * Q ^ 2 + 1 = 0 := by
    rw [hq2']; field_simp; ring
  refine ⟨?_, ?_, ?_⟩
  · linear_combination (norm := (field_simp; ring)) (0) * hcs + (E*s/(4*Q^4*h*q*w)) * hq2
  · linear_combination (norm := (field_simp; ring)) (0) * hcs + (-E*s/(2*Q^4*h*q*w)) * hq2
  · linear_combination (norm := (field_simp; ring)) (-E^2) * hcs + (E*s/(4*Q^4*h*q*w)) * hq2

theorem relacce_ident (Q h w : ℝ) (hQ : 1 / 2 < Q) (hh : 0 < h) (hw : 0 < w) :
    coefAt (relacce Q h w).b 0 = (-(w * w)) * R1 (Osc.ofQ Q h w) + (-(2 * (1 / 2 / Q * w))) * R2 (Osc.ofQ Q h w) + (-1) ∧
    coefAt (relacce Q h w).b 1 =
      (-(w * w)) * (P1 (Osc.ofQ Q h w) - (A22 (Osc.ofQ Q h w) * R1 (Osc.ofQ Q h w) - A12 (Osc.ofQ Q h w) * R2 (Osc.ofQ Q h w)))
      + (-(2 * (1 / 2 / Q * w))) * (P2 (Osc.ofQ Q h w) - (-A21 (Osc.ofQ Q h w) * R1 (Osc.ofQ Q h w) + A11 (Osc.ofQ Q h w) * R2 (Osc.ofQ Q h w)))
      - (A11 (Osc.ofQ Q h w) + A22 (Osc.ofQ Q h w)) * (-1) ∧
    coefAt (relacce Q h w).b 2 =
      -((-(w * w)) * (A22 (Osc.ofQ Q h w) * P1 (Osc.ofQ Q h w) - A12 (Osc.ofQ Q h w) * P2 (Osc.ofQ Q h w))
        + (-(2 * (1 / 2 / Q * w))) * (-A21 (Osc.ofQ Q h w) * P1 (Osc.ofQ Q h w) + A11 (Osc.ofQ Q h w) * P2 (Osc.ofQ Q h w)))
      + (A11 (Osc.ofQ Q h w) * A22 (Osc.ofQ Q h w) - A12 (Osc.ofQ Q h w) * A21 (Osc.ofQ Q h w)) * (-1) := by
  have hwf : (w == 0) = false := by simpa using hw.ne'
  have hq2' := sqz_sq hQ
  have hq0 := (sqz_pos hQ).ne'
  have hQ0 : Q ≠ 0 := by linarith
  have hw0 := hw.ne'
  have hh0 := hh.ne'
  have hcs := Real.cos_sq_add_sin_sq (h * (w * Real.sqrt (1 - 1 / 2 / Q * (1 / 2 / Q))))
  simp only [relacce, hwf, coefAt, A11, A12, A21, A22, P1, P2, R1, R2, Osc.uAt, Osc.vAt, Osc.k1,
    Osc.k2, Osc.al, Osc.be, Osc.wd, Osc.ofQ, exp_real, cos_real, sin_real, sqrt_real,
    Bool.false_eq_true, if_false, List.getElem?_cons_succ, List.getElem?_cons_zero]
  generalize Real.sqrt (1 - 1 / 2 / Q * (1 / 2 / Q)) = q at *
  generalize Real.exp (-(1 / 2 / Q) * w * h) = E at *
  generalize Real.cos (h * (w * q)) = c at *
  generalize Real.sin (h * (w * q)) = s at *
  have hq2 : 4 * Q ^ 2 * q ^ 2 - 4 * Q ^ 2 + 1 = 0 := by
    rw [hq2']; field_simp; ring
  refine ⟨?_, ?_, ?_⟩
  · linear_combination (norm := (field_simp; ring)) (0) * hcs + (E*s/(4*Q^4*h*q*w)) * hq2
  · linear_combination (norm := (field_simp; ring)) (0) * hcs + (-E*s/(2*Q^4*h*q*w)) * hq2
  · linear_combination (norm := (field_simp; ring)) (0) * hcs + (E*s/(4*Q^4*h*q*w)) * hq2

theorem reldisp_ident (Q h w : ℝ) (hQ : 1 / 2 < Q) (hh : 0 < h) (hw : 0 < w) :
    coefAt (reldisp Q h w).b 0 = (1) * R1 (Osc.ofQ Q h w) + (0) * R2 (Osc.ofQ Q h w) + (0) ∧
    coefAt (reldisp Q h w).b 1 =
      (1) * (P1 (Osc.ofQ Q h w) - (A22 (Osc.ofQ Q h w) * R1 (Osc.ofQ Q h w) - A12 (Osc.ofQ Q h w) * R2 (Osc.ofQ Q h w)))
      + (0) * (P2 (Osc.ofQ Q h w) - (-A21 (Osc.ofQ Q h w) * R1 (Osc.ofQ Q h w) + A11 (Osc.ofQ Q h w) * R2 (Osc.ofQ Q h w)))
      - (A11 (Osc.ofQ Q h w) + A22 (Osc.ofQ Q h w)) * (0) ∧
    coefAt (reldisp Q h w).b 2 =
      -((1) * (A22 (Osc.ofQ Q h w) * P1 (Osc.ofQ Q h w) - A12 (Osc.ofQ Q h w) * P2 (Osc.ofQ Q h w))
        + (0) * (-A21 (Osc.ofQ Q h w) * P1 (Osc.ofQ Q h w) + A11 (Osc.ofQ Q h w) * P2 (Osc.ofQ Q h w)))
      + (A11 (Osc.ofQ Q h w) * A22 (Osc.ofQ Q h w) - A12 (Osc.ofQ Q h w) * A21 (Osc.ofQ Q h w)) * (0) := by
  have hwf : (w == 0) = false := by simpa using hw.ne'
  have hq2' := sqz_sq hQ
  have hq0 := (sqz_pos hQ).ne'
  have hQ0 : Q ≠ 0 := by linarith
  have hw0 := hw.ne'
  have hh0 := hh.ne'
  have hcs := Real.cos_sq_add_sin_sq (h * (w * Real.sqrt (1 - 1 / 2 / Q * (1 / 2 / Q))))
  simp only [reldisp, hwf, coefAt, A11, A12, A21, A22, P1, P2, R1, R2, Osc.uAt, Osc.vAt, Osc.k1,
    Osc.k2, Osc.al, Osc.be, Osc.wd, Osc.ofQ, exp_real, cos_real, sin_real, sqrt_real,
    Bool.false_eq_true, if_false, List.getElem?_cons_succ, List.getElem?_cons_zero]
  generalize Real.sqrt (1 - 1 / 2 / Q * (1 / 2 / Q)) = q at *
  generalize Real.exp (-(1 / 2 / Q) * w * h) = E at *
  generalize Real.cos (h * (w * q)) = c at *
  generalize Real.sin (h * (w * q)) = s at *
  have hq2 : 4 * Q ^ 2 * q ^ 2 - 4 * Q ^ 2 + 1 = 0 := by
    rw [hq2']; field_simp; ring
  refine ⟨?_, ?_, ?_⟩
  · linear_combination (norm := (field_simp; ring)) (0) * hcs + (0) * hq2
  · linear_combination (norm := (field_simp; ring)) (-E^2/(Q*h*w^3)) * hcs + (0) * hq2
  · linear_combination (norm := (field_simp; ring)) (E^2*(Q*h*w + 1)/(Q*h*w^3)) * hcs + (0) * hq2

theorem pvelo_ident (Q h w : ℝ) (hQ : 1 / 2 < Q) (hh : 0 < h) (hw : 0 < w) :
    coefAt (pvelo Q h w).b 0 = (w) * R1 (Osc.ofQ Q h w) + (0) * R2 (Osc.ofQ Q h w) + (0) ∧
    coefAt (pvelo Q h w).b 1 =
      (w) * (P1 (Osc.ofQ Q h w) - (A22 (Osc.ofQ Q h w) * R1 (Osc.ofQ Q h w) - A12 (Osc.ofQ Q h w) * R2 (Osc.ofQ Q h w)))
      + (0) * (P2 (Osc.ofQ Q h w) - (-A21 (Osc.ofQ Q h w) * R1 (Osc.ofQ Q h w) + A11 (Osc.ofQ Q h w) * R2 (Osc.ofQ Q h w)))
      - (A11 (Osc.ofQ Q h w) + A22 (Osc.ofQ Q h w)) * (0) ∧
    coefAt (pvelo Q h w).b 2 =
      -((w) * (A22 (Osc.ofQ Q h w) * P1 (Osc.ofQ Q h w) - A12 (Osc.ofQ Q h w) * P2 (Osc.ofQ Q h w))
        + (0) * (-A21 (Osc.ofQ Q h w) * P1 (Osc.ofQ Q h w) + A11 (Osc.ofQ Q h w) * P2 (Osc.ofQ Q h w)))
      + (A11 (Osc.ofQ Q h w) * A22 (Osc.ofQ Q h w) - A12 (Osc.ofQ Q h w) * A21 (Osc.ofQ Q h w)) * (0) := by
  have hwf : (w == 0) = false := by simpa using hw.ne'
  have hq2' := sqz_sq hQ
  have hq0 := (sqz_pos hQ).ne'
  have hQ0 : Q ≠ 0 := by linarith
  have hw0 := hw.ne'
  have hh0 := hh.ne'
  have hcs := Real.cos_sq_add_sin_sq (h * (w * Real.sqrt (1 - 1 / 2 / Q * (1 / 2 / Q))))
  simp only [pvelo, hwf, coefAt, A11, A12, A21, A22, P1, P2, R1, R2, Osc.uAt, Osc.vAt, Osc.k1,
    Osc.k2, Osc.al, Osc.be, Osc.wd, Osc.ofQ, exp_real, cos_real, sin_real, sqrt_real,
    Bool.false_eq_true, if_false, List.getElem?_cons_succ, List.getElem?_cons_zero]
  generalize Real.sqrt (1 - 1 / 2 / Q * (1 / 2 / Q)) = q at *
  generalize Real.exp (-(1 / 2 / Q) * w * h) = E at *
  generalize Real.cos (h * (w * q)) = c at *
  generalize Real.sin (h * (w * q)) = s at *
  have hq2 : 4 * Q ^ 2 * q ^ 2 - 4 * Q ^ 2 + 1 = 0 := by
    rw [hq2']; field_simp; ring
  refine ⟨?_, ?_, ?_⟩
  · linear_combination (norm := (field_simp; ring)) (0) * hcs + (0) * hq2
  · linear_combination (norm := (field_simp; ring)) (-E^2/(Q*h*w^2)) * hcs + (0) * hq2
  · linear_combination (norm := (field_simp; ring)) (E^2*(Q*h*w + 1)/(Q*h*w^2)) * hcs + (0) * hq2

theorem pacce_ident (Q h w : ℝ) (hQ : 1 / 2 < Q) (hh : 0 < h) (hw : 0 < w) :
    coefAt (pacce Q h w).b 0 = (w * w) * R1 (Osc.ofQ Q h w) + (0) * R2 (Osc.ofQ Q h w) + (0) ∧
    coefAt (pacce Q h w).b 1 =
      (w * w) * (P1 (Osc.ofQ Q h w) - (A22 (Osc.ofQ Q h w) * R1 (Osc.ofQ Q h w) - A12 (Osc.ofQ Q h w) * R2 (Osc.ofQ Q h w)))
      + (0) * (P2 (Osc.ofQ Q h w) - (-A21 (Osc.ofQ Q h w) * R1 (Osc.ofQ Q h w) + A11 (Osc.ofQ Q h w) * R2 (Osc.ofQ Q h w)))
      - (A11 (Osc.ofQ Q h w) + A22 (Osc.ofQ Q h w)) * (0) ∧
    coefAt (pacce Q h w).b 2 =
      -((w * w) * (A22 (Osc.ofQ Q h w) * P1 (Osc.ofQ Q h w) - A12 (Osc.ofQ Q h w) * P2 (Osc.ofQ Q h w))
        + (0) * (-A21 (Osc.ofQ Q h w) * P1 (Osc.ofQ Q h w) + A11 (Osc.ofQ Q h w) * P2 (Osc.ofQ Q h w)))
      + (A11 (Osc.ofQ Q h w) * A22 (Osc.ofQ Q h w) - A12 (Osc.ofQ Q h w) * A21 (Osc.ofQ Q h w)) * (0) := by
  have hwf : (w == 0) = false := by simpa using hw.ne'
  have hq2' := sqz_sq hQ
  have hq0 := (sqz_pos hQ).ne'
  have hQ0 : Q ≠ 0 := by linarith
  have hw0 := hw.ne'
  have hh0 := hh.ne'
  have hcs := Real.cos_sq_add_sin_sq (h * (w * Real.sqrt (1 - 1 / 2 / Q * (1 / 2 / Q))))
  simp only [pacce, hwf, coefAt, A11, A12, A21, A22, P1, P2, R1, R2, Osc.uAt, Osc.vAt, Osc.k1,
    Osc.k2, Osc.al, Osc.be, Osc.wd, Osc.ofQ, exp_real, cos_real, sin_real, sqrt_real,
    Bool.false_eq_true, if_false, List.getElem?_cons_succ, List.getElem?_cons_zero]
  generalize Real.sqrt (1 - 1 / 2 / Q * (1 / 2 / Q)) = q at *
  generalize Real.exp (-(1 / 2 / Q) * w * h) = E at *
  generalize Real.cos (h * (w * q)) = c at *
  generalize Real.sin (h * (w * q)) = s at *
  have hq2 : 4 * Q ^ 2 * q ^ 2 - 4 * Q ^ 2 + 1 = 0 := by
    rw [hq2']; field_simp; ring
  refine ⟨?_, ?_, ?_⟩
  · linear_combination (norm := (field_simp; ring)) (0) * hcs + (0) * hq2
  · linear_combination (norm := (field_simp; ring)) (-E^2/(Q*h*w)) * hcs + (0) * hq2
  · linear_combination (norm := (field_simp; ring)) (E^2*(Q*h*w + 1)/(Q*h*w)) * hcs + (0) * hq2

theorem relvelo_ident (Q h w : ℝ) (hQ : 1 / 2 < Q) (hh : 0 < h) (hw : 0 < w) :
    coefAt (relvelo Q h w).b 0 = (0) * R1 (Osc.ofQ Q h w) + (1) * R2 (Osc.ofQ Q h w) + (0) ∧
    coefAt (relvelo Q h w).b 1 =
      (0) * (P1 (Osc.ofQ Q h w) - (A22 (Osc.ofQ Q h w) * R1 (Osc.ofQ Q h w) - A12 (Osc.ofQ Q h w) * R2 (Osc.ofQ Q h w)))
      + (1) * (P2 (Osc.ofQ Q h w) - (-A21 (Osc.ofQ Q h w) * R1 (Osc.ofQ Q h w) + A11 (Osc.ofQ Q h w) * R2 (Osc.ofQ Q h w)))
      - (A11 (Osc.ofQ Q h w) + A22 (Osc.ofQ Q h w)) * (0) ∧
    coefAt (relvelo Q h w).b 2 =
      -((0) * (A22 (Osc.ofQ Q h w) * P1 (Osc.ofQ Q h w) - A12 (Osc.ofQ Q h w) * P2 (Osc.ofQ Q h w))
        + (1) * (-A21 (Osc.ofQ Q h w) * P1 (Osc.ofQ Q h w) + A11 (Osc.ofQ Q h w) * P2 (Osc.ofQ Q h w)))
      + (A11 (Osc.ofQ Q h w) * A22 (Osc.ofQ Q h w) - A12 (Osc.ofQ Q h w) * A21 (Osc.ofQ Q h w)) * (0) := by
  have hwf : (w == 0) = false := by simpa using hw.ne'
  have hq2' := sqz_sq hQ
  have hq0 := (sqz_pos hQ).ne'
  have hQ0 : Q ≠ 0 := by linarith
  have hw0 := hw.ne'
  have hh0 := hh.ne'
  have hcs := Real.cos_sq_add_sin_sq (h * (w * Real.sqrt (1 - 1 / 2 / Q * (1 / 2 / Q))))
  simp only [relvelo, hwf, coefAt, A11, A12, A21, A22, P1, P2, R1, R2, Osc.uAt, Osc.vAt, Osc.k1,
    Osc.k2, Osc.al, Osc.be, Osc.wd, Osc.ofQ, exp_real, cos_real, sin_real, sqrt_real,
    Bool.false_eq_true, if_false, List.getElem?_cons_succ, List.getElem?_cons_zero]
  generalize Real.sqrt (1 - 1 / 2 / Q * (1 / 2 / Q)) = q at *
  generalize Real.exp (-(1 / 2 / Q) * w * h) = E at *
  generalize Real.cos (h * (w * q)) = c at *
  generalize Real.sin (h * (w * q)) = s at *
  have hq2 : 4 * Q ^ 2 * q ^ 2 - 4 * Q ^ 2 + 1 = 0 := by
    rw [hq2']; field_simp; ring
  refine ⟨?_, ?_, ?_⟩
  · linear_combination (norm := (field_simp; ring)) (0) * hcs + (-E*s/(4*Q^3*h*q*w^2)) * hq2
  · linear_combination (norm := (field_simp; ring)) (E^2/(h*w^2)) * hcs + (E*s/(2*Q^3*h*q*w^2)) * hq2
  · linear_combination (norm := (field_simp; ring)) (-E^2/(h*w^2)) * hcs + (-E*s/(4*Q^3*h*q*w^2)) * hq2

/-! ### assembling: `a`, the output vectors, ramp invariance -/

theorem coef_a_eq (st : SType) (Q h w : ℝ) (hQ : 1 / 2 < Q) (hh : 0 < h) (hw : 0 < w) :
    (st.coef Q h w).a =
      [1, -(A11 (Osc.ofQ Q h w) + A22 (Osc.ofQ Q h w)),
        A11 (Osc.ofQ Q h w) * A22 (Osc.ofQ Q h w) - A12 (Osc.ofQ Q h w) * A21 (Osc.ofQ Q h w)] := by
  have hwf : (w == 0) = false := by simpa using hw.ne'
  obtain ⟨ht, hd⟩ := charpoly_core Q h w hQ hh hw
  rw [ht, hd]
  cases st <;>
    simp only [SType.coef, absacce, relacce, reldisp, relvelo, pvelo, pacce, hwf,
      Bool.false_eq_true, if_false, exp_real, cos_real, sqrt_real, neg_mul]

/-- output row `(c1, c2, d)`: response = `c1 u + c2 v + d x` -/
noncomputable def cvec (Q w : ℝ) : SType → ℝ × ℝ × ℝ
  | .absacce => (-(w * w), -(2 * (1 / 2 / Q * w)), 0)
  | .relacce => (-(w * w), -(2 * (1 / 2 / Q * w)), -1)
  | .reldisp => (1, 0, 0)
  | .pvelo => (w, 0, 0)
  | .pacce => (w * w, 0, 0)
  | .relvelo => (0, 1, 0)

theorem out_eq (st : SType) (Q h w : ℝ) (s : ℝ × ℝ × ℝ) :
    st.out (Osc.ofQ Q h w) s
      = (cvec Q w st).1 * s.1 + (cvec Q w st).2.1 * s.2.1 + (cvec Q w st).2.2 * s.2.2 := by
  obtain ⟨u, v, x⟩ := s
  cases st <;> simp only [SType.out, cvec, Osc.ofQ] <;> ring

theorem b_ident (st : SType) (Q h w : ℝ) (hQ : 1 / 2 < Q) (hh : 0 < h) (hw : 0 < w) :
    coefAt (st.coef Q h w).b 0 = (cvec Q w st).1 * R1 (Osc.ofQ Q h w)
        + (cvec Q w st).2.1 * R2 (Osc.ofQ Q h w) + (cvec Q w st).2.2 ∧
    coefAt (st.coef Q h w).b 1 =
      (cvec Q w st).1 * (P1 (Osc.ofQ Q h w) - (A22 (Osc.ofQ Q h w) * R1 (Osc.ofQ Q h w) - A12 (Osc.ofQ Q h w) * R2 (Osc.ofQ Q h w)))
      + (cvec Q w st).2.1 * (P2 (Osc.ofQ Q h w) - (-A21 (Osc.ofQ Q h w) * R1 (Osc.ofQ Q h w) + A11 (Osc.ofQ Q h w) * R2 (Osc.ofQ Q h w)))
      - (A11 (Osc.ofQ Q h w) + A22 (Osc.ofQ Q h w)) * (cvec Q w st).2.2 ∧
    coefAt (st.coef Q h w).b 2 =
      -((cvec Q w st).1 * (A22 (Osc.ofQ Q h w) * P1 (Osc.ofQ Q h w) - A12 (Osc.ofQ Q h w) * P2 (Osc.ofQ Q h w))
        + (cvec Q w st).2.1 * (-A21 (Osc.ofQ Q h w) * P1 (Osc.ofQ Q h w) + A11 (Osc.ofQ Q h w) * P2 (Osc.ofQ Q h w)))
      + (A11 (Osc.ofQ Q h w) * A22 (Osc.ofQ Q h w) - A12 (Osc.ofQ Q h w) * A21 (Osc.ofQ Q h w)) * (cvec Q w st).2.2 := by
  cases st
  · exact absacce_ident Q h w hQ hh hw
  · exact relacce_ident Q h w hQ hh hw
  · exact reldisp_ident Q h w hQ hh hw
  · exact relvelo_ident Q h w hQ hh hw
  · exact pvelo_ident Q h w hQ hh hw
  · exact pacce_ident Q h w hQ hh hw

theorem lfilter_eq_exact (st : SType) (Q h w : ℝ) (hQ : 1 / 2 < Q) (hh : 0 < h) (hw : 0 < w)
    (xs : List ℝ) : lfilter (st.coef Q h w) xs = exactResp st Q h w xs := by
  obtain ⟨h0, h1, h2⟩ := b_ident st Q h w hQ hh hw
  have ha := coef_a_eq st Q h w hQ hh hw
  have ha1 : coefAt (st.coef Q h w).a 1 = -(A11 (Osc.ofQ Q h w) + A22 (Osc.ofQ Q h w)) := by
    rw [ha]; rfl
  have ha2 : coefAt (st.coef Q h w).a 2 = A11 (Osc.ofQ Q h w) * A22 (Osc.ofQ Q h w)
      - A12 (Osc.ofQ Q h w) * A21 (Osc.ofQ Q h w) := by
    rw [ha]; rfl
  unfold lfilter exactResp Osc.states
  rw [ha1, ha2, statesAux_eq_ss _ hw.ne' hh.ne' (ofQ_wd_ne hQ hw)]
  rw [lfilterAux_eq_ss _ _ _ _ _ _ _ _ _ _ _ _ _ _ h0 h1 h2 xs 0 0 0 0 0 (by ring) (by ring)]
  apply List.map_congr_left
  intro s _
  exact (out_eq st Q h w s).symm

/-! ### relations between coefficient sets, static gain -/

theorem pvelo_eq' (Q h w : ℝ) (hh : h ≠ 0) (hw : w ≠ 0) :
    (pvelo Q h w).b = (reldisp Q h w).b.map (w * ·) ∧ (pvelo Q h w).a = (reldisp Q h w).a := by
  have hwf : (w == 0) = false := by simpa using hw
  simp only [pvelo, reldisp, hwf, Bool.false_eq_true, if_false, List.map_cons, List.map_nil,
    List.cons.injEq, and_true, true_and]
  refine ⟨?_, ?_, ?_⟩ <;> field_simp

theorem pacce_eq' (Q h w : ℝ) (hh : h ≠ 0) (hw : w ≠ 0) :
    (pacce Q h w).b = (reldisp Q h w).b.map (w * w * ·) ∧ (pacce Q h w).a = (reldisp Q h w).a := by
  have hwf : (w == 0) = false := by simpa using hw
  simp only [pacce, reldisp, hwf, Bool.false_eq_true, if_false, List.map_cons, List.map_nil,
    List.cons.injEq, and_true, true_and]
  refine ⟨?_, ?_, ?_⟩ <;> field_simp

/-- static gain of each response type (the value `srs` adds back for `ic='steady'`) -/
noncomputable def dcGain (w : ℝ) : SType → ℝ
  | .absacce => 1
  | .relacce => 0
  | .relvelo => 0
  | .reldisp => -1 / (w * w)
  | .pvelo => -1 / w
  | .pacce => -1

theorem dc_gain' (st : SType) (Q h w : ℝ) (hQ : 1 / 2 < Q) (hh : 0 < h) (hw : 0 < w) :
    coefAt (st.coef Q h w).b 0 + coefAt (st.coef Q h w).b 1 + coefAt (st.coef Q h w).b 2
      = dcGain w st *
        (coefAt (st.coef Q h w).a 0 + coefAt (st.coef Q h w).a 1 + coefAt (st.coef Q h w).a 2) := by
  have hwf : (w == 0) = false := by simpa using hw.ne'
  have hq0 := (sqz_pos hQ).ne'
  have hQ0 : Q ≠ 0 := by linarith
  have hw0 := hw.ne'
  have hh0 := hh.ne'
  cases st <;>
  · simp only [SType.coef, absacce, relacce, reldisp, relvelo, pvelo, pacce, dcGain, hwf, coefAt,
      exp_real, cos_real, sin_real, sqrt_real, Bool.false_eq_true, if_false,
      List.getElem?_cons_succ, List.getElem?_cons_zero]
    generalize Real.sqrt (1 - 1 / 2 / Q * (1 / 2 / Q)) = q at *
    generalize Real.exp (-(1 / 2 / Q) * w * h) = E at *
    generalize Real.cos (h * (w * q)) = c at *
    generalize Real.sin (h * (w * q)) = s at *
    field_simp
    ring

theorem suma_pos' (st : SType) (Q h w : ℝ) (hQ : 1 / 2 < Q) (hh : 0 < h) (hw : 0 < w) :
    0 < coefAt (st.coef Q h w).a 0 + coefAt (st.coef Q h w).a 1 + coefAt (st.coef Q h w).a 2 := by
  have hwf : (w == 0) = false := by simpa using hw.ne'
  have hQ0 : 0 < Q := by linarith
  have hE1 : Real.exp (-(1 / 2 / Q) * w * h) < 1 := by
    apply Real.exp_lt_one_iff.mpr
    have : 0 < 1 / 2 / Q * w * h := by positivity
    linarith
  have hE0 : 0 < Real.exp (-(1 / 2 / Q) * w * h) := Real.exp_pos _
  have hc := Real.cos_le_one (h * (w * Real.sqrt (1 - 1 / 2 / Q * (1 / 2 / Q))))
  cases st <;>
  · simp only [SType.coef, absacce, relacce, reldisp, relvelo, pvelo, pacce, hwf, coefAt,
      exp_real, cos_real, sin_real, sqrt_real, Bool.false_eq_true, if_false,
      List.getElem?_cons_succ, List.getElem?_cons_zero]
    generalize Real.exp (-(1 / 2 / Q) * w * h) = E at *
    generalize Real.cos (h * (w * Real.sqrt (1 - 1 / 2 / Q * (1 / 2 / Q)))) = c at *
    nlinarith [mul_nonneg hE0.le (sub_nonneg.mpr hc), mul_pos (sub_pos.mpr hE1) (sub_pos.mpr hE1)]

end PyYetiVerif.Srs
