import PyYetiVerif.Lemmas.Op4File
import PyYetiVerif.Model.Op4Sparse
/-! C04: the sparse-input branches of the writers produce the file of the ndarray the input stands for
(`denseMat`).  Everything is first proved for an abstract "found value at row `r`" function `f`. -/
namespace PyYetiVerif.Op4
open PyYetiVerif.Generated.Op4Consts

/-! ### an abstract column -/

/-- found entries `(row, value)` of a column, rows ascending -/
def ceOf (f : Nat → Option Entry) (i n : Nat) : List (Nat × Entry) :=
  (List.range' i n).filterMap fun r => (f r).map fun v => (r, v)

/-- the column as an array: the found value or `+0.0` -/
def gOf (f : Nat → Option Entry) (r : Nat) : Entry := (f r).getD (0, 0)

def colOf (f : Nat → Option Entry) (i n : Nat) : List Entry := (List.range' i n).map (gOf f)

def idxOf (f : Nat → Option Entry) (i n : Nat) : List Nat := (List.range' i n).filter fun r => (f r).isSome

theorem ceOf_eq (f : Nat → Option Entry) : ∀ n i, ceOf f i n = (idxOf f i n).map fun r => (r, gOf f r) := by
  intro n
  induction n with
  | zero => intro i; rfl
  | succ n ih =>
    intro i
    simp only [ceOf, idxOf, List.range'_succ, List.filterMap_cons, List.filter_cons] at ih ⊢
    cases hf : f i with
    | none => simpa using ih (i + 1)
    | some v =>
      simp only [Option.map_some, Option.isSome_some, if_true, List.map_cons, gOf, hf, Option.getD_some]
      congr 1
      exact ih (i + 1)

theorem nzIdxFrom_colOf (cplx : Bool) (f : Nat → Option Entry)
    (hnz : ∀ r v, f r = some v → v.isZero cplx = false) :
    ∀ n i, nzIdxFrom cplx i (colOf f i n) = idxOf f i n := by
  intro n
  induction n with
  | zero => intro i; rfl
  | succ n ih =>
    intro i
    simp only [colOf, idxOf, List.range'_succ, List.map_cons, List.filter_cons] at ih ⊢
    unfold nzIdxFrom
    cases hf : f i with
    | none =>
      simp only [gOf, hf, Option.getD_none, isZero_zero, if_true, Option.isSome_none, Bool.false_eq_true, if_false]
      exact ih (i + 1)
    | some v =>
      simp only [gOf, hf, Option.getD_some, hnz i v hf, Bool.false_eq_true, if_false, Option.isSome_some, if_true]
      congr 1
      exact ih (i + 1)

theorem colOf_length (f : Nat → Option Entry) (i n : Nat) : (colOf f i n).length = n := by simp [colOf]

theorem colOf_slice (f : Nat → Option Entry) (n a b : Nat) (h : a + b ≤ n) :
    ((colOf f 0 n).drop a).take b = (List.range' a b).map (gOf f) := by
  unfold colOf
  rw [← List.map_drop, ← List.map_take]
  congr 1
  apply List.ext_getElem?
  intro k
  simp only [List.getElem?_take, List.getElem?_drop]
  by_cases hk : k < b
  · simp only [hk, if_true]
    rw [List.getElem?_range' (by omega), List.getElem?_range' hk]
    simp
  · simp [hk]

/-! ### strings -/

theorem sliceRuns_expand (g : Nat → Entry) : ∀ runs : List (Nat × Nat),
    sliceRuns runs ((expand runs).map g) = runs.map fun p => (p.1, (List.range' p.1 p.2).map g) := by
  intro runs
  induction runs with
  | nil => rfl
  | cons p t ih =>
    obtain ⟨r0, r1⟩ := p
    simp only [expand, List.flatMap_cons, List.map_append, sliceRuns, List.map_cons] at ih ⊢
    congr 1
    · congr 1
      rw [List.take_left' (by simp)]
    · rw [List.drop_left' (by simp)]
      exact ih

theorem spStrings_eq (cplx : Bool) (f : Nat → Option Entry) (n : Nat)
    (hnz : ∀ r v, f r = some v → v.isZero cplx = false) :
    spStrings (ceOf f 0 n) = strings cplx (colOf f 0 n) := by
  have hidx : nzIdx cplx (colOf f 0 n) = idxOf f 0 n := nzIdxFrom_colOf cplx f hnz n 0
  unfold spStrings strings
  rw [ceOf_eq, hidx]
  simp only [List.map_map, Function.comp_def, List.map_id']
  have h1 : (idxOf f 0 n).map (fun r => gOf f r) = (expand (colStats (idxOf f 0 n))).map (gOf f) := by
    rw [expand_colStats]
  rw [h1, sliceRuns_expand]
  apply List.map_congr_left
  intro q hq
  rw [← hidx] at hq
  have hr := run_in_range cplx _ q hq
  rw [colOf_length] at hr
  rw [colOf_slice f n q.1 q.2 hr]

/-! ### the dense record -/

theorem foldl_set_get (g : Nat → Entry) (s : Nat) : ∀ (idx : List Nat) (init : List Entry) (i : Nat),
    (∀ r ∈ idx, s ≤ r) →
    (idx.foldl (fun vec r => vec.set (r - s) (g r)) init)[i]? =
      if s + i ∈ idx then (if i < init.length then some (g (s + i)) else none) else init[i]? := by
  intro idx
  induction idx with
  | nil => intro init i _; simp
  | cons a t ih =>
    intro init i hs
    have ha := hs a List.mem_cons_self
    simp only [List.foldl_cons]
    rw [ih (init.set (a - s) (g a)) i fun r hr => hs r (List.mem_cons_of_mem _ hr)]
    simp only [List.length_set, List.mem_cons]
    by_cases ht : s + i ∈ t
    · simp [ht]
    · simp only [ht, if_false, or_false]
      by_cases hai : s + i = a
      · have : a - s = i := by omega
        subst hai
        simp only [if_true]
        rw [this, List.getElem?_set_self']
        split <;> simp_all
      · simp only [hai, if_false]
        rw [List.getElem?_set_ne (by omega)]

theorem spVec_eq (cplx : Bool) (f : Nat → Option Entry) (n s : Nat) (tl : List Nat)
    (hidx : idxOf f 0 n = s :: tl) :
    spVec s ((s :: tl).getLast (by simp) - s + 1) (ceOf f 0 n) = denseSeg (colOf f 0 n) s tl := by
  have hsorted : List.Pairwise (· < ·) (idxOf f 0 n) := by
    unfold idxOf
    exact List.Pairwise.filter _ (List.pairwise_lt_range')
  have hmem : ∀ r, r ∈ idxOf f 0 n ↔ r < n ∧ (f r).isSome = true := by
    intro r
    simp [idxOf, List.mem_range'_1]
  have hb := sorted_bounds (idxOf f 0 n) (by rw [hidx]; simp) hsorted
  have hlast_mem : (s :: tl).getLast (by simp) ∈ idxOf f 0 n := by
    rw [hidx]; exact List.getLast_mem _
  have hlast_lt : (s :: tl).getLast (by simp) < n := ((hmem _).1 hlast_mem).1
  have hs_le : s ≤ (s :: tl).getLast (by simp) := by
    have := (hb s (by rw [hidx]; exact List.mem_cons_self)).2
    simpa [hidx] using this
  generalize hm : (s :: tl).getLast (by simp) - s + 1 = m
  have hmn : s + m ≤ n := by omega
  unfold denseSeg
  have hm' : (s :: tl).getLast (by simp) - s + 1 = m := hm
  rw [hm', colOf_slice f n s m hmn]
  unfold spVec
  rw [ceOf_eq, List.foldl_map]
  apply List.ext_getElem?
  intro i
  rw [foldl_set_get (gOf f) s (idxOf f 0 n) _ i (by
    intro r hr
    have := (hb r hr).1
    simpa [hidx] using this)]
  simp only [List.length_replicate, List.getElem?_map, List.getElem?_replicate]
  by_cases hi : i < m
  · rw [List.getElem?_range' hi]
    simp only [hi, if_true, Option.map_some, Nat.one_mul]
    split
    · rfl
    · next hnot =>
      have hnone : f (s + i) = none := by
        cases hf : f (s + i) with
        | none => rfl
        | some v => exact absurd ((hmem _).2 ⟨by omega, by simp [hf]⟩) hnot
      simp [gOf, hnone]
  · rw [List.getElem?_eq_none (by simp; omega)]
    simp [hi]

/-! ### from the abstract column to a sparse input -/

theorem foundAt_nz (add : Nat → Nat → Nat) (A : SpIn) (r c : Nat) (v : Entry) (h : foundAt add A r c = some v) :
    v.isZero A.cplx = false := by
  unfold foundAt at h
  split at h
  · next w hw =>
    split at h
    · cases h
    · next hz =>
      simp only [Option.some.injEq] at h
      subst h
      cases hc : A.cplx <;> simp_all [Entry.isZero]
  · cases h

theorem colEntries_eq (add : Nat → Nat → Nat) (A : SpIn) (c : Nat) :
    colEntries add A c = ceOf (fun r => foundAt add A r c) 0 A.rows := by
  simp [colEntries, ceOf, List.range_eq_range']

theorem denseCol_eq (add : Nat → Nat → Nat) (A : SpIn) (c : Nat) :
    denseCol add A c = colOf (fun r => foundAt add A r c) 0 A.rows := by
  simp [denseCol, colOf, gOf, List.range_eq_range']

theorem denseCol_length (add : Nat → Nat → Nat) (A : SpIn) (c : Nat) : (denseCol add A c).length = A.rows := by
  simp [denseCol]

theorem nzIdx_denseCol (add : Nat → Nat → Nat) (A : SpIn) (c : Nat) :
    nzIdx A.cplx (denseCol add A c) = idxOf (fun r => foundAt add A r c) 0 A.rows := by
  rw [denseCol_eq]
  exact nzIdxFrom_colOf A.cplx _ (fun r v h => foundAt_nz add A r c v h) A.rows 0

/-- the strings the sparse branch cuts out of `coldata` are the strings of the ndarray -/
theorem spStrings_colEntries (add : Nat → Nat → Nat) (A : SpIn) (c : Nat) :
    spStrings (colEntries add A c) = strings A.cplx (denseCol add A c) := by
  rw [colEntries_eq, denseCol_eq]
  exact spStrings_eq A.cplx _ A.rows fun r v h => foundAt_nz add A r c v h

theorem colEntries_nil_iff (add : Nat → Nat → Nat) (A : SpIn) (c : Nat) :
    colEntries add A c = [] ↔ nzIdx A.cplx (denseCol add A c) = [] := by
  rw [nzIdx_denseCol, colEntries_eq, ceOf_eq]
  simp

theorem encColBig_S (e : Endian) (cplx : Bool) (c : Nat) (col : List Entry) :
    encColBig e cplx c col = encColBigS e cplx c (strings cplx col) := by
  unfold encColBig encColBigS
  split <;> simp_all

theorem encColNonbig_S (e : Endian) (cplx : Bool) (c : Nat) (col : List Entry) :
    encColNonbig e cplx c col = encColNonbigS e cplx c (strings cplx col) := by
  unfold encColNonbig encColNonbigS
  split <;> simp_all

theorem recLen_dense (cplx : Bool) (col : List Entry) (s : Nat) (tl : List Nat) (h : nzIdx cplx col = s :: tl)
    (hin : (s :: tl).getLast (by simp) < col.length) :
    recLen .dense cplx col = 3 * 4 + (denseSeg col s tl).length * mult cplx * 8 := by
  simp only [recLen]
  split
  · next h' => rw [h] at h'; cases h'
  · next s' tl' h' =>
    rw [h] at h'
    cases h'
    unfold denseSeg
    simp only [List.length_take, List.length_drop]
    have hs : s ≤ (s :: tl).getLast (by simp) := by
      have hsorted := (nzIdxFrom_sorted cplx col 0).1
      have := (sorted_bounds (nzIdx cplx col) (by rw [h]; simp) hsorted s (by rw [h]; exact List.mem_cons_self)).2
      simpa [h] using this
    rw [Nat.min_eq_left (by omega)]

/-- the dense record of a sparse input is the dense record of the ndarray -/
theorem encColDenseSp_eq (add : Nat → Nat → Nat) (e : Endian) (A : SpIn) (c : Nat) :
    encColDenseSp e A.cplx c (colEntries add A c) = encColDense e A.cplx c (denseCol add A c) := by
  have hidx := nzIdx_denseCol add A c
  cases hi : idxOf (fun r => foundAt add A r c) 0 A.rows with
  | nil =>
    rw [hi] at hidx
    rw [(colEntries_nil_iff add A c).2 hidx]
    simp [encColDense, encColDenseSp, hidx]
  | cons s tl =>
    rw [hi] at hidx
    rw [encColDense_eq e A.cplx c _ s tl hidx]
    have hce : colEntries add A c = (s :: tl).map fun r => (r, gOf (fun r => foundAt add A r c) r) := by
      rw [colEntries_eq, ceOf_eq, hi]
    have hvec := spVec_eq A.cplx (fun r => foundAt add A r c) A.rows s tl hi
    rw [← colEntries_eq, ← denseCol_eq] at hvec
    rw [hce] at hvec ⊢
    simp only [List.map_cons, encColDenseSp]
    have hlast : (((s, gOf (fun r => foundAt add A r c) s) ::
        tl.map fun r => (r, gOf (fun r => foundAt add A r c) r)).getLast (by simp)).1 = (s :: tl).getLast (by simp) := by
      have := List.getLast_map (f := fun r => (r, gOf (fun r => foundAt add A r c) r)) (l := s :: tl) (by simp)
      simp only [List.map_cons] at this
      rw [this]
    simp only [List.map_cons] at hvec
    rw [hlast, hvec]
    simp [encColDenseS]

/-! ### all columns -/

theorem encCols_map_range' {β} (F : Nat → List Entry → List β) (G : Nat → List Entry) (enc : (Nat → List Entry → List β) → Nat → List (List Entry) → List β)
    (hnil : ∀ c, enc F c [] = []) (hcons : ∀ c col t, enc F c (col :: t) = F c col ++ enc F (c + 1) t) : ∀ n i,
    enc F i ((List.range' i n).map G) = (List.range' i n).flatMap fun c => F c (G c) := by
  intro n
  induction n with
  | zero => intro i; simp [hnil]
  | succ n ih =>
    intro i
    simp only [List.range'_succ, List.map_cons, hcons, List.flatMap_cons]
    rw [ih (i + 1)]

theorem flatMap_congr' {α β} (f g : α → List β) : ∀ l : List α, (∀ x ∈ l, f x = g x) → l.flatMap f = l.flatMap g := by
  intro l
  induction l with
  | nil => intro _; rfl
  | cons a t ih =>
    intro h
    simp only [List.flatMap_cons]
    rw [h a List.mem_cons_self, ih fun x hx => h x (List.mem_cons_of_mem _ hx)]

theorem flatMap_filter_nil {α β} (p : α → Bool) (h : α → List β) : ∀ l : List α,
    (∀ x ∈ l, p x = false → h x = []) → (l.filter p).flatMap h = l.flatMap h := by
  intro l
  induction l with
  | nil => intro _; rfl
  | cons a t ih =>
    intro hall
    have iht := ih fun x hx => hall x (List.mem_cons_of_mem _ hx)
    by_cases hp : p a = true
    · simp [List.filter_cons, hp, iht]
    · have hp' : p a = false := by simpa using hp
      simp [List.filter_cons, hp', iht, hall a List.mem_cons_self hp']

theorem headerWords_G (e : Endian) (m : Mat) (big : Bool) :
    headerWords e m big = headerWordsG e m.name m.form m.cplx m.rows m.cols.length big := rfl

theorem asciiHeader_G (d : Nat) (m : Mat) (big : Bool) :
    asciiHeader d m big = asciiHeaderG d m.name m.form m.cplx m.rows m.cols.length big := rfl

theorem isEmpty_false_of_ne {α} (l : List α) : (!l.isEmpty) = false ↔ l = [] := by
  cases l <;> simp

/-- the column loop `for c in cols_with_data` emits what `for c in range(cols)` emits for the ndarray -/
theorem encColsSp_eq (add : Nat → Nat → Nat) (e : Endian) (lay : Layout) (A : SpIn) :
    encColsSp add e lay A = encCols (encCol e lay A.cplx) 0 ((List.range A.ncols).map (denseCol add A)) := by
  rw [List.range_eq_range', encCols_map_range' (encCol e lay A.cplx) (denseCol add A) encCols (fun _ => rfl)
    (fun _ _ _ => rfl) A.ncols 0]
  unfold encColsSp colsWithData
  rw [List.range_eq_range']
  have hper : ∀ c, c ∈ List.range' 0 A.ncols →
      encColSp add e lay A c = encCol e lay A.cplx c (denseCol add A c) := by
    intro c _
    cases lay
    · exact encColDenseSp_eq add e A c
    · simp only [encCol, encColSp]; rw [encColBig_S, spStrings_colEntries]
    · simp only [encCol, encColSp]; rw [encColNonbig_S, spStrings_colEntries]
  rw [flatMap_filter_nil]
  · exact flatMap_congr' _ _ _ hper
  · intro c hc hp
    rw [hper c hc]
    have hnil := (colEntries_nil_iff add A c).1 ((isEmpty_false_of_ne _).1 hp)
    exact encCol_zero e lay A.cplx c _ hnil

theorem stringsFit_S (cplx : Bool) (col : List Entry) : stringsFit cplx col = stringsFitS cplx (strings cplx col) := rfl

/-- **the binary file of a sparse input is the file of the ndarray it stands for** -/
theorem encMatWordsSp_eq (add : Nat → Nat → Nat) (e : Endian) (lay : Layout) (name : List Nat) (form : Nat) (A : SpIn) :
    encMatWordsSp add e lay name form A = encMatWords e lay (denseMat add name form A) := by
  have hcols := encColsSp_eq add e lay A
  unfold encMatWordsSp encMatWords
  simp only [headerWords_G, denseMat, List.length_map, List.length_range]
  cases lay
  · simp only [hcols, encCol, List.append_assoc]
  · simp only [hcols, encCol, List.append_assoc]
  · simp only [hcols, encCol, List.append_assoc]
    have hall : ((colsWithData add A).all fun c => stringsFitS A.cplx (spStrings (colEntries add A c)))
        = ((List.range A.ncols).map (denseCol add A)).all (stringsFit A.cplx) := by
      rw [Bool.eq_iff_iff]
      simp only [List.all_eq_true, List.mem_map, List.mem_range, colsWithData, List.mem_filter,
        forall_exists_index, and_imp, forall_apply_eq_imp_iff₂]
      constructor
      · intro h c hc
        rw [stringsFit_S, ← spStrings_colEntries]
        by_cases hp : (!(colEntries add A c).isEmpty) = true
        · exact h c hc hp
        · have : colEntries add A c = [] := (isEmpty_false_of_ne _).1 (by simpa using hp)
          rw [this]; rfl
      · intro h c hc _
        have := h c hc
        rwa [stringsFit_S, ← spStrings_colEntries] at this
    rw [hall]

/-! ### the same for the ASCII writer -/

def ascColL (d : Nat) (lay : Layout) (cplx : Bool) : Nat → List Entry → List Char :=
  match lay with
  | .dense => ascColDense d cplx
  | .bigmat => ascColBig d cplx
  | .nonbigmat => ascColNonbig d cplx

theorem ascColBig_S (d : Nat) (cplx : Bool) (c : Nat) (col : List Entry) :
    ascColBig d cplx c col = ascColBigS d cplx c (strings cplx col) := by
  unfold ascColBig ascColBigS
  split <;> simp_all

theorem ascColNonbig_S (d : Nat) (cplx : Bool) (c : Nat) (col : List Entry) :
    ascColNonbig d cplx c col = ascColNonbigS d cplx c (strings cplx col) := by
  unfold ascColNonbig ascColNonbigS
  split <;> simp_all

theorem ascColDense_S (d : Nat) (cplx : Bool) (c : Nat) (col : List Entry) (s : Nat) (tl : List Nat)
    (h : nzIdx cplx col = s :: tl) : ascColDense d cplx c col = ascColDenseS d cplx c s (denseSeg col s tl) := by
  unfold ascColDense
  split
  · next h' => rw [h] at h'; cases h'
  · next s' tl' h' =>
    rw [h] at h'
    cases h'
    rfl

theorem ascColL_zero (d : Nat) (lay : Layout) (cplx : Bool) (c : Nat) (col : List Entry)
    (h : nzIdx cplx col = []) : ascColL d lay cplx c col = [] := by
  cases lay
  · simp [ascColL, ascColDense, h]
  · simp [ascColL, ascColBig, strings_nil cplx col h]
  · simp [ascColL, ascColNonbig, strings_nil cplx col h]

theorem ascColDenseSp_eq (add : Nat → Nat → Nat) (d : Nat) (A : SpIn) (c : Nat) :
    ascColDenseSp d A.cplx c (colEntries add A c) = ascColDense d A.cplx c (denseCol add A c) := by
  have hidx := nzIdx_denseCol add A c
  cases hi : idxOf (fun r => foundAt add A r c) 0 A.rows with
  | nil =>
    rw [hi] at hidx
    rw [(colEntries_nil_iff add A c).2 hidx]
    simp [ascColDense, ascColDenseSp, hidx]
  | cons s tl =>
    rw [hi] at hidx
    rw [ascColDense_S d A.cplx c _ s tl hidx]
    have hce : colEntries add A c = (s :: tl).map fun r => (r, gOf (fun r => foundAt add A r c) r) := by
      rw [colEntries_eq, ceOf_eq, hi]
    have hvec := spVec_eq A.cplx (fun r => foundAt add A r c) A.rows s tl hi
    rw [← colEntries_eq, ← denseCol_eq] at hvec
    rw [hce] at hvec ⊢
    simp only [List.map_cons, ascColDenseSp]
    have hlast : (((s, gOf (fun r => foundAt add A r c) s) ::
        tl.map fun r => (r, gOf (fun r => foundAt add A r c) r)).getLast (by simp)).1 = (s :: tl).getLast (by simp) := by
      have := List.getLast_map (f := fun r => (r, gOf (fun r => foundAt add A r c) r)) (l := s :: tl) (by simp)
      simp only [List.map_cons] at this
      rw [this]
    simp only [List.map_cons] at hvec
    rw [hlast, hvec]

theorem ascColsSp_eq (add : Nat → Nat → Nat) (d : Nat) (lay : Layout) (A : SpIn) :
    ascColsSp add d lay A = ascCols (ascColL d lay A.cplx) 0 ((List.range A.ncols).map (denseCol add A)) := by
  rw [List.range_eq_range', encCols_map_range' (ascColL d lay A.cplx) (denseCol add A) ascCols (fun _ => rfl)
    (fun _ _ _ => rfl) A.ncols 0]
  unfold ascColsSp colsWithData
  rw [List.range_eq_range']
  have hper : ∀ c, c ∈ List.range' 0 A.ncols →
      ascColSp add d lay A c = ascColL d lay A.cplx c (denseCol add A c) := by
    intro c _
    cases lay
    · exact ascColDenseSp_eq add d A c
    · simp only [ascColL, ascColSp]; rw [ascColBig_S, spStrings_colEntries]
    · simp only [ascColL, ascColSp]; rw [ascColNonbig_S, spStrings_colEntries]
  rw [flatMap_filter_nil]
  · exact flatMap_congr' _ _ _ hper
  · intro c hc hp
    rw [hper c hc]
    have hnil := (colEntries_nil_iff add A c).1 ((isEmpty_false_of_ne _).1 hp)
    exact ascColL_zero d lay A.cplx c _ hnil

/-- **the ASCII file of a sparse input is the file of the ndarray it stands for** -/
theorem encMatAsciiSp_eq (add : Nat → Nat → Nat) (d : Nat) (lay : Layout) (name : List Nat) (form : Nat) (A : SpIn) :
    encMatAsciiSp add d lay name form A = encMatAscii d lay (denseMat add name form A) := by
  have hcols := ascColsSp_eq add d lay A
  unfold encMatAsciiSp encMatAscii
  simp only [asciiHeader_G, denseMat, List.length_map, List.length_range]
  have h1 : (Layout.dense == Layout.bigmat) = false := by decide
  have h2 : (Layout.nonbigmat == Layout.bigmat) = false := by decide
  have h3 : (Layout.bigmat == Layout.bigmat) = true := by decide
  cases lay <;> simp [hcols, ascColL, h1, h2, h3]

end PyYetiVerif.Op4
