import PyYetiVerif.Model.Resample
import Mathlib.Algebra.Order.Floor.Ring
import Mathlib.Data.Rat.Floor
import Mathlib.Analysis.SpecialFunctions.Trigonometric.Basic
import Mathlib.Tactic.Linarith
import Mathlib.Tactic.Ring
import Mathlib.Tactic.FieldSimp
/-! Helper lemmas for C19 (`dsp.resample`). -/
namespace PyYetiVerif.Resample

theorem everyQ_nil {β : Type} (q : Nat) : everyQ q ([] : List β) = [] := by
  rw [everyQ]

theorem everyQ_cons {β : Type} (q : Nat) (x : β) (r : List β) :
    everyQ q (x :: r) = x :: everyQ q (r.drop (q - 1)) := by
  rw [everyQ]

/-- `len(x[::q]) = (len(x) + q - 1) // q` -/
theorem length_everyQ {β : Type} (q : Nat) (hq : 1 ≤ q) :
    ∀ (n : Nat) (l : List β), l.length = n → (everyQ q l).length = (n + q - 1) / q := by
  intro n
  induction n using Nat.strong_induction_on with
  | _ n ih =>
    intro l hl
    cases l with
    | nil =>
        simp only [List.length_nil] at hl
        subst hl
        rw [everyQ_nil]
        simp only [List.length_nil, Nat.zero_add]
        exact (Nat.div_eq_of_lt (by omega)).symm
    | cons x r =>
        simp only [List.length_cons] at hl
        rw [everyQ_cons, List.length_cons,
          ih (r.length - (q - 1)) (by omega) _ (by simp)]
        subst hl
        by_cases h : q - 1 ≤ r.length
        · have : r.length + 1 + q - 1 = (r.length - (q - 1) + q - 1) + q := by omega
          rw [this, Nat.add_div_right _ (by omega)]
        · have h1 : r.length - (q - 1) = 0 := by omega
          rw [h1]
          have h2 : (0 + q - 1) / q = 0 := Nat.div_eq_of_lt (by omega)
          have h3 : (r.length + 1 + q - 1) / q = 1 := by
            apply Nat.div_eq_of_lt_le <;> omega
          rw [h2, h3]

theorem length_stuff {β : Type} (z : β) (p : Nat) (hp : 1 ≤ p) (xs : List β) :
    (stuff z p xs).length = xs.length * p := by
  unfold stuff
  induction xs with
  | nil => simp
  | cons x r ih =>
      simp only [List.flatMap_cons, List.length_append, List.length_cons, List.length_replicate, ih]
      have : p - 1 + 1 = p := by omega
      rw [this]; ring

/-- the length arithmetic in closed form -/
theorem resampleLen_eq (ln p q : Nat) (hq : 1 ≤ q) :
    resampleLen ln p q =
      (ln * (p / Nat.gcd p q) + q / Nat.gcd p q - 1) / (q / Nat.gcd p q) := by
  unfold resampleLen
  have hg : 0 < Nat.gcd p q := Nat.gcd_pos_of_pos_right p (by omega)
  have hq' : 1 ≤ q / Nat.gcd p q :=
    Nat.div_pos (Nat.le_of_dvd (by omega) (Nat.gcd_dvd_right p q)) hg
  simp only
  rw [length_everyQ _ hq' _ _ (List.length_replicate ..)]

/-- `resampleLen` is the least `n` with `n*q ≥ ln*p`, i.e. `⌈ln*p/q⌉` -/
theorem resampleLen_bounds (ln p q : Nat) (hq : 1 ≤ q) :
    ln * p ≤ resampleLen ln p q * q ∧ resampleLen ln p q * q < ln * p + q := by
  rw [resampleLen_eq ln p q hq]
  have hg : 0 < Nat.gcd p q := Nat.gcd_pos_of_pos_right p (by omega)
  obtain ⟨p', hp'⟩ := Nat.gcd_dvd_left p q
  obtain ⟨q', hq''⟩ := Nat.gcd_dvd_right p q
  have hpd : p / Nat.gcd p q = p' := Nat.div_eq_of_eq_mul_right hg hp'
  have hqd : q / Nat.gcd p q = q' := Nat.div_eq_of_eq_mul_right hg hq''
  rw [hpd, hqd]
  have hq1 : 1 ≤ q' := by
    rcases Nat.eq_zero_or_pos q' with h | h
    · rw [h, Nat.mul_zero] at hq''; omega
    · exact h
  have key : ∀ X : Nat, (X / q') * q' ≤ X ∧ X < (X / q') * q' + q' := by
    intro X
    refine ⟨Nat.div_mul_le_self X q', ?_⟩
    have hm := Nat.div_add_mod X q'
    have hlt := Nat.mod_lt X hq1
    rw [Nat.mul_comm] at hm
    omega
  obtain ⟨h1, h2⟩ := key (ln * p' + q' - 1)
  generalize (ln * p' + q' - 1) / q' = n at h1 h2 ⊢
  generalize hgd : Nat.gcd p q = g at *
  have e1 : ln * p = g * (ln * p') := by rw [hp']; ring
  have e2 : n * q = g * (n * q') := by rw [hq'']; ring
  have e3 : ln * p + q = g * (ln * p' + q') := by rw [hp', hq'']; ring
  rw [e3, e1, e2]
  constructor
  · apply Nat.mul_le_mul_left
    omega
  · apply Nat.mul_lt_mul_of_pos_left _ hg
    omega

section pipeline
variable {α : Type} [Add α] [Sub α] [Mul α] [Div α] [LT α] [DecidableLT α]
  [OfNat α 0] [OfNat α 1] [OfNat α 2] [NatCast α] [SincOps α]

omit [Sub α] [Div α] [LT α] [DecidableLT α] [OfNat α 1] [OfNat α 2] [NatCast α] [SincOps α] in
theorem length_firFilter (fir x : List α) : (firFilter fir x).length = x.length := by
  simp [firFilter]

/-- the whole pipeline (zero stuffing, padding, FIR filter, lag removal, decimation) returns
`resampleLen` samples -/
theorem length_resample (data : List α) (p q pts : Nat) (w : List α) (hp : 1 ≤ p) (hq : 1 ≤ q) :
    (resample data p q pts w).length = resampleLen data.length p q := by
  rw [resampleLen_eq _ _ _ hq]
  have hg : 0 < Nat.gcd p q := Nat.gcd_pos_of_pos_right p (by omega)
  have hp' : 1 ≤ p / Nat.gcd p q :=
    Nat.div_pos (Nat.le_of_dvd (by omega) (Nat.gcd_dvd_left p q)) hg
  have hq' : 1 ≤ q / Nat.gcd p q :=
    Nat.div_pos (Nat.le_of_dvd (by omega) (Nat.gcd_dvd_right p q)) hg
  unfold resample
  dsimp only
  generalize p / Nat.gcd p q = p' at hp' ⊢
  generalize q / Nat.gcd p q = q' at hq' ⊢
  simp only [List.length_map]
  have hup : (if 1 < p' then stuff (0 : α) p' (data.map fun x => x - sumL data / (data.length : α))
      else data.map fun x => x - sumL data / (data.length : α)).length = data.length * p' := by
    split
    · rw [length_stuff _ _ hp', List.length_map]
    · have : p' = 1 := by omega
      rw [List.length_map, this, Nat.mul_one]
  have hM : 2 * pts * max p' q' / 2 = pts * max p' q' := by
    rw [Nat.mul_assoc]; exact Nat.mul_div_cancel_left _ (by omega)
  have hfilt : ((firFilter (firTaps p' q' (2 * pts * max p' q') w)
      (List.replicate (2 * pts * max p' q' / 2) 0 ++
        (if 1 < p' then stuff (0 : α) p' (data.map fun x => x - sumL data / (data.length : α))
          else data.map fun x => x - sumL data / (data.length : α)) ++
        List.replicate (2 * pts * max p' q' / 2) 0)).drop (2 * pts * max p' q')).length
      = data.length * p' := by
    rw [List.length_drop, length_firFilter, List.length_append, List.length_append,
      List.length_replicate, hup, hM]
    have : 2 * pts * max p' q' = pts * max p' q' + pts * max p' q' := by
      rw [Nat.mul_assoc]; omega
    omega
  split
  · rw [length_everyQ _ hq' _ _ hfilt]
  · have : q' = 1 := by omega
    rw [hfilt, this]; simp

end pipeline

section taps
open Real
noncomputable instance instSincOpsReal : SincOps ℝ := ⟨Real.sin, Real.pi⟩

theorem sinc_int (k : ℤ) (hk : k ≠ 0) : sinc (k : ℝ) = 0 := by
  have hs : SincOps.sin (SincOps.pi * (k : ℝ)) = (0 : ℝ) := by
    show Real.sin (Real.pi * (k : ℝ)) = 0
    rw [mul_comm]; exact Real.sin_int_mul_pi k
  unfold sinc
  rw [hs]
  split
  · simp
  · split
    · simp
    · rename_i h1 h2
      exfalso
      have : (k : ℝ) = 0 := le_antisymm (not_lt.mp h2) (not_lt.mp h1)
      exact hk (by exact_mod_cast this)

theorem sinc_zero : sinc (0 : ℝ) = 1 := by
  unfold sinc; simp

theorem cutoff_up (p q : Nat) (hq : 1 ≤ q) (hqp : q ≤ p) : (2 : ℝ) * cutoff p q = 1 / (p : ℝ) := by
  unfold cutoff
  have hp0 : (0 : ℝ) < (p : ℝ) := by exact_mod_cast (by omega : 0 < p)
  have hq0 : (0 : ℝ) < (q : ℝ) := by exact_mod_cast (by omega : 0 < q)
  have hle : (1 : ℝ) / (p : ℝ) ≤ 1 / (q : ℝ) :=
    one_div_le_one_div_of_le hq0 (by exact_mod_cast hqp)
  simp only
  split
  · ring
  · rename_i h
    have : (1 : ℝ) / (p : ℝ) = 1 / (q : ℝ) := le_antisymm hle (not_lt.mp h)
    rw [this]; ring

/-- when upsampling (`q ≤ p` after the gcd reduction, `M = 2·pts·p`) the FIR taps vanish at every
non-zero multiple of `p` away from the centre, and the centre tap is the window's centre value:
each original sample is retained as is -/
theorem taps_upsample (p q pts : Nat) (hq : 1 ≤ q) (hqp : q ≤ p) (wn : ℝ) :
    (∀ k : Nat, 1 ≤ k → tap p q (2 * pts * p) wn (pts * p + k * p) = 0) ∧
    (∀ k : Nat, 1 ≤ k → k ≤ pts → tap p q (2 * pts * p) wn (pts * p - k * p) = 0) ∧
    tap p q (2 * pts * p) wn (pts * p) = wn := by
  have hp0 : (p : ℝ) ≠ 0 := by exact_mod_cast (by omega : p ≠ 0)
  have hc := cutoff_up p q hq hqp
  refine ⟨?_, ?_, ?_⟩
  · intro k hk
    unfold tap
    simp only
    rw [hc]
    have : (1 : ℝ) / (p : ℝ) * (((pts * p + k * p : Nat) : ℝ) - ((2 * pts * p : Nat) : ℝ) / 2) = ((k : ℤ) : ℝ) := by
      push_cast; field_simp; ring
    rw [this, sinc_int (k : ℤ) (by omega)]
    ring
  · intro k hk hkp
    unfold tap
    simp only
    rw [hc]
    have hsub : ((pts * p - k * p : Nat) : ℝ) = (pts : ℝ) * p - (k : ℝ) * p := by
      rw [Nat.cast_sub (Nat.mul_le_mul_right p hkp)]; push_cast; ring
    have : (1 : ℝ) / (p : ℝ) * (((pts * p - k * p : Nat) : ℝ) - ((2 * pts * p : Nat) : ℝ) / 2) = ((-(k : ℤ) : ℤ) : ℝ) := by
      rw [hsub]; push_cast; field_simp; ring
    rw [this, sinc_int (-(k : ℤ)) (by omega)]
    ring
  · unfold tap
    simp only
    rw [hc]
    have : (1 : ℝ) / (p : ℝ) * (((pts * p : Nat) : ℝ) - ((2 * pts * p : Nat) : ℝ) / 2) = 0 := by
      push_cast; ring
    rw [this, sinc_zero]
    field_simp

end taps

end PyYetiVerif.Resample
