import PyYetiVerif.Model.ParSched
/-! Lemmas for C09 (core Lean only). -/
namespace PyYetiVerif.ParSched

/-! ### footprints -/

theorem ixCovers_task (j : Nat) (ps : List Ix) (is : List Nat) (p : Nat)
    (hc : ixCovers j ps is = true) (hp : ps[p]? = some Ix.task)
    (hw : (ps.take p).all (fun x => x != Ix.whole) = true) : is[p]? = some j := by
  induction ps generalizing is p with
  | nil => simp at hp
  | cons x xs ih =>
      cases p with
      | zero =>
          simp only [List.getElem?_cons_zero, Option.some.injEq] at hp
          subst hp
          cases is with
          | nil => simp [ixCovers] at hc
          | cons i is' =>
              simp only [ixCovers, Bool.and_eq_true, beq_iff_eq] at hc
              simp [hc.1]
      | succ p' =>
          simp only [List.getElem?_cons_succ] at hp
          simp only [List.take_succ_cons, List.all_cons, Bool.and_eq_true] at hw
          have hx : x ≠ Ix.whole := by simpa using hw.1
          cases is with
          | nil => cases x <;> simp_all [ixCovers]
          | cons i is' =>
              have hrest : ixCovers j xs is' = true := by
                cases x <;> simp_all [ixCovers]
              simpa using ih is' p' hrest hp hw.2

theorem write_owned (fp : Footprint) (hwf : wellFormed fp = true) (w : Access)
    (hw : w ∈ fp.writes) (j : Nat) (c : Cell) (hc : covers w j c = true) :
    ownerOf fp c = some j := by
  simp only [wellFormed, Bool.and_eq_true, List.all_eq_true] at hwf
  have h := hwf.1 w hw
  simp only [covers, Bool.and_eq_true, beq_iff_eq] at hc
  unfold ownerOf
  rw [← hc.1]
  cases hp : taskPos fp w.arr with
  | none => simp [hp] at h
  | some p =>
      simp only [hp, Bool.and_eq_true, beq_iff_eq] at h
      exact ixCovers_task j w.idx c.2 p hc.2 h.1 h.2

theorem read_visible (fp : Footprint) (hwf : wellFormed fp = true) (r : Access)
    (hr : r ∈ fp.reads) (j : Nat) (c : Cell) (hc : covers r j c = true) :
    ownerOf fp c = none ∨ ownerOf fp c = some j := by
  simp only [wellFormed, Bool.and_eq_true, List.all_eq_true] at hwf
  have h := hwf.2 r hr
  simp only [covers, Bool.and_eq_true, beq_iff_eq] at hc
  unfold ownerOf
  rw [← hc.1]
  cases hp : taskPos fp r.arr with
  | none => left; rfl
  | some p =>
      right
      simp only [hp, Bool.and_eq_true, beq_iff_eq] at h
      exact ixCovers_task j r.idx c.2 p hc.2 h.1 h.2

/-! ### abstract machine -/

variable {L V : Type}

theorem applyWrites_untouched (ws : List (Cell × V)) (m : Mem V) (c : Cell)
    (h : ∀ w ∈ ws, w.1 ≠ c) : applyWrites ws m c = m c := by
  unfold applyWrites
  induction ws generalizing m with
  | nil => rfl
  | cons w ws ih =>
      simp only [List.foldl_cons]
      rw [ih _ (fun x hx => h x (List.mem_cons_of_mem _ hx))]
      have : w.1 ≠ c := h w (by simp)
      simp [Ne.symm this]

theorem applyWrites_congr (ws : List (Cell × V)) (m m' : Mem V) (c : Cell) (h : m c = m' c) :
    applyWrites ws m c = applyWrites ws m' c := by
  unfold applyWrites
  induction ws generalizing m m' with
  | nil => exact h
  | cons w ws ih =>
      simp only [List.foldl_cons]
      apply ih
      by_cases hc : c = w.1 <;> simp [hc, h]

/-- what task `j` may look at: read-only cells and its own cells -/
def view (owner : Cell → Option Nat) (j : Nat) (c : Cell) : Prop :=
  owner c = none ∨ owner c = some j

structure Hyp (S : System L V) (owner : Cell → Option Nat) : Prop where
  writesOwned : ∀ j l m, ∀ w ∈ (S.step j l m).2, owner w.1 = some j
  localView : ∀ j l m m', (∀ c, view owner j c → m c = m' c) → S.step j l m = S.step j l m'
  haltedNop : ∀ j l m, S.halted j l = true → S.step j l m = (l, [])

/-- the invariant: every task is where it would be running alone, and sees what it would see -/
structure Inv (S : System L V) (owner : Cell → Option Nat) (m0 : Mem V)
    (g : Global L V) (k : Nat → Nat) : Prop where
  loc : ∀ j, g.loc j = (S.solo m0 j (k j)).1
  mem : ∀ j c, view owner j c → g.mem c = (S.solo m0 j (k j)).2 c
  idle : ∀ c, (∀ j, owner c = some j → ¬ j < S.n) → g.mem c = m0 c

theorem inv_init (S : System L V) (owner : Cell → Option Nat) (m0 : Mem V) :
    Inv S owner m0 { loc := S.init, mem := m0 } (fun _ => 0) :=
  ⟨fun _ => rfl, fun _ _ _ => rfl, fun _ _ => rfl⟩

theorem inv_fire (S : System L V) (owner : Cell → Option Nat) (m0 : Mem V) (H : Hyp S owner)
    (g : Global L V) (k : Nat → Nat) (hI : Inv S owner m0 g k) (j : Nat) (hj : j < S.n) :
    Inv S owner m0 (S.fire g j) (fun i => if i = j then k j + 1 else k i) := by
  -- the step taken in the global state is the step taken alone
  have hstep : S.step j (g.loc j) g.mem
      = S.step j (S.solo m0 j (k j)).1 (S.solo m0 j (k j)).2 := by
    rw [hI.loc j]
    exact H.localView j _ _ _ (fun c hc => hI.mem j c hc)
  refine ⟨?_, ?_, ?_⟩
  · intro i
    by_cases hij : i = j
    · subst hij; simp [System.fire, System.solo, hstep]
    · simp [System.fire, hij, hI.loc i]
  · intro i c hv
    by_cases hij : i = j
    · subst hij
      simp only [System.fire, if_true, System.solo]
      rw [hstep]
      exact applyWrites_congr _ _ _ c (hI.mem i c hv)
    · simp only [System.fire, hij, if_false]
      rw [applyWrites_untouched]
      · exact hI.mem i c hv
      · intro w hw hwc
        have ho := H.writesOwned j _ _ w hw
        rw [hwc] at ho
        rcases hv with hv | hv
        · rw [hv] at ho; cases ho
        · rw [hv] at ho; exact hij (Option.some.inj ho)
  · intro c hc
    simp only [System.fire]
    rw [applyWrites_untouched]
    · exact hI.idle c hc
    · intro w hw hwc
      have ho := H.writesOwned j _ _ w hw
      rw [hwc] at ho
      exact hc j ho hj

theorem inv_run (S : System L V) (owner : Cell → Option Nat) (m0 : Mem V) (H : Hyp S owner)
    (sched : List Nat) (g : Global L V) (k : Nat → Nat) (hI : Inv S owner m0 g k) :
    ∃ k', Inv S owner m0
      (sched.foldl (fun g j => if j < S.n then S.fire g j else g) g) k' := by
  induction sched generalizing g k with
  | nil => exact ⟨k, hI⟩
  | cons j js ih =>
      simp only [List.foldl_cons]
      by_cases hj : j < S.n
      · simp only [hj, if_true]
        exact ih _ _ (inv_fire S owner m0 H g k hI j hj)
      · simp only [hj, if_false]
        exact ih _ _ hI

theorem solo_halted_succ (S : System L V) (owner : Cell → Option Nat) (m0 : Mem V)
    (H : Hyp S owner) (j k : Nat) (hh : S.halted j (S.solo m0 j k).1 = true) :
    S.solo m0 j (k + 1) = S.solo m0 j k := by
  simp only [System.solo]
  rw [H.haltedNop j _ _ hh]
  rfl

theorem solo_halted_add (S : System L V) (owner : Cell → Option Nat) (m0 : Mem V)
    (H : Hyp S owner) (j k d : Nat) (hh : S.halted j (S.solo m0 j k).1 = true) :
    S.solo m0 j (k + d) = S.solo m0 j k := by
  induction d with
  | zero => rfl
  | succ d ih =>
      have : S.halted j (S.solo m0 j (k + d)).1 = true := by rw [ih]; exact hh
      rw [← Nat.add_assoc, solo_halted_succ S owner m0 H j (k + d) this, ih]

theorem solo_halted_eq (S : System L V) (owner : Cell → Option Nat) (m0 : Mem V)
    (H : Hyp S owner) (j k k' : Nat) (hh : S.halted j (S.solo m0 j k).1 = true)
    (hh' : S.halted j (S.solo m0 j k').1 = true) : S.solo m0 j k = S.solo m0 j k' := by
  rcases Nat.le_total k k' with h | h
  · obtain ⟨d, rfl⟩ := Nat.exists_eq_add_of_le h
    exact (solo_halted_add S owner m0 H j k d hh).symm
  · obtain ⟨d, rfl⟩ := Nat.exists_eq_add_of_le h
    exact solo_halted_add S owner m0 H j k' d hh'

end PyYetiVerif.ParSched
