import PyYetiVerif.Model.Fixtime
import Mathlib.Algebra.Order.Field.Basic
import Mathlib.Algebra.Order.Ring.Abs
import Mathlib.Tactic.Linarith
import Mathlib.Tactic.Ring
/-! Helper lemmas for C19 (nearest / previous sample rules of `fixtime`). -/
namespace PyYetiVerif.Fixtime

section order
variable {α : Type} [LinearOrder α]

theorem ssLeft_cons (x : α) (r : List α) (v : α) :
    ssLeft (x :: r) v = if x < v then ssLeft r v + 1 else 0 := by
  unfold ssLeft
  rw [List.takeWhile_cons]
  split <;> simp_all

theorem ssRight_cons (x : α) (r : List α) (v : α) :
    ssRight (x :: r) v = if x ≤ v then ssRight r v + 1 else 0 := by
  unfold ssRight
  rw [List.takeWhile_cons]
  split <;> simp_all

theorem ssLeft_le_length : ∀ (a : List α) (v : α), ssLeft a v ≤ a.length
  | [], _ => by simp [ssLeft]
  | x :: r, v => by
      rw [ssLeft_cons]; split
      · simpa using ssLeft_le_length r v
      · omega

theorem ssRight_le_length : ∀ (a : List α) (v : α), ssRight a v ≤ a.length
  | [], _ => by simp [ssRight]
  | x :: r, v => by
      rw [ssRight_cons]; split
      · simpa using ssRight_le_length r v
      · omega

/-- everything before the insertion point is `< v` -/
theorem lt_of_lt_ssLeft : ∀ (a : List α) (v : α) (j : Nat) (hj : j < a.length),
    j < ssLeft a v → a[j] < v
  | [], _, _, hj, _ => by simp at hj
  | x :: r, v, j, hj, h => by
      rw [ssLeft_cons] at h
      split at h
      · cases j with
        | zero => simpa
        | succ j =>
            simp only [List.getElem_cons_succ]
            exact lt_of_lt_ssLeft r v j (by simpa using hj) (by omega)
      · omega

/-- in a sorted list everything from the insertion point on is `≥ v` -/
theorem le_of_ssLeft_le : ∀ (a : List α) (v : α), a.Pairwise (· ≤ ·) →
    ∀ (j : Nat) (hj : j < a.length), ssLeft a v ≤ j → v ≤ a[j]
  | [], _, _, _, hj, _ => by simp at hj
  | x :: r, v, hs, j, hj, h => by
      rw [ssLeft_cons] at h
      rw [List.pairwise_cons] at hs
      split at h
      · cases j with
        | zero => omega
        | succ j =>
            simp only [List.getElem_cons_succ]
            exact le_of_ssLeft_le r v hs.2 j (by simpa using hj) (by omega)
      · rename_i hx
        have hvx : v ≤ x := not_lt.mp hx
        cases j with
        | zero => simpa
        | succ j =>
            simp only [List.getElem_cons_succ]
            exact le_trans hvx (hs.1 _ (List.getElem_mem _))

theorem le_of_lt_ssRight : ∀ (a : List α) (v : α) (j : Nat) (hj : j < a.length),
    j < ssRight a v → a[j] ≤ v
  | [], _, _, hj, _ => by simp at hj
  | x :: r, v, j, hj, h => by
      rw [ssRight_cons] at h
      split at h
      · cases j with
        | zero => simpa
        | succ j =>
            simp only [List.getElem_cons_succ]
            exact le_of_lt_ssRight r v j (by simpa using hj) (by omega)
      · omega

theorem lt_of_ssRight_le : ∀ (a : List α) (v : α), a.Pairwise (· ≤ ·) →
    ∀ (j : Nat) (hj : j < a.length), ssRight a v ≤ j → v < a[j]
  | [], _, _, _, hj, _ => by simp at hj
  | x :: r, v, hs, j, hj, h => by
      rw [ssRight_cons] at h
      rw [List.pairwise_cons] at hs
      split at h
      · cases j with
        | zero => omega
        | succ j =>
            simp only [List.getElem_cons_succ]
            exact lt_of_ssRight_le r v hs.2 j (by simpa using hj) (by omega)
      · rename_i hx
        have hvx : v < x := not_le.mp hx
        cases j with
        | zero => simpa
        | succ j =>
            simp only [List.getElem_cons_succ]
            exact lt_of_lt_of_le hvx (hs.1 _ (List.getElem_mem _))

theorem sorted_getElem_le {a : List α} (hs : a.Pairwise (· ≤ ·)) {i j : Nat} (hij : i ≤ j)
    (hj : j < a.length) : a[i]'(lt_of_le_of_lt hij hj) ≤ a[j] := by
  rcases Nat.eq_or_lt_of_le hij with h | h
  · subst h; exact le_refl _
  · exact List.pairwise_iff_getElem.mp hs i j _ hj h

/-- `searchsorted(a, a[k])` in a strictly increasing list is `k` -/
theorem ssLeft_getElem_of_strict {a : List α} (hs : a.Pairwise (· < ·)) (k : Nat)
    (hk : k < a.length) : ssLeft a a[k] = k := by
  have hs' : a.Pairwise (· ≤ ·) := hs.imp le_of_lt
  apply le_antisymm
  · by_contra hlt
    have := lt_of_lt_ssLeft a a[k] k hk (not_le.mp hlt)
    exact lt_irrefl _ this
  · by_contra hlt
    have hlt : ssLeft a a[k] < k := not_le.mp hlt
    have h1 := le_of_ssLeft_le a a[k] hs' (ssLeft a a[k]) (by omega) (le_refl _)
    have h2 := List.pairwise_iff_getElem.mp hs (ssLeft a a[k]) k (by omega) hk hlt
    exact absurd h2 (not_lt.mpr h1)

/-- `_find_closest_previous_times`: the last sample whose time is `≤ t` -/
theorem prev_spec (told : List α) (t : α) (hs : told.Pairwise (· ≤ ·)) (hn : 0 < told.length)
    (h0 : told[0] ≤ t) :
    ∃ (hi : prevIdx told t < told.length), told[prevIdx told t] ≤ t ∧
      ∀ (j : Nat) (hj : j < told.length), prevIdx told t < j → t < told[j] := by
  have hr := ssRight_le_length told t
  have hr1 : 1 ≤ ssRight told t := by
    by_contra h
    have := lt_of_ssRight_le told t hs 0 hn (by omega)
    exact absurd h0 (not_le.mpr this)
  unfold prevIdx
  refine ⟨by omega, le_of_lt_ssRight told t _ (by omega) (by omega), ?_⟩
  intro j hj h
  exact lt_of_ssRight_le told t hs j hj (by omega)

theorem prev_zero (told : List α) (t : α) (h : ∀ x ∈ told, t < x) : prevIdx told t = 0 := by
  unfold prevIdx
  by_contra hne
  have h1 : 0 < ssRight told t := by omega
  have hlen := ssRight_le_length told t
  have := le_of_lt_ssRight told t 0 (by omega) h1
  exact absurd (h _ (List.getElem_mem _)) (not_lt.mpr this)

end order

theorem pyGet_natCast {β : Type} (a : List β) (i : Nat) : pyGet a (i : Int) = a[i]? := by
  unfold pyGet
  simp

theorem pyGet_sub_one {β : Type} (a : List β) (i : Nat) (hi : 1 ≤ i) :
    pyGet a ((i : Int) - 1) = a[i - 1]? := by
  have : ((i : Int) - 1) = ((i - 1 : Nat) : Int) := by omega
  rw [this, pyGet_natCast]

theorem pyGet_neg_one {β : Type} (a : List β) (h : 1 ≤ a.length) :
    pyGet a ((0 : Nat) - 1 : Int) = a[a.length - 1]? := by
  unfold pyGet
  have h1 : ((0 : Nat) - 1 : Int) < 0 := by omega
  have h2 : ((0 : Nat) - 1 : Int).natAbs = 1 := by omega
  rw [if_pos h1, h2, if_neg (by omega)]

section field
variable {α : Type} [Field α] [LinearOrder α] [IsStrictOrderedRing α]

theorem absd_eq_abs (a b : α) : absd a b = |a - b| := by
  unfold absd
  split
  · rw [abs_sub_comm, abs_of_pos]; linarith
  · rw [abs_of_nonneg]; linarith

theorem abs_sub_of_le {x t : α} (h : x ≤ t) : |x - t| = t - x := by
  rw [abs_sub_comm, abs_of_nonneg]; linarith

theorem abs_sub_of_ge {x t : α} (h : t ≤ x) : |x - t| = x - t := by
  rw [abs_of_nonneg]; linarith

/-- `_find_closest_times` on a sorted `told` that is not constant: the returned index is a valid
(non-negative) index, minimises `|told[i] - t|`, and among minimisers its time is the earliest. -/
theorem closest_spec (told : List α) (t : α) (hs : told.Pairwise (· ≤ ·))
    (hn : 0 < told.length) (hne : told[0] < told[told.length - 1]) :
    ∃ (i : Nat) (hi : i < told.length), closest told t = some (i : Int) ∧
      (∀ (j : Nat) (hj : j < told.length), |told[i] - t| ≤ |told[j] - t|) ∧
      (∀ (j : Nat) (hj : j < told.length), |told[j] - t| = |told[i] - t| → told[i] ≤ told[j]) := by
  have hn2 : 2 ≤ told.length := by
    by_contra h
    have h1 : told.length = 1 := by omega
    have : told[0] = told[told.length - 1] := by congr 1; omega
    exact absurd hne (by rw [this]; exact lt_irrefl _)
  have hk := ssLeft_le_length told t
  unfold closest
  simp only [absd_eq_abs]
  by_cases hkn : ssLeft told t = told.length
  · -- every sample is earlier than `t`
    rw [if_pos hkn]
    have hlast : told[told.length - 1] < t :=
      lt_of_lt_ssLeft told t _ (by omega) (by omega)
    have hall : ∀ (j : Nat) (hj : j < told.length), told[j] ≤ told[told.length - 1] :=
      fun j hj => sorted_getElem_le hs (by omega) (by omega)
    rw [pyGet_natCast, pyGet_sub_one _ _ (by omega),
      List.getElem?_eq_getElem (show told.length - 1 < told.length by omega),
      List.getElem?_eq_getElem (show told.length - 1 - 1 < told.length by omega)]
    have hb : told[told.length - 1 - 1] ≤ told[told.length - 1] := hall _ (by omega)
    simp only
    split
    · rename_i hc
      rw [abs_sub_of_le (le_trans hb hlast.le), abs_sub_of_le hlast.le] at hc
      have heq : told[told.length - 1 - 1] = told[told.length - 1] := le_antisymm hb (by linarith)
      refine ⟨told.length - 1 - 1, by omega, by congr 1; omega, ?_, ?_⟩
      · intro j hj
        rw [heq, abs_sub_of_le hlast.le, abs_sub_of_le (le_trans (hall j hj) hlast.le)]
        have := hall j hj; linarith
      · intro j hj h
        rw [heq, abs_sub_of_le hlast.le, abs_sub_of_le (le_trans (hall j hj) hlast.le)] at h
        rw [heq]; linarith
    · refine ⟨told.length - 1, by omega, rfl, ?_, ?_⟩
      · intro j hj
        rw [abs_sub_of_le hlast.le, abs_sub_of_le (le_trans (hall j hj) hlast.le)]
        have := hall j hj; linarith
      · intro j hj h
        rw [abs_sub_of_le hlast.le, abs_sub_of_le (le_trans (hall j hj) hlast.le)] at h
        linarith
  · rw [if_neg hkn]
    have hklt : ssLeft told t < told.length := by omega
    have ha : t ≤ told[ssLeft told t] := le_of_ssLeft_le told t hs _ hklt (le_refl _)
    have hge : ∀ (j : Nat) (hj : j < told.length), ssLeft told t ≤ j → told[ssLeft told t] ≤ told[j] :=
      fun j hj h => sorted_getElem_le hs h hj
    rw [pyGet_natCast, List.getElem?_eq_getElem hklt]
    by_cases hk0 : ssLeft told t = 0
    · -- `t` is not later than the first sample: `told[index - 1]` is Python's `told[-1]`
      have hwrap : pyGet told (((ssLeft told t : Nat) : Int) - 1) = some told[told.length - 1] := by
        rw [hk0]
        have := pyGet_neg_one told (by omega)
        simp only [Nat.cast_zero] at this ⊢
        rw [this, List.getElem?_eq_getElem (by omega)]
      rw [hwrap]
      simp only
      have h0 : told[ssLeft told t] = told[0] := by congr 1
      have ht0 : t ≤ told[0] := h0 ▸ ha
      rw [if_neg]
      · refine ⟨ssLeft told t, hklt, rfl, ?_, ?_⟩
        · intro j hj
          have := hge j hj (by omega)
          rw [abs_sub_of_ge ha, abs_sub_of_ge (le_trans ha this)]; linarith
        · intro j hj _
          exact hge j hj (by omega)
      · rw [h0, abs_sub_of_ge ht0, abs_sub_of_ge (le_trans ht0 hne.le)]
        intro h; linarith
    · have hk1 : 1 ≤ ssLeft told t := by omega
      have hb : told[ssLeft told t - 1] < t := lt_of_lt_ssLeft told t _ (by omega) (by omega)
      have hle : ∀ (j : Nat) (hj : j < told.length), j ≤ ssLeft told t - 1 →
          told[j] ≤ told[ssLeft told t - 1] := fun j hj h => sorted_getElem_le hs h (by omega)
      rw [pyGet_sub_one _ _ hk1, List.getElem?_eq_getElem (show ssLeft told t - 1 < told.length by omega)]
      simp only
      rw [abs_sub_of_le hb.le, abs_sub_of_ge ha]
      split
      · rename_i hc
        refine ⟨ssLeft told t - 1, by omega, by congr 1; omega, ?_, ?_⟩
        · intro j hj
          rw [abs_sub_of_le hb.le]
          by_cases hj' : j ≤ ssLeft told t - 1
          · have := hle j hj hj'
            rw [abs_sub_of_le (le_trans this hb.le)]; linarith
          · have := hge j hj (by omega)
            rw [abs_sub_of_ge (le_trans ha this)]; linarith
        · intro j hj h
          rw [abs_sub_of_le hb.le] at h
          by_cases hj' : j ≤ ssLeft told t - 1
          · have := hle j hj hj'
            rw [abs_sub_of_le (le_trans this hb.le)] at h; linarith
          · have := hge j hj (by omega)
            exact le_trans (le_trans hb.le ha) this
      · rename_i hc
        have hc : told[ssLeft told t] - t < t - told[ssLeft told t - 1] := not_le.mp hc
        refine ⟨ssLeft told t, hklt, rfl, ?_, ?_⟩
        · intro j hj
          rw [abs_sub_of_ge ha]
          by_cases hj' : j ≤ ssLeft told t - 1
          · have := hle j hj hj'
            rw [abs_sub_of_le (le_trans this hb.le)]; linarith
          · have := hge j hj (by omega)
            rw [abs_sub_of_ge (le_trans ha this)]; linarith
        · intro j hj h
          rw [abs_sub_of_ge ha] at h
          by_cases hj' : j ≤ ssLeft told t - 1
          · have := hle j hj hj'
            rw [abs_sub_of_le (le_trans this hb.le)] at h; linarith
          · exact hge j hj (by omega)

theorem strict_index_eq {told : List α} (hs : told.Pairwise (· < ·)) {i k : Nat}
    (hi : i < told.length) (hk : k < told.length) (h : told[i] = told[k]) : i = k := by
  rcases Nat.lt_trichotomy i k with hlt | heq | hgt
  · exact absurd h (ne_of_lt (List.pairwise_iff_getElem.mp hs i k hi hk hlt))
  · exact heq
  · exact absurd h.symm (ne_of_lt (List.pairwise_iff_getElem.mp hs k i hk hi hgt))

/-- a time that is one of the (strictly increasing) old times selects its own sample -/
theorem closest_self (told : List α) (hs : told.Pairwise (· < ·)) (hn : 2 ≤ told.length)
    (k : Nat) (hk : k < told.length) : closest told told[k] = some (k : Int) := by
  have hs' : told.Pairwise (· ≤ ·) := hs.imp le_of_lt
  have hne : told[0] < told[told.length - 1] :=
    List.pairwise_iff_getElem.mp hs 0 (told.length - 1) (by omega) (by omega) (by omega)
  obtain ⟨i, hi, hc, hmin, _⟩ := closest_spec told told[k] hs' (by omega) hne
  have h0 := hmin k hk
  rw [sub_self, abs_zero] at h0
  have : told[i] = told[k] := by
    have := abs_nonneg (told[i] - told[k])
    have h1 : |told[i] - told[k]| = 0 := le_antisymm h0 this
    exact sub_eq_zero.mp (abs_eq_zero.mp h1)
  rw [hc, strict_index_eq hs hi hk this]

/-- with the old times shifted back by a tolerance `δ` smaller than every gap, a time that is one
of the old times still selects its own sample under the previous-value rule -/
theorem prev_self_shift (told : List α) (hs : told.Pairwise (· < ·)) (δ : α) (hδ : 0 ≤ δ)
    (hgap : ∀ (j : Nat) (hj : j + 1 < told.length), δ < told[j + 1] - told[j])
    (k : Nat) (hk : k < told.length) : prevIdx (told.map (· - δ)) told[k] = k := by
  have hs' : told.Pairwise (· ≤ ·) := hs.imp le_of_lt
  have hsm : (told.map (· - δ)).Pairwise (· ≤ ·) := by
    rw [List.pairwise_map]
    exact hs'.imp (fun h => by linarith)
  have hlen : (told.map (· - δ)).length = told.length := List.length_map _
  have h0k : told[0] ≤ told[k] := sorted_getElem_le hs' (by omega) hk
  obtain ⟨hi, hle, hgt⟩ := prev_spec (told.map (· - δ)) told[k] hsm (by omega)
    (by rw [List.getElem_map]; linarith)
  rw [List.getElem_map] at hle
  rcases Nat.lt_trichotomy (prevIdx (told.map (· - δ)) told[k]) k with hlt | heq | hgt'
  · have := hgt k (by omega) hlt
    rw [List.getElem_map] at this
    linarith
  · exact heq
  · exfalso
    have hi' : prevIdx (told.map (· - δ)) told[k] < told.length := by omega
    have hg := hgap (prevIdx (told.map (· - δ)) told[k] - 1) (by omega)
    have hkm : told[k] ≤ told[prevIdx (told.map (· - δ)) told[k] - 1] :=
      sorted_getElem_le hs' (by omega) (by omega)
    have hidx : told[prevIdx (told.map (· - δ)) told[k] - 1 + 1] =
        told[prevIdx (told.map (· - δ)) told[k]] := by congr 1; omega
    rw [hidx] at hg
    linarith

end field

end PyYetiVerif.Fixtime
