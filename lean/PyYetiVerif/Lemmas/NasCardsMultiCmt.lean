import PyYetiVerif.Lemmas.NasCardsMulti
/-! C12: `keep_comments=True` — every comment line of the file is kept, once, in file order. -/
set_option linter.unusedSimpArgs false
set_option linter.unusedVariables false
namespace PyYetiVerif.NasCards
open PyYetiVerif.PyFloat PyYetiVerif.NasFloat

/-- the comments among the items collected -/
def commentsOf : List Item → List Str
  | [] => []
  | .comment s :: r => s :: commentsOf r
  | .card _ :: r => commentsOf r

/-- the lines set aside as comments -/
def cmtLines (ls : List TLine) : List Str := (ls.filter (·.cmt)).map (·.txt)

theorem commentsOf_append (a b : List Item) : commentsOf (a ++ b) = commentsOf a ++ commentsOf b := by
  induction a with
  | nil => rfl
  | cons i a ih => cases i <;> simp [commentsOf, ih]

theorem commentsOf_comments (l : List Str) : commentsOf (l.map Item.comment) = l := by
  induction l with
  | nil => rfl
  | cons s l ih => simp [commentsOf, ih]

theorem dropVisible_comments (k : Nat) (ls : List TLine) :
    (dropVisible k ls).1 ++ cmtLines (dropVisible k ls).2 = cmtLines ls := by
  induction ls generalizing k with
  | nil => cases k <;> simp [dropVisible, cmtLines]
  | cons t ls ih =>
    cases k with
    | zero => simp [dropVisible]
    | succ k =>
      rw [dropVisible]
      cases hc : t.cmt with
      | true =>
        simp only [if_true, List.cons_append]
        have := ih (k + 1)
        simp only [cmtLines, List.filter_cons, hc, if_true, List.map_cons] at this ⊢
        rw [this]
      | false =>
        simp only [Bool.false_eq_true, if_false]
        have := ih k
        simp only [cmtLines, List.filter_cons, hc, Bool.false_eq_true, if_false] at this ⊢
        exact this

/-- **no comment is lost, duplicated or reordered**: the comments among the collected items are
the pending ones followed by the comment lines of the rest of the file, in file order — wherever
they stand (before a card, between a card and its continuation lines, after the last card). -/
theorem rdItemsGo_comments (cv : Str → NasVal) (bl : NasVal) (keep : Bool) :
    ∀ (f : Nat) (ls : List TLine) (pend : List Str), ls.length ≤ f →
      commentsOf (rdItemsGo cv bl keep f pend ls) = pend ++ cmtLines ls
  | 0, ls, pend, h => by
    have : ls = [] := List.eq_nil_of_length_eq_zero (by omega)
    subst this
    simp [rdItemsGo, commentsOf_comments, cmtLines]
  | f + 1, [], pend, h => by
    simp [rdItemsGo, commentsOf_comments, cmtLines]
  | f + 1, t :: rest, pend, h => by
    have hr : rest.length ≤ f := by simp only [List.length_cons] at h; omega
    rw [rdItemsGo]
    cases hc : t.cmt with
    | true =>
      simp only [if_true]
      rw [rdItemsGo_comments cv bl keep f rest _ hr]
      simp [cmtLines, List.filter_cons, hc]
    | false =>
      simp only [Bool.false_eq_true, if_false]
      cases hm : t.mat with
      | true =>
        simp only [if_true]
        have hd := dropVisible_length (rdOneG cv bl keep t.txt (visible rest)).2 rest
        rw [commentsOf_append, commentsOf_comments]
        simp only [commentsOf]
        rw [rdItemsGo_comments cv bl keep f _ _ (le_trans hd hr), dropVisible_comments]
        simp [cmtLines, List.filter_cons, hc]
      | false =>
        simp only [Bool.false_eq_true, if_false]
        rw [rdItemsGo_comments cv bl keep f rest _ hr]
        simp [cmtLines, List.filter_cons, hc]

theorem cmtLines_prep (m : Str → Bool) (ls : List Str) :
    cmtLines (prepLines true m ls) = ls.filter isCommentLine := by
  induction ls with
  | nil => rfl
  | cons l ls ih =>
    simp only [prepLines, List.map_cons, cmtLines] at ih ⊢
    by_cases hl : isCommentLine l = true
    · simp [prepLine, hl, List.filter_cons]
      exact ih
    · have hl' : isCommentLine l = false := by simpa using hl
      simp [prepLine, hl', List.filter_cons]
      exact ih

end PyYetiVerif.NasCards
