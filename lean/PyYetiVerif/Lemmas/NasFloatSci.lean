import PyYetiVerif.Lemmas.NasFloatFixed
import PyYetiVerif.Lemmas.PyFloatLog
import PyYetiVerif.Lemmas.PyFloatBits
/-! C12: the exact text of the scientific fall-backs `_format_scientific8/16`, `format_double16`
(`sciCore`): `%.qe`, split at `e`, `int(sexponent)`, `float(svalue)` (nearest double), the second
rounding `%.Pf`, `strip("0")`, assembly with the sign-as-exponent — as a field of the grammar
whose digits are a nearest integer `N3` to `N / 10^(q-P)` (`second_round`). -/
set_option linter.unusedSimpArgs false
set_option linter.unusedVariables false
namespace PyYetiVerif.NasFloat
open PyYetiVerif.PyFloat PyYetiVerif.Generated.NasFloat

def is0 (c : Char) : Bool := ['0'].contains c

theorem rstrip0_zeros (fd : Str) : ∃ n, fd = rstripBy is0 fd ++ List.replicate n '0' := by
  obtain ⟨z, hz, hzall, _⟩ := rstripBy_split is0 fd
  refine ⟨z.length, ?_⟩
  have : z = List.replicate z.length '0' := by
    apply List.eq_replicate_iff.2
    refine ⟨rfl, ?_⟩
    intro c hc
    have h1 := hzall c hc
    simpa [is0] using h1
  rw [← this]; exact hz

/-- `svalue3.strip("0")` for a rendering `[-]I.ddd` with `I ≥ 1` -/
theorem strip0_mant (neg : Bool) (I : Nat) (hI : 1 ≤ I) (fd : Str) :
    stripChars ['0'] ((if neg then ['-'] else []) ++ natDigits I ++ '.' :: fd) =
      (if neg then ['-'] else []) ++ (natDigits I ++ '.' :: rstripBy is0 fd) := by
  have hstrip : ∀ s, stripChars ['0'] s = rstripBy is0 (lstripBy is0 s) := fun _ => rfl
  have hdot : is0 '.' = false := by decide
  obtain ⟨c, u, hcu, hc0, hcd⟩ := natDigits_head_ne_zero I hI
  have hc : is0 c = false := by simp [is0, hc0]
  rw [hstrip]
  cases neg with
  | true =>
    simp only [if_true, List.singleton_append, List.cons_append, List.nil_append]
    rw [lstripBy_cons_neg _ _ (by decide : is0 '-' = false)]
    have e : '-' :: (natDigits I ++ '.' :: fd) = ('-' :: natDigits I) ++ '.' :: fd := by simp
    rw [e, rstripBy_append_keep _ _ _ hdot]; simp
  | false =>
    simp only [Bool.false_eq_true, if_false, List.nil_append]
    rw [hcu]
    simp only [List.cons_append]
    rw [lstripBy_cons_neg _ _ hc]
    have e : c :: (u ++ '.' :: fd) = (c :: u) ++ '.' :: fd := by simp
    rw [e, rstripBy_append_keep _ _ _ hdot]; simp

/-- `str(exponent).strip("-+")` -/
theorem strip_sign_intStr (e : Int) : stripChars ['-', '+'] (intStr e) = natDigits e.natAbs := by
  have hstrip : ∀ s, stripChars ['-', '+'] s =
      rstripBy (fun c => ['-', '+'].contains c) (lstripBy (fun c => ['-', '+'].contains c) s) := fun _ => rfl
  have hdig : ∀ c, isDigit c = true → (['-', '+'].contains c) = false := by
    intro c hc
    have h1 := isDigit_ne c '-' hc (by decide)
    have h2 := isDigit_ne c '+' hc (by decide)
    simp [h1, h2]
  obtain ⟨c, u, hcu, hcd⟩ := natDigits_head_digit e.natAbs
  obtain ⟨w, hw⟩ := natDigits_last_digit e.natAbs
  have hlast : (['-', '+'].contains (digitChar (e.natAbs % 10))) = false :=
    hdig _ (digitChar_isDigit' _ (Nat.mod_lt _ (by norm_num)))
  have hr : rstripBy (fun c => ['-', '+'].contains c) (natDigits e.natAbs) = natDigits e.natAbs := by
    rw [hw]; exact rstripBy_snoc_keep _ _ _ hlast
  rw [hstrip]
  unfold intStr
  by_cases hneg : e < 0
  · simp only [hneg, if_true, List.singleton_append]
    rw [lstripBy_cons_pos _ _ (by decide), hcu, lstripBy_cons_neg _ _ (hdig c hcd), ← hcu, hr]
  · simp only [hneg, if_false, List.nil_append]
    rw [hcu, lstripBy_cons_neg _ _ (hdig c hcd), ← hcu, hr]


theorem expDigits_spec (e : Int) : (∀ c ∈ expDigits e, isDigit c = true) ∧ expDigits e ≠ [] ∧
    digitsVal (expDigits e) = e.natAbs := by
  unfold expDigits
  simp only
  split_ifs
  · refine ⟨?_, by simp, ?_⟩
    · intro c hc
      rcases List.mem_cons.1 hc with rfl | hc
      · decide
      · exact natDigits_all_digit _ c hc
    · have e1 : '0' :: natDigits e.natAbs = ['0'] ++ natDigits e.natAbs := rfl
      rw [e1, digitsVal_append, digitsVal_natDigits]; simp [digitsVal]
  · refine ⟨natDigits_all_digit _, ?_, digitsVal_natDigits _⟩
    intro h
    have := natDigits_length_pos e.natAbs
    rw [h] at this; simp at this

/-- the mantissa text of `%.qe` -/
def eMant (q : Nat) (x : Dbl) : Str :=
  (if x.neg then ['-'] else []) ++ (natDigits ((eParts q x).1 / 10 ^ q) ++ '.' :: fracDigits q (eParts q x).1)

theorem fmtE_shape (q : Nat) (hq : q ≠ 0) (x : Dbl) :
    fmtE q x = eMant q x ++ 'e' :: (if (eParts q x).2 < 0 then '-' else '+') :: expDigits (eParts q x).2 := by
  simp [fmtE, eMant, hq]

theorem eMant_chars (q : Nat) (x : Dbl) : ∀ c ∈ eMant q x, isWs c = false ∧ c ≠ 'e' := by
  intro c hc
  simp only [eMant, List.mem_append, List.mem_cons] at hc
  rcases hc with hc | hc | rfl | hc
  · cases hx : x.neg <;> simp [hx] at hc; subst hc; decide
  · have := natDigits_all_digit _ c hc
    exact ⟨isDigit_not_ws c this, isDigit_ne c 'e' this (by decide)⟩
  · decide
  · have := fracDigits_all_digit _ _ c hc
    exact ⟨isDigit_not_ws c this, isDigit_ne c 'e' this (by decide)⟩

/-- `python_value.strip().split("e")` -/
theorem splitE_fmtE (W q : Nat) (hq : q ≠ 0) (x : Dbl) :
    splitE (stripWs (rjust W (fmtE q x))) =
      (eMant q x, (if (eParts q x).2 < 0 then '-' else '+') :: expDigits (eParts q x).2) := by
  obtain ⟨hed, _, _⟩ := expDigits_spec (eParts q x).2
  have hall : ∀ c ∈ fmtE q x, isWs c = false := by
    rw [fmtE_shape q hq]
    intro c hc
    simp only [List.mem_append, List.mem_cons] at hc
    rcases hc with hc | rfl | rfl | hc
    · exact (eMant_chars q x c hc).1
    · decide
    · split_ifs <;> decide
    · exact isDigit_not_ws c (hed c hc)
  rw [rjust, stripWs_pad_of_all _ _ hall, fmtE_shape q hq]
  obtain ⟨h1, h2⟩ := takeWhile_append_stop (· != 'e') (eMant q x)
    ('e' :: (if (eParts q x).2 < 0 then '-' else '+') :: expDigits (eParts q x).2)
    (fun c hc => by simpa using (eMant_chars q x c hc).2) (by simp)
  unfold splitE
  rw [h1, h2]; rfl

/-- `int(sexponent)` -/
theorem parseInt?_exp (e : Int) :
    parseInt? ((if e < 0 then '-' else '+') :: expDigits e) = some e := by
  obtain ⟨hed, hne, hval⟩ := expDigits_spec e
  have hall : ∀ c ∈ ((if e < 0 then '-' else '+') :: expDigits e), isWs c = false := by
    intro c hc
    rcases List.mem_cons.1 hc with rfl | hc
    · split_ifs <;> decide
    · exact isDigit_not_ws c (hed c hc)
  have hp : parseNat? (expDigits e) = some e.natAbs := by
    unfold parseNat?
    have : (expDigits e).all isDigit = true := (all_iff _).2 hed
    simp [hne, this, hval]
  unfold parseInt?
  rw [stripWs_of_all _ hall]
  by_cases hneg : e < 0
  · simp only [hneg, if_true, splitSign, hp]
    congr 1; omega
  · simp only [hneg, if_false, splitSign, hp]
    simp; omega

/-- `float(svalue)`: the nearest double of `N / 10^q` -/
theorem parseFloat?_eMant (q : Nat) (hq : q ≠ 0) (x : Dbl) :
    parseFloat? (eMant q x) = some (toBits x.neg (eParts q x).1 (10 ^ q)) := by
  have h := parseDec?_shape 0 x.neg (natDigits ((eParts q x).1 / 10 ^ q)) (fracDigits q (eParts q x).1) []
    (natDigits_all_digit _) (fracDigits_all_digit _ _) (by simp) (by simp)
  have hne : (natDigits ((eParts q x).1 / 10 ^ q) == [] &&
      fracDigits q (eParts q x).1 == []) = false := by
    have := natDigits_length_pos ((eParts q x).1 / 10 ^ q)
    cases h' : natDigits ((eParts q x).1 / 10 ^ q) with
    | nil => rw [h'] at this; simp at this
    | cons a t => simp
  simp only [List.replicate_zero, List.nil_append, List.append_nil, hne, exTail, Bool.false_eq_true,
    if_false] at h
  unfold parseFloat?
  unfold eMant
  rw [h]
  have h0 : ¬ ((0 : Int) > 5000 ∨ (0 : Int) < -5000) := by omega
  simp only [gt_iff_lt, Bool.or_eq_true, decide_eq_true_eq, h0, if_false, digitsVal_int_frac,
    fracDigits_length, decOf]
  have : ¬ ((0 : Int) - (q : Int) ≥ 0) := by omega
  simp only [this, if_false]
  congr 3
  omega


/-- **second rounding stage** (`'%.Pf' % float(svalue)`): the integer `N3` printed with `P`
decimals is a nearest integer to `N / 10^(q-P)` — the double conversion of the `q`-decimal
mantissa (error `≤ 2^-50`) cannot move the rounding except at an exact decimal tie, where either
neighbour is within half a unit.  Needs `10^q < 2^50` (`q ≤ 15`) and `P < q`. -/
theorem second_round (N q P : Nat) (v : Dbl) (hvd : 0 < v.den) (hP : P < q) (hq : q ≤ 15)
    (hN1 : 10 ^ q ≤ N) (hN2 : N < 10 ^ (q + 1))
    (hv1 : 2 ^ 50 * (v.num * 10 ^ q) ≤ 2 ^ 50 * (N * v.den) + 10 ^ q * v.den)
    (hv2 : 2 ^ 50 * (N * v.den) ≤ 2 ^ 50 * (v.num * 10 ^ q) + 10 ^ q * v.den) :
    2 * (rheDiv (v.num * 10 ^ P) v.den * 10 ^ (q - P)) ≤ 2 * N + 10 ^ (q - P) ∧
    2 * N ≤ 2 * (rheDiv (v.num * 10 ^ P) v.den * 10 ^ (q - P)) + 10 ^ (q - P) ∧
    10 ^ P ≤ rheDiv (v.num * 10 ^ P) v.den ∧ rheDiv (v.num * 10 ^ P) v.den ≤ 10 ^ (P + 1) := by
  generalize hN3 : rheDiv (v.num * 10 ^ P) v.den = N3
  have hr := rheDiv_rat (v.num * 10 ^ P) v.den hvd
  rw [hN3] at hr
  have hdq : (0 : ℚ) < v.den := by exact_mod_cast hvd
  obtain ⟨M', hM'⟩ : ∃ M', 10 ^ (q - P) = 2 * M' := by
    refine ⟨5 * 10 ^ (q - P - 1), ?_⟩
    have : q - P = (q - P - 1) + 1 := by omega
    conv_lhs => rw [this, pow_succ]
    ring
  have hqP : 10 ^ q = 10 ^ (q - P) * 10 ^ P := by rw [← pow_add]; congr 1; omega
  -- everything over ℚ
  have hMq : (0 : ℚ) < (10 : ℚ) ^ (q - P) := by positivity
  have hPq : (0 : ℚ) < (10 : ℚ) ^ P := by positivity
  have hQq : (0 : ℚ) < (10 : ℚ) ^ q := by positivity
  have hqP' : (10 : ℚ) ^ q = (10 : ℚ) ^ (q - P) * (10 : ℚ) ^ P := by exact_mod_cast hqP
  have h250 : (10 : ℚ) ^ q < 2 ^ 50 := by
    have : (10 : ℕ) ^ q ≤ 10 ^ 15 := Nat.pow_le_pow_right (by norm_num) hq
    have : (10 : ℕ) ^ q < 2 ^ 50 := lt_of_le_of_lt this (by norm_num)
    exact_mod_cast this
  have hv1' : (2 : ℚ) ^ 50 * ((v.num : ℚ) * 10 ^ q) ≤ 2 ^ 50 * ((N : ℚ) * v.den) + 10 ^ q * v.den := by
    exact_mod_cast hv1
  have hv2' : (2 : ℚ) ^ 50 * ((N : ℚ) * v.den) ≤ 2 ^ 50 * ((v.num : ℚ) * 10 ^ q) + 10 ^ q * v.den := by
    exact_mod_cast hv2
  -- V = v.num / v.den
  obtain ⟨V, hV⟩ : ∃ V : ℚ, V = (v.num : ℚ) / v.den := ⟨_, rfl⟩
  have hVn : (v.num : ℚ) = V * v.den := by rw [hV]; field_simp
  have hr' : |(N3 : ℚ) - V * 10 ^ P| ≤ 1 / 2 := by
    have e : ((v.num * 10 ^ P : ℕ) : ℚ) / v.den = V * 10 ^ P := by
      rw [hV]; push_cast; ring
    rw [e] at hr; exact hr
  rw [abs_le] at hr'
  -- |V·10^q − N| ≤ 10^q / 2^50 < 1
  have hb1 : V * 10 ^ q - N ≤ 10 ^ q / 2 ^ 50 := by
    rw [hVn] at hv1'
    rw [le_div_iff₀ (by positivity)]
    have : (2 : ℚ) ^ 50 * (V * ↑v.den * 10 ^ q) - 2 ^ 50 * (↑N * ↑v.den) ≤ 10 ^ q * ↑v.den := by linarith
    have h2 : ((V * 10 ^ q - N) * 2 ^ 50) * v.den ≤ 10 ^ q * v.den := by nlinarith
    exact le_of_mul_le_mul_right h2 hdq
  have hb2 : (N : ℚ) - V * 10 ^ q ≤ 10 ^ q / 2 ^ 50 := by
    rw [hVn] at hv2'
    rw [le_div_iff₀ (by positivity)]
    have h2 : (((N : ℚ) - V * 10 ^ q) * 2 ^ 50) * v.den ≤ 10 ^ q * v.den := by nlinarith
    exact le_of_mul_le_mul_right h2 hdq
  have hlt1 : (10 : ℚ) ^ q / 2 ^ 50 < 1 := by rw [div_lt_one (by positivity)]; exact h250
  -- N3·M − N
  have hA : (N3 : ℚ) * 10 ^ (q - P) - N < (10 : ℚ) ^ (q - P) / 2 + 1 := by
    have : (N3 : ℚ) * 10 ^ (q - P) ≤ (V * 10 ^ P + 1 / 2) * 10 ^ (q - P) :=
      mul_le_mul_of_nonneg_right (by linarith [hr'.2]) (le_of_lt hMq)
    have e : V * 10 ^ P * 10 ^ (q - P) = V * 10 ^ q := by rw [hqP']; ring
    nlinarith
  have hB : (N : ℚ) - (N3 : ℚ) * 10 ^ (q - P) < (10 : ℚ) ^ (q - P) / 2 + 1 := by
    have : (V * 10 ^ P - 1 / 2) * 10 ^ (q - P) ≤ (N3 : ℚ) * 10 ^ (q - P) :=
      mul_le_mul_of_nonneg_right (by linarith [hr'.1]) (le_of_lt hMq)
    have e : V * 10 ^ P * 10 ^ (q - P) = V * 10 ^ q := by rw [hqP']; ring
    nlinarith
  have hA' : 2 * (N3 * 10 ^ (q - P)) < 2 * N + 10 ^ (q - P) + 2 := by
    have : (2 * ((N3 : ℚ) * 10 ^ (q - P))) < 2 * N + 10 ^ (q - P) + 2 := by linarith
    exact_mod_cast this
  have hB' : 2 * N < 2 * (N3 * 10 ^ (q - P)) + 10 ^ (q - P) + 2 := by
    have : (2 * (N : ℚ)) < 2 * ((N3 : ℚ) * 10 ^ (q - P)) + 10 ^ (q - P) + 2 := by linarith
    exact_mod_cast this
  have h1 : 2 * (N3 * 10 ^ (q - P)) ≤ 2 * N + 10 ^ (q - P) := by rw [hM'] at hA' ⊢; omega
  have h2 : 2 * N ≤ 2 * (N3 * 10 ^ (q - P)) + 10 ^ (q - P) := by rw [hM'] at hB' ⊢; omega
  refine ⟨h1, h2, ?_, ?_⟩
  · -- N3·M ≥ N − M/2 > (10^P − 1)·M
    by_contra hcon
    have h3 : N3 + 1 ≤ 10 ^ P := by omega
    have h4 : (N3 + 1) * 10 ^ (q - P) ≤ 10 ^ P * 10 ^ (q - P) := Nat.mul_le_mul_right _ h3
    have e : 10 ^ P * 10 ^ (q - P) = 10 ^ q := by rw [hqP]; ring
    have e2 : (N3 + 1) * 10 ^ (q - P) = N3 * 10 ^ (q - P) + 10 ^ (q - P) := by ring
    have hMpos : 0 < 10 ^ (q - P) := by positivity
    rw [e, e2] at h4
    omega
  · by_contra hcon
    have h3 : 10 ^ (P + 1) + 1 ≤ N3 := by omega
    have h4 : (10 ^ (P + 1) + 1) * 10 ^ (q - P) ≤ N3 * 10 ^ (q - P) := Nat.mul_le_mul_right _ h3
    have e : 10 ^ (P + 1) * 10 ^ (q - P) = 10 ^ (q + 1) := by rw [← pow_add]; congr 1; omega
    have e2 : (10 ^ (P + 1) + 1) * 10 ^ (q - P) = 10 ^ (P + 1) * 10 ^ (q - P) + 10 ^ (q - P) := by ring
    have hMpos : 0 < 10 ^ (q - P) := by positivity
    rw [e2, e] at h4
    omega


/-- number of mantissa decimals `_format_scientificW` / `format_double16` print for a sign and an
exponent of `L` digits: `leftover - off`, `leftover = base - (L + extra)` -/
def sciPrec (c : Sci) (neg : Bool) (L : Nat) : Nat :=
  c.base - (L + c.extra) - (if neg then c.negOff else c.posOff)

/-- the field a scientific branch emits -/
def sciFld (neg dm eneg : Bool) (P N3 : Nat) (e : Int) : Fld :=
  ⟨neg, natDigits (N3 / 10 ^ P), rstripBy is0 (fracDigits P N3), some ⟨dm, eneg, natDigits e.natAbs⟩⟩

theorem sciCore_shape (W : Nat) (c : Sci) (dm : Bool) (x : Dbl) (hn : 0 < x.num) (hd : 0 < x.den)
    (hq1 : 1 ≤ c.ePrec) (hq15 : c.ePrec ≤ 15) (P : Nat)
    (hPdef : P = sciPrec c x.neg (natDigits (eParts c.ePrec x).2.natAbs).length)
    (hP1 : 1 ≤ P) (hPq : P < c.ePrec) :
    ∃ N3 : Nat,
      2 * (N3 * 10 ^ (c.ePrec - P)) ≤ 2 * (eParts c.ePrec x).1 + 10 ^ (c.ePrec - P) ∧
      2 * (eParts c.ePrec x).1 ≤ 2 * (N3 * 10 ^ (c.ePrec - P)) + 10 ^ (c.ePrec - P) ∧
      10 ^ P ≤ N3 ∧ N3 ≤ 10 ^ (P + 1) ∧
      sciCore W c (if dm then ['D'] else []) x =
        rjust W (sciFld x.neg dm x.absLtOne P N3 (eParts c.ePrec x).2).text := by
  have hq0 : c.ePrec ≠ 0 := by omega
  obtain ⟨hN1, hN2, -, -⟩ := eParts_spec c.ePrec x hn hd
  generalize hN : (eParts c.ePrec x).1 = N at hN1 hN2
  generalize he : (eParts c.ePrec x).2 = e at hPdef
  -- value2
  obtain ⟨v, hof, hvneg, hvd, hv1, hv2⟩ := toBits_mant x.neg N (10 ^ c.ePrec) (by positivity) hN1
    (by rw [pow_succ] at hN2; omega)
  obtain ⟨h1, h2, h3, h4⟩ := second_round N c.ePrec P v hvd hPq hq15 hN1 hN2 hv1 hv2
  refine ⟨rheDiv (v.num * 10 ^ P) v.den, h1, h2, h3, h4, ?_⟩
  obtain ⟨N3, hN3⟩ : ∃ N3, N3 = rheDiv (v.num * 10 ^ P) v.den := ⟨_, rfl⟩
  rw [← hN3] at h1 h2 h3 h4 ⊢
  have hI3 : 1 ≤ N3 / 10 ^ P := (Nat.le_div_iff_mul_le (by positivity)).2 (by simpa using h3)
  have hnz : x.isZero = false := by
    have : x.num ≠ 0 := by omega
    simp [Dbl.isZero, this]
  unfold sciCore
  simp only [splitE_fmtE W c.ePrec hq0 x, he, parseInt?_exp, Option.getD_some, strip_sign_intStr,
    parseFloat?_eMant c.ePrec hq0 x, hN, Option.bind_some, hof, hnz, Bool.not_false, Bool.and_true]
  have hprec : (if x.neg = true then c.base - ((natDigits e.natAbs).length + c.extra) - c.negOff
      else c.base - ((natDigits e.natAbs).length + c.extra) - c.posOff) = P := by
    rw [hPdef]; unfold sciPrec; split_ifs <;> rfl
  rw [hprec]
  have hP0 : P ≠ 0 := by omega
  have hlen : 1 ≤ (fmtF P v).length := by
    rw [fmtF_shape P hP0]; simp; omega
  rw [rjust_of_ge 1 _ hlen, fmtF_shape P hP0, ← hN3, hvneg, strip0_mant x.neg _ hI3]
  congr 1
  cases hx : x.neg <;> cases dm <;> cases x.absLtOne <;>
    simp [sciFld, Fld.text, Fld.mant, Fld.exText, FExp.text]


theorem rstrip0_frac_digits (p N : Nat) : ∀ c ∈ rstripBy is0 (fracDigits p N), isDigit c = true := by
  obtain ⟨n, hn⟩ := rstrip0_zeros (fracDigits p N)
  intro c hc
  exact fracDigits_all_digit p N c (by rw [hn]; exact List.mem_append_left _ hc)

theorem rstrip0_replicate (n : Nat) : rstripBy is0 (List.replicate n '0') = [] := by
  have := rstripBy_append_replicate_length is0 '0' (by decide) n []
  simp only [List.nil_append, List.length_nil, Nat.le_zero, List.length_eq_zero_iff] at this
  exact this

theorem sciFld_wf (neg dm eneg : Bool) (P N3 : Nat) (e : Int) (he : e.natAbs ≤ 5000) :
    (sciFld neg dm eneg P N3 e).wf = true := by
  have hne : natDigits (N3 / 10 ^ P) ≠ [] := by
    intro h; have := natDigits_length_pos (N3 / 10 ^ P); rw [h] at this; simp at this
  have hne2 : natDigits e.natAbs ≠ [] := by
    intro h; have := natDigits_length_pos e.natAbs; rw [h] at this; simp at this
  simp only [Fld.wf, sciFld, FExp.wf, Bool.and_eq_true, Bool.not_eq_true', Bool.and_eq_false_iff,
    beq_iff_eq, bne_iff_ne, ne_eq, decide_eq_true_eq, digitsVal_natDigits]
  exact ⟨⟨⟨(all_iff _).2 (natDigits_all_digit _), (all_iff _).2 (rstrip0_frac_digits P N3)⟩,
    Or.inl (by simpa using hne)⟩, ⟨hne2, (all_iff _).2 (natDigits_all_digit _)⟩, he⟩

/-- length of the scientific field: at most `σ + 3 + P + m + L` (one mantissa digit before the
point, or `10.` with all decimals stripped after a rounding carry) -/
theorem sciFld_length (neg dm eneg : Bool) (P N3 : Nat) (e : Int) (hP : 1 ≤ P)
    (h4 : N3 ≤ 10 ^ (P + 1)) :
    (sciFld neg dm eneg P N3 e).text.length ≤
      (if neg then 1 else 0) + 3 + P + (if dm then 1 else 0) + (natDigits e.natAbs).length := by
  have hfp : (rstripBy is0 (fracDigits P N3)).length ≤ P := by
    have := rstripBy_length_le is0 (fracDigits P N3)
    simpa using this
  have htext : (sciFld neg dm eneg P N3 e).text.length =
      (if neg then 1 else 0) + (natDigits (N3 / 10 ^ P)).length + 1 +
        (rstripBy is0 (fracDigits P N3)).length + (if dm then 1 else 0) + 1 +
        (natDigits e.natAbs).length := by
    cases neg <;> cases dm <;> simp [sciFld, Fld.text, Fld.mant, Fld.exText, FExp.text] <;> omega
  rw [htext]
  rcases Nat.lt_or_ge N3 (10 ^ (P + 1)) with hlt | hge
  · have hI : N3 / 10 ^ P < 10 := by
      apply Nat.div_lt_of_lt_mul
      rw [pow_succ] at hlt; omega
    have : (natDigits (N3 / 10 ^ P)).length = 1 := by rw [natDigits_lt_ten _ hI]; rfl
    omega
  · have hN : N3 = 10 ^ (P + 1) := by omega
    have hI : N3 / 10 ^ P = 10 := by rw [hN, pow_succ]; simp
    have hz : fracDigits P N3 = List.replicate P '0' := by
      apply fracDigits_of_dvd
      rw [hN, pow_succ]; exact Dvd.intro _ rfl
    have h2 : (natDigits (N3 / 10 ^ P)).length = 2 := by
      rw [hI, natDigits_ge_ten 10 (by norm_num)]
      simp [natDigits_lt_ten]
    rw [hz, rstrip0_replicate, h2]
    simp only [List.length_nil]
    omega

/-- the digits of the scientific field denote `N3 / 10^P` -/
theorem sciFld_val (neg dm eneg : Bool) (P N3 : Nat) (e : Int) :
    (sciFld neg dm eneg P N3 e).fp.length ≤ P ∧
    digitsVal ((sciFld neg dm eneg P N3 e).ip ++ (sciFld neg dm eneg P N3 e).fp) *
      10 ^ (P - (sciFld neg dm eneg P N3 e).fp.length) = N3 := by
  obtain ⟨n, hn⟩ := rstrip0_zeros (fracDigits P N3)
  have hlen : (rstripBy is0 (fracDigits P N3)).length + n = P := by
    have := congrArg List.length hn
    simp only [fracDigits_length, List.length_append, List.length_replicate] at this
    omega
  simp only [sciFld]
  refine ⟨by omega, ?_⟩
  have e1 : P - (rstripBy is0 (fracDigits P N3)).length = n := by omega
  rw [e1]
  have h1 := digitsVal_int_frac P N3
  rw [hn, ← List.append_assoc, digitsVal_append, digitsVal_replicate_zero, List.length_replicate] at h1
  simpa using h1

end PyYetiVerif.NasFloat
