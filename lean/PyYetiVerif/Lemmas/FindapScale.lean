import PyYetiVerif.Lemmas.Findap
import PyYetiVerif.Lemmas.FindapFix
import PyYetiVerif.Lemmas.FdeSrs
import PyYetiVerif.Lemmas.FdeDamage
import Mathlib.Algebra.Order.Ring.Abs
import Mathlib.Algebra.Order.Field.Basic
import Mathlib.Tactic.Ring
import Mathlib.Tactic.Linarith
import Mathlib.Tactic.FieldSimp
import Mathlib.Algebra.BigOperators.Ring.List
/-! Helper lemmas for C10: the default `findap` selects the same samples of `c·y` as of `y`
(`c > 0`: `stol` scales with the signal), and the cycle table of `c·y` is that of `y` with the
amplitudes multiplied by `c`. -/
set_option linter.unusedSectionVars false
set_option linter.unusedVariables false
namespace PyYetiVerif.Findap

variable {α : Type} [Field α] [LinearOrder α] [IsStrictOrderedRing α]

theorem absd_scale (c : α) (hc : 0 < c) (a b : α) : absd (c * a) (c * b) = c * absd a b := by
  rw [absd_eq_abs, absd_eq_abs, ← mul_sub, abs_mul, abs_of_pos hc]

theorem maxAbsDiffFrom_scale (c : α) (hc : 0 < c) (l : List α) :
    ∀ acc prev : α, maxAbsDiffFrom (c * acc) (c * prev) (l.map (c * ·)) = c * maxAbsDiffFrom acc prev l := by
  induction l with
  | nil => intro acc prev; rfl
  | cons x r ih =>
      intro acc prev
      simp only [List.map_cons, maxAbsDiffFrom, absd_scale c hc, mul_lt_mul_iff_right₀ hc]
      by_cases h : acc < absd x prev
      · simp only [h, if_true]; exact ih _ _
      · simp only [h, if_false]; exact ih _ _

theorem stol_scale (c : α) (hc : 0 < c) (tol : α) (y : List α) :
    stol tol (y.map (c * ·)) = c * stol tol y := by
  match y with
  | [] => simp [stol]
  | [a] => simp [stol]
  | a :: b :: r =>
      simp only [List.map_cons, stol]
      rw [absd_scale c hc b a, maxAbsDiffFrom_scale c hc]
      generalize maxAbsDiffFrom (absd b a) b r = M
      have e : tol * (c * M) = c * (tol * M) := by ring
      have := absd_scale c hc (tol * M) 0
      rw [mul_zero] at this
      rw [e]; exact this

theorem uniqMask_scale (c : α) (hc : 0 < c) (st : α) (l : List α) :
    ∀ p : α, uniqMask (c * st) (c * p) (l.map (c * ·)) = uniqMask st p l := by
  induction l with
  | nil => intro p; rfl
  | cons x r ih =>
      intro p
      simp only [List.map_cons, uniqMask, absd_scale c hc, mul_lt_mul_iff_right₀ hc, ih]

theorem select_map {β : Type} (f : α → β) (m : List Bool) (y : List α) :
    select m (y.map f) = (select m y).map f := by
  induction m generalizing y with
  | nil => cases y <;> simp [select]
  | cons b m ih =>
      cases y with
      | nil => cases b <;> simp [select]
      | cons a r => cases b <;> simp [select, ih]

theorem sgn_scale (c : α) (hc : 0 < c) (a b : α) : sgn (c * a) (c * b) = sgn a b := by
  simp only [sgn, mul_lt_mul_iff_right₀ hc]

theorem pvInner_scale (c : α) (hc : 0 < c) (l : List α) :
    ∀ a b : α, pvInner (c * a) (c * b) (l.map (c * ·)) = pvInner a b l := by
  induction l with
  | nil => intro a b; simp only [List.map_nil, pvInner, mul_lt_mul_iff_right₀ hc]
  | cons x r ih =>
      intro a b
      simp only [List.map_cons, pvInner, sgn_scale c hc, ih]

theorem pvOf_scale (c : α) (hc : 0 < c) (l : List α) : pvOf (l.map (c * ·)) = pvOf l := by
  match l with
  | [] => rfl
  | [_] => rfl
  | [_, _] => rfl
  | a :: b :: x :: r =>
      simp only [List.map_cons, pvOf]
      have := pvInner_scale c hc (x :: r) a b
      simp only [List.map_cons] at this
      rw [this]

theorem findapDefSt_scale (c : α) (hc : 0 < c) (st : α) (y : List α) :
    findapDefSt (c * st) (y.map (c * ·)) = findapDefSt st y := by
  match y with
  | [] => rfl
  | [_] => rfl
  | a :: b :: r =>
      simp only [List.map_cons, findapDefSt]
      have hu := uniqMask_scale c hc st (b :: r) a
      simp only [List.map_cons] at hu
      rw [hu]
      have hs := select_map (fun x => c * x) (true :: uniqMask st a (b :: r)) (a :: b :: r)
      simp only [List.map_cons] at hs
      rw [hs, pvOf_scale c hc]

/-- the default `findap` selects the same samples of `c·y` as of `y` -/
theorem findapDef_scale (c : α) (hc : 0 < c) (tol : α) (y : List α) :
    findapDef tol (y.map (c * ·)) = findapDef tol y := by
  unfold findapDef
  rw [stol_scale c hc, findapDefSt_scale c hc]

/-! ### the current default variant (`_unique_kept`) -/

theorem hystMask_scale (c : α) (hc : 0 < c) (st : α) (l : List α) :
    ∀ h : α, hystMask (c * st) (c * h) (l.map (c * ·)) = hystMask st h l := by
  induction l with
  | nil => intro h; rfl
  | cons x r ih =>
      intro h
      simp only [List.map_cons, hystMask, absd_scale c hc, mul_lt_mul_iff_right₀ hc]
      split
      · rw [ih]
      · rw [ih]

theorem findapDefFixSt_scale (c : α) (hc : 0 < c) (st : α) (y : List α) :
    findapDefFixSt (c * st) (y.map (c * ·)) = findapDefFixSt st y := by
  match y with
  | [] => rfl
  | [_] => rfl
  | a :: b :: r =>
      simp only [List.map_cons, findapDefFixSt, fixMask_eq]
      have hu := hystMask_scale c hc st (b :: r) a
      simp only [List.map_cons] at hu
      rw [hu]
      have hs := select_map (fun x => c * x) (true :: hystMask st a (b :: r)) (a :: b :: r)
      simp only [List.map_cons] at hs
      rw [hs, pvOf_scale c hc]

/-- the default `findap` (current code) selects the same samples of `c·y` as of `y` -/
theorem findapDefFix_scale (c : α) (hc : 0 < c) (tol : α) (y : List α) :
    findapDefFix tol (y.map (c * ·)) = findapDefFix tol y := by
  unfold findapDefFix
  rw [stol_scale c hc, findapDefFixSt_scale c hc]

end PyYetiVerif.Findap

namespace PyYetiVerif.Fde
open PyYetiVerif.Rainflow

variable {α : Type} [Field α] [LinearOrder α] [IsStrictOrderedRing α]

theorem rainflow_scale (k : α) (hk : 0 < k) (pts : List α) :
    rainflow (pts.map fun x => k * x) = (rainflow pts).map (mapCyc (k * ·) (k * ·)) := by
  apply rainflow_map (fun x => k * x) (k * ·) (k * ·)
  · intro a b; simp only [Rainflow.absd_abs]; rw [← mul_sub, abs_mul, abs_of_pos hk]
  · intro a b c d; exact mul_lt_mul_iff_right₀ hk
  · intro a b; ring

/-- the cycle table of the signal scaled by `c > 0`: amplitudes times `c`, counts unchanged -/
theorem cyclesOf_scale (c : α) (hc : 0 < c) (tol : α) (y : List α) :
    cyclesOf tol (y.map (c * ·)) = (cyclesOf tol y).map (scaleCycles c) := by
  unfold cyclesOf
  rw [Findap.findapDefFix_scale c hc]
  cases Findap.findapDefFix tol y with
  | none => rfl
  | some m =>
      simp only []
      rw [Findap.select_map]
      simp only [rainflowApi, List.length_map]
      split
      · rfl
      · simp only [Option.map_some, Option.some.injEq]
        rw [rainflow_scale c hc, scaleCycles, List.map_map, List.map_map]
        apply List.map_congr_left
        intro d _
        simp only [Function.comp, mapCyc]
        refine Prod.ext ?_ rfl
        simp only []
        ring

/-! ### `SRSmax` and `Var` of the scaled response history -/

theorem absv_scale (c : α) (hc : 0 < c) (x : α) : absv (c * x) = c * absv x := by
  rw [absv_eq_abs, absv_eq_abs, abs_mul, abs_of_pos hc]

theorem srsPeak_scale (c : α) (hc : 0 < c) (y : List α) :
    srsPeak (y.map (c * ·)) = (srsPeak y).map (c * ·) := by
  cases y with
  | nil => rfl
  | cons a r =>
      simp only [List.map_cons, srsPeak, Option.map_some, Option.some.injEq, absv_scale c hc]
      generalize absv a = m
      induction r generalizing m with
      | nil => rfl
      | cons x r ih =>
          simp only [List.map_cons, List.foldl_cons, absv_scale c hc, mul_lt_mul_iff_right₀ hc]
          by_cases h : m < absv x
          · simp only [h, if_true]; exact ih _
          · simp only [h, if_false]; exact ih _

theorem lsum_eq_sum (l : List α) : lsum l = l.sum := by
  unfold lsum
  rw [List.sum_eq_foldl]

theorem variance_scale (c : α) (y : List α) :
    variance (y.map (c * ·)) = c ^ 2 * variance y := by
  unfold variance
  simp only [lsum_eq_sum, List.length_map, List.map_map]
  have e1 : (y.map (c * ·)).sum = c * y.sum := List.sum_map_mul_left y id c |>.trans (by simp)
  rw [e1]
  have e2 : (y.map ((fun v => (v - c * y.sum / (Nat.cast y.length : α)) * (v - c * y.sum / (Nat.cast y.length : α)))
      ∘ fun x => c * x)).sum
      = c ^ 2 * (y.map fun v => (v - y.sum / (Nat.cast y.length : α)) * (v - y.sum / (Nat.cast y.length : α))).sum := by
    rw [← List.sum_map_mul_left]
    congr 1
    apply List.map_congr_left
    intro v _
    simp only [Function.comp]
    ring
  rw [e2]
  ring

end PyYetiVerif.Fde
