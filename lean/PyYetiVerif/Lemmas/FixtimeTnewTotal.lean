import PyYetiVerif.Lemmas.FixtimeFull2
/-! Helper lemmas for C19: `_mk_initial_tnew` never raises on a sorted record with at least two
samples, and the alignment shift it applies. -/
namespace PyYetiVerif.Fixtime

theorem length_diffsQ : ∀ (l : List ℚ), (diffsQ l).length = l.length - 1
  | [] => rfl
  | [_] => rfl
  | a :: b :: r => by
      simp only [diffsQ, List.length_cons]
      rw [length_diffsQ (b :: r)]
      simp

theorem length_turnFlags (told : List ℚ) (dt : ℚ) (h : 1 ≤ told.length) :
    (turnFlags told dt).length = told.length := by
  unfold turnFlags
  simp only [List.length_append, List.length_zipWith, List.length_dropLast, List.length_tail,
    List.length_cons, List.length_map, length_diffsQ, List.length_nil]
  omega

theorem turnFlags_ends (told : List ℚ) (dt : ℚ) (h : 2 ≤ told.length) :
    (turnFlags told dt)[0]? = some true ∧ (turnFlags told dt)[told.length - 1]? = some true := by
  have hd : (diffsQ told).length = told.length - 1 := length_diffsQ told
  unfold turnFlags
  simp only
  generalize hb : (diffsQ told).map (fun d => decide (dt / 4 < absQ (d - dt))) = m
  have hm : m.length = told.length - 1 := by rw [← hb, List.length_map, hd]
  have hz : (List.zipWith (· || ·) (true :: m).dropLast (true :: m).tail).length = told.length - 1 := by
    simp only [List.length_zipWith, List.length_dropLast, List.length_tail, List.length_cons]
    omega
  constructor
  · rw [List.getElem?_append_left (by omega)]
    cases m with
    | nil => simp at hm; omega
    | cons x r => simp
  · rw [List.getElem?_append_right (by omega), hz]
    simp

theorem nonzeroIdx_pairwise (l : List Bool) : (nonzeroIdx l).Pairwise (· < ·) := by
  unfold nonzeroIdx
  exact List.Pairwise.filter _ List.pairwise_lt_range

theorem two_le_length_of_mem {β : Type} {a b : β} : ∀ {l : List β}, a ∈ l → b ∈ l → a ≠ b → 2 ≤ l.length
  | [], h, _, _ => by simp at h
  | [x], h1, h2, hne => by
      simp at h1 h2; exact absurd (h1.trans h2.symm) hne
  | _ :: _ :: _, _, _, _ => by simp

theorem argmaxGo_lt : ∀ (r : List Nat) (i best bv : Nat), best < i → argmaxGo r i best bv < i + r.length
  | [], i, best, bv, h => by simp [argmaxGo]; exact h
  | v :: r, i, best, bv, h => by
      unfold argmaxGo
      split_ifs
      · have := argmaxGo_lt r (i + 1) i v (by omega)
        simp only [List.length_cons]; omega
      · have := argmaxGo_lt r (i + 1) best bv (by omega)
        simp only [List.length_cons]; omega

theorem argmaxFirst_some (l : List Nat) (h : 1 ≤ l.length) : ∃ j, argmaxFirst l = some j ∧ j < l.length := by
  cases l with
  | nil => simp at h
  | cons v r =>
      refine ⟨_, rfl, ?_⟩
      have := argmaxGo_lt r 1 0 v (by omega)
      simp only [List.length_cons]; omega

theorem length_diffsN : ∀ (l : List Nat), (diffsN l).length = l.length - 1
  | [] => rfl
  | [_] => rfl
  | a :: b :: r => by
      simp only [diffsN, List.length_cons]
      rw [length_diffsN (b :: r)]
      simp

theorem head_le_getLast {l : List ℚ} (hs : l.Pairwise (· ≤ ·)) {x y : ℚ} (hx : l.head? = some x)
    (hy : l.getLast? = some y) : x ≤ y := by
  cases l with
  | nil => simp at hx
  | cons a r =>
      simp only [List.head?_cons, Option.some.injEq] at hx
      subst hx
      rw [List.getLast?_eq_some_getLast (by simp)] at hy
      injection hy with hy
      have hmem : y ∈ a :: r := hy ▸ List.getLast_mem _
      rcases List.mem_cons.mp hmem with rfl | hm
      · exact le_refl _
      · exact (List.pairwise_cons.mp hs).1 y hm

theorem head_le_mem {l : List ℚ} (hs : l.Pairwise (· ≤ ·)) {x y : ℚ} (hx : l.head? = some x)
    (hy : y ∈ l) : x ≤ y := by
  cases l with
  | nil => simp at hx
  | cons a r =>
      simp only [List.head?_cons, Option.some.injEq] at hx
      subst hx
      rcases List.mem_cons.mp hy with rfl | hm
      · exact le_refl _
      · exact (List.pairwise_cons.mp hs).1 y hm

theorem mem_le_getLast {l : List ℚ} (hs : l.Pairwise (· ≤ ·)) {x y : ℚ} (hx : x ∈ l)
    (hy : l.getLast? = some y) : x ≤ y := by
  obtain ⟨i, hi, rfl⟩ := List.mem_iff_getElem.mp hx
  rw [List.getLast?_eq_getElem?] at hy
  have hl : l.length - 1 < l.length := by omega
  rw [List.getElem?_eq_getElem hl] at hy
  injection hy with hy
  subst hy
  exact sorted_getElem_le hs (by omega) hl

/-- the turning points of a record with at least two samples: at least two of them, strictly
increasing, all inside the record -/
theorem timeShifts_tp (told : List ℚ) (dt : ℚ) (h : 2 ≤ told.length) :
    2 ≤ (timeShifts told dt).1.length ∧ (timeShifts told dt).1.Pairwise (· < ·) ∧
      ∀ i ∈ (timeShifts told dt).1, i < told.length := by
  unfold timeShifts
  simp only
  obtain ⟨h0, hl⟩ := turnFlags_ends told dt h
  have hlen := length_turnFlags told dt (by omega)
  refine ⟨?_, nonzeroIdx_pairwise _, ?_⟩
  · apply two_le_length_of_mem (a := 0) (b := told.length - 1)
    · exact (mem_nonzeroIdx _ _).mpr ⟨by omega, h0⟩
    · exact (mem_nonzeroIdx _ _).mpr ⟨by omega, hl⟩
    · omega
  · intro i hi
    have := ((mem_nonzeroIdx _ _).mp hi).1
    omega

/-- the "good" section and the index arithmetic of the alignment never fail -/
theorem alignShift_isSome (told tnew0 : List ℚ) (tp : List Nat) (dt : ℚ)
    (hs : told.Pairwise (· ≤ ·)) (htp : 2 ≤ tp.length) (hinc : tp.Pairwise (· < ·))
    (hin : ∀ i ∈ tp, i < told.length) (hL : 1 ≤ tnew0.length) :
    ∃ r, alignShift told tnew0 tp dt = some r := by
  obtain ⟨j, hj, hjl⟩ := argmaxFirst_some (diffsN tp) (by rw [length_diffsN]; omega)
  rw [length_diffsN] at hjl
  have ha : j < tp.length := by omega
  have hb : j + 1 < tp.length := by omega
  have hab : tp[j] < tp[j + 1] := List.pairwise_iff_getElem.mp hinc j (j + 1) ha hb (by omega)
  have hbl : tp[j + 1] < told.length := hin _ (List.getElem_mem _)
  unfold alignShift
  rw [hj]
  simp only [List.getElem?_eq_getElem ha, List.getElem?_eq_getElem hb]
  generalize hgood : (told.take (tp[j + 1] + 1)).drop tp[j] = good
  have hgl : good.length = tp[j + 1] + 1 - tp[j] := by
    rw [← hgood, List.length_drop, List.length_take]; omega
  have hgne : good ≠ [] := by
    intro h; rw [h] at hgl; simp at hgl; omega
  obtain ⟨g0, hg0⟩ : ∃ g0, good.head? = some g0 := by
    cases good with
    | nil => exact absurd rfl hgne
    | cons x _ => exact ⟨x, rfl⟩
  obtain ⟨gl, hgl'⟩ : ∃ gl, good.getLast? = some gl := ⟨_, List.getLast?_eq_some_getLast hgne⟩
  simp only [hg0, hgl']
  have hsg : good.Pairwise (· ≤ ·) := by
    rw [← hgood]
    exact (hs.sublist (List.take_sublist _ _)).sublist (List.drop_sublist _ _)
  have hle : g0 ≤ gl := head_le_getLast hsg hg0 hgl'
  have hpn : prevIndex tnew0 (g0 + dt / 2) ≤ prevIndex tnew0 (gl + dt / 2) := by
    unfold prevIndex
    have := ssLeft_mono tnew0 (g0 + dt / 2) (gl + dt / 2) (by linarith)
    omega
  have hpL : prevIndex tnew0 (g0 + dt / 2) < tnew0.length := by
    unfold prevIndex
    have := ssLeft_le_length tnew0 (g0 + dt / 2)
    omega
  split_ifs with hc
  · have : ((tnew0.take (prevIndex tnew0 (gl + dt / 2) + 1)).drop (prevIndex tnew0 (g0 + dt / 2))).head? =
        some (tnew0[prevIndex tnew0 (g0 + dt / 2)]'hpL) := by
      rw [List.head?_drop, List.getElem?_take_of_lt (by omega), List.getElem?_eq_getElem hpL]
    rw [this]
    exact ⟨_, rfl⟩
  · exact ⟨_, rfl⟩

/-- **`_mk_initial_tnew` is total** on a sorted record with at least two samples (`sr > 0`) -/
theorem mkInitialTnew_isSome (told : List ℚ) (sr : ℚ) (hsr : 0 < sr) (hs : told.Pairwise (· ≤ ·))
    (hn : 2 ≤ told.length) : ∃ r, mkInitialTnew told sr = some r := by
  have hne : told ≠ [] := by intro h; rw [h] at hn; simp at hn
  obtain ⟨t0, h0⟩ : ∃ t0, told.head? = some t0 := by
    cases told with
    | nil => exact absurd rfl hne
    | cons x _ => exact ⟨x, rfl⟩
  obtain ⟨tl, hl⟩ : ∃ tl, told.getLast? = some tl := ⟨_, List.getLast?_eq_some_getLast hne⟩
  have h0l : t0 ≤ tl := head_le_getLast hs h0 hl
  have hL := (grid_end_rule t0 tl sr hsr h0l).1
  obtain ⟨h1, h2, h3⟩ := timeShifts_tp told (1 / sr) hn
  unfold mkInitialTnew
  simp only [h0, hl]
  split_ifs with hal
  · obtain ⟨r, hr⟩ := alignShift_isSome told (grid0 t0 sr (gridLen t0 tl sr)) (timeShifts told (1 / sr)).1
      (1 / sr) hs h1 h2 h3 (by rw [length_grid0]; exact hL)
    rw [hr]
    exact ⟨_, rfl⟩
  · exact ⟨_, rfl⟩

/-! ### the alignment shift -/

theorem grid0_sorted (t0 sr : ℚ) (hsr : 0 < sr) (L : Nat) : (grid0 t0 sr L).Pairwise (· ≤ ·) := by
  rw [List.pairwise_iff_getElem]
  intro i j hi hj hij
  rw [getElem_grid0, getElem_grid0]
  have : (i : ℚ) ≤ (j : ℚ) := by exact_mod_cast hij.le
  have : (i : ℚ) / sr ≤ (j : ℚ) / sr := div_le_div_of_nonneg_right this hsr.le
  linarith

/-- on the grid `t0 + k/sr` (`L = round((tl - t0)·sr) + 1` points) the point found by
`_get_prev_index(tnew, g + dt/2)` is within half a step of `g`, for every `t0 ≤ g ≤ tl` -/
theorem grid_prev_bound (t0 tl sr g : ℚ) (hsr : 0 < sr) (h0 : t0 ≤ g) (h1 : g ≤ tl) :
    ∃ (hp : prevIndex (grid0 t0 sr (gridLen t0 tl sr)) (g + 1 / sr / 2) < (grid0 t0 sr (gridLen t0 tl sr)).length),
      -(1 / (2 * sr)) < g - (grid0 t0 sr (gridLen t0 tl sr))[prevIndex (grid0 t0 sr (gridLen t0 tl sr)) (g + 1 / sr / 2)] ∧
      g - (grid0 t0 sr (gridLen t0 tl sr))[prevIndex (grid0 t0 sr (gridLen t0 tl sr)) (g + 1 / sr / 2)] ≤ 1 / (2 * sr) := by
  obtain ⟨hL, hend⟩ := grid_end_rule t0 tl sr hsr (le_trans h0 h1)
  generalize hG : grid0 t0 sr (gridLen t0 tl sr) = G at *
  have hGl : G.length = gridLen t0 tl sr := by rw [← hG, length_grid0]
  have hsG : G.Pairwise (· ≤ ·) := by rw [← hG]; exact grid0_sorted t0 sr hsr _
  have hget : ∀ (k : Nat) (hk : k < G.length), G[k] = t0 + (k : ℚ) / sr := by
    intro k hk; subst hG; exact getElem_grid0 _ _ _ _ hk
  have hdt : (0 : ℚ) < 1 / sr / 2 := by positivity
  have e2 : (1 : ℚ) / sr / 2 = 1 / (2 * sr) := by field_simp
  have hss := ssLeft_le_length G (g + 1 / sr / 2)
  have hpos : 1 ≤ ssLeft G (g + 1 / sr / 2) := by
    by_contra hc
    have hz : ssLeft G (g + 1 / sr / 2) ≤ 0 := by omega
    have := le_of_ssLeft_le G (g + 1 / sr / 2) hsG 0 (by omega) hz
    rw [hget 0 (by omega)] at this
    simp only [Nat.cast_zero, zero_div, add_zero] at this
    linarith
  have hp : prevIndex G (g + 1 / sr / 2) < G.length := by unfold prevIndex; omega
  refine ⟨hp, ?_, ?_⟩
  · have := lt_of_lt_ssLeft G (g + 1 / sr / 2) (prevIndex G (g + 1 / sr / 2)) hp (by unfold prevIndex; omega)
    rw [← e2]; linarith
  · by_cases hlast : prevIndex G (g + 1 / sr / 2) + 1 < G.length
    · have := le_of_ssLeft_le G (g + 1 / sr / 2) hsG (prevIndex G (g + 1 / sr / 2) + 1) hlast
        (by unfold prevIndex; omega)
      rw [hget _ hlast] at this
      rw [hget _ hp]
      push_cast at this
      have e3 : (((prevIndex G (g + 1 / sr / 2) : Nat) : ℚ) + 1) / sr =
          ((prevIndex G (g + 1 / sr / 2) : Nat) : ℚ) / sr + 1 / sr := by ring
      rw [e3] at this
      rw [← e2]
      have : (1 : ℚ) / sr = 1 / sr / 2 + 1 / sr / 2 := by ring
      linarith
    · have hidx : prevIndex G (g + 1 / sr / 2) = gridLen t0 tl sr - 1 := by omega
      rw [hget _ hp, hidx]
      rw [abs_le] at hend
      linarith [hend.1]

/-- **shift bound**, length-mismatch branch ("only aligning on first data point of 'good' section"):
the shift is the distance from the first good old time to the grid point found for it, within half
a step -/
theorem alignShift_mismatch_bound (told : List ℚ) (t0 tl sr : ℚ) (hsr : 0 < sr)
    (hs : told.Pairwise (· ≤ ·)) (h0 : told.head? = some t0) (hl : told.getLast? = some tl)
    (tp : List Nat) (delt : ℚ)
    (h : alignShift told (grid0 t0 sr (gridLen t0 tl sr)) tp (1 / sr) = some (delt, true)) :
    -(1 / (2 * sr)) < delt ∧ delt ≤ 1 / (2 * sr) := by
  unfold alignShift at h
  split at h
  · exact absurd h (by simp)
  · rename_i j _
    split at h
    · rename_i a b _ _
      simp only at h
      split at h
      · rename_i g0 gl hg0 hgl
        have hmem : g0 ∈ told := by
          have : g0 ∈ (told.take (b + 1)).drop a := List.mem_of_mem_head? hg0
          exact List.mem_of_mem_take (List.mem_of_mem_drop this)
        have hb0 : t0 ≤ g0 := head_le_mem hs h0 hmem
        have hb1 : g0 ≤ tl := mem_le_getLast hs hmem hl
        obtain ⟨hp, hlo, hhi⟩ := grid_prev_bound t0 tl sr g0 hsr hb0 hb1
        split at h
        · split at h
          · rename_i hd hhd
            injection h with h
            injection h with h1 _
            rw [List.head?_drop] at hhd
            have hhd' := hhd
            rw [List.getElem?_take] at hhd'
            split at hhd'
            · rw [List.getElem?_eq_getElem hp] at hhd'
              injection hhd' with hhd'
              rw [← h1, ← hhd']
              exact ⟨hlo, hhi⟩
            · exact absurd hhd' (by simp)
          · exact absurd h (by simp)
        · injection h with h
          injection h with _ h2
          exact absurd h2 (by simp)
      · exact absurd h (by simp)
    · exact absurd h (by simp)

end PyYetiVerif.Fixtime
