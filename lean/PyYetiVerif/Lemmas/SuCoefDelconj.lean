import PyYetiVerif.Lemmas.SuCoefCoupledBlocks
import Mathlib.Analysis.Complex.Exponential
/-!
Helper lemmas for the real recovery of the coupled path of C01 (`delconj`: one mode of each
complex-conjugate pair is kept, its eigenvector is doubled, and `d = rur_d @ ry - iur_d @ iy`).

From the kept data `e` (an `Eig ℂ n N`) and the flags `cpx k` ("mode `k` is the kept member of a
conjugate pair") the full decomposition is rebuilt:
  modes `Fin N ⊕ {k // cpx k}`; `inl k` is the kept mode (eigenvector halved if `cpx k`), `inr k`
  its conjugate.
-/
namespace PyYetiVerif.SuCoef
open Matrix PyYetiVerif.C01 ComplexConjugate

set_option linter.unusedSectionVars false

noncomputable instance instCplxOpsComplex : CplxOps ℂ ℝ := ⟨Complex.re, Complex.im, Complex.ofReal⟩

variable {n N : ℕ}

/-- full eigenvector matrix rebuilt from the kept one -/
noncomputable def fullU (e : Eig ℂ n N) (cpx : Fin N → Bool) :
    Matrix (Fin n ⊕ Fin n) (Fin N ⊕ {k : Fin N // cpx k = true}) ℂ :=
  Matrix.of fun i => Sum.elim (fun k => if cpx k then e.U i k / 2 else e.U i k)
    (fun k => conj (e.U i k.1) / 2)

/-- full inverse rebuilt from the kept rows -/
noncomputable def fullV (e : Eig ℂ n N) (cpx : Fin N → Bool) :
    Matrix (Fin N ⊕ {k : Fin N // cpx k = true}) (Fin n ⊕ Fin n) ℂ :=
  Matrix.of (Sum.elim (fun k => e.V k) (fun k i => conj (e.V k.1 i)))

noncomputable def fullLam (e : Eig ℂ n N) (cpx : Fin N → Bool) :
    Fin N ⊕ {k : Fin N // cpx k = true} → ℂ :=
  Sum.elim e.lam (fun k => conj (e.lam k.1))

/-- a kept modal state together with the conjugates of its complex modes -/
noncomputable def extend (cpx : Fin N → Bool) (y : Fin N → ℂ) :
    Fin N ⊕ {k : Fin N // cpx k = true} → ℂ :=
  Sum.elim y (fun k => conj (y k.1))

/-- the real-mode data are real -/
def RealModes (e : Eig ℂ n N) (cpx : Fin N → Bool) : Prop :=
  ∀ k, cpx k = false → conj (e.lam k) = e.lam k ∧ (∀ i, conj (e.U i k) = e.U i k) ∧
    (∀ i, conj (e.V k i) = e.V k i)

/-- real entries of a modal state at the real modes -/
def RealAt (cpx : Fin N → Bool) (y : Fin N → ℂ) : Prop := ∀ k, cpx k = false → conj (y k) = y k

theorem fullV_mulVec_real (e : Eig ℂ n N) (cpx : Fin N → Bool) (x : Fin n ⊕ Fin n → ℂ)
    (hx : ∀ i, conj (x i) = x i) : fullV e cpx *ᵥ x = extend cpx (e.V *ᵥ x) := by
  funext k
  cases k with
  | inl k => simp [fullV, extend, Matrix.mulVec, dotProduct]
  | inr k =>
    simp only [fullV, extend, Matrix.mulVec, dotProduct, Matrix.of_apply, Sum.elim_inr, map_sum, map_mul, hx]

theorem V_mulVec_realAt (e : Eig ℂ n N) (cpx : Fin N → Bool) (hr : RealModes e cpx)
    (x : Fin n ⊕ Fin n → ℂ) (hx : ∀ i, conj (x i) = x i) : RealAt cpx (e.V *ᵥ x) := by
  intro k hk
  simp only [Matrix.mulVec, dotProduct, map_sum, map_mul, hx, (hr k hk).2.2]

/-- conjugation commutes with one step of a mode (real `h`) -/
theorem stepCplx_conj (order1 sm : Bool) (lam y w0 w1 : ℂ) (h : ℝ) :
    conj (stepCplx order1 (if sm then cplxSmall (h : ℂ) else cplxCoef lam h) y w0 w1)
      = stepCplx order1 (if sm then cplxSmall (h : ℂ) else cplxCoef (conj lam) h) (conj y) (conj w0)
          (conj w1) := by
  cases sm <;> cases order1 <;>
    simp [stepCplx, cplxSmall, cplxCoef, TransOps.exp, map_add, map_mul, map_sub, map_div₀,
      Complex.conj_ofReal, ← Complex.exp_conj, map_ofNat]

theorem sum_re_eq (e : Eig ℂ n N) (cpx : Fin N → Bool) (hr : RealModes e cpx) (y : Fin N → ℂ)
    (hy : RealAt cpx y) (i : Fin n ⊕ Fin n) :
    (fullU e cpx *ᵥ extend cpx y) i = ((∑ k, (e.U i k * y k).re : ℝ) : ℂ) := by
  simp only [fullU, extend, Matrix.mulVec, dotProduct, Matrix.of_apply, Fintype.sum_sum_type,
    Sum.elim_inl, Sum.elim_inr]
  rw [← Finset.sum_subtype (Finset.univ.filter fun k => cpx k = true) (by simp)
    (fun k => conj (e.U i k) / 2 * conj (y k)), Finset.sum_filter, ← Finset.sum_add_distrib,
    Complex.ofReal_sum]
  refine Finset.sum_congr rfl fun k _ => ?_
  cases hk : cpx k with
  | true =>
    simp only [if_true]
    have := Complex.add_conj (e.U i k * y k)
    rw [map_mul] at this
    have h2 : e.U i k / 2 * y k + conj (e.U i k) / 2 * conj (y k)
        = (e.U i k * y k + conj (e.U i k) * conj (y k)) / 2 := by ring
    rw [h2, this]
    push_cast
    ring
  | false =>
    simp only [Bool.false_eq_true, if_false, add_zero]
    have h1 : conj (e.U i k * y k) = e.U i k * y k := by
      rw [map_mul, (hr k hk).2.1 i, hy k hk]
    obtain ⟨r, hr'⟩ := Complex.conj_eq_iff_real.1 h1
    rw [hr']
    simp

/-- mapping a kept modal state back is the code's real recovery -/
theorem fullU_extend (e : Eig ℂ n N) (cpx : Fin N → Bool) (hr : RealModes e cpx) (y : Fin N → ℂ)
    (hy : RealAt cpx y) :
    fullU e cpx *ᵥ extend cpx y
      = Sum.elim (fun j => ((recoverReal e.urV y j : ℝ) : ℂ)) (fun j => ((recoverReal e.urD y j : ℝ) : ℂ)) := by
  funext i
  rw [sum_re_eq e cpx hr y hy i]
  cases i with
  | inl j =>
    simp only [Sum.elim_inl, recoverReal, dotFin_eq_real, CplxOps.re, CplxOps.im, Eig.U, Matrix.of_apply,
      Complex.mul_re, Finset.sum_sub_distrib]
  | inr j =>
    simp only [Sum.elim_inr, recoverReal, dotFin_eq_real, CplxOps.re, CplxOps.im, Eig.U, Matrix.of_apply,
      Complex.mul_re, Finset.sum_sub_distrib]

/-- the full modal recurrence on an extended state is the extension of the kept recurrence -/
theorem step_extend (e : Eig ℂ n N) (cpx : Fin N → Bool) (isSmall : ℂ → Bool) (h : ℝ) (order1 : Bool)
    (y w0 w1 : Fin N → ℂ) :
    (fun k => stepCplx order1
        (if Sum.elim (fun k => isSmall (e.lam k)) (fun k => isSmall (e.lam k.1)) k then cplxSmall (h : ℂ)
          else cplxCoef (fullLam e cpx k) h)
        (extend cpx y k) (extend cpx w0 k) (extend cpx w1 k))
      = extend cpx (stepModal order1 (fun k => coefSel isSmall (e.lam k) h) y w0 w1) := by
  funext k
  cases k with
  | inl k =>
    simp only [extend, fullLam, stepModal, coefSel, Sum.elim_inl]
    rfl
  | inr k =>
    simp only [extend, fullLam, stepModal, coefSel, Sum.elim_inr]
    exact (stepCplx_conj order1 (isSmall (e.lam k.1)) (e.lam k.1) (y k.1) (w0 k.1) (w1 k.1) h).symm

theorem step_realAt (e : Eig ℂ n N) (cpx : Fin N → Bool) (hr : RealModes e cpx) (isSmall : ℂ → Bool)
    (h : ℝ) (order1 : Bool) (y w0 w1 : Fin N → ℂ) (hy : RealAt cpx y) (h0 : RealAt cpx w0)
    (h1 : RealAt cpx w1) :
    RealAt cpx (stepModal order1 (fun k => coefSel isSmall (e.lam k) h) y w0 w1) := by
  intro k hk
  simp only [stepModal, coefSel]
  rw [stepCplx_conj, (hr k hk).1, hy k hk, h0 k hk, h1 k hk]

end PyYetiVerif.SuCoef
