import PyYetiVerif.Lemmas.BulkSet
/-! SPOINT / CSUPER / EXTRN on physical lines (C13; core Lean only). -/
namespace PyYetiVerif.Bulk

/-! ### SPOINT -/

/-- a property of every id carries over to the numbers of the compressed items -/
theorem compress_forall (P : Int → Prop) (ids : List Int) (h : ∀ x ∈ ids, P x) :
    ∀ it ∈ compress ids, P it.first ∧ P it.last := by
  intro it hit
  have hsub : ∀ x ∈ it.expand, x ∈ ids := by
    intro x hx
    rw [← compress_expand ids]
    exact List.mem_flatMap.mpr ⟨it, hit, hx⟩
  have hp : it.Proper := by
    cases ids with
    | nil => simp [compress] at hit
    | cons x xs => exact compressAux_proper xs x x it hit
  cases it with
  | one x => exact ⟨h x (hsub x (by simp [Item.expand])), h x (hsub x (by simp [Item.expand]))⟩
  | thru a b =>
      have hab : a < b := hp
      exact ⟨h a (hsub a ((mem_rangeI a b a).mpr ⟨by omega, by omega⟩)),
        h b (hsub b ((mem_rangeI a b b).mpr ⟨by omega, by omega⟩))⟩

/-- the two card shapes of `_wt_with_thru` -/
def SpCard (P : Int → Prop) (c : List Fld) : Prop :=
  (∃ l : List Int, l ≠ [] ∧ l.length ≤ 8 ∧ (∀ x ∈ l, P x) ∧ c = l.map Fld.int) ∨
  (∃ a b : Int, P a ∧ P b ∧ c = [Fld.int a, Fld.word (txt "THRU"), Fld.int b])

theorem thruCards_shape (P : Int → Prop) (items : List Item) (hi : ∀ it ∈ items, P it.first ∧ P it.last) :
    ∀ (p : List Int), p.length < 8 → (∀ x ∈ p, P x) → ∀ c ∈ thruCards p items, SpCard P c := by
  induction items with
  | nil =>
      intro p hp hP c hc
      unfold thruCards at hc
      cases p with
      | nil => simp at hc
      | cons x xs => simp at hc; subst hc; exact Or.inl ⟨x :: xs, by simp, by simp at hp ⊢; omega, hP, rfl⟩
  | cons it r ih =>
      intro p hp hP c hc
      have hr : ∀ it ∈ r, P it.first ∧ P it.last := fun x hx => hi x (by simp [hx])
      cases it with
      | thru a b =>
          have hab := hi (.thru a b) (by simp)
          unfold thruCards at hc
          simp only [List.mem_append, List.mem_cons] at hc
          rcases hc with hc | hc | hc
          · cases p with
            | nil => simp at hc
            | cons x xs => simp at hc; subst hc; exact Or.inl ⟨x :: xs, by simp, by simp at hp ⊢; omega, hP, rfl⟩
          · subst hc; exact Or.inr ⟨a, b, hab.1, hab.2, rfl⟩
          · exact ih hr [] (by simp) (by simp) c hc
      | one x =>
          have hx := (hi (.one x) (by simp)).1
          have hPx : ∀ y ∈ p ++ [x], P y := by
            intro y hy; rcases List.mem_append.mp hy with hy | hy
            · exact hP y hy
            · simp at hy; subst hy; exact hx
          unfold thruCards at hc
          split at hc
          · rename_i h8
            simp only [List.mem_cons] at hc
            rcases hc with hc | hc
            · subst hc; exact Or.inl ⟨p ++ [x], by simp, by omega, hPx, rfl⟩
            · exact ih hr [] (by simp) (by simp) c hc
          · rename_i h8
            exact ih hr (p ++ [x]) (by simp at h8 ⊢; omega) hPx c hc

theorem nasScan_thru : nasScan (padR 8 (txt "THRU")) = Val.str (txt "THRU") := by decide

theorem isCont_S (m : Mode) (r : Txt) : isCont m ('S' :: r) = false := by
  cases m <;> simp [isCont, Mode.conchar]

theorem chunks_small {α : Type} (k : Nat) (l : List α) (h0 : l ≠ []) (hk : l.length ≤ k) : chunks k l = [l] := by
  unfold chunks
  have : l.isEmpty = false := by cases l with | nil => exact absurd rfl h0 | cons => rfl
  simp [hk, this]

/-- one SPOINT card: a single physical line that reads back to its fields -/
theorem spCard_read (c : List Fld) (hc : SpCard (fun x => (dec x).length ≤ 8) c) (fuel : Nat) (rest : List Txt)
    (hr : ∀ x, rest.head? = some x → ∃ t, x = 'S' :: t) :
    rdcardsAux (txt "spoint") (fuel + 1) (card8Lines (txt "SPOINT") c ++ rest) =
      c.map Fld.val :: rdcardsAux (txt "spoint") fuel rest := by
  have hshape : ∃ S' n, c.map Fld.fmt8 = S' ++ [padL 8 (dec n)] ∧ (∀ f ∈ c.map Fld.fmt8, FieldOK 8 f) ∧
      c ≠ [] ∧ c.length ≤ 8 ∧ (c.map Fld.fmt8).map nasScan = c.map Fld.val := by
    rcases hc with ⟨l, hl0, hl8, hP, rfl⟩ | ⟨a, b, ha, hb, rfl⟩
    · rcases List.eq_nil_or_concat l with e | ⟨l', n, e⟩
      · exact absurd e hl0
      · have e' : l = l' ++ [n] := by simpa using e
        refine ⟨(l'.map Fld.int).map Fld.fmt8, n, by simp [e', Fld.fmt8], ?_, by simpa using hl0, by simpa using hl8, ?_⟩
        · intro f hf
          simp only [List.map_map, List.mem_map, Function.comp] at hf
          obtain ⟨x, hx, rfl⟩ := hf
          exact fieldOK_padL_dec 8 x (hP x hx)
        · simp [List.map_map, Function.comp, Fld.fmt8, Fld.val, nasScan_padL]
    · refine ⟨[padL 8 (dec a), padR 8 (txt "THRU")], b, by simp [Fld.fmt8], ?_, by simp, by simp, ?_⟩
      · intro f hf
        simp only [List.map_cons, List.map_nil, Fld.fmt8, List.mem_cons, List.not_mem_nil, or_false] at hf
        rcases hf with rfl | rfl | rfl
        · exact fieldOK_padL_dec 8 a ha
        · exact ⟨by decide, by decide, by decide⟩
        · exact fieldOK_padL_dec 8 b hb
      · simp [Fld.fmt8, Fld.val, nasScan_padL, nasScan_thru]
  obtain ⟨S', n, hS, hok, hne, hlen, hvals⟩ := hshape
  have hfl : FixedLine 8 (padR 8 (txt "SPOINT")) (c.map Fld.fmt8) 0 := by
    rw [hS]
    refine FixedLine.build 8 _ S' _ 0 (by decide) (by decide) (by decide) (by rw [← hS]; exact hok)
      (by intro e; simp [padL] at e; exact dec_ne_nil n e.2) (lastSolid_padL_dec 8 n) ?_
    have : S'.length + 1 = c.length := by
      have := congrArg List.length hS; simp at this; omega
    omega
  have hline : card8Lines (txt "SPOINT") c = [padR 8 (txt "SPOINT") ++ (c.map Fld.fmt8).flatten ++ blanks 0] := by
    simp [card8Lines, chunks_small 8 c hne hlen, blanks]
  have hm := hfl.modeOf
  have hstar : (padR 8 (txt "SPOINT")).contains '*' = false := by decide
  rw [hstar] at hm; simp only [Bool.false_eq_true, if_false] at hm
  have hcard := rdcardsAux_card (txt "spoint") fuel
    (padR 8 (txt "SPOINT") ++ (c.map Fld.fmt8).flatten ++ blanks 0) [] rest
    (by rw [List.append_assoc, lower_append]
        have : lower (padR 8 (txt "SPOINT")) = txt "spoint" ++ txt "  " := by decide
        rw [this, List.append_assoc]; exact startsWith_append _ _)
    (by simp)
    (by intro x hx; obtain ⟨t, rfl⟩ := hr x hx; exact isCont_S _ t)
  simp only [List.nil_append, List.map_nil] at hcard
  rw [hline, List.singleton_append, hcard, hm, hfl.fields .f8 (by decide) (by decide) true, hvals]
  simp [cardVals]

theorem card8Lines_head (c : List Fld) : ∃ t ls, card8Lines (txt "SPOINT") c = ('S' :: t) :: ls := by
  unfold card8Lines
  cases chunks 8 c with
  | nil => exact ⟨_, _, rfl⟩
  | cons a b => exact ⟨_, _, rfl⟩

theorem rdcardsAux_spoint (cs : List (List Fld)) (hc : ∀ c ∈ cs, SpCard (fun x => (dec x).length ≤ 8) c) :
    ∀ fuel, (cs.flatMap (card8Lines (txt "SPOINT"))).length < fuel →
    rdcardsAux (txt "spoint") fuel (cs.flatMap (card8Lines (txt "SPOINT"))) = cs.map (·.map Fld.val) := by
  induction cs with
  | nil => intro fuel _; simp [rdcardsAux_nil]
  | cons c r ih =>
      intro fuel hf
      have ih := ih (fun x hx => hc x (by simp [hx]))
      obtain ⟨t, ls, hh⟩ := card8Lines_head c
      cases fuel with
      | zero => omega
      | succ f =>
          have hlen : (r.flatMap (card8Lines (txt "SPOINT"))).length < f := by
            simp only [List.flatMap_cons, List.length_append, hh, List.length_cons] at hf; omega
          rw [List.flatMap_cons, List.map_cons, ← ih f hlen]
          apply spCard_read c (hc c (by simp)) f
          intro x hx
          cases r with
          | nil => simp at hx
          | cons c' r' =>
              obtain ⟨t', ls', hh'⟩ := card8Lines_head c'
              simp [List.flatMap_cons, hh'] at hx
              exact ⟨t', hx.symm⟩

/-- `rdspoints (wtspoints ids) = ids` on physical lines -/
theorem rdSpoints_spointLines (ids : List Int) (hw : ∀ x ∈ ids, (dec x).length ≤ 8) :
    rdSpoints (spointLines ids) = some ids := by
  have hitems := compress_forall (fun x => (dec x).length ≤ 8) ids hw
  have hshape := thruCards_shape (fun x => (dec x).length ≤ 8) (compress ids) hitems [] (by simp) (by simp)
  have hl : lower (txt "spoint") = txt "spoint" := by decide
  unfold rdSpoints rdcards spointLines
  rw [hl, rdcardsAux_spoint _ hshape _ (Nat.lt_succ_self _)]
  have := spoint_cards (compress ids) []
  simp only [List.nil_append, compress_expand] at this
  have e : rdF = fun c => spointCard (c.map Fld.val) := rfl
  rw [e] at this
  simpa [spointCards, List.map_map, Function.comp_def] using this

/-! ### cards written through `wtnasints` (CSUPER, EXTRN) -/

theorem chunks_ne_nil {α : Type} (k : Nat) (l : List α) (h : l ≠ []) : chunks k l ≠ [] := by
  intro e
  have := chunks_flatten k l
  rw [e] at this
  exact h this.symm

theorem cardVals_chunks {α β : Type} (b : β) (k : Nat) (f : α → β) (l : List α) :
    cardVals b k ((chunks k l).map (List.map f)) = l.map f := by
  fun_induction chunks k l with
  | case1 l h he => simp_all [cardVals]
  | case2 l h he => simp [cardVals]
  | case3 l h ih =>
      have hk : ¬ k = 0 ∧ k < l.length := by omega
      have hne : l.drop k ≠ [] := by
        intro e; have := congrArg List.length e; simp at this; omega
      cases hq : chunks k (l.drop k) with
      | nil => exact absurd hq (chunks_ne_nil k _ hne)
      | cons a r =>
          rw [hq] at ih
          simp only [List.map_cons, cardVals] at ih ⊢
          rw [ih]
          have : ((l.take k).map f).length = k := by simp; omega
          simp only [padTo, this, Nat.sub_self, List.replicate_zero, List.append_nil]
          rw [← List.map_append, List.take_append_drop]

/-- the lines of a card whose integers are laid out by `wtnasints` after `pre.length` leading
integer fields: 8 fields per line -/
def intsCardLines (lead : Txt) (pre ints : List Int) : List Txt :=
  prefixFirst (lead ++ fmtInts pre) (nasintsText (pre.length + 2) ints)

theorem fmtInts_append (a b : List Int) : fmtInts (a ++ b) = fmtInts a ++ fmtInts b := by
  simp [fmtInts]

theorem intsCardLines_eq (lead : Txt) (pre ints : List Int) (hp : pre.length ≤ 8) (hne : pre ++ ints ≠ []) :
    ∃ f r, chunks 8 (pre ++ ints) = f :: r ∧
      intsCardLines lead pre ints = (lead ++ fmtInts f) :: r.map fun l => blanks 8 ++ fmtInts l := by
  unfold intsCardLines nasintsText nasintsLines
  have h10 : 10 - (pre.length + 2) = 8 - pre.length := by omega
  rw [h10]
  by_cases hlen : 8 - pre.length ≤ ints.length
  · rw [if_pos hlen]
    have hc : chunks 8 (pre ++ ints) = (pre ++ ints.take (8 - pre.length)) :: chunks 8 (ints.drop (8 - pre.length)) := by
      rw [chunks_eq]
      by_cases h8 : (pre ++ ints).length ≤ 8
      · have : ints.length = 8 - pre.length := by simp at h8; omega
        have hemp : (pre ++ ints).isEmpty = false := by
          cases hq : pre ++ ints with
          | nil => exact absurd hq hne
          | cons => rfl
        rw [if_pos (Or.inr h8), hemp, ← this, List.take_length, List.drop_length, chunks_nil]
        rfl
      · rw [if_neg (by omega)]
        congr 1
        · rw [List.take_append]; simp [List.take_of_length_le hp]
        · rw [List.drop_append]; simp [List.drop_eq_nil_of_le hp]
    refine ⟨_, _, hc, ?_⟩
    simp [prefixFirst, fmtInts_append, List.append_assoc]
  · rw [if_neg hlen]
    have h8 : (pre ++ ints).length ≤ 8 := by simp; omega
    have hc : chunks 8 (pre ++ ints) = [pre ++ ints] := chunks_small 8 _ hne h8
    refine ⟨_, _, hc, ?_⟩
    simp [prefixFirst, fmtInts_append, List.append_assoc]

theorem fmtInts_fields (l : List Int) : fmtInts l = (l.map fun n => padL 8 (dec n)).flatten := rfl

theorem ints_line (lead : Txt) (h8 : lead.length = 8) (hd : '$' ∉ lead) (hc : ',' ∉ lead) (l : List Int) (hl : l ≠ [])
    (hlen : l.length ≤ 8) (hw : ∀ x ∈ l, (dec x).length ≤ 8) :
    FixedLine 8 lead (l.map fun n => padL 8 (dec n)) 0 := by
  rcases List.eq_nil_or_concat l with e | ⟨l', n, e⟩
  · exact absurd e hl
  · have e' : l = l' ++ [n] := by simpa using e
    subst e'
    have : (l' ++ [n]).map (fun n => padL 8 (dec n)) = l'.map (fun n => padL 8 (dec n)) ++ [padL 8 (dec n)] := by simp
    rw [this]
    refine FixedLine.build 8 lead _ _ 0 h8 hd hc ?_ (by intro e; simp [padL] at e; exact dec_ne_nil n e.2)
      (lastSolid_padL_dec 8 n) (by simp at hlen ⊢; omega)
    intro f hf
    rw [← this] at hf
    obtain ⟨x, hx, rfl⟩ := List.mem_map.mp hf
    exact fieldOK_padL_dec 8 x (hw x hx)

theorem isCont_blanks8' (x : Txt) : isCont .f8 (blanks 8 ++ x) = true := rfl

/-- a card laid out by `wtnasints`, read back: all the integers, no padding blanks in between -/
theorem intsCard_read (nm lead : Txt) (h8 : lead.length = 8) (hd : '$' ∉ lead) (hc : ',' ∉ lead)
    (hstar : lead.contains '*' = false) (hnm : ∀ r, startsWith nm (lower (lead ++ r)) = true)
    (pre ints : List Int) (hp : pre.length ≤ 8) (hne : pre ++ ints ≠ []) (hw : ∀ x ∈ pre ++ ints, (dec x).length ≤ 8)
    (fuel : Nat) :
    rdcardsAux nm (fuel + 1) (intsCardLines lead pre ints) = [(pre ++ ints).map Val.int] := by
  obtain ⟨f, r, hch, hlines⟩ := intsCardLines_eq lead pre ints hp hne
  have hall := chunks_length_le 8 (by decide) (pre ++ ints)
  have hsub : ∀ c ∈ chunks 8 (pre ++ ints), ∀ x ∈ c, x ∈ pre ++ ints := by
    intro c hc' x hx
    rw [← chunks_flatten 8 (pre ++ ints)]
    exact List.mem_flatten.mpr ⟨c, hc', hx⟩
  have hf := hall f (by rw [hch]; simp)
  have hfne : f ≠ [] := by intro e; rw [e] at hf; simp at hf
  have hfl := ints_line lead h8 hd hc f hfne hf.1 (fun x hx => hw x (hsub f (by rw [hch]; simp) x hx))
  have hm := hfl.modeOf
  rw [hstar] at hm; simp only [Bool.false_eq_true, if_false] at hm
  have e1 : lead ++ fmtInts f = lead ++ (f.map fun n => padL 8 (dec n)).flatten ++ blanks 0 := by
    simp [fmtInts_fields, blanks]
  have hconts : (r.map fun l => blanks 8 ++ fmtInts l).map (lineFields .f8 false) = r.map (fun l => l.map Val.int) := by
    rw [List.map_map]
    apply List.map_congr_left
    intro l hl
    have hl' := hall l (by rw [hch]; simp [hl])
    have hlne : l ≠ [] := by intro e; rw [e] at hl'; simp at hl'
    have hfl' := ints_line (blanks 8) (by decide) (by decide) (by decide) l hlne hl'.1
      (fun x hx => hw x (hsub l (by rw [hch]; simp [hl]) x hx))
    have := hfl'.fields .f8 (by decide) (by decide) false
    simp only [Function.comp]
    have e2 : blanks 8 ++ fmtInts l = blanks 8 ++ (l.map fun n => padL 8 (dec n)).flatten ++ blanks 0 := by
      simp [fmtInts_fields, blanks]
    rw [e2, this]
    simp [List.map_map, Function.comp, nasScan_padL]
  rw [hlines, e1]
  have hcard := rdcardsAux_card nm fuel (lead ++ (f.map fun n => padL 8 (dec n)).flatten ++ blanks 0)
    (r.map fun l => blanks 8 ++ fmtInts l) []
    (by rw [List.append_assoc]; exact hnm _)
    (by rw [hm]; intro x hx; obtain ⟨l, _, rfl⟩ := List.mem_map.mp hx; exact isCont_blanks8' _)
    (by simp)
  rw [List.append_nil] at hcard
  rw [hcard, hm, hfl.fields .f8 (by decide) (by decide) true, hconts, rdcardsAux_nil]
  have := cardVals_chunks Val.blank 8 Val.int (pre ++ ints)
  rw [hch] at this
  simp only [List.map_cons] at this
  have hfm : (f.map fun n => padL 8 (dec n)).map nasScan = f.map Val.int := by
    rw [List.map_map]; apply List.map_congr_left; intro x _; simp [nasScan_padL]
  simp only [Mode.inc, hfm]
  rw [← this]

theorem csuperLines_eq (sid : Int) (grids : List Int) :
    csuperLines sid grids = intsCardLines (txt "CSUPER  ") [sid, 0] grids := by
  simp [csuperLines, intsCardLines, fmtInts]

theorem extrnLines_eq (pairs : List (Int × Int)) :
    extrnLines pairs = intsCardLines (txt "EXTRN   ") [] (interleave pairs) := by
  simp [extrnLines, intsCardLines, fmtInts]

/-- `rdcsupers (wtcsuper id grids) = {id: [id, 0, grids…]}` on physical lines -/
theorem rdCsupers_csuperLines (sid : Int) (grids : List Int) (hs : (dec sid).length ≤ 8)
    (hw : ∀ x ∈ grids, (dec x).length ≤ 8) :
    rdCsupers (csuperLines sid grids) = [(Val.int sid, Val.int sid :: Val.int 0 :: grids.map Val.int)] := by
  have hl : lower (txt "csuper") = txt "csuper" := by decide
  have hcard := intsCard_read (txt "csuper") (txt "CSUPER  ") (by decide) (by decide) (by decide) (by decide)
    (by intro r; rw [lower_append]
        have : lower (txt "CSUPER  ") = txt "csuper" ++ txt "  " := by decide
        rw [this, List.append_assoc]; exact startsWith_append _ _)
    [sid, 0] grids (by simp) (by simp)
    (by intro x hx; simp only [List.cons_append, List.nil_append, List.mem_cons] at hx
        rcases hx with rfl | rfl | hx
        · exact hs
        · decide
        · exact hw x hx)
  unfold rdCsupers rdcards
  rw [hl, csuperLines_eq, hcard]
  simp [Val.arr, dictPut]

theorem pairUp_interleave_map (ps : List (Int × Int)) :
    pairUp ((interleave ps).map Val.int) = some (ps.map fun p => (Val.int p.1, Val.int p.2)) := by
  induction ps with
  | nil => rfl
  | cons p r ih => obtain ⟨a, b⟩ := p; simp [interleave, pairUp, ih]

theorem mem_interleave (ps : List (Int × Int)) (x : Int) (h : x ∈ interleave ps) : ∃ p ∈ ps, x = p.1 ∨ x = p.2 := by
  induction ps with
  | nil => simp [interleave] at h
  | cons p r ih =>
      obtain ⟨a, b⟩ := p
      simp only [interleave, List.mem_cons] at h
      rcases h with rfl | rfl | h
      · exact ⟨(x, b), by simp, Or.inl rfl⟩
      · exact ⟨(a, x), by simp, Or.inr rfl⟩
      · obtain ⟨q, hq, hx⟩ := ih h
        exact ⟨q, by simp [hq], hx⟩

/-- `rdextrn (wtextrn ids dof, expand=False)` = the id / dof pairs, on physical lines -/
theorem rdExtrn_extrnLines (pairs : List (Int × Int)) (hne : pairs ≠ [])
    (hw : ∀ p ∈ pairs, (dec p.1).length ≤ 8 ∧ (dec p.2).length ≤ 8) :
    rdExtrn (extrnLines pairs) = some (pairs.map fun p => (Val.int p.1, Val.int p.2)) := by
  have hl : lower (txt "extrn") = txt "extrn" := by decide
  have hin : interleave pairs ≠ [] := by
    cases pairs with
    | nil => exact absurd rfl hne
    | cons p r => obtain ⟨a, b⟩ := p; simp [interleave]
  have hwi : ∀ x ∈ interleave pairs, (dec x).length ≤ 8 := by
    intro x hx
    obtain ⟨p, hp, h | h⟩ := mem_interleave pairs x hx
    · rw [h]; exact (hw p hp).1
    · rw [h]; exact (hw p hp).2
  have hcard := intsCard_read (txt "extrn") (txt "EXTRN   ") (by decide) (by decide) (by decide) (by decide)
    (by intro r; rw [lower_append]
        have : lower (txt "EXTRN   ") = txt "extrn" ++ txt "   " := by decide
        rw [this, List.append_assoc]; exact startsWith_append _ _)
    [] (interleave pairs) (by simp) (by simpa using hin) (by simpa using hwi)
  unfold rdExtrn rdcards
  rw [hl, extrnLines_eq, hcard]
  have harr : ((interleave pairs).map Val.int).map Val.arr = (interleave pairs).map Val.int := by
    rw [List.map_map]; rfl
  simp only [List.nil_append, List.map_cons, List.map_nil, harr, List.foldl_cons, List.foldl_nil, List.flatMap_cons,
    List.flatMap_nil, List.append_nil]
  have : padTo Val.blank (max 0 ((interleave pairs).map Val.int).length) ((interleave pairs).map Val.int) =
      (interleave pairs).map Val.int := by simp [padTo]
  rw [this]
  exact pairUp_interleave_map pairs

end PyYetiVerif.Bulk
