import PyYetiVerif.Generated.CRain
import PyYetiVerif.Lemmas.RainflowGen2
/-! The generated C `rainflow2` WITHOUT USE_FASTER_RAINFLOW_ROUTINE (Generated/CRain.lean, `rainflow2_slow`:
pass one only counts the full cycles, both tables are then allocated with exactly `L - fullcyclesp1` rows and
pass two fills them) never fails and computes the table and offsets of the model (core Lean only).
The additional invariant: the rows written so far are a prefix of the final table, whose length pass one
has counted (`fold2_rows_le`, `RelQ2` with capacity `N`). -/
set_option linter.unusedSectionVars false
set_option linter.unusedVariables false
set_option linter.unusedSimpArgs false
namespace PyYetiVerif.RainflowGen
open PyYetiVerif.RainflowImp PyYetiVerif.Generated.CRain PyYetiVerif.Rainflow PyYetiVerif.RainflowEntry

variable {α : Type} [Ops α]

theorem step_rows_le (acc : List (α × Nat) × List (Cyc α)) (p : α × Nat) :
    acc.2.length ≤ (step acc p).2.length := by
  simp [step]

theorem fold2_rows_le (pts : List α) (k : Nat) (hk : k ≤ pts.length) :
    (fold2 pts k).2.length ≤ (fold2 pts pts.length).2.length := by
  obtain ⟨d, hd⟩ : ∃ d, k + d = pts.length := ⟨pts.length - k, by omega⟩
  induction d generalizing k with
  | zero => simp at hd; subst hd; exact Nat.le_refl _
  | succ d ih =>
      have hk' : k < pts.length := by omega
      have := ih (k + 1) (by omega) (by omega)
      rw [fold2_succ pts k hk'] at this
      exact Nat.le_trans (step_rows_le _ _) this

/-! ### pass one: the stack of values and the counter; `cycle_index` and the tables are not touched -/

structure RelQ1 (L m : Nat) (s : Rainflow2SlowSt α) (st : List (α × Nat)) (rows : List (Cyc α)) : Prop where
  psize : s.pts.size = L
  csize : s.cycle_index.size = L
  hj : s.j = (st.length : Int) - 1
  hpts : ArrStack s.pts (st.map Prod.fst)
  hfull : s.fullcyclesp1 = 1 + ((rows.filter (·.full)).length : Int)
  hbound : st.length + rows.length + (rows.filter (·.full)).length = m
  hm : m ≤ L

theorem bodyQ1_brk (habs : ∀ a b : α, Ops.abs (a - b) = absd a b) (peaks : Arr α) (L m : Nat)
    (s : Rainflow2SlowSt α) (c b a : α × Nat) (rest : List (α × Nat)) (rows : List (Cyc α))
    (hR : RelQ1 L m s (c :: b :: a :: rest) rows) (hlt : absd b.1 c.1 < absd a.1 b.1) :
    ∃ s', rainflow2_slow_while1_body peaks (L : Int) s = some (Ctl.brk s') ∧
      RelQ1 L m s' (c :: b :: a :: rest) rows := by
  obtain ⟨psize, csize, hj, hpts, hfull, hbound, hm⟩ := hR
  simp only [List.length_cons] at hj hbound
  have e2 : s.j - 2 = ((rest.length : Nat) : Int) := by omega
  have e1 : s.j - 1 = ((rest.length + 1 : Nat) : Int) := by omega
  have e0 : s.j = ((rest.length + 2 : Nat) : Int) := by omega
  have hp := hpts
  simp only [List.map_cons] at hp
  obtain ⟨p0, p1, p2⟩ := hp.top3
  simp only [List.length_map] at p0 p1 p2
  unfold rainflow2_slow_while1_body
  simp only [e2, e1, Arr.get_natCast, p2, p1, Option.bind_eq_bind, Option.bind_some, habs]
  rw [e0]
  simp only [Arr.get_natCast, p0, Option.bind_some, hlt, if_true]
  refine ⟨_, rfl, ⟨psize, csize, ?_, hpts, hfull, by simpa using hbound, hm⟩⟩
  simp only [List.length_cons]; omega

theorem bodyQ1_full (habs : ∀ a b : α, Ops.abs (a - b) = absd a b) (peaks : Arr α) (L m : Nat)
    (s : Rainflow2SlowSt α) (c b a r : α × Nat) (rest : List (α × Nat)) (rows : List (Cyc α))
    (hR : RelQ1 L m s (c :: b :: a :: r :: rest) rows) (hlt : ¬ absd b.1 c.1 < absd a.1 b.1) :
    ∃ s', rainflow2_slow_while1_body peaks (L : Int) s = some (Ctl.next s') ∧
      RelQ1 L m s' (c :: r :: rest) (rows ++ [mkCyc true a b]) := by
  obtain ⟨psize, csize, hj, hpts, hfull, hbound, hm⟩ := hR
  simp only [List.length_cons] at hj hbound
  have e2 : s.j - 2 = ((rest.length + 1 : Nat) : Int) := by omega
  have e1 : s.j - 1 = ((rest.length + 1 + 1 : Nat) : Int) := by omega
  have e0 : s.j = ((rest.length + 1 + 2 : Nat) : Int) := by omega
  have hp := hpts
  simp only [List.map_cons] at hp
  obtain ⟨p0, p1, p2⟩ := hp.top3
  simp only [List.length_cons, List.length_map] at p0 p1 p2
  have hps : rest.length + 1 < s.pts.size := by omega
  unfold rainflow2_slow_while1_body
  simp only [e2, e1, Arr.get_natCast, p2, p1, Option.bind_eq_bind, Option.bind_some, habs]
  rw [e0]
  have hne : ¬ (((rest.length + 1 + 2 : Nat) : Int) = 2) := by omega
  simp only [Arr.get_natCast, p0, Option.bind_some, hlt, if_false, hne]
  rw [Arr.set_natCast _ _ _ hps]
  simp only [Option.bind_some, Option.pure_def]
  have hp4 := hp.step4
  simp only [List.length_map] at hp4
  refine ⟨_, rfl, ⟨by simpa using psize, csize, ?_, by simpa using hp4, ?_, ?_, hm⟩⟩
  · simp only [List.length_cons]; omega
  · simp only [List.filter_append, List.length_append]
    simp [mkCyc]; omega
  · simp only [List.length_cons, List.length_append, List.length_nil, List.filter_append]
    simp [mkCyc]; omega

theorem bodyQ1_half (habs : ∀ a b : α, Ops.abs (a - b) = absd a b) (peaks : Arr α) (L m : Nat)
    (s : Rainflow2SlowSt α) (c b a : α × Nat) (rows : List (Cyc α))
    (hR : RelQ1 L m s [c, b, a] rows) (hlt : ¬ absd b.1 c.1 < absd a.1 b.1) :
    ∃ s', rainflow2_slow_while1_body peaks (L : Int) s = some (Ctl.next s') ∧
      RelQ1 L m s' [c, b] (rows ++ [mkCyc false a b]) := by
  obtain ⟨psize, csize, hj, hpts, hfull, hbound, hm⟩ := hR
  simp only [List.length_cons, List.length_nil] at hj hbound
  have e0 : s.j = 2 := by omega
  have hp := hpts
  simp only [List.map_cons, List.map_nil] at hp
  obtain ⟨p0, p1, p2⟩ := hp.top3
  simp only [List.length_nil] at p0 p1 p2
  have hps : 3 ≤ s.pts.size := by omega
  unfold rainflow2_slow_while1_body
  simp only [e0, Int.sub_self, Arr.get_zero, Arr.get_one, Arr.get_two, p2, p1, p0,
    Option.bind_eq_bind, Option.bind_some, habs, hlt, if_false, if_true,
    show (2 : Int) - 1 = 1 from rfl]
  rw [Arr.set_zero _ _ (by omega)]
  simp only [Option.bind_some, Arr.get_two]
  rw [Arr.val_upd_ne _ _ _ _ (by omega) (by omega), p0]
  simp only [Option.bind_some]
  rw [Arr.set_one _ _ (by simp; omega)]
  simp only [Option.bind_some, Option.pure_def]
  refine ⟨_, rfl, ⟨by simpa using psize, csize, ?_, by simpa using hp.step5, ?_, ?_, hm⟩⟩
  · simp
  · simp only [List.filter_append, List.length_append]
    simp [mkCyc]; omega
  · simp only [List.length_cons, List.length_append, List.length_nil, List.filter_append]
    simp [mkCyc]; omega

/-- the `while j > 1` loop of the generated C `rainflow2` is the model's `reduce` -/
theorem whileQ1_sim (habs : ∀ a b : α, Ops.abs (a - b) = absd a b) (peaks : Arr α) (L m : Nat)
    (st : List (α × Nat)) : ∀ (s : Rainflow2SlowSt α) (rows : List (Cyc α)) (fuel : Nat),
    RelQ1 L m s st rows → st.length ≤ fuel → 0 < fuel →
    ∃ s', whileLoop (rainflow2_slow_while1_cond peaks (L : Int)) (rainflow2_slow_while1_body peaks (L : Int)) fuel s
        = some s' ∧ RelQ1 L m s' (reduce st).1 (rows ++ (reduce st).2) := by
  fun_induction reduce st with
  | case1 c b a h =>
      intro s rows fuel hR hf h0
      obtain ⟨fuel, rfl⟩ : ∃ f, fuel = f + 1 := ⟨fuel - 1, by omega⟩
      obtain ⟨s', hb, hR'⟩ := bodyQ1_brk habs peaks L m s c b a [] rows hR h
      have hc : rainflow2_slow_while1_cond peaks (L : Int) s = true := by
        simp [rainflow2_slow_while1_cond, hR.hj]
      refine ⟨s', ?_, by simpa using hR'⟩
      simp [whileLoop, hc, hb]
  | case2 c b a h =>
      intro s rows fuel hR hf h0
      obtain ⟨fuel, rfl⟩ : ∃ f, fuel = f + 1 := ⟨fuel - 1, by omega⟩
      obtain ⟨s', hb, hR'⟩ := bodyQ1_half habs peaks L m s c b a rows hR h
      have hc : rainflow2_slow_while1_cond peaks (L : Int) s = true := by
        simp [rainflow2_slow_while1_cond, hR.hj]
      have hc' : rainflow2_slow_while1_cond peaks (L : Int) s' = false := by
        simp [rainflow2_slow_while1_cond, hR'.hj]
      obtain ⟨fuel, rfl⟩ : ∃ f, fuel = f + 1 := ⟨fuel - 1, by simp at hf; omega⟩
      refine ⟨s', ?_, hR'⟩
      simp [whileLoop, hc, hb, hc']
  | case3 c b a r rest h =>
      intro s rows fuel hR hf h0
      obtain ⟨fuel, rfl⟩ : ∃ f, fuel = f + 1 := ⟨fuel - 1, by omega⟩
      obtain ⟨s', hb, hR'⟩ := bodyQ1_brk habs peaks L m s c b a (r :: rest) rows hR h
      have hc : rainflow2_slow_while1_cond peaks (L : Int) s = true := by
        simp [rainflow2_slow_while1_cond, hR.hj]; omega
      refine ⟨s', ?_, by simpa using hR'⟩
      simp [whileLoop, hc, hb]
  | case4 c b a r rest h res ih =>
      intro s rows fuel hR hf h0
      obtain ⟨fuel, rfl⟩ : ∃ f, fuel = f + 1 := ⟨fuel - 1, by omega⟩
      obtain ⟨s', hb, hR'⟩ := bodyQ1_full habs peaks L m s c b a r rest rows hR h
      have hc : rainflow2_slow_while1_cond peaks (L : Int) s = true := by
        simp [rainflow2_slow_while1_cond, hR.hj]; omega
      obtain ⟨s'', hw, hR''⟩ := ih s' _ fuel hR' (by simp at hf ⊢; omega) (by simp at hf; omega)
      refine ⟨s'', ?_, ?_⟩
      · simp [whileLoop, hc, hb, hw]
      · simpa [res] using hR''
  | case5 st h1 h2 =>
      intro s rows fuel hR hf h0
      obtain ⟨fuel, rfl⟩ : ∃ f, fuel = f + 1 := ⟨fuel - 1, by omega⟩
      have hlen : st.length < 3 := by
        match st, h1, h2 with
        | [], _, _ => simp
        | [a], _, _ => simp
        | [a, b], _, _ => simp
        | [c, b, a], h1, _ => exact absurd rfl (h1 c b a)
        | c :: b :: a :: r :: rest, _, h2 => exact absurd rfl (h2 c b a r rest)
      have hc : rainflow2_slow_while1_cond peaks (L : Int) s = false := by
        simp [rainflow2_slow_while1_cond, hR.hj]; omega
      refine ⟨s, ?_, by simpa using hR⟩
      simp [whileLoop, hc]

theorem forQ1_sim (habs : ∀ a b : α, Ops.abs (a - b) = absd a b) (pts : List α) (k : Nat)
    (hk : k < pts.length) (fuel : Nat) (hf : pts.length ≤ fuel)
    (s : Rainflow2SlowSt α) (st : List (α × Nat)) (rows : List (Cyc α))
    (hR : RelQ1 pts.length k s st rows) :
    ∃ s', rainflow2_slow_for1_body fuel (Arr.ofList pts) (pts.length : Int) (k : Int) s = some s' ∧
      RelQ1 pts.length (k + 1) s' (step (st, rows) (pts[k], k)).1 (step (st, rows) (pts[k], k)).2 := by
  obtain ⟨psize, csize, hj, hpts, hfull, hbound, hm⟩ := hR
  have ej : s.j + 1 = ((st.length : Nat) : Int) := by omega
  have hs : st.length < s.pts.size := by omega
  unfold rainflow2_slow_for1_body
  simp only [Arr.get_natCast, Arr.val_ofList, List.getElem?_eq_getElem hk, Option.bind_eq_bind,
    Option.bind_some, ej]
  rw [Arr.set_natCast _ _ _ hs]
  simp only [Option.bind_some]
  have hpp := hpts.push (by simpa using hs) pts[k]
  simp only [List.length_map] at hpp
  have hR1 : RelQ1 pts.length (k + 1)
      ({ s with k := (k : Int), j := (st.length : Int), pts := s.pts.upd st.length pts[k] } : Rainflow2SlowSt α)
      ((pts[k], k) :: st) rows :=
    ⟨by simpa using psize, csize, by simp, by simpa using hpp, hfull, by simp; omega, by omega⟩
  obtain ⟨s', hw, hR'⟩ := whileQ1_sim habs (Arr.ofList pts) pts.length (k + 1) ((pts[k], k) :: st) _ rows fuel hR1
    (by simp; omega) (by omega)
  refine ⟨s', ?_, by simpa [step] using hR'⟩
  simp [hw]

/-- pass one counts exactly the full cycles of the model and never fails -/
theorem passone2_sim (habs : ∀ a b : α, Ops.abs (a - b) = absd a b)
    (pts : List α) (fuel : Nat) (hf : pts.length ≤ fuel)
    (s0 : Rainflow2SlowSt α) (hR0 : RelQ1 pts.length 0 s0 [] []) :
    ∃ s1, forRange (pts.length : Int) (rainflow2_slow_for1_body fuel (Arr.ofList pts) (pts.length : Int)) s0 = some s1 ∧
      RelQ1 pts.length pts.length s1 (fold2 pts pts.length).1 (fold2 pts pts.length).2 := by
  exact forRange_inv
    (fun k s => RelQ1 pts.length k s (fold2 pts k).1 (fold2 pts k).2)
    pts.length (rainflow2_slow_for1_body fuel (Arr.ofList pts) (pts.length : Int)) s0
    (by simpa [fold2] using hR0)
    (by
      intro k s hk hR
      obtain ⟨s', hb, hR'⟩ := forQ1_sim habs pts k hk fuel hf s _ _ hR
      refine ⟨s', hb, ?_⟩
      rw [fold2_succ pts k hk]; exact hR')

end PyYetiVerif.RainflowGen
