import PyYetiVerif.Model.Op2ReadForms
import PyYetiVerif.Lemmas.Op2ReadTab
import PyYetiVerif.Lemmas.Op2ReadMat
import PyYetiVerif.Lemmas.Op4VariantsRead
/-! C11: `rdop2record(form, N)` of Model/Op2ReadForms.lean on the encoder's table records: every form decodes the
same payload bytes; `N` equal to the item count changes nothing. -/
namespace PyYetiVerif.Op2RF
open PyYetiVerif.Op4 (Endian)
open PyYetiVerif.Op2
open PyYetiVerif.Op2R
open PyYetiVerif.Op4V (natBytes intBytes)

/-! ### cutting bytes into items -/

theorem chunks_append (w : Nat) : ∀ (a : Nat) (X : List Nat), X.length = a * w → ∀ (b : Nat) (Y : List Nat),
    chunks w (a + b) (X ++ Y) = chunks w a X ++ chunks w b Y := by
  intro a
  induction a with
  | zero =>
    intro X hX b Y
    have : X = [] := List.eq_nil_of_length_eq_zero (by simpa using hX)
    subst this
    simp [chunks_zero]
  | succ a ih =>
    intro X hX b Y
    have hlen : w ≤ X.length := by rw [hX, Nat.succ_mul]; omega
    rw [show a + 1 + b = (a + b) + 1 by omega, chunks_succ, chunks_succ]
    rw [List.take_append_of_le_length hlen, List.drop_append_of_le_length hlen]
    rw [ih (X.drop w) (by rw [List.length_drop, hX, Nat.succ_mul]; omega) b Y]
    rfl

theorem chunks_prefix (w n : Nat) (X rest : List Nat) (h : X.length = n * w) :
    chunks w n (X ++ rest) = chunks w n X := by
  have := chunks_append w n X h 0 rest
  rw [Nat.add_zero, chunks_zero, List.append_nil] at this
  exact this

/-- items of `w` bytes of a concatenation = items of the parts, when the first part holds whole items -/
theorem reinterp_append (e : Endian) (w : Nat) (hw : 0 < w) (X Y : List Nat) (h : w ∣ X.length) :
    reinterp e w (X ++ Y) = reinterp e w X ++ reinterp e w Y := by
  obtain ⟨a, ha⟩ := h
  unfold reinterp
  have h1 : X.length / w = a := by rw [ha, Nat.mul_div_cancel_left _ hw]
  have h2 : (X ++ Y).length / w = a + Y.length / w := by
    rw [List.length_append, ha, Nat.mul_add_div hw]
  simp only [h1, h2, chunks_append w a X (by rw [ha, Nat.mul_comm]), List.map_append]

/-- both value-reading paths return the items of a payload that holds exactly `n` of them -/
theorem rdItems_payload (e : Endian) (cut : Int) (w : Nat) (hw : 0 < w) (n : Nat) (X rest : List Nat)
    (h : X.length = n * w) :
    rdItems e cut w (n : Int) (X ++ rest) = .ok ((chunks w n X).map (natOfBytes e), rest) := by
  have hnn : ¬ ((n : Int) < 0) := by omega
  unfold rdItems
  simp only [Int.toNat_natCast, hnn, if_false]
  split
  · rw [← h, List.take_left' rfl, List.drop_left' rfl]
    simp only [if_true]
  · have hmin : min n ((X ++ rest).length / w) = n := by
      apply Nat.min_eq_left
      rw [Nat.le_div_iff_mul_le hw, List.length_append, h]; omega
    rw [hmin, chunks_prefix w n X rest h, ← h, List.drop_left' rfl]

/-! ### the numeric forms, `N = 0` -/

def rdPiecesFrom (v : V2) (cut : Int) (w fuel : Nat) (s : List Nat) (acc : List Nat) : M (List Nat × List Nat) :=
  match getKey v s with
  | .error e => .error e
  | .ok (key, s) => rdPieces v cut w fuel key s acc

theorem div_len (v : V2) (w : Nat) (hw : 0 < w) (p : List Int) (hd : w ∣ p.length * kb v) :
    (((keys v p).length : Nat) : Int) / (w : Int) = (((keys v p).length / w : Nat) : Int) ∧
      (keys v p).length = ((keys v p).length / w) * w := by
  rw [length_keys]
  refine ⟨(Int.natCast_ediv _ _).symm, ?_⟩
  obtain ⟨a, ha⟩ := hd
  rw [ha, Nat.mul_div_cancel_left _ hw, Nat.mul_comm]

theorem rdPiecesFrom_enc (v : V2) (cut : Int) (w : Nat) (hw : 0 < w) (neg : Int) (hneg : neg < 0) (hnk : InKey v neg)
    (tail : List Nat) :
    ∀ (pieces : List (List Int)) (acc : List Nat) (fuel : Nat),
      (∀ p ∈ pieces, PieceOk v p ∧ w ∣ p.length * kb v) → pieces.length < fuel →
      rdPiecesFrom v cut w fuel (pieces.flatMap (encPiece v) ++ (K v neg ++ tail)) acc
        = .ok (acc ++ pieces.flatMap (fun p => reinterp v.e w (keys v p)), tail) := by
  intro pieces
  induction pieces with
  | nil =>
    intro acc fuel _ hf
    cases fuel with
    | zero => omega
    | succ f =>
      have : ¬ (neg > 0) := by omega
      simp only [rdPiecesFrom, List.flatMap_nil, List.nil_append, getKey_K v neg _ hnk, rdPieces, this, if_false,
        List.append_nil]
  | cons p t ih =>
    intro acc fuel hok hf
    cases fuel with
    | zero => omega
    | succ f =>
      obtain ⟨hp, hd⟩ := hok p List.mem_cons_self
      obtain ⟨hck, hcp⟩ := hp.count
      have hkl : (keys v p).length < 2147483648 := by rw [length_keys]; exact hp.len
      obtain ⟨hn, hl⟩ := div_len v w hw p hd
      simp only [rdPiecesFrom, List.flatMap_cons, encPiece, List.append_assoc, getKey_K v _ _ hck, rdPieces,
        gt_iff_lt, hcp, if_true, rdI4_R v _ _ hkl, hn, rdItems_payload v.e cut w hw _ (keys v p) _ hl, drop4_mark]
      have := ih (acc ++ reinterp v.e w (keys v p)) f (fun x hx => hok x (List.mem_cons_of_mem _ hx)) (by simpa using hf)
      simp only [rdPiecesFrom, List.append_assoc] at this
      exact this

/-- the payload bytes of a record: the keys of all its pieces -/
def payload (v : V2) (pieces : List (List Int)) : List Nat := pieces.flatMap (keys v)

theorem flatMap_reinterp (v : V2) (w : Nat) (hw : 0 < w) (pieces : List (List Int))
    (hd : ∀ p ∈ pieces, w ∣ p.length * kb v) :
    pieces.flatMap (fun p => reinterp v.e w (keys v p)) = reinterp v.e w (payload v pieces) := by
  induction pieces with
  | nil => simp [payload, reinterp, chunks_zero]
  | cons p t ih =>
    have h1 : w ∣ (keys v p).length := by rw [length_keys]; exact hd p List.mem_cons_self
    simp only [List.flatMap_cons, payload]
    rw [reinterp_append v.e w hw _ _ h1, ih (fun x hx => hd x (List.mem_cons_of_mem _ hx))]
    rfl

theorem payload_eq (v : V2) (pieces : List (List Int)) : payload v pieces = keys v pieces.flatten := by
  unfold payload keys
  induction pieces with
  | nil => rfl
  | cons p t ih => simp only [List.flatMap_cons, List.flatten_cons, List.flatMap_append, ih]

/-! ### the numeric forms, `N > 0` -/

def rdPiecesNFrom (v : V2) (cut : Int) (w fuel : Nat) (s : List Nat) (data : List Nat) (i : Int) :
    M (List Nat × Int × List Nat) :=
  match getKey v s with
  | .error e => .error e
  | .ok (key, s) => rdPiecesN v cut w fuel key s data i

theorem length_reinterp (e : Endian) (w : Nat) (b : List Nat) : (reinterp e w b).length = b.length / w := by
  simp [reinterp, length_chunks]

theorem rdPiecesNFrom_enc (v : V2) (cut : Int) (w : Nat) (hw : 0 < w) (neg : Int) (hneg : neg < 0) (hnk : InKey v neg)
    (tail : List Nat) :
    ∀ (pieces : List (List Int)) (done : List Nat) (k : Nat) (fuel : Nat),
      (∀ p ∈ pieces, PieceOk v p ∧ w ∣ p.length * kb v) → pieces.length < fuel →
      k = (pieces.flatMap (fun p => reinterp v.e w (keys v p))).length →
      rdPiecesNFrom v cut w fuel (pieces.flatMap (encPiece v) ++ (K v neg ++ tail)) (done ++ List.replicate k 0)
          (done.length : Int)
        = .ok (done ++ pieces.flatMap (fun p => reinterp v.e w (keys v p)),
            ((done.length + k : Nat) : Int), tail) := by
  intro pieces
  induction pieces with
  | nil =>
    intro done k fuel _ hf hk
    cases fuel with
    | zero => omega
    | succ f =>
      have : ¬ (neg > 0) := by omega
      simp only [List.flatMap_nil, List.length_nil] at hk
      subst hk
      simp only [rdPiecesNFrom, List.flatMap_nil, List.nil_append, getKey_K v neg _ hnk, rdPiecesN, this, if_false,
        List.replicate_zero, List.append_nil, Nat.add_zero]
  | cons p t ih =>
    intro done k fuel hok hf hk
    cases fuel with
    | zero => omega
    | succ f =>
      obtain ⟨hp, hd⟩ := hok p List.mem_cons_self
      obtain ⟨hck, hcp⟩ := hp.count
      have hkl : (keys v p).length < 2147483648 := by rw [length_keys]; exact hp.len
      obtain ⟨hn, hl⟩ := div_len v w hw p hd
      simp only [List.flatMap_cons, List.length_append] at hk
      generalize hk' : (t.flatMap (fun p => reinterp v.e w (keys v p))).length = k' at hk
      subst hk
      have hcur : (chunks w ((keys v p).length / w) (keys v p)).map (natOfBytes v.e) = reinterp v.e w (keys v p) := rfl
      have hql : (((keys v p).length / w : Nat) : Int) = ((reinterp v.e w (keys v p)).length : Int) := by
        rw [length_reinterp]
      simp only [List.flatMap_cons]
      generalize reinterp v.e w (keys v p) = q at *
      have hfit : done.length + q.length ≤ (done ++ List.replicate (q.length + k') 0).length := by
        rw [List.length_append, List.length_replicate]; omega
      have hassign := assignSlice_fits (done ++ List.replicate (q.length + k') 0) done.length q hfit
      have hres : (done ++ List.replicate (q.length + k') 0).take done.length ++ q ++
          (done ++ List.replicate (q.length + k') 0).drop (done.length + q.length)
          = (done ++ q) ++ List.replicate k' 0 := by
        rw [List.take_left' rfl, List.drop_append, List.drop_eq_nil_of_le (by omega), List.nil_append,
          List.drop_replicate]
        congr 2; omega
      simp only [rdPiecesNFrom, List.flatMap_cons, encPiece, List.append_assoc, getKey_K v _ _ hck, rdPiecesN,
        gt_iff_lt, hcp, if_true, rdI4_R v _ _ hkl, hn, rdItems_payload v.e cut w hw _ (keys v p) _ hl, hcur]
      rw [hql, hassign, hres]
      simp only [drop4_mark]
      have := ih (done ++ q) k' f (fun x hx => hok x (List.mem_cons_of_mem _ hx)) (by simpa using hf) hk'.symm
      simp only [rdPiecesNFrom, List.length_append] at this
      have e1 : ((done.length : Nat) : Int) + ((q.length : Nat) : Int) = ((done.length + q.length : Nat) : Int) := by omega
      rw [e1]
      exact this.trans (by simp only [List.append_assoc, Nat.add_assoc])

/-! ### the `bytes` form -/

def rdBytesFrom (v : V2) (fuel : Nat) (s : List Nat) (acc : List Nat) : M (List Nat × List Nat) :=
  match getKey v s with
  | .error e => .error e
  | .ok (key, s) => rdBytesPieces v fuel key s acc

theorem rdBytesPieces_step (v : V2) (f : Nat) (key : Int) (s acc : List Nat) (reclen : Int) (s1 b s2 : List Nat)
    (hk : key > 0) (h1 : rdI4 v s = .ok (reclen, s1)) (h2 : pyRead reclen s1 = .ok (b, s2)) :
    rdBytesPieces v (f + 1) key s acc = rdBytesFrom v f (s2.drop 4) (acc ++ b) := by
  rw [rdBytesPieces, if_pos hk, h1]
  dsimp only
  rw [h2]
  rfl

theorem rdBytesFrom_enc (v : V2) (neg : Int) (hneg : neg < 0) (hnk : InKey v neg) (tail : List Nat) :
    ∀ (pieces : List (List Int)) (acc : List Nat) (fuel : Nat), (∀ p ∈ pieces, PieceOk v p) → pieces.length < fuel →
      rdBytesFrom v fuel (pieces.flatMap (encPiece v) ++ (K v neg ++ tail)) acc = .ok (acc ++ payload v pieces, tail) := by
  intro pieces
  induction pieces with
  | nil =>
    intro acc fuel _ hf
    cases fuel with
    | zero => omega
    | succ f =>
      have : ¬ (neg > 0) := by omega
      simp only [rdBytesFrom, List.flatMap_nil, List.nil_append, getKey_K v neg _ hnk, rdBytesPieces, this, if_false,
        payload, List.append_nil]
  | cons p t ih =>
    intro acc fuel hok hf
    cases fuel with
    | zero => omega
    | succ f =>
      have hp := hok p List.mem_cons_self
      obtain ⟨hck, hcp⟩ := hp.count
      have hkl : (keys v p).length < 2147483648 := by rw [length_keys]; exact hp.len
      have := ih (acc ++ keys v p) f (fun x hx => hok x (List.mem_cons_of_mem _ hx)) (by simpa using hf)
      rw [List.flatMap_cons, encPiece, List.append_assoc, List.append_assoc, rdBytesFrom, getKey_K v _ _ hck]
      dsimp only
      rw [rdBytesPieces_step v f _ _ _ _ _ _ _ hcp (rdI4_R v _ _ hkl) (pyRead_len _ _ hkl), drop4_mark]
      exact this.trans (by simp only [payload, List.flatMap_cons, List.append_assoc])

/-! ### what the integer form shows -/

theorem intOfBytes_eq_asInt (e : Endian) (b : List Nat) : intOfBytes e b = asInt b.length (natOfBytes e b) := rfl

theorem chunk_lengths (w : Nat) : ∀ (n : Nat) (X : List Nat), X.length = n * w → ∀ c ∈ chunks w n X, c.length = w := by
  intro n
  induction n with
  | zero => intro X _ c hc; simp [chunks_zero] at hc
  | succ n ih =>
    intro X hX c hc
    rw [chunks_succ] at hc
    rcases List.mem_cons.1 hc with rfl | hc
    · rw [List.length_take, hX, Nat.succ_mul]; omega
    · exact ih (X.drop w) (by rw [List.length_drop, hX, Nat.succ_mul]; omega) c hc

/-- the patterns of the key-wide items of a key list, read as two's complement, are the keys -/
theorem asInt_reinterp_keys (v : V2) (xs : List Int) (h : ∀ x ∈ xs, InKey v x) :
    (reinterp v.e (kb v) (keys v xs)).map (asInt (kb v)) = xs := by
  have hu := unpackInts_keys v xs h
  have hl := length_keys v xs
  unfold unpackInts at hu
  rw [if_pos hl] at hu
  have hu' := Except.ok.inj hu
  unfold reinterp
  rw [hl, Nat.mul_div_cancel _ (kb_pos v), List.map_map]
  refine Eq.trans ?_ hu'
  apply List.map_congr_left
  intro c hc
  have := chunk_lengths (kb v) xs.length (keys v xs) hl c hc
  simp only [Function.comp, intOfBytes_eq_asInt, this]

end PyYetiVerif.Op2RF
